#!/bin/bash
# tools_commit_suite_missing.sh [parallel] — like tools_commit_suite.sh, but only for commits that have no rc=0 line in
# notes/commit_suite.log yet (new commits, or commits whose earlier run failed, e.g. a timing-sensitive test on a loaded machine)
PAR=${1:-2}
export GOFLAGS=-mod=mod GOPROXY=off
BASE=$(git -C /repo rev-list --max-parents=0 HEAD | tail -1)
OUT=/verif/notes/commit_suite.log
touch $OUT
one() {
  c=$1; wt=/tmp/cs_$c
  git -C /repo worktree add --detach $wt $c >/dev/null 2>&1 || { echo "$c worktree-failed" >> $OUT; return; }
  (cd $wt && unshare -n sh -c "ip link set lo up; go test -count=1 -vet=off ./... " > /tmp/cs_$c.log 2>&1); rc=$?
  fails=$(grep -- '^--- FAIL\|^FAIL' /tmp/cs_$c.log | head -4 | tr '\n' ';')
  echo "$c rc=$rc $(git -C /repo log -1 --format=%s $c | cut -c1-80) $fails" >> $OUT
  git -C /repo worktree remove --force $wt; rm -f /tmp/cs_$c.log
}
export -f one; export OUT
for c in $(git -C /repo rev-list --reverse --abbrev-commit $BASE..HEAD); do
  grep -q "^$c rc=0 " $OUT || echo $c
done | xargs -P $PAR -I{} bash -c 'one {}'
git -C /repo worktree prune
# keep only the last line per commit, in history order
python3 - <<'PY'
import subprocess
log={}
for l in open('/verif/notes/commit_suite.log'):
    if l.strip(): log[l.split()[0]]=l
order=subprocess.run("git -C /repo rev-list --reverse --abbrev-commit $(git -C /repo rev-list --max-parents=0 HEAD | tail -1)..HEAD",shell=True,capture_output=True,text=True).stdout.split()
open('/verif/notes/commit_suite.log','w').write(''.join(log[c] for c in order if c in log))
print("commits:",len(order),"pass:",sum(1 for c in order if c in log and ' rc=0 ' in log[c]),"not:",[c for c in order if c not in log or ' rc=0 ' not in log[c]])
PY
