package gen

import (
	"math"
	"reflect"
)

// DeepEqual is reflect.DeepEqual, except that a NaN equals a NaN: a decoded value that contains a
// floating-point field (link-bandwidth extended community, BMP/MRT timestamps) must compare equal
// to a second decode of the very same octets.
func DeepEqual(a, b any) bool {
	if reflect.DeepEqual(a, b) {
		return true
	}
	return deepEqNaN(reflect.ValueOf(a), reflect.ValueOf(b), 0)
}

func deepEqNaN(a, b reflect.Value, depth int) bool {
	if depth > 64 {
		return true // (cyclic values do not occur in decoded messages; stop anyway)
	}
	if !a.IsValid() || !b.IsValid() {
		return a.IsValid() == b.IsValid()
	}
	if a.Type() != b.Type() {
		return false
	}
	switch a.Kind() {
	case reflect.Float32, reflect.Float64:
		x, y := a.Float(), b.Float()
		return x == y || (math.IsNaN(x) && math.IsNaN(y))
	case reflect.Complex64, reflect.Complex128:
		x, y := a.Complex(), b.Complex()
		return x == y || (x != x && y != y)
	case reflect.Ptr, reflect.Interface:
		if a.IsNil() || b.IsNil() {
			return a.IsNil() == b.IsNil()
		}
		return deepEqNaN(a.Elem(), b.Elem(), depth+1)
	case reflect.Struct:
		for i := 0; i < a.NumField(); i++ {
			if !deepEqNaN(a.Field(i), b.Field(i), depth+1) {
				return false
			}
		}
		return true
	case reflect.Slice:
		if a.IsNil() != b.IsNil() {
			return false
		}
		fallthrough
	case reflect.Array:
		if a.Len() != b.Len() {
			return false
		}
		for i := 0; i < a.Len(); i++ {
			if !deepEqNaN(a.Index(i), b.Index(i), depth+1) {
				return false
			}
		}
		return true
	case reflect.Map:
		if a.IsNil() != b.IsNil() || a.Len() != b.Len() {
			return false
		}
		for _, k := range a.MapKeys() {
			bv := b.MapIndex(k)
			if !bv.IsValid() || !deepEqNaN(a.MapIndex(k), bv, depth+1) {
				return false
			}
		}
		return true
	case reflect.Func:
		return a.IsNil() && b.IsNil()
	case reflect.Bool:
		return a.Bool() == b.Bool()
	case reflect.Int, reflect.Int8, reflect.Int16, reflect.Int32, reflect.Int64:
		return a.Int() == b.Int()
	case reflect.Uint, reflect.Uint8, reflect.Uint16, reflect.Uint32, reflect.Uint64, reflect.Uintptr:
		return a.Uint() == b.Uint()
	case reflect.String:
		return a.String() == b.String()
	case reflect.Chan, reflect.UnsafePointer:
		return a.Pointer() == b.Pointer()
	}
	return false
}
