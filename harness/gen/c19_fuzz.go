// Package gen holds generators shared by several /verif harness packages.
// This file (owner: C19) has the protocol-independent part of the C19 codec monitors:
// structure-aware byte mutators, slack/poison buffers for over-read detection, error
// classification and the bufio.SplitFunc contract monitor.
package gen

import (
	"bufio"
	"bytes"
	"encoding/binary"
	"encoding/hex"
	"fmt"
	"io"
	"math/rand/v2"
	"strings"

	"github.com/osrg/gobgp/v4/internal/verif/vlib"
)

// C19Field names a length / count / type field inside a valid serialised message.
type C19Field struct{ Off, Size int }

// C19Hex renders bytes for witnesses (bounded).
func C19Hex(b []byte) string {
	if len(b) > 2048 {
		return hex.EncodeToString(b[:2048]) + fmt.Sprintf("...(+%d bytes)", len(b)-2048)
	}
	return hex.EncodeToString(b)
}

// C19RandomBytes draws a pure-random input; lengths are biased towards the small sizes where
// header guards live.
func C19RandomBytes(r *rand.Rand, max int) []byte {
	var n int
	switch r.IntN(4) {
	case 0:
		n = r.IntN(16)
	case 1:
		n = r.IntN(64)
	default:
		n = r.IntN(max + 1)
	}
	b := make([]byte, n)
	for i := range b {
		b[i] = byte(r.Uint32())
	}
	if n > 0 && r.IntN(3) == 0 { // long runs of 0x00 / 0xff are what length fields choke on
		v := byte(0)
		if r.IntN(2) == 0 {
			v = 0xff
		}
		i := r.IntN(n)
		for j := i; j < n && j < i+8; j++ {
			b[j] = v
		}
	}
	return b
}

func c19SetField(r *rand.Rand, b []byte, off, size int) {
	if off < 0 || off+size > len(b) {
		return
	}
	var cur uint64
	switch size {
	case 1:
		cur = uint64(b[off])
	case 2:
		cur = uint64(binary.BigEndian.Uint16(b[off:]))
	case 4:
		cur = uint64(binary.BigEndian.Uint32(b[off:]))
	default:
		return
	}
	max := uint64(1)<<(8*uint(size)) - 1
	var v uint64
	switch r.IntN(12) {
	case 0:
		v = 0
	case 1:
		v = max
	case 2:
		v = cur + 1
	case 3:
		v = cur - 1
	case 4:
		v = 1
	case 5:
		v = max - 1
	case 6:
		v = cur + uint64(1+r.IntN(8))
	case 7:
		v = cur - uint64(1+r.IntN(8))
	case 8:
		v = uint64(len(b)) // whole-buffer length in a field that should be smaller
	case 9:
		v = max / 2
	case 10:
		v = max/2 + 1
	default:
		v = r.Uint64()
	}
	v &= max
	switch size {
	case 1:
		b[off] = byte(v)
	case 2:
		binary.BigEndian.PutUint16(b[off:], uint16(v))
	case 4:
		binary.BigEndian.PutUint32(b[off:], uint32(v))
	}
}

// C19Mutate returns a structure-aware mutation of a valid serialised message: bit flips, byte
// overwrites, length fields set to 0/1/max/+-1, truncation, extension, chunk duplication and
// splicing. fields may name known length fields; windows elsewhere are also treated as lengths.
func C19Mutate(r *rand.Rand, valid []byte, fields []C19Field) ([]byte, string) {
	b := append([]byte(nil), valid...)
	kinds := make([]string, 0, 3)
	n := 1 + r.IntN(3)
	for k := 0; k < n; k++ {
		switch op := r.IntN(12); {
		case len(b) == 0:
			b = C19RandomBytes(r, 32)
			kinds = append(kinds, "rand")
		case op == 0: // bit flip
			i := r.IntN(len(b))
			b[i] ^= 1 << uint(r.IntN(8))
			kinds = append(kinds, "bit")
		case op == 1: // byte overwrite with an interesting value
			i := r.IntN(len(b))
			b[i] = []byte{0, 1, 2, 0x7f, 0x80, 0xfe, 0xff, byte(r.Uint32())}[r.IntN(8)]
			kinds = append(kinds, "byte")
		case op <= 4 && len(fields) > 0: // known length field
			f := fields[r.IntN(len(fields))]
			c19SetField(r, b, f.Off, f.Size)
			kinds = append(kinds, "len")
		case op <= 5: // any window treated as a length field
			size := []int{1, 2, 2, 4}[r.IntN(4)]
			if len(b) >= size {
				c19SetField(r, b, r.IntN(len(b)-size+1), size)
			}
			kinds = append(kinds, "win")
		case op == 6: // truncate
			b = b[:r.IntN(len(b)+1)]
			kinds = append(kinds, "trunc")
		case op == 7: // truncate by a few bytes at the end (the off-by-one class)
			c := 1 + r.IntN(4)
			if c > len(b) {
				c = len(b)
			}
			b = b[:len(b)-c]
			kinds = append(kinds, "trunc1")
		case op == 8: // extend
			b = append(b, C19RandomBytes(r, 24)...)
			kinds = append(kinds, "ext")
		case op == 9: // duplicate a chunk (TLV duplication)
			i := r.IntN(len(b))
			j := i + 1 + r.IntN(len(b)-i)
			chunk := append([]byte(nil), b[i:j]...)
			at := r.IntN(len(b) + 1)
			b = append(b[:at:at], append(chunk, b[at:]...)...)
			kinds = append(kinds, "dup")
		case op == 10: // delete a chunk
			i := r.IntN(len(b))
			j := i + 1 + r.IntN(min(len(b)-i, 8))
			b = append(b[:i:i], b[j:]...)
			kinds = append(kinds, "del")
		default: // insert random bytes
			at := r.IntN(len(b) + 1)
			ins := C19RandomBytes(r, 6)
			b = append(b[:at:at], append(ins, b[at:]...)...)
			kinds = append(kinds, "ins")
		}
	}
	return b, strings.Join(kinds, "+")
}

// C19Splice glues the head of one valid message to the tail of another.
func C19Splice(r *rand.Rand, a, b []byte) []byte {
	i, j := 0, 0
	if len(a) > 0 {
		i = r.IntN(len(a) + 1)
	}
	if len(b) > 0 {
		j = r.IntN(len(b) + 1)
	}
	out := append([]byte(nil), a[:i]...)
	return append(out, b[j:]...)
}

// C19Exact copies b into a slice whose capacity equals its length: any read past the data panics.
func C19Exact(b []byte) []byte {
	out := make([]byte, len(b), len(b))
	copy(out, b)
	return out
}

// C19Slack copies b into a slice with the same length but n extra bytes of capacity filled with
// poison. A decoder that re-slices past len(data) (legal up to cap) silently reads the poison;
// running it with two different poisons and comparing results exposes such over-reads.
func C19Slack(b []byte, poison byte, n int) []byte {
	buf := make([]byte, len(b)+n)
	copy(buf, b)
	for i := len(b); i < len(buf); i++ {
		buf[i] = poison
	}
	return buf[:len(b)]
}

// C19Trail appends n poison bytes *inside* the slice (for entry points that take a buffer which may
// hold more than the declared message).
func C19Trail(b []byte, poison byte, n int) []byte {
	buf := make([]byte, len(b)+n, len(b)+n)
	copy(buf, b)
	for i := len(b); i < len(buf); i++ {
		buf[i] = poison
	}
	return buf
}

// C19ErrClass abstracts an error to its text with digit runs and hex blobs stripped ("ok" for nil).
func C19ErrClass(err error) string {
	if err == nil {
		return "ok"
	}
	s := err.Error()
	var sb strings.Builder
	prevNum := false
	for _, c := range s {
		isNum := c >= '0' && c <= '9'
		if isNum {
			if !prevNum {
				sb.WriteByte('N')
			}
		} else {
			sb.WriteRune(c)
		}
		prevNum = isNum
		if sb.Len() >= 60 {
			break
		}
	}
	return sb.String()
}

// C19Watch counts inputs of one shard and writes a heavy mark every Nth input so that the driver's
// watchdog can attribute a hang or a process-fatal error to a case.
type C19Watch struct {
	Rec *vlib.Rec
	N   int
	cnt int
}

func (w *C19Watch) Mark(caseIdx int, ep string, in []byte) {
	w.cnt++
	n := w.N
	if n <= 0 {
		n = 256
	}
	if w.cnt%n == 1 {
		w.Rec.Mark(fmt.Sprintf("case=%d ep=%s in=%s", caseIdx, ep, C19Hex(in)), true)
	} else {
		w.Rec.Mark(fmt.Sprintf("case=%d ep=%s", caseIdx, ep), false)
	}
}

// C19CheckSplit runs one call of a bufio.SplitFunc under the panic guard and checks the contract the
// property states: 0 <= advance <= len(data), len(token) <= len(data), never a token together with a
// non-positive advance (bufio.Scanner would be handed the same bytes again), and the caller's
// buffer unmodified. It returns ok=false if the call panicked.
func C19CheckSplit(rec *vlib.Rec, proto, name string, split bufio.SplitFunc, data []byte, atEOF bool, caseIdx int) (adv int, tok []byte, err error, ok bool) {
	saved := append([]byte(nil), data...)
	wit := func() any {
		return map[string]any{"case": caseIdx, "split": name, "atEOF": atEOF, "data": C19Hex(saved), "cap_minus_len": cap(data) - len(data)}
	}
	if rec.Guard("c19:"+proto+":"+name, wit, func() { adv, tok, err = split(data, atEOF) }) {
		return 0, nil, nil, false
	}
	w := func(extra string) map[string]any {
		return map[string]any{"case": caseIdx, "split": name, "atEOF": atEOF, "data": C19Hex(saved), "advance": adv, "token_len": len(tok), "token_nil": tok == nil, "err": fmt.Sprint(err), "note": extra}
	}
	if !bytes.Equal(data, saved) {
		rec.Violation("c19:"+proto+":"+name+":buffer-modified", "split function modified the caller's buffer", w(""))
	}
	if adv < 0 {
		rec.Violation("c19:"+proto+":"+name+":negative-advance", "split function returned a negative advance", w(""))
	}
	if adv > len(data) {
		rec.Violation("c19:"+proto+":"+name+":advance-beyond-data", "split function advanced past the data it was given", w(""))
	}
	if len(tok) > len(data) {
		rec.Violation("c19:"+proto+":"+name+":token-longer-than-data", "split function returned a token longer than the data it was given", w(""))
	}
	if tok != nil && adv <= 0 && err == nil {
		rec.Violation("c19:"+proto+":"+name+":token-without-advance", "split function returned a token with a non-positive advance (Scanner sees the same bytes again; 100 repeats make bufio panic)", w(""))
	}
	return adv, tok, err, true
}

type c19ChunkReader struct {
	b      []byte
	r      *rand.Rand
	maxChk int
}

func (c *c19ChunkReader) Read(p []byte) (int, error) {
	if len(c.b) == 0 {
		return 0, io.EOF
	}
	n := 1 + c.r.IntN(c.maxChk)
	if n > len(p) {
		n = len(p)
	}
	if n > len(c.b) {
		n = len(c.b)
	}
	copy(p, c.b[:n])
	c.b = c.b[n:]
	return n, nil
}

// C19ScanStream feeds stream through a real bufio.Scanner with the split function, delivered in
// random chunk sizes into a small initial buffer (so that cap > len situations and buffer growth
// and compaction happen). It returns copies of the tokens and the scanner's error; a panic (from
// the split function or bufio's "too many empty tokens" guard) is recorded as a violation.
func C19ScanStream(rec *vlib.Rec, proto, name string, split bufio.SplitFunc, stream []byte, r *rand.Rand, caseIdx int) (toks [][]byte, err error, panicked bool) {
	rd := &c19ChunkReader{b: stream, r: r, maxChk: []int{1, 3, 7, 16, 64, 4096}[r.IntN(6)]}
	sc := bufio.NewScanner(rd)
	sc.Buffer(make([]byte, 0, []int{1, 8, 16, 64, 4096}[r.IntN(5)]), 1<<20)
	// poison the scanner's spare capacity the way a reused buffer would be dirty
	wit := func() any {
		return map[string]any{"case": caseIdx, "split": name, "stream": C19Hex(stream)}
	}
	budget := len(stream) + 256
	panicked = rec.Guard("c19:"+proto+":"+name+":scanner", wit, func() {
		sc.Split(split)
		for sc.Scan() {
			toks = append(toks, append([]byte(nil), sc.Bytes()...))
			budget--
			if budget < 0 {
				rec.Violation("c19:"+proto+":"+name+":scanner-no-progress", "bufio.Scanner produced more tokens than the stream has bytes", wit())
				return
			}
		}
		err = sc.Err()
	})
	return toks, err, panicked
}
