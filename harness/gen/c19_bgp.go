package gen

// C19: small BGP payload generator for the MRT / BMP codec checks. The BGP codec itself is the
// subject of C04/C05; here BGP messages are only cargo, so every message handed out has been
// checked to round-trip at the BGP layer (otherwise a BGP-layer asymmetry would be blamed on MRT or
// BMP). Messages that do not round-trip at the BGP layer are counted and replaced.

import (
	"encoding/binary"
	"math/rand/v2"
	"net/netip"

	"github.com/osrg/gobgp/v4/pkg/packet/bgp"
)

func C19Addr4(r *rand.Rand) netip.Addr {
	var a [4]byte
	binary.BigEndian.PutUint32(a[:], r.Uint32())
	if r.IntN(8) == 0 {
		a = [4]byte{}
	}
	return netip.AddrFrom4(a)
}

func C19Addr6(r *rand.Rand) netip.Addr {
	var a [16]byte
	binary.BigEndian.PutUint64(a[:], r.Uint64())
	binary.BigEndian.PutUint64(a[8:], r.Uint64())
	switch r.IntN(10) {
	case 0:
		a = [16]byte{}
	case 1: // link-local
		a[0], a[1] = 0xfe, 0x80
	case 2: // v4-mapped v6 (stays a 16-byte address in netip)
		copy(a[:], []byte{0, 0, 0, 0, 0, 0, 0, 0, 0, 0, 0xff, 0xff})
	default:
		a[0] = 0x20
	}
	return netip.AddrFrom16(a)
}

func C19Prefix4(r *rand.Rand) netip.Prefix {
	p, _ := C19Addr4(r).Prefix(r.IntN(33))
	return p
}

func C19Prefix6(r *rand.Rand) netip.Prefix {
	var a [16]byte
	binary.BigEndian.PutUint64(a[:], r.Uint64())
	binary.BigEndian.PutUint64(a[8:], r.Uint64())
	p, _ := netip.AddrFrom16(a).Prefix(r.IntN(129))
	return p
}

// C19BaseAttrs draws path attributes that are family independent (no NEXT_HOP / MP_REACH).
func C19BaseAttrs(r *rand.Rand) []bgp.PathAttributeInterface {
	attrs := []bgp.PathAttributeInterface{bgp.NewPathAttributeOrigin(uint8(r.IntN(3)))}
	var segs []bgp.AsPathParamInterface
	for i, n := 0, r.IntN(3); i < n; i++ {
		as := make([]uint32, 1+r.IntN(4))
		for j := range as {
			as[j] = []uint32{uint32(1 + r.IntN(65000)), 65536 + r.Uint32N(1000000), 23456, 4200000000}[r.IntN(4)]
		}
		segs = append(segs, bgp.NewAs4PathParam(uint8(1+r.IntN(2)), as))
	}
	attrs = append(attrs, bgp.NewPathAttributeAsPath(segs))
	if r.IntN(2) == 0 {
		attrs = append(attrs, bgp.NewPathAttributeMultiExitDisc(r.Uint32()))
	}
	if r.IntN(2) == 0 {
		attrs = append(attrs, bgp.NewPathAttributeLocalPref(r.Uint32()))
	}
	if r.IntN(4) == 0 {
		attrs = append(attrs, bgp.NewPathAttributeAtomicAggregate())
	}
	if r.IntN(4) == 0 {
		if a, err := bgp.NewPathAttributeAggregator(uint32(1+r.IntN(1<<20)), C19Addr4(r)); err == nil {
			attrs = append(attrs, a)
		}
	}
	if r.IntN(2) == 0 {
		cs := make([]uint32, 1+r.IntN(5))
		for i := range cs {
			cs[i] = r.Uint32()
		}
		attrs = append(attrs, bgp.NewPathAttributeCommunities(cs))
	}
	if r.IntN(5) == 0 {
		if a, err := bgp.NewPathAttributeOriginatorId(C19Addr4(r)); err == nil {
			attrs = append(attrs, a)
		}
		if a, err := bgp.NewPathAttributeClusterList([]netip.Addr{C19Addr4(r), C19Addr4(r)}); err == nil {
			attrs = append(attrs, a)
		}
	}
	if r.IntN(3) == 0 {
		ecs := []bgp.ExtendedCommunityInterface{bgp.NewTwoOctetAsSpecificExtended(bgp.EC_SUBTYPE_ROUTE_TARGET, uint16(r.Uint32()), r.Uint32(), true)}
		if r.IntN(2) == 0 {
			ecs = append(ecs, bgp.NewFourOctetAsSpecificExtended(bgp.EC_SUBTYPE_ROUTE_ORIGIN, r.Uint32(), uint16(r.Uint32()), true))
		}
		attrs = append(attrs, bgp.NewPathAttributeExtendedCommunities(ecs))
	}
	if r.IntN(3) == 0 {
		lcs := make([]*bgp.LargeCommunity, 1+r.IntN(3))
		for i := range lcs {
			lcs[i] = bgp.NewLargeCommunity(r.Uint32(), r.Uint32(), r.Uint32())
		}
		attrs = append(attrs, bgp.NewPathAttributeLargeCommunities(lcs))
	}
	if r.IntN(6) == 0 { // unknown optional transitive attribute, also with extended length
		v := make([]byte, []int{0, 3, 40, 255, 256, 300}[r.IntN(6)])
		for i := range v {
			v[i] = byte(r.Uint32())
		}
		attrs = append(attrs, bgp.NewPathAttributeUnknown(bgp.BGP_ATTR_FLAG_OPTIONAL|bgp.BGP_ATTR_FLAG_TRANSITIVE, bgp.BGPAttrType(200+r.IntN(50)), v))
	}
	return attrs
}

// c19BGPCanon returns the parsed-back form of m (the canonical in-memory representation: empty
// instead of nil slices, header length filled in) if that form is a fixpoint of
// Serialize/ParseBGPMessage, else nil.
func c19BGPCanon(m *bgp.BGPMessage) *bgp.BGPMessage {
	defer func() { _ = recover() }()
	b, err := m.Serialize()
	if err != nil {
		return nil
	}
	m2, err := bgp.ParseBGPMessage(b)
	if err != nil {
		return nil
	}
	b2, err := m2.Serialize()
	if err != nil || string(b) != string(b2) {
		return nil
	}
	m3, err := bgp.ParseBGPMessage(b2)
	if err != nil || !DeepEqual(m2, m3) {
		return nil
	}
	return m2
}

// C19BGPUpdate builds an UPDATE with IPv4 unicast NLRI / withdrawals and optionally an IPv6 MP_REACH.
func C19BGPUpdate(r *rand.Rand) *bgp.BGPMessage {
	if r.IntN(12) == 0 {
		return bgp.NewTestBGPUpdateMessage() // the package's own many-family example
	}
	if r.IntN(12) == 0 {
		return bgp.NewEndOfRib([]bgp.Family{bgp.RF_IPv4_UC, bgp.RF_IPv6_UC, bgp.RF_IPv4_VPN, bgp.RF_EVPN}[r.IntN(4)])
	}
	var wd, nl []bgp.PathNLRI
	for i, n := 0, r.IntN(3); i < n; i++ {
		if p, err := bgp.NewIPAddrPrefix(C19Prefix4(r)); err == nil {
			wd = append(wd, bgp.PathNLRI{NLRI: p})
		}
	}
	for i, n := 0, r.IntN(4); i < n; i++ {
		if p, err := bgp.NewIPAddrPrefix(C19Prefix4(r)); err == nil {
			nl = append(nl, bgp.PathNLRI{NLRI: p})
		}
	}
	var attrs []bgp.PathAttributeInterface
	if len(nl) > 0 || r.IntN(2) == 0 {
		attrs = C19BaseAttrs(r)
		if nh, err := bgp.NewPathAttributeNextHop(C19Addr4(r)); err == nil {
			attrs = append(attrs, nh)
		}
		if r.IntN(3) == 0 {
			var v6 []bgp.PathNLRI
			for i, n := 0, 1+r.IntN(3); i < n; i++ {
				if p, err := bgp.NewIPAddrPrefix(C19Prefix6(r)); err == nil {
					v6 = append(v6, bgp.PathNLRI{NLRI: p})
				}
			}
			if mp, err := bgp.NewPathAttributeMpReachNLRI(bgp.RF_IPv6_UC, v6, C19Addr6(r)); err == nil {
				attrs = append(attrs, mp)
			}
		}
	}
	return bgp.NewBGPUpdateMessage(wd, attrs, nl)
}

func C19BGPOpen(r *rand.Rand) *bgp.BGPMessage {
	if r.IntN(6) == 0 {
		return bgp.NewTestBGPOpenMessage()
	}
	var caps []bgp.ParameterCapabilityInterface
	if r.IntN(2) == 0 {
		caps = append(caps, bgp.NewCapRouteRefresh())
	}
	for _, f := range []bgp.Family{bgp.RF_IPv4_UC, bgp.RF_IPv6_UC, bgp.RF_IPv4_VPN, bgp.RF_EVPN} {
		if r.IntN(2) == 0 {
			caps = append(caps, bgp.NewCapMultiProtocol(f))
		}
	}
	if r.IntN(2) == 0 {
		caps = append(caps, bgp.NewCapFourOctetASNumber(r.Uint32()))
	}
	if r.IntN(3) == 0 {
		caps = append(caps, bgp.NewCapAddPath([]*bgp.CapAddPathTuple{bgp.NewCapAddPathTuple(bgp.RF_IPv4_UC, bgp.BGPAddPathMode(1+r.IntN(3)))}))
	}
	if r.IntN(3) == 0 {
		caps = append(caps, bgp.NewCapGracefulRestart(r.IntN(2) == 0, r.IntN(2) == 0, uint16(r.IntN(4096)), []*bgp.CapGracefulRestartTuple{bgp.NewCapGracefulRestartTuple(bgp.RF_IPv4_UC, r.IntN(2) == 0)}))
	}
	if r.IntN(4) == 0 {
		caps = append(caps, bgp.NewCapExtendedMessage())
	}
	if r.IntN(4) == 0 {
		caps = append(caps, bgp.NewCapFQDN("rtr"+string(rune('a'+r.IntN(26))), "example.net"))
	}
	var params []bgp.OptionParameterInterface
	if len(caps) > 0 {
		if r.IntN(2) == 0 { // one capability per optional parameter
			for _, c := range caps {
				params = append(params, bgp.NewOptionParameterCapability([]bgp.ParameterCapabilityInterface{c}))
			}
		} else {
			params = append(params, bgp.NewOptionParameterCapability(caps))
		}
	}
	m, _ := bgp.NewBGPOpenMessage(uint16(r.Uint32()), uint16(r.Uint32()), C19Addr4(r), params)
	return m
}

func C19BGPNotification(r *rand.Rand) *bgp.BGPMessage {
	var data []byte
	if r.IntN(2) == 0 {
		data = make([]byte, 1+r.IntN(30))
		for i := range data {
			data[i] = byte(r.Uint32())
		}
	}
	return bgp.NewBGPNotificationMessage(uint8(1+r.IntN(6)), uint8(r.IntN(12)), data)
}

// C19BGPMessage draws a BGP message of the named kind ("open","update","notification","keepalive",
// "refresh", "" = any) in its canonical parsed form, which round-trips at the BGP layer. replaced
// reports that a drawn message did not and was redrawn / substituted by a plain message of the kind.
func C19BGPMessage(r *rand.Rand, kind string) (m *bgp.BGPMessage, replaced bool) {
	if kind == "" {
		kind = []string{"open", "update", "update", "update", "notification", "keepalive", "refresh"}[r.IntN(7)]
	}
	for try := 0; try < 4; try++ {
		switch kind {
		case "open":
			m = C19BGPOpen(r)
		case "update":
			m = C19BGPUpdate(r)
		case "notification":
			m = C19BGPNotification(r)
		case "refresh":
			m = bgp.NewBGPRouteRefreshMessage([]uint16{1, 2, 25}[r.IntN(3)], uint8(r.IntN(3)), []uint8{1, 2, 70, 128}[r.IntN(4)])
		default:
			m = bgp.NewBGPKeepAliveMessage()
		}
		if m != nil {
			if c := c19BGPCanon(m); c != nil {
				return c, replaced
			}
		}
		replaced = true
	}
	switch kind {
	case "open":
		m, _ = bgp.NewBGPOpenMessage(65000, 90, netip.MustParseAddr("192.0.2.1"), nil)
	case "update":
		m = bgp.NewBGPUpdateMessage(nil, nil, nil)
	case "notification":
		m = bgp.NewBGPNotificationMessage(6, 2, nil)
	default:
		m = bgp.NewBGPKeepAliveMessage()
	}
	if c := c19BGPCanon(m); c != nil {
		m = c
	}
	return m, true
}
