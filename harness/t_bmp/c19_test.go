package bmp

// C19 (BMP part) — ParseBMPMessage / SplitBMP / the per-body ParseBody methods are safe on hostile
// input, and every BMP message the package can construct (every message type x peer type x
// peer-header flag combination x TLV kind) round-trips.
//
// Oracles: (A) no panic / caller's buffer unchanged / result independent of bytes beyond len(data)
// (spare capacity poison) and of bytes beyond the declared message length (trailing poison) /
// accepted values survive Serialize, %v, json.Marshal / bufio.SplitFunc contract, also through a
// real bufio.Scanner. (B) Serialize(m) equals an independent RFC 7854/8671/9069 reference encoding
// of the framing (BGP PDUs inside are cargo produced by the bgp package), ParseBMPMessage of it is
// DeepEqual to m (nil == empty slice, timestamp within 0.5us) and re-serialises to the same bytes;
// SplitBMP over a concatenation of messages yields exactly the messages.

import (
	"bytes"
	"encoding/binary"
	"encoding/json"
	"fmt"
	"math"
	"math/rand/v2"
	"net/netip"
	"testing"

	"github.com/osrg/gobgp/v4/internal/verif/gen"
	"github.com/osrg/gobgp/v4/internal/verif/vlib"
	"github.com/osrg/gobgp/v4/pkg/packet/bgp"
)

type c19Gen struct {
	msg       *BMPMessage
	name      string // message type / variant for counters
	ref       []byte // independent reference encoding
	fields    []gen.C19Field
	tsSec     uint32
	tsUsec    uint32
	tsOffGrid bool // timestamp microseconds are not exactly representable: usec field is checked separately
	hasPeer   bool
}

func c19TLV(t uint16, v []byte) []byte {
	b := make([]byte, 4, 4+len(v))
	binary.BigEndian.PutUint16(b, t)
	binary.BigEndian.PutUint16(b[2:], uint16(len(v)))
	return append(b, v...)
}

func c19Bytes(r *rand.Rand, n int) []byte {
	b := make([]byte, n)
	for i := range b {
		b[i] = byte(r.Uint32())
	}
	return b
}

func c19Str(r *rand.Rand) string {
	n := []int{0, 1, 6, 20, 200}[r.IntN(5)]
	b := make([]byte, n)
	for i := range b {
		b[i] = byte(0x20 + r.IntN(0x5f))
	}
	if n > 2 && r.IntN(4) == 0 {
		copy(b, "é") // multi-byte UTF-8: Length is a byte count
	}
	return string(b)
}

// c19PeerHeader draws a per-peer header through NewBMPPeerHeader and its reference encoding.
func c19PeerHeader(r *rand.Rand, g *c19Gen) (*BMPPeerHeader, []byte, bool) {
	pt := uint8(r.IntN(4))
	flags := uint8(0)
	if r.IntN(2) == 0 {
		flags |= BMP_PEER_FLAG_POST_POLICY
	}
	if r.IntN(2) == 0 {
		flags |= BMP_PEER_FLAG_TWO_AS
	}
	if r.IntN(2) == 0 {
		flags |= BMP_PEER_FLAG_ADJ_RIB_TYP
	}
	var addr netip.Addr
	v6 := false
	if pt == BMP_PEER_TYPE_LOCAL_RIB {
		flags = 0
		if r.IntN(2) == 0 {
			flags = BMP_PEER_FLAG_IPV6 // RFC 9069 F flag
		}
	} else if r.IntN(2) == 0 {
		addr = gen.C19Addr6(r)
		v6 = true
	} else {
		addr = gen.C19Addr4(r)
	}
	dist := r.Uint64()
	if r.IntN(3) == 0 {
		dist = 0
	}
	as := r.Uint32()
	id := gen.C19Addr4(r)
	// timestamp
	var ts float64
	switch r.IntN(8) {
	case 0: // microseconds that are not a binary fraction: float64 cannot hold sec+usec/1e6 exactly
		g.tsSec = uint32(1500000000 + r.IntN(300000000))
		g.tsUsec = uint32(r.IntN(1000000))
		ts = float64(g.tsSec) + float64(g.tsUsec)/1e6
		g.tsOffGrid = true
	case 1, 2, 3: // whole seconds (what the daemon emits)
		g.tsSec = []uint32{0, 1, 1700000000, 0xffffffff, r.Uint32()}[r.IntN(5)]
		ts = float64(g.tsSec)
	default: // binary fractions k/64 s: exactly representable, 15625*k us
		g.tsSec = uint32(1<<21 + r.IntN(1<<31-1<<21))
		k := r.IntN(64)
		g.tsUsec = uint32(15625 * k)
		ts = float64(g.tsSec) + float64(k)/64
	}
	h := NewBMPPeerHeader(pt, flags, dist, addr, as, id, ts)
	ref := make([]byte, 42)
	ref[0] = pt
	ref[1] = flags
	if v6 {
		ref[1] |= 0x80
		copy(ref[10:26], addr.AsSlice())
	} else if addr.IsValid() {
		copy(ref[22:26], addr.AsSlice())
	}
	binary.BigEndian.PutUint64(ref[2:], dist)
	binary.BigEndian.PutUint32(ref[26:], as)
	copy(ref[30:34], id.AsSlice())
	binary.BigEndian.PutUint32(ref[34:], g.tsSec)
	binary.BigEndian.PutUint32(ref[38:], g.tsUsec)
	g.hasPeer = true
	g.name += fmt.Sprintf("|pt%d|f%02x", pt, ref[1])
	return h, ref, v6
}

func c19InfoTLVs(r *rand.Rand) ([]BMPInfoTLVInterface, []byte) {
	var tlvs []BMPInfoTLVInterface
	var ref []byte
	for i, n := 0, r.IntN(4); i < n; i++ {
		if r.IntN(3) != 0 {
			t := uint16(r.IntN(4))
			s := c19Str(r)
			tlvs = append(tlvs, NewBMPInfoTLVString(t, s))
			ref = append(ref, c19TLV(t, []byte(s))...)
		} else {
			t := uint16(4 + r.IntN(65000))
			v := c19Bytes(r, r.IntN(12))
			tlvs = append(tlvs, NewBMPInfoTLVUnknown(t, v))
			ref = append(ref, c19TLV(t, v)...)
		}
	}
	return tlvs, ref
}

func c19MustBGP(rec *vlib.Rec, r *rand.Rand, kind string) (*bgp.BGPMessage, []byte) {
	for {
		m, replaced := gen.C19BGPMessage(r, kind)
		if replaced {
			rec.Count("bmp_bgp_cargo_replaced", 1)
		}
		b, err := m.Serialize()
		if err == nil {
			return m, b
		}
	}
}

func c19GenMsg(rec *vlib.Rec, r *rand.Rand) *c19Gen {
	g := &c19Gen{}
	var body []byte
	var ph []byte
	typ := uint8(r.IntN(7))
	switch typ {
	case BMP_MSG_ROUTE_MONITORING:
		g.name = "route_monitoring"
		h, p, _ := c19PeerHeader(r, g)
		ph = p
		u, ub := c19MustBGP(rec, r, "update")
		g.msg = NewBMPRouteMonitoring(*h, u)
		body = ub
		g.fields = append(g.fields, gen.C19Field{Off: 6 + 42 + 16, Size: 2})
	case BMP_MSG_STATISTICS_REPORT:
		g.name = "statistics_report"
		h, p, _ := c19PeerHeader(r, g)
		ph = p
		var stats []BMPStatsTLVInterface
		var sb []byte
		n := r.IntN(6)
		for i := 0; i < n; i++ {
			switch r.IntN(4) {
			case 0:
				t := []uint16{0, 1, 2, 3, 4, 5, 6, 11, 12, 13}[r.IntN(10)]
				v := r.Uint32()
				stats = append(stats, NewBMPStatsTLV32(t, v))
				sb = append(sb, c19TLV(t, binary.BigEndian.AppendUint32(nil, v))...)
			case 1:
				t := []uint16{7, 8, 14, 15}[r.IntN(4)]
				v := r.Uint64()
				stats = append(stats, NewBMPStatsTLV64(t, v))
				sb = append(sb, c19TLV(t, binary.BigEndian.AppendUint64(nil, v))...)
			case 2:
				t := []uint16{9, 10, 16, 17}[r.IntN(4)]
				afi, safi, v := uint16(1+r.IntN(2)), uint8(1+r.IntN(2)), r.Uint64()
				stats = append(stats, NewBMPStatsTLVPerAfiSafi64(t, afi, safi, v))
				val := binary.BigEndian.AppendUint16(nil, afi)
				val = append(val, safi)
				sb = append(sb, c19TLV(t, binary.BigEndian.AppendUint64(val, v))...)
			default: // stat types this package does not know: width decided by the TLV length
				t := uint16(18 + r.IntN(65000))
				if r.IntN(2) == 0 {
					v := r.Uint32()
					stats = append(stats, NewBMPStatsTLV32(t, v))
					sb = append(sb, c19TLV(t, binary.BigEndian.AppendUint32(nil, v))...)
				} else {
					v := r.Uint64()
					stats = append(stats, NewBMPStatsTLV64(t, v))
					sb = append(sb, c19TLV(t, binary.BigEndian.AppendUint64(nil, v))...)
				}
			}
		}
		g.msg = NewBMPStatisticsReport(*h, stats)
		body = append(binary.BigEndian.AppendUint32(nil, uint32(n)), sb...)
		g.fields = append(g.fields, gen.C19Field{Off: 6 + 42, Size: 4}, gen.C19Field{Off: 6 + 42 + 4 + 2, Size: 2})
	case BMP_MSG_PEER_DOWN_NOTIFICATION:
		h, p, _ := c19PeerHeader(r, g)
		ph = p
		reason := uint8(1 + r.IntN(6))
		g.name = fmt.Sprintf("peer_down_r%d", reason) + g.name
		body = []byte{reason}
		switch reason {
		case 1, 3:
			n, nb := c19MustBGP(rec, r, "notification")
			g.msg = NewBMPPeerDownNotification(*h, reason, n, nil)
			body = append(body, nb...)
		case 2:
			d := c19Bytes(r, 2)
			g.msg = NewBMPPeerDownNotification(*h, reason, nil, d)
			body = append(body, d...)
		case 6:
			tlvs, tb := c19InfoTLVs(r)
			g.msg = NewBMPPeerDownNotification(*h, reason, nil, nil, tlvs...)
			body = append(body, tb...)
		default:
			g.msg = NewBMPPeerDownNotification(*h, reason, nil, nil)
		}
		g.fields = append(g.fields, gen.C19Field{Off: 6 + 42, Size: 1})
	case BMP_MSG_PEER_UP_NOTIFICATION:
		g.name = "peer_up"
		h, p, v6 := c19PeerHeader(r, g)
		ph = p
		la := gen.C19Addr4(r)
		if v6 {
			la = gen.C19Addr6(r)
		}
		lp, rp := uint16(r.Uint32()), uint16(r.Uint32())
		so, sob := c19MustBGP(rec, r, "open")
		ro, rob := c19MustBGP(rec, r, "open")
		tlvs, tb := c19InfoTLVs(r)
		g.msg = NewBMPPeerUpNotification(*h, la, lp, rp, so, ro, tlvs...)
		body = make([]byte, 20)
		if v6 {
			copy(body[:16], la.AsSlice())
		} else {
			copy(body[12:16], la.AsSlice())
		}
		binary.BigEndian.PutUint16(body[16:], lp)
		binary.BigEndian.PutUint16(body[18:], rp)
		body = append(body, sob...)
		body = append(body, rob...)
		body = append(body, tb...)
		g.fields = append(g.fields, gen.C19Field{Off: 6 + 42 + 20 + 16, Size: 2}, gen.C19Field{Off: 6 + 42 + 20 + 28, Size: 1})
	case BMP_MSG_INITIATION:
		g.name = "initiation"
		tlvs, tb := c19InfoTLVs(r)
		g.msg = NewBMPInitiation(tlvs)
		body = tb
		g.fields = append(g.fields, gen.C19Field{Off: 6 + 2, Size: 2})
	case BMP_MSG_TERMINATION:
		g.name = "termination"
		var tlvs []BMPTermTLVInterface
		for i, n := 0, r.IntN(4); i < n; i++ {
			switch r.IntN(3) {
			case 0:
				s := c19Str(r)
				tlvs = append(tlvs, NewBMPTermTLVString(BMP_TERM_TLV_TYPE_STRING, s))
				body = append(body, c19TLV(0, []byte(s))...)
			case 1:
				v := uint16(r.IntN(6))
				tlvs = append(tlvs, NewBMPTermTLV16(BMP_TERM_TLV_TYPE_REASON, v))
				body = append(body, c19TLV(1, binary.BigEndian.AppendUint16(nil, v))...)
			default:
				t := uint16(2 + r.IntN(65000))
				v := c19Bytes(r, r.IntN(12))
				tlvs = append(tlvs, NewBMPTermTLVUnknown(t, v))
				body = append(body, c19TLV(t, v)...)
			}
		}
		g.msg = NewBMPTermination(tlvs)
		g.fields = append(g.fields, gen.C19Field{Off: 6 + 2, Size: 2})
	default:
		g.name = "route_mirroring"
		h, p, _ := c19PeerHeader(r, g)
		ph = p
		var tlvs []BMPRouteMirrTLVInterface
		for i, n := 0, r.IntN(3); i < n; i++ {
			if r.IntN(2) == 0 {
				v := uint16(r.IntN(2))
				tlvs = append(tlvs, NewBMPRouteMirrTLV16(BMP_ROUTE_MIRRORING_TLV_TYPE_INFO, v))
				body = append(body, c19TLV(1, binary.BigEndian.AppendUint16(nil, v))...)
			} else {
				t := uint16(2 + r.IntN(65000))
				v := c19Bytes(r, r.IntN(12))
				tlvs = append(tlvs, NewBMPRouteMirrTLVUnknown(t, v))
				body = append(body, c19TLV(t, v)...)
			}
		}
		if r.IntN(4) != 0 { // RFC 7854: the BGP Message TLV comes last
			m, mb := c19MustBGP(rec, r, "")
			tlvs = append(tlvs, NewBMPRouteMirrTLVBGPMsg(BMP_ROUTE_MIRRORING_TLV_TYPE_BGP_MSG, m))
			body = append(body, c19TLV(0, mb)...)
		}
		g.msg = NewBMPRouteMirroring(*h, tlvs)
		g.fields = append(g.fields, gen.C19Field{Off: 6 + 42 + 2, Size: 2})
	}
	total := 6 + len(ph) + len(body)
	g.ref = make([]byte, 6, total)
	g.ref[0] = 3
	binary.BigEndian.PutUint32(g.ref[1:], uint32(total))
	g.ref[5] = typ
	g.ref = append(g.ref, ph...)
	g.ref = append(g.ref, body...)
	g.fields = append(g.fields, gen.C19Field{Off: 1, Size: 4}, gen.C19Field{Off: 1, Size: 4}, gen.C19Field{Off: 5, Size: 1}, gen.C19Field{Off: 0, Size: 1})
	if g.hasPeer {
		g.fields = append(g.fields, gen.C19Field{Off: 6, Size: 1}, gen.C19Field{Off: 7, Size: 1})
	}
	return g
}

// c19Norm returns a deep copy-free normalised view for structural comparison: empty slices -> nil.
func c19Norm(m *BMPMessage) {
	if m == nil {
		return
	}
	normInfo := func(in []BMPInfoTLVInterface) []BMPInfoTLVInterface {
		for _, t := range in {
			if u, ok := t.(*BMPInfoTLVUnknown); ok && len(u.Value) == 0 {
				u.Value = nil
			}
		}
		if len(in) == 0 {
			return nil
		}
		return in
	}
	switch b := m.Body.(type) {
	case *BMPStatisticsReport:
		if len(b.Stats) == 0 {
			b.Stats = nil
		}
	case *BMPPeerDownNotification:
		if len(b.Data) == 0 {
			b.Data = nil
		}
		b.Info = normInfo(b.Info)
	case *BMPPeerUpNotification:
		b.Info = normInfo(b.Info)
	case *BMPInitiation:
		b.Info = normInfo(b.Info)
	case *BMPTermination:
		for _, t := range b.Info {
			if u, ok := t.(*BMPTermTLVUnknown); ok && len(u.Value) == 0 {
				u.Value = nil
			}
		}
		if len(b.Info) == 0 {
			b.Info = nil
		}
	case *BMPRouteMirroring:
		for _, t := range b.Info {
			if u, ok := t.(*BMPRouteMirrTLVUnknown); ok && len(u.Value) == 0 {
				u.Value = nil
			}
		}
		if len(b.Info) == 0 {
			b.Info = nil
		}
	}
}

func c19Equal(a, b *BMPMessage, tsTol float64) bool {
	if a == nil || b == nil {
		return a == b
	}
	c19Norm(a)
	c19Norm(b)
	ta, tb := a.PeerHeader.Timestamp, b.PeerHeader.Timestamp
	if math.Abs(ta-tb) > tsTol {
		return false
	}
	b.PeerHeader.Timestamp = ta
	eq := gen.DeepEqual(a, b)
	b.PeerHeader.Timestamp = tb
	return eq
}

var c19TypeNames = []string{"route_monitoring", "statistics_report", "peer_down", "peer_up", "initiation", "termination", "route_mirroring"}

func c19TypeOf(in []byte) string {
	if len(in) < 6 {
		return "short"
	}
	if in[0] != 3 {
		return "badver"
	}
	if int(in[5]) < len(c19TypeNames) {
		return c19TypeNames[in[5]]
	}
	return "unknown"
}

func c19Show(m *BMPMessage, err error) string {
	s := fmt.Sprintf("err=%v", err)
	if m != nil {
		s += fmt.Sprintf(" hdr=%+v peer=%+v body=%+v", m.Header, m.PeerHeader, m.Body)
	}
	if len(s) > 600 {
		s = s[:600]
	}
	return s
}

// c19Post exercises an accepted value. tag is "post" for a clean parse and "post-after-error" for the
// ROUTE_MONITORING message that ParseBMPMessage hands back together with an UPDATE error.
func c19Post(rec *vlib.Rec, wit func() any, m *BMPMessage, tag string) []byte {
	var out []byte
	rec.Guard("c19:bmp:"+tag+"-print", wit, func() {
		_ = fmt.Sprintf("%v %+v %+v", m, m.Body, m.PeerHeader)
		_ = m.Len()
		_ = m.PeerHeader.IsPostPolicy()
		_ = m.PeerHeader.IsAdjRIBOut()
		_, _ = json.Marshal(m)
	})
	rec.Guard("c19:bmp:"+tag+"-Serialize", wit, func() { out, _ = m.Serialize() })
	return out
}

func c19HostileInput(rec *vlib.Rec, r *rand.Rand) ([]byte, string) {
	switch r.IntN(10) {
	case 0:
		in := gen.C19RandomBytes(r, 96)
		if len(in) >= 6 && r.IntN(2) == 0 { // steer random bytes past the version / type checks
			in[0] = 3
			in[5] = byte(r.IntN(8))
			if r.IntN(2) == 0 {
				binary.BigEndian.PutUint32(in[1:], uint32(len(in)))
			}
		}
		return in, "random"
	case 1:
		a, b := c19GenMsg(rec, r), c19GenMsg(rec, r)
		return gen.C19Splice(r, a.ref, b.ref), "splice"
	case 2:
		// ROUTE_MONITORING whose UPDATE carries one path attribute (every type code in turn) with a
		// too-short value: the class for which ParseBMPMessage hands back the message *and* an error
		g := &c19Gen{}
		_, ph, _ := c19PeerHeader(r, g)
		attrs := []byte{0x40, 1, 1, 0, 0x40, 2, 0, 0x40, 3, 4, 192, 0, 2, 1} // ORIGIN, empty AS_PATH, NEXT_HOP
		t := byte(1 + r.IntN(45))
		l := r.IntN(6)
		bad := append([]byte{[]byte{0xc0, 0x80, 0x40, 0xe0}[r.IntN(4)], t, byte(l)}, c19Bytes(r, l)...)
		if r.IntN(2) == 0 {
			attrs = append(attrs, bad...)
		} else {
			attrs = append(bad, attrs...)
		}
		upd := append([]byte{0, 0}, byte(len(attrs)>>8), byte(len(attrs)))
		upd = append(upd, attrs...)
		upd = append(upd, 24, 10, 1, 2) // NLRI 10.1.2.0/24
		msg := append(bytes.Repeat([]byte{0xff}, 16), byte((19+len(upd))>>8), byte(19+len(upd)), 2)
		msg = append(msg, upd...)
		out := []byte{3, 0, 0, 0, 0, 0}
		out = append(out, ph...)
		out = append(out, msg...)
		binary.BigEndian.PutUint32(out[1:], uint32(len(out)))
		return out, fmt.Sprintf("rm-short-attr-%d", t)
	default:
		g := c19GenMsg(rec, r)
		in, kind := gen.C19Mutate(r, g.ref, g.fields)
		return in, kind
	}
}

func c19Hostile(rec *vlib.Rec, w *gen.C19Watch, r *rand.Rand, idx int) {
	in, kind := c19HostileInput(rec, r)
	rec.Count("bmp_hostile_inputs", 1)
	wit := func() any { return map[string]any{"case": idx, "input": gen.C19Hex(in), "mutation": kind} }

	// ---- ParseBMPMessage
	w.Mark(idx, "ParseBMPMessage", in)
	exact := gen.C19Exact(in)
	var m *BMPMessage
	var err error
	if !rec.Guard("c19:bmp:ParseBMPMessage", wit, func() { m, err = ParseBMPMessage(exact) }) {
		if !bytes.Equal(exact, in) {
			rec.Violation("c19:bmp:ParseBMPMessage:buffer-modified", "decoder modified the caller's buffer", wit())
		}
		var ma, mb *BMPMessage
		var ea, eb error
		pa := rec.Guard("c19:bmp:ParseBMPMessage", wit, func() { ma, ea = ParseBMPMessage(gen.C19Slack(in, 0xAA, 96)) })
		pb := rec.Guard("c19:bmp:ParseBMPMessage", wit, func() { mb, eb = ParseBMPMessage(gen.C19Slack(in, 0x55, 96)) })
		if !pa && !pb {
			if gen.C19ErrClass(ea) != gen.C19ErrClass(eb) || !c19Equal(ma, mb, 0) || gen.C19ErrClass(ea) != gen.C19ErrClass(err) || !c19Equal(ma, m, 0) {
				rec.Violation("c19:bmp:ParseBMPMessage:over-read", "result depends on bytes beyond len(data) (spare capacity of the slice)",
					map[string]any{"case": idx, "input": gen.C19Hex(in), "mutation": kind, "exact": c19Show(m, err), "poisonAA": c19Show(ma, ea), "poison55": c19Show(mb, eb)})
			}
		}
		// trailing differential: the declared message followed by different garbage
		if len(in) >= 6 {
			if L := binary.BigEndian.Uint32(in[1:5]); L >= 6 && int64(L) <= int64(len(in)) {
				var ta, tb *BMPMessage
				var tea, teb error
				pa := rec.Guard("c19:bmp:ParseBMPMessage", wit, func() { ta, tea = ParseBMPMessage(gen.C19Trail(in[:L], 0xAA, 48)) })
				pb := rec.Guard("c19:bmp:ParseBMPMessage", wit, func() { tb, teb = ParseBMPMessage(gen.C19Trail(in[:L], 0x55, 48)) })
				rec.Count("bmp_trailing_differentials", 1)
				if !pa && !pb && (gen.C19ErrClass(tea) != gen.C19ErrClass(teb) || !c19Equal(ta, tb, 0)) {
					rec.Violation("c19:bmp:ParseBMPMessage:reads-past-declared-length", "result depends on bytes after the message's declared Length",
						map[string]any{"case": idx, "input": gen.C19Hex(in[:L]), "mutation": kind, "poisonAA": c19Show(ta, tea), "poison55": c19Show(tb, teb)})
				}
			}
		}
		rec.Nontrivial("bmp|ParseBMPMessage|" + c19TypeOf(in) + "|" + gen.C19ErrClass(err))
		rec.Count("bmp_parse_"+c19TypeOf(in)+"_"+map[bool]string{true: "ok", false: "err"}[err == nil], 1)
		usable := m != nil && (err == nil || func() bool { rm, ok := m.Body.(*BMPRouteMonitoring); return ok && rm.BGPUpdate != nil }())
		if usable {
			tag := "post"
			if err != nil {
				tag = "post-after-error"
				rec.Count("bmp_route_monitoring_returned_with_error", 1)
			}
			out := c19Post(rec, wit, m, tag)
			if err == nil && out != nil {
				rec.Count("bmp_accepted_reserialized", 1)
				var m2 *BMPMessage
				var e2 error
				if !rec.Guard("c19:bmp:ParseBMPMessage", wit, func() { m2, e2 = ParseBMPMessage(out) }) {
					if e2 == nil && c19Equal(m, m2, 1.5e-6) {
						rec.Count("bmp_accepted_refix_same", 1)
					} else {
						rec.Count("bmp_accepted_refix_diff", 1)
					}
				}
			}
		}
	}

	// ---- header decoders and direct body parsers (no recover() around these)
	w.Mark(idx, "DecodeFromBytes/ParseBody", in)
	h := &BMPHeader{}
	var he error
	if !rec.Guard("c19:bmp:BMPHeader.DecodeFromBytes", wit, func() { he = h.DecodeFromBytes(gen.C19Exact(in)) }) {
		rec.Nontrivial("bmp|BMPHeader.DecodeFromBytes|" + gen.C19ErrClass(he))
	}
	ph := &BMPPeerHeader{}
	rest := in
	if len(in) >= 6 {
		rest = in[6:]
	}
	var pe error
	if !rec.Guard("c19:bmp:BMPPeerHeader.DecodeFromBytes", wit, func() { pe = ph.DecodeFromBytes(gen.C19Exact(rest)) }) {
		rec.Nontrivial("bmp|BMPPeerHeader.DecodeFromBytes|" + gen.C19ErrClass(pe))
		pa, pb := &BMPPeerHeader{}, &BMPPeerHeader{}
		var ea, eb error
		x := rec.Guard("c19:bmp:BMPPeerHeader.DecodeFromBytes", wit, func() { ea = pa.DecodeFromBytes(gen.C19Slack(rest, 0xAA, 64)) })
		y := rec.Guard("c19:bmp:BMPPeerHeader.DecodeFromBytes", wit, func() { eb = pb.DecodeFromBytes(gen.C19Slack(rest, 0x55, 64)) })
		if !x && !y && (fmt.Sprint(ea) != fmt.Sprint(eb) || !gen.DeepEqual(pa, pb)) {
			rec.Violation("c19:bmp:BMPPeerHeader.DecodeFromBytes:over-read", "result depends on bytes beyond len(data)", wit())
		}
		if pe == nil {
			rec.Guard("c19:bmp:post-Serialize", wit, func() { _, _ = ph.Serialize() })
		}
	}
	bodyData := rest
	if pe == nil && len(rest) >= BMP_PEER_HEADER_SIZE {
		bodyData = rest[BMP_PEER_HEADER_SIZE:]
	}
	bodies := []struct {
		name string
		mk   func() BMPBody
	}{
		{"BMPRouteMonitoring", func() BMPBody { return &BMPRouteMonitoring{} }},
		{"BMPStatisticsReport", func() BMPBody { return &BMPStatisticsReport{} }},
		{"BMPPeerDownNotification", func() BMPBody { return &BMPPeerDownNotification{} }},
		{"BMPPeerUpNotification", func() BMPBody { return &BMPPeerUpNotification{} }},
		{"BMPInitiation", func() BMPBody { return &BMPInitiation{} }},
		{"BMPTermination", func() BMPBody { return &BMPTermination{} }},
		{"BMPRouteMirroring", func() BMPBody { return &BMPRouteMirroring{} }},
	}
	// the body parser matching the type octet, plus one other
	pick := []int{r.IntN(len(bodies))}
	if len(in) >= 6 && int(in[5]) < len(bodies) {
		pick = append(pick, int(in[5]))
	}
	for _, bi := range pick {
		b := bodies[bi]
		ep := b.name + ".ParseBody"
		for _, data := range [][]byte{bodyData, in} {
			body := b.mk()
			msg := &BMPMessage{PeerHeader: *ph, Body: body}
			exact := gen.C19Exact(data)
			var be error
			if rec.Guard("c19:bmp:direct:"+ep, func() any {
				return map[string]any{"case": idx, "entry": ep, "body_input": gen.C19Hex(data), "peer_flags": ph.Flags, "peer_type": ph.PeerType}
			}, func() { be = body.ParseBody(msg, exact) }) {
				continue
			}
			rec.Count("bmp_direct_"+ep, 1)
			rec.Nontrivial("bmp|" + ep + "|" + gen.C19ErrClass(be))
			if !bytes.Equal(exact, data) {
				rec.Violation("c19:bmp:direct:"+ep+":buffer-modified", "decoder modified the caller's buffer", wit())
			}
			// over-read differential on the direct parser
			ba, bb := b.mk(), b.mk()
			var ea, eb error
			x := rec.Guard("c19:bmp:direct:"+ep, wit, func() { ea = ba.ParseBody(&BMPMessage{PeerHeader: *ph, Body: ba}, gen.C19Slack(data, 0xAA, 64)) })
			y := rec.Guard("c19:bmp:direct:"+ep, wit, func() { eb = bb.ParseBody(&BMPMessage{PeerHeader: *ph, Body: bb}, gen.C19Slack(data, 0x55, 64)) })
			if !x && !y && (gen.C19ErrClass(ea) != gen.C19ErrClass(eb) || (ea == nil && !gen.DeepEqual(ba, bb))) {
				rec.Violation("c19:bmp:direct:"+ep+":over-read", "result depends on bytes beyond len(data)",
					map[string]any{"case": idx, "entry": ep, "body_input": gen.C19Hex(data), "poisonAA": fmt.Sprintf("%+v / %v", ba, ea), "poison55": fmt.Sprintf("%+v / %v", bb, eb)})
			}
			if be == nil {
				rec.Guard("c19:bmp:post-Serialize", wit, func() { _, _ = body.Serialize() })
			}
		}
	}
}

func c19SplitCase(rec *vlib.Rec, w *gen.C19Watch, r *rand.Rand, idx int) {
	rec.Count("bmp_split_cases", 1)
	// (B) a clean stream of messages splits into exactly the messages
	if r.IntN(3) == 0 {
		var msgs [][]byte
		var stream []byte
		for i, n := 0, 1+r.IntN(6); i < n; i++ {
			g := c19GenMsg(rec, r)
			msgs = append(msgs, g.ref)
			stream = append(stream, g.ref...)
		}
		w.Mark(idx, "SplitBMP:stream", stream)
		toks, err, panicked := gen.C19ScanStream(rec, "bmp", "SplitBMP", SplitBMP, stream, r, idx)
		if !panicked {
			ok := err == nil && len(toks) == len(msgs)
			for i := 0; ok && i < len(msgs); i++ {
				ok = bytes.Equal(toks[i], msgs[i])
			}
			if !ok {
				rec.Violation("c19:bmp:SplitBMP:stream-tokens", "bufio.Scanner with SplitBMP over a concatenation of valid messages did not return exactly those messages",
					map[string]any{"case": idx, "stream": gen.C19Hex(stream), "messages": len(msgs), "tokens": len(toks), "err": fmt.Sprint(err)})
			}
			rec.Count("bmp_split_clean_streams", 1)
			rec.Nontrivial(fmt.Sprintf("bmp|SplitBMP|clean|n%d", len(msgs)))
		}
		return
	}
	in, kind := c19HostileInput(rec, r)
	if r.IntN(3) == 0 { // hostile message in the middle of a stream
		in = append(append(c19GenMsg(rec, r).ref, in...), c19GenMsg(rec, r).ref...)
	}
	w.Mark(idx, "SplitBMP", in)
	for _, atEOF := range []bool{false, true} {
		adv, tok, err, ok := gen.C19CheckSplit(rec, "bmp", "SplitBMP", SplitBMP, gen.C19Exact(in), atEOF, idx)
		if !ok {
			continue
		}
		cls := "more"
		if tok != nil {
			cls = "token"
		} else if err != nil {
			cls = "err"
		}
		rec.Nontrivial(fmt.Sprintf("bmp|SplitBMP|%v|%s|%s", atEOF, c19TypeOf(in), cls))
		rec.Count("bmp_split_calls_"+cls, 1)
		// spare-capacity and trailing poison differentials
		aA, tA, eA, okA := gen.C19CheckSplit(rec, "bmp", "SplitBMP", SplitBMP, gen.C19Slack(in, 0xAA, 64), atEOF, idx)
		aB, tB, eB, okB := gen.C19CheckSplit(rec, "bmp", "SplitBMP", SplitBMP, gen.C19Slack(in, 0x55, 64), atEOF, idx)
		if okA && okB && (aA != aB || !bytes.Equal(tA, tB) || (tA == nil) != (tB == nil) || fmt.Sprint(eA) != fmt.Sprint(eB) || aA != adv || !bytes.Equal(tA, tok)) {
			rec.Violation("c19:bmp:SplitBMP:over-read", "split result depends on bytes beyond len(data)",
				map[string]any{"case": idx, "data": gen.C19Hex(in), "atEOF": atEOF, "exact": fmt.Sprint(adv, len(tok), err), "poisonAA": fmt.Sprint(aA, len(tA), eA), "poison55": fmt.Sprint(aB, len(tB), eB)})
		}
		if tok != nil && adv >= BMP_HEADER_SIZE && adv <= len(in) { // (a token shorter than a header cannot be re-split on its own)
			a2, t2, _, ok2 := gen.C19CheckSplit(rec, "bmp", "SplitBMP", SplitBMP, gen.C19Trail(in[:adv], 0xAA, 32), atEOF, idx)
			a3, t3, _, ok3 := gen.C19CheckSplit(rec, "bmp", "SplitBMP", SplitBMP, gen.C19Trail(in[:adv], 0x55, 32), atEOF, idx)
			if ok2 && ok3 && (a2 != a3 || !bytes.Equal(t2, t3) || a2 != adv) {
				rec.Violation("c19:bmp:SplitBMP:token-depends-on-following-bytes", "the token for the first message changes with the bytes that follow it", c19Wit(idx, in, kind))
			}
		}
	}
	_, _, _ = gen.C19ScanStream(rec, "bmp", "SplitBMP", SplitBMP, in, r, idx)
	rec.Count("bmp_split_scanner_runs", 1)
}

func c19Wit(idx int, in []byte, kind string) map[string]any {
	return map[string]any{"case": idx, "input": gen.C19Hex(in), "mutation": kind}
}

func c19RoundTrip(rec *vlib.Rec, w *gen.C19Watch, r *rand.Rand, idx int) {
	g := c19GenMsg(rec, r)
	w.Mark(idx, "roundtrip:"+g.name, g.ref)
	short := g.name
	if i := bytes.IndexByte([]byte(short), '|'); i >= 0 {
		short = short[:i]
	}
	rec.Count("bmp_rt_"+short, 1)
	if g.hasPeer {
		rec.Count(fmt.Sprintf("bmp_rt_peertype%d_flags%02x", g.ref[6], g.ref[7]), 1)
	}
	wit := func() any { return map[string]any{"case": idx, "message": g.name, "reference": gen.C19Hex(g.ref)} }
	var b1 []byte
	var err error
	if rec.Guard("c19:bmp:rt:Serialize", wit, func() { b1, err = g.msg.Serialize() }) {
		return
	}
	if err != nil {
		rec.Violation("c19:bmp:rt:serialize-error:"+short, "constructible message does not serialise: "+err.Error(), wit())
		return
	}
	// the microsecond field of the per-peer header is checked on its own so that a timestamp issue
	// does not mask (or flood) the byte comparison of everything else
	cmp1, cmpRef := b1, g.ref
	if g.hasPeer && len(b1) >= 48 {
		gotUsec := binary.BigEndian.Uint32(b1[44:48])
		gotSec := binary.BigEndian.Uint32(b1[40:44])
		if gotSec != g.tsSec || gotUsec != g.tsUsec {
			cls := "on-grid"
			if g.tsOffGrid {
				cls = "decimal-usec"
			}
			rec.Violation("c19:bmp:rt:peer-header-timestamp:"+cls, "per-peer header timestamp on the wire differs from the message's timestamp (seconds/microseconds)",
				map[string]any{"case": idx, "message": g.name, "timestamp": g.msg.PeerHeader.Timestamp, "want_sec": g.tsSec, "want_usec": g.tsUsec, "got_sec": gotSec, "got_usec": gotUsec})
		}
		rec.Count("bmp_rt_timestamp_checked", 1)
		if g.tsOffGrid {
			rec.Count("bmp_rt_timestamp_decimal_usec", 1)
			cmp1 = append([]byte(nil), b1...)
			cmpRef = append([]byte(nil), g.ref...)
			copy(cmp1[44:48], []byte{0, 0, 0, 0})
			copy(cmpRef[44:48], []byte{0, 0, 0, 0})
		}
	}
	if !bytes.Equal(cmp1, cmpRef) {
		rec.Violation("c19:bmp:rt:wire-mismatch:"+short, "Serialize differs from the independent RFC 7854 reference encoding",
			map[string]any{"case": idx, "message": g.name, "got": gen.C19Hex(b1), "want": gen.C19Hex(g.ref)})
	}
	var m2 *BMPMessage
	if rec.Guard("c19:bmp:rt:ParseBMPMessage", wit, func() { m2, err = ParseBMPMessage(gen.C19Exact(b1)) }) {
		return
	}
	if err != nil {
		rec.Violation("c19:bmp:rt:parse-error:"+short, "Serialize output of a constructible message is rejected by ParseBMPMessage: "+err.Error(),
			map[string]any{"case": idx, "message": g.name, "bytes": gen.C19Hex(b1)})
		return
	}
	tol := 0.6e-6
	if g.tsOffGrid {
		tol = 1.5e-6
	}
	if !c19Equal(g.msg, m2, tol) {
		rec.Violation("c19:bmp:rt:not-equal:"+short, "ParseBMPMessage(Serialize(m)) != m",
			map[string]any{"case": idx, "message": g.name, "built": c19Show(g.msg, nil), "parsed": c19Show(m2, nil), "bytes": gen.C19Hex(b1)})
	}
	var b2 []byte
	if rec.Guard("c19:bmp:rt:Serialize", wit, func() { b2, err = m2.Serialize() }) {
		return
	}
	cmp2 := b2
	if g.tsOffGrid && len(b2) >= 48 {
		cmp2 = append([]byte(nil), b2...)
		copy(cmp2[44:48], []byte{0, 0, 0, 0})
	}
	if err != nil || !bytes.Equal(cmp1, cmp2) {
		rec.Violation("c19:bmp:rt:reserialize-differs:"+short, "Serialize(Parse(Serialize(m))) != Serialize(m)",
			map[string]any{"case": idx, "message": g.name, "first": gen.C19Hex(b1), "second": gen.C19Hex(b2), "err": fmt.Sprint(err)})
	}
	// SplitBMP on the message followed by another one
	next := c19GenMsg(rec, r).ref
	adv, tok, _, ok := gen.C19CheckSplit(rec, "bmp", "SplitBMP", SplitBMP, append(gen.C19Exact(b1), next...), false, idx)
	if ok && (adv != len(b1) || !bytes.Equal(tok, b1)) {
		rec.Violation("c19:bmp:rt:split-token", "SplitBMP did not return the first message of a buffer as the token",
			map[string]any{"case": idx, "message": g.name, "advance": adv, "token_len": len(tok), "msg_len": len(b1)})
	}
	rec.Nontrivial("bmp|rt|" + g.name)
}

func TestVerifC19(t *testing.T) {
	rec := vlib.Open("C19")
	defer rec.Close()
	w := &gen.C19Watch{Rec: rec, N: 256}
	total := vlib.Scale(120000, 2400000)
	vlib.Cases(total, func(idx int) {
		r := vlib.CaseRand("c19bmp", idx)
		rec.Eval()
		switch r.IntN(8) { // (drawn from the case PRNG so that every shard gets every kind)
		case 0, 1:
			c19RoundTrip(rec, w, r, idx)
		case 2:
			c19SplitCase(rec, w, r, idx)
		default:
			c19Hostile(rec, w, r, idx)
		}
		if idx%9973 == 0 {
			g := c19GenMsg(rec, r)
			rec.Sample(map[string]any{"proto": "bmp", "message": g.name, "wire": gen.C19Hex(g.ref)})
		}
	})
}
