package table

// C03 — the best path (and the multipath set) is the one the documented decision process prefers,
// whatever the arrival order.
//
// The real code under observation: TableManager.Update -> Table.update -> destination.Calculate
// (implicit/explicit withdraw + insertSort), destination.GetBestPath / GetMultiBestPath /
// GetAllKnownPathList, Update.GetChanges, under every setting of the process-wide
// SelectionOptions / UseMultiplePaths (one combination per case, derived from the case index; cases
// run strictly one after the other).
//
// Oracles (none of them calls a gobgp comparator):
//   * c03Decide: sequential elimination over the whole candidate set in the documented order. Where
//     the documentation leaves a choice (what a confederation-member route is in the age/router-id
//     steps, router-id between equally old eBGP routes, the neighbouring AS of a path that starts
//     with an AS_SET, age between locally originated routes) every reading is evaluated and the
//     union is the admissible set; where MED is not comparable across the candidates, every winner
//     of a pairwise tournament in some order is admissible as well.
//   * order independence: with MED comparable across all routes that ever were candidates and a
//     fully determined winner, every permutation of the arrivals and every replace/withdraw
//     interleaving ending in the same set must report the same best path and multipath set.
//   * comparator sanity: the pairwise orders observed on two-route destinations must form a total
//     preorder on every triple (a violation is reported with the 3-cycle as witness).
//   * multipath: members must tie with the best route through the eBGP-over-iBGP step; routes that
//     agree with the best route in every attribute any step looks at must be members.

import (
	"fmt"
	"math/rand/v2"
	"net/netip"
	"sort"
	"strings"
	"testing"
	"time"

	"github.com/osrg/gobgp/v4/internal/verif/vlib"
	"github.com/osrg/gobgp/v4/pkg/packet/bgp"
)

const (
	c03Local = iota
	c03EBGP
	c03IBGP
	c03Confed
)

var c03KindName = [...]string{"local", "ebgp", "ibgp", "confed"}

type c03Seg struct {
	T  uint8 // 1 SET, 2 SEQ, 3 CONFED_SEQ, 4 CONFED_SET
	AS []uint32
}

// c03Route is the harness' own description of a route; the reference reads nothing else.
type c03Route struct {
	Src       int // index of the source (peer, or local path id)
	Kind      int
	PeerAS    uint32
	RID       uint32
	Addr      netip.Addr // invalid for local
	PathID    uint32
	LPSet     bool
	LP        uint32
	Segs      []c03Seg
	Origin    uint8
	MedSet    bool
	Med       uint32
	TS        int64
	NHInvalid bool
	Stale     bool
}

func (r *c03Route) lp() uint32 {
	if r.LPSet {
		return r.LP
	}
	return 100
}

func (r *c03Route) med() uint32 {
	if r.MedSet {
		return r.Med
	}
	return 0
}

// asLen: AS_SEQUENCE counts its members, AS_SET counts 1, confederation segments 0.
func (r *c03Route) asLen() int {
	n := 0
	for _, s := range r.Segs {
		switch s.T {
		case 2:
			n += len(s.AS)
		case 1:
			n++
		}
	}
	return n
}

const (
	c03NbrInternal     = -1 // no AS outside the confederation in the path: the neighbouring AS is the local one
	c03NbrUndetermined = -2 // path starts with an AS_SET and the reading says that names no neighbour
)

// nbrAS: the neighbouring AS as determined from AS_PATH (RFC 4271 5.1.4, RFC 5065 5.3: the first AS
// outside confederation segments).
func (r *c03Route) nbrAS(leadSetFirst bool) int64 {
	for _, s := range r.Segs {
		switch s.T {
		case 2:
			return int64(s.AS[0])
		case 1:
			if leadSetFirst {
				return int64(s.AS[0])
			}
			return c03NbrUndetermined
		}
	}
	return c03NbrInternal
}

func (r *c03Route) String() string {
	var sb strings.Builder
	fmt.Fprintf(&sb, "%s", c03KindName[r.Kind])
	if r.Kind == c03Local {
		fmt.Fprintf(&sb, "#%d", r.PathID)
	} else {
		fmt.Fprintf(&sb, "(as%d id%d.%d.%d.%d %s)", r.PeerAS, r.RID>>24, r.RID>>16&255, r.RID>>8&255, r.RID&255, r.Addr)
	}
	if r.Stale {
		sb.WriteString(" STALE")
	}
	if r.NHInvalid {
		sb.WriteString(" NH-UNREACHABLE")
	}
	if r.LPSet {
		fmt.Fprintf(&sb, " lp=%d", r.LP)
	}
	sb.WriteString(" path=")
	for _, s := range r.Segs {
		fmt.Fprintf(&sb, "%s%v", map[uint8]string{1: "SET", 2: "", 3: "CSEQ", 4: "CSET"}[s.T], s.AS)
	}
	fmt.Fprintf(&sb, " origin=%d", r.Origin)
	if r.MedSet {
		fmt.Fprintf(&sb, " med=%d", r.Med)
	}
	fmt.Fprintf(&sb, " t=%d", r.TS)
	return sb.String()
}

type c03Opts struct {
	AlwaysMed, IgnoreLen, ExtRID, Multipath bool
}

func (o c03Opts) String() string {
	return fmt.Sprintf("always-compare-med=%v ignore-as-path-length=%v external-compare-router-id=%v use-multiple-paths=%v", o.AlwaysMed, o.IgnoreLen, o.ExtRID, o.Multipath)
}

// ---- the reference decision process

// c03Interp is one consistent reading of the points the documentation leaves open.
type c03Interp struct {
	ConfedExt    int  // confederation-member routes in the age/router-id steps: 0 like iBGP; 1 like eBGP, age only when every survivor is external-like; 2 like eBGP, the oldest external-like route eliminates the younger external-like ones
	EBGPRid      bool // router-id between equally old external routes (RFC 4271 9.1.2.2 f) or not (RFC 5004 / comment in compareByRouterID)
	LeadSetFirst bool // neighbouring AS of a path starting with an AS_SET: its first member, or undetermined
	LocalAge     bool // age between locally originated routes
}

var c03Interps = func() []c03Interp {
	var out []c03Interp
	for ce := 0; ce < 3; ce++ {
		for b := 0; b < 8; b++ {
			out = append(out, c03Interp{ce, b&1 != 0, b&2 != 0, b&4 != 0})
		}
	}
	return out
}()

var c03StepNames = []string{"llgr-stale", "nexthop", "local-pref", "local-origin", "as-path-len", "origin", "med", "ebgp-over-ibgp", "age-routerid", "neighbor-addr"}

const (
	c03StepStale = iota
	c03StepNH
	c03StepLP
	c03StepLocal
	c03StepASLen
	c03StepOrigin
	c03StepMED
	c03StepEBGP
	c03StepTie
	c03StepAddr
	c03NSteps
)

func c03MedComparable(a, b *c03Route, o c03Opts, in c03Interp) bool {
	if o.AlwaysMed {
		return true
	}
	na, nb := a.nbrAS(in.LeadSetFirst), b.nbrAS(in.LeadSetFirst)
	return na == nb && na != c03NbrUndetermined
}

func c03Filter(cur []int, keep func(i int) bool) []int {
	var out []int
	for _, i := range cur {
		if keep(i) {
			out = append(out, i)
		}
	}
	return out
}

// c03Decide returns the routes left after every step (trace[s] = survivors after step s); the last
// entry is the set of winners. An empty winner set means: no usable route.
// With rank set, an unreachable next hop is only a (strong) disadvantage instead of a disqualification:
// that is the order in which routes are kept, used for the pairwise tournaments.
func c03Decide(rs []*c03Route, set []int, o c03Opts, in c03Interp, rank bool) (winners []int, trace [][]int) {
	cur := append([]int{}, set...)
	step := func(next []int) {
		cur = next
		trace = append(trace, append([]int{}, cur...))
	}
	anyOf := func(pred func(i int) bool) bool {
		for _, i := range cur {
			if pred(i) {
				return true
			}
		}
		return false
	}
	// 1 not LLGR-stale
	if anyOf(func(i int) bool { return !rs[i].Stale }) {
		step(c03Filter(cur, func(i int) bool { return !rs[i].Stale }))
	} else {
		step(cur)
	}
	// 2 reachable next hop; without one there is no best path
	if rank && !anyOf(func(i int) bool { return !rs[i].NHInvalid }) {
		step(cur)
	} else {
		step(c03Filter(cur, func(i int) bool { return !rs[i].NHInvalid }))
	}
	// 3 highest LOCAL_PREF
	maxLP := uint32(0)
	for _, i := range cur {
		maxLP = max(maxLP, rs[i].lp())
	}
	step(c03Filter(cur, func(i int) bool { return rs[i].lp() == maxLP }))
	// 4 locally originated
	if anyOf(func(i int) bool { return rs[i].Kind == c03Local }) {
		step(c03Filter(cur, func(i int) bool { return rs[i].Kind == c03Local }))
	} else {
		step(cur)
	}
	// 5 shortest AS_PATH
	if !o.IgnoreLen && len(cur) > 0 {
		m := rs[cur[0]].asLen()
		for _, i := range cur {
			m = min(m, rs[i].asLen())
		}
		step(c03Filter(cur, func(i int) bool { return rs[i].asLen() == m }))
	} else {
		step(cur)
	}
	// 6 lowest ORIGIN
	if len(cur) > 0 {
		m := rs[cur[0]].Origin
		for _, i := range cur {
			m = min(m, rs[i].Origin)
		}
		step(c03Filter(cur, func(i int) bool { return rs[i].Origin == m }))
	} else {
		step(cur)
	}
	// 7 lowest MED among comparable routes (RFC 4271 9.1.2.2 c: a route goes when a comparable
	// route still under consideration has a lower MED)
	{
		before := cur
		step(c03Filter(cur, func(i int) bool {
			for _, j := range before {
				if j != i && c03MedComparable(rs[i], rs[j], o, in) && rs[j].med() < rs[i].med() {
					return false
				}
			}
			return true
		}))
	}
	// 8 eBGP over iBGP; confederation members count as internal (RFC 5065 5.3, comment in compareByASNumber)
	if anyOf(func(i int) bool { return rs[i].Kind == c03EBGP }) {
		step(c03Filter(cur, func(i int) bool { return rs[i].Kind == c03EBGP }))
	} else {
		step(cur)
	}
	// 9 oldest (external) / lowest router-id
	{
		ext := func(i int) bool {
			switch rs[i].Kind {
			case c03EBGP:
				return true
			case c03Confed:
				return in.ConfedExt > 0
			case c03Local:
				return in.LocalAge
			}
			return false
		}
		allExt := !anyOf(func(i int) bool { return !ext(i) })
		next := cur
		if !o.ExtRID && len(next) > 0 && (allExt || in.ConfedExt == 2) {
			first := true
			var oldest int64
			for _, i := range next {
				if ext(i) && (first || rs[i].TS < oldest) {
					oldest, first = rs[i].TS, false
				}
			}
			next = c03Filter(next, func(i int) bool { return !ext(i) || rs[i].TS == oldest })
		}
		// router-id: a route goes when a route it is router-id-comparable with has a lower id. Two
		// external-like routes are comparable only under external-compare-router-id (or the RFC 4271
		// reading); locally originated routes all carry the local id.
		ridComparable := func(i, j int) bool {
			if rs[i].Kind == c03Local || rs[j].Kind == c03Local {
				return false
			}
			return o.ExtRID || in.EBGPRid || !(ext(i) && ext(j))
		}
		before := next
		next = c03Filter(next, func(i int) bool {
			for _, j := range before {
				if j != i && ridComparable(i, j) && rs[j].RID < rs[i].RID {
					return false
				}
			}
			return true
		})
		step(next)
	}
	// 10 lowest neighbour address
	{
		var lo netip.Addr
		for _, i := range cur {
			if a := rs[i].Addr; a.IsValid() && (!lo.IsValid() || a.Compare(lo) < 0) {
				lo = a
			}
		}
		step(c03Filter(cur, func(i int) bool { return !rs[i].Addr.IsValid() || rs[i].Addr == lo }))
	}
	return cur, trace
}

// c03Pre: MED is comparable across all the given routes under every reading.
func c03Pre(rs []*c03Route, set []int, o c03Opts) bool {
	if o.AlwaysMed {
		return true
	}
	for _, i := range set {
		if rs[i].nbrAS(false) == c03NbrUndetermined || rs[i].nbrAS(false) != rs[set[0]].nbrAS(false) {
			return false
		}
	}
	return true
}

func c03Perms(n int) [][]int {
	var out [][]int
	p := make([]int, n)
	for i := range p {
		p[i] = i
	}
	var rec func(k int)
	rec = func(k int) {
		if k == n {
			out = append(out, append([]int{}, p...))
			return
		}
		for i := k; i < n; i++ {
			p[k], p[i] = p[i], p[k]
			rec(k + 1)
			p[k], p[i] = p[i], p[k]
		}
	}
	rec(0)
	return out
}

type c03Ref struct {
	Admissible  map[int]bool // admissible winners; -1 = no best path
	Determinate bool         // every reading singles out exactly one route (or none)
	Pre         bool
	Trace       [][]int // under the first reading (for keys and distinctness)
	ElimStep    map[int]int
}

func c03Reference(rs []*c03Route, set []int, o c03Opts) *c03Ref {
	ref := &c03Ref{Admissible: map[int]bool{}, Determinate: true, Pre: c03Pre(rs, set, o), ElimStep: map[int]int{}}
	for k, in := range c03Interps {
		w, tr := c03Decide(rs, set, o, in, false)
		if k == 0 {
			ref.Trace = tr
		}
		if len(w) > 1 {
			ref.Determinate = false
		}
		for _, i := range w {
			ref.Admissible[i] = true
		}
		if len(w) == 0 {
			ref.Admissible[-1] = true // no usable route: no best path
		}
		// latest step at which each route is still alive under some reading
		for _, i := range set {
			last := -1
			for s := range tr {
				for _, j := range tr[s] {
					if j == i {
						last = s
					}
				}
			}
			if cur, ok := ref.ElimStep[i]; !ok || last+1 > cur {
				ref.ElimStep[i] = last + 1 // first step the route does not survive
			}
		}
		// MED not comparable across the routes that reach the MED step: the outcome depends on
		// grouping; every winner of a pairwise tournament in some order is admissible too
		medIn := tr[c03StepOrigin]
		comparable := true
		for _, a := range medIn {
			for _, b := range medIn {
				if !c03MedComparable(rs[a], rs[b], o, in) {
					comparable = false
				}
			}
		}
		if !comparable {
			for _, perm := range c03Perms(len(set)) {
				w := set[perm[0]]
				for _, pi := range perm[1:] {
					pw, _ := c03Decide(rs, []int{w, set[pi]}, o, in, true)
					if len(pw) == 1 {
						w = pw[0]
					}
				}
				if rs[w].NHInvalid {
					w = -1
				}
				ref.Admissible[w] = true
			}
		}
	}
	return ref
}

// ---- driving the real table

type c03World struct {
	tm      *TableManager
	rs      []*c03Route
	srcs    []*PeerInfo
	prefix  int
	updates int
}

func c03PeerInfo(r *c03Route) *PeerInfo {
	id := netip.AddrFrom4([4]byte{byte(r.RID >> 24), byte(r.RID >> 16), byte(r.RID >> 8), byte(r.RID)})
	local := netip.MustParseAddr("10.0.0.254")
	lid := netip.MustParseAddr("9.9.9.9")
	switch r.Kind {
	case c03Local:
		return &PeerInfo{}
	case c03EBGP:
		return &PeerInfo{PeerType: "external", AS: r.PeerAS, LocalAS: 65100, ID: id, Address: r.Addr, LocalID: lid, LocalAddress: local}
	case c03IBGP:
		return &PeerInfo{PeerType: "internal", AS: 65100, LocalAS: 65100, ID: id, Address: r.Addr, LocalID: lid, LocalAddress: local}
	default:
		return &PeerInfo{PeerType: "external", AS: r.PeerAS, LocalAS: 65100, Confederation: true, ID: id, Address: r.Addr, LocalID: lid, LocalAddress: local}
	}
}

func (w *c03World) nlri() bgp.PathNLRI {
	n, _ := bgp.NewIPAddrPrefix(netip.PrefixFrom(netip.AddrFrom4([4]byte{10, byte(w.prefix >> 8), byte(w.prefix), 0}), 24))
	return bgp.PathNLRI{NLRI: n}
}

func (w *c03World) path(n bgp.PathNLRI, i int) *Path {
	r := w.rs[i]
	nh, _ := bgp.NewPathAttributeNextHop(netip.MustParseAddr("192.0.2.1"))
	var segs []bgp.AsPathParamInterface
	for _, s := range r.Segs {
		segs = append(segs, bgp.NewAs4PathParam(s.T, append([]uint32{}, s.AS...)))
	}
	attrs := []bgp.PathAttributeInterface{bgp.NewPathAttributeOrigin(r.Origin), bgp.NewPathAttributeAsPath(segs), nh}
	if r.MedSet {
		attrs = append(attrs, bgp.NewPathAttributeMultiExitDisc(r.Med))
	}
	if r.LPSet {
		attrs = append(attrs, bgp.NewPathAttributeLocalPref(r.LP))
	}
	if r.Stale {
		attrs = append(attrs, bgp.NewPathAttributeCommunities([]uint32{100<<16 | 1, uint32(bgp.COMMUNITY_LLGR_STALE)}))
	}
	n.ID = r.PathID
	p := NewPath(bgp.RF_IPv4_UC, w.srcs[r.Src], n, false, attrs, time.Unix(r.TS, 0), false)
	p.IsNexthopInvalid = r.NHInvalid
	return p
}

type c03Op struct {
	Route    int
	Withdraw bool
}

type c03Obs struct {
	Best            int   // -1: none
	Multi           []int // GetMultiBestPath, in list order
	Order           []int // knownPathList
	StreamBest      int   // what a consumer of Update.GetChanges believes is best (-1 none)
	StreamMulti     []int
	StreamMultiSeen bool
}

func (o c03Obs) key() string { return fmt.Sprint(o.Best, c03Sorted(o.Multi)) }

func c03Sorted(x []int) []int {
	y := append([]int{}, x...)
	sort.Ints(y)
	return y
}

// run executes one arrival history on a fresh destination and reads the result back.
func (w *c03World) run(ops []c03Op) c03Obs {
	w.prefix++
	n := w.nlri()
	byPath := map[*Path]int{}
	live := map[int]*Path{} // source -> path object currently announced
	obs := c03Obs{Best: -1, StreamBest: -1}
	var any *Path
	idOf := func(p *Path) int {
		if p == nil {
			return -1
		}
		if i, ok := byPath[p]; ok {
			return i
		}
		if i, ok := byPath[p.root()]; ok {
			return i
		}
		return -2
	}
	for k, op := range ops {
		var p *Path
		src := w.rs[op.Route].Src
		if op.Withdraw {
			old := live[src]
			if old != nil && k%2 == 0 {
				p = old.Clone(true)
			} else {
				nn := n
				nn.ID = w.rs[op.Route].PathID
				p = NewPath(bgp.RF_IPv4_UC, w.srcs[src], nn, true, nil, time.Unix(1000, 0), false)
			}
			delete(live, src)
		} else {
			p = w.path(n, op.Route)
			byPath[p] = op.Route
			live[src] = p
		}
		any = p
		w.updates++
		for _, u := range w.tm.Update(p) {
			best, _, multi := u.GetChanges(GLOBAL_RIB_NAME, 0, false)
			if best != nil {
				if best.IsWithdraw {
					obs.StreamBest = -1
				} else {
					obs.StreamBest = idOf(best)
				}
			}
			if multi != nil {
				obs.StreamMultiSeen = true
				obs.StreamMulti = obs.StreamMulti[:0]
				for _, m := range multi {
					if m != nil && !m.IsWithdraw {
						obs.StreamMulti = append(obs.StreamMulti, idOf(m))
					}
				}
			}
		}
	}
	if any == nil {
		return obs
	}
	d := w.tm.GetDestination(any)
	if d == nil {
		return obs
	}
	obs.Best = idOf(d.GetBestPath(GLOBAL_RIB_NAME, 0))
	for _, p := range d.GetMultiBestPath(GLOBAL_RIB_NAME) {
		obs.Multi = append(obs.Multi, idOf(p))
	}
	for _, p := range d.GetAllKnownPathList() {
		obs.Order = append(obs.Order, idOf(p))
	}
	return obs
}

// ---- generation

var c03NbrASNs = []uint32{65001, 65002, 65003}

func c03GenPath(r *rand.Rand, kind int, nbr uint32, alen int, leadSet bool) []c03Seg {
	var segs []c03Seg
	switch kind {
	case c03Confed:
		if r.IntN(10) < 8 {
			segs = append(segs, c03Seg{3, []uint32{65101 + uint32(r.IntN(2))}})
			if r.IntN(4) == 0 {
				segs = append(segs, c03Seg{4, []uint32{65103, 65104}})
			}
		}
	case c03IBGP:
		if r.IntN(10) == 0 {
			segs = append(segs, c03Seg{3, []uint32{65101, 65102}})
		}
	}
	other := func() uint32 { return 64600 + uint32(r.IntN(5)) }
	if alen == 0 {
		return segs
	}
	if leadSet {
		segs = append(segs, c03Seg{1, []uint32{nbr, other()}})
		alen--
		if alen > 0 {
			s := c03Seg{T: 2}
			for i := 0; i < alen; i++ {
				s.AS = append(s.AS, other())
			}
			segs = append(segs, s)
		}
		return segs
	}
	tailSet := alen >= 2 && r.IntN(4) == 0
	nseq := alen
	if tailSet {
		nseq--
	}
	s := c03Seg{T: 2, AS: []uint32{nbr}}
	for i := 1; i < nseq; i++ {
		s.AS = append(s.AS, other())
	}
	segs = append(segs, s)
	if tailSet {
		segs = append(segs, c03Seg{1, []uint32{other(), other(), other()}})
	}
	return segs
}

type c03Case struct {
	rs      []*c03Route // universe: final set first, then earlier versions, then transient routes
	final   []int
	alt     map[int]int // final route -> an earlier version from the same source
	trans   []int       // routes of sources that are not in the final set
	nsrc    int
	tie     int
	palette string
}

func c03GenCase(r *rand.Rand) *c03Case {
	c := &c03Case{alt: map[int]int{}}
	n := []int{2, 3, 3, 3, 4, 4, 4, 5, 5, 3}[r.IntN(10)]
	ntrans := r.IntN(3)
	// which kinds of sources take part
	var kinds func() int
	switch p := r.IntN(12); {
	case p == 0:
		c.palette, kinds = "ebgp", func() int { return c03EBGP }
	case p == 1:
		c.palette, kinds = "ibgp", func() int { return c03IBGP }
	case p == 2:
		c.palette, kinds = "confed", func() int { return c03Confed }
	case p <= 4:
		c.palette, kinds = "confed+ibgp", func() int { return []int{c03Confed, c03IBGP}[r.IntN(2)] }
	case p == 5:
		c.palette, kinds = "ebgp+ibgp", func() int { return []int{c03EBGP, c03IBGP}[r.IntN(2)] }
	case p == 6:
		c.palette, kinds = "ebgp+confed", func() int { return []int{c03EBGP, c03Confed}[r.IntN(2)] }
	default:
		c.palette, kinds = "any", func() int {
			return []int{c03EBGP, c03EBGP, c03IBGP, c03IBGP, c03Confed, c03Confed, c03Local}[r.IntN(7)]
		}
	}
	addrs := r.Perm(9)
	rids := []uint32{0x01010101, 0x02020202, 0x03030303, 0x01010101, 0x04040404}
	type srcT struct {
		kind   int
		peerAS uint32
		rid    uint32
		addr   netip.Addr
		pathID uint32
	}
	var srcs []srcT
	nlocal := 0
	ridMode := r.IntN(3) // 0 all different, 1 random (collisions), 2 all equal
	for len(srcs) < n+ntrans {
		k := kinds()
		s := srcT{kind: k}
		switch k {
		case c03Local:
			if nlocal >= 2 || (nlocal == 1 && r.IntN(4) != 0) {
				continue
			}
			s.pathID = uint32(nlocal)
			nlocal++
		case c03EBGP:
			s.peerAS = c03NbrASNs[r.IntN(len(c03NbrASNs))]
		case c03IBGP:
			s.peerAS = 65100
		case c03Confed:
			s.peerAS = 65101 + uint32(r.IntN(2))
		}
		if k != c03Local {
			s.addr = netip.AddrFrom4([4]byte{10, 0, 0, byte(10 + addrs[len(srcs)])})
			switch ridMode {
			case 0:
				s.rid = 0x05050500 + uint32(addrs[(len(srcs)+3)%9])
			case 1:
				s.rid = rids[r.IntN(len(rids))]
			default:
				s.rid = 0x07070707
			}
		}
		srcs = append(srcs, s)
	}
	c.nsrc = len(srcs)
	// attribute grid, with everything before the tie level copied from a template so that the
	// candidates tie up to (at least) that step
	c.tie = r.IntN(c03NSteps + 1)
	sameNbr := r.IntN(2) == 0
	type tmpl struct {
		stale, nh bool
		lpSet     bool
		lp        uint32
		alen      int
		origin    uint8
		medSet    bool
		med       uint32
		ts        int64
		nbr       uint32
	}
	draw := func() tmpl {
		t := tmpl{}
		t.stale = r.IntN(8) == 0
		t.nh = r.IntN(10) == 0
		t.lpSet = r.IntN(2) == 0
		t.lp = []uint32{100, 100, 200, 50}[r.IntN(4)]
		t.alen = []int{0, 1, 1, 2, 2, 3}[r.IntN(6)]
		t.origin = []uint8{0, 0, 1, 2}[r.IntN(4)]
		t.medSet = r.IntN(3) != 0
		t.med = []uint32{0, 10, 10, 20}[r.IntN(4)]
		t.ts = []int64{100, 100, 200, 300}[r.IntN(4)]
		t.nbr = c03NbrASNs[r.IntN(2)]
		return t
	}
	base := draw()
	mk := func(si int) *c03Route {
		s := srcs[si]
		t := draw()
		if c.tie > c03StepStale {
			t.stale = base.stale && r.IntN(3) == 0 // keep stale rare when tying deep
			if c.tie > c03StepStale+1 {
				t.stale = false
			}
		}
		if c.tie > c03StepNH {
			t.nh = false
		}
		if c.tie > c03StepLP {
			t.lp, t.lpSet = base.lp, base.lpSet
			if base.lp == 100 && r.IntN(2) == 0 {
				t.lpSet = !t.lpSet // absent and 100 are the same preference
			}
		}
		if c.tie > c03StepASLen {
			t.alen = base.alen
		}
		if c.tie > c03StepOrigin {
			t.origin = base.origin
		}
		if c.tie > c03StepMED {
			t.med, t.medSet = base.med, base.medSet
			if base.med == 0 && r.IntN(2) == 0 {
				t.medSet = !t.medSet
			}
		}
		if c.tie > c03StepTie && r.IntN(3) != 0 {
			t.ts = base.ts
		}
		if sameNbr {
			t.nbr = base.nbr
		}
		if s.kind == c03EBGP {
			if t.alen == 0 {
				t.alen = 1
			}
			if !sameNbr && r.IntN(3) != 0 {
				t.nbr = s.peerAS
			}
		}
		if s.kind == c03Local && r.IntN(2) == 0 {
			t.alen = 0
		}
		rt := &c03Route{Src: si, Kind: s.kind, PeerAS: s.peerAS, RID: s.rid, Addr: s.addr, PathID: s.pathID,
			LPSet: t.lpSet, LP: t.lp, Origin: t.origin, MedSet: t.medSet, Med: t.med, TS: t.ts, NHInvalid: t.nh, Stale: t.stale}
		rt.Segs = c03GenPath(r, s.kind, t.nbr, t.alen, t.alen > 0 && r.IntN(25) == 0)
		return rt
	}
	for i := 0; i < n; i++ {
		c.rs = append(c.rs, mk(i))
		c.final = append(c.final, i)
	}
	for i := 0; i < n; i++ {
		if r.IntN(2) == 0 {
			c.alt[i] = len(c.rs)
			c.rs = append(c.rs, mk(i))
		}
	}
	for i := n; i < n+ntrans; i++ {
		c.trans = append(c.trans, len(c.rs))
		c.rs = append(c.rs, mk(i))
	}
	return c
}

// c03Interleaving: a history of announcements, replacements and withdrawals that ends with
// exactly the final set announced in its final versions.
func c03Interleaving(r *rand.Rand, c *c03Case) []c03Op {
	var streams [][]c03Op
	for _, f := range c.final {
		var s []c03Op
		if a, ok := c.alt[f]; ok && r.IntN(3) != 0 {
			s = append(s, c03Op{a, false})
			if r.IntN(3) == 0 {
				s = append(s, c03Op{a, true})
			}
		} else if r.IntN(4) == 0 {
			s = append(s, c03Op{f, false}, c03Op{f, true})
		}
		s = append(s, c03Op{f, false})
		if r.IntN(6) == 0 {
			s = append(s, c03Op{f, false}) // refresh: the same route again
		}
		streams = append(streams, s)
	}
	for _, t := range c.trans {
		if r.IntN(4) != 0 {
			streams = append(streams, []c03Op{{t, false}, {t, true}})
		}
	}
	var ops []c03Op
	for {
		var nonEmpty []int
		for i, s := range streams {
			if len(s) > 0 {
				nonEmpty = append(nonEmpty, i)
			}
		}
		if len(nonEmpty) == 0 {
			return ops
		}
		i := nonEmpty[r.IntN(len(nonEmpty))]
		ops = append(ops, streams[i][0])
		streams[i] = streams[i][1:]
	}
}

// ---- classification helpers for violation keys

func c03Kinds(rs []*c03Route, set []int) string {
	seen := map[string]bool{}
	for _, i := range set {
		seen[c03KindName[rs[i].Kind]] = true
	}
	var ks []string
	for k := range seen {
		ks = append(ks, k)
	}
	sort.Strings(ks)
	s := strings.Join(ks, "+")
	if len(ks) > 1 {
		s += "-mix"
	}
	return s
}

// c03FirstDiff: the first step of the documented process at which the given routes stop tying.
func c03FirstDiff(rs []*c03Route, set []int, o c03Opts) string {
	for s := 0; s < c03NSteps; s++ {
		if s == c03StepASLen && o.IgnoreLen {
			continue
		}
		for _, a := range set {
			for _, b := range set {
				if c03StepDiffers(rs[a], rs[b], s, o) {
					if s >= c03StepTie {
						return "age-routerid"
					}
					return c03StepNames[s]
				}
			}
		}
	}
	return "none"
}

func c03StepDiffers(a, b *c03Route, s int, o c03Opts) bool {
	switch s {
	case c03StepStale:
		return a.Stale != b.Stale
	case c03StepNH:
		return a.NHInvalid != b.NHInvalid
	case c03StepLP:
		return a.lp() != b.lp()
	case c03StepLocal:
		return (a.Kind == c03Local) != (b.Kind == c03Local)
	case c03StepASLen:
		return a.asLen() != b.asLen()
	case c03StepOrigin:
		return a.Origin != b.Origin
	case c03StepMED:
		return a.med() != b.med() && (c03MedComparable(a, b, o, c03Interp{LeadSetFirst: true}) || c03MedComparable(a, b, o, c03Interp{}))
	case c03StepEBGP:
		return (a.Kind == c03EBGP) != (b.Kind == c03EBGP)
	default:
		return a != b
	}
}

func c03Describe(rs []*c03Route, set []int) []string {
	var out []string
	for _, i := range set {
		out = append(out, fmt.Sprintf("r%d: %s", i, rs[i]))
	}
	return out
}

func c03OpsString(ops []c03Op) string {
	var s []string
	for _, op := range ops {
		if op.Withdraw {
			s = append(s, fmt.Sprintf("-r%d", op.Route))
		} else {
			s = append(s, fmt.Sprintf("+r%d", op.Route))
		}
	}
	return strings.Join(s, " ")
}

func c03Subsets(set []int, k int) [][]int {
	var out [][]int
	var rec func(start int, cur []int)
	rec = func(start int, cur []int) {
		if len(cur) == k {
			out = append(out, append([]int{}, cur...))
			return
		}
		for i := start; i < len(set); i++ {
			rec(i+1, append(cur, set[i]))
		}
	}
	rec(0, nil)
	return out
}

func c03Announce(set []int, perm []int) []c03Op {
	ops := make([]c03Op, len(perm))
	for i, p := range perm {
		ops[i] = c03Op{set[p], false}
	}
	return ops
}

func TestVerifC03(t *testing.T) {
	rec := vlib.Open("C03")
	defer rec.Close()
	so, mo := SelectionOptions, UseMultiplePaths
	defer func() { SelectionOptions, UseMultiplePaths = so, mo }()
	total := vlib.Scale(4800, 96000)
	vlib.Cases(total, func(idx int) {
		c03RunCase(rec, idx)
	})
}

func c03RunCase(rec *vlib.Rec, idx int) {
	r := vlib.CaseRand("c03", idx)
	// one option combination per case; with 16 shards idx%16 is the shard, so every process
	// runs under exactly one setting of the package globals
	o := c03Opts{AlwaysMed: idx&1 != 0, IgnoreLen: idx&2 != 0, ExtRID: idx&4 != 0, Multipath: idx&8 != 0}
	SelectionOptions.AlwaysCompareMed = o.AlwaysMed
	SelectionOptions.IgnoreAsPathLength = o.IgnoreLen
	SelectionOptions.ExternalCompareRouterId = o.ExtRID
	UseMultiplePaths.Enabled = o.Multipath

	c := c03GenCase(r)
	rs := c.rs
	w := &c03World{tm: NewTableManager(verifLogger(), []bgp.Family{bgp.RF_IPv4_UC}), rs: rs}
	srcInfo := map[int]*PeerInfo{}
	for _, rt := range rs {
		if _, ok := srcInfo[rt.Src]; !ok {
			srcInfo[rt.Src] = c03PeerInfo(rt)
		}
	}
	w.srcs = make([]*PeerInfo, c.nsrc)
	for i := range w.srcs {
		w.srcs[i] = srcInfo[i]
	}
	rec.Eval()
	rec.Count("candidate_sets", 1)
	rec.Count(fmt.Sprintf("sets_of_%d", len(c.final)), 1)
	rec.Count("palette_"+c.palette, 1)

	all := make([]int, len(rs))
	for i := range all {
		all[i] = i
	}
	ref := c03Reference(rs, c.final, o)
	preU := c03Pre(rs, all, o)
	base := func() map[string]any {
		m := map[string]any{"case": idx, "options": o.String(), "final_set": c03Describe(rs, c.final)}
		if len(rs) > len(c.final) {
			m["earlier_versions_and_transient_routes"] = c03Describe(rs, all[len(c.final):])
		}
		return m
	}
	admissible := func(r *c03Ref) []int {
		var a []int
		for i := range r.Admissible {
			a = append(a, i)
		}
		sort.Ints(a)
		return a
	}
	if ref.Pre {
		rec.Count("sets_med_comparable", 1)
	} else {
		rec.Count("sets_med_not_comparable", 1)
	}
	if !ref.Determinate {
		rec.Count("sets_with_documented_tie", 1)
	}

	// ---- pairwise placement of every two routes that ever are candidates, observed on
	// two-route destinations in both arrival orders
	n := len(rs)
	rel := make([][]int, n) // rel[a][b]: +1 a before b in both orders, -1 b before a, 0 the later arrival goes first (tie), 2 the earlier arrival stays first both ways (contradiction), 9 not observed
	pairBad := make([][]bool, n)
	for a := range rel {
		rel[a] = make([]int, n)
		pairBad[a] = make([]bool, n)
	}
	for a := 0; a < n; a++ {
		for b := a + 1; b < n; b++ {
			rel[a][b], rel[b][a] = 9, 9
			if rs[a].Src == rs[b].Src {
				continue
			}
			o1 := w.run([]c03Op{{a, false}, {b, false}})
			o2 := w.run([]c03Op{{b, false}, {a, false}})
			rec.Count("pairs_observed", 1)
			if len(o1.Order) != 2 || len(o2.Order) != 2 {
				rec.Violation("c03:pair:lost-route", fmt.Sprintf("two routes from different sources, list holds %v / %v", o1.Order, o2.Order), base())
				continue
			}
			switch {
			case o1.Order[0] == a && o2.Order[0] == a:
				rel[a][b], rel[b][a] = 1, -1
			case o1.Order[0] == b && o2.Order[0] == b:
				rel[a][b], rel[b][a] = -1, 1
			case o1.Order[0] == b && o2.Order[0] == a:
				rel[a][b], rel[b][a] = 0, 0
			default:
				rel[a][b], rel[b][a] = 2, 2
			}
			// the two routes are a candidate set of their own: the documented process orders them
			// (no grouping question with two routes); the observed placement must be what some
			// reading of it says
			agree := false
			want := map[string]bool{}
			for _, in := range c03Interps {
				pw, _ := c03Decide(rs, []int{a, b}, o, in, true)
				v := 0
				if len(pw) == 1 && pw[0] == a {
					v = 1
				} else if len(pw) == 1 {
					v = -1
				}
				want[c03RelName(v)] = true
				if v == rel[a][b] {
					agree = true
				}
			}
			if !agree {
				pairBad[a][b], pairBad[b][a] = true, true
				x := base()
				x["pair"] = c03Describe(rs, []int{a, b})
				var ws []string
				for k := range want {
					ws = append(ws, k)
				}
				sort.Strings(ws)
				obsName := c03RelName(rel[a][b])
				if rel[a][b] == 2 {
					obsName = "(whichever arrived first stays first)"
				}
				rec.Violation(fmt.Sprintf("c03:pair:%s:%s", c03Kinds(rs, []int{a, b}), c03FirstDiff(rs, []int{a, b}, o)),
					fmt.Sprintf("two-route destination: r%d is placed %s r%d, the decision process says r%d %s r%d", a, obsName, b, a, strings.Join(ws, " or "), b), x)
			}
		}
	}
	geq := func(a, b int) bool { return rel[a][b] == 1 || rel[a][b] == 0 }
	// intransitive(a,b,c): a>=b, b>=c observed but not a>=c (or not strictly where it has to be)
	intransitive := func(a, b, cc int) bool {
		if a == b || b == cc || a == cc || rel[a][b] > 1 || rel[b][cc] > 1 || rel[a][cc] > 1 {
			return false
		}
		if !(geq(a, b) && geq(b, cc)) {
			return false
		}
		strict := rel[a][b] == 1 || rel[b][cc] == 1
		return !geq(a, cc) || (strict && rel[a][cc] != 1)
	}
	// rootCause names, for violation keys, the smallest observed anomaly among the routes involved:
	// a pair placed against the documented process, else a triple on which the observed placement
	// is not a total preorder (with MED comparable on it), else the same with MED not comparable.
	rootCause := func(involved []int) (key string, detail string) {
		for _, a := range involved {
			for _, b := range involved {
				if a < b && pairBad[a][b] {
					return c03Kinds(rs, []int{a, b}) + ":" + c03FirstDiff(rs, []int{a, b}, o), fmt.Sprintf("pair r%d,r%d is placed against the decision process", a, b)
				}
			}
		}
		medTriple := ""
		for _, a := range involved {
			for _, b := range involved {
				for _, cc := range involved {
					if intransitive(a, b, cc) {
						tri := []int{a, b, cc}
						d := fmt.Sprintf("r%d %s r%d, r%d %s r%d, but r%d %s r%d", a, c03RelName(rel[a][b]), b, b, c03RelName(rel[b][cc]), cc, a, c03RelName(rel[a][cc]), cc)
						if c03Pre(rs, tri, o) {
							return c03Kinds(rs, tri) + ":" + c03FirstDiff(rs, tri, o), d
						}
						medTriple = d
					}
				}
			}
		}
		if medTriple != "" {
			return "med-not-comparable-cycle", medTriple
		}
		return c03Kinds(rs, involved) + ":" + c03FirstDiff(rs, involved, o) + ":no-pairwise-cause", ""
	}
	opsRoutes := func(ops []c03Op) []int {
		seen := map[int]bool{}
		for _, i := range c.final {
			seen[i] = true
		}
		for _, op := range ops {
			seen[op.Route] = true
		}
		var out []int
		for i := range seen {
			out = append(out, i)
		}
		sort.Ints(out)
		return out
	}
	// comparator sanity on every observed triple
	reported := false
	for a := 0; a < n; a++ {
		for b := 0; b < n; b++ {
			for cc := 0; cc < n; cc++ {
				if a == b || b == cc || a == cc || rel[a][b] > 1 || rel[b][cc] > 1 || rel[a][cc] > 1 {
					continue
				}
				rec.Count("triples_observed", 1)
				if !intransitive(a, b, cc) {
					continue
				}
				tri := []int{a, b, cc}
				if !c03Pre(rs, tri, o) {
					rec.Count("intransitive_triples_med_not_comparable", 1)
					continue
				}
				if reported {
					continue
				}
				reported = true
				x := base()
				x["triple"] = c03Describe(rs, tri)
				x["observed"] = fmt.Sprintf("r%d %s r%d, r%d %s r%d, but r%d %s r%d", a, c03RelName(rel[a][b]), b, b, c03RelName(rel[b][cc]), cc, a, c03RelName(rel[a][cc]), cc)
				rec.Violation(fmt.Sprintf("c03:comparator:intransitive:%s:%s", c03Kinds(rs, tri), c03FirstDiff(rs, tri, o)),
					fmt.Sprintf("pairwise placement is not a total preorder on {r%d, r%d, r%d} although MED is comparable on them: %s", a, b, cc, x["observed"]), x)
			}
		}
	}
	for a := 0; a < n; a++ {
		for b := a + 1; b < n; b++ {
			if rel[a][b] == 2 && c03Pre(rs, []int{a, b}, o) && !pairBad[a][b] {
				x := base()
				x["pair"] = c03Describe(rs, []int{a, b})
				rec.Violation(fmt.Sprintf("c03:comparator:antisymmetry:%s:%s", c03Kinds(rs, []int{a, b}), c03FirstDiff(rs, []int{a, b}, o)),
					fmt.Sprintf("whichever of r%d and r%d arrives first stays in front: each is strictly preferred to the other", a, b), x)
			}
		}
	}

	// membership: best must be an admissible winner
	checkMember := func(obs c03Obs, ops []c03Op, class string) bool {
		if ref.Admissible[obs.Best] {
			return true
		}
		m := base()
		m["history"] = c03OpsString(ops)
		m["reported_best"] = obs.Best
		m["admissible"] = admissible(ref)
		m["list_order"] = obs.Order
		var key, what string
		switch {
		case obs.Best == -1:
			key = "c03:no-best-but-usable-route" + class
			what = fmt.Sprintf("no best path reported after [%s], the decision process selects r%v", c03OpsString(ops), admissible(ref))
		case len(ref.Admissible) == 1 && ref.Admissible[-1]:
			key = "c03:best-without-usable-route" + class
			what = fmt.Sprintf("r%d reported best after [%s] although no route is usable", obs.Best, c03OpsString(ops))
		default:
			step := ref.ElimStep[obs.Best]
			sn := "neighbor-addr"
			if step < c03NSteps {
				sn = c03StepNames[step]
			}
			rc, detail := rootCause(opsRoutes(ops))
			m["root_cause"] = detail
			switch {
			case rc == "med-not-comparable-cycle":
				// the sorted list was disturbed by a placement cycle through routes whose MEDs are not comparable
				key = "c03:not-best" + class + ":med-not-comparable-cycle"
			case strings.HasSuffix(rc, ":no-pairwise-cause"):
				key = fmt.Sprintf("c03:not-best%s:%s", class, rc)
			default:
				// a pair or a MED-comparable triple is mis-placed: that is the defect, whatever the rest of the set looks like
				key = "c03:not-best:" + rc
			}
			what = fmt.Sprintf("r%d reported best after [%s]; the decision process eliminates it at step %q and selects r%v (%s)", obs.Best, c03OpsString(ops), sn, admissible(ref), detail)
		}
		rec.Violation(key, what, m)
		return false
	}

	// multipath oracles on one observation
	checkMulti := func(obs c03Obs, ops []c03Op) {
		rec.Count("multipath_sets_checked", 1)
		m := func() map[string]any {
			x := base()
			x["history"] = c03OpsString(ops)
			x["reported_best"] = obs.Best
			x["reported_multipath"] = obs.Multi
			x["list_order"] = obs.Order
			return x
		}
		if obs.Best == -1 {
			if len(obs.Multi) != 0 {
				rec.Violation("c03:multipath:nonempty-without-best", fmt.Sprintf("multipath set %v although there is no best path", obs.Multi), m())
			}
			return
		}
		if len(obs.Multi) == 0 || obs.Multi[0] != obs.Best {
			rec.Violation("c03:multipath:head-is-not-best", fmt.Sprintf("best r%d, multipath set %v", obs.Best, obs.Multi), m())
			return
		}
		if len(obs.Multi) > 1 {
			rec.Count("multipath_sets_with_several_members", 1)
		}
		b := rs[obs.Best]
		in := map[int]bool{}
		pos := map[int]int{}
		for k, j := range obs.Order {
			pos[j] = k
		}
		// equalCost: no step up to eBGP-over-iBGP separates x from the best route
		sepStep := func(x *c03Route) int {
			for s := 0; s <= c03StepEBGP; s++ {
				if s == c03StepASLen && o.IgnoreLen {
					continue
				}
				if c03StepDiffers(b, x, s, o) {
					return s
				}
			}
			return -1
		}
		for _, i := range obs.Multi {
			in[i] = true
		}
		// judged from the far end of the set: the last member is where the prefix search stopped
		for k := len(obs.Multi) - 1; k > 0; k-- {
			i := obs.Multi[k]
			s := sepStep(rs[i])
			if s < 0 {
				continue
			}
			kinds := ""
			if s == c03StepEBGP {
				kinds = ":" + c03Kinds(rs, []int{obs.Best, i})
			}
			rec.Violation(fmt.Sprintf("c03:multipath:unequal-member:%s%s", c03StepNames[s], kinds),
				fmt.Sprintf("r%d is in the multipath set %v of best r%d but the decision process separates them at step %q", i, obs.Multi, obs.Best, c03StepNames[s]), m())
			break
		}
		// completeness only where the sorted list is well defined: MED comparable across everything
		// that was a candidate (otherwise equal routes need not be adjacent)
		for _, i := range c.final {
			x := rs[i]
			if in[i] || x.NHInvalid || !c03Pre(rs, opsRoutes(ops), o) {
				continue
			}
			if x.Kind == b.Kind && x.Stale == b.Stale && x.lp() == b.lp() && x.asLen() == b.asLen() && x.Origin == b.Origin && x.med() == b.med() {
				why := "contiguous"
				for _, j := range c.final {
					if pos[j] < pos[i] && !in[j] {
						why = "behind-unequal-route"
						break
					}
				}
				rec.Violation("c03:multipath:missing-equal-route:"+why,
					fmt.Sprintf("r%d agrees with best r%d in every attribute a decision step reads (kind, LLGR, LOCAL_PREF, AS_PATH length, ORIGIN, MED) but is not in the multipath set %v (list order %v)", i, obs.Best, obs.Multi, obs.Order), m())
				break
			}
		}
	}

	// a replacement that equals what it replaces in every attribute is (rightly) not signalled
	same := func(i, j int) bool {
		if i < 0 || j < 0 {
			return i == j
		}
		a, b := *rs[i], *rs[j]
		a.TS, b.TS = 0, 0
		a.PathID, b.PathID = 0, 0 // Path.Equal: same source and attributes; the received path id is not part of it
		if a.Kind == c03Local && b.Kind == c03Local {
			a.Src, b.Src = 0, 0
		}
		for _, x := range []*c03Route{&a, &b} {
			if !x.LPSet {
				x.LP = 0
			}
			if !x.MedSet {
				x.Med = 0
			}
		}
		return fmt.Sprint(a) == fmt.Sprint(b)
	}
	sameList := func(x, y []int) bool {
		if len(x) != len(y) {
			return false
		}
		for i := range x {
			if !same(x[i], y[i]) {
				return false
			}
		}
		return true
	}
	checkStream := func(obs c03Obs, ops []c03Op) {
		rec.Count("getchanges_streams_checked", 1)
		if !same(obs.StreamBest, obs.Best) {
			x := base()
			x["history"] = c03OpsString(ops)
			rec.Violation("c03:getchanges:best-stream-diverges", fmt.Sprintf("a consumer of Update.GetChanges ends with best r%d, the table reports r%d", obs.StreamBest, obs.Best), x)
		}
		if o.Multipath && obs.StreamMultiSeen && obs.Best != -1 && !sameList(obs.StreamMulti, obs.Multi) {
			x := base()
			x["history"] = c03OpsString(ops)
			rec.Violation("c03:getchanges:multipath-stream-diverges", fmt.Sprintf("a consumer of Update.GetChanges ends with multipath set %v, the table reports %v", obs.StreamMulti, obs.Multi), x)
		}
	}

	// ---- all permutations of the final set
	perms := c03Perms(len(c.final))
	type c03Outcome struct {
		obs c03Obs
		ops []c03Op
	}
	outcomes := map[string]c03Outcome{}
	var firstObs c03Obs
	var firstKey string
	for pi, perm := range perms {
		ops := c03Announce(c.final, perm)
		obs := w.run(ops)
		rec.Count("arrival_orders", 1)
		if len(obs.Order) != len(c.final) {
			rec.Violation("c03:lost-route", fmt.Sprintf("%d routes announced from distinct sources, list holds %v", len(c.final), obs.Order), base())
			return
		}
		cls := ""
		if !ref.Pre {
			cls = ":med-not-comparable"
		}
		checkMember(obs, ops, cls)
		checkStream(obs, ops)
		k := obs.key()
		if _, seen := outcomes[k]; !seen {
			outcomes[k] = c03Outcome{obs, ops}
		}
		if pi == 0 {
			firstObs, firstKey = obs, k
		}
	}
	orderDependent := len(outcomes) > 1
	brokenOrder := false
	if rc, _ := rootCause(c.final); rc != "med-not-comparable-cycle" && !strings.HasSuffix(rc, ":no-pairwise-cause") {
		brokenOrder = true // a mis-placed pair / MED-comparable cycle inside the set is reported on its own
	}
	if orderDependent {
		if ref.Pre && ref.Determinate {
			brokenOrder = true
			// smallest subset of the candidates whose result depends on the arrival order
			min := c.final
			found := false
			for k := 2; k < len(c.final) && !found; k++ {
				for _, sub := range c03Subsets(c.final, k) {
					if sr := c03Reference(rs, sub, o); !sr.Determinate {
						continue
					}
					seen := map[string]bool{}
					for _, perm := range c03Perms(k) {
						seen[w.run(c03Announce(sub, perm)).key()] = true
					}
					if len(seen) > 1 {
						min, found = sub, true
						break
					}
				}
			}
			x := base()
			x["smallest_order_dependent_subset"] = c03Describe(rs, min)
			var res []string
			for k, oc := range outcomes {
				res = append(res, fmt.Sprintf("[%s] -> best,multipath %s", c03OpsString(oc.ops), k))
			}
			sort.Strings(res)
			x["outcomes"] = res
			rc, detail := rootCause(min)
			x["root_cause"] = detail
			rec.Violation("c03:order-dependent:"+rc,
				fmt.Sprintf("MED is comparable across all candidates, yet %d different results over the %d arrival orders: %s (%s)", len(outcomes), len(perms), strings.Join(res, "; "), detail), x)
		} else if !ref.Pre {
			rec.Count("order_dependent_sets_med_not_comparable", 1)
		} else {
			rec.Count("order_dependent_sets_documented_tie", 1)
		}
	}
	if !brokenOrder {
		// (a multipath set read off a list already reported as mis-ordered is not judged again)
		var oks []string
		for k := range outcomes {
			oks = append(oks, k)
		}
		sort.Strings(oks)
		for _, k := range oks {
			if oc := outcomes[k]; ref.Admissible[oc.obs.Best] {
				checkMulti(oc.obs, oc.ops)
			}
		}
	}

	// ---- replace / withdraw interleavings ending in the same set
	for k := 0; k < 20; k++ {
		ops := c03Interleaving(r, c)
		obs := w.run(ops)
		rec.Count("interleavings", 1)
		if fmt.Sprint(c03Sorted(obs.Order)) != fmt.Sprint(c03Sorted(c.final)) {
			x := base()
			x["history"] = c03OpsString(ops)
			rec.Violation("c03:interleaving:wrong-final-set", fmt.Sprintf("history [%s] must end with routes %v, the list holds %v", c03OpsString(ops), c.final, obs.Order), x)
			continue
		}
		cls := ""
		if !preU {
			cls = ":after-med-incomparable-history"
		}
		member := checkMember(obs, ops, cls)
		checkStream(obs, ops)
		if obs.key() == firstKey {
			continue
		}
		if preU && ref.Determinate && !orderDependent {
			if member {
				x := base()
				x["history"] = c03OpsString(ops)
				x["list_order_plain_arrival"] = firstObs.Order
				x["list_order_after_history"] = obs.Order
				rc, detail := rootCause(opsRoutes(ops))
				x["root_cause"] = detail
				rec.Violation("c03:history-dependent:"+rc,
					fmt.Sprintf("plain arrival gives best,multipath %s; history [%s] ending in the same set gives %s (%s)", firstKey, c03OpsString(ops), obs.key(), detail), x)
			}
		} else {
			rec.Count("history_dependent_not_asserted", 1)
			if _, seen := outcomes[obs.key()]; !seen && !brokenOrder && member {
				outcomes[obs.key()] = c03Outcome{obs, ops}
				checkMulti(obs, ops)
			}
		}
	}
	rec.Count("table_updates", w.updates)
	w.updates = 0

	// distinctness: which kinds took part and which steps of the process did the deciding
	var deciding []string
	prev := len(c.final)
	for s, tr := range ref.Trace {
		if len(tr) < prev {
			deciding = append(deciding, c03StepNames[s])
		}
		prev = len(tr)
	}
	if len(deciding) > 0 && firstObs.Best != -1 {
		var ks []string
		for _, i := range c.final {
			ks = append(ks, c03KindName[rs[i].Kind])
		}
		sort.Strings(ks)
		rec.Nontrivial(fmt.Sprintf("%d|%s|%s", idx%16, strings.Join(ks, ","), strings.Join(deciding, ",")))
		rec.Count("decided_at_"+deciding[len(deciding)-1], 1)
	}
	if idx%499 == 0 {
		rec.Sample(map[string]any{"case": idx, "options": o.String(), "final_set": c03Describe(rs, c.final), "admissible": admissible(ref),
			"reported_best": firstObs.Best, "reported_multipath": firstObs.Multi, "arrival_orders": len(perms), "deciding_steps": deciding})
	}
}

func c03RelName(r int) string {
	switch r {
	case 1:
		return "before"
	case -1:
		return "behind"
	}
	return "ties with"
}

func c03FirstDiffAny(a, b *c03Route) string {
	for s := 0; s <= c03StepEBGP; s++ {
		if c03StepDiffers(a, b, s, c03Opts{AlwaysMed: true}) {
			return c03StepNames[s]
		}
	}
	return "nothing"
}
