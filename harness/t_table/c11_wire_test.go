package table

// C11 — independent receiver.
//
// A minimal reader of RFC 4271 (UPDATE framing), RFC 4760 (MP_REACH/MP_UNREACH), RFC 7911
// (path identifiers), RFC 8277/4364/4659 (labelled and VPN NLRI), RFC 8950 (v4 NLRI with v6
// next hop) written from the RFC text only: it does not call any gobgp decoder. It turns one
// serialised message into withdrawn keys, announced keys, one canonical attribute string and
// next hops, and a receiver table applies these in order.

import (
	"encoding/binary"
	"fmt"
	"sort"
)

const (
	c11SafiUnicast   = 1
	c11SafiMulticast = 2
	c11SafiLabel     = 4
	c11SafiVPN       = 128
)

// c11Key is what a receiver can tell routes apart by: family, NLRI (RD + prefix, labels are not
// part of the key) and the path identifier *as it appears on the wire* (0 when ADD-PATH is not
// negotiated for the family).
type c11Key struct {
	fam uint32 // afi<<16 | safi
	pfx string // canonical NLRI key bytes: [RD(8)] bitlen prefix-bytes(masked)
	id  uint32
}

// c11Val is what a route carries: canonical attribute bytes (all attributes except NEXT_HOP,
// MP_REACH_NLRI, MP_UNREACH_NLRI, ordered by type code, extended-length bit cleared, two-octet
// length), the next hop address bytes (RD stripped, global then link-local), the label stack.
type c11Val struct {
	attrs string
	nh    string
	label string
}

type c11RxNLRI struct {
	key   c11Key
	label string
}

type c11RxMsg struct {
	length    int
	withdrawn []c11RxNLRI
	classic   []c11RxNLRI // UPDATE NLRI field (IPv4 unicast), next hop = classicNH
	mp        []c11RxNLRI // MP_REACH_NLRI, next hop = mpNH
	classicNH string
	hasNH     bool
	mpNH      string
	attrs     string
	eor       bool
	eorFam    uint32
}

func c11AddrBits(afi uint16) int {
	switch afi {
	case 1:
		return 32
	case 2:
		return 128
	}
	return -1
}

// c11ParseNLRIs reads a sequence of NLRI of family fam. withdraw relaxes the label rule (RFC 8277:
// the label field of a withdrawn NLRI may be 0x800000 or 0x000000 and is not looked at).
func c11ParseNLRIs(b []byte, fam uint32, addpath, withdraw bool) ([]c11RxNLRI, string) {
	afi, safi := uint16(fam>>16), uint8(fam)
	maxBits := c11AddrBits(afi)
	if maxBits < 0 {
		return nil, "unknown-afi"
	}
	var out []c11RxNLRI
	for len(b) > 0 {
		var id uint32
		if addpath {
			if len(b) < 4 {
				return nil, "short-path-id"
			}
			id = binary.BigEndian.Uint32(b)
			b = b[4:]
		}
		if len(b) < 1 {
			return nil, "short-nlri-length"
		}
		bits := int(b[0])
		b = b[1:]
		total := (bits + 7) / 8
		if len(b) < total {
			return nil, "short-nlri"
		}
		body := b[:total]
		b = b[total:]
		label := ""
		rd := ""
		switch safi {
		case c11SafiUnicast, c11SafiMulticast:
		case c11SafiLabel, c11SafiVPN:
			for {
				if len(body) < 3 || bits < 24 {
					return nil, "short-label"
				}
				l := uint32(body[0])<<16 | uint32(body[1])<<8 | uint32(body[2])
				label += string(body[:3])
				body = body[3:]
				bits -= 24
				if l&1 == 1 || (withdraw && (l == 0x800000 || l == 0)) {
					break
				}
			}
			if safi == c11SafiVPN {
				if len(body) < 8 || bits < 64 {
					return nil, "short-rd"
				}
				rd = string(body[:8])
				body = body[8:]
				bits -= 64
			}
		default:
			return nil, "unknown-safi"
		}
		if bits > maxBits {
			return nil, "prefix-too-long"
		}
		if len(body) != (bits+7)/8 {
			return nil, "nlri-length-mismatch"
		}
		pb := append([]byte(nil), body...)
		if rem := bits % 8; rem != 0 {
			var full int = 0xff00
			pb[len(pb)-1] &= byte(full >> rem)
		}
		out = append(out, c11RxNLRI{key: c11Key{fam: fam, pfx: rd + string([]byte{byte(bits)}) + string(pb), id: id}, label: label})
	}
	return out, ""
}

// c11ParseNextHop splits an MP_REACH next hop field into addresses (RFC 4760 s.3, RFC 2545 s.3,
// RFC 4364 s.4.3.2, RFC 4659 s.3.2.1, RFC 8950 s.3): each address is preceded by an 8-octet zero RD
// for SAFI 128.
func c11ParseNextHop(nh []byte, safi uint8) (string, string) {
	rd := 0
	if safi == c11SafiVPN {
		rd = 8
	}
	var n, alen int
	switch len(nh) {
	case 4 + rd:
		n, alen = 1, 4
	case 16 + rd:
		n, alen = 1, 16
	case 2 * (16 + rd):
		n, alen = 2, 16
	default:
		return "", fmt.Sprintf("bad-nexthop-length-%d", len(nh))
	}
	out := ""
	for i := 0; i < n; i++ {
		seg := nh[i*(alen+rd) : (i+1)*(alen+rd)]
		for _, x := range seg[:rd] {
			if x != 0 {
				return "", "nonzero-nexthop-rd"
			}
		}
		out += string(seg[rd:])
	}
	return out, ""
}

type c11RxAttr struct {
	flags, typ byte
	val        []byte
}

// c11ParseMsg decodes one serialised BGP message that must be an UPDATE.
func c11ParseMsg(b []byte, addpath func(fam uint32) bool) (*c11RxMsg, string) {
	if len(b) < 19 {
		return nil, "short-header"
	}
	for _, x := range b[:16] {
		if x != 0xff {
			return nil, "bad-marker"
		}
	}
	if int(binary.BigEndian.Uint16(b[16:18])) != len(b) {
		return nil, "header-length-mismatch"
	}
	if b[18] != 2 {
		return nil, "not-an-update"
	}
	m := &c11RxMsg{length: len(b)}
	p := b[19:]
	if len(p) < 4 {
		return nil, "short-update"
	}
	wl := int(binary.BigEndian.Uint16(p))
	p = p[2:]
	if len(p) < wl+2 {
		return nil, "withdrawn-length-overrun"
	}
	const v4uc = 1<<16 | 1
	var es string
	if m.withdrawn, es = c11ParseNLRIs(p[:wl], v4uc, addpath(v4uc), true); es != "" {
		return nil, "withdrawn:" + es
	}
	p = p[wl:]
	al := int(binary.BigEndian.Uint16(p))
	p = p[2:]
	if len(p) < al {
		return nil, "attribute-length-overrun"
	}
	ab, nlri := p[:al], p[al:]
	if m.classic, es = c11ParseNLRIs(nlri, v4uc, addpath(v4uc), false); es != "" {
		return nil, "nlri:" + es
	}
	var attrs []c11RxAttr
	seen := map[byte]bool{}
	var unreachSeen, unreachEmpty bool
	var unreachFam uint32
	for len(ab) > 0 {
		if len(ab) < 3 {
			return nil, "short-attribute-header"
		}
		flags, typ := ab[0], ab[1]
		var l int
		if flags&0x10 != 0 {
			if len(ab) < 4 {
				return nil, "short-attribute-header"
			}
			l = int(binary.BigEndian.Uint16(ab[2:4]))
			ab = ab[4:]
		} else {
			l = int(ab[2])
			ab = ab[3:]
		}
		if len(ab) < l {
			return nil, "attribute-value-overrun"
		}
		val := ab[:l]
		ab = ab[l:]
		if seen[typ] {
			return nil, fmt.Sprintf("duplicate-attribute-%d", typ)
		}
		seen[typ] = true
		switch typ {
		case 3:
			if l != 4 {
				return nil, "bad-next-hop-attribute-length"
			}
			m.classicNH, m.hasNH = string(val), true
		case 14:
			if l < 5 {
				return nil, "short-mp-reach"
			}
			fam := uint32(binary.BigEndian.Uint16(val))<<16 | uint32(val[2])
			nhl := int(val[3])
			if len(val) < 4+nhl+1 {
				return nil, "mp-reach-nexthop-overrun"
			}
			if m.mpNH, es = c11ParseNextHop(val[4:4+nhl], val[2]); es != "" {
				return nil, "mp-reach:" + es
			}
			if m.mp, es = c11ParseNLRIs(val[4+nhl+1:], fam, addpath(fam), false); es != "" {
				return nil, "mp-reach:" + es
			}
			if len(m.mp) == 0 {
				return nil, "mp-reach-without-nlri"
			}
		case 15:
			if l < 3 {
				return nil, "short-mp-unreach"
			}
			fam := uint32(binary.BigEndian.Uint16(val))<<16 | uint32(val[2])
			w, es := c11ParseNLRIs(val[3:], fam, addpath(fam), true)
			if es != "" {
				return nil, "mp-unreach:" + es
			}
			unreachSeen, unreachEmpty, unreachFam = true, len(w) == 0, fam
			m.withdrawn = append(m.withdrawn, w...)
		default:
			attrs = append(attrs, c11RxAttr{flags: flags, typ: typ, val: val})
		}
	}
	sort.Slice(attrs, func(i, j int) bool { return attrs[i].typ < attrs[j].typ })
	cb := make([]byte, 0, al)
	for _, a := range attrs {
		cb = append(cb, a.flags&^0x10, a.typ, byte(len(a.val)>>8), byte(len(a.val)))
		cb = append(cb, a.val...)
	}
	m.attrs = string(cb)
	if len(m.classic) > 0 && !m.hasNH {
		return nil, "nlri-without-next-hop"
	}
	// End-of-RIB (RFC 4724 s.2): an UPDATE with no reachable NLRI and empty withdrawn NLRI; for
	// IPv4 unicast the minimum-length UPDATE, otherwise one carrying only an empty MP_UNREACH.
	if len(m.withdrawn) == 0 && len(m.classic) == 0 && len(m.mp) == 0 {
		switch {
		case al == 0 && wl == 0:
			m.eor, m.eorFam = true, v4uc
		case unreachSeen && unreachEmpty && len(seen) == 1:
			m.eor, m.eorFam = true, unreachFam
		default:
			return nil, "update-without-routes"
		}
	} else if unreachSeen && unreachEmpty {
		return nil, "empty-mp-unreach-inside-update"
	}
	return m, ""
}

// c11Receiver is the receiver's table plus the End-of-RIB markers it saw.
type c11Receiver struct {
	tab  map[c11Key]c11Val
	eors map[uint32]int
}

func (rx *c11Receiver) apply(m *c11RxMsg) {
	if m.eor {
		rx.eors[m.eorFam]++
		return
	}
	for _, w := range m.withdrawn {
		delete(rx.tab, w.key)
	}
	for _, n := range m.classic {
		rx.tab[n.key] = c11Val{attrs: m.attrs, nh: m.classicNH, label: n.label}
	}
	for _, n := range m.mp {
		rx.tab[n.key] = c11Val{attrs: m.attrs, nh: m.mpNH, label: n.label}
	}
}
