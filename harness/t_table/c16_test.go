package table

// C16 (unit 1) — RFC 6811 origin validation over the ROA table.
//
// Oracle: a brute-force reference over a plain list of ROA records (family, prefix, max-length,
// AS, source). The list is maintained alongside ROATable through random Add / Delete /
// DeleteAll(source) histories; afterwards List / Info are compared with the list and 50 routes are
// classified by both. The reference never touches the critbit tree, the buckets or their ordering.

import (
	"fmt"
	"math/rand/v2"
	"net/netip"
	"sort"
	"strings"
	"testing"
	"time"

	"github.com/osrg/gobgp/v4/internal/verif/vlib"
	"github.com/osrg/gobgp/v4/pkg/config/oc"
	"github.com/osrg/gobgp/v4/pkg/packet/bgp"
)

type c16Rec struct {
	pfx    netip.Prefix // masked; Addr().Is4() tells the family
	maxLen uint8
	as     uint32
	src    string
}

func (r c16Rec) String() string {
	return fmt.Sprintf("%s-%d AS%d <%s>", r.pfx, r.maxLen, r.as, r.src)
}

func (r c16Rec) roa() *ROA {
	fam := bgp.AFI_IP
	if r.pfx.Addr().Is6() {
		fam = bgp.AFI_IP6
	}
	// same construction as pkg/server/rpki.go: prefix bytes as netip AsSlice
	return NewROA(fam, r.pfx.Addr().AsSlice(), uint8(r.pfx.Bits()), r.maxLen, r.as, r.src)
}

func c16RecOf(r *ROA) string {
	ones, _ := r.Network.Mask.Size()
	a, _ := netip.AddrFromSlice(r.Network.IP)
	return c16Rec{pfx: netip.PrefixFrom(a, ones), maxLen: r.MaxLen, as: r.AS, src: r.Src}.String()
}

func c16Strings(rs []*ROA) []string {
	out := make([]string, len(rs))
	for i, r := range rs {
		out[i] = c16RecOf(r)
	}
	sort.Strings(out)
	return out
}

// ---- generators

func c16Pick[T any](r *rand.Rand, xs []T) T { return xs[r.IntN(len(xs))] }

var c16Sources = []string{"192.0.2.1:323", "192.0.2.1:8282", "[2001:db8::1]:323"}
var c16ASPool = []uint32{0, 65001, 65001, 65002, 65003, 64512, 23456, 4200000001, 4200000002, 131072, 1, 65535}

var c16V4Seeds = []string{"10.0.0.0", "10.1.0.0", "10.1.2.0", "10.1.2.128", "10.128.0.0", "192.168.0.0", "192.168.1.0", "0.0.0.0", "128.0.0.0", "203.0.113.0", "255.255.255.255", "10.1.2.3"}
var c16V6Seeds = []string{"2001:db8::", "2001:db8:1::", "2001:db8:1:2::", "2001:db8:8000::", "2001:db9::", "::", "8000::", "2001:db8::1", "fe80::", "ffff:ffff:ffff:ffff:ffff:ffff:ffff:ffff", "2400:cb00::"}

func c16Prefix(r *rand.Rand, v6 bool) netip.Prefix {
	var a netip.Addr
	var bits int
	if v6 {
		a = netip.MustParseAddr(c16Pick(r, c16V6Seeds))
		bits = c16Pick(r, []int{0, 1, 16, 29, 32, 32, 33, 47, 48, 48, 49, 56, 64, 64, 65, 96, 127, 128})
		if r.IntN(6) == 0 {
			bits = r.IntN(129)
		}
		if r.IntN(40) == 0 { // IPv4-mapped IPv6 space: still an IPv6 prefix
			a = netip.MustParseAddr(c16Pick(r, []string{"::ffff:10.1.0.0", "::ffff:10.1.2.0", "::ffff:0.0.0.0"}))
			bits = c16Pick(r, []int{80, 96, 104, 112, 120, 128})
		}
	} else {
		a = netip.MustParseAddr(c16Pick(r, c16V4Seeds))
		bits = c16Pick(r, []int{0, 1, 7, 8, 8, 9, 15, 16, 16, 17, 20, 23, 24, 24, 25, 28, 31, 32})
		if r.IntN(6) == 0 {
			bits = r.IntN(33)
		}
	}
	if r.IntN(5) == 0 { // perturb some address bits so siblings appear
		b := a.AsSlice()
		b[r.IntN(len(b))] ^= byte(1 << r.IntN(8))
		a, _ = netip.AddrFromSlice(b)
	}
	return netip.PrefixFrom(a, bits).Masked()
}

func c16MaxLen(r *rand.Rand, p netip.Prefix) uint8 {
	top := p.Addr().BitLen()
	switch r.IntN(8) {
	case 0: // shorter than the prefix itself (a record that can match nothing)
		if p.Bits() > 0 {
			return uint8(r.IntN(p.Bits()))
		}
		return 0
	case 1, 2, 3:
		return uint8(p.Bits())
	case 4:
		return uint8(top)
	default:
		return uint8(p.Bits() + r.IntN(top-p.Bits()+1))
	}
}

func c16NewRec(r *rand.Rand, pool []c16Rec, nsrc int) c16Rec {
	if len(pool) > 0 && r.IntN(3) == 0 { // same prefix as an earlier record, other max-length / AS / source
		b := c16Pick(r, pool)
		switch r.IntN(4) {
		case 0:
			b.maxLen = c16MaxLen(r, b.pfx)
		case 1:
			b.as = c16Pick(r, c16ASPool)
		case 2:
			b.src = c16Sources[r.IntN(nsrc)]
		default:
			b.maxLen = c16MaxLen(r, b.pfx)
			b.as = c16Pick(r, c16ASPool)
		}
		return b
	}
	if len(pool) > 0 && r.IntN(4) == 0 { // more / less specific of an earlier record
		b := c16Pick(r, pool)
		top := b.pfx.Addr().BitLen()
		nb := r.IntN(top + 1)
		a := b.pfx.Addr()
		if nb > b.pfx.Bits() && r.IntN(2) == 0 {
			s := a.AsSlice()
			bit := b.pfx.Bits() + r.IntN(nb-b.pfx.Bits())
			s[bit/8] |= 0x80 >> (bit % 8)
			a, _ = netip.AddrFromSlice(s)
		}
		p := netip.PrefixFrom(a, nb).Masked()
		return c16Rec{pfx: p, maxLen: c16MaxLen(r, p), as: c16Pick(r, c16ASPool), src: c16Sources[r.IntN(nsrc)]}
	}
	p := c16Prefix(r, r.IntN(3) == 0)
	return c16Rec{pfx: p, maxLen: c16MaxLen(r, p), as: c16Pick(r, c16ASPool), src: c16Sources[r.IntN(nsrc)]}
}

// c16Model is the plain list; add refuses exact duplicates (the property's table is a set of records).
type c16Model struct{ recs []c16Rec }

func (m *c16Model) index(x c16Rec) int {
	for i, y := range m.recs {
		if x == y {
			return i
		}
	}
	return -1
}
func (m *c16Model) add(x c16Rec) bool {
	if m.index(x) >= 0 {
		return false
	}
	m.recs = append(m.recs, x)
	return true
}
func (m *c16Model) del(x c16Rec) bool {
	if i := m.index(x); i >= 0 {
		m.recs = append(m.recs[:i:i], m.recs[i+1:]...)
		return true
	}
	return false
}
func (m *c16Model) delAll(src string) int {
	var keep []c16Rec
	for _, y := range m.recs {
		if y.src != src {
			keep = append(keep, y)
		}
	}
	n := len(m.recs) - len(keep)
	m.recs = keep
	return n
}
func (m *c16Model) strings(fam int) []string { // fam: 4, 6 or 0 (both)
	var out []string
	for _, y := range m.recs {
		if fam == 0 || (fam == 4) == y.pfx.Addr().Is4() {
			out = append(out, y.String())
		}
	}
	sort.Strings(out)
	return out
}

// ---- AS_PATH shapes

type c16PathShape struct {
	name    string
	attr    *bgp.PathAttributeAsPath // nil: attribute absent
	origin  uint32                   // meaningful unless setTail / useLocal
	local   bool                     // origin is the local AS
	setTail bool                     // ends in an AS_SET: NotFound
}

func c16Seg(r *rand.Rand, typ uint8, as []uint32, allow2 bool) bgp.AsPathParamInterface {
	small := true
	for _, a := range as {
		if a > 65535 {
			small = false
		}
	}
	if allow2 && small && r.IntN(3) == 0 {
		s := make([]uint16, len(as))
		for i, a := range as {
			s[i] = uint16(a)
		}
		return bgp.NewAsPathParam(typ, s)
	}
	return bgp.NewAs4PathParam(typ, as)
}

func c16ASList(r *rand.Rand, last uint32) []uint32 {
	n := 1 + r.IntN(3)
	out := make([]uint32, n)
	for i := range out {
		out[i] = c16Pick(r, []uint32{64500, 64501, 3356, 174, 4200000009, 65001, 65002})
	}
	out[n-1] = last
	return out
}

func c16Shape(r *rand.Rand, origin uint32) c16PathShape {
	const (
		seq  = bgp.BGP_ASPATH_ATTR_TYPE_SEQ
		set  = bgp.BGP_ASPATH_ATTR_TYPE_SET
		cseq = bgp.BGP_ASPATH_ATTR_TYPE_CONFED_SEQ
		cset = bgp.BGP_ASPATH_ATTR_TYPE_CONFED_SET
	)
	mk := func(ps ...bgp.AsPathParamInterface) *bgp.PathAttributeAsPath { return bgp.NewPathAttributeAsPath(ps) }
	switch r.IntN(16) {
	case 0:
		return c16PathShape{name: "no-attr", attr: nil, local: true}
	case 1:
		return c16PathShape{name: "empty", attr: mk(), local: true}
	case 2:
		return c16PathShape{name: "confed-seq-only", attr: mk(c16Seg(r, cseq, c16ASList(r, origin), false)), local: true}
	case 3:
		return c16PathShape{name: "confed-seq+confed-set", attr: mk(c16Seg(r, cseq, c16ASList(r, 64999), false), c16Seg(r, cset, c16ASList(r, origin), false)), local: true}
	case 4:
		return c16PathShape{name: "set-only", attr: mk(c16Seg(r, set, c16ASList(r, origin), true)), setTail: true}
	case 5:
		return c16PathShape{name: "seq+set", attr: mk(c16Seg(r, seq, c16ASList(r, 64500), true), c16Seg(r, set, c16ASList(r, origin), true)), setTail: true}
	case 6:
		return c16PathShape{name: "set+seq", attr: mk(c16Seg(r, set, c16ASList(r, 64777), true), c16Seg(r, seq, c16ASList(r, origin), true)), origin: origin}
	case 7:
		return c16PathShape{name: "confed-seq+seq", attr: mk(c16Seg(r, cseq, c16ASList(r, 64999), false), c16Seg(r, seq, c16ASList(r, origin), false)), origin: origin}
	case 8:
		return c16PathShape{name: "seq+seq", attr: mk(c16Seg(r, seq, c16ASList(r, 64500), true), c16Seg(r, seq, c16ASList(r, origin), true)), origin: origin}
	case 9:
		return c16PathShape{name: "seq-single", attr: mk(c16Seg(r, seq, []uint32{origin}, true)), origin: origin}
	default:
		return c16PathShape{name: "seq", attr: mk(c16Seg(r, seq, c16ASList(r, origin), true)), origin: origin}
	}
}

func (s c16PathShape) String() string {
	if s.attr == nil {
		return "<no AS_PATH>"
	}
	var parts []string
	for _, p := range s.attr.Value {
		parts = append(parts, fmt.Sprintf("%d%v", p.GetType(), p.GetAS()))
	}
	return "[" + strings.Join(parts, " ") + "]"
}

func c16Route(pfx netip.Prefix, src *PeerInfo, aspath *bgp.PathAttributeAsPath) *Path {
	n, _ := bgp.NewIPAddrPrefix(pfx)
	attrs := []bgp.PathAttributeInterface{bgp.NewPathAttributeOrigin(0)}
	if aspath != nil {
		attrs = append(attrs, aspath)
	}
	fam := bgp.RF_IPv6_UC
	if pfx.Addr().Is4() {
		fam = bgp.RF_IPv4_UC
		nh, _ := bgp.NewPathAttributeNextHop(netip.MustParseAddr("10.0.0.9"))
		attrs = append(attrs, nh)
	}
	return NewPath(fam, src, bgp.PathNLRI{NLRI: n}, false, attrs, time.Unix(100, 0), false)
}

// c16RoutePrefix derives a route prefix aimed at the records: equal / more specific up to, at and
// beyond max-length / less specific / sibling / unrelated.
func c16RoutePrefix(r *rand.Rand, recs []c16Rec) netip.Prefix {
	if len(recs) == 0 || r.IntN(8) == 0 {
		return c16Prefix(r, r.IntN(3) == 0)
	}
	b := c16Pick(r, recs)
	top := b.pfx.Addr().BitLen()
	var nb int
	switch r.IntN(8) {
	case 0:
		nb = b.pfx.Bits()
	case 1:
		nb = int(b.maxLen)
	case 2:
		nb = int(b.maxLen) + 1
	case 3:
		nb = b.pfx.Bits() - 1 - r.IntN(4)
	case 4:
		nb = top
	default:
		nb = b.pfx.Bits() + r.IntN(top-b.pfx.Bits()+1)
	}
	if nb < 0 {
		nb = 0
	}
	if nb > top {
		nb = top
	}
	s := b.pfx.Addr().AsSlice()
	for bit := b.pfx.Bits(); bit < nb; bit++ { // random extension bits
		if r.IntN(2) == 0 {
			s[bit/8] |= 0x80 >> (bit % 8)
		}
	}
	if r.IntN(10) == 0 && b.pfx.Bits() > 0 { // sibling: flip one bit inside the record's prefix
		bit := r.IntN(b.pfx.Bits())
		s[bit/8] ^= 0x80 >> (bit % 8)
	}
	a, _ := netip.AddrFromSlice(s)
	return netip.PrefixFrom(a, nb).Masked()
}

// ---- reference (RFC 6811 section 2)

type c16Verdict struct {
	status                   oc.RpkiValidationResultType
	matched, unAS, unLen     []string
	covering, asOkLenBad, a0 int
}

func c16Reference(recs []c16Rec, pfx netip.Prefix, shape c16PathShape, localAS uint32) c16Verdict {
	v := c16Verdict{status: oc.RPKI_VALIDATION_RESULT_TYPE_NOT_FOUND}
	if shape.setTail {
		return v // origin AS is "NONE": RFC 6811 -> cannot match; property: reported NotFound
	}
	origin := shape.origin
	if shape.local {
		origin = localAS
	}
	for _, x := range recs {
		if x.pfx.Addr().Is4() != pfx.Addr().Is4() {
			continue
		}
		if x.pfx.Bits() > pfx.Bits() || !x.pfx.Contains(pfx.Addr()) {
			continue // not a covering record
		}
		v.covering++
		if x.as == 0 {
			v.a0++
		}
		switch {
		case int(x.maxLen) < pfx.Bits():
			v.unLen = append(v.unLen, x.String())
			if x.as != 0 && x.as == origin {
				v.asOkLenBad++
			}
		case x.as != 0 && x.as == origin:
			v.matched = append(v.matched, x.String())
		default:
			v.unAS = append(v.unAS, x.String())
		}
	}
	sort.Strings(v.matched)
	sort.Strings(v.unAS)
	sort.Strings(v.unLen)
	switch {
	case len(v.matched) > 0:
		v.status = oc.RPKI_VALIDATION_RESULT_TYPE_VALID
	case v.covering > 0:
		v.status = oc.RPKI_VALIDATION_RESULT_TYPE_INVALID
	}
	return v
}

var c16CondResults = []oc.RpkiValidationResultType{oc.RPKI_VALIDATION_RESULT_TYPE_VALID, oc.RPKI_VALIDATION_RESULT_TYPE_INVALID, oc.RPKI_VALIDATION_RESULT_TYPE_NOT_FOUND}

func TestVerifC16(t *testing.T) {
	rec := vlib.Open("C16")
	defer rec.Close()
	total := vlib.Scale(10000, 160000)
	conds := make([]*RpkiValidationCondition, len(c16CondResults))
	for i, x := range c16CondResults {
		c, err := NewRpkiValidationCondition(x)
		if err != nil || c == nil {
			t.Fatalf("NewRpkiValidationCondition(%s): %v", x, err)
		}
		conds[i] = c
	}
	vlib.Cases(total, func(idx int) {
		c16Case(rec, conds, idx)
	})
}

func c16Case(rec *vlib.Rec, conds []*RpkiValidationCondition, idx int) {
	r := vlib.CaseRand("c16", idx)
	rec.Eval()
	nsrc := 1 + r.IntN(3)
	target := r.IntN(31) // 0..30 records aimed at
	var history []string
	wit := func() any { return map[string]any{"case": idx, "history": history} }

	rt := NewROATable(verifLogger())
	model := &c16Model{}
	var pool []c16Rec // every record ever generated (for duplicates / unknown deletions)
	// IPv4-mapped IPv6 prefixes (::ffff:a.b.c.d/n) are a class of their own: every finding of a case
	// that holds such a record or route is reported under one key.
	mapped := false
	key := func(k string) string {
		if mapped {
			return "c16:table:ipv4-mapped-ipv6-prefix"
		}
		return k
	}
	panicked := false
	do := func(desc string, f func()) {
		history = append(history, desc)
		if rec.Guard("c16:table-op", wit, f) {
			panicked = true
		}
	}
	nops := target + r.IntN(target/2+2)
	for i := 0; i < nops && !panicked; i++ {
		switch k := r.IntN(20); {
		case k < 12 || len(pool) == 0: // add (new, or a variation of an earlier one)
			x := c16NewRec(r, pool, nsrc)
			pool = append(pool, x)
			mapped = mapped || x.pfx.Addr().Is4In6()
			do("add "+x.String(), func() { rt.Add(x.roa()) })
			if model.add(x) {
				rec.Count("t_add_new", 1)
			} else {
				rec.Count("t_add_duplicate", 1)
			}
		case k < 14: // exact duplicate of something announced before
			x := c16Pick(r, pool)
			do("add "+x.String(), func() { rt.Add(x.roa()) })
			if model.add(x) {
				rec.Count("t_add_new", 1)
			} else {
				rec.Count("t_add_duplicate", 1)
			}
		case k < 15: // same record from another source
			x := c16Pick(r, pool)
			x.src = c16Sources[r.IntN(nsrc)]
			pool = append(pool, x)
			do("add "+x.String(), func() { rt.Add(x.roa()) })
			if model.add(x) {
				rec.Count("t_add_new", 1)
			} else {
				rec.Count("t_add_duplicate", 1)
			}
		case k < 18: // delete (known or unknown record)
			x := c16Pick(r, pool)
			if r.IntN(5) == 0 {
				x = c16NewRec(r, pool, nsrc)
				mapped = mapped || x.pfx.Addr().Is4In6()
			} else if r.IntN(4) == 0 { // differs from a known record in one field only
				top := x.pfx.Addr().BitLen()
				switch r.IntN(4) {
				case 0: // same base address, other prefix length
					nb := r.IntN(top + 1)
					if p := netip.PrefixFrom(x.pfx.Addr(), nb); p.Masked() == p && nb != x.pfx.Bits() {
						x.pfx = p
					} else {
						x.as++
					}
				case 1:
					x.maxLen = uint8(r.IntN(top + 1))
				case 2:
					x.as = c16Pick(r, c16ASPool)
				default:
					x.src = c16Sources[r.IntN(3)]
				}
				rec.Count("t_delete_near_miss", 1)
			}
			do("del "+x.String(), func() { rt.Delete(x.roa()) })
			if model.del(x) {
				rec.Count("t_delete_known", 1)
			} else {
				rec.Count("t_delete_unknown", 1)
			}
		default:
			if r.IntN(3) != 0 {
				continue
			}
			src := c16Sources[r.IntN(3)] // may name a source that never announced anything
			do("delall "+src, func() { rt.DeleteAll(src) })
			rec.Count("t_delete_all", 1)
			rec.Count("t_delete_all_records", model.delAll(src))
		}
	}
	if panicked {
		return
	}

	// ---- table contents: List per family and for both, Info counters per source
	for _, f := range []struct {
		fam int
		rf  bgp.Family
	}{{4, bgp.RF_IPv4_UC}, {6, bgp.RF_IPv6_UC}, {0, bgp.Family(0)}} {
		var got []*ROA
		if rec.Guard("c16:list", wit, func() { got, _ = rt.List(f.rf) }) {
			return
		}
		gs, ws := c16Strings(got), model.strings(f.fam)
		rec.Count("t_list_compared", 1)
		if strings.Join(gs, "\n") != strings.Join(ws, "\n") {
			rec.Violation(key(fmt.Sprintf("c16:table:list-mismatch:fam%d", f.fam)),
				fmt.Sprintf("after the Add/Delete/DeleteAll history List(%v) has %d records, the plain list has %d", f.rf, len(gs), len(ws)),
				map[string]any{"case": idx, "history": history, "listed": gs, "expected": ws})
			return
		}
		if f.fam != 0 {
			var records, prefixes map[string]uint32
			if rec.Guard("c16:info", wit, func() { records, prefixes = rt.Info(f.rf) }) {
				return
			}
			wantRec, wantPfx := map[string]uint32{}, map[string]uint32{}
			seen := map[string]bool{}
			for _, x := range model.recs {
				if (f.fam == 4) != x.pfx.Addr().Is4() {
					continue
				}
				wantRec[x.src]++
				if k := x.src + "|" + x.pfx.String(); !seen[k] {
					seen[k] = true
					wantPfx[x.src]++
				}
			}
			if fmt.Sprint(records) != fmt.Sprint(wantRec) || fmt.Sprint(prefixes) != fmt.Sprint(wantPfx) {
				rec.Violation(key(fmt.Sprintf("c16:table:info-mismatch:fam%d", f.fam)),
					fmt.Sprintf("Info(%v) = records %v prefixes %v, the plain list gives records %v prefixes %v", f.rf, records, prefixes, wantRec, wantPfx),
					map[string]any{"case": idx, "history": history})
			}
		}
	}

	// ---- 50 routes
	opts := &PolicyOptions{Validate: rt.Validate} // as pkg/server wires it: options.Validate = s.roaTable.Validate
	sig := make([]byte, 0, 64)
	nontrivial := false
	setMapped := mapped
	for k := 0; k < 50; k++ {
		pfx := c16RoutePrefix(r, model.recs)
		mapped = setMapped || pfx.Addr().Is4In6()
		// origin: mostly an AS named by a record that could cover
		origin := c16Pick(r, c16ASPool)
		if len(model.recs) > 0 && r.IntN(3) != 0 {
			origin = c16Pick(r, model.recs).as
		}
		if origin == 0 && r.IntN(2) == 0 {
			origin = 65001
		}
		shape := c16Shape(r, origin)
		localAS := c16Pick(r, []uint32{65000, 65001, 4200000001, origin})
		if localAS == 0 {
			localAS = 65000
		}
		src := &PeerInfo{AS: 65009, LocalAS: localAS, ID: netip.MustParseAddr("2.2.2.2"), Address: netip.MustParseAddr("10.0.0.2")}
		p := c16Route(pfx, src, shape.attr)
		want := c16Reference(model.recs, pfx, shape, localAS)
		rwit := func() any {
			return map[string]any{"case": idx, "history": history, "route": pfx.String(), "as_path": shape.String(), "shape": shape.name, "local_as": localAS}
		}
		var got *Validation
		if rec.Guard("c16:validate", rwit, func() { got = rt.Validate(p) }) {
			return
		}
		rec.Count("v_routes", 1)
		rec.Count("v_shape_"+shape.name, 1)
		rec.Count("v_want_"+string(want.status), 1)
		switch {
		case shape.setTail:
			// covering pattern does not matter
		case want.covering == 0:
			rec.Count("v_cover_0", 1)
		case want.covering == 1:
			rec.Count("v_cover_1", 1)
		default:
			rec.Count("v_cover_many", 1)
		}
		if !shape.setTail {
			if want.asOkLenBad > 0 {
				rec.Count("v_as_match_but_too_long", 1)
				if len(want.matched) == 0 {
					rec.Count("v_invalid_only_by_length", 1)
				}
			}
			if want.a0 > 0 {
				rec.Count("v_as0_covering", 1)
			}
			if origin > 65535 && !shape.local {
				rec.Count("v_origin_4octet", 1)
			}
			if want.covering > 0 {
				nontrivial = true
			}
		}
		cb := want.covering
		if cb > 2 {
			cb = 2
		}
		sig = append(sig, byte('a'+cb*3+map[oc.RpkiValidationResultType]int{oc.RPKI_VALIDATION_RESULT_TYPE_NOT_FOUND: 0, oc.RPKI_VALIDATION_RESULT_TYPE_VALID: 1, oc.RPKI_VALIDATION_RESULT_TYPE_INVALID: 2}[want.status]))
		if got == nil {
			rec.Violation(key("c16:validate:nil-for-unicast-route"), "Validate returned nil for a reachable IPv4/IPv6 unicast route", rwit())
			continue
		}
		if got.Status != want.status {
			class := "state"
			switch {
			case shape.setTail:
				class = "as-set-tail"
			case want.a0 > 0 && got.Status == oc.RPKI_VALIDATION_RESULT_TYPE_VALID:
				class = "as0-matched"
			case want.asOkLenBad > 0 && got.Status == oc.RPKI_VALIDATION_RESULT_TYPE_VALID:
				class = "too-long-matched"
			case shape.local:
				class = "local-origin"
			}
			w := rwit().(map[string]any)
			w["got"], w["want"] = string(got.Status), string(want.status)
			w["ref_matched"], w["ref_unmatched_as"], w["ref_unmatched_length"] = want.matched, want.unAS, want.unLen
			rec.Violation(key(fmt.Sprintf("c16:validate:%s:want-%s-got-%s:%s", class, want.status, got.Status, c16ShapeClass(shape))),
				fmt.Sprintf("route %s AS_PATH %s local AS %d: Validate says %s, brute force over the %d records says %s", pfx, shape, localAS, got.Status, len(model.recs), want.status), w)
		} else {
			// the record lists exposed by the API, as sets
			for _, l := range []struct {
				name string
				got  []*ROA
				want []string
			}{{"matched", got.Matched, want.matched}, {"unmatched-as", got.UnmatchedAs, want.unAS}, {"unmatched-length", got.UnmatchedLength, want.unLen}} {
				if shape.setTail {
					break
				}
				if strings.Join(c16Strings(l.got), "\n") != strings.Join(l.want, "\n") {
					w := rwit().(map[string]any)
					w["got"], w["want"] = c16Strings(l.got), l.want
					rec.Violation(key("c16:validate:record-list:"+l.name),
						fmt.Sprintf("route %s AS_PATH %s: Validation.%s lists %d records, brute force gives %d", pfx, shape, l.name, len(l.got), len(l.want)), w)
				}
			}
		}
		if mapped {
			rec.Count("v_ipv4_mapped_ipv6_cases", 1)
		}
		// the policy condition must see the reference verdict
		for i, c := range conds {
			var b bool
			if rec.Guard("c16:cond", rwit, func() { b = c.Evaluate(p, opts) }) {
				return
			}
			rec.Count("v_condition_evals", 1)
			if wantB := c16CondResults[i] == want.status; b != wantB && got.Status == want.status {
				w := rwit().(map[string]any)
				w["condition"], w["got"], w["want_status"] = string(c16CondResults[i]), b, string(want.status)
				rec.Violation(key("c16:cond:verdict-differs:"+string(c16CondResults[i])),
					fmt.Sprintf("route %s: condition rpki==%s evaluates to %v although the validation state is %s", pfx, c16CondResults[i], b, want.status), w)
			}
		}
	}

	mapped = false
	// ---- routes of families without a ROA table: any verdict, but the condition must evaluate
	if idx%8 == 0 {
		n, _ := bgp.NewIPAddrPrefix(netip.MustParsePrefix("10.1.2.0/24"))
		nh, _ := bgp.NewPathAttributeNextHop(netip.MustParseAddr("10.0.0.9"))
		attrs := []bgp.PathAttributeInterface{bgp.NewPathAttributeOrigin(0), bgp.NewPathAttributeAsPath([]bgp.AsPathParamInterface{bgp.NewAs4PathParam(2, []uint32{65001})}), nh}
		var p *Path
		fam := "ipv4-multicast"
		if r.IntN(2) == 0 {
			p = NewPath(bgp.RF_IPv4_MC, verifSrcPeer, bgp.PathNLRI{NLRI: n}, false, attrs, time.Unix(100, 0), false)
		} else {
			fam = "l3vpn-ipv4-unicast"
			vn, _ := bgp.NewLabeledVPNIPAddrPrefix(netip.MustParsePrefix("10.1.2.0/24"), *bgp.NewMPLSLabelStack(100), bgp.NewRouteDistinguisherTwoOctetAS(65000, 1))
			p = NewPath(bgp.RF_IPv4_VPN, verifSrcPeer, bgp.PathNLRI{NLRI: vn}, false, attrs, time.Unix(100, 0), false)
		}
		fw := func() any { return map[string]any{"case": idx, "family": fam, "route": "10.1.2.0/24"} }
		rec.Count("v_other_family_routes", 1)
		rec.Guard("c16:cond-other-family", fw, func() { conds[r.IntN(len(conds))].Evaluate(p, opts) })
	}

	if nontrivial {
		shapeKey := make([]string, 0, len(model.recs))
		for _, x := range model.recs {
			shapeKey = append(shapeKey, fmt.Sprintf("%d-%d/%d", x.pfx.Bits(), x.maxLen, x.as%7))
		}
		sort.Strings(shapeKey)
		rec.Nontrivial("t:" + vlib.Hash(strings.Join(shapeKey, ",")+string(sig)))
	}
	if idx%1999 == 0 {
		rec.Sample(map[string]any{"case": idx, "unit": "table", "records": model.strings(0), "history_ops": len(history), "verdict_signature": string(sig)})
	}
}

func c16ShapeClass(s c16PathShape) string { return s.name }
