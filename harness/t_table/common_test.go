package table

import (
	"io"
	"log/slog"
	"net/netip"
	"time"

	"github.com/osrg/gobgp/v4/pkg/packet/bgp"
)

func verifLogger() *slog.Logger { return slog.New(slog.NewTextHandler(io.Discard, nil)) }

// verifPath builds a minimal IPv4 route carrying the given extra attributes.
func verifPath(pfx string, src *PeerInfo, extra ...bgp.PathAttributeInterface) *Path {
	n, _ := bgp.NewIPAddrPrefix(netip.MustParsePrefix(pfx))
	nh, _ := bgp.NewPathAttributeNextHop(netip.MustParseAddr("10.0.0.9"))
	attrs := []bgp.PathAttributeInterface{
		bgp.NewPathAttributeOrigin(0),
		bgp.NewPathAttributeAsPath([]bgp.AsPathParamInterface{bgp.NewAs4PathParam(2, []uint32{65001})}),
		nh,
	}
	attrs = append(attrs, extra...)
	return NewPath(bgp.RF_IPv4_UC, src, bgp.PathNLRI{NLRI: n}, false, attrs, time.Unix(100, 0), false)
}

var verifSrcPeer = &PeerInfo{AS: 65001, LocalAS: 65000, ID: netip.MustParseAddr("2.2.2.2"), Address: netip.MustParseAddr("10.0.0.2")}
