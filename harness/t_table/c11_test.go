package table

// C11 — UPDATE packing preserves the route changes and respects the message size limit
// (function level: CreateUpdateMsgFromPaths + BGPMessage.Serialize).
//
// Oracle. Every produced message is serialised under the session's options, exactly as
// sendMessageloop does (a message whose Serialize fails is dropped there with a "failed to
// serialize" warning: that is the only "report" the code has for a route that cannot be sent).
// The octets are decoded by the harness' own reader (c11_wire_test.go) and applied in order to a
// receiver table that was pre-populated with old routes, so that a lost withdrawal is visible.
// The end state is compared with the reference: the same initial table with the input changes
// applied one at a time.
//
// The key. The statement says "the last action per (family, prefix, path-id) wins" and that the
// messages, "applied in order by a receiver, have exactly the effect of applying the changes one at
// a time". A receiver tells routes apart by what is on the wire, and a path identifier is on the
// wire only when ADD-PATH (send) is negotiated for the family (RFC 7911); otherwise every change to
// prefix P, whatever gobgp's local path id, is a change of the receiver's single route for P, and
// applying the changes one at a time leaves the receiver with the last one. The reference is
// therefore keyed by (family, prefix, on-wire path-id) with on-wire id 0 for a family without
// ADD-PATH. gobgp legitimately queues changes with different local ids for one prefix on such a
// session (best path moves from peer B's path, local id 2, to peer A's, local id 1, and A is then
// withdrawn); if the packer keeps one action per *local* id and the result differs from the
// last action, that contradicts C11 as stated; such mismatches are keyed
// c11:dedup-by-local-id:non-addpath:<how>.
//
// Routes too large for any message. single-route size is computed here from the RFC encodings:
// lo with the shortest attribute headers, hi with learned extended-length bits kept. hi <= limit:
// the route must arrive. lo > limit: it cannot be sent; the claim is "skipped and reported without
// disturbing the other routes": the receiver may be left with the key's initial route, with
// nothing, or with what earlier changes of the list gave it, every other key must be exact, and the
// route must be in a produced message whose Serialize returns an error (what the sender logs).
// Between lo and hi both outcomes are accepted.
//
// Path shapes. Paths are built the ways gobgp builds them: attributes in type order or with
// MP_REACH_NLRI last (ProcessMessage), derived from a stored path by Clone + setPathAttr/delPathAttr
// (policy), with the leftmost AS put in front by Path.PrependAsn on a clone (UpdatePathAttrs for
// every eBGP peer), withdrawals as bare paths or as Clone(true) of the announced path; some lists
// force one attribute hash on all paths (SetHash) so that grouping must rely on the byte compare.
//
// End-of-RIB. A family's marker must be present iff the input has one; an input with one marker
// must give exactly one; n > 1 identical markers of one family may be merged (idempotent).

import (
	"encoding/hex"
	"fmt"
	"math/rand/v2"
	"net/netip"
	"sort"
	"strings"
	"testing"

	"github.com/osrg/gobgp/v4/internal/verif/vlib"
	"github.com/osrg/gobgp/v4/pkg/packet/bgp"
)

type c11NHOpt struct {
	nhs  []netip.Addr
	mode int
}

type c11Case struct {
	kind       string
	ext        bool
	limit      int
	addpath    map[bgp.Family]bgp.BGPAddPathMode
	changes    []*c11Change
	multiID    bool
	forcedHash bool
}

func (cs *c11Case) apOn(f bgp.Family) bool { return cs.addpath[f]&bgp.BGP_ADD_PATH_SEND != 0 }

type c11Gen struct {
	r   *rand.Rand
	cs  *c11Case
	ids map[c11Key]uint32
}

var c11Fams = []bgp.Family{bgp.RF_IPv4_UC, bgp.RF_IPv6_UC, bgp.RF_IPv4_VPN, bgp.RF_IPv6_VPN, bgp.RF_IPv4_MPLS, bgp.RF_IPv6_MPLS}

func c11PickFam(r *rand.Rand) bgp.Family {
	x := r.IntN(100)
	switch {
	case x < 40:
		return bgp.RF_IPv4_UC
	case x < 62:
		return bgp.RF_IPv6_UC
	case x < 74:
		return bgp.RF_IPv4_VPN
	case x < 84:
		return bgp.RF_IPv6_VPN
	case x < 92:
		return bgp.RF_IPv4_MPLS
	}
	return bgp.RF_IPv6_MPLS
}

func (g *c11Gen) nhOpt(fam bgp.Family) c11NHOpt {
	r := g.r
	if fam.Afi() == bgp.AFI_IP && r.IntN(100) >= 35 {
		o := c11NHOpt{nhs: []netip.Addr{netip.AddrFrom4([4]byte{10, 0, byte(r.IntN(2)), byte(1 + r.IntN(3))})}}
		if fam == bgp.RF_IPv4_UC {
			switch r.IntN(12) {
			case 0:
				o.mode = c11NHMPOnly
			case 1:
				o.mode = c11NHBoth
			}
		}
		return o
	}
	g6 := [16]byte{0x20, 0x01, 0x0d, 0xb8}
	g6[14], g6[15] = byte(r.IntN(2)), byte(1+r.IntN(3))
	o := c11NHOpt{nhs: []netip.Addr{netip.AddrFrom16(g6)}}
	if r.IntN(5) < 2 {
		ll := [16]byte{0xfe, 0x80}
		ll[15] = byte(1 + r.IntN(3))
		o.nhs = append(o.nhs, netip.AddrFrom16(ll))
	}
	return o
}

func (g *c11Gen) idFor(fam bgp.Family, p *c11Pfx) uint32 {
	r := g.r
	if g.cs.apOn(fam) || g.cs.multiID {
		if r.IntN(12) == 0 {
			return 0
		}
		return uint32(1 + r.IntN(3))
	}
	k := c11Key{fam: uint32(fam), pfx: p.key}
	if id, ok := g.ids[k]; ok {
		return id
	}
	id := uint32(1)
	if r.IntN(3) == 0 {
		id = uint32(r.IntN(4))
	}
	g.ids[k] = id
	return id
}

func (g *c11Gen) mk(kind int, fam bgp.Family, p *c11Pfx, set *c11AttrSet, nh c11NHOpt) *c11Change {
	r := g.r
	c := &c11Change{kind: kind, fam: fam, pfx: p}
	c.id = g.idFor(fam, p)
	if c11IsLabel(fam) {
		c.labels = []uint32{uint32(16 + r.IntN(1<<20-16))}
		if c.labels[0] == 0x80000 {
			// Not generated: gobgp writes the whole label stack into a withdrawn NLRI, and a
			// first label 524288 without bottom-of-stack bit is the octets 0x800000, which
			// RFC 3107/8277 receivers (and gobgp's own decoder) read as the one-field
			// "withdrawn" marker. That is an NLRI encoding matter, not a packing one.
			c.labels[0]++
		}
		if r.IntN(6) == 0 {
			c.labels = append(c.labels, uint32(16+r.IntN(1000)))
		}
	}
	if kind == c11Announce || r.IntN(2) == 0 {
		c.set, c.nhs, c.nhMode = set, nh.nhs, nh.mode
		c.shape = r.IntN(2)
		if r.IntN(4) == 0 {
			c.shape += 2
		}
		// (kept apart from VPN routes with two next hops so that violation keys name one input class)
		c.prepend = r.IntN(6) == 0 && !(c11IsVPN(fam) && len(nh.nhs) == 2)
	}
	if g.cs.forcedHash {
		c.hash = 0xC11C11C11
	}
	return c
}

func (g *c11Gen) add(c *c11Change) { g.cs.changes = append(g.cs.changes, c) }

// insert puts c at a random position of the list.
func (g *c11Gen) insert(c *c11Change) {
	l := g.cs.changes
	i := g.r.IntN(len(l) + 1)
	l = append(l, nil)
	copy(l[i+1:], l[i:])
	l[i] = c
	g.cs.changes = l
}

func c11SmallTarget(r *rand.Rand) int {
	if r.IntN(4) == 0 {
		return 230 + r.IntN(80)
	}
	return 16 + r.IntN(110)
}

// bystanders adds a few ordinary small changes (and sometimes an End-of-RIB) around the
// interesting routes: they must come through untouched.
func (g *c11Gen) bystanders(fams []bgp.Family, n int) {
	r := g.r
	for i := 0; i < n; i++ {
		fam := fams[r.IntN(len(fams))]
		if r.IntN(3) == 0 {
			fam = c11PickFam(r)
		}
		p := c11RandPfx(r, fam)
		kind := c11Announce
		if r.IntN(3) == 0 {
			kind = c11Withdraw
		}
		g.insert(g.mk(kind, fam, p, c11BuildAttrSet(r, c11SmallTarget(r), false), g.nhOpt(fam)))
	}
	if r.IntN(3) == 0 {
		g.insert(&c11Change{kind: c11EOR, fam: fams[r.IntN(len(fams))]})
	}
}

func (g *c11Gen) genMix() {
	r := g.r
	nf := 1 + r.IntN(3)
	type famPool struct {
		fam  bgp.Family
		pfxs []*c11Pfx
		nhs  []c11NHOpt
	}
	var pools []famPool
	for len(pools) < nf {
		fam := c11PickFam(r)
		dup := false
		for _, p := range pools {
			dup = dup || p.fam == fam
		}
		if dup {
			continue
		}
		fp := famPool{fam: fam}
		seen := map[string]bool{}
		for n := 1 + r.IntN(5); n > 0; n-- {
			p := c11RandPfx(r, fam)
			if !seen[p.key] {
				seen[p.key] = true
				fp.pfxs = append(fp.pfxs, p)
			}
		}
		for n := 1 + r.IntN(3); n > 0; n-- {
			fp.nhs = append(fp.nhs, g.nhOpt(fam))
		}
		pools = append(pools, fp)
	}
	var sets []*c11AttrSet
	for n := 1 + r.IntN(4); n > 0; n-- {
		sets = append(sets, c11BuildAttrSet(r, c11SmallTarget(r), false))
	}
	n := 1 + r.IntN(1+r.IntN(40))
	for i := 0; i < n; i++ {
		fp := pools[r.IntN(len(pools))]
		x := r.IntN(100)
		switch {
		case x < 4:
			g.add(&c11Change{kind: c11EOR, fam: fp.fam})
		case x < 5:
			g.add(&c11Change{kind: c11Nil})
		case x < 35:
			g.add(g.mk(c11Withdraw, fp.fam, fp.pfxs[r.IntN(len(fp.pfxs))], sets[r.IntN(len(sets))], fp.nhs[r.IntN(len(fp.nhs))]))
		default:
			g.add(g.mk(c11Announce, fp.fam, fp.pfxs[r.IntN(len(fp.pfxs))], sets[r.IntN(len(sets))], fp.nhs[r.IntN(len(fp.nhs))]))
		}
	}
}

// base returns the single-route size (hi) of c without any attribute of the set.
func (g *c11Gen) base(c *c11Change) int {
	save := c.set
	c.set = &c11AttrSet{}
	_, hi := c.singleSize(g.cs.apOn(c.fam))
	c.set = save
	return hi
}

// genAttrBoundary: routes whose single-route message is limit+d, d in [-64,64] (or far above
// the limit when oversize), among ordinary routes.
func (g *c11Gen) genAttrBoundary(oversize bool) {
	r := g.r
	var fams []bgp.Family
	for nb := 1 + r.IntN(2); nb > 0; nb-- {
		fam := c11PickFam(r)
		fams = append(fams, fam)
		p := c11RandPfx(r, fam)
		c := g.mk(c11Announce, fam, p, nil, g.nhOpt(fam))
		var total int
		switch {
		case oversize && r.IntN(2) == 0:
			total = g.cs.limit + 1 + r.IntN(700)
		case oversize:
			total = g.cs.limit + 1 + r.IntN(65000-g.cs.limit)
		case r.IntN(2) == 0:
			total = g.cs.limit + r.IntN(13) - 6
		default:
			total = g.cs.limit + r.IntN(129) - 64
		}
		c.set = c11BuildAttrSet(r, total-g.base(c), true)
		g.add(c)
		switch r.IntN(8) {
		case 0: // a second route with the same attributes and next hop: must not share an oversize message
			p2 := c11RandPfx(r, fam)
			c2 := g.mk(c11Announce, fam, p2, c.set, c11NHOpt{nhs: c.nhs, mode: c.nhMode})
			g.add(c2)
		case 1: // the same key withdrawn later
			c2 := g.mk(c11Withdraw, fam, p, c.set, c11NHOpt{nhs: c.nhs, mode: c.nhMode})
			c2.id = c.id
			g.add(c2)
		case 2: // the same key announced earlier with ordinary attributes
			c2 := g.mk(c11Announce, fam, p, c11BuildAttrSet(r, c11SmallTarget(r), false), c11NHOpt{nhs: c.nhs, mode: c.nhMode})
			c2.id = c.id
			g.cs.changes = append([]*c11Change{c2}, g.cs.changes...)
		}
	}
	g.bystanders(fams, r.IntN(6))
}

// genFill: many routes with one attribute set and next hop whose NLRI octets sum to about k
// messages' capacity + d, d in [-64,64]; optionally a second group differing only in next hop or
// only in attributes, interleaved.
func (g *c11Gen) genFill() {
	r := g.r
	cs := g.cs
	fam := c11PickFam(r)
	withdraw := r.IntN(4) == 0
	target := 16 + r.IntN(200)
	if r.IntN(3) == 0 {
		target = 300 + r.IntN(cs.limit-800)
	}
	if cs.ext && r.IntN(2) == 0 {
		target = cs.limit - 2000 + r.IntN(1500) // keep extended-message fills affordable
	}
	if r.IntN(6) == 0 {
		// room for about 255 octets of MP_REACH_NLRI value: the attribute header grows from 3 to 4
		// octets inside the message being filled
		target = cs.limit - 23 - 60 - 215 - r.IntN(80)
	}
	set := c11BuildAttrSet(r, target, true)
	nh := g.nhOpt(fam)
	nh.mode = c11NHAttr // groups only form for routes without a per-route MP_REACH attribute
	minBits, maxBits := 16, 32
	if fam.Afi() == bgp.AFI_IP6 {
		minBits, maxBits = 48, 128
	}
	profile := r.IntN(3)
	fixed := minBits + r.IntN(maxBits-minBits+1)
	if profile == 0 {
		fixed = maxBits - r.IntN(8) // longest NLRI encoding
	}
	rdA, rdN := uint16(65000), uint32(1)
	baseAddr := r.Uint32() >> 1
	mkp := func(i int) *c11Pfx {
		bits := fixed
		if profile == 2 {
			bits = minBits + r.IntN(maxBits-minBits+1)
		}
		return c11SeqPfx(fam, baseAddr, i, bits, rdA, rdN)
	}
	kind := c11Announce
	if withdraw {
		kind = c11Withdraw
	}
	first := g.mk(kind, fam, mkp(0), set, nh)
	first.shape %= 2
	var capacity int
	ap := 0
	if cs.apOn(fam) {
		ap = 4
	}
	if withdraw {
		capacity = cs.limit - 23
		if fam != bgp.RF_IPv4_UC {
			capacity -= 3 + 3 + 1
		}
	} else {
		capacity = cs.limit - (g.base(first) + set.hi - first.pfx.wireLen(first.labels) - ap)
	}
	k := 1
	if r.IntN(4) == 0 {
		k = 2
	}
	want := k*capacity + r.IntN(129) - 64
	if r.IntN(3) == 0 {
		want = k*capacity + r.IntN(13) - 6
	}
	g.add(first)
	sum := first.pfx.wireLen(first.labels) + ap
	var set2 *c11AttrSet
	nh2 := nh
	second := r.IntN(3) == 0 && !withdraw
	if second {
		if r.IntN(2) == 0 {
			set2 = set // equal attributes, different next hop
			for i := 0; i < 8 && fmt.Sprint(nh2.nhs) == fmt.Sprint(nh.nhs); i++ {
				nh2 = g.nhOpt(fam)
				nh2.mode = c11NHAttr
			}
		} else {
			set2 = c11BuildAttrSet(r, 16+r.IntN(200), false) // equal next hop, different attributes
		}
	}
	for i := 1; sum < want && i < 60000; i++ {
		c := g.mk(kind, fam, mkp(i), set, nh)
		c.shape, c.prepend = first.shape, first.prepend
		if c11IsLabel(fam) && len(c.labels) != len(first.labels) {
			c.labels = c.labels[:1]
			if len(first.labels) == 2 {
				c.labels = append(c.labels, 17)
			}
		}
		if withdraw && r.IntN(2) == 0 {
			c.set = nil
		}
		g.add(c)
		sum += c.pfx.wireLen(c.labels) + ap
		if second && r.IntN(50) == 0 {
			g.add(g.mk(c11Announce, fam, mkp(100000+i), set2, nh2))
		}
	}
	if r.IntN(3) == 0 {
		g.bystanders([]bgp.Family{fam}, r.IntN(4))
	}
}

func (g *c11Gen) genLarge() {
	r := g.r
	n := 2000 + r.IntN(8000)
	if vlib.Thorough() {
		n = 5000 + r.IntN(30000)
		if r.IntN(3) == 0 {
			n = 50000
		}
	}
	fams := []bgp.Family{c11PickFam(r)}
	if r.IntN(2) == 0 {
		fams = append(fams, c11PickFam(r))
	}
	var sets []*c11AttrSet
	for i := 2 + r.IntN(4); i > 0; i-- {
		sets = append(sets, c11BuildAttrSet(r, c11SmallTarget(r), false))
	}
	nhs := map[bgp.Family][]c11NHOpt{}
	for _, f := range fams {
		for i := 1 + r.IntN(2); i > 0; i-- {
			o := g.nhOpt(f)
			o.mode = c11NHAttr
			nhs[f] = append(nhs[f], o)
		}
	}
	baseAddr := r.Uint32() >> 1
	var made []*c11Change
	for i := 0; i < n; i++ {
		fam := fams[r.IntN(len(fams))]
		var p *c11Pfx
		if len(made) > 0 && r.IntN(10) == 0 {
			old := made[r.IntN(len(made))]
			fam, p = old.fam, old.pfx
		} else {
			bits := 16 + r.IntN(17)
			if fam.Afi() == bgp.AFI_IP6 {
				bits = 48 + r.IntN(81)
			}
			p = c11SeqPfx(fam, baseAddr, i%60000, bits, 65000, uint32(1+i/60000))
		}
		kind := c11Announce
		if r.IntN(10) < 3 {
			kind = c11Withdraw
		}
		c := g.mk(kind, fam, p, sets[r.IntN(len(sets))], nhs[fam][r.IntN(len(nhs[fam]))])
		c.shape %= 2
		made = append(made, c)
		g.add(c)
	}
	for _, f := range fams {
		if r.IntN(2) == 0 {
			g.insert(&c11Change{kind: c11EOR, fam: f})
		}
	}
}

func c11Generate(r *rand.Rand, idx int) *c11Case {
	cs := &c11Case{addpath: map[bgp.Family]bgp.BGPAddPathMode{}}
	cs.ext = r.IntN(4) == 0
	for _, f := range c11Fams {
		switch r.IntN(6) {
		case 0, 1:
			cs.addpath[f] = bgp.BGP_ADD_PATH_BOTH
		case 2:
			cs.addpath[f] = bgp.BGP_ADD_PATH_SEND
		case 3:
			cs.addpath[f] = bgp.BGP_ADD_PATH_RECEIVE // receive-only: no path ids on what we send
		}
	}
	cs.multiID = r.IntN(8) == 0
	cs.forcedHash = r.IntN(8) == 0
	g := &c11Gen{r: r, cs: cs, ids: map[c11Key]uint32{}}
	x := r.IntN(2000)
	switch {
	case x < 1 || (vlib.Thorough() && x < 3):
		cs.kind = "large"
		cs.ext = r.IntN(2) == 0
	case x < 130:
		cs.kind = "oversize"
		cs.ext = false
	case x < 530:
		cs.kind = "attr-boundary"
	case x < 890:
		cs.kind = "fill"
		cs.ext = r.IntN(30) == 0
	default:
		cs.kind = "mix"
	}
	cs.limit = 4096
	if cs.ext {
		cs.limit = 65535
	}
	switch cs.kind {
	case "large":
		g.genLarge()
	case "oversize":
		g.genAttrBoundary(true)
	case "attr-boundary":
		g.genAttrBoundary(false)
	case "fill":
		g.genFill()
	default:
		g.genMix()
	}
	return cs
}

// ---- oracle

type c11State struct {
	present bool
	val     c11Val
}

type c11Ref struct {
	allowed []c11State // allowed[0] is the state after applying the changes one at a time
	last    int        // index of the last change of this key
	seq     []byte     // actions on this key in list order (A/W), for the evidence
	multi   bool       // non-ADD-PATH key touched under several local path ids
	firstID uint32
}

func c11Short(s string) string {
	if len(s) <= 48 {
		return hex.EncodeToString([]byte(s))
	}
	return fmt.Sprintf("%dB#%s", len(s), vlib.Hash(s))
}

func (c *c11Change) desc() string {
	switch c.kind {
	case c11EOR:
		return "EOR " + c.fam.String()
	case c11Nil:
		return "nil"
	}
	a := "A"
	if c.kind == c11Withdraw {
		a = "W"
	}
	s := fmt.Sprintf("%s %s %s/%d", a, c.fam, c.pfx.addr, c.pfx.bits)
	if c11IsVPN(c.fam) {
		s += fmt.Sprintf(" rd=%d:%d", c.pfx.rdAdmin, c.pfx.rdAssigned)
	}
	s += fmt.Sprintf(" localid=%d", c.id)
	if len(c.labels) > 0 {
		s += fmt.Sprintf(" labels=%v", c.labels)
	}
	if c.set != nil {
		s += fmt.Sprintf(" nh=%v nhmode=%d attrs=%dB#%s shape=%d prepend=%v", c.nhs, c.nhMode, c.set.hi, vlib.Hash(c.set.canon), c.shape, c.prepend)
	}
	return s
}

func (s c11State) String() string {
	if !s.present {
		return "absent"
	}
	if s.val.attrs == "old" {
		return "initial-route"
	}
	return fmt.Sprintf("{attrs %s nh %s label %s}", c11Short(s.val.attrs), c11Short(s.val.nh), c11Short(s.val.label))
}

func TestVerifC11(t *testing.T) {
	rec := vlib.Open("C11")
	defer rec.Close()
	total := vlib.Scale(50000, 1200000)
	vlib.Cases(total, func(idx int) {
		r := vlib.CaseRand("c11", idx)
		cs := c11Generate(r, idx)
		c11Run(rec, r, cs, idx)
	})
}

func c11Run(rec *vlib.Rec, r *rand.Rand, cs *c11Case, idx int) {
	opt := &bgp.MarshallingOption{AddPath: cs.addpath, ExtendedMessage: cs.ext}
	paths := make([]*Path, len(cs.changes))
	for i, c := range cs.changes {
		c.build()
		paths[i] = c.path
	}
	rec.Eval()
	rec.Count("kind_"+cs.kind, 1)
	rec.Count("changes", len(cs.changes))
	var apList []string
	for _, f := range c11Fams {
		if cs.apOn(f) {
			apList = append(apList, f.String())
		}
	}
	wit := func() any {
		w := map[string]any{"case": idx, "kind": cs.kind, "extended_message": cs.ext, "addpath_send": apList, "n_changes": len(cs.changes),
			"multi_local_id": cs.multiID, "forced_hash": cs.forcedHash}
		var d []string
		for i, c := range cs.changes {
			if i >= 24 {
				break
			}
			d = append(d, c.desc())
		}
		w["changes"] = d
		return w
	}
	nviol := 0
	viol := func(key, what string, extra map[string]any) {
		nviol++
		if nviol > 4 {
			return
		}
		w := wit().(map[string]any)
		for k, v := range extra {
			w[k] = v
		}
		rec.Violation(key, what, w)
	}

	// reference: the initial table with the changes applied one at a time
	rx := &c11Receiver{tab: map[c11Key]c11Val{}, eors: map[uint32]int{}}
	refs := make(map[c11Key]*c11Ref, len(cs.changes))
	initial := map[c11Key]c11Val{}
	eorIn := map[uint32]int{}
	keyOf := func(c *c11Change) c11Key {
		k := c11Key{fam: uint32(c.fam), pfx: c.pfx.key}
		if cs.apOn(c.fam) {
			k.id = c.id
		}
		return k
	}
	famSeen := map[bgp.Family]bool{}
	hasUnfitV4Classic := false
	unfit, nearSingle := 0, false
	for i, c := range cs.changes {
		switch c.kind {
		case c11Nil:
			rec.Count("nil_entries", 1)
			continue
		case c11EOR:
			eorIn[uint32(c.fam)]++
			famSeen[c.fam] = true
			continue
		}
		famSeen[c.fam] = true
		k := keyOf(c)
		ref := refs[k]
		if ref == nil {
			ref = &c11Ref{firstID: c.id}
			refs[k] = ref
			st := c11State{}
			if r.IntN(10) < 6 {
				v := c11Val{attrs: "old", nh: "old"}
				initial[k], rx.tab[k] = v, v
				st = c11State{present: true, val: v}
			}
			ref.allowed = []c11State{st}
		} else if c.id != ref.firstID && !cs.apOn(c.fam) {
			ref.multi = true
		}
		ref.last = i
		if c.kind == c11Withdraw {
			ref.seq = append(ref.seq, 'W')
			ref.allowed = append(ref.allowed[:0], c11State{})
			continue
		}
		ref.seq = append(ref.seq, 'A')
		lo, hi := c.singleSize(cs.apOn(c.fam))
		if d := cs.limit - hi; d >= -64 && d <= 64 {
			nearSingle = true
		}
		st := c11State{present: true, val: c.val()}
		switch {
		case hi <= cs.limit:
			ref.allowed = append(ref.allowed[:0], st)
		default:
			// cannot (lo > limit) or need not (lo <= limit < hi) be sent: skipping leaves what
			// the earlier changes gave, or the key untouched, or nothing.
			ini := c11State{}
			if v, ok := initial[k]; ok {
				ini = c11State{present: true, val: v}
			}
			ref.allowed = append(ref.allowed, ini, c11State{})
			if lo <= cs.limit {
				ref.allowed = append(ref.allowed, st)
				rec.Count("routes_fit_only_with_short_headers", 1)
			} else {
				unfit++
				if c.classic() {
					hasUnfitV4Classic = true
				}
			}
		}
	}
	rec.Count("routes_unfittable", unfit)

	// the code under test
	guardName := "c11:pack"
	if hasUnfitV4Classic {
		guardName = "c11:oversize-attrs"
	}
	var msgs []*bgp.BGPMessage
	if rec.Guard(guardName, wit, func() { msgs = CreateUpdateMsgFromPaths(paths, opt) }) {
		rec.Count("cases_panicked", 1)
		return
	}
	rec.Count("messages_produced", len(msgs))

	// which message carries which input route (by NLRI object identity)
	where := make(map[bgp.NLRI]int, len(cs.changes))
	for i, m := range msgs {
		u, ok := m.Body.(*bgp.BGPUpdate)
		if !ok {
			viol("c11:not-an-update", fmt.Sprintf("message %d has body %T", i, m.Body), nil)
			continue
		}
		for _, n := range u.WithdrawnRoutes {
			where[n.NLRI] = i
		}
		for _, n := range u.NLRI {
			where[n.NLRI] = i
		}
		for _, a := range u.PathAttributes {
			switch x := a.(type) {
			case *bgp.PathAttributeMpReachNLRI:
				for _, n := range x.Value {
					where[n.NLRI] = i
				}
			case *bgp.PathAttributeMpUnreachNLRI:
				for _, n := range x.Value {
					where[n.NLRI] = i
				}
			}
		}
	}

	msgPrepend := make([]bool, len(msgs)) // the message carries a route whose AS_PATH went through PrependAsn
	for _, c := range cs.changes {
		if c.prepend && c.kind == c11Announce {
			if mi, ok := where[c.nl]; ok {
				msgPrepend[mi] = true
			}
		}
	}
	addpath := func(fam uint32) bool { return cs.apOn(bgp.Family(fam)) }
	failed := make([]int, len(msgs)) // 0 sent, else the size the dropped message would have had
	nearMsg, sent := false, 0
	for i, m := range msgs {
		var b []byte
		var err error
		if rec.Guard("c11:serialize", wit, func() { b, err = m.Serialize(opt) }) {
			return
		}
		if err != nil {
			size := -1
			if body, e2 := m.Body.Serialize(opt); e2 == nil {
				size = 19 + len(body)
			}
			failed[i] = size
			if size <= cs.limit {
				viol("c11:serialize-error", fmt.Sprintf("message %d (%d octets) failed to serialise: %v", i, size, err), nil)
			}
			rec.Count("messages_dropped_too_long", 1)
			continue
		}
		sent++
		d := cs.limit - len(b)
		switch {
		case d < 0:
			viol("c11:size-limit-exceeded", fmt.Sprintf("message %d serialises to %d octets, the session's limit is %d", i, len(b), cs.limit), map[string]any{"message_hex_head": hex.EncodeToString(b[:64])})
		case d == 0:
			rec.Count("messages_exactly_at_limit", 1)
			fallthrough
		case d <= 8:
			rec.Count("messages_within_8_of_limit", 1)
			fallthrough
		case d <= 64:
			rec.Count("messages_within_64_of_limit", 1)
			nearMsg = true
		}
		pm, es := c11ParseMsg(b, addpath)
		if es != "" {
			h := b
			if len(h) > 96 {
				h = h[:96]
			}
			viol("c11:malformed:"+es, fmt.Sprintf("message %d (%d octets) is rejected by the receiver: %s", i, len(b), es), map[string]any{"message_hex_head": hex.EncodeToString(h)})
			continue
		}
		if n := len(pm.classic) + len(pm.mp); n > 1 {
			rec.Count("messages_with_shared_attributes", 1)
		}
		rx.apply(pm)
	}
	rec.Count("messages_sent", sent)

	// End-of-RIB markers
	for _, f := range c11Fams {
		in, out := eorIn[uint32(f)], rx.eors[uint32(f)]
		rec.Count("eor_in", in)
		rec.Count("eor_out", out)
		switch {
		case in == 0 && out > 0:
			viol("c11:eor:spurious", fmt.Sprintf("%d End-of-RIB for %s produced, none in the input", out, f), nil)
		case in > 0 && out == 0:
			viol("c11:eor:lost", fmt.Sprintf("End-of-RIB for %s lost (%d in the input)", f, in), nil)
		case in == 1 && out != 1, in > 1 && out > in:
			viol("c11:eor:count", fmt.Sprintf("%d End-of-RIB for %s in the input, %d produced", in, f, out), nil)
		}
		delete(rx.eors, uint32(f))
	}
	for f, n := range rx.eors {
		viol("c11:eor:spurious", fmt.Sprintf("%d End-of-RIB for family %#x produced, none in the input", n, f), nil)
	}

	// end state, key by key in list order
	repeated := ""
	for i, c := range cs.changes {
		if c.kind != c11Announce && c.kind != c11Withdraw {
			continue
		}
		k := keyOf(c)
		ref := refs[k]
		if ref.last != i {
			continue
		}
		if len(ref.seq) > 1 {
			s := string(ref.seq)
			if len(s) > 4 {
				s = s[len(s)-4:]
			}
			rec.Count("repeat_"+s, 1)
			if len(s) > len(repeated) {
				repeated = s
			}
		}
		v, present := rx.tab[k]
		got := c11State{present: present, val: v}
		okState := false
		for _, a := range ref.allowed {
			if a == got {
				okState = true
				break
			}
		}
		lo := 0
		if c.kind == c11Announce {
			lo, _ = c.singleSize(cs.apOn(c.fam))
		}
		mi, emitted := where[c.nl]
		if c.kind == c11Announce && lo > cs.limit && !ref.multi {
			// too large for any message: must have been handed to the sender in a message that
			// the sender's Serialize refuses (and logs)
			if emitted && failed[mi] != 0 {
				rec.Count("oversize_routes_reported", 1)
			} else if okState {
				viol("c11:oversize-skip-unreported:"+c.class(),
					fmt.Sprintf("%s needs %d octets alone (limit %d): it is left out without any message whose Serialize fails, i.e. nothing is reported", c.desc(), lo, cs.limit), nil)
			}
		}
		if okState {
			continue
		}
		want := ref.allowed[0]
		ex := map[string]any{"key_family": c.fam.String(), "key_prefix": fmt.Sprintf("%s/%d", c.pfx.addr, c.pfx.bits), "key_wire_path_id": k.id,
			"actions_on_key": string(ref.seq), "want": want.String(), "got": got.String()}
		if ref.multi {
			how := "announces-reordered"
			switch {
			case !want.present:
				how = "withdraw-overridden"
			case !got.present:
				how = "announce-lost"
			}
			viol("c11:dedup-by-local-id:non-addpath:"+how,
				fmt.Sprintf("%s %s/%d on a session without ADD-PATH was changed under several local path ids (actions %s): a receiver applying the changes one at a time ends with %s, applying the packed messages it ends with %s",
					c.fam, c.pfx.addr, c.pfx.bits, ref.seq, want, got), ex)
			continue
		}
		cls := c.class()
		// the announced route did not arrive: the receiver has nothing or still its initial route
		lost := want.present && (!got.present || got.val.attrs == "old")
		switch {
		case lost && emitted && failed[mi] != 0:
			in := "other"
			switch {
			case c11IsVPN(c.fam) && len(c.nhs) == 2:
				in = "vpn+linklocal-nexthop" // RD counted once in MP_REACH Len(), written twice
			case msgPrepend[mi]:
				in = "aspath-prepended" // PrependAsn leaves a stale header length in the AS_PATH attribute
			}
			viol("c11:oversize-message-drops-fitting-routes:"+cls+":"+in,
				fmt.Sprintf("%s fits a message alone but was packed into message %d of %d octets (limit %d), which Serialize refuses: the route is lost", c.desc(), mi, failed[mi], cs.limit), ex)
		case lost && !emitted:
			_, hi := c.singleSize(cs.apOn(c.fam))
			key := "c11:route-not-emitted:" + cls
			if cls == "packerV4" && cs.limit-hi < 5 {
				key = "c11:near-limit-route-dropped:packerV4.pack:maxNLRIs=0"
			}
			viol(key, fmt.Sprintf("%s needs %d octets alone (limit %d) but appears in no produced message", c.desc(), hi, cs.limit), ex)
		case lost:
			viol("c11:state:"+cls+":announce-lost", fmt.Sprintf("%s: receiver has %s", c.desc(), got), ex)
		case !want.present && got.present && got.val.attrs == "old" && emitted && failed[mi] != 0:
			viol("c11:oversize-message-drops-withdrawals:"+cls,
				fmt.Sprintf("%s was packed into message %d of %d octets (limit %d), which Serialize refuses: the withdrawal is lost", c.desc(), mi, failed[mi], cs.limit), ex)
		case !want.present && got.present && got.val.attrs == "old":
			viol("c11:state:"+cls+":withdraw-lost", fmt.Sprintf("%s: receiver still has the initial route", c.desc()), ex)
		case !want.present && c.kind == c11Withdraw:
			viol("c11:state:"+cls+":route-after-withdraw", fmt.Sprintf("%s: receiver has %s", c.desc(), got), ex)
		case !want.present:
			viol("c11:state:"+cls+":unsendable-route-arrived-altered", fmt.Sprintf("%s cannot fit a message, yet the receiver has %s", c.desc(), got), ex)
		case got.val.attrs != want.val.attrs:
			viol("c11:state:"+cls+":wrong-attributes", fmt.Sprintf("%s: receiver has %s, want %s", c.desc(), got, want), ex)
		case got.val.nh != want.val.nh:
			viol("c11:state:"+cls+":wrong-nexthop", fmt.Sprintf("%s: receiver has %s, want %s", c.desc(), got, want), ex)
		default:
			viol("c11:state:"+cls+":wrong-label", fmt.Sprintf("%s: receiver has %s, want %s", c.desc(), got, want), ex)
		}
	}
	if len(rx.tab) > len(refs) {
		for k, v := range rx.tab {
			if _, ok := refs[k]; !ok {
				viol("c11:state:unexpected-route", fmt.Sprintf("receiver holds family %#x prefix %x path-id %d (%s) that no input change names", k.fam, k.pfx, k.id, c11State{true, v}), nil)
				break
			}
		}
	}

	// evidence
	var fl []string
	for _, f := range c11Fams {
		if famSeen[f] {
			fl = append(fl, f.String())
			rec.Count("family_"+f.String(), 1)
			if cs.apOn(f) {
				rec.Count("family_cases_addpath_on", 1)
			} else {
				rec.Count("family_cases_addpath_off", 1)
			}
		}
	}
	if cs.ext {
		rec.Count("cases_extended_message", 1)
	} else {
		rec.Count("cases_4096", 1)
	}
	if cs.forcedHash {
		rec.Count("cases_forced_equal_hash", 1)
	}
	nhk := map[string]int{}
	for _, c := range cs.changes {
		if c.kind == c11Announce {
			switch {
			case c.classic():
				nhk[fmt.Sprintf("nexthop_v4_classic_mode%d", c.nhMode)]++
			case len(c.nhs) == 2:
				nhk["nexthop_v6_global_and_linklocal"]++
				if c.fam.Afi() == bgp.AFI_IP {
					nhk["nexthop_v4nlri_over_v6"]++
				}
			case c.nhs[0].Is6():
				nhk["nexthop_v6"]++
				if c.fam.Afi() == bgp.AFI_IP {
					nhk["nexthop_v4nlri_over_v6"]++
				}
			default:
				nhk["nexthop_v4_in_mp_reach"]++
			}
			if c.shape >= 2 {
				nhk["paths_derived_by_clone"]++
			}
			if c.prepend {
				nhk["paths_with_prepended_as"]++
			}
		}
	}
	for k, n := range nhk {
		rec.Count(k, n)
	}
	if repeated != "" {
		rec.Count("cases_with_repeated_key", 1)
	}
	if nearMsg || nearSingle {
		rec.Count("cases_within_64_of_limit", 1)
	}
	if len(msgs) >= 2 {
		rec.Count("cases_with_2plus_messages", 1)
	}
	if len(msgs) >= 2 || nearMsg || nearSingle || repeated != "" {
		mb := len(msgs)
		if mb > 4 {
			mb = 4 + mb/16
		}
		sort.Strings(apList)
		rec.Nontrivial(fmt.Sprintf("%s|%s|ap:%s|x%v|m%d|n%v%v|r%s|h%v", cs.kind, strings.Join(fl, ","), strings.Join(apList, ","), cs.ext, mb, nearMsg, nearSingle, repeated, cs.forcedHash))
	}
	if idx%997 == 0 {
		rec.Sample(map[string]any{"case": idx, "kind": cs.kind, "families": fl, "addpath_send": apList, "extended_message": cs.ext,
			"changes": len(cs.changes), "messages": len(msgs), "messages_sent": sent, "repeat": repeated})
	}
}
