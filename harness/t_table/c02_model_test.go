package table

// C02 (layer A) — reference model and fixtures.
//
// c02Model is deliberately naive: per source one map (destination, remote path-id) -> route, read
// with linear scans. It knows nothing about hashing, chains, sorting or counters.
//
//   Adj-RIB-In(source)  = the latest un-withdrawn route per (destination, remote path-id)
//   Loc-RIB(destination) = { (source, path-id) -> route : route in some source's map, not rejected }
//                          (local sources have no Adj-RIB-In; their routes are never rejected)
//   session end / peer removal of a source = its map is emptied (per family)

import (
	"bytes"
	"fmt"
	"net/netip"
	"slices"
	"sort"

	"github.com/osrg/gobgp/v4/pkg/config/oc"
	"github.com/osrg/gobgp/v4/pkg/packet/bgp"
)

var c02Families = []bgp.Family{bgp.RF_IPv4_UC, bgp.RF_IPv6_UC, bgp.RF_IPv4_VPN, bgp.RF_EVPN}

// ---- destinations

type c02Dest struct {
	idx   int
	fam   bgp.Family
	nlri  bgp.NLRI
	name  string       // family + NLRI text: what a consumer calls this destination
	pfx   netip.Prefix // unicast and VPN
	rd    string       // VPN
	etype string       // EVPN route-type keyword understood by Table.Select
}

func c02Name(f bgp.Family, n bgp.NLRI) string { return f.String() + " " + n.String() }

// c02Pool builds the few destinations every history works on: 6 IPv4 (nested, incl. the default
// route), 3 IPv6 (nested), 3 VPNv4 (two RDs, nested) and 3 EVPN routes of different types (their
// table key and chain comparison are String()-derived).
func c02Pool() []*c02Dest {
	var out []*c02Dest
	add := func(f bgp.Family, n bgp.NLRI, pfx netip.Prefix, rd, etype string) {
		out = append(out, &c02Dest{idx: len(out), fam: f, nlri: n, name: c02Name(f, n), pfx: pfx, rd: rd, etype: etype})
	}
	for _, s := range []string{"0.0.0.0/0", "10.0.0.0/8", "10.1.0.0/16", "10.1.2.0/24", "10.1.2.128/25", "192.168.0.0/24"} {
		p := netip.MustParsePrefix(s)
		n, _ := bgp.NewIPAddrPrefix(p)
		add(bgp.RF_IPv4_UC, n, p, "", "")
	}
	for _, s := range []string{"2001:db8::/32", "2001:db8:1::/48", "2001:db8:1:2::/64"} {
		p := netip.MustParsePrefix(s)
		n, _ := bgp.NewIPAddrPrefix(p)
		add(bgp.RF_IPv6_UC, n, p, "", "")
	}
	for _, v := range []struct {
		rd  uint32
		pfx string
	}{{1, "10.1.0.0/16"}, {2, "10.1.0.0/16"}, {1, "10.1.2.0/24"}} {
		p := netip.MustParsePrefix(v.pfx)
		rd := bgp.NewRouteDistinguisherTwoOctetAS(100, v.rd)
		n, _ := bgp.NewLabeledVPNIPAddrPrefix(p, *bgp.NewMPLSLabelStack(100 + v.rd), rd)
		add(bgp.RF_IPv4_VPN, n, p, rd.String(), "")
	}
	rd := bgp.NewRouteDistinguisherTwoOctetAS(100, 1)
	mac, _ := bgp.NewEVPNMacIPAdvertisementRoute(rd, bgp.EthernetSegmentIdentifier{}, 10, "aa:bb:cc:00:00:01", netip.MustParseAddr("10.9.9.1"), []uint32{1000})
	add(bgp.RF_EVPN, mac, netip.Prefix{}, "", "macadv")
	mc, _ := bgp.NewEVPNMulticastEthernetTagRoute(rd, 10, netip.MustParseAddr("10.0.0.9"))
	add(bgp.RF_EVPN, mc, netip.Prefix{}, "", "multicast")
	ipp, _ := bgp.NewEVPNIPPrefixRoute(rd, bgp.EthernetSegmentIdentifier{}, 0, 24, netip.MustParseAddr("10.5.0.0"), netip.MustParseAddr("0.0.0.0"), 2000)
	add(bgp.RF_EVPN, ipp, netip.Prefix{}, "", "prefix")
	return out
}

// ---- sources

type c02Src struct {
	idx     int
	name    string
	info    *PeerInfo // what is handed to NewPath (nil: gobgp's own local source)
	adj     *AdjRib   // nil for local sources
	addpath bool      // remote path ids 0..3 instead of 0 only
	local   bool
}

func c02PeerInfo(kind int) (*PeerInfo, string, bool) {
	a := netip.MustParseAddr
	switch kind {
	case 0: // eBGP
		return &PeerInfo{PeerType: oc.PEER_TYPE_EXTERNAL, AS: 65001, LocalAS: 65000, ID: a("1.1.1.1"), Address: a("10.0.0.1")}, "ebgp-a", false
	case 1: // eBGP, other AS
		return &PeerInfo{PeerType: oc.PEER_TYPE_EXTERNAL, AS: 65002, LocalAS: 65000, ID: a("2.2.2.2"), Address: a("10.0.0.2")}, "ebgp-b", false
	case 2: // iBGP
		return &PeerInfo{PeerType: oc.PEER_TYPE_INTERNAL, AS: 65000, LocalAS: 65000, ID: a("3.3.3.3"), Address: a("10.0.0.3")}, "ibgp-c", false
	case 3: // second session to the router of ebgp-a: same AS and identifier, other address
		return &PeerInfo{PeerType: oc.PEER_TYPE_EXTERNAL, AS: 65001, LocalAS: 65000, ID: a("1.1.1.1"), Address: a("10.0.0.4")}, "ebgp-a2", false
	default: // route injected through the API with a source AS/identifier but no address: local
		return &PeerInfo{AS: 65010, ID: a("9.9.9.9")}, "api-local", true
	}
}

// ---- routes

type c02Spec struct {
	origin uint8
	asns   []uint32
	nh     netip.Addr
	med    uint32
	lp     int64 // <0: none
	comms  []uint32
	rt     uint32 // VPN/EVPN route target 100:rt
}

// c02Attrs builds a fresh attribute list (ascending type codes) for spec on destination d.
func c02Attrs(d *c02Dest, sp *c02Spec) []bgp.PathAttributeInterface {
	attrs := []bgp.PathAttributeInterface{bgp.NewPathAttributeOrigin(sp.origin)}
	if len(sp.asns) > 0 {
		attrs = append(attrs, bgp.NewPathAttributeAsPath([]bgp.AsPathParamInterface{bgp.NewAs4PathParam(bgp.BGP_ASPATH_ATTR_TYPE_SEQ, slices.Clone(sp.asns))}))
	} else {
		attrs = append(attrs, bgp.NewPathAttributeAsPath(nil))
	}
	if d.fam == bgp.RF_IPv4_UC {
		nh, _ := bgp.NewPathAttributeNextHop(sp.nh)
		attrs = append(attrs, nh)
	}
	attrs = append(attrs, bgp.NewPathAttributeMultiExitDisc(sp.med))
	if sp.lp >= 0 {
		attrs = append(attrs, bgp.NewPathAttributeLocalPref(uint32(sp.lp)))
	}
	if len(sp.comms) > 0 {
		attrs = append(attrs, bgp.NewPathAttributeCommunities(slices.Clone(sp.comms)))
	}
	if d.fam != bgp.RF_IPv4_UC {
		mp, err := bgp.NewPathAttributeMpReachNLRI(d.fam, []bgp.PathNLRI{{NLRI: d.nlri}}, sp.nh)
		if err != nil {
			panic("c02 harness: " + err.Error())
		}
		attrs = append(attrs, mp)
	}
	if d.fam == bgp.RF_IPv4_VPN || d.fam == bgp.RF_EVPN {
		attrs = append(attrs, bgp.NewPathAttributeExtendedCommunities([]bgp.ExtendedCommunityInterface{
			bgp.NewTwoOctetAsSpecificExtended(bgp.EC_SUBTYPE_ROUTE_TARGET, 100, sp.rt, true)}))
	}
	return attrs
}

// c02AttrBytes is the content of a route as a consumer sees it: the serialised attributes in
// ascending type order (the order in which gobgp happens to hold them is not content).
func c02AttrBytes(attrs []bgp.PathAttributeInterface) string {
	l := slices.Clone(attrs)
	sort.SliceStable(l, func(i, j int) bool { return l[i].GetType() < l[j].GetType() })
	var b bytes.Buffer
	for _, a := range l {
		x, err := a.Serialize()
		if err != nil {
			fmt.Fprintf(&b, "<serialize error %v>", err)
		}
		b.Write(x)
	}
	return b.String()
}

type c02RK struct { // key inside one source
	d  int
	id uint32
}

type c02SK struct { // key inside one destination
	s  int
	id uint32
}

type c02Route struct {
	spec     c02Spec
	attrs    string
	rejected bool
	stale    bool
}

type c02Model struct {
	pool   []*c02Dest
	routes []map[c02RK]*c02Route // per source index
	local  []bool
}

func c02NewModel(pool []*c02Dest, srcs []*c02Src) *c02Model {
	m := &c02Model{pool: pool}
	for _, s := range srcs {
		m.routes = append(m.routes, map[c02RK]*c02Route{})
		m.local = append(m.local, s.local)
	}
	return m
}

func (m *c02Model) announce(s int, k c02RK, sp c02Spec, rejected bool) {
	m.routes[s][k] = &c02Route{spec: sp, attrs: c02AttrBytes(c02Attrs(m.pool[k.d], &sp)), rejected: rejected}
}

func (m *c02Model) withdraw(s int, k c02RK) { delete(m.routes[s], k) }

func c02HasFam(fs []bgp.Family, f bgp.Family) bool { return slices.Contains(fs, f) }

// sessionEnd: nothing of source s in the given families remains.
func (m *c02Model) sessionEnd(s int, fs []bgp.Family) {
	for k := range m.routes[s] {
		if c02HasFam(fs, m.pool[k.d].fam) {
			delete(m.routes[s], k)
		}
	}
}

func (m *c02Model) staleAll(s int, fs []bgp.Family) {
	for k, r := range m.routes[s] {
		if c02HasFam(fs, m.pool[k.d].fam) {
			r.stale = true
		}
	}
}

func (m *c02Model) dropStale(s int, fs []bgp.Family) {
	for k, r := range m.routes[s] {
		if r.stale && c02HasFam(fs, m.pool[k.d].fam) {
			delete(m.routes[s], k)
		}
	}
}

// llgr: routes carrying NO_LLGR go, every other route gets LLGR_STALE attached.
func (m *c02Model) llgr(s int, fs []bgp.Family) {
	for k, r := range m.routes[s] {
		if !c02HasFam(fs, m.pool[k.d].fam) {
			continue
		}
		if slices.Contains(r.spec.comms, uint32(bgp.COMMUNITY_NO_LLGR)) {
			delete(m.routes[s], k)
			continue
		}
		r.spec.comms = append(slices.Clone(r.spec.comms), uint32(bgp.COMMUNITY_LLGR_STALE))
		r.attrs = c02AttrBytes(c02Attrs(m.pool[k.d], &r.spec))
	}
}

// keys returns the keys of source s in a deterministic order.
func (m *c02Model) keys(s int) []c02RK {
	ks := make([]c02RK, 0, len(m.routes[s]))
	for k := range m.routes[s] {
		ks = append(ks, k)
	}
	sort.Slice(ks, func(i, j int) bool {
		if ks[i].d != ks[j].d {
			return ks[i].d < ks[j].d
		}
		return ks[i].id < ks[j].id
	})
	return ks
}

// adjAt: Adj-RIB-In of source s at destination d (remote id -> route).
func (m *c02Model) adjAt(s, d int) map[uint32]*c02Route {
	out := map[uint32]*c02Route{}
	for k, r := range m.routes[s] {
		if k.d == d {
			out[k.id] = r
		}
	}
	return out
}

// locAt: Loc-RIB at destination d.
func (m *c02Model) locAt(d int) map[c02SK]*c02Route {
	out := map[c02SK]*c02Route{}
	for s := range m.routes {
		for k, r := range m.routes[s] {
			if k.d == d && !r.rejected {
				out[c02SK{s, k.id}] = r
			}
		}
	}
	return out
}

func (m *c02Model) adjCount(s int, fs []bgp.Family) (stored, accepted, dests int) {
	seen := map[int]bool{}
	for k, r := range m.routes[s] {
		if !c02HasFam(fs, m.pool[k.d].fam) {
			continue
		}
		stored++
		if !r.rejected {
			accepted++
		}
		if !seen[k.d] {
			seen[k.d] = true
			dests++
		}
	}
	return
}

func (m *c02Model) locCount(f bgp.Family) (paths, dests int) {
	for _, d := range m.pool {
		if d.fam != f {
			continue
		}
		if n := len(m.locAt(d.idx)); n > 0 {
			paths += n
			dests++
		}
	}
	return
}

// ---- lookups: plain prefix arithmetic

// c02MatchUC returns whether destination prefix p is selected by the query.
//
//	exact   prefix q : p == q
//	longer  prefix q : p lies inside q (q itself included)
//	shorter prefix q : p covers q (q itself included)
func c02MatchPrefix(kind int, q, p netip.Prefix) bool {
	if q.Addr().Is4() != p.Addr().Is4() {
		return false
	}
	switch kind {
	case 1: // longer
		return q.Bits() <= p.Bits() && q.Contains(p.Addr())
	case 2: // shorter
		return p.Bits() <= q.Bits() && p.Contains(q.Addr())
	}
	return p == q
}
