package table

// C13 — compiled community matchers decide exactly what their regular expressions decide.
//
// Oracle: regexp.MatchString of the configured pattern (as listed back by Set.List(), i.e. after
// gobgp's own ParseCommunityRegexp normalisation) on the canonical text of each community, under
// the same any/all/invert option. Differential, no model of the compiler is involved.

import (
	"fmt"
	"math/rand/v2"
	"net/netip"
	"regexp"
	"strings"
	"testing"

	"github.com/osrg/gobgp/v4/internal/verif/vlib"
	"github.com/osrg/gobgp/v4/pkg/config/oc"
	"github.com/osrg/gobgp/v4/pkg/packet/bgp"
)

func pick[T any](r *rand.Rand, xs []T) T { return xs[r.IntN(len(xs))] }

var c13ASNParts = []string{"100", "100", "200", "0", "1", "65535", "65536", "0100", "00", "010", `\d+`, `[0-9]+`, `\d*`, `[0-9]*`, `.*`, `(100|200)`, `10[0-9]`, `1\d\d`, `1..`, `100?`, `[12]00`, `(100)`, `6553[0-9]`, ""}
var c13LocalParts = []string{"1", "2", "10", "0", "65535", "65536", "01", "001", `\d+`, `[0-9]+`, `.*`, `\d*`, `[0-9]*`, `(1|2)`, `(1|2|3)`, `( 1|2)`, `(1 |2)`, `(01|2)`, `(1|1)`, `(1|65535)`, `(1|65536)`, `(1|2)?`, `1[0-9]`, `[12]`, `1.`, `1?`, `\d{1,2}`, `(1|2)+`, `(10|2\d)`, `(1)`, `()`, `.+`, `[0-9]`, `\d`, `1|2`, ""}

// c13Pattern draws one pattern string (as a user would configure it) from the grammar of
// recognised shapes and near misses. vals collects numbers named by the pattern.
func c13Pattern(r *rand.Rand) string {
	switch r.IntN(20) {
	case 0: // plain decimal 32-bit community
		return fmt.Sprint(pick(r, []uint32{0, 1, 6553601, 100<<16 | 1, 0xffffffff, 65536}))
	case 1: // plain AS:local (gets anchored by gobgp)
		return pick(r, []string{"100:1", "0100:1", "100:01", "65535:65535", "65536:1", "100:65536", "200:2", "1:1", "0:0"})
	case 2: // well-known names
		return pick(r, []string{"no-export", "NO_EXPORT", "no-advertise", "blackhole", "internet", "no-peer", "NO_EXPORT_SUBCONFED"})
	case 3: // top-level alternation
		a, b := c13Pattern(r), c13Pattern(r)
		return a + "|" + b
	case 4: // alternation inside a group around whole communities
		return "^(" + pick(r, c13ASNParts) + ":" + pick(r, c13LocalParts) + "|" + pick(r, c13ASNParts) + ":" + pick(r, c13LocalParts) + ")$"
	case 5: // several colons
		return "^" + pick(r, c13ASNParts) + ":" + pick(r, c13LocalParts) + ":" + pick(r, c13LocalParts) + "$"
	case 6: // spaces / odd prefixes
		return pick(r, []string{"^ 100:1$", "^100 :1$", "^100: 1$", "^100:1 $", "^+100:1$", "^100:+1$", "^-0:1$", "^1_00:1$", "^0x64:1$", "^100:1_0$"})
	}
	s := ""
	if r.IntN(8) != 0 {
		s += "^"
	}
	s += pick(r, c13ASNParts) + ":" + pick(r, c13LocalParts)
	if r.IntN(8) != 0 {
		s += "$"
	}
	return s
}

var c13NumRe = regexp.MustCompile(`\d+`)

func c13Communities(r *rand.Rand, pats []string) []uint32 {
	nums := []uint64{0, 1, 2, 3, 10, 11, 19, 20, 25, 99, 100, 101, 109, 110, 200, 1000, 1100, 65535, 65534}
	for _, p := range pats {
		for _, m := range c13NumRe.FindAllString(p, -1) {
			var n uint64
			fmt.Sscan(m, &n)
			nums = append(nums, n, n+1, n-1, n*10, n*10+1)
		}
	}
	var out []uint32
	for len(out) < 64 {
		var c uint32
		switch r.IntN(4) {
		case 0:
			c = r.Uint32()
		case 1:
			c = uint32(pick(r, nums)&0xffff)<<16 | uint32(r.IntN(70000)&0xffff)
		default:
			c = uint32(pick(r, nums)&0xffff)<<16 | uint32(pick(r, nums)&0xffff)
		}
		out = append(out, c)
	}
	out = append(out, 0xffffff01, 0xffffff02, 0xffffff03, 0xffff029a, 0, 0xffffffff)
	return out
}

func c13Text(c uint32) string { return fmt.Sprintf("%d:%d", c>>16, c&0xffff) }

func c13RefSet(res []*regexp.Regexp, texts []string, opt MatchOption) (result bool, defined bool) {
	if len(res) == 0 {
		return false, false // "all" over an empty list is not pinned down by the property
	}
	matchOne := func(re *regexp.Regexp) bool {
		for _, t := range texts {
			if re.MatchString(t) {
				return true
			}
		}
		return false
	}
	switch opt {
	case MATCH_OPTION_ALL:
		for _, re := range res {
			if !matchOne(re) {
				return false, true
			}
		}
		return true, true
	default:
		any := false
		for _, re := range res {
			if matchOne(re) {
				any = true
				break
			}
		}
		if opt == MATCH_OPTION_INVERT {
			return !any, true
		}
		return any, true
	}
}

func c13Shape(p string) string {
	p = c13NumRe.ReplaceAllStringFunc(p, func(m string) string {
		if len(m) > 1 && m[0] == '0' {
			return "0N"
		}
		return "N"
	})
	return p
}

var c13Opts = []MatchOption{MATCH_OPTION_ANY, MATCH_OPTION_ALL, MATCH_OPTION_INVERT}

func TestVerifC13(t *testing.T) {
	rec := vlib.Open("C13")
	defer rec.Close()
	total := vlib.Scale(24000, 1200000)
	vlib.Cases(total, func(idx int) {
		r := vlib.CaseRand("c13", idx)
		if r.IntN(3) == 0 {
			c13ExtCase(rec, r, idx)
		} else {
			c13StdCase(rec, r, idx)
		}
	})
}

func c13StdCase(rec *vlib.Rec, r *rand.Rand, idx int) {
	n := 1 + r.IntN(4)
	var pats []string
	for i := 0; i < n; i++ {
		pats = append(pats, c13Pattern(r))
	}
	set, err := NewCommunitySet(oc.CommunitySet{CommunitySetName: "s", CommunityList: pats})
	if err != nil || set == nil {
		return // not a configurable pattern list
	}
	rec.Eval()
	wit := func() any { return map[string]any{"case": idx, "patterns": pats} }
	// random edit sequence, mirrored on a plain list of configured strings
	model := append([]string{}, set.List()...)
	for e := r.IntN(3); e > 0; e-- {
		var ep []string
		for i := 1 + r.IntN(2); i > 0; i-- {
			if len(model) > 0 && r.IntN(2) == 0 {
				ep = append(ep, pick(r, model))
			} else {
				ep = append(ep, c13Pattern(r))
			}
		}
		arg, err := NewCommunitySet(oc.CommunitySet{CommunitySetName: "s", CommunityList: ep})
		if err != nil || arg == nil {
			continue
		}
		al := arg.List()
		switch r.IntN(3) {
		case 0:
			if set.Append(arg) == nil {
				model = append(model, al...)
			}
		case 1:
			if set.Remove(arg) == nil {
				var nm []string
				for _, x := range model {
					keep := true
					for _, y := range al {
						if x == y {
							keep = false
						}
					}
					if keep {
						nm = append(nm, x)
					}
				}
				model = nm
			}
		case 2:
			if set.Replace(arg) == nil {
				model = append([]string{}, al...)
			}
		}
		rec.Count("edits", 1)
	}
	listed := set.List()
	if strings.Join(listed, "\x00") != strings.Join(model, "\x00") {
		rec.Violation("c13:std:edit-list", fmt.Sprintf("after edits the set lists %q, a plain list edit gives %q", listed, model), wit())
		return
	}
	res := make([]*regexp.Regexp, len(listed))
	for i, s := range listed {
		res[i] = regexp.MustCompile(s)
	}
	comms := c13Communities(r, listed)
	modes := ""
	promoted := false
	for _, m := range set.matchers {
		modes += fmt.Sprint(m.mode)
		if m.mode != communityMatchRegexp {
			promoted = true
		}
	}
	// per-matcher agreement
	for i := range set.matchers {
		for _, c := range comms {
			var got bool
			if rec.Guard("c13:std", wit, func() { got = set.matchers[i].matchesCommunity(c, set.list) }) {
				return
			}
			want := res[i].MatchString(c13Text(c))
			rec.Count("matcher_evals", 1)
			if got != want {
				rec.Violation(fmt.Sprintf("c13:std:matcher:mode%d:%s", set.matchers[i].mode, c13Shape(listed[i])),
					fmt.Sprintf("pattern %q community %s: compiled matcher (mode %d) says %v, regexp says %v", listed[i], c13Text(c), set.matchers[i].mode, got, want),
					map[string]any{"case": idx, "pattern": listed[i], "community": c13Text(c), "got": got, "want": want})
				break
			}
		}
	}
	// condition level: subsets of the communities on a route
	for k := 0; k < 12; k++ {
		var cs []uint32
		for i := r.IntN(4); i > 0; i-- {
			cs = append(cs, pick(r, comms))
		}
		var extra []bgp.PathAttributeInterface
		if len(cs) > 0 || r.IntN(2) == 0 {
			extra = append(extra, bgp.NewPathAttributeCommunities(cs))
		}
		p := verifPath("10.1.0.0/24", verifSrcPeer, extra...)
		texts := make([]string, len(cs))
		for i, c := range cs {
			texts[i] = c13Text(c)
		}
		for _, opt := range c13Opts {
			cond := &CommunityCondition{set: set, option: opt}
			want, defined := c13RefSet(res, texts, opt)
			var got bool
			if rec.Guard("c13:std:cond", wit, func() { got = cond.Evaluate(p, nil) }) {
				return
			}
			rec.Count("condition_evals", 1)
			if defined && got != want {
				rec.Violation(fmt.Sprintf("c13:std:cond:%s:modes%s", opt, modes),
					fmt.Sprintf("patterns %q option %s communities %v: Evaluate=%v, regexps say %v", listed, opt, texts, got, want),
					map[string]any{"case": idx, "patterns": listed, "option": opt.String(), "communities": texts, "got": got, "want": want})
			}
		}
	}
	if promoted {
		rec.Nontrivial("std:" + modes + ":" + c13Shape(strings.Join(listed, ",")))
	}
	if idx%997 == 0 {
		rec.Sample(map[string]any{"case": idx, "kind": "community", "patterns": listed, "matcher_modes": modes, "communities_probed": len(comms)})
	}
}

// ---- extended communities

var c13ExtPrefixes = []string{"rt:", "soo:", "RT:", "encap:", "lb:"}

func c13ExtPattern(r *rand.Rand) string {
	body := c13Pattern(r)
	if r.IntN(6) == 0 {
		body = pick(r, []string{"^100:100000$", "^100:4294967295$", "^100:4294967296$", "^10.0.0.1:1$", `^10\.0\.0\.1:(1|2)$`, "^0.100:1$", `^\d+\.\d+:1$`, "^1.1:.*$", "100:100000", "10.0.0.1:5", "^VXLAN$", ".*"})
	}
	return pick(r, c13ExtPrefixes) + body
}

func c13ExtCommunities(r *rand.Rand, pats []string) []bgp.ExtendedCommunityInterface {
	nums := []uint64{0, 1, 2, 3, 10, 99, 100, 101, 200, 65535, 65536, 100000, 4294967295}
	for _, p := range pats {
		for _, m := range c13NumRe.FindAllString(p, -1) {
			var n uint64
			fmt.Sscan(m, &n)
			nums = append(nums, n, n+1, n-1)
		}
	}
	subtypes := []bgp.ExtendedCommunityAttrSubType{bgp.EC_SUBTYPE_ROUTE_TARGET, bgp.EC_SUBTYPE_ROUTE_ORIGIN, bgp.EC_SUBTYPE_LINK_BANDWIDTH, bgp.EC_SUBTYPE_ENCAPSULATION}
	var out []bgp.ExtendedCommunityInterface
	for len(out) < 48 {
		st := pick(r, subtypes)
		trans := r.IntN(6) != 0
		switch r.IntN(6) {
		case 0, 1, 2:
			out = append(out, bgp.NewTwoOctetAsSpecificExtended(st, uint16(pick(r, nums)), uint32(pick(r, nums)), trans))
		case 3:
			out = append(out, bgp.NewFourOctetAsSpecificExtended(st, uint32(pick(r, nums)), uint16(pick(r, nums)), trans))
		case 4:
			a := pick(r, []string{"10.0.0.1", "0.0.0.100", "1.1.1.1", "0.100.0.1"})
			if x, err := bgp.NewIPv4AddressSpecificExtended(st, netip.MustParseAddr(a), uint16(pick(r, nums)), trans); err == nil {
				out = append(out, x)
			}
		case 5:
			out = append(out, bgp.NewEncapExtended(bgp.TunnelType(pick(r, []uint16{8, 1, 11, 13}))))
		}
	}
	return out
}

func c13ExtStrings(s *ExtCommunitySet) []string {
	out := make([]string, len(s.list))
	for i := range s.list {
		out[i] = fmt.Sprintf("%d|%s", s.subtypeList[i], s.list[i].String())
	}
	return out
}

func c13ExtCase(rec *vlib.Rec, r *rand.Rand, idx int) {
	n := 1 + r.IntN(4)
	var pats []string
	for i := 0; i < n; i++ {
		pats = append(pats, c13ExtPattern(r))
	}
	set, err := NewExtCommunitySet(oc.ExtCommunitySet{ExtCommunitySetName: "s", ExtCommunityList: pats})
	if err != nil || set == nil {
		return
	}
	rec.Eval()
	wit := func() any { return map[string]any{"case": idx, "ext_patterns": pats} }
	model := c13ExtStrings(set)
	for e := r.IntN(3); e > 0; e-- {
		var ep []string
		for i := 1 + r.IntN(2); i > 0; i-- {
			if r.IntN(2) == 0 {
				// same body under another sub-type: exercises removal keyed on the body alone
				p := pick(r, pats)
				ep = append(ep, pick(r, c13ExtPrefixes)+p[strings.Index(p, ":")+1:])
			} else {
				ep = append(ep, c13ExtPattern(r))
			}
		}
		arg, err := NewExtCommunitySet(oc.ExtCommunitySet{ExtCommunitySetName: "s", ExtCommunityList: ep})
		if err != nil || arg == nil {
			continue
		}
		al := c13ExtStrings(arg)
		switch r.IntN(3) {
		case 0:
			if set.Append(arg) == nil {
				model = append(model, al...)
			}
		case 1:
			if set.Remove(arg) == nil {
				var nm []string
				for _, x := range model {
					keep := true
					for _, y := range al {
						if x == y {
							keep = false
						}
					}
					if keep {
						nm = append(nm, x)
					}
				}
				model = nm
			}
		case 2:
			if set.Replace(arg) == nil {
				model = append([]string{}, al...)
			}
		}
		rec.Count("edits", 1)
	}
	if len(set.list) != len(set.subtypeList) || len(set.list) != len(set.matchers) {
		rec.Violation("c13:ext:edit-lengths", fmt.Sprintf("after edits: %d patterns, %d sub-types, %d matchers", len(set.list), len(set.subtypeList), len(set.matchers)), wit())
		return
	}
	listed := c13ExtStrings(set)
	if strings.Join(listed, "\x00") != strings.Join(model, "\x00") {
		rec.Violation("c13:ext:edit-list", fmt.Sprintf("after edits the set holds %q, a plain list edit gives %q", listed, model), wit())
		// keep going with what the set lists: the compiled form must still agree with it
	}
	res := make([]*regexp.Regexp, len(set.list))
	sts := make([]bgp.ExtendedCommunityAttrSubType, len(set.list))
	for i := range set.list {
		res[i] = regexp.MustCompile(set.list[i].String())
		sts[i] = set.subtypeList[i]
	}
	refOne := func(i int, x bgp.ExtendedCommunityInterface) bool {
		typ, st := x.GetTypes()
		if typ >= bgp.EC_TYPE_NON_TRANSITIVE_TWO_OCTET_AS_SPECIFIC { // only transitive ones take part (RFC 7153), as documented
			return false
		}
		return st == sts[i] && res[i].MatchString(x.String())
	}
	comms := c13ExtCommunities(r, pats)
	modes := ""
	promoted := false
	for _, m := range set.matchers {
		modes += fmt.Sprint(m.mode)
		if m.mode != extCommMatchRegexp {
			promoted = true
		}
	}
	for i := range set.matchers {
		for _, x := range comms {
			if typ, _ := x.GetTypes(); typ >= bgp.EC_TYPE_NON_TRANSITIVE_TWO_OCTET_AS_SPECIFIC {
				continue
			}
			var got bool
			var xs string
			if rec.Guard("c13:ext", wit, func() { got = set.matchers[i].matchesExtCommunity(x, &xs) }) {
				return
			}
			want := refOne(i, x)
			rec.Count("matcher_evals", 1)
			if got != want {
				rec.Violation(fmt.Sprintf("c13:ext:matcher:mode%d:%T:%s", set.matchers[i].mode, x, c13Shape(set.list[i].String())),
					fmt.Sprintf("ext pattern %q community %T %s: compiled matcher (mode %d) says %v, regexp says %v", listed[i], x, x.String(), set.matchers[i].mode, got, want),
					map[string]any{"case": idx, "pattern": listed[i], "community": x.String(), "type": fmt.Sprintf("%T", x), "got": got, "want": want})
				break
			}
		}
	}
	for k := 0; k < 12; k++ {
		var es []bgp.ExtendedCommunityInterface
		for i := r.IntN(4); i > 0; i-- {
			es = append(es, pick(r, comms))
		}
		var extra []bgp.PathAttributeInterface
		if len(es) > 0 {
			extra = append(extra, bgp.NewPathAttributeExtendedCommunities(es))
		}
		p := verifPath("10.1.0.0/24", verifSrcPeer, extra...)
		var texts []string
		for _, x := range es {
			texts = append(texts, fmt.Sprintf("%T(%s)", x, x.String()))
		}
		for _, opt := range c13Opts {
			cond := &ExtCommunityCondition{set: set, option: opt}
			var got bool
			if rec.Guard("c13:ext:cond", wit, func() { got = cond.Evaluate(p, nil) }) {
				return
			}
			rec.Count("condition_evals", 1)
			if len(res) == 0 {
				continue
			}
			matchOne := func(i int) bool {
				for _, x := range es {
					if refOne(i, x) {
						return true
					}
				}
				return false
			}
			var want bool
			if opt == MATCH_OPTION_ALL {
				want = true
				for i := range res {
					if !matchOne(i) {
						want = false
					}
				}
			} else {
				for i := range res {
					if matchOne(i) {
						want = true
					}
				}
				if opt == MATCH_OPTION_INVERT {
					want = !want
				}
			}
			if got != want {
				rec.Violation(fmt.Sprintf("c13:ext:cond:%s:modes%s", opt, modes),
					fmt.Sprintf("ext patterns %q option %s communities %v: Evaluate=%v, regexps say %v", listed, opt, texts, got, want),
					map[string]any{"case": idx, "patterns": listed, "option": opt.String(), "communities": texts, "got": got, "want": want})
			}
		}
	}
	if promoted {
		rec.Nontrivial("ext:" + modes + ":" + c13Shape(strings.Join(listed, ",")))
	}
	if idx%997 == 1 {
		rec.Sample(map[string]any{"case": idx, "kind": "ext-community", "patterns": listed, "matcher_modes": modes})
	}
}
