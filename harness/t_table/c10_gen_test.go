package table

// C10 — generators: policy programs (configuration structs) and plain routes.
// Value pools are small on purpose so that conditions are satisfied often enough.

import (
	"fmt"
	"math/rand/v2"
	"net/netip"
	"strings"

	"github.com/osrg/gobgp/v4/pkg/config/oc"
)

func c10Pick[T any](r *rand.Rand, xs []T) T { return xs[r.IntN(len(xs))] }

var (
	c10ASNs      = []uint32{65001, 65002, 65100, 65200, 100, 200, 4200000001}
	c10CommAS    = []uint32{65100, 65200, 100}
	c10CommLocal = []uint32{10, 20, 30, 100}
	c10LCA       = []uint32{65100, 65200, 4200000001}
	c10LCBC      = []uint32{1, 2, 100}

	c10V4Bases    = []string{"10.33.0.0", "10.33.8.0", "10.33.9.128", "10.50.1.0", "10.3.0.0", "192.168.5.0", "172.16.0.0", "10.0.0.0"}
	c10V4Lens     = []int{8, 16, 21, 22, 24, 24, 32}
	c10V6Bases    = []string{"2001:db8::", "2001:db8:1::", "2001:db8:1:2::", "2001:dead::"}
	c10V6Lens     = []int{32, 48, 64, 128}
	c10Neighbors4 = []string{"10.0.255.1", "10.0.255.2", "10.0.254.1", "10.0.253.7"}
	c10Neighbors6 = []string{"2001:db8::1", "2001:db8::2", "2001:db8:ffff::1"}
	c10NextHops4  = []string{"10.0.0.9", "10.0.0.10", "192.168.1.1", "10.0.255.1"}
	c10NextHops6  = []string{"2001:db8::9", "2001:db8::a", "2001:db8::1"}
	c10Locals4    = []string{"10.0.255.254", "10.0.254.254"}
	c10Locals6    = []string{"2001:db8::fe", "2001:db8::ff"}

	c10IDs = []string{"global", "10.0.255.1", "10.0.255.2"}
)

type c10PfxEntry struct{ p, rng string }

var c10PrefixEntries4 = []c10PfxEntry{
	{"10.33.0.0/16", "21..24"}, {"10.33.0.0/16", ""}, {"10.50.0.0/16", "16..32"}, {"10.0.0.0/8", "8..32"},
	{"192.168.0.0/16", "24..24"}, {"10.33.8.0/21", "21..32"}, {"0.0.0.0/0", "0..32"}, {"10.0.0.0/8", "16..24"},
	{"10.3.0.0/16", ""}, {"172.16.0.0/12", "12..16"},
}
var c10PrefixEntriesShort4 = []c10PfxEntry{{"10.33.0.0/16", "8..24"}, {"10.0.0.0/16", "8..16"}} // range reaches below the prefix length
var c10PrefixEntries6 = []c10PfxEntry{
	{"2001:db8::/32", "32..64"}, {"2001:db8:1::/48", ""}, {"::/0", "0..128"}, {"2001:db8::/32", "48..48"}, {"2001:db8:1:2::/64", "64..128"},
}

func c10CommString(r *rand.Rand) string {
	return fmt.Sprintf("%d:%d", c10Pick(r, c10CommAS), c10Pick(r, c10CommLocal))
}

func c10CommMember(r *rand.Rand) string {
	switch r.IntN(12) {
	case 0:
		return "6[0-9]+:[0-9]+" // policy.md example
	case 1:
		return fmt.Sprintf("^%d:.*$", c10Pick(r, c10CommAS))
	case 2:
		return fmt.Sprintf(":%d$", c10Pick(r, c10CommLocal))
	case 3:
		return fmt.Sprintf("^(65100|65200):%d$", c10Pick(r, c10CommLocal))
	case 4:
		return fmt.Sprintf(`^\d+:%d$`, c10Pick(r, c10CommLocal))
	case 5:
		if r.IntN(6) == 0 {
			return "^65100:[12]0$"
		}
		return fmt.Sprintf("^%d:", c10Pick(r, c10CommAS))
	}
	return c10CommString(r)
}

func c10ExtValue(r *rand.Rand) string {
	pfx := c10Pick(r, []string{"rt", "soo", "RT", "SoO"})
	switch r.IntN(5) {
	case 0:
		return fmt.Sprintf("%s:%s:%d", pfx, c10Pick(r, []string{"1.2.3.4", "10.0.0.1"}), c10Pick(r, []int{5, 100}))
	case 1:
		return fmt.Sprintf("%s:1.100:%d", pfx, c10Pick(r, []int{5, 100}))
	}
	return fmt.Sprintf("%s:%d:%d", pfx, c10Pick(r, c10CommAS), c10Pick(r, []int{100, 200, 5, 100000}))
}

func c10ExtMember(r *rand.Rand) string {
	pfx := c10Pick(r, []string{"rt", "soo", "RT"})
	switch r.IntN(10) {
	case 0:
		return pfx + ":6[0-9]+:[0-9]+" // policy.md example
	case 1:
		return fmt.Sprintf("%s:^%d:.*$", pfx, c10Pick(r, c10CommAS))
	case 2:
		return pfx + `:^1\.2\.3\.4:\d+$`
	case 3:
		return pfx + ":.*"
	case 4:
		return fmt.Sprintf("%s:^%d:(100|200)$", pfx, c10Pick(r, c10CommAS))
	case 5:
		return pfx + `:^\d+\.\d+:5$`
	}
	return c10ExtValue(r)
}

func c10LCString(r *rand.Rand) string {
	return fmt.Sprintf("%d:%d:%d", c10Pick(r, c10LCA), c10Pick(r, c10LCBC), c10Pick(r, c10LCBC))
}

func c10LCMember(r *rand.Rand) string {
	switch r.IntN(8) {
	case 0:
		return fmt.Sprintf("^%d:.*", c10Pick(r, c10LCA))
	case 1:
		return fmt.Sprintf(":%d$", c10Pick(r, c10LCBC))
	case 2:
		return "^65[0-9]+:1:"
	case 3:
		return `4200000001:\d+:2`
	}
	return c10LCString(r)
}

func c10AsPathMember(r *rand.Rand) string {
	a, b := c10Pick(r, c10ASNs), c10Pick(r, c10ASNs)
	switch r.IntN(16) {
	case 0, 1:
		return fmt.Sprintf("^%d_", a)
	case 2, 3:
		return fmt.Sprintf("_%d$", a)
	case 4, 5:
		return fmt.Sprintf("_%d_", a)
	case 6:
		return fmt.Sprintf("^%d$", a)
	case 7:
		return fmt.Sprintf("^%d_%d", a, b)
	case 8:
		return fmt.Sprintf("%d_[0-9]+_.*$", a) // policy.md
	case 9:
		return "^6[0-9]_5.*_65.?00$" // policy.md
	case 10:
		return fmt.Sprintf("[0-9]+_65[0-9]+_%d$", a) // policy.md
	case 11:
		return "^$"
	case 12:
		return fmt.Sprintf("^(%d|%d)_", a, b)
	case 13:
		return fmt.Sprintf("_%d_%d_", a, b)
	case 14:
		return fmt.Sprintf("^%d %d", a, b)
	}
	return fmt.Sprintf("_%d", a)
}

func c10Case(r *rand.Rand, s string) string {
	switch r.IntN(4) {
	case 0:
		return strings.ToUpper(s)
	}
	return s
}

func c10N(r *rand.Rand, lo, hi int) int { return lo + r.IntN(hi-lo+1) }

type c10Program struct {
	cfg *oc.RoutingPolicy
	ap  map[string]oc.ApplyPolicy
	// edit phase (c10_edit_test.go): statements that exist but belong to no policy, the key prefix of
	// the edit under test ("" outside the edit phase) and the edit history that led here
	orphans []oc.Statement
	edit    string
	history []string
	failed  bool // an oracle fired on this configuration (set by key)
}

// key maps an oracle key to the edit under test: while an edit history is replayed the interesting
// fact is which request left the configuration in a state other than the modelled one.
func (p *c10Program) key(k string) string {
	p.failed = true
	if p.edit == "" || strings.HasPrefix(k, "panic:") || strings.HasPrefix(k, "c10:alias:") || strings.HasPrefix(k, "c10:harness:") {
		return k
	}
	k = strings.TrimPrefix(strings.TrimPrefix(k, "c10:"), "readback:")
	return p.edit + ":" + strings.SplitN(k, ":", 2)[0] // area only (config, api, statement, policy, assignment, defined-set, cond, action, verdict, attr); the field is in the text
}

func c10GenProgram(r *rand.Rand) *c10Program {
	cfg := &oc.RoutingPolicy{}
	ds := &cfg.DefinedSets
	// prefix sets: one family each
	for i := 0; i < c10N(r, 1, 3); i++ {
		s := oc.PrefixSet{PrefixSetName: fmt.Sprintf("ps%d", i)}
		pool := c10PrefixEntries4
		if r.IntN(4) == 0 {
			pool = c10PrefixEntries6
		}
		for j := 0; j < c10N(r, 1, 3); j++ {
			e := c10Pick(r, pool)
			if r.IntN(25) == 0 && pool[0].p == c10PrefixEntries4[0].p {
				e = c10Pick(r, c10PrefixEntriesShort4)
			}
			s.PrefixList = append(s.PrefixList, oc.Prefix{IpPrefix: netip.MustParsePrefix(e.p), MasklengthRange: e.rng})
		}
		ds.PrefixSets = append(ds.PrefixSets, s)
	}
	for i := 0; i < c10N(r, 1, 2); i++ {
		s := oc.NeighborSet{NeighborSetName: fmt.Sprintf("ns%d", i)}
		n := c10N(r, 1, 3)
		if r.IntN(30) == 0 {
			n = 0 // documented: an empty neighbor set matches anything
		}
		for j := 0; j < n; j++ {
			s.NeighborInfoList = append(s.NeighborInfoList, c10Pick(r, []string{"10.0.255.1", "10.0.255.2", "10.0.254.1", "10.0.255.0/24", "2001:db8::1", "2001:db8::/64"}))
		}
		ds.NeighborSets = append(ds.NeighborSets, s)
	}
	bd := &ds.BgpDefinedSets
	for i := 0; i < c10N(r, 1, 2); i++ {
		s := oc.AsPathSet{AsPathSetName: fmt.Sprintf("as%d", i)}
		for j := 0; j < c10N(r, 1, 3); j++ {
			s.AsPathList = append(s.AsPathList, c10AsPathMember(r))
		}
		bd.AsPathSets = append(bd.AsPathSets, s)
	}
	for i := 0; i < c10N(r, 1, 2); i++ {
		s := oc.CommunitySet{CommunitySetName: fmt.Sprintf("cs%d", i)}
		for j := 0; j < c10N(r, 1, 3); j++ {
			s.CommunityList = append(s.CommunityList, c10CommMember(r))
		}
		bd.CommunitySets = append(bd.CommunitySets, s)
	}
	for i := 0; i < c10N(r, 1, 2); i++ {
		s := oc.ExtCommunitySet{ExtCommunitySetName: fmt.Sprintf("es%d", i)}
		for j := 0; j < c10N(r, 1, 3); j++ {
			s.ExtCommunityList = append(s.ExtCommunityList, c10ExtMember(r))
		}
		bd.ExtCommunitySets = append(bd.ExtCommunitySets, s)
	}
	for i := 0; i < c10N(r, 1, 2); i++ {
		s := oc.LargeCommunitySet{LargeCommunitySetName: fmt.Sprintf("ls%d", i)}
		for j := 0; j < c10N(r, 1, 3); j++ {
			s.LargeCommunityList = append(s.LargeCommunityList, c10LCMember(r))
		}
		bd.LargeCommunitySets = append(bd.LargeCommunitySets, s)
	}

	np := c10N(r, 1, 4)
	for pi := 0; pi < np; pi++ {
		pd := oc.PolicyDefinition{Name: fmt.Sprintf("p%d", pi)}
		for si := 0; si < c10N(r, 1, 4); si++ {
			st := c10GenStatement(r, cfg)
			if r.IntN(10) != 0 {
				st.Name = fmt.Sprintf("p%ds%d", pi, si)
			} // else: unnamed, as in policy.md example 5
			pd.Statements = append(pd.Statements, st)
		}
		cfg.PolicyDefinitions = append(cfg.PolicyDefinitions, pd)
	}

	ap := map[string]oc.ApplyPolicy{}
	for _, id := range c10IDs {
		if r.IntN(40) == 0 {
			continue
		}
		var a oc.ApplyPolicy
		a.Config.ImportPolicyList = c10PolicyList(r, np)
		a.Config.ExportPolicyList = c10PolicyList(r, np)
		a.Config.DefaultImportPolicy = c10Pick(r, []oc.DefaultPolicyType{"", "accept-route", "reject-route", "reject-route"})
		a.Config.DefaultExportPolicy = c10Pick(r, []oc.DefaultPolicyType{"", "accept-route", "reject-route", "reject-route"})
		ap[id] = a
	}
	return &c10Program{cfg: cfg, ap: ap}
}

func c10PolicyList(r *rand.Rand, np int) []string {
	perm := r.Perm(np)
	n := c10Pick(r, []int{0, 1, 1, 1, 2, 2, 3})
	if n > np {
		n = np
	}
	var l []string
	for _, i := range perm[:n] {
		l = append(l, fmt.Sprintf("p%d", i))
	}
	return l
}

var c10Ops = []oc.AttributeComparison{"eq", "ge", "le", "attribute-eq", "attribute-ge", "attribute-le"}

func c10GenStatement(r *rand.Rand, cfg *oc.RoutingPolicy) oc.Statement {
	var st oc.Statement
	ds := &cfg.DefinedSets
	bd := &ds.BgpDefinedSets
	c := &st.Conditions
	b := &c.BgpConditions
	k := c10Pick(r, []int{0, 0, 1, 1, 1, 1, 1, 2, 2, 2, 2, 3, 3, 4, 5})
	opt3 := func() oc.MatchSetOptionsType { return c10Pick(r, []oc.MatchSetOptionsType{"", "any", "all", "invert"}) }
	opt2 := func() oc.MatchSetOptionsRestrictedType {
		return c10Pick(r, []oc.MatchSetOptionsRestrictedType{"", "any", "invert"})
	}
	for _, ki := range r.Perm(len(c10CondKinds))[:k] {
		switch c10CondKinds[ki] {
		case "prefix":
			c.MatchPrefixSet = oc.MatchPrefixSet{PrefixSet: c10Pick(r, ds.PrefixSets).PrefixSetName, MatchSetOptions: opt2()}
		case "neighbor":
			c.MatchNeighborSet = oc.MatchNeighborSet{NeighborSet: c10Pick(r, ds.NeighborSets).NeighborSetName, MatchSetOptions: opt2()}
		case "as-path":
			b.MatchAsPathSet = oc.MatchAsPathSet{AsPathSet: c10Pick(r, bd.AsPathSets).AsPathSetName, MatchSetOptions: opt3()}
		case "community":
			b.MatchCommunitySet = oc.MatchCommunitySet{CommunitySet: c10Pick(r, bd.CommunitySets).CommunitySetName, MatchSetOptions: opt3()}
		case "ext-community":
			b.MatchExtCommunitySet = oc.MatchExtCommunitySet{ExtCommunitySet: c10Pick(r, bd.ExtCommunitySets).ExtCommunitySetName, MatchSetOptions: opt3()}
		case "large-community":
			b.MatchLargeCommunitySet = oc.MatchLargeCommunitySet{LargeCommunitySet: c10Pick(r, bd.LargeCommunitySets).LargeCommunitySetName, MatchSetOptions: opt3()}
		case "as-path-length":
			b.AsPathLength = oc.AsPathLength{Operator: c10Pick(r, c10Ops), Value: uint32(r.IntN(5))}
		case "community-count":
			b.CommunityCount = oc.CommunityCount{Operator: c10Pick(r, c10Ops), Value: uint32(r.IntN(4))}
		case "origin":
			b.OriginEq = c10Pick(r, []oc.BgpOriginAttrType{"igp", "egp", "incomplete"})
		case "route-type":
			b.RouteType = c10Pick(r, []oc.RouteType{"internal", "external", "local"})
		case "rpki":
			b.RpkiValidationResult = c10Pick(r, []oc.RpkiValidationResultType{"valid", "invalid", "not-found"})
		case "afi-safi-in":
			all := []oc.AfiSafiType{"ipv4-unicast", "ipv6-unicast", "l3vpn-ipv4-unicast"}
			for _, i := range r.Perm(3)[:c10N(r, 1, 2)] {
				b.AfiSafiInList = append(b.AfiSafiInList, all[i])
			}
		case "next-hop":
			for i := 0; i < c10N(r, 1, 3); i++ {
				pool := c10NextHops4
				if r.IntN(4) == 0 {
					pool = c10NextHops6
				}
				b.NextHopInList = append(b.NextHopInList, netip.MustParseAddr(c10Pick(r, pool)))
			}
		case "local-pref-eq":
			b.LocalPrefEq = c10Pick(r, []uint32{100, 110, 200})
		case "med-eq":
			b.MedEq = c10Pick(r, []uint32{10, 100, 5})
		}
	}

	a := &st.Actions.BgpActions
	on := func() bool { return r.IntN(4) == 0 }
	commOp := func() string { return c10Pick(r, []string{"add", "add", "remove", "replace"}) }
	if on() {
		op := commOp()
		var l []string
		for i := 0; i < c10N(r, 1, 3); i++ {
			if op == "remove" {
				l = append(l, c10CommMember(r))
			} else {
				l = append(l, c10CommString(r))
			}
		}
		if op == "replace" && r.IntN(5) == 0 {
			l = nil // "remove all communities"
		}
		a.SetCommunity = oc.SetCommunity{Options: c10Case(r, op), SetCommunityMethod: oc.SetCommunityMethod{CommunitiesList: l}}
	}
	if on() {
		op := commOp()
		var l []string
		for i := 0; i < c10N(r, 1, 2); i++ {
			if op == "remove" {
				l = append(l, c10ExtMember(r))
			} else if r.IntN(8) == 0 {
				l = append(l, fmt.Sprintf("%s:65001:%d", c10Pick(r, []string{"lb", "LB"}), c10Pick(r, []int{125000, 1000}))) // policy.md example 3
			} else {
				l = append(l, c10ExtValue(r))
			}
		}
		if op == "replace" && r.IntN(5) == 0 {
			l = nil
		}
		a.SetExtCommunity = oc.SetExtCommunity{Options: c10Case(r, op), SetExtCommunityMethod: oc.SetExtCommunityMethod{CommunitiesList: l}}
	}
	if on() || r.IntN(6) == 0 {
		op := c10Pick(r, []string{"add", "add", "add", "remove", "replace"})
		var l []string
		for i := 0; i < c10N(r, 1, 2); i++ {
			if op == "remove" {
				l = append(l, c10LCMember(r))
			} else {
				l = append(l, c10LCString(r))
			}
		}
		if op == "replace" && r.IntN(5) == 0 {
			l = nil
		}
		a.SetLargeCommunity = oc.SetLargeCommunity{Options: oc.BgpSetCommunityOptionType(op), SetLargeCommunityMethod: oc.SetLargeCommunityMethod{CommunitiesList: l}}
	}
	if on() {
		a.SetMed = oc.BgpSetMedType(c10Pick(r, []string{"+10", "+100", "-5", "-10", "-200", "100", "0", "55"}))
	}
	if on() {
		a.SetLocalPref = c10Pick(r, []uint32{50, 100, 110, 200})
	}
	if on() {
		as := "last-as"
		if r.IntN(3) != 0 {
			as = fmt.Sprint(c10Pick(r, c10ASNs))
		}
		rep := uint8(c10N(r, 1, 5))
		if r.IntN(40) == 0 {
			rep = 0
		}
		a.SetAsPathPrepend = oc.SetAsPathPrepend{As: as, RepeatN: rep}
	}
	if on() {
		switch r.IntN(6) {
		case 0:
			a.SetNextHop = "self"
		case 1:
			a.SetNextHop = "unchanged"
		case 2:
			a.SetNextHop = "peer-address"
		case 3:
			a.SetNextHop = oc.BgpNextHopType(c10Pick(r, c10NextHops6))
		default:
			a.SetNextHop = oc.BgpNextHopType(c10Pick(r, c10NextHops4))
		}
	}
	if on() {
		a.SetRouteOrigin = c10Pick(r, []oc.BgpOriginAttrType{"igp", "egp", "incomplete"})
	}
	st.Actions.RouteDisposition = c10Pick(r, []oc.RouteDisposition{"", "none", "accept-route", "accept-route", "reject-route", "reject-route"})
	return st
}

func c10GenRoute(r *rand.Rand) c10Route {
	var rt c10Route
	v6 := r.IntN(4) == 0
	if v6 {
		rt.Family = "ipv6-unicast"
		rt.Prefix = netip.PrefixFrom(netip.MustParseAddr(c10Pick(r, c10V6Bases)), c10Pick(r, c10V6Lens)).Masked()
		rt.NextHop = netip.MustParseAddr(c10Pick(r, c10NextHops6))
	} else {
		rt.Family = "ipv4-unicast"
		rt.Prefix = netip.PrefixFrom(netip.MustParseAddr(c10Pick(r, c10V4Bases)), c10Pick(r, c10V4Lens)).Masked()
		rt.NextHop = netip.MustParseAddr(c10Pick(r, c10NextHops4))
	}
	rt.Type = c10Pick(r, []string{"external", "external", "external", "external", "external", "internal", "internal", "internal", "local", "local"})
	if rt.Type != "local" {
		if v6 && r.IntN(3) != 0 {
			rt.Source = netip.MustParseAddr(c10Pick(r, c10Neighbors6))
		} else {
			rt.Source = netip.MustParseAddr(c10Pick(r, c10Neighbors4))
		}
	}
	// AS_PATH
	n := r.IntN(5)
	if rt.Type != "external" && r.IntN(2) == 0 {
		n = 0
	}
	var seq []uint32
	for i := 0; i < n; i++ {
		seq = append(seq, c10Pick(r, c10ASNs))
	}
	if len(seq) > 0 {
		if len(seq) > 2 && r.IntN(6) == 0 {
			rt.ASPath = append(rt.ASPath, c10Seg{c10SegSeq, seq[:1]}, c10Seg{c10SegSeq, seq[1:]})
		} else {
			rt.ASPath = append(rt.ASPath, c10Seg{c10SegSeq, seq})
		}
	}
	switch r.IntN(16) {
	case 0:
		rt.ASPath = append(rt.ASPath, c10Seg{c10SegSet, []uint32{c10Pick(r, c10ASNs), c10Pick(r, c10ASNs)}})
	case 1:
		rt.ASPath = append([]c10Seg{{c10SegSet, []uint32{c10Pick(r, c10ASNs)}}}, rt.ASPath...)
	case 2:
		rt.ASPath = append([]c10Seg{{c10SegConfedSeq, []uint32{c10Pick(r, c10ASNs), 65010}}}, rt.ASPath...)
	}
	if r.IntN(10) < 7 {
		for i := 0; i < c10N(r, 1, 4); i++ {
			rt.Comms = append(rt.Comms, c10Pick(r, c10CommAS)<<16|c10Pick(r, c10CommLocal))
		}
	}
	if r.IntN(10) < 6 {
		for i := 0; i < c10N(r, 1, 3); i++ {
			s := c10ExtValue(r)
			e, ok := c10ParseExt(s)
			if !ok {
				panic("c10: generator produced unparsable ext community " + s)
			}
			if r.IntN(6) == 0 {
				e[0] |= 0x40 // non-transitive
			}
			rt.Exts = append(rt.Exts, e)
		}
	}
	if r.IntN(10) < 6 {
		for i := 0; i < c10N(r, 1, 3); i++ {
			rt.LCs = append(rt.LCs, c10LC{c10Pick(r, c10LCA), c10Pick(r, c10LCBC), c10Pick(r, c10LCBC)})
		}
	}
	if r.IntN(10) < 8 {
		rt.HasMED, rt.MED = true, c10Pick(r, []uint32{0, 5, 10, 100, 100, 4294967290})
	}
	if r.IntN(2) == 0 {
		rt.HasLP, rt.LocalPref = true, c10Pick(r, []uint32{50, 100, 110, 200})
	}
	rt.Origin = uint8(r.IntN(3))
	rt.RPKI = c10Pick(r, []string{"valid", "invalid", "not-found"})
	return rt
}
