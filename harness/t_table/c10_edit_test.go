package table

// C10 — edit histories of the policy configuration, including requests that must be refused.
//
// After the load-time checks of c10_test.go the same RoutingPolicy receives a random sequence of the
// requests the management API forwards to it (docs/sources/cli-command-syntax.md §2.4, §3):
//   defined sets   add / set (replace) / del <member> / del
//   statements     add, add condition|action kinds, del kinds, del
//   policies       add with existing statements, add with new statements, del <statement>, del
//   assignments    add / set / del <policy> / del
// mixed with requests that cannot be honoured (a kind that is already set, a kind that is not set
// listed after one that is, unknown statement / policy / defined set, a set or policy that is in use,
// a duplicate, a prefix of the other family).
//
// Reference model (c10Model, a plain copy of the configuration):
//   - a request gobgp REFUSES (error) leaves the configuration exactly as before;
//   - a request gobgp ACCEPTS applies exactly what it says;
//   - a request gobgp accepts although the model has no meaning for it ends the history (counted as
//     edit_undefined:*), unless what the engine lists afterwards contradicts itself (a policy naming a
//     statement GetStatement does not know, an assignment naming a policy GetPolicy does not list):
//     that is reported as c10:edit:<request>:accepted-invalid:dangling-*.
// After every request the whole configuration is read back (c10Readback) and routes are evaluated
// against the interpreter of the model (c10RunRoute); violations are keyed c10:edit:<request>:<refused|accepted>:...

import (
	"fmt"
	"math/rand/v2"
	"net/netip"
	"sort"
	"strings"

	"github.com/osrg/gobgp/v4/internal/verif/vlib"
	"github.com/osrg/gobgp/v4/pkg/config/oc"
)

const (
	c10EditsPerProgram  = 6
	c10RoutesAfterEdit  = 2
	c10DefaultNone      = oc.DefaultPolicyType("none") // marker: assignment deleted
	c10UnknownReference = "nosuch"
)

var c10ActKinds = []string{"community", "ext-community", "large-community", "med", "local-pref", "as-path-prepend", "next-hop", "origin"}

var c10SetTypes = []string{"prefix", "neighbor", "as-path", "community", "ext-community", "large-community"}

// ---- kinds of a statement

func c10ActPresent(kind string, a *oc.Actions) bool {
	b := &a.BgpActions
	switch kind {
	case "community":
		return b.SetCommunity.Options != ""
	case "ext-community":
		return b.SetExtCommunity.Options != ""
	case "large-community":
		return b.SetLargeCommunity.Options != ""
	case "med":
		return b.SetMed != ""
	case "local-pref":
		return b.SetLocalPref != 0
	case "as-path-prepend":
		return b.SetAsPathPrepend.As != ""
	case "next-hop":
		return b.SetNextHop != ""
	case "origin":
		return b.SetRouteOrigin != ""
	case "disposition":
		return a.RouteDisposition == "accept-route" || a.RouteDisposition == "reject-route"
	}
	return false
}

func c10IsCondKind(kind string) bool {
	for _, k := range c10CondKinds {
		if k == kind {
			return true
		}
	}
	return false
}

// c10CopyKind copies (or with src == nil clears) one condition / action kind.
func c10CopyKind(dst, src *oc.Statement, kind string) {
	var zero oc.Statement
	if src == nil {
		src = &zero
	}
	dc, sc := &dst.Conditions, &src.Conditions
	db, sb := &dc.BgpConditions, &sc.BgpConditions
	da, sa := &dst.Actions.BgpActions, &src.Actions.BgpActions
	switch kind {
	case "prefix":
		dc.MatchPrefixSet = sc.MatchPrefixSet
	case "neighbor":
		dc.MatchNeighborSet = sc.MatchNeighborSet
	case "as-path":
		db.MatchAsPathSet = sb.MatchAsPathSet
	case "community":
		if c10IsCondKind(kind) {
			db.MatchCommunitySet = sb.MatchCommunitySet
		}
	case "ext-community":
		db.MatchExtCommunitySet = sb.MatchExtCommunitySet
	case "large-community":
		db.MatchLargeCommunitySet = sb.MatchLargeCommunitySet
	case "as-path-length":
		db.AsPathLength = sb.AsPathLength
	case "community-count":
		db.CommunityCount = sb.CommunityCount
	case "origin":
		db.OriginEq = sb.OriginEq
	case "route-type":
		db.RouteType = sb.RouteType
	case "rpki":
		db.RpkiValidationResult = sb.RpkiValidationResult
	case "afi-safi-in":
		db.AfiSafiInList = sb.AfiSafiInList
	case "next-hop":
		db.NextHopInList = sb.NextHopInList
	case "local-pref-eq":
		db.LocalPrefEq = sb.LocalPrefEq
	case "med-eq":
		db.MedEq = sb.MedEq
	case "act:community":
		da.SetCommunity = sa.SetCommunity
	case "act:ext-community":
		da.SetExtCommunity = sa.SetExtCommunity
	case "act:large-community":
		da.SetLargeCommunity = sa.SetLargeCommunity
	case "act:med":
		da.SetMed = sa.SetMed
	case "act:local-pref":
		da.SetLocalPref = sa.SetLocalPref
	case "act:as-path-prepend":
		da.SetAsPathPrepend = sa.SetAsPathPrepend
	case "act:next-hop":
		da.SetNextHop = sa.SetNextHop
	case "act:origin":
		da.SetRouteOrigin = sa.SetRouteOrigin
	case "act:disposition":
		dst.Actions.RouteDisposition = src.Actions.RouteDisposition
	}
}

// Kinds are named "<condition kind>" or "act:<action kind>" in the edit phase, because four names
// (community, ext-community, large-community, origin, next-hop) exist on both sides.
func c10AllKinds() []string {
	ks := append([]string{}, c10CondKinds...)
	for _, a := range c10ActKinds {
		ks = append(ks, "act:"+a)
	}
	return append(ks, "act:disposition")
}

func c10HasKind2(st *oc.Statement, kind string) bool {
	if strings.HasPrefix(kind, "act:") {
		return c10ActPresent(kind[4:], &st.Actions)
	}
	return c10CondPresent(kind, &st.Conditions)
}

func c10KindsOf(st *oc.Statement) []string {
	var ks []string
	for _, k := range c10AllKinds() {
		if c10HasKind2(st, k) {
			ks = append(ks, k)
		}
	}
	return ks
}

// set references of a statement: (set type, name)
func c10SetRefs(st *oc.Statement) [][2]string {
	c, b := &st.Conditions, &st.Conditions.BgpConditions
	var refs [][2]string
	add := func(t, n string) {
		if n != "" {
			refs = append(refs, [2]string{t, n})
		}
	}
	add("prefix", c.MatchPrefixSet.PrefixSet)
	add("neighbor", c.MatchNeighborSet.NeighborSet)
	add("as-path", b.MatchAsPathSet.AsPathSet)
	add("community", b.MatchCommunitySet.CommunitySet)
	add("ext-community", b.MatchExtCommunitySet.ExtCommunitySet)
	add("large-community", b.MatchLargeCommunitySet.LargeCommunitySet)
	return refs
}

// ---- the model

type c10Model struct {
	sets  map[string]map[string][]string // set type -> name -> members (prefix members are "prefix range")
	stmts map[string]oc.Statement
	pols  map[string][]string
	ap    map[string]oc.ApplyPolicy
}

func c10ModelFrom(prog *c10Program, rp *RoutingPolicy) *c10Model {
	m := &c10Model{sets: map[string]map[string][]string{}, stmts: map[string]oc.Statement{}, pols: map[string][]string{}, ap: map[string]oc.ApplyPolicy{}}
	for _, t := range c10SetTypes {
		m.sets[t] = map[string][]string{}
	}
	ds := &prog.cfg.DefinedSets
	for _, s := range ds.PrefixSets {
		var l []string
		for _, p := range s.PrefixList {
			l = append(l, strings.TrimSpace(p.IpPrefix.String()+" "+p.MasklengthRange))
		}
		m.sets["prefix"][s.PrefixSetName] = l
	}
	for _, s := range ds.NeighborSets {
		m.sets["neighbor"][s.NeighborSetName] = append([]string{}, s.NeighborInfoList...)
	}
	for _, s := range ds.BgpDefinedSets.AsPathSets {
		m.sets["as-path"][s.AsPathSetName] = append([]string{}, s.AsPathList...)
	}
	for _, s := range ds.BgpDefinedSets.CommunitySets {
		m.sets["community"][s.CommunitySetName] = append([]string{}, s.CommunityList...)
	}
	for _, s := range ds.BgpDefinedSets.ExtCommunitySets {
		m.sets["ext-community"][s.ExtCommunitySetName] = append([]string{}, s.ExtCommunityList...)
	}
	for _, s := range ds.BgpDefinedSets.LargeCommunitySets {
		m.sets["large-community"][s.LargeCommunitySetName] = append([]string{}, s.LargeCommunityList...)
	}
	listed := map[string]*oc.PolicyDefinition{}
	for _, p := range rp.GetPolicy("") {
		listed[p.Name] = p
	}
	for _, pd := range prog.cfg.PolicyDefinitions {
		var names []string
		for i, st := range pd.Statements {
			if st.Name == "" { // the name gobgp gave to an unnamed statement is not documented: take it as listed
				if lp := listed[pd.Name]; lp != nil && i < len(lp.Statements) {
					st.Name = lp.Statements[i].Name
				}
			}
			m.stmts[st.Name] = st
			names = append(names, st.Name)
		}
		m.pols[pd.Name] = names
	}
	for id, a := range prog.ap {
		m.ap[id] = a
	}
	return m
}

func (m *c10Model) clone() *c10Model {
	n := &c10Model{sets: map[string]map[string][]string{}, stmts: map[string]oc.Statement{}, pols: map[string][]string{}, ap: map[string]oc.ApplyPolicy{}}
	for t, ss := range m.sets {
		n.sets[t] = map[string][]string{}
		for k, v := range ss {
			n.sets[t][k] = append([]string{}, v...)
		}
	}
	for k, v := range m.stmts {
		n.stmts[k] = v
	}
	for k, v := range m.pols {
		n.pols[k] = append([]string{}, v...)
	}
	for k, v := range m.ap {
		v.Config.ImportPolicyList = append([]string{}, v.Config.ImportPolicyList...)
		v.Config.ExportPolicyList = append([]string{}, v.Config.ExportPolicyList...)
		n.ap[k] = v
	}
	return n
}

func c10SortedKeys[V any](m map[string]V) []string {
	ks := make([]string, 0, len(m))
	for k := range m {
		ks = append(ks, k)
	}
	sort.Strings(ks)
	return ks
}

func c10PrefixMember(s string) oc.Prefix {
	f := strings.Fields(s)
	p := oc.Prefix{IpPrefix: netip.MustParsePrefix(f[0])}
	if len(f) > 1 {
		p.MasklengthRange = f[1]
	}
	return p
}

// canonical form of a member, the identity used when a member is removed
func c10MemberCanon(typ, s string) string {
	switch typ {
	case "prefix":
		p := c10PrefixMember(s)
		if p.MasklengthRange == "" {
			p.MasklengthRange = fmt.Sprintf("%d..%d", p.IpPrefix.Bits(), p.IpPrefix.Bits())
		}
		return p.IpPrefix.String() + " " + p.MasklengthRange
	case "neighbor":
		if !strings.Contains(s, "/") {
			if strings.Contains(s, ":") {
				return s + "/128"
			}
			return s + "/32"
		}
		return s
	case "as-path":
		return c10AsPathPattern(s)
	case "community":
		return c10CommPattern(s)
	case "ext-community":
		return c10ExtListed(s, true)
	case "large-community":
		return c10LCPattern(s)
	}
	return s
}

func (m *c10Model) definedSets() oc.DefinedSets {
	var ds oc.DefinedSets
	for _, n := range c10SortedKeys(m.sets["prefix"]) {
		s := oc.PrefixSet{PrefixSetName: n}
		for _, x := range m.sets["prefix"][n] {
			s.PrefixList = append(s.PrefixList, c10PrefixMember(x))
		}
		ds.PrefixSets = append(ds.PrefixSets, s)
	}
	for _, n := range c10SortedKeys(m.sets["neighbor"]) {
		ds.NeighborSets = append(ds.NeighborSets, oc.NeighborSet{NeighborSetName: n, NeighborInfoList: m.sets["neighbor"][n]})
	}
	bd := &ds.BgpDefinedSets
	for _, n := range c10SortedKeys(m.sets["as-path"]) {
		bd.AsPathSets = append(bd.AsPathSets, oc.AsPathSet{AsPathSetName: n, AsPathList: m.sets["as-path"][n]})
	}
	for _, n := range c10SortedKeys(m.sets["community"]) {
		bd.CommunitySets = append(bd.CommunitySets, oc.CommunitySet{CommunitySetName: n, CommunityList: m.sets["community"][n]})
	}
	for _, n := range c10SortedKeys(m.sets["ext-community"]) {
		bd.ExtCommunitySets = append(bd.ExtCommunitySets, oc.ExtCommunitySet{ExtCommunitySetName: n, ExtCommunityList: m.sets["ext-community"][n]})
	}
	for _, n := range c10SortedKeys(m.sets["large-community"]) {
		bd.LargeCommunitySets = append(bd.LargeCommunitySets, oc.LargeCommunitySet{LargeCommunitySetName: n, LargeCommunityList: m.sets["large-community"][n]})
	}
	return ds
}

// program renders the model as the configuration the interpreter and the read-back comparison work on.
func (m *c10Model) program(history []string, edit string) *c10Program {
	cfg := &oc.RoutingPolicy{DefinedSets: m.definedSets()}
	used := map[string]bool{}
	for _, pn := range c10SortedKeys(m.pols) {
		pd := oc.PolicyDefinition{Name: pn}
		for _, sn := range m.pols[pn] {
			pd.Statements = append(pd.Statements, m.stmts[sn])
			used[sn] = true
		}
		cfg.PolicyDefinitions = append(cfg.PolicyDefinitions, pd)
	}
	p := &c10Program{cfg: cfg, ap: m.ap, edit: edit, history: history}
	for _, sn := range c10SortedKeys(m.stmts) {
		if !used[sn] {
			p.orphans = append(p.orphans, m.stmts[sn])
		}
	}
	return p
}

func (m *c10Model) statementInPolicy(name string) bool {
	for _, l := range m.pols {
		for _, s := range l {
			if s == name {
				return true
			}
		}
	}
	return false
}

// setUse: 2 = referenced by a statement that is in a policy, 1 = only by a statement outside any policy, 0 = unused
func (m *c10Model) setUse(typ, name string) int {
	use := 0
	for sn, st := range m.stmts {
		for _, ref := range c10SetRefs(&st) {
			if ref[0] == typ && ref[1] == name {
				if m.statementInPolicy(sn) {
					return 2
				}
				use = 1
			}
		}
	}
	return use
}

func (m *c10Model) refsExist(st *oc.Statement) bool {
	for _, ref := range c10SetRefs(st) {
		if _, ok := m.sets[ref[0]][ref[1]]; !ok {
			return false
		}
	}
	return true
}

// policyAssigned returns "" or the first direction in which some assignment uses the policy.
func (m *c10Model) policyAssigned(name string) string {
	for _, id := range c10SortedKeys(m.ap) {
		a := m.ap[id]
		for _, n := range a.Config.ImportPolicyList {
			if n == name {
				return "import"
			}
		}
		for _, n := range a.Config.ExportPolicyList {
			if n == name {
				return "export"
			}
		}
	}
	return ""
}

// ---- real objects for requests

func c10RealSet(typ, name string, members []string) (DefinedSet, error) {
	switch typ {
	case "prefix":
		s := oc.PrefixSet{PrefixSetName: name}
		for _, x := range members {
			s.PrefixList = append(s.PrefixList, c10PrefixMember(x))
		}
		return NewPrefixSet(s)
	case "neighbor":
		return NewNeighborSet(oc.NeighborSet{NeighborSetName: name, NeighborInfoList: members})
	case "as-path":
		return NewAsPathSet(oc.AsPathSet{AsPathSetName: name, AsPathList: members})
	case "community":
		return NewCommunitySet(oc.CommunitySet{CommunitySetName: name, CommunityList: members})
	case "ext-community":
		return NewExtCommunitySet(oc.ExtCommunitySet{ExtCommunitySetName: name, ExtCommunityList: members})
	case "large-community":
		return NewLargeCommunitySet(oc.LargeCommunitySet{LargeCommunitySetName: name, LargeCommunityList: members})
	}
	return nil, fmt.Errorf("unknown set type %s", typ)
}

func c10GenMember(r *rand.Rand, typ string, v6 bool) string {
	switch typ {
	case "prefix":
		e := c10Pick(r, c10PrefixEntries4)
		if v6 {
			e = c10Pick(r, c10PrefixEntries6)
		}
		return strings.TrimSpace(e.p + " " + e.rng)
	case "neighbor":
		return c10Pick(r, []string{"10.0.255.1", "10.0.255.2", "10.0.254.1", "10.0.255.0/24", "2001:db8::1", "2001:db8::/64", "10.0.253.7"})
	case "as-path":
		return c10AsPathMember(r)
	case "community":
		return c10CommMember(r)
	case "ext-community":
		return c10ExtMember(r)
	}
	return c10LCMember(r)
}

func c10PrefixFamily6(members []string) (v6, any bool) {
	for _, x := range members {
		return c10PrefixMember(x).IpPrefix.Addr().Is6(), true
	}
	return false, false
}

// c10FullStatement draws statements until every kind occurs once (a donor for single kinds).
func c10FullStatement(r *rand.Rand, cfg *oc.RoutingPolicy) oc.Statement {
	var full oc.Statement
	for n := 0; n < 400; n++ {
		d := c10GenStatement(r, cfg)
		missing := false
		for _, k := range c10AllKinds() {
			if !c10HasKind2(&full, k) {
				if c10HasKind2(&d, k) {
					c10CopyKind(&full, &d, k)
				} else {
					missing = true
				}
			}
		}
		if !missing {
			break
		}
	}
	return full
}

// ---- one request

type c10Edit struct {
	op    string
	desc  string
	do    func(rp *RoutingPolicy) error
	apply func(m *c10Model) string // "" applied; "invalid:<why>" the model has no meaning for it (it must be refused); "undefined:<why>"
}

func c10PickKey[V any](r *rand.Rand, m map[string]V) (string, bool) {
	ks := c10SortedKeys(m)
	if len(ks) == 0 {
		return "", false
	}
	return c10Pick(r, ks), true
}

func c10Subset(r *rand.Rand, xs []string, n int) []string {
	if n > len(xs) {
		n = len(xs)
	}
	var o []string
	for _, i := range r.Perm(len(xs))[:n] {
		o = append(o, xs[i])
	}
	return o
}

func c10RemoveNames(list, drop []string) []string {
	var o []string
	for _, x := range list {
		keep := true
		for _, d := range drop {
			keep = keep && x != d
		}
		if keep {
			o = append(o, x)
		}
	}
	return o
}

func c10GenEdit(r *rand.Rand, m *c10Model, serial int) c10Edit {
	cfg := m.program(nil, "").cfg
	switch r.IntN(20) {
	case 0, 1: // defined set: add members / set
		typ := c10Pick(r, c10SetTypes)
		name, _ := c10PickKey(r, m.sets[typ])
		if r.IntN(4) == 0 {
			name = fmt.Sprintf("%sx%d", typ[:2], serial)
		}
		replace := r.IntN(3) == 0
		cur, exists := m.sets[typ][name]
		v6, has := false, false
		if typ == "prefix" {
			v6, has = c10PrefixFamily6(cur)
		}
		if !has {
			v6 = r.IntN(4) == 0
		}
		if typ == "prefix" && r.IntN(5) == 0 {
			v6 = !v6 // the other family
		}
		var members []string
		for i := 0; i < c10N(r, 1, 2); i++ {
			members = append(members, c10GenMember(r, typ, v6))
		}
		op := "add-defined-set"
		if replace {
			op = "set-defined-set"
		}
		return c10Edit{op: op, desc: fmt.Sprintf("%s %s %s %q", op, typ, name, members),
			do: func(rp *RoutingPolicy) error {
				s, err := c10RealSet(typ, name, members)
				if err != nil {
					return err
				}
				return rp.AddDefinedSet(s, replace)
			},
			apply: func(m *c10Model) string {
				if typ == "prefix" && exists && !replace {
					if cv6, has := c10PrefixFamily6(cur); has && cv6 != v6 {
						return "invalid:prefix of another address family"
					}
				}
				if replace || !exists {
					m.sets[typ][name] = members
				} else {
					m.sets[typ][name] = append(m.sets[typ][name], members...)
				}
				return ""
			}}
	case 2: // defined set: del members
		typ := c10Pick(r, c10SetTypes)
		name, _ := c10PickKey(r, m.sets[typ])
		if r.IntN(8) == 0 {
			name = c10UnknownReference
		}
		cur := m.sets[typ][name]
		members := c10Subset(r, cur, 1)
		v6 := false
		if typ == "prefix" {
			v6, _ = c10PrefixFamily6(cur)
		}
		if r.IntN(3) == 0 || len(members) == 0 {
			members = append(members, c10GenMember(r, typ, v6))
		}
		return c10Edit{op: "del-defined-set-member", desc: fmt.Sprintf("del-defined-set-member %s %s %q", typ, name, members),
			do: func(rp *RoutingPolicy) error {
				s, err := c10RealSet(typ, name, members)
				if err != nil {
					return err
				}
				return rp.DeleteDefinedSet(s, false)
			},
			apply: func(m *c10Model) string {
				cur, ok := m.sets[typ][name]
				if !ok {
					return "invalid:unknown defined set"
				}
				var keep []string
				for _, x := range cur {
					drop := false
					for _, y := range members {
						drop = drop || c10MemberCanon(typ, x) == c10MemberCanon(typ, y)
					}
					if !drop {
						keep = append(keep, x)
					}
				}
				m.sets[typ][name] = keep
				return ""
			}}
	case 3: // defined set: del
		typ := c10Pick(r, c10SetTypes)
		name, _ := c10PickKey(r, m.sets[typ])
		if r.IntN(8) == 0 {
			name = c10UnknownReference
		}
		if len(m.sets[typ]) < 2 {
			name = c10UnknownReference // keep at least one set of every type for the statement generator
		}
		return c10Edit{op: "del-defined-set", desc: fmt.Sprintf("del-defined-set %s %s", typ, name),
			do: func(rp *RoutingPolicy) error {
				s, err := c10RealSet(typ, name, nil)
				if err != nil {
					return err
				}
				return rp.DeleteDefinedSet(s, true)
			},
			apply: func(m *c10Model) string {
				if _, ok := m.sets[typ][name]; !ok {
					return "invalid:unknown defined set"
				}
				switch m.setUse(typ, name) {
				case 2:
					return "invalid:defined set in use"
				case 1:
					return "undefined:defined set referenced only by a statement outside any policy"
				}
				delete(m.sets[typ], name)
				return ""
			}}
	case 4, 5, 6, 7: // statement: add (new, or further kinds to an existing one)
		name, ok := c10PickKey(r, m.stmts)
		isNew := !ok || r.IntN(4) == 0
		donor := c10FullStatement(r, cfg)
		req := oc.Statement{}
		if isNew {
			name = fmt.Sprintf("sx%d", serial)
			req = c10GenStatement(r, cfg)
		} else {
			cur := m.stmts[name]
			var absent []string
			for _, k := range c10AllKinds() {
				if !c10HasKind2(&cur, k) {
					absent = append(absent, k)
				}
			}
			kinds := c10Subset(r, absent, c10N(r, 1, 3))
			if r.IntN(3) == 0 { // a kind that is already set, somewhere in the request
				kinds = append(kinds, c10Subset(r, c10KindsOf(&cur), 1)...)
			}
			for _, k := range kinds {
				c10CopyKind(&req, &donor, k)
			}
		}
		req.Name = name
		if r.IntN(12) == 0 && req.Conditions.MatchPrefixSet.PrefixSet != "" {
			req.Conditions.MatchPrefixSet.PrefixSet = c10UnknownReference
		}
		return c10Edit{op: "add-statement", desc: fmt.Sprintf("add-statement %s new=%v kinds %v", name, isNew, c10KindsOf(&req)),
			do: func(rp *RoutingPolicy) error {
				s, err := NewStatement(req)
				if err != nil {
					return err
				}
				return rp.AddStatement(s)
			},
			apply: func(m *c10Model) string {
				if !m.refsExist(&req) {
					return "invalid:unknown defined set"
				}
				cur, ok := m.stmts[name]
				if !ok {
					m.stmts[name] = req
					return ""
				}
				for _, k := range c10KindsOf(&req) {
					if c10HasKind2(&cur, k) {
						return "invalid:kind already set: " + k
					}
					c10CopyKind(&cur, &req, k)
				}
				m.stmts[name] = cur
				return ""
			}}
	case 8, 9, 10, 11: // statement: del kinds
		name, _ := c10PickKey(r, m.stmts)
		if r.IntN(12) == 0 {
			name = c10UnknownReference
		}
		cur := m.stmts[name]
		donor := c10FullStatement(r, cfg)
		present := c10KindsOf(&cur)
		kinds := c10Subset(r, present, c10N(r, 1, 2))
		if r.IntN(5) < 2 || len(kinds) == 0 { // a kind the statement does not have
			var absent []string
			for _, k := range c10AllKinds() {
				if !c10HasKind2(&cur, k) {
					absent = append(absent, k)
				}
			}
			kinds = append(kinds, c10Subset(r, absent, 1)...)
		}
		req := oc.Statement{Name: name}
		for _, k := range kinds {
			if c10HasKind2(&cur, k) && r.IntN(2) == 0 {
				c10CopyKind(&req, &cur, k)
			} else {
				c10CopyKind(&req, &donor, k) // only the kind counts, not the value
			}
		}
		return c10Edit{op: "del-statement-kinds", desc: fmt.Sprintf("del-statement-kinds %s kinds %v (statement has %v)", name, c10KindsOf(&req), present),
			do: func(rp *RoutingPolicy) error {
				s, err := NewStatement(req)
				if err != nil {
					return err
				}
				return rp.DeleteStatement(s, false)
			},
			apply: func(m *c10Model) string {
				cur, ok := m.stmts[name]
				if !ok {
					return "invalid:unknown statement"
				}
				for _, k := range c10KindsOf(&req) {
					if !c10HasKind2(&cur, k) {
						return "invalid:kind not set: " + k
					}
					c10CopyKind(&cur, nil, k)
				}
				m.stmts[name] = cur
				return ""
			}}
	case 12: // statement: del
		name, _ := c10PickKey(r, m.stmts)
		if r.IntN(8) == 0 {
			name = c10UnknownReference
		}
		return c10Edit{op: "del-statement", desc: "del-statement " + name,
			do: func(rp *RoutingPolicy) error {
				s, err := NewStatement(oc.Statement{Name: name})
				if err != nil {
					return err
				}
				return rp.DeleteStatement(s, true)
			},
			apply: func(m *c10Model) string {
				if _, ok := m.stmts[name]; !ok {
					return "invalid:unknown statement"
				}
				if m.statementInPolicy(name) {
					return "invalid:statement in use"
				}
				delete(m.stmts, name)
				return ""
			}}
	case 13, 14: // policy: add referring to existing statements
		pname, _ := c10PickKey(r, m.pols)
		if r.IntN(3) == 0 {
			pname = fmt.Sprintf("px%d", serial)
		}
		names := c10Subset(r, c10SortedKeys(m.stmts), c10N(r, 1, 2))
		if r.IntN(6) == 0 {
			names = append(names, c10UnknownReference)
			r.Shuffle(len(names), func(i, j int) { names[i], names[j] = names[j], names[i] })
		}
		return c10Edit{op: "add-policy-refer", desc: fmt.Sprintf("add-policy-refer %s %v", pname, names),
			do: func(rp *RoutingPolicy) error {
				pd := oc.PolicyDefinition{Name: pname}
				for _, n := range names {
					pd.Statements = append(pd.Statements, oc.Statement{Name: n})
				}
				p, err := NewPolicy(pd)
				if err != nil {
					return err
				}
				return rp.AddPolicy(p, true)
			},
			apply: func(m *c10Model) string {
				for _, n := range names {
					if _, ok := m.stmts[n]; !ok {
						return "invalid:unknown statement"
					}
				}
				m.pols[pname] = append(m.pols[pname], names...)
				return ""
			}}
	case 15: // policy: add with new statements
		pname, _ := c10PickKey(r, m.pols)
		if r.IntN(2) == 0 {
			pname = fmt.Sprintf("px%d", serial)
		}
		var sts []oc.Statement
		for i := 0; i < c10N(r, 1, 2); i++ {
			st := c10GenStatement(r, cfg)
			st.Name = fmt.Sprintf("sx%d_%d", serial, i)
			sts = append(sts, st)
		}
		if r.IntN(4) == 0 {
			if n, ok := c10PickKey(r, m.stmts); ok {
				sts[len(sts)-1].Name = n // a name that is taken, after a fresh one when there are two
			}
		}
		var names []string
		for _, st := range sts {
			names = append(names, st.Name)
		}
		return c10Edit{op: "add-policy-new", desc: fmt.Sprintf("add-policy-new %s %v", pname, names),
			do: func(rp *RoutingPolicy) error {
				p, err := NewPolicy(oc.PolicyDefinition{Name: pname, Statements: sts})
				if err != nil {
					return err
				}
				return rp.AddPolicy(p, false)
			},
			apply: func(m *c10Model) string {
				for i := range sts {
					if _, ok := m.stmts[sts[i].Name]; ok {
						return "invalid:statement name taken"
					}
					if !m.refsExist(&sts[i]) {
						return "invalid:unknown defined set"
					}
				}
				for i := range sts {
					m.stmts[sts[i].Name] = sts[i]
				}
				m.pols[pname] = append(m.pols[pname], names...)
				return ""
			}}
	case 16: // policy: del statements / del
		pname, _ := c10PickKey(r, m.pols)
		if r.IntN(8) == 0 {
			pname = c10UnknownReference
		}
		if r.IntN(2) == 0 {
			names := c10Subset(r, m.pols[pname], 1)
			if r.IntN(4) == 0 || len(names) == 0 {
				if n, ok := c10PickKey(r, m.stmts); ok {
					names = append(names, n)
				}
			}
			return c10Edit{op: "del-policy-statement", desc: fmt.Sprintf("del-policy-statement %s %v", pname, names),
				do: func(rp *RoutingPolicy) error {
					pd := oc.PolicyDefinition{Name: pname}
					for _, n := range names {
						pd.Statements = append(pd.Statements, oc.Statement{Name: n})
					}
					p, err := NewPolicy(pd)
					if err != nil {
						return err
					}
					return rp.DeletePolicy(p, false, true, c10IDs)
				},
				apply: func(m *c10Model) string {
					if _, ok := m.pols[pname]; !ok {
						return "invalid:unknown policy"
					}
					m.pols[pname] = c10RemoveNames(m.pols[pname], names)
					return ""
				}}
		}
		preserve := r.IntN(2) == 0
		return c10Edit{op: "del-policy", desc: fmt.Sprintf("del-policy %s preserve-statements=%v", pname, preserve),
			do: func(rp *RoutingPolicy) error {
				p, err := NewPolicy(oc.PolicyDefinition{Name: pname})
				if err != nil {
					return err
				}
				return rp.DeletePolicy(p, true, preserve, c10IDs)
			},
			apply: func(m *c10Model) string {
				l, ok := m.pols[pname]
				if !ok {
					return "invalid:unknown policy"
				}
				if d := m.policyAssigned(pname); d != "" {
					return "invalid:policy in use:" + d
				}
				delete(m.pols, pname)
				if !preserve {
					for _, n := range l {
						if !m.statementInPolicy(n) {
							delete(m.stmts, n)
						}
					}
				}
				return ""
			}}
	}
	// assignments
	id, _ := c10PickKey(r, m.ap)
	dir, dirS := POLICY_DIRECTION_IMPORT, "import"
	if r.IntN(2) == 0 {
		dir, dirS = POLICY_DIRECTION_EXPORT, "export"
	}
	names := c10Subset(r, c10SortedKeys(m.pols), c10N(r, 1, 2))
	switch r.IntN(7) {
	case 0:
		names = append(names, c10UnknownReference)
	case 1:
		if len(names) > 0 {
			names = append(names, names[0])
		}
	}
	var defs []*oc.PolicyDefinition
	for _, n := range names {
		defs = append(defs, &oc.PolicyDefinition{Name: n})
	}
	def := c10Pick(r, []RouteType{ROUTE_TYPE_NONE, ROUTE_TYPE_ACCEPT, ROUTE_TYPE_REJECT})
	get := func(a *oc.ApplyPolicy) (*[]string, *oc.DefaultPolicyType) {
		if dir == POLICY_DIRECTION_IMPORT {
			return &a.Config.ImportPolicyList, &a.Config.DefaultImportPolicy
		}
		return &a.Config.ExportPolicyList, &a.Config.DefaultExportPolicy
	}
	check := func(m *c10Model, against []string) string {
		seen := map[string]bool{}
		for _, n := range against {
			seen[n] = true
		}
		for _, n := range names {
			if _, ok := m.pols[n]; !ok {
				return "invalid:unknown policy"
			}
			if seen[n] {
				return "invalid:duplicated policy"
			}
			seen[n] = true
		}
		return ""
	}
	setDef := func(d *oc.DefaultPolicyType) {
		switch def {
		case ROUTE_TYPE_ACCEPT:
			*d = "accept-route"
		case ROUTE_TYPE_REJECT:
			*d = "reject-route"
		}
	}
	switch r.IntN(4) {
	case 0:
		return c10Edit{op: "add-assignment", desc: fmt.Sprintf("add-assignment %s %s %v default %s", id, dirS, names, def),
			do: func(rp *RoutingPolicy) error { return rp.AddPolicyAssignment(id, dir, defs, def) },
			apply: func(m *c10Model) string {
				a := m.ap[id]
				l, d := get(&a)
				if *d == c10DefaultNone {
					return "undefined:assignment re-created after it was deleted"
				}
				if why := check(m, *l); why != "" {
					return why
				}
				*l = append(*l, names...)
				setDef(d)
				m.ap[id] = a
				return ""
			}}
	case 1:
		return c10Edit{op: "set-assignment", desc: fmt.Sprintf("set-assignment %s %s %v default %s", id, dirS, names, def),
			do: func(rp *RoutingPolicy) error { return rp.SetPolicyAssignment(id, dir, defs, def) },
			apply: func(m *c10Model) string {
				a := m.ap[id]
				l, d := get(&a)
				if *d == c10DefaultNone && def == ROUTE_TYPE_NONE {
					return "undefined:assignment re-created after it was deleted without a default"
				}
				if why := check(m, nil); why != "" {
					return why
				}
				*l = append([]string{}, names...)
				setDef(d)
				m.ap[id] = a
				return ""
			}}
	case 2:
		return c10Edit{op: "del-assignment-policy", desc: fmt.Sprintf("del-assignment-policy %s %s %v", id, dirS, names),
			do: func(rp *RoutingPolicy) error { return rp.DeletePolicyAssignment(id, dir, defs, false) },
			apply: func(m *c10Model) string {
				a := m.ap[id]
				l, _ := get(&a)
				if why := check(m, nil); why != "" {
					return why
				}
				*l = c10RemoveNames(*l, names)
				m.ap[id] = a
				return ""
			}}
	}
	return c10Edit{op: "del-assignment", desc: fmt.Sprintf("del-assignment %s %s", id, dirS),
		do: func(rp *RoutingPolicy) error { return rp.DeletePolicyAssignment(id, dir, nil, true) },
		apply: func(m *c10Model) string {
			a := m.ap[id]
			l, d := get(&a)
			*l, *d = nil, c10DefaultNone
			m.ap[id] = a
			return ""
		}}
}

// c10Dangling checks what the engine lists against itself.
func c10Dangling(rp *RoutingPolicy) string {
	sts := map[string]bool{}
	for _, s := range rp.GetStatement("") {
		sts[s.Name] = true
	}
	pols := map[string]bool{}
	for _, p := range rp.GetPolicy("") {
		pols[p.Name] = true
		for _, s := range p.Statements {
			if !sts[s.Name] {
				return fmt.Sprintf("dangling-statement policy %s lists statement %s, which GetStatement does not know", p.Name, s.Name)
			}
		}
	}
	for _, id := range c10IDs {
		for _, dir := range []PolicyDirection{POLICY_DIRECTION_IMPORT, POLICY_DIRECTION_EXPORT} {
			_, ps, _ := rp.GetPolicyAssignment(id, dir)
			for _, p := range ps {
				if !pols[p.Name] {
					return fmt.Sprintf("dangling-policy assignment %s/%s evaluates policy %s, which GetPolicy does not list", id, dir, p.Name)
				}
			}
		}
	}
	return ""
}

// ---- the phase

func c10EditPhase(rec *vlib.Rec, r *rand.Rand, idx int, prog *c10Program, rp *RoutingPolicy) {
	if len(prog.ap) == 0 || prog.failed {
		return
	}
	m := c10ModelFrom(prog, rp)
	var history []string
	for step := 0; step < c10EditsPerProgram; step++ {
		e := c10GenEdit(r, m, step)
		next := m.clone()
		verdict := e.apply(next)
		var err error
		wit := func() any {
			return map[string]any{"case": idx, "request": e.desc, "edit_history": history, "config": m.program(nil, "").cfg, "apply": m.ap}
		}
		if rec.Guard("c10:edit:"+e.op, wit, func() { err = e.do(rp) }) {
			return
		}
		rec.Count("edits", 1)
		status := "accepted"
		if err != nil {
			status = "refused"
			history = append(history, e.desc+" -> refused: "+err.Error())
			rec.Count("edits_refused", 1)
			rec.Count("edit_refused:"+e.op, 1)
			if verdict == "" {
				rec.Count("edit_refused_though_modelled:"+e.op, 1) // allowed: a refusal only has to leave everything as it was
			}
			// the model stays as it is
		} else {
			history = append(history, e.desc+" -> accepted")
			rec.Count("edits_accepted", 1)
			rec.Count("edit_accepted:"+e.op, 1)
			switch {
			case verdict == "":
				m = next
			default:
				// The documents give the accepted request no meaning, so there is nothing to compare from here
				// on -- unless what the engine now lists contradicts itself (a policy naming a statement that
				// does not exist, an assignment naming a policy that does not exist).
				if d := c10Dangling(rp); d != "" {
					rec.Violation("c10:edit:"+e.op+":accepted-invalid:"+strings.SplitN(d, " ", 2)[0],
						fmt.Sprintf("%s (%s) was accepted and left the configuration inconsistent: %s", e.desc, verdict, d), wit())
					return
				}
				rec.Count("edit_undefined:"+e.op+":"+strings.SplitN(verdict, ":", 3)[1], 1)
				return
			}
		}
		p := m.program(append([]string{}, history...), "c10:edit:"+e.op+":"+status)
		if rec.Guard("c10:edit:readback", wit, func() { c10Readback(rec, p, rp, idx, fmt.Sprintf("after edit %d", step)) }) {
			return
		}
		it := c10NewInterp(p.cfg, p.ap)
		for ri := 0; ri < c10RoutesAfterEdit && !p.failed; ri++ {
			rt := c10GenRoute(r)
			c10RunRoute(rec, r, idx, 1000+step*10+ri, p, rp, it, &rt)
		}
		if p.failed {
			return // later requests would be compared with a model the engine has already left
		}
	}
}
