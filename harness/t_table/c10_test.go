package table

// C10 — policy evaluation equals the documented model and never mutates shared routes.
//
// Per case: one random policy program (defined sets, 1-4 policies x 1-4 statements, assignments for
// the global table and two neighbours, both directions, both defaults) is loaded into a real
// RoutingPolicy through the configuration path (NewRoutingPolicy + Reset) and
//   (a) read back through GetDefinedSet/GetPolicy/GetStatement/GetPolicyAssignment and the API
//       conversion (NewAPIPolicyFromTableStruct/toStatementApi) and compared with what was configured;
//   (b) run on 20 routes x 2 evaluations (different assignment / direction / peer) with RoutingPolicy.ApplyPolicy;
//       verdict and resulting attributes are compared with c10Interp (c10_interp_test.go), an independent
//       interpreter of docs/sources/policy.md working on the configuration structs;
//   (c) the stored route and the result of the first evaluation are snapshotted (serialised attributes
//       with flags, NLRI, next hop, and the backing arrays of the community / AS_PATH slices up to their
//       capacity) and must be byte-identical after the later evaluation(s).

import (
	"bytes"
	"encoding/binary"
	"encoding/hex"
	"fmt"
	"math/rand/v2"
	"net/netip"
	"regexp"
	"sort"
	"strings"
	"testing"
	"time"

	"github.com/osrg/gobgp/v4/api"
	"github.com/osrg/gobgp/v4/internal/verif/vlib"
	"github.com/osrg/gobgp/v4/pkg/config/oc"
	"github.com/osrg/gobgp/v4/pkg/packet/bgp"
)

const c10RoutesPerProgram = 20

func TestVerifC10(t *testing.T) {
	rec := vlib.Open("C10")
	defer rec.Close()
	total := vlib.Scale(20000, 600000)
	vlib.Cases(total, func(idx int) {
		r := vlib.CaseRand("c10", idx)
		rec.Mark(fmt.Sprintf("c10 case %d", idx), false)
		c10RunProgram(t, rec, r, idx)
	})
	for key, p := range c10AliasPending {
		if !c10AliasVisible[key] {
			rec.Violation(p.key, p.what, p.w)
		}
	}
}

// ---- building the real route

func c10SpareU32(r *rand.Rand, xs []uint32) []uint32 {
	out := make([]uint32, len(xs), len(xs)+1+r.IntN(4))
	copy(out, xs)
	return out
}

func c10BuildExt(e c10Ext) (bgp.ExtendedCommunityInterface, error) {
	return bgp.ParseExtended(e[:])
}

// c10Build turns the plain route into a stored *Path whose slices all have spare capacity.
func c10Build(rt *c10Route, r *rand.Rand) (*Path, error) {
	var src *PeerInfo
	switch rt.Type {
	case "internal":
		src = &PeerInfo{AS: 65000, LocalAS: 65000, ID: netip.MustParseAddr("2.2.2.2"), Address: rt.Source, PeerType: oc.PEER_TYPE_INTERNAL}
	case "external":
		src = &PeerInfo{AS: 65001, LocalAS: 65000, ID: netip.MustParseAddr("3.3.3.3"), Address: rt.Source, PeerType: oc.PEER_TYPE_EXTERNAL}
	}
	params := make([]bgp.AsPathParamInterface, 0, len(rt.ASPath)+1+r.IntN(3))
	for _, s := range rt.ASPath {
		params = append(params, bgp.NewAs4PathParam(s.Type, c10SpareU32(r, s.AS)))
	}
	attrs := []bgp.PathAttributeInterface{bgp.NewPathAttributeOrigin(rt.Origin), bgp.NewPathAttributeAsPath(params)}
	nlri, err := bgp.NewIPAddrPrefix(rt.Prefix)
	if err != nil {
		return nil, err
	}
	fam := bgp.RF_IPv4_UC
	if rt.Family == "ipv6-unicast" {
		fam = bgp.RF_IPv6_UC
	} else {
		nh, err := bgp.NewPathAttributeNextHop(rt.NextHop)
		if err != nil {
			return nil, err
		}
		attrs = append(attrs, nh)
	}
	if rt.HasMED {
		attrs = append(attrs, bgp.NewPathAttributeMultiExitDisc(rt.MED))
	}
	if rt.HasLP {
		attrs = append(attrs, bgp.NewPathAttributeLocalPref(rt.LocalPref))
	}
	if len(rt.Comms) > 0 {
		attrs = append(attrs, bgp.NewPathAttributeCommunities(c10SpareU32(r, rt.Comms)))
	}
	if fam == bgp.RF_IPv6_UC {
		mp, err := bgp.NewPathAttributeMpReachNLRI(fam, []bgp.PathNLRI{{NLRI: nlri}}, rt.NextHop)
		if err != nil {
			return nil, err
		}
		attrs = append(attrs, mp)
	}
	if len(rt.Exts) > 0 {
		es := make([]bgp.ExtendedCommunityInterface, 0, len(rt.Exts)+1+r.IntN(4))
		for _, e := range rt.Exts {
			x, err := c10BuildExt(e)
			if err != nil {
				return nil, err
			}
			es = append(es, x)
		}
		attrs = append(attrs, bgp.NewPathAttributeExtendedCommunities(es))
	}
	if len(rt.LCs) > 0 {
		ls := make([]*bgp.LargeCommunity, 0, len(rt.LCs)+1+r.IntN(4))
		for _, l := range rt.LCs {
			ls = append(ls, bgp.NewLargeCommunity(l.A, l.B, l.C))
		}
		attrs = append(attrs, bgp.NewPathAttributeLargeCommunities(ls))
	}
	return NewPath(fam, src, bgp.PathNLRI{NLRI: nlri}, false, attrs, time.Unix(100, 0), false), nil
}

// ---- reading a route back out of a *Path

var c10AttrName = map[bgp.BGPAttrType]string{
	bgp.BGP_ATTR_TYPE_ORIGIN: "origin", bgp.BGP_ATTR_TYPE_AS_PATH: "as-path", bgp.BGP_ATTR_TYPE_NEXT_HOP: "next-hop",
	bgp.BGP_ATTR_TYPE_MULTI_EXIT_DISC: "med", bgp.BGP_ATTR_TYPE_LOCAL_PREF: "local-pref", bgp.BGP_ATTR_TYPE_COMMUNITIES: "communities",
	bgp.BGP_ATTR_TYPE_MP_REACH_NLRI: "mp-reach", bgp.BGP_ATTR_TYPE_EXTENDED_COMMUNITIES: "ext-communities", bgp.BGP_ATTR_TYPE_LARGE_COMMUNITY: "large-communities",
}

// c10Extract reads the attributes of p into a plain route (Type/Source/RPKI are copied from orig:
// they are properties of where the route came from, not attributes).
func c10Extract(p *Path, orig *c10Route) (c10Route, []string) {
	var rt c10Route
	var probs []string
	rt.Family, rt.Type, rt.Source, rt.RPKI = orig.Family, orig.Type, orig.Source, orig.RPKI
	if pfx, ok := p.GetNlri().(*bgp.IPAddrPrefix); ok {
		rt.Prefix = pfx.Prefix
	} else {
		probs = append(probs, "nlri-type")
	}
	seen := map[bgp.BGPAttrType]bool{}
	for _, a := range p.GetPathAttrs() {
		if seen[a.GetType()] {
			probs = append(probs, "duplicate-attribute:"+c10AttrName[a.GetType()])
		}
		seen[a.GetType()] = true
		switch v := a.(type) {
		case *bgp.PathAttributeOrigin:
			rt.Origin = v.Value
		case *bgp.PathAttributeAsPath:
			for _, prm := range v.Value {
				rt.ASPath = append(rt.ASPath, c10Seg{Type: prm.GetType(), AS: append([]uint32{}, prm.GetAS()...)})
			}
		case *bgp.PathAttributeNextHop:
			rt.NextHop = v.Value
		case *bgp.PathAttributeMultiExitDisc:
			rt.HasMED, rt.MED = true, v.Value
		case *bgp.PathAttributeLocalPref:
			rt.HasLP, rt.LocalPref = true, v.Value
		case *bgp.PathAttributeCommunities:
			rt.Comms = append([]uint32{}, v.Value...)
		case *bgp.PathAttributeMpReachNLRI:
			rt.NextHop = v.Nexthop
			if len(v.Value) != 1 || v.Value[0].NLRI == nil || v.Value[0].NLRI.String() != rt.Prefix.String() {
				probs = append(probs, "mp-reach-nlri")
			}
		case *bgp.PathAttributeExtendedCommunities:
			for _, x := range v.Value {
				b, err := x.Serialize()
				if err != nil || len(b) != 8 {
					probs = append(probs, "ext-community-serialize")
					continue
				}
				var e c10Ext
				copy(e[:], b)
				rt.Exts = append(rt.Exts, e)
			}
		case *bgp.PathAttributeLargeCommunities:
			for _, l := range v.Values {
				rt.LCs = append(rt.LCs, c10LC{l.ASN, l.LocalData1, l.LocalData2})
			}
		default:
			probs = append(probs, fmt.Sprintf("unexpected-attribute:%d", a.GetType()))
		}
	}
	if seen[bgp.BGP_ATTR_TYPE_NEXT_HOP] && seen[bgp.BGP_ATTR_TYPE_MP_REACH_NLRI] {
		probs = append(probs, "both-next-hop-and-mp-reach")
	}
	return rt, probs
}

// c10Wire is an independent encoder of the attributes of a plain route (RFC 4271 / 4760 / 1997 / 4360 / 8092).
func c10Wire(rt *c10Route, present map[bgp.BGPAttrType]bool) map[bgp.BGPAttrType][]byte {
	out := map[bgp.BGPAttrType][]byte{}
	put := func(flags byte, typ bgp.BGPAttrType, v []byte) {
		if len(v) > 255 {
			b := []byte{flags | 0x10, byte(typ), 0, 0}
			binary.BigEndian.PutUint16(b[2:], uint16(len(v)))
			out[typ] = append(b, v...)
		} else {
			out[typ] = append([]byte{flags, byte(typ), byte(len(v))}, v...)
		}
	}
	u32 := func(x uint32) []byte { return binary.BigEndian.AppendUint32(nil, x) }
	put(0x40, bgp.BGP_ATTR_TYPE_ORIGIN, []byte{rt.Origin})
	var ap []byte
	for _, s := range rt.ASPath {
		ap = append(ap, s.Type, byte(len(s.AS)))
		for _, a := range s.AS {
			ap = append(ap, u32(a)...)
		}
	}
	put(0x40, bgp.BGP_ATTR_TYPE_AS_PATH, ap)
	if rt.Family == "ipv4-unicast" && rt.NextHop.Is4() {
		put(0x40, bgp.BGP_ATTR_TYPE_NEXT_HOP, rt.NextHop.AsSlice())
	} else if rt.Family == "ipv6-unicast" {
		v := []byte{0, 2, 1, 16}
		nh := rt.NextHop.As16()
		v = append(v, nh[:]...)
		v = append(v, 0, byte(rt.Prefix.Bits()))
		a := rt.Prefix.Addr().As16()
		v = append(v, a[:(rt.Prefix.Bits()+7)/8]...)
		put(0x80, bgp.BGP_ATTR_TYPE_MP_REACH_NLRI, v)
	}
	if rt.HasMED {
		put(0x80, bgp.BGP_ATTR_TYPE_MULTI_EXIT_DISC, u32(rt.MED))
	}
	if rt.HasLP {
		put(0x40, bgp.BGP_ATTR_TYPE_LOCAL_PREF, u32(rt.LocalPref))
	}
	if len(rt.Comms) > 0 || present[bgp.BGP_ATTR_TYPE_COMMUNITIES] {
		var v []byte
		for _, c := range rt.Comms {
			v = append(v, u32(c)...)
		}
		put(0xc0, bgp.BGP_ATTR_TYPE_COMMUNITIES, v)
	}
	if len(rt.Exts) > 0 || present[bgp.BGP_ATTR_TYPE_EXTENDED_COMMUNITIES] {
		var v []byte
		for _, e := range rt.Exts {
			v = append(v, e[:]...)
		}
		put(0xc0, bgp.BGP_ATTR_TYPE_EXTENDED_COMMUNITIES, v)
	}
	if len(rt.LCs) > 0 || present[bgp.BGP_ATTR_TYPE_LARGE_COMMUNITY] {
		var v []byte
		for _, l := range rt.LCs {
			v = append(v, u32(l.A)...)
			v = append(v, u32(l.B)...)
			v = append(v, u32(l.C)...)
		}
		put(0xc0, bgp.BGP_ATTR_TYPE_LARGE_COMMUNITY, v)
	}
	return out
}

// c10WireCheck: what gobgp serialises for each attribute of p must be the independent encoding of
// what its fields say (catches stale header fields after an in-place edit). Returns attribute names.
func c10WireCheck(p *Path, rt *c10Route) []string {
	present := map[bgp.BGPAttrType]bool{}
	for _, a := range p.GetPathAttrs() {
		present[a.GetType()] = true
	}
	want := c10Wire(rt, present)
	var bad []string
	for _, a := range p.GetPathAttrs() {
		b, err := a.Serialize()
		if err != nil || !bytes.Equal(b, want[a.GetType()]) {
			bad = append(bad, c10AttrName[a.GetType()])
		}
	}
	return bad
}

// c10StaleLen lists attributes whose Len() (taken from the header fields) is not the length of what
// Serialize() produces.  The serialised route is right, so this is outside what C10 states; it is only
// counted (obs:stale_len:*) because UPDATE packing sizes messages with Len().
func c10StaleLen(p *Path) []string {
	var bad []string
	for _, a := range p.GetPathAttrs() {
		if b, err := a.Serialize(); err == nil && a.Len() != len(b) {
			bad = append(bad, c10AttrName[a.GetType()])
		}
	}
	return bad
}

// ---- snapshots for the non-mutation oracle

func c10Snap(p *Path) map[string]string {
	m := map[string]string{}
	for _, a := range p.GetPathAttrs() {
		b, err := a.Serialize()
		m[fmt.Sprintf("attr:%s", c10AttrName[a.GetType()])] = fmt.Sprintf("%x/%v/%d", b, err, a.GetFlags())
		switch v := a.(type) {
		case *bgp.PathAttributeCommunities:
			m["spare:communities"] = fmt.Sprint(len(v.Value), v.Value[:cap(v.Value)])
		case *bgp.PathAttributeExtendedCommunities:
			var sb strings.Builder
			fmt.Fprint(&sb, len(v.Value))
			for _, x := range v.Value[:cap(v.Value)] {
				if x == nil {
					sb.WriteString(" nil")
				} else {
					xb, _ := x.Serialize()
					fmt.Fprintf(&sb, " %x", xb)
				}
			}
			m["spare:ext-communities"] = sb.String()
		case *bgp.PathAttributeLargeCommunities:
			var sb strings.Builder
			fmt.Fprint(&sb, len(v.Values))
			for _, x := range v.Values[:cap(v.Values)] {
				if x == nil {
					sb.WriteString(" nil")
				} else {
					fmt.Fprintf(&sb, " %s", x.String())
				}
			}
			m["spare:large-communities"] = sb.String()
		case *bgp.PathAttributeAsPath:
			var sb strings.Builder
			fmt.Fprint(&sb, len(v.Value))
			for _, x := range v.Value[:cap(v.Value)] {
				if x == nil {
					sb.WriteString(" nil")
				} else {
					as := x.GetAS()
					fmt.Fprintf(&sb, " %d:%d%v", x.GetType(), len(as), as[:cap(as)])
				}
			}
			m["spare:as-path"] = sb.String()
		}
	}
	if n := p.GetNlri(); n != nil {
		b, _ := n.Serialize()
		m["nlri"] = hex.EncodeToString(b) + " " + n.String()
	}
	m["next-hop"] = p.GetNexthop().String()
	m["meta"] = fmt.Sprint(p.GetFamily(), p.IsWithdraw, p.IsNexthopInvalid, p.GetSource().Address, p.GetSource().AS, p.IsRejected(), p.IsDropped())
	return m
}

func c10SnapDiff(a, b map[string]string) (changed []string, visible bool) {
	for k, v := range a {
		if b[k] != v {
			changed = append(changed, k)
		}
	}
	for k := range b {
		if _, ok := a[k]; !ok {
			changed = append(changed, k)
		}
	}
	sort.Strings(changed)
	for _, k := range changed {
		if !strings.HasPrefix(k, "spare:") {
			visible = true
		}
	}
	return
}

// ---- one evaluation

type c10Pending struct {
	key, what string
	w         map[string]any
}

// A write into the spare capacity of a shared slice is reported once per process and key, and only
// when no visible consequence was reported under the same key (the visible witness is the better replay).
var (
	c10AliasPending = map[string]*c10Pending{}
	c10AliasVisible = map[string]bool{}
)

type c10Eval struct {
	id   string
	dir  PolicyDirection
	dirS string
	opts *PolicyOptions
	ctx  c10Ctx
	info string
}

func c10GenEval(r *rand.Rand, rt *c10Route, avoid *c10Eval) c10Eval {
	var ev c10Eval
	for {
		ev.id = c10Pick(r, c10IDs)
		if r.IntN(2) == 0 {
			ev.dir, ev.dirS = POLICY_DIRECTION_IMPORT, "import"
		} else {
			ev.dir, ev.dirS = POLICY_DIRECTION_EXPORT, "export"
		}
		if avoid == nil || avoid.id != ev.id || avoid.dir != ev.dir {
			break
		}
	}
	v6 := rt.Family == "ipv6-unicast"
	if r.IntN(10) == 0 {
		v6 = !v6
	}
	local := netip.MustParseAddr(c10Pick(r, c10Locals4))
	nbr := netip.MustParseAddr(c10Pick(r, c10Neighbors4))
	if v6 {
		local = netip.MustParseAddr(c10Pick(r, c10Locals6))
		nbr = netip.MustParseAddr(c10Pick(r, c10Neighbors6))
	}
	status := oc.RpkiValidationResultType(rt.RPKI)
	ev.opts = &PolicyOptions{Validate: func(*Path) *Validation { return &Validation{Status: status} }}
	// Who is "the neighbor": on import the peer the route came from, on export the peer it goes to
	// (policy.md: "neighbor (source/destination of the route)"); this is how pkg/server fills Info.
	var info *PeerInfo
	if ev.dir == POLICY_DIRECTION_IMPORT {
		if rt.Source.IsValid() && r.IntN(4) != 0 {
			info = &PeerInfo{AS: 65001, LocalAS: 65000, Address: rt.Source, LocalAddress: local}
		} // else: route-server import / local route: no Info, the neighbor is the route's source
	} else {
		if r.IntN(8) != 0 {
			info = &PeerInfo{AS: 65009, LocalAS: 65000, Address: nbr, LocalAddress: local}
		}
		ev.opts.OldNextHop = rt.NextHop
	}
	if info != nil && r.IntN(25) == 0 {
		info.LocalAddress = netip.Addr{}
	}
	ev.opts.Info = info
	if info != nil {
		ev.ctx = c10Ctx{Neighbor: info.Address, Peer: info.Address, Local: info.LocalAddress}
		ev.info = fmt.Sprintf("neighbor %s local %s", info.Address, info.LocalAddress)
	} else {
		ev.ctx = c10Ctx{Neighbor: rt.Source}
		ev.info = "no peer info"
	}
	return ev
}

func c10RouteText(rt *c10Route) map[string]any {
	m := map[string]any{"family": rt.Family, "prefix": rt.Prefix.String(), "type": rt.Type, "source": rt.Source.String(), "rpki": rt.RPKI}
	for k, v := range c10Canon(rt, nil) {
		m[k] = v
	}
	m["as-path-segments"] = fmt.Sprint(rt.ASPath)
	return m
}

func c10Uniq(xs []string) []string {
	s := append([]string{}, xs...)
	sort.Strings(s)
	var u []string
	for i, x := range s {
		if i == 0 || x != s[i-1] {
			u = append(u, x)
		}
	}
	return u
}

func c10RunProgram(t *testing.T, rec *vlib.Rec, r *rand.Rand, idx int) {
	prog := c10GenProgram(r)
	rp := NewRoutingPolicy(verifLogger())
	var err error
	wit := func() any { return map[string]any{"case": idx, "config": prog.cfg, "apply": prog.ap} }
	if rec.Guard("c10:Reset", wit, func() { err = rp.Reset(prog.cfg, prog.ap) }) {
		return
	}
	if err != nil {
		rec.Violation("c10:load:"+c10ErrClass(err), "a configuration built from documented constructs was refused: "+err.Error(), wit())
		return
	}
	rec.Eval()
	rec.Count("programs", 1)
	it := c10NewInterp(prog.cfg, prog.ap)
	c10Readback(rec, prog, rp, idx, "after-load")

	for ri := 0; ri < c10RoutesPerProgram; ri++ {
		rt := c10GenRoute(r)
		c10RunRoute(rec, r, idx, ri, prog, rp, it, &rt)
	}
	if idx%4 == 0 {
		c10Readback(rec, prog, rp, idx, "after-evaluations")
	}
	c10EditPhase(rec, r, idx, prog, rp)
	if idx%1999 == 0 {
		rec.Sample(map[string]any{"case": idx, "policies": len(prog.cfg.PolicyDefinitions), "config": prog.cfg, "apply": prog.ap})
	}
}

func c10ErrClass(err error) string {
	s := err.Error()
	if i := strings.IndexAny(s, ":0123456789"); i > 0 {
		s = s[:i]
	}
	return strings.ReplaceAll(strings.TrimSpace(s), " ", "-")
}

func c10RunRoute(rec *vlib.Rec, r *rand.Rand, idx, ri int, prog *c10Program, rp *RoutingPolicy, it *c10Interp, rt *c10Route) {
	seedA, seedB := r.Uint64(), r.Uint64()
	build := func() (*Path, error) { return c10Build(rt, rand.New(rand.NewPCG(seedA, seedB))) }
	stored, err := build()
	if err != nil || stored == nil {
		rec.Violation("c10:harness:build", fmt.Sprintf("cannot build route: %v", err), map[string]any{"case": idx, "route": c10RouteText(rt)})
		return
	}
	// the harness' own reading of the stored route must give back the plain route (self-check of c10Extract / canonical text)
	if back, probs := c10Extract(stored, rt); len(probs) > 0 || fmt.Sprint(c10Canon(&back, nil)) != fmt.Sprint(c10Canon(rt, nil)) || len(c10WireCheck(stored, &back)) > 0 {
		rec.Violation("c10:harness:roundtrip", fmt.Sprintf("stored route reads back differently: %v %v vs %v wire %v", probs, c10Canon(&back, nil), c10Canon(rt, nil), c10WireCheck(stored, &back)), map[string]any{"case": idx, "route": c10RouteText(rt)})
		return
	}
	for _, x := range stored.GetExtCommunities() {
		b, _ := x.Serialize()
		var e c10Ext
		copy(e[:], b)
		if txt, ok := e.text(); !ok || txt != x.String() {
			rec.Violation("c10:canonical-text:ext-community", fmt.Sprintf("extended community %x: documented text %q, gobgp prints %q", b, txt, x.String()), map[string]any{"case": idx})
			return
		}
	}
	ev1 := c10GenEval(r, rt, nil)
	ev2 := c10GenEval(r, rt, &ev1)
	evals := []c10Eval{ev1, ev2}
	witness := func(k int) map[string]any {
		return map[string]any{"case": idx, "route_index": ri, "route": c10RouteText(rt), "id": evals[k].id, "direction": evals[k].dirS, "peer": evals[k].info,
			"config": prog.cfg, "apply": prog.ap, "edit_history": prog.history}
	}

	s0 := c10Snap(stored)
	var pending *c10Pending
	defer func() {
		if pending != nil && c10AliasPending[pending.key] == nil {
			c10AliasPending[pending.key] = pending // reported when the process ends unless a visible change under the same key was reported
		}
	}()
	var results [2]*Path
	var snaps [2]map[string]string
	for k := range evals {
		ev := &evals[k]
		var got *Path
		if rec.Guard("c10:ApplyPolicy", func() any { return witness(k) }, func() { got = rp.ApplyPolicy(ev.id, ev.dir, stored, ev.opts) }) {
			return
		}
		rec.Count("apply_policy_calls", 1)
		// (c) non-mutation
		type victim struct {
			what   string
			before map[string]string
			p      *Path
			j      int
		}
		victims := []victim{{"the stored route", s0, stored, -1}}
		for j := 0; j < k; j++ {
			if results[j] != nil && results[j] != stored {
				victims = append(victims, victim{fmt.Sprintf("the route produced earlier for %s/%s", evals[j].id, evals[j].dirS), snaps[j], results[j], j})
			}
		}
		for _, v := range victims {
			rec.Count("snapshots_compared", 1)
			now := c10Snap(v.p)
			changed, visible := c10SnapDiff(v.before, now)
			if len(changed) == 0 {
				continue
			}
			key, culprit := c10DiagnoseAlias(rp, build, evals[:k+1])
			w := witness(k)
			w["changed_sections"] = changed
			w["visible"] = visible
			w["culprit"] = culprit
			w["before"] = v.before
			w["after"] = now
			if !visible {
				// Only the spare capacity behind a shared slice was written. Nothing shows yet; keep going so that
				// the visible consequence (the next writer overwriting what this copy shows) is reported if it
				// occurs in this case, otherwise report the write itself at the end.
				rec.Count("alias:spare-capacity-write", 1)
				if pending == nil {
					pending = &c10Pending{key, fmt.Sprintf("evaluating %s/%s wrote into the spare capacity of a slice of %s (sections %v): the next evaluation that appends there overwrites what another copy shows; culprit %s", ev.id, ev.dirS, v.what, changed, culprit), w}
				}
				if v.j < 0 {
					s0 = now
				} else {
					snaps[v.j] = now
				}
				continue
			}
			rec.Count("alias:visible-change", 1)
			pending = nil
			c10AliasVisible[key] = true
			rec.Violation(key, fmt.Sprintf("evaluating %s/%s changed %s: its serialised content differs in sections %v; culprit %s", ev.id, ev.dirS, v.what, changed, culprit), w)
			return
		}
		results[k] = got
		if got != nil && got != stored {
			snaps[k] = c10Snap(got)
		}

		// (b) semantics
		out := it.Run(ev.id, ev.dirS, *rt, ev.ctx)
		if out.Amb != "" {
			rec.Count("skipped_undocumented", 1)
			rec.Count("amb:"+out.Amb, 1)
			continue
		}
		rec.Count("compared", 1)
		rec.Count("dir:"+ev.dirS, 1)
		rec.Count("assignment:"+map[bool]string{true: "global", false: "neighbor"}[ev.id == "global"], 1)
		rec.Count("family:"+rt.Family, 1)
		for _, c := range out.CondTrue {
			rec.Count("cond_true:"+c, 1)
		}
		for _, c := range out.CondFalse {
			rec.Count("cond_false:"+c, 1)
		}
		if out.Accept {
			for _, a := range out.Actions {
				rec.Count("action:"+a, 1)
			}
		}
		rec.Count("decided_by:"+out.DecidedBy+":"+map[bool]string{true: "accept", false: "reject"}[out.Accept], 1)
		if out.Applied > 0 || (out.DecidedBy == "default" && out.Evaluated > 0) {
			rec.Nontrivial(strings.Join(c10Uniq(out.AppliedBy), ",") + "|" + strings.Join(c10Uniq(out.Actions), ",") + "|" + out.DecidedBy + fmt.Sprint(out.Accept))
		} else {
			rec.Count("trivial_no_statement", 1)
		}

		if (got != nil) != out.Accept {
			key, detail := c10DiagnoseSem(it, rp, ev, rt)
			if !strings.HasPrefix(key, "c10:cond:") && !strings.HasPrefix(key, "c10:action:") {
				key = fmt.Sprintf("c10:verdict:%s:want-%s", out.DecidedBy, map[bool]string{true: "accept", false: "reject"}[out.Accept])
			}
			w := witness(k)
			w["want_accept"], w["got_accept"], w["decided_by"], w["detail"] = out.Accept, got != nil, out.DecidedBy, detail
			rec.Violation(prog.key(key), fmt.Sprintf("verdict: documented model says accept=%v (decided by %s), ApplyPolicy returned accept=%v; %s", out.Accept, out.DecidedBy, got != nil, detail), w)
			continue
		}
		if got == nil {
			continue
		}
		gr, probs := c10Extract(got, rt)
		if gr.Prefix != rt.Prefix || got.GetFamily().String() != rt.Family || got.IsWithdraw {
			probs = append(probs, "route-identity")
		}
		if len(probs) > 0 {
			w := witness(k)
			w["problems"] = probs
			rec.Violation("c10:result:"+probs[0], fmt.Sprintf("result route is not well formed: %v", probs), w)
			continue
		}
		want, have := c10Canon(&out.Route, out.SetCmp), c10Canon(&gr, out.SetCmp)
		var diff []string
		for _, name := range []string{"origin", "as-path", "next-hop", "med", "local-pref", "communities", "ext-communities", "large-communities"} {
			if want[name] != have[name] {
				diff = append(diff, name)
			}
		}
		if len(diff) > 0 {
			key, detail := c10DiagnoseSem(it, rp, ev, rt)
			if !strings.HasPrefix(key, "c10:cond:") && !strings.HasPrefix(key, "c10:action:") {
				key = "c10:attr:" + strings.Join(diff, "+")
			}
			w := witness(k)
			w["want"], w["got"], w["differing"], w["actions_applied"], w["detail"] = want, have, diff, out.Actions, detail
			rec.Violation(prog.key(key), fmt.Sprintf("attributes %v: documented model gives %v, ApplyPolicy gave %v; %s", diff, c10Pluck(want, diff), c10Pluck(have, diff), detail), w)
			continue
		}
		if bad := c10WireCheck(got, &gr); len(bad) > 0 {
			w := witness(k)
			w["attributes"] = bad
			rec.Violation("c10:wire:"+bad[0], fmt.Sprintf("serialised form of %v is not the encoding of the attribute's own fields", bad), w)
		}
		for _, n := range c10StaleLen(got) {
			rec.Count("obs:stale_len:"+n, 1)
		}
	}
}

func c10Pluck(m map[string]string, keys []string) map[string]string {
	o := map[string]string{}
	for _, k := range keys {
		o[k] = m[k]
	}
	return o
}

// ---- diagnosis (only after an oracle fired; gives the violation a narrow key)

func c10ActionKey(a Action) string {
	switch v := a.(type) {
	case *CommunityAction:
		if v.action == oc.BGP_SET_COMMUNITY_OPTION_TYPE_REMOVE {
			return "community-remove:RegexpRemoveCommunities"
		}
		return "community-" + string(v.action) + ":SetCommunities"
	case *ExtCommunityAction:
		if v.action == oc.BGP_SET_COMMUNITY_OPTION_TYPE_REMOVE {
			return "ext-community-remove:RegexpRemoveExtCommunities"
		}
		return "ext-community-" + string(v.action) + ":SetExtCommunities"
	case *LargeCommunityAction:
		if v.action == oc.BGP_SET_COMMUNITY_OPTION_TYPE_REMOVE {
			return "large-community-remove:RegexpRemoveLargeCommunities"
		}
		return "large-community-" + string(v.action) + ":SetLargeCommunities"
	case *MedAction:
		if v.action == MED_ACTION_MOD {
			return "med-mod:SetMed"
		}
		return "med-replace:SetMed"
	case *LocalPrefAction:
		return "local-pref:setPathAttr"
	case *OriginAction:
		return "origin:setPathAttr"
	case *AsPathPrependAction:
		return "as-path-prepend:PrependAsn"
	case *NexthopAction:
		return "next-hop:SetNexthop"
	}
	return fmt.Sprintf("%T", a)
}

// c10DiagnoseAlias replays the evaluations action by action on a fresh copy of the stored route and
// names the first modification action whose execution changes a route other than the one it works on.
func c10DiagnoseAlias(rp *RoutingPolicy, build func() (*Path, error), evals []c10Eval) (key, culprit string) {
	key, culprit = "c10:alias:undiagnosed", "not reproduced when replayed action by action"
	defer func() {
		if e := recover(); e != nil {
			culprit = fmt.Sprint("panic during diagnosis: ", e)
		}
	}()
	stored, err := build()
	if err != nil {
		return
	}
	others := []*Path{stored}
	snaps := []map[string]string{c10Snap(stored)}
	check := func() bool {
		for i, o := range others {
			if ch, _ := c10SnapDiff(snaps[i], c10Snap(o)); len(ch) > 0 {
				return true
			}
		}
		return false
	}
	for _, ev := range evals {
		cur := stored
		rp.mu.RLock()
		pols := rp.getPolicy(ev.id, ev.dir)
		rp.mu.RUnlock()
	chain:
		for _, pol := range pols {
			for _, st := range pol.Statements {
				if !st.Evaluate(cur, ev.opts) {
					continue
				}
				if len(st.ModActions) > 0 {
					cur = cur.Clone(false)
					for _, a := range st.ModActions {
						cur, _ = a.Apply(cur, ev.opts)
						if check() {
							return "c10:alias:" + c10ActionKey(a), fmt.Sprintf("statement %s, action %s (%s/%s)", st.Name, c10ActionKey(a), ev.id, ev.dirS)
						}
					}
				}
				if ra, ok := st.RouteAction.(*RoutingAction); ok && ra != nil {
					break chain
				}
			}
		}
		if cur != stored {
			others = append(others, cur)
			snaps = append(snaps, c10Snap(cur))
		}
	}
	return
}

var c10CondKindOf = map[ConditionType]string{
	CONDITION_PREFIX: "prefix", CONDITION_NEIGHBOR: "neighbor", CONDITION_AS_PATH: "as-path", CONDITION_COMMUNITY: "community",
	CONDITION_EXT_COMMUNITY: "ext-community", CONDITION_AS_PATH_LENGTH: "as-path-length", CONDITION_RPKI: "rpki", CONDITION_ROUTE_TYPE: "route-type",
	CONDITION_LARGE_COMMUNITY: "large-community", CONDITION_NEXT_HOP: "next-hop", CONDITION_AFI_SAFI_IN: "afi-safi-in",
	CONDITION_COMMUNITY_COUNT: "community-count", CONDITION_ORIGIN: "origin", CONDITION_LOCAL_PREF_EQ: "local-pref-eq", CONDITION_MED_EQ: "med-eq",
}

func c10PathShape(p []c10Seg) string {
	shape := "sequence-only"
	for _, s := range p {
		switch s.Type {
		case c10SegSet:
			shape = "with-as-set"
		case c10SegConfedSeq, c10SegConfedSet:
			return "with-confederation-segment"
		}
	}
	return shape
}

// c10DiagnoseSem walks the chain statement by statement with the real objects and the interpreter
// side by side and names the first condition or action on which they part.
func c10DiagnoseSem(it *c10Interp, rp *RoutingPolicy, ev *c10Eval, rt *c10Route) (key, detail string) {
	key, detail = "c10:undiagnosed", "statement-by-statement replay found no single point of disagreement"
	defer func() {
		if e := recover(); e != nil {
			detail = fmt.Sprint("panic during diagnosis: ", e)
		}
	}()
	names, _, ok := it.assignment(ev.id, ev.dirS)
	if !ok {
		return
	}
	rp.mu.RLock()
	pols := rp.getPolicy(ev.id, ev.dir)
	rp.mu.RUnlock()
	if len(pols) != len(names) {
		return "c10:assignment:policy-list", fmt.Sprintf("assignment has %d policies, configured %d", len(pols), len(names))
	}
	real, err := c10Build(rt, rand.New(rand.NewPCG(1, 2)))
	if err != nil {
		return
	}
	cur := rt.clone()
	st := &c10State{}
	for pi, name := range names {
		pd := it.pol[name]
		if pd == nil || len(pd.Statements) != len(pols[pi].Statements) {
			return "c10:assignment:statements", "policy " + name + " has a different number of statements"
		}
		for si := range pd.Statements {
			ocst := &pd.Statements[si]
			rst := pols[pi].Statements[si]
			per := map[string]bool{}
			want, amb := it.conds(&ocst.Conditions, &cur, ev.ctx, st, func(k string, v bool, a string) {
				if a == "" {
					per[k] = v
				}
			})
			if amb != "" {
				return
			}
			got := rst.Evaluate(real, ev.opts)
			if got != want {
				for _, c := range rst.Conditions {
					kind := c10CondKindOf[c.Type()]
					w, known := per[kind]
					if !known {
						if !c10CondPresent(kind, &ocst.Conditions) {
							return "c10:cond:" + kind + ":not-configured", fmt.Sprintf("statement %s carries a %s condition that was not configured", rst.Name, kind)
						}
						continue
					}
					if g := c.Evaluate(real, ev.opts); g != w {
						k := "c10:cond:" + kind
						if o, ok := c.(interface{ Option() MatchOption }); ok {
							k += ":" + o.Option().String()
						}
						if kind == "as-path-length" {
							k += ":" + c10PathShape(cur.ASPath)
						}
						if kind == "as-path" {
							k = "c10:cond:as-path:" + c10AsPathMemberClass(it, ocst.Conditions.BgpConditions.MatchAsPathSet.AsPathSet, &cur, real, k[len("c10:cond:as-path:"):]) + ":" + c10PathShape(cur.ASPath)
						}
						set := ""
						if c.Set() != nil {
							set = fmt.Sprintf(" set %s %q", c.Set().Name(), c.Set().List())
						}
						return k, fmt.Sprintf("statement %s: %s condition%s is %v in gobgp, %v by the documents, on route %v", rst.Name, kind, set, g, w, c10Canon(&cur, nil))
					}
				}
				for k := range per {
					found := false
					for _, c := range rst.Conditions {
						found = found || c10CondKindOf[c.Type()] == k
					}
					if !found {
						return "c10:cond:" + k + ":dropped", fmt.Sprintf("statement %s lacks the configured %s condition", rst.Name, k)
					}
				}
				return "c10:cond:conjunction", fmt.Sprintf("statement %s: every condition agrees but the statement applies=%v, documents say %v", rst.Name, got, want)
			}
			if !want {
				continue
			}
			var out c10Outcome
			if a := it.actions(&ocst.Actions.BgpActions, &cur, ev.ctx, st, &out); a != "" {
				return
			}
			var rtype RouteType
			rtype, real = rst.Apply(rp.logger, real, ev.opts)
			gr, probs := c10Extract(real, rt)
			if len(probs) > 0 {
				return "c10:action:malformed:" + probs[0], fmt.Sprintf("statement %s left a malformed route: %v", rst.Name, probs)
			}
			wantM, haveM := c10Canon(&cur, out.SetCmp), c10Canon(&gr, out.SetCmp)
			for _, attr := range []string{"origin", "as-path", "next-hop", "med", "local-pref", "communities", "ext-communities", "large-communities"} {
				if wantM[attr] == haveM[attr] {
					continue
				}
				act := "no-action"
				pre := map[string]string{"communities": "community:", "ext-communities": "ext-community:", "large-communities": "large-community:", "med": "med:",
					"local-pref": "local-pref", "as-path": "as-path-prepend:", "next-hop": "next-hop:", "origin": "origin"}[attr]
				for _, a := range out.Actions {
					if strings.HasPrefix(a, pre) {
						act = strings.ReplaceAll(a, ":", "-")
					}
				}
				return "c10:action:" + act + ":" + attr + c10ListDiffClass(attr, wantM[attr], haveM[attr]),
					fmt.Sprintf("statement %s: after its actions %s is %q in gobgp, %q by the documents", rst.Name, attr, haveM[attr], wantM[attr])
			}
			switch ocst.Actions.RouteDisposition {
			case "accept-route":
				if rtype != ROUTE_TYPE_ACCEPT {
					return "c10:disposition:accept", "statement " + rst.Name + " does not accept"
				}
				return
			case "reject-route":
				if rtype != ROUTE_TYPE_REJECT {
					return "c10:disposition:reject", "statement " + rst.Name + " does not reject"
				}
				return
			default:
				if rtype != ROUTE_TYPE_NONE {
					return "c10:disposition:none", "statement " + rst.Name + " decides although no route-disposition is configured"
				}
			}
		}
	}
	return
}

var c10SingleAsForm = regexp.MustCompile(`^(\^|_)[0-9]+(_|\$)$`)

// c10AsPathMemberClass finds the members of the as-path set on which gobgp and the documented
// regexp disagree when tried alone, and names their form; fallback when no single member disagrees.
func c10AsPathMemberClass(it *c10Interp, set string, cur *c10Route, real *Path, fallback string) string {
	text := c10AsPathText(cur.ASPath)
	cls := map[string]bool{}
	for _, s := range it.rp.DefinedSets.BgpDefinedSets.AsPathSets {
		if s.AsPathSetName != set {
			continue
		}
		for _, m := range s.AsPathList {
			re := it.regexp(c10AsPathPattern(m))
			one, err := NewAsPathSet(oc.AsPathSet{AsPathSetName: "one", AsPathList: []string{m}})
			if re == nil || err != nil || one == nil {
				continue
			}
			if (&AsPathCondition{set: one, option: MATCH_OPTION_ANY}).Evaluate(real, nil) != re.MatchString(text) {
				if c10SingleAsForm.MatchString(m) {
					cls["single-as-form"] = true
				} else {
					cls["regexp"] = true
				}
			}
		}
	}
	switch {
	case cls["single-as-form"] && !cls["regexp"]:
		return "single-as-form"
	case cls["regexp"]:
		return "regexp"
	}
	return fallback
}

// c10ListDiffClass refines keys for list attributes: what kind of element is missing / extra.
func c10ListDiffClass(attr, want, have string) string {
	if attr != "communities" && attr != "ext-communities" && attr != "large-communities" {
		return ""
	}
	count := func(s string) map[string]int {
		m := map[string]int{}
		for _, f := range strings.Fields(s) {
			m[f]++
		}
		return m
	}
	w, h := count(want), count(have)
	var missing, extra []string
	for k, n := range w {
		if h[k] < n {
			missing = append(missing, k)
		}
	}
	for k, n := range h {
		if w[k] < n {
			extra = append(extra, k)
		}
	}
	cls := ""
	if len(missing) > 0 {
		cls += ":missing"
		if attr == "ext-communities" {
			nt := true
			for _, m := range missing {
				b, _ := hex.DecodeString(m)
				nt = nt && len(b) == 8 && b[0]&0x40 != 0
			}
			if nt {
				cls += "-nontransitive"
			}
		}
	}
	if len(extra) > 0 {
		cls += ":extra"
	}
	return cls
}

// ---- (a) read-back

func c10Disp(d oc.RouteDisposition) string {
	switch d {
	case "accept-route":
		return "accept"
	case "reject-route":
		return "reject"
	}
	return "none"
}

func c10ExtListed(s string, pattern bool) string {
	i := strings.IndexByte(s, ':')
	if i < 0 {
		return s
	}
	body := s[i+1:]
	if pattern {
		body = c10ExtBodyPattern(body)
	}
	return strings.ToLower(s[:i]) + ":" + body
}

// c10FlatStatement renders a configuration statement as field -> text. configured=true applies the
// documented representation slack to what the user wrote (plain values in a remove list / set are
// listed back as anchored expressions, option names are case-insensitive, "" means the default).
func c10FlatStatement(s *oc.Statement, configured bool) map[string]string {
	m := map[string]string{}
	c, b, a := &s.Conditions, &s.Conditions.BgpConditions, &s.Actions.BgpActions
	ms := func(field, name, opt string) {
		if name != "" {
			m[field] = name + "/" + c10Opt(opt)
		}
	}
	ms("cond.prefix", c.MatchPrefixSet.PrefixSet, string(c.MatchPrefixSet.MatchSetOptions))
	ms("cond.neighbor", c.MatchNeighborSet.NeighborSet, string(c.MatchNeighborSet.MatchSetOptions))
	ms("cond.as-path", b.MatchAsPathSet.AsPathSet, string(b.MatchAsPathSet.MatchSetOptions))
	ms("cond.community", b.MatchCommunitySet.CommunitySet, string(b.MatchCommunitySet.MatchSetOptions))
	ms("cond.ext-community", b.MatchExtCommunitySet.ExtCommunitySet, string(b.MatchExtCommunitySet.MatchSetOptions))
	ms("cond.large-community", b.MatchLargeCommunitySet.LargeCommunitySet, string(b.MatchLargeCommunitySet.MatchSetOptions))
	if b.AsPathLength.Operator != "" {
		m["cond.as-path-length"] = fmt.Sprintf("%s/%d", strings.TrimPrefix(string(b.AsPathLength.Operator), "attribute-"), b.AsPathLength.Value)
	}
	if b.CommunityCount.Operator != "" {
		m["cond.community-count"] = fmt.Sprintf("%s/%d", strings.TrimPrefix(string(b.CommunityCount.Operator), "attribute-"), b.CommunityCount.Value)
	}
	if b.OriginEq != "" {
		m["cond.origin-eq"] = string(b.OriginEq)
	}
	if b.RouteType != "" && b.RouteType != "none" {
		m["cond.route-type"] = string(b.RouteType)
	}
	if b.RpkiValidationResult != "" && b.RpkiValidationResult != "none" {
		m["cond.rpki"] = string(b.RpkiValidationResult)
	}
	if len(b.AfiSafiInList) > 0 {
		m["cond.afi-safi-in"] = fmt.Sprint(b.AfiSafiInList)
	}
	if len(b.NextHopInList) > 0 {
		m["cond.next-hop-in"] = fmt.Sprint(b.NextHopInList)
	}
	if b.LocalPrefEq != 0 {
		m["cond.local-pref-eq"] = fmt.Sprint(b.LocalPrefEq)
	}
	if b.MedEq != 0 {
		m["cond.med-eq"] = fmt.Sprint(b.MedEq)
	}
	m["act.disposition"] = c10Disp(s.Actions.RouteDisposition)
	list := func(field, op string, l []string, f func(s string, remove bool) string) {
		op = strings.ToLower(op)
		if op == "" {
			return
		}
		var o []string
		for _, x := range l {
			if configured {
				x = f(x, op == "remove")
			}
			o = append(o, x)
		}
		m[field] = op + "[" + strings.Join(o, " ") + "]"
	}
	list("act.community", a.SetCommunity.Options, a.SetCommunity.SetCommunityMethod.CommunitiesList, func(s string, rm bool) string {
		if rm {
			return c10CommPattern(s)
		}
		return s
	})
	list("act.ext-community", a.SetExtCommunity.Options, a.SetExtCommunity.SetExtCommunityMethod.CommunitiesList, func(s string, rm bool) string { return c10ExtListed(s, rm) })
	list("act.large-community", string(a.SetLargeCommunity.Options), a.SetLargeCommunity.SetLargeCommunityMethod.CommunitiesList, func(s string, rm bool) string {
		if rm {
			return c10LCPattern(s)
		}
		return s
	})
	if a.SetMed != "" {
		m["act.med"] = string(a.SetMed)
	}
	if a.SetLocalPref != 0 {
		m["act.local-pref"] = fmt.Sprint(a.SetLocalPref)
	}
	if a.SetAsPathPrepend.As != "" {
		m["act.prepend"] = fmt.Sprintf("%s/%d", a.SetAsPathPrepend.As, a.SetAsPathPrepend.RepeatN)
	}
	if a.SetNextHop != "" {
		m["act.next-hop"] = strings.ToLower(string(a.SetNextHop))
	}
	if a.SetRouteOrigin != "" {
		m["act.origin"] = string(a.SetRouteOrigin)
	}
	return m
}

func c10APIMatch(t api.MatchSet_Type) string {
	switch t {
	case api.MatchSet_TYPE_ANY:
		return "any"
	case api.MatchSet_TYPE_ALL:
		return "all"
	case api.MatchSet_TYPE_INVERT:
		return "invert"
	}
	return "unspecified"
}

func c10APICmp(t api.Comparison) string {
	switch t {
	case api.Comparison_COMPARISON_EQ:
		return "eq"
	case api.Comparison_COMPARISON_GE:
		return "ge"
	case api.Comparison_COMPARISON_LE:
		return "le"
	}
	return "unspecified"
}

func c10APIOrigin(o api.OriginType) string {
	switch o {
	case api.OriginType_ORIGIN_TYPE_IGP:
		return "igp"
	case api.OriginType_ORIGIN_TYPE_EGP:
		return "egp"
	case api.OriginType_ORIGIN_TYPE_INCOMPLETE:
		return "incomplete"
	}
	return ""
}

func c10FlatAPIStatement(s *api.Statement) map[string]string {
	m := map[string]string{}
	c, a := s.Conditions, s.Actions
	if c == nil {
		c = &api.Conditions{}
	}
	if a == nil {
		a = &api.Actions{}
	}
	ms := func(field string, x *api.MatchSet) {
		if x != nil {
			m[field] = x.Name + "/" + c10APIMatch(x.Type)
		}
	}
	ms("cond.prefix", c.PrefixSet)
	ms("cond.neighbor", c.NeighborSet)
	ms("cond.as-path", c.AsPathSet)
	ms("cond.community", c.CommunitySet)
	ms("cond.ext-community", c.ExtCommunitySet)
	ms("cond.large-community", c.LargeCommunitySet)
	if c.AsPathLength != nil {
		m["cond.as-path-length"] = fmt.Sprintf("%s/%d", c10APICmp(c.AsPathLength.Type), c.AsPathLength.Length)
	}
	if c.CommunityCount != nil {
		m["cond.community-count"] = fmt.Sprintf("%s/%d", c10APICmp(c.CommunityCount.Type), c.CommunityCount.Count)
	}
	if o := c10APIOrigin(c.Origin); o != "" {
		m["cond.origin-eq"] = o
	}
	switch c.RouteType {
	case api.Conditions_ROUTE_TYPE_INTERNAL:
		m["cond.route-type"] = "internal"
	case api.Conditions_ROUTE_TYPE_EXTERNAL:
		m["cond.route-type"] = "external"
	case api.Conditions_ROUTE_TYPE_LOCAL:
		m["cond.route-type"] = "local"
	}
	switch c.RpkiResult {
	case api.ValidationState_VALIDATION_STATE_VALID:
		m["cond.rpki"] = "valid"
	case api.ValidationState_VALIDATION_STATE_INVALID:
		m["cond.rpki"] = "invalid"
	case api.ValidationState_VALIDATION_STATE_NOT_FOUND:
		m["cond.rpki"] = "not-found"
	}
	if len(c.AfiSafiIn) > 0 {
		var l []oc.AfiSafiType
		for _, f := range c.AfiSafiIn {
			switch {
			case f.Afi == 1 && f.Safi == 1:
				l = append(l, "ipv4-unicast")
			case f.Afi == 2 && f.Safi == 1:
				l = append(l, "ipv6-unicast")
			case f.Afi == 1 && f.Safi == 128:
				l = append(l, "l3vpn-ipv4-unicast")
			default:
				l = append(l, oc.AfiSafiType(fmt.Sprintf("afi%d-safi%d", f.Afi, f.Safi)))
			}
		}
		m["cond.afi-safi-in"] = fmt.Sprint(l)
	}
	if len(c.NextHopInList) > 0 {
		m["cond.next-hop-in"] = fmt.Sprint(c.NextHopInList)
	}
	if c.LocalPrefEq != nil {
		m["cond.local-pref-eq"] = fmt.Sprint(c.LocalPrefEq.Value)
	}
	if c.MedEq != nil {
		m["cond.med-eq"] = fmt.Sprint(c.MedEq.Value)
	}
	switch a.RouteAction {
	case api.RouteAction_ROUTE_ACTION_ACCEPT:
		m["act.disposition"] = "accept"
	case api.RouteAction_ROUTE_ACTION_REJECT:
		m["act.disposition"] = "reject"
	default:
		m["act.disposition"] = "none"
	}
	ca := func(field string, x *api.CommunityAction) {
		if x == nil {
			return
		}
		op := map[api.CommunityAction_Type]string{api.CommunityAction_TYPE_ADD: "add", api.CommunityAction_TYPE_REMOVE: "remove", api.CommunityAction_TYPE_REPLACE: "replace"}[x.Type]
		m[field] = op + "[" + strings.Join(x.Communities, " ") + "]"
	}
	ca("act.community", a.Community)
	ca("act.ext-community", a.ExtCommunity)
	ca("act.large-community", a.LargeCommunity)
	if a.Med != nil {
		switch {
		case a.Med.Type == api.MedAction_TYPE_REPLACE:
			m["act.med"] = fmt.Sprint(a.Med.Value)
		case a.Med.Value >= 0:
			m["act.med"] = fmt.Sprintf("+%d", a.Med.Value)
		default:
			m["act.med"] = fmt.Sprint(a.Med.Value)
		}
	}
	if a.LocalPref != nil {
		m["act.local-pref"] = fmt.Sprint(a.LocalPref.Value)
	}
	if a.AsPrepend != nil {
		if a.AsPrepend.UseLeftMost {
			m["act.prepend"] = fmt.Sprintf("last-as/%d", a.AsPrepend.Repeat)
		} else {
			m["act.prepend"] = fmt.Sprintf("%d/%d", a.AsPrepend.Asn, a.AsPrepend.Repeat)
		}
	}
	if a.Nexthop != nil {
		switch {
		case a.Nexthop.Self:
			m["act.next-hop"] = "self"
		case a.Nexthop.PeerAddress:
			m["act.next-hop"] = "peer-address"
		case a.Nexthop.Unchanged:
			m["act.next-hop"] = "unchanged"
		default:
			m["act.next-hop"] = a.Nexthop.Address
		}
	}
	if a.OriginAction != nil {
		m["act.origin"] = c10APIOrigin(a.OriginAction.Origin)
	}
	return m
}

// c10FlatDiff reports fields on which got differs from want, with a class.
func c10FlatDiff(want, got map[string]string) []string {
	var d []string
	for k, w := range want {
		g, ok := got[k]
		switch {
		case !ok:
			d = append(d, k+":lost")
		case g != w:
			d = append(d, k+":differs")
		}
	}
	for k := range got {
		if _, ok := want[k]; !ok {
			d = append(d, k+":spurious")
		}
	}
	sort.Strings(d)
	return d
}

func c10SortedJoin(xs []string) string {
	s := append([]string{}, xs...)
	sort.Strings(s)
	return strings.Join(s, " | ")
}

func c10Readback(rec *vlib.Rec, prog *c10Program, rp *RoutingPolicy, idx int, phase string) {
	viol := func(key, what string, extra map[string]any) {
		w := map[string]any{"case": idx, "phase": phase, "config": prog.cfg, "apply": prog.ap, "edit_history": prog.history}
		for k, v := range extra {
			w[k] = v
		}
		rec.Violation(prog.key(key), what+" ("+phase+")", w)
	}
	defer func() {
		if e := recover(); e != nil {
			viol("panic:c10:readback", fmt.Sprint("panic while reading the policy back: ", e), nil)
		}
	}()
	rec.Count("readback_checks", 1)
	ds := &prog.cfg.DefinedSets
	// defined sets: members are compared as multisets (any/all/invert do not depend on member order)
	want := map[string]string{}
	for _, s := range ds.PrefixSets {
		var l []string
		for _, p := range s.PrefixList {
			rng := p.MasklengthRange
			if rng == "" {
				rng = fmt.Sprintf("%d..%d", p.IpPrefix.Bits(), p.IpPrefix.Bits())
			}
			l = append(l, p.IpPrefix.String()+" "+rng)
		}
		want["prefix:"+s.PrefixSetName] = c10SortedJoin(l)
	}
	for _, s := range ds.NeighborSets {
		var l []string
		for _, n := range s.NeighborInfoList {
			if !strings.Contains(n, "/") {
				if strings.Contains(n, ":") {
					n += "/128"
				} else {
					n += "/32"
				}
			}
			l = append(l, n)
		}
		want["neighbor:"+s.NeighborSetName] = c10SortedJoin(l)
	}
	for _, s := range ds.BgpDefinedSets.AsPathSets {
		var l []string
		for _, p := range s.AsPathList {
			l = append(l, c10AsPathPattern(p))
		}
		want["as-path:"+s.AsPathSetName] = c10SortedJoin(l)
	}
	for _, s := range ds.BgpDefinedSets.CommunitySets {
		var l []string
		for _, p := range s.CommunityList {
			l = append(l, c10CommPattern(p))
		}
		want["community:"+s.CommunitySetName] = c10SortedJoin(l)
	}
	for _, s := range ds.BgpDefinedSets.ExtCommunitySets {
		var l []string
		for _, p := range s.ExtCommunityList {
			l = append(l, c10ExtListed(p, true))
		}
		want["ext-community:"+s.ExtCommunitySetName] = c10SortedJoin(l)
	}
	for _, s := range ds.BgpDefinedSets.LargeCommunitySets {
		var l []string
		for _, p := range s.LargeCommunityList {
			l = append(l, c10LCPattern(p))
		}
		want["large-community:"+s.LargeCommunitySetName] = c10SortedJoin(l)
	}
	got := map[string]string{}
	for _, typ := range []DefinedType{DEFINED_TYPE_PREFIX, DEFINED_TYPE_NEIGHBOR, DEFINED_TYPE_AS_PATH, DEFINED_TYPE_COMMUNITY, DEFINED_TYPE_EXT_COMMUNITY, DEFINED_TYPE_LARGE_COMMUNITY} {
		sets, err := rp.GetDefinedSet(typ, "")
		if err != nil {
			viol("c10:readback:defined-set:error", "GetDefinedSet: "+err.Error(), nil)
			return
		}
		for _, s := range sets.PrefixSets {
			var l []string
			for _, p := range s.PrefixList {
				l = append(l, p.IpPrefix.String()+" "+p.MasklengthRange)
			}
			got["prefix:"+s.PrefixSetName] = c10SortedJoin(l)
		}
		for _, s := range sets.NeighborSets {
			got["neighbor:"+s.NeighborSetName] = c10SortedJoin(s.NeighborInfoList)
		}
		for _, s := range sets.BgpDefinedSets.AsPathSets {
			var l []string
			for _, p := range s.AsPathList {
				l = append(l, c10AsPathPattern(p)) // the four single-AS forms are listed in their "_" spelling
			}
			got["as-path:"+s.AsPathSetName] = c10SortedJoin(l)
		}
		for _, s := range sets.BgpDefinedSets.CommunitySets {
			got["community:"+s.CommunitySetName] = c10SortedJoin(s.CommunityList)
		}
		for _, s := range sets.BgpDefinedSets.ExtCommunitySets {
			got["ext-community:"+s.ExtCommunitySetName] = c10SortedJoin(s.ExtCommunityList)
		}
		for _, s := range sets.BgpDefinedSets.LargeCommunitySets {
			got["large-community:"+s.LargeCommunitySetName] = c10SortedJoin(s.LargeCommunityList)
		}
	}
	for _, d := range c10FlatDiff(want, got) {
		typ := d[:strings.IndexByte(d, ':')]
		cls := d[strings.LastIndexByte(d, ':')+1:]
		name := d[:strings.LastIndexByte(d, ':')]
		viol("c10:readback:defined-set:"+typ+":"+cls, fmt.Sprintf("defined set %s: configured %q, listed back %q", name, want[name], got[name]), nil)
	}

	// policies, statements
	pols := rp.GetPolicy("")
	if len(pols) != len(prog.cfg.PolicyDefinitions) {
		viol("c10:readback:policy:count", fmt.Sprintf("%d policies configured, %d listed", len(prog.cfg.PolicyDefinitions), len(pols)), nil)
		return
	}
	byName := map[string]*oc.PolicyDefinition{}
	for _, p := range pols {
		byName[p.Name] = p
	}
	stmtFlat := map[string]map[string]string{}
	for pi := range prog.cfg.PolicyDefinitions {
		cp := &prog.cfg.PolicyDefinitions[pi]
		gp := byName[cp.Name]
		if gp == nil || len(gp.Statements) != len(cp.Statements) {
			viol("c10:readback:policy:statements", "policy "+cp.Name+" is listed with another number of statements", nil)
			return
		}
		rp.mu.RLock()
		obj := rp.policyMap[cp.Name]
		rp.mu.RUnlock()
		var ap *api.Policy
		if obj != nil {
			ap = NewAPIPolicyFromTableStruct(obj)
		}
		if ap == nil || ap.Name != cp.Name || len(ap.Statements) != len(cp.Statements) {
			viol("c10:readback:api:policy", "policy "+cp.Name+" converts to an API policy with another name / number of statements", nil)
			return
		}
		for si := range cp.Statements {
			w := c10FlatStatement(&cp.Statements[si], true)
			g := c10FlatStatement(&gp.Statements[si], false)
			name := gp.Statements[si].Name
			if cp.Statements[si].Name != "" && cp.Statements[si].Name != name || name == "" {
				viol("c10:readback:config:name", fmt.Sprintf("statement %q is listed as %q", cp.Statements[si].Name, name), nil)
			}
			stmtFlat[name] = g
			for _, d := range c10FlatDiff(w, g) {
				f := d[:strings.LastIndexByte(d, ':')]
				viol("c10:readback:config:"+d, fmt.Sprintf("policy %s statement %s field %s: configured %q, GetPolicy/ToConfig gives %q", cp.Name, name, f, w[f], g[f]), map[string]any{"configured": w, "listed": g})
			}
			as := ap.Statements[si]
			ga := c10FlatAPIStatement(as)
			if as.Name != name {
				viol("c10:readback:api:name", fmt.Sprintf("statement %q converts to API name %q", name, as.Name), nil)
			}
			for _, d := range c10FlatDiff(w, ga) {
				f := d[:strings.LastIndexByte(d, ':')]
				viol("c10:readback:api:"+d, fmt.Sprintf("policy %s statement %s field %s: configured %q, API conversion gives %q", cp.Name, name, f, w[f], ga[f]), map[string]any{"configured": w, "api": ga})
			}
			rec.Count("readback_statements", 1)
		}
	}
	for i := range prog.orphans { // statements that exist outside any policy (edit phase)
		stmtFlat[prog.orphans[i].Name] = c10FlatStatement(&prog.orphans[i], true)
	}
	sts := rp.GetStatement("")
	if len(sts) != len(stmtFlat) {
		viol("c10:readback:statement:count", fmt.Sprintf("%d statements in policies, GetStatement lists %d", len(stmtFlat), len(sts)), nil)
	}
	for _, s := range sts {
		w, ok := stmtFlat[s.Name]
		if !ok {
			viol("c10:readback:statement:unknown", "GetStatement lists unknown statement "+s.Name, nil)
			continue
		}
		if d := c10FlatDiff(w, c10FlatStatement(s, false)); len(d) > 0 {
			viol("c10:readback:statement:"+d[0], fmt.Sprintf("GetStatement(%s) differs from the same statement as listed in its policies / as configured on %v", s.Name, d), nil)
		}
	}
	// assignments
	for id, a := range prog.ap {
		for _, dir := range []PolicyDirection{POLICY_DIRECTION_IMPORT, POLICY_DIRECTION_EXPORT} {
			names, def := a.Config.ImportPolicyList, a.Config.DefaultImportPolicy
			if dir == POLICY_DIRECTION_EXPORT {
				names, def = a.Config.ExportPolicyList, a.Config.DefaultExportPolicy
			}
			wantDef := ROUTE_TYPE_ACCEPT
			if def == "reject-route" {
				wantDef = ROUTE_TYPE_REJECT
			} else if def == "none" {
				wantDef = ROUTE_TYPE_NONE // assignment deleted (edit phase)
			}
			rt, ps, err := rp.GetPolicyAssignment(id, dir)
			var gn []string
			for _, p := range ps {
				gn = append(gn, p.Name)
			}
			if err != nil || rt != wantDef || fmt.Sprint(gn) != fmt.Sprint(append([]string{}, names...)) {
				viol("c10:readback:assignment:"+dir.String(), fmt.Sprintf("assignment %s/%s: configured %v default %q, read back %v default %s (err %v)", id, dir, names, def, gn, rt, err), nil)
			}
			rec.Count("readback_assignments", 1)
		}
	}
}
