package table

// C02 (layer A, table level) — RIBs hold exactly the latest un-withdrawn route per source and path-id.
//
// Real code under observation: AdjRib.Update/Drop/DropStale/StaleAll/MarkLLGRStaleOrDrop/PathList/
// Count/Accepted/TableInfo/Select, TableManager.Update (Table.update -> getOrCreateDest ->
// destination.Calculate -> deleteDest), Table.GetDestination/Select/Info, TableManager.GetPathList/
// GetBestPathList/GetDestination, Update.GetChanges — driven with random histories over a pool of
// 15 destinations shared by 2-5 sources (local, eBGP, iBGP, two sessions to one router; ADD-PATH
// remote ids 0-3), with the destination key folded to 0-3 bits in most cases (verifFoldKeyFn) so
// that several distinct NLRIs live in one collision chain.
//
// The harness plays the part of pkg/server: what a peer sends goes to its AdjRib first and then, as
// propagateUpdate does, to the Loc-RIB; a route that failed the loop checks (marked rejected, kept
// in the Adj-RIB-In) or is replaced by a rejected one reaches the Loc-RIB as a withdrawal (what an
// import-policy reject turns into); whatever Drop/DropStale/StaleAll/MarkLLGRStaleOrDrop return is
// fed to the Loc-RIB path by path.
//
// Oracle: c02Model (maps + linear scans, c02_model_test.go). Order inside a destination is only
// observed as "GetBestPath is the head of GetKnownPathList and the list is a permutation of the
// model's set" (the decision process itself is C03).

import (
	"fmt"
	"math/bits"
	"math/rand/v2"
	"net/netip"
	"os"
	"slices"
	"sort"
	"strconv"
	"strings"
	"sync"
	"sync/atomic"
	"testing"
	"time"

	"github.com/osrg/gobgp/v4/internal/verif/vlib"
	"github.com/osrg/gobgp/v4/pkg/apiutil"
	"github.com/osrg/gobgp/v4/pkg/config/oc"
	"github.com/osrg/gobgp/v4/pkg/packet/bgp"
)

const c02FoldOff = 64 // c02World.fold: the hook is not installed

type c02LK struct {
	d, s int
	id   uint32
}

type c02World struct {
	rec    *vlib.Rec
	idx    int
	pool   []*c02Dest
	byName map[string]*c02Dest
	srcs   []*c02Src
	tm     *TableManager
	m      *c02Model
	fold   int // bits kept of the destination key (c02FoldOff: hook not installed)

	conc    bool
	buckets bool         // concurrent mode: per-destination lock around Update+notification, as propagateUpdate has
	bucket  []sync.Mutex // one per destination
	stream  []*Path      // per destination: the best path as told by the notification stream
	lids    map[c02LK]uint32
	clock   atomic.Int64
	running atomic.Bool // concurrent mode: the actors are at work

	mu       sync.Mutex
	failed   bool
	log      []string // last operations
	nops     int
	kind     string // kind of the last operation (names the call site in violation keys)
	cnt      map[string]int
	window   map[string]int
	changed  bool
	maxChain int
	actors   []*c02Actor
}

func c02SrcPtr(s *c02Src) *PeerInfo {
	if s.info == nil {
		return localSource
	}
	return s.info
}

func (w *c02World) srcOf(p *Path) *c02Src {
	si := p.GetSource()
	for _, s := range w.srcs {
		if c02SrcPtr(s) == si {
			return s
		}
	}
	return nil
}

func (w *c02World) destOf(p *Path) *c02Dest { return w.byName[c02Name(p.GetFamily(), p.GetNlri())] }

func c02NewWorld(rec *vlib.Rec, idx int, r *rand.Rand, conc bool) *c02World {
	w := &c02World{rec: rec, idx: idx, pool: c02Pool(), byName: map[string]*c02Dest{}, conc: conc,
		lids: map[c02LK]uint32{}, cnt: map[string]int{}, window: map[string]int{}}
	for _, d := range w.pool {
		w.byName[d.name] = d
	}
	// sources: the local source plus 1-4 others (2-5 in total)
	w.srcs = append(w.srcs, &c02Src{idx: 0, name: "local", local: true})
	kinds := r.Perm(5)
	n := 1 + r.IntN(4)
	if conc && n < 2 {
		n = 2
	}
	for _, k := range kinds[:n] {
		info, name, local := c02PeerInfo(k)
		s := &c02Src{idx: len(w.srcs), name: name, info: info, local: local}
		if !local {
			s.adj = NewAdjRib(verifLogger(), c02Families)
			s.addpath = r.IntN(2) == 0
		} else {
			s.addpath = r.IntN(3) == 0 // the API may set an identifier
		}
		w.srcs = append(w.srcs, s)
	}
	w.srcs[0].addpath = r.IntN(4) == 0
	if os.Getenv("VERIF_C02_NOADDPATH") != "" { // diagnostic knob: no source uses path ids
		for _, s := range w.srcs {
			s.addpath = false
		}
	}
	w.tm = NewTableManager(verifLogger(), c02Families)
	w.m = c02NewModel(w.pool, w.srcs)
	w.bucket = make([]sync.Mutex, len(w.pool))
	w.stream = make([]*Path, len(w.pool))
	// collision chains: fold the 64-bit key to 0-3 bits in 3 of 4 cases (0 bits: one chain per table)
	switch r.IntN(16) {
	case 0, 1, 2, 3:
		w.fold = c02FoldOff
	case 4, 5:
		w.fold = 0
	case 6, 7, 8, 9:
		w.fold = 1
	case 10, 11, 12, 13:
		w.fold = 2
	default:
		w.fold = 3
	}
	if w.fold == c02FoldOff {
		verifFoldKeyFn.Store(nil)
	} else {
		mask := uint64(1)<<w.fold - 1
		f := func(k uint64) uint64 { return k & mask }
		verifFoldKeyFn.Store(&f)
	}
	return w
}

func (w *c02World) close() { verifFoldKeyFn.Store(nil) }

func (w *c02World) describe() map[string]any {
	var ss []string
	for _, s := range w.srcs {
		x := s.name
		if s.addpath {
			x += "+addpath"
		}
		ss = append(ss, x)
	}
	fold := fmt.Sprint(w.fold)
	if w.fold == c02FoldOff {
		fold = "off"
	}
	return map[string]any{"case": w.idx, "fold_bits": fold, "sources": ss, "concurrent": w.conc, "bucket_locks": w.buckets}
}

func (w *c02World) fail(oracle, what string, extra map[string]any) {
	w.mu.Lock()
	defer w.mu.Unlock()
	if w.failed {
		return
	}
	w.failed = true
	wit := w.describe()
	wit["op_index"] = w.nops
	wit["last_ops"] = append([]string{}, w.log...)
	for _, a := range w.actors {
		if len(w.actors) > 1 && !w.running.Load() {
			wit["last_ops_"+a.name] = append([]string{}, a.log...)
		}
	}
	for k, v := range extra {
		wit[k] = v
	}
	key := "c02:" + oracle + ":after-" + w.kind
	if w.conc {
		key = "c02:" + oracle + ":concurrent"
	}
	w.rec.Violation(key, what, wit)
}

func (w *c02World) isFailed() bool {
	w.mu.Lock()
	defer w.mu.Unlock()
	return w.failed
}

// ---- the part of pkg/server the harness plays

// toLoc hands one path to the Loc-RIB and applies the best-path notifications it produces, in
// order, to the consumer's table (as dstsToPaths / notifyBestWatcher consumers do).
func (w *c02World) toLoc(p *Path) {
	d := w.destOf(p)
	if w.buckets {
		w.bucket[d.idx].Lock()
		defer w.bucket[d.idx].Unlock()
	}
	for _, u := range w.tm.Update(p) {
		if w.conc && !w.buckets {
			continue // nothing orders the notifications of one destination: no consumer table
		}
		best, _, _ := u.GetChanges(GLOBAL_RIB_NAME, 0, false)
		if best == nil {
			continue
		}
		bd := w.destOf(best)
		if bd == nil {
			w.fail("stream:unknown-destination", fmt.Sprintf("notification for %s %s which is not a destination of the history", best.GetFamily(), best.GetNlri()), nil)
			continue
		}
		if best.IsWithdraw {
			w.stream[bd.idx] = nil
		} else {
			w.stream[bd.idx] = best
		}
	}
}

// ---- actors: generators of operations (one in sequential mode, one per source in concurrent mode)

type c02Actor struct {
	w    *c02World
	name string
	r    *rand.Rand
	cnt  map[string]int
	log  []string
	last map[int]c02RK // per source: the key withdrawn last
}

func (w *c02World) newActor(name string, r *rand.Rand) *c02Actor {
	a := &c02Actor{w: w, name: name, r: r, cnt: map[string]int{}, last: map[int]c02RK{}}
	w.actors = append(w.actors, a)
	return a
}

func (a *c02Actor) note(s string) {
	if len(a.log) >= 40 {
		a.log = a.log[1:]
	}
	a.log = append(a.log, s)
}

func (a *c02Actor) newSpec(s *c02Src, d *c02Dest) c02Spec {
	r := a.r
	sp := c02Spec{origin: uint8(r.IntN(3)), med: uint32(a.w.clock.Add(1)), lp: -1, rt: uint32(1 + r.IntN(2))}
	if s.info != nil && !s.local {
		sp.asns = []uint32{s.info.AS}
		for i := r.IntN(3); i > 0; i-- {
			sp.asns = append(sp.asns, uint32(64512+r.IntN(4)))
		}
	}
	if s.local || (s.info != nil && s.info.AS == s.info.LocalAS) {
		if r.IntN(2) == 0 {
			sp.lp = int64(100 + 50*r.IntN(3))
		}
	}
	if d.fam == bgp.RF_IPv6_UC {
		sp.nh = netip.MustParseAddr(fmt.Sprintf("2001:db8:ffff::%d", s.idx+1))
	} else {
		sp.nh = netip.MustParseAddr(fmt.Sprintf("10.0.0.%d", s.idx+1))
	}
	if r.IntN(4) == 0 {
		sp.comms = append(sp.comms, 65000<<16|uint32(r.IntN(3)))
	}
	if r.IntN(8) == 0 {
		sp.comms = append(sp.comms, uint32(bgp.COMMUNITY_NO_LLGR))
	}
	return sp
}

func (a *c02Actor) mkPath(s *c02Src, d *c02Dest, id uint32, sp *c02Spec) *Path {
	attrs := []bgp.PathAttributeInterface{}
	if sp != nil {
		attrs = c02Attrs(d, sp)
	}
	ts := time.Unix(1_700_000_000+a.w.clock.Load(), 0)
	return NewPath(d.fam, s.info, bgp.PathNLRI{NLRI: d.nlri, ID: id}, sp == nil, attrs, ts, false)
}

func (a *c02Actor) pickID(s *c02Src) uint32 {
	if s.addpath {
		return uint32(a.r.IntN(4))
	}
	return 0
}

func (a *c02Actor) pickFams() []bgp.Family {
	if a.r.IntN(3) != 0 {
		return c02Families
	}
	var fs []bgp.Family
	for _, f := range c02Families {
		if a.r.IntN(2) == 0 {
			fs = append(fs, f)
		}
	}
	if len(fs) == 0 {
		fs = []bgp.Family{c02Families[a.r.IntN(len(c02Families))]}
	}
	return fs
}

// deliver: an UPDATE's worth of paths from source s.
func (a *c02Actor) deliver(s *c02Src, paths []*Path) {
	w := a.w
	if s.adj != nil {
		s.adj.Update(paths)
	}
	for _, p := range paths {
		if !p.IsWithdraw && p.IsRejected() {
			w.toLoc(p.Clone(true))
		} else {
			w.toLoc(p)
		}
	}
}

type c02Item struct {
	k        c02RK
	sp       *c02Spec // nil: withdrawal
	rejected bool
}

// send builds the paths of items, applies them to the model (in order) and delivers them.
func (a *c02Actor) send(s *c02Src, items []c02Item) []int {
	w := a.w
	var paths []*Path
	var touched []int
	for _, it := range items {
		d := w.pool[it.k.d]
		p := a.mkPath(s, d, it.k.id, it.sp)
		if it.sp == nil {
			w.m.withdraw(s.idx, it.k)
			w.forget(it.k.d, s.idx, it.k.id)
			a.last[s.idx] = it.k
		} else {
			p.SetRejected(it.rejected)
			w.m.announce(s.idx, it.k, *it.sp, it.rejected)
			if it.rejected {
				w.forget(it.k.d, s.idx, it.k.id)
			}
		}
		paths = append(paths, p)
		touched = append(touched, it.k.d)
	}
	a.deliver(s, paths)
	return touched
}

func (w *c02World) forget(d, s int, id uint32) {
	if !w.conc {
		delete(w.lids, c02LK{d, s, id})
	}
}

// pruneLids forgets the local ids of routes that are not in the Loc-RIB any more.
func (w *c02World) pruneLids() {
	for k := range w.lids {
		r := w.m.routes[k.s][c02RK{k.d, k.id}]
		if r == nil || r.rejected {
			delete(w.lids, k)
		}
	}
}

// step executes one state-changing operation of source s; returns its kind, the destinations it
// touched and whether it touched the whole source.
func (a *c02Actor) step(s *c02Src) (kind string, touched []int, bulk bool) {
	w, r := a.w, a.r
	keys := w.m.keys(s.idx)
	pickKey := func() (c02RK, bool) {
		if len(keys) == 0 {
			return c02RK{}, false
		}
		return keys[r.IntN(len(keys))], true
	}
	anyKey := func() c02RK { return c02RK{r.IntN(len(w.pool)), a.pickID(s)} }
	rej := func() bool { return s.adj != nil && r.IntN(6) == 0 }
	x := r.IntN(100)
	switch {
	case x < 30: // announce (new, or implicit replace with other attributes)
		k := anyKey()
		sp := a.newSpec(s, w.pool[k.d])
		kind = "announce"
		if w.m.routes[s.idx][k] != nil {
			kind = "replace"
		}
		rj := rej()
		a.note(fmt.Sprintf("%s %s %s id=%d med=%d rejected=%v", kind, s.name, w.pool[k.d].name, k.id, sp.med, rj))
		touched = a.send(s, []c02Item{{k, &sp, rj}})
	case x < 36: // one UPDATE with several routes, possibly the same key twice, mixed with withdrawals
		kind = "burst"
		var items []c02Item
		var desc []string
		for i := 2 + r.IntN(4); i > 0; i-- {
			k := anyKey()
			if len(items) > 0 && r.IntN(4) == 0 {
				k = items[r.IntN(len(items))].k
			}
			if r.IntN(3) == 0 {
				items = append(items, c02Item{k: k})
				desc = append(desc, fmt.Sprintf("-%d/%d", k.d, k.id))
			} else {
				sp := a.newSpec(s, w.pool[k.d])
				rj := rej()
				items = append(items, c02Item{k, &sp, rj})
				desc = append(desc, fmt.Sprintf("+%d/%d med=%d rej=%v", k.d, k.id, sp.med, rj))
			}
		}
		a.note(fmt.Sprintf("burst %s [%s]", s.name, strings.Join(desc, ", ")))
		touched = a.send(s, items)
	case x < 41: // the same route again (route refresh)
		k, ok := pickKey()
		if !ok {
			return a.step0(s)
		}
		kind = "replace-same"
		old := w.m.routes[s.idx][k]
		sp := old.spec
		a.note(fmt.Sprintf("replace-same %s %s id=%d med=%d rejected=%v", s.name, w.pool[k.d].name, k.id, sp.med, old.rejected))
		touched = a.send(s, []c02Item{{k, &sp, old.rejected}})
	case x < 49: // rejected <-> accepted flip of a stored route (same or new attributes)
		k, ok := pickKey()
		if !ok || s.adj == nil {
			return a.step0(s)
		}
		old := w.m.routes[s.idx][k]
		sp := old.spec
		if r.IntN(2) == 0 {
			sp = a.newSpec(s, w.pool[k.d])
		}
		kind = "flip-to-rejected"
		if old.rejected {
			kind = "flip-to-accepted"
		}
		a.note(fmt.Sprintf("%s %s %s id=%d med=%d", kind, s.name, w.pool[k.d].name, k.id, sp.med))
		touched = a.send(s, []c02Item{{k, &sp, !old.rejected}})
	case x < 67: // explicit withdraw
		k, ok := pickKey()
		if !ok {
			return a.step0(s)
		}
		kind = "withdraw"
		a.note(fmt.Sprintf("withdraw %s %s id=%d", s.name, w.pool[k.d].name, k.id))
		touched = a.send(s, []c02Item{{k: k}})
	case x < 72: // duplicate withdraw
		k, ok := a.last[s.idx]
		if !ok || w.m.routes[s.idx][k] != nil {
			return a.step0(s)
		}
		kind = "withdraw-duplicate"
		a.note(fmt.Sprintf("withdraw-duplicate %s %s id=%d", s.name, w.pool[k.d].name, k.id))
		touched = a.send(s, []c02Item{{k: k}})
	case x < 78: // withdraw of something this source does not have
		k := anyKey()
		if w.m.routes[s.idx][k] != nil {
			return a.step0(s)
		}
		kind = "withdraw-unknown"
		a.note(fmt.Sprintf("withdraw-unknown %s %s id=%d", s.name, w.pool[k.d].name, k.id))
		touched = a.send(s, []c02Item{{k: k}})
	case x < 82: // session loss / peer removal
		if s.adj == nil {
			// API: delete all local routes of this source
			kind = "local-delete-all"
			a.note("local-delete-all " + s.name)
			var list []*Path
			for _, p := range w.tm.GetPathList(GLOBAL_RIB_NAME, 0, c02Families) {
				if p.IsLocal() && p.GetSource() == c02SrcPtr(s) {
					list = append(list, p.Clone(true))
				}
			}
			w.m.sessionEnd(s.idx, c02Families)
			for _, p := range list {
				w.toLoc(p)
			}
			return kind, nil, true
		}
		fs := a.pickFams()
		kind = "peer-down"
		a.note(fmt.Sprintf("peer-down %s %v", s.name, fs))
		list := s.adj.Drop(fs)
		w.m.sessionEnd(s.idx, fs)
		for _, p := range list {
			w.toLoc(p)
		}
		bulk = true
	case x < 86: // graceful restart: everything becomes stale
		if s.adj == nil {
			return a.step0(s)
		}
		fs := a.pickFams()
		kind = "stale-all"
		a.note(fmt.Sprintf("stale-all %s %v", s.name, fs))
		list := s.adj.StaleAll(fs)
		w.m.staleAll(s.idx, fs)
		for _, p := range list {
			w.toLoc(p)
		}
		bulk = true
	case x < 90: // End-of-RIB after restart: what is still stale goes
		if s.adj == nil {
			return a.step0(s)
		}
		fs := a.pickFams()
		kind = "drop-stale"
		a.note(fmt.Sprintf("drop-stale %s %v", s.name, fs))
		list := s.adj.DropStale(fs)
		w.m.dropStale(s.idx, fs)
		for _, p := range list {
			w.toLoc(p)
		}
		bulk = true
	case x < 93: // long-lived graceful restart
		if s.adj == nil {
			return a.step0(s)
		}
		fs := a.pickFams()
		kind = "llgr-stale-or-drop"
		a.note(fmt.Sprintf("llgr-stale-or-drop %s %v", s.name, fs))
		list := s.adj.MarkLLGRStaleOrDrop(fs)
		w.m.llgr(s.idx, fs)
		for _, p := range list {
			w.toLoc(p)
		}
		bulk = true
	default:
		return a.step0(s)
	}
	return
}

// step0: the fallback operation (always possible): a plain announcement.
func (a *c02Actor) step0(s *c02Src) (string, []int, bool) {
	w := a.w
	k := c02RK{a.r.IntN(len(w.pool)), a.pickID(s)}
	sp := a.newSpec(s, w.pool[k.d])
	kind := "announce"
	if w.m.routes[s.idx][k] != nil {
		kind = "replace"
	}
	a.note(fmt.Sprintf("%s %s %s id=%d med=%d rejected=false", kind, s.name, w.pool[k.d].name, k.id, sp.med))
	return kind, a.send(s, []c02Item{{k, &sp, false}}), false
}

// ---- oracles

func c02RealAttrs(p *Path) string { return c02AttrBytes(p.GetPathAttrs()) }

// activeLocalIDs returns the number of allocated local ids (bit 0 included) of the stored
// destination named like d, or -1 if there is none. White box, all shards are scanned by name.
func (w *c02World) activeLocalIDs(t *Table, d *c02Dest) int {
	res := -1
	// fast path: where the table itself would look (only to save time; the full scan below decides otherwise)
	sh := t.destinations.getShard(d.nlri)
	sh.mu.RLock()
	for _, dd := range sh.mp[tableKey(d.nlri)] {
		if c02Name(t.Family, dd.nlri) == d.name {
			res = 0
			for _, v := range dd.localIdMap.bitmap {
				res += bits.OnesCount64(v)
			}
		}
	}
	sh.mu.RUnlock()
	if res >= 0 {
		return res
	}
	for _, sh := range t.destinations.shards {
		sh.mu.RLock()
		for _, ch := range sh.mp {
			for _, dd := range ch {
				if c02Name(t.Family, dd.nlri) == d.name {
					n := 0
					for _, v := range dd.localIdMap.bitmap {
						n += bits.OnesCount64(v)
					}
					res = n
				}
			}
		}
		sh.mu.RUnlock()
	}
	return res
}

func (w *c02World) checkLocDest(d *c02Dest) bool {
	w.cnt["dest_checks_loc"]++
	t, _ := w.tm.GetTable(d.fam)
	want := w.m.locAt(d.idx)
	dst := t.GetDestination(d.nlri)
	ex := func(m map[string]any) map[string]any {
		if m == nil {
			m = map[string]any{}
		}
		m["destination"] = d.name
		return m
	}
	if len(want) == 0 {
		if dst == nil {
			return true
		}
		if n := len(dst.GetKnownPathList(GLOBAL_RIB_NAME, 0)); n > 0 {
			p := dst.GetKnownPathList(GLOBAL_RIB_NAME, 0)[0]
			w.fail("loc:content:extra", fmt.Sprintf("Loc-RIB holds %d route(s) for %s, e.g. from %s id %d, where the model has none", n, d.name, p.GetSource(), p.RemoteID()), ex(nil))
			return false
		}
		if n := w.activeLocalIDs(t, d); n <= 1 {
			w.fail("loc:empty-destination-left", fmt.Sprintf("destination %s has no routes and no allocated local id (%d bits) but is still in the table", d.name, n), ex(nil))
			return false
		}
		w.cnt["empty_destinations_kept_for_allocated_local_ids"]++
		return true
	}
	if dst == nil {
		w.fail("loc:destination-unreachable", fmt.Sprintf("the model has %d route(s) for %s but GetDestination finds no destination", len(want), d.name), ex(nil))
		return false
	}
	list := dst.GetKnownPathList(GLOBAL_RIB_NAME, 0)
	got := map[c02SK]*Path{}
	lidSeen := map[uint32]bool{}
	for _, p := range list {
		if nm := c02Name(p.GetFamily(), p.GetNlri()); nm != d.name {
			w.fail("loc:foreign-route-in-destination", fmt.Sprintf("destination %s lists a route for %s", d.name, nm), ex(nil))
			return false
		}
		s := w.srcOf(p)
		if s == nil {
			w.fail("loc:unknown-source", fmt.Sprintf("destination %s lists a route from unknown source %s", d.name, p.GetSource()), ex(nil))
			return false
		}
		k := c02SK{s.idx, p.RemoteID()}
		if got[k] != nil {
			w.fail("loc:duplicate-source-pathid", fmt.Sprintf("destination %s lists two routes from %s with path id %d", d.name, s.name, k.id), ex(nil))
			return false
		}
		got[k] = p
		if p.IsWithdraw {
			w.fail("loc:withdrawal-stored", fmt.Sprintf("destination %s lists a withdrawal from %s id %d", d.name, s.name, k.id), ex(nil))
			return false
		}
		lid := p.LocalID()
		if lid == 0 {
			w.fail("loc:localid:zero", fmt.Sprintf("route from %s id %d at %s has no local path id", s.name, k.id, d.name), ex(nil))
			return false
		}
		if lidSeen[lid] {
			w.fail("loc:localid:duplicate", fmt.Sprintf("two routes at %s share local path id %d", d.name, lid), ex(nil))
			return false
		}
		lidSeen[lid] = true
	}
	for k, r := range want {
		p := got[k]
		if p == nil {
			w.fail("loc:content:missing", fmt.Sprintf("Loc-RIB lacks the route from %s id %d at %s (med %d)", w.srcs[k.s].name, k.id, d.name, r.spec.med), ex(nil))
			return false
		}
		if c02RealAttrs(p) != r.attrs {
			med, _ := p.GetMed()
			w.fail("loc:content:not-latest", fmt.Sprintf("Loc-RIB route from %s id %d at %s is not the latest one (stored med %d, latest med %d)", w.srcs[k.s].name, k.id, d.name, med, r.spec.med), ex(nil))
			return false
		}
	}
	for k, p := range got {
		if want[k] == nil {
			med, _ := p.GetMed()
			why := "withdrawn, rejected or of an ended session"
			w.fail("loc:content:extra", fmt.Sprintf("Loc-RIB holds a route from %s id %d at %s (med %d) that the model does not have (%s)", w.srcs[k.s].name, k.id, d.name, med, why), ex(nil))
			return false
		}
	}
	if best := dst.GetBestPath(GLOBAL_RIB_NAME, 0); best != list[0] {
		w.fail("loc:best-not-head", fmt.Sprintf("GetBestPath of %s is not the head of GetKnownPathList", d.name), ex(nil))
		return false
	}
	if d2 := w.tm.GetDestination(list[0]); d2 == nil || len(d2.GetAllKnownPathList()) != len(list) {
		w.fail("loc:destination-unreachable", fmt.Sprintf("TableManager.GetDestination(path) disagrees with Table.GetDestination(nlri) for %s", d.name), ex(nil))
		return false
	}
	if !w.conc {
		for k, p := range got {
			lk := c02LK{d.idx, k.s, k.id}
			if old, ok := w.lids[lk]; ok && old != p.LocalID() {
				w.fail("loc:localid:unstable", fmt.Sprintf("route from %s id %d at %s stayed announced but its local path id changed %d -> %d", w.srcs[k.s].name, k.id, d.name, old, p.LocalID()), ex(nil))
				return false
			}
			w.lids[lk] = p.LocalID()
		}
	}
	return true
}

func (w *c02World) checkAdjDest(s *c02Src, d *c02Dest) bool {
	w.cnt["dest_checks_adj"]++
	t := s.adj.table[d.fam]
	want := w.m.adjAt(s.idx, d.idx)
	dst := t.GetDestination(d.nlri)
	var list []*Path
	if dst != nil {
		list = dst.GetAllKnownPathList()
	}
	ex := map[string]any{"destination": d.name, "source": s.name}
	if dst != nil && len(list) == 0 {
		w.fail("adj:empty-destination-left", fmt.Sprintf("Adj-RIB-In of %s keeps destination %s without routes", s.name, d.name), ex)
		return false
	}
	return w.cmpAdj(s, d.name, list, want, ex)
}

func (w *c02World) cmpAdj(s *c02Src, where string, list []*Path, want map[uint32]*c02Route, ex map[string]any) bool {
	got := map[uint32]*Path{}
	for _, p := range list {
		if nm := c02Name(p.GetFamily(), p.GetNlri()); nm != where {
			w.fail("adj:foreign-route-in-destination", fmt.Sprintf("Adj-RIB-In of %s: destination %s lists a route for %s", s.name, where, nm), ex)
			return false
		}
		if p.GetSource() != c02SrcPtr(s) {
			w.fail("adj:unknown-source", fmt.Sprintf("Adj-RIB-In of %s holds a route from %s", s.name, p.GetSource()), ex)
			return false
		}
		if got[p.RemoteID()] != nil {
			w.fail("adj:duplicate-pathid", fmt.Sprintf("Adj-RIB-In of %s lists path id %d twice at %s", s.name, p.RemoteID(), where), ex)
			return false
		}
		if p.IsWithdraw {
			w.fail("adj:withdrawal-stored", fmt.Sprintf("Adj-RIB-In of %s stores a withdrawal at %s", s.name, where), ex)
			return false
		}
		got[p.RemoteID()] = p
	}
	for id, r := range want {
		p := got[id]
		if p == nil {
			w.fail("adj:content:missing", fmt.Sprintf("Adj-RIB-In of %s lacks id %d at %s (med %d)", s.name, id, where, r.spec.med), ex)
			return false
		}
		if c02RealAttrs(p) != r.attrs {
			med, _ := p.GetMed()
			w.fail("adj:content:not-latest", fmt.Sprintf("Adj-RIB-In of %s id %d at %s is not the latest route (stored med %d, latest med %d)", s.name, id, where, med, r.spec.med), ex)
			return false
		}
		if p.IsRejected() != r.rejected {
			w.fail("adj:rejected-flag", fmt.Sprintf("Adj-RIB-In of %s id %d at %s: rejected=%v, model %v", s.name, id, where, p.IsRejected(), r.rejected), ex)
			return false
		}
		if p.IsStale() != r.stale {
			w.fail("adj:stale-flag", fmt.Sprintf("Adj-RIB-In of %s id %d at %s: stale=%v, model %v", s.name, id, where, p.IsStale(), r.stale), ex)
			return false
		}
	}
	for id, p := range got {
		if want[id] == nil {
			med, _ := p.GetMed()
			w.fail("adj:content:extra", fmt.Sprintf("Adj-RIB-In of %s holds id %d at %s (med %d) that was withdrawn or belongs to an ended session", s.name, id, where, med), ex)
			return false
		}
	}
	return true
}

func (w *c02World) checkAdjCounters(s *c02Src, fs []bgp.Family) bool {
	stored, accepted, _ := w.m.adjCount(s.idx, fs)
	ex := map[string]any{"source": s.name, "families": fmt.Sprint(fs)}
	if n := s.adj.Count(fs); n != stored {
		w.fail("adj:count", fmt.Sprintf("AdjRib.Count(%v) of %s = %d, stored routes in the model %d", fs, s.name, n, stored), ex)
		return false
	}
	if n := s.adj.Accepted(fs); n != accepted {
		w.fail("adj:accepted-counter", fmt.Sprintf("AdjRib.Accepted(%v) of %s = %d, stored non-rejected routes %d (stored %d)", fs, s.name, n, accepted, stored), ex)
		return false
	}
	w.cnt["counter_checks"]++
	return true
}

// scanChains walks the shards of t (white box): chain-length statistics, and no destination twice.
func (w *c02World) scanChains(t *Table, what string) bool {
	dup := ""
	for _, sh := range t.destinations.shards {
		sh.mu.RLock()
		for _, ch := range sh.mp {
			n := len(ch)
			switch {
			case n <= 1:
				w.cnt["chains_len_1"]++
			case n == 2:
				w.cnt["chains_len_2"]++
			case n <= 4:
				w.cnt["chains_len_3-4"]++
			default:
				w.cnt["chains_len_5+"]++
			}
			if n > w.maxChain {
				w.maxChain = n
			}
			if n > 1 {
				seen := map[string]bool{}
				for _, dd := range ch {
					nm := c02Name(t.Family, dd.nlri)
					if seen[nm] {
						dup = nm
					}
					seen[nm] = true
				}
			}
		}
		sh.mu.RUnlock()
	}
	if dup != "" {
		w.fail(what+":destination-stored-twice", fmt.Sprintf("destination %s is stored twice in one collision chain", dup), nil)
		return false
	}
	return true
}

func c02ChainBucket(n int) string {
	switch {
	case n <= 1:
		return "1"
	case n == 2:
		return "2"
	case n <= 4:
		return "3-4"
	}
	return "5+"
}

// fullCheck compares everything with the model.
func (w *c02World) fullCheck(r *rand.Rand) bool {
	if w.isFailed() {
		return false
	}
	w.rec.Eval()
	w.cnt["full_comparisons"]++
	// --- Adj-RIB-In of every peer
	for _, s := range w.srcs {
		if s.adj == nil {
			continue
		}
		byDest := map[string][]*Path{}
		all := s.adj.PathList(c02Families, false)
		for _, p := range all {
			nm := c02Name(p.GetFamily(), p.GetNlri())
			byDest[nm] = append(byDest[nm], p)
		}
		for nm := range byDest {
			if w.byName[nm] == nil {
				w.fail("adj:content:extra", fmt.Sprintf("Adj-RIB-In of %s lists unknown destination %s", s.name, nm), nil)
				return false
			}
		}
		for _, d := range w.pool {
			if !w.cmpAdj(s, d.name, byDest[d.name], w.m.adjAt(s.idx, d.idx), map[string]any{"destination": d.name, "source": s.name, "via": "PathList"}) {
				return false
			}
		}
		stored, accepted, _ := w.m.adjCount(s.idx, c02Families)
		if len(all) != stored {
			w.fail("adj:content:extra", fmt.Sprintf("Adj-RIB-In of %s lists %d routes, model %d", s.name, len(all), stored), nil)
			return false
		}
		if n := len(s.adj.PathList(c02Families, true)); n != accepted {
			w.fail("adj:accepted-list", fmt.Sprintf("AdjRib.PathList(accepted) of %s has %d routes, the model %d non-rejected", s.name, n, accepted), nil)
			return false
		}
		if !w.checkAdjCounters(s, c02Families) {
			return false
		}
		for _, f := range c02Families {
			fs := []bgp.Family{f}
			st, ac, nd := w.m.adjCount(s.idx, fs)
			if !w.checkAdjCounters(s, fs) {
				return false
			}
			ti, err := s.adj.TableInfo(f)
			if err != nil {
				w.fail("adj:tableinfo:error", err.Error(), nil)
				return false
			}
			w.cnt["adj_tableinfo_checks"]++
			ex := map[string]any{"source": s.name, "family": f.String(), "info": fmt.Sprintf("%+v", *ti), "model": fmt.Sprintf("destinations=%d paths=%d accepted=%d", nd, st, ac)}
			if ti.NumPath != st {
				w.fail("adj:tableinfo:NumPath", fmt.Sprintf("AdjRib.TableInfo(%s) of %s: NumPath=%d, stored routes %d", f, s.name, ti.NumPath, st), ex)
				return false
			}
			if ti.NumAccepted != ac {
				w.fail("adj:tableinfo:NumAccepted", fmt.Sprintf("AdjRib.TableInfo(%s) of %s: NumAccepted=%d, stored non-rejected routes %d", f, s.name, ti.NumAccepted, ac), ex)
				return false
			}
			if ti.NumDestination != nd {
				// reported under a key of its own, the history goes on (the table content is not affected)
				w.cnt["adj_tableinfo_numdestination_mismatch"]++
				w.rec.Violation("c02:adj:tableinfo:NumDestination-counts-paths:addpath", fmt.Sprintf("AdjRib.TableInfo(%s) of %s: NumDestination=%d but the routes (several path ids per prefix) are for %d destinations", f, s.name, ti.NumDestination, nd),
					func() map[string]any {
						m := w.describe()
						m["op_index"] = w.nops
						m["last_ops"] = append([]string{}, w.log...)
						m["detail"] = ex
						return m
					}())
			}
		}
	}
	// --- Loc-RIB
	all := w.tm.GetPathList(GLOBAL_RIB_NAME, 0, c02Families)
	seen := map[c02LK]int{}
	for _, p := range all {
		d, s := w.destOf(p), w.srcOf(p)
		if d == nil || s == nil {
			w.fail("loc:content:extra", fmt.Sprintf("GetPathList returns a route for %s %s from %s that no history produced", p.GetFamily(), p.GetNlri(), p.GetSource()), nil)
			return false
		}
		k := c02LK{d.idx, s.idx, p.RemoteID()}
		seen[k]++
		if seen[k] > 1 {
			w.fail("loc:duplicate-source-pathid", fmt.Sprintf("GetPathList returns two routes for %s from %s with path id %d", d.name, s.name, k.id), map[string]any{"destination": d.name})
			return false
		}
	}
	total := 0
	for _, d := range w.pool {
		if !w.checkLocDest(d) {
			return false
		}
		total += len(w.m.locAt(d.idx))
	}
	if len(all) != total {
		w.fail("loc:content:extra", fmt.Sprintf("GetPathList returns %d routes, the model has %d", len(all), total), nil)
		return false
	}
	// best-path table and the notification stream
	bestBy := map[int]*Path{}
	for _, p := range w.tm.GetBestPathList(GLOBAL_RIB_NAME, 0, c02Families) {
		d := w.destOf(p)
		if d == nil {
			w.fail("loc:content:extra", fmt.Sprintf("GetBestPathList returns a route for unknown %s", p.GetNlri()), nil)
			return false
		}
		if bestBy[d.idx] != nil {
			w.fail("loc:two-best-paths", fmt.Sprintf("GetBestPathList returns two best paths for %s", d.name), nil)
			return false
		}
		bestBy[d.idx] = p
	}
	for _, d := range w.pool {
		want := w.m.locAt(d.idx)
		b := bestBy[d.idx]
		if (len(want) > 0) != (b != nil) {
			w.fail("loc:best-table", fmt.Sprintf("%s: %d routes in the model, best path present: %v", d.name, len(want), b != nil), nil)
			return false
		}
		if b != nil {
			r := want[c02SK{w.srcOf(b).idx, b.RemoteID()}]
			if r == nil || r.attrs != c02RealAttrs(b) {
				w.fail("loc:best-table", fmt.Sprintf("best path of %s is not a current route of the model", d.name), nil)
				return false
			}
		}
		if !w.conc || w.buckets {
			st := w.stream[d.idx]
			w.cnt["stream_comparisons"]++
			desc := func(p *Path) string {
				if p == nil {
					return "none"
				}
				med, _ := p.GetMed()
				return fmt.Sprintf("%s id %d med %d", p.GetSource(), p.RemoteID(), med)
			}
			if (st == nil) != (b == nil) || (st != nil && (st.GetSource() != b.GetSource() || c02RealAttrs(st) != c02RealAttrs(b))) {
				w.fail("stream:best-table-diverges", fmt.Sprintf("%s: replaying the best-path notifications gives [%s], the table's best path is [%s]", d.name, desc(st), desc(b)), map[string]any{"destination": d.name})
				return false
			}
			if st != nil {
				w.cnt["stream_comparisons_with_best"]++
				if st.RemoteID() != b.RemoteID() {
					w.cnt["stream_best_same_content_other_pathid"]++
				}
			}
		}
	}
	// the route-target index of the VPN tables is a lookup over the Loc-RIB as well: whatever it
	// returns must be a current route (it is allowed to return fewer: only best paths are indexed
	// for routes without a path id)
	for _, f := range []bgp.Family{bgp.RF_IPv4_VPN, bgp.RF_EVPN} {
		for rt := uint32(1); rt <= 2; rt++ {
			ec := bgp.NewTwoOctetAsSpecificExtended(bgp.EC_SUBTYPE_ROUTE_TARGET, 100, rt, true)
			for _, p := range w.tm.GetPathsByRT(ec, []bgp.Family{f}) {
				w.cnt["rt_index_routes_checked"]++
				d, s := w.destOf(p), w.srcOf(p)
				var cur *c02Route
				if d != nil && s != nil {
					cur = w.m.locAt(d.idx)[c02SK{s.idx, p.RemoteID()}]
				}
				if cur == nil || cur.attrs != c02RealAttrs(p) {
					// reported under a key of its own; the history goes on (the index is not read by anything else here)
					med, _ := p.GetMed()
					key := "c02:rt-index:stale-route:sources-without-path-ids"
					for _, s := range w.srcs {
						if s.addpath {
							key = "c02:rt-index:stale-route:sources-with-and-without-path-ids"
						}
					}
					w.cnt["rt_index_stale_routes"]++
					m := w.describe()
					m["op_index"] = w.nops
					m["last_ops"] = append([]string{}, w.log...)
					w.rec.Violation(key, fmt.Sprintf("GetPathsByRT(100:%d, %s) returns a route for %s from %s id %d (med %d) that is not in the Loc-RIB any more", rt, f, p.GetNlri(), p.GetSource(), p.RemoteID(), med), m)
				}
			}
		}
	}
	// table summaries, chains
	for _, f := range c02Families {
		t, _ := w.tm.GetTable(f)
		np, nd := w.m.locCount(f)
		ti := t.Info()
		w.cnt["loc_info_checks"]++
		if ti.NumPath != np || ti.NumDestination != nd {
			w.fail("loc:info", fmt.Sprintf("Table.Info(%s): NumDestination=%d NumPath=%d, model %d destinations with %d routes", f, ti.NumDestination, ti.NumPath, nd, np), nil)
			return false
		}
		if !w.scanChains(t, "loc") {
			return false
		}
	}
	for _, s := range w.srcs {
		if s.adj != nil && r.IntN(3) == 0 {
			if !w.scanChains(s.adj.table[c02Families[r.IntN(len(c02Families))]], "adj") {
				return false
			}
		}
	}
	// lookups
	for i := 2 + r.IntN(3); i > 0; i-- {
		if !w.lookup(r) {
			return false
		}
	}
	// bookkeeping: non-trivial iff the content changed since the previous comparison
	if w.changed {
		w.cnt["comparisons_after_change"]++
		var ks []string
		for k, n := range w.window {
			ks = append(ks, fmt.Sprintf("%s*%d", k, n))
		}
		sort.Strings(ks)
		w.rec.Nontrivial(strings.Join(ks, ",") + "|chain" + c02ChainBucket(w.maxChain))
	}
	w.window = map[string]int{}
	w.changed = false
	return true
}

// ---- lookups

type c02Query struct {
	lp    *apiutil.LookupPrefix
	kind  int // 0 exact, 1 longer, 2 shorter
	pfx   netip.Prefix
	addr  netip.Addr // exact lookup by address (longest match)
	etype string
}

func (w *c02World) lookup(r *rand.Rand) bool {
	// target: the Loc-RIB or the Adj-RIB-In of one peer
	var peers []*c02Src
	for _, s := range w.srcs {
		if s.adj != nil {
			peers = append(peers, s)
		}
	}
	var src *c02Src
	if len(peers) > 0 && r.IntN(3) == 0 {
		src = peers[r.IntN(len(peers))]
	}
	f := c02Families[r.IntN(len(c02Families))]
	if r.IntN(3) == 0 {
		f = bgp.RF_IPv4_UC
	}
	content := func(d *c02Dest) map[c02SK]string {
		out := map[c02SK]string{}
		if src == nil {
			for k, rt := range w.m.locAt(d.idx) {
				out[k] = rt.attrs
			}
		} else {
			for id, rt := range w.m.adjAt(src.idx, d.idx) {
				out[c02SK{src.idx, id}] = rt.attrs
			}
		}
		return out
	}
	var cands []*c02Dest // destinations of the family with routes
	for _, d := range w.pool {
		if d.fam == f && len(content(d)) > 0 {
			cands = append(cands, d)
		}
	}
	kinds := []string{"exact", "longer", "shorter"}
	opts := []apiutil.LookupOption{apiutil.LOOKUP_EXACT, apiutil.LOOKUP_LONGER, apiutil.LOOKUP_SHORTER}
	var qs []c02Query
	var mayCopy []*c02Dest
	label := ""
	want := map[int]bool{}
	switch f {
	case bgp.RF_IPv4_UC, bgp.RF_IPv6_UC:
		var pal []string
		if f == bgp.RF_IPv4_UC {
			pal = []string{"0.0.0.0/0", "10.0.0.0/8", "10.1.0.0/16", "10.1.2.0/24", "10.1.2.128/25", "192.168.0.0/24", "10.0.0.0/7", "10.1.0.0/17", "10.1.2.0/25",
				"10.1.2.200/32", "10.1.2.3/32", "10.2.0.0/16", "192.168.0.0/16", "192.168.0.77/32", "172.16.0.0/12", "10.1.2.128/26", "128.0.0.0/1"}
		} else {
			pal = []string{"::/0", "2001:db8::/32", "2001:db8:1::/48", "2001:db8:1:2::/64", "2001:db8::/31", "2001:db8:1::/47", "2001:db8:1:2::1/128", "2001:db8:2::/48", "2001:db9::/32", "2001:db8:1:2::/65"}
		}
		n := 1 + r.IntN(2)
		kind := r.IntN(3)
		label = kinds[kind]
		for i := 0; i < n; i++ {
			q := c02Query{kind: kind, pfx: netip.MustParsePrefix(pal[r.IntN(len(pal))])}
			key := q.pfx.String()
			if kind == 0 && r.IntN(3) == 0 {
				// lookup by plain address: the longest match
				q.addr = q.pfx.Addr()
				if r.IntN(2) == 0 {
					q.addr = q.addr.Next()
				}
				key = q.addr.String()
				label = "exact-by-address"
			}
			q.lp = &apiutil.LookupPrefix{Prefix: key, LookupOption: opts[kind]}
			qs = append(qs, q)
		}
		for _, q := range qs {
			if q.addr.IsValid() {
				var bestD *c02Dest
				for _, d := range cands {
					if d.pfx.Contains(q.addr) && (bestD == nil || d.pfx.Bits() > bestD.pfx.Bits()) {
						bestD = d
					}
				}
				if bestD != nil {
					want[bestD.idx] = true
				}
				continue
			}
			for _, d := range cands {
				if c02MatchPrefix(q.kind, q.pfx, d.pfx) {
					want[d.idx] = true
				}
			}
		}
	case bgp.RF_IPv4_VPN:
		pal := []string{"10.1.0.0/16", "10.1.2.0/24", "10.0.0.0/8", "10.1.2.0/25", "0.0.0.0/0", "10.1.2.3/32", "10.2.0.0/16"}
		rd := []string{"", "100:1", "100:2", "100:3"}[r.IntN(4)]
		kind := r.IntN(3)
		label = "vpn-" + kinds[kind]
		if rd == "" {
			label += "-any-rd"
		}
		q := c02Query{kind: kind, pfx: netip.MustParsePrefix(pal[r.IntN(len(pal))])}
		q.lp = &apiutil.LookupPrefix{Prefix: q.pfx.String(), RD: rd, LookupOption: opts[kind]}
		qs = append(qs, q)
		for _, d := range cands {
			if (rd == "" || rd == d.rd) && c02MatchPrefix(kind, q.pfx, d.pfx) {
				want[d.idx] = true
			}
		}
		if rd == "" {
			// without an RD the stored destinations are copied whatever they hold (also the empty ones
			// kept for their local ids): all of them count for the collision forecast below
			for _, d := range w.pool {
				if d.fam == f && c02MatchPrefix(kind, q.pfx, d.pfx) {
					mayCopy = append(mayCopy, d)
				}
			}
		}
	case bgp.RF_EVPN:
		et := []string{"macadv", "multicast", "prefix", "a-d", "esi"}[r.IntN(5)]
		label = "evpn-route-type"
		qs = append(qs, c02Query{lp: &apiutil.LookupPrefix{Prefix: et}, etype: et})
		for _, d := range cands {
			if d.etype == et {
				want[d.idx] = true
			}
		}
	}
	whole := r.IntN(8) == 0
	var opt TableSelectOption
	if whole {
		label = "whole-table"
		want = map[int]bool{}
		for _, d := range cands {
			want[d.idx] = true
		}
	} else {
		for _, q := range qs {
			opt.LookupPrefixes = append(opt.LookupPrefixes, q.lp)
		}
	}
	var res *Table
	var err error
	target := "loc"
	if src != nil {
		target = "adj"
	}
	if c02SelectCollisionCrash {
		wd := mayCopy
		if whole {
			wd = nil
		}
		for i := range want {
			if !slices.Contains(wd, w.pool[i]) {
				wd = append(wd, w.pool[i])
			}
		}
		if c02Collide(wd) {
			w.cnt["lookups_left_out_for_select_collision_crash"]++
			return true
		}
	}
	if w.rec.Guard("c02:lookup", func() any { m := w.describe(); m["lookup"] = fmt.Sprintf("%s %s %s", target, f, label); return m }, func() {
		if src == nil {
			t, _ := w.tm.GetTable(f)
			res, err = t.Select(opt)
		} else {
			res, err = src.adj.Select(f, false, opt)
		}
	}) {
		w.mu.Lock()
		w.failed = true // a shard lock may have been left behind: the history ends here
		w.mu.Unlock()
		return false
	}
	qdesc := func() string {
		var x []string
		for _, lp := range opt.LookupPrefixes {
			x = append(x, fmt.Sprintf("%q rd=%q", lp.Prefix, lp.RD))
		}
		return fmt.Sprintf("%s %s %s %v", target, f, label, x)
	}
	key := "lookup:" + target + ":" + label
	if err != nil {
		w.fail(key, fmt.Sprintf("Select(%s) fails: %v", qdesc(), err), nil)
		return false
	}
	w.cnt["lookups"]++
	w.cnt["lookup_"+target+"_"+label]++
	got := map[int]map[c02SK]string{}
	for _, dst := range res.GetDestinations() {
		d := w.byName[c02Name(f, dst.GetNlri())]
		if d == nil {
			w.fail(key, fmt.Sprintf("Select(%s) returns unknown destination %s", qdesc(), dst.GetNlri()), nil)
			return false
		}
		l := dst.GetAllKnownPathList()
		if len(l) == 0 {
			w.cnt["lookup_results_with_empty_destination"]++
			continue
		}
		if got[d.idx] != nil {
			w.fail(key, fmt.Sprintf("Select(%s) returns destination %s twice", qdesc(), d.name), nil)
			return false
		}
		got[d.idx] = map[c02SK]string{}
		for _, p := range l {
			s := w.srcOf(p)
			if s == nil || c02Name(p.GetFamily(), p.GetNlri()) != d.name {
				w.fail(key, fmt.Sprintf("Select(%s): destination %s lists a foreign route", qdesc(), d.name), nil)
				return false
			}
			k := c02SK{s.idx, p.RemoteID()}
			if _, dup := got[d.idx][k]; dup {
				w.fail(key, fmt.Sprintf("Select(%s): destination %s lists (%s, id %d) twice", qdesc(), d.name, s.name, k.id), nil)
				return false
			}
			got[d.idx][k] = c02RealAttrs(p)
		}
	}
	names := func(m map[int]bool) []string {
		var x []string
		for i := range m {
			x = append(x, w.pool[i].name)
		}
		sort.Strings(x)
		return x
	}
	gotSet := map[int]bool{}
	for i := range got {
		gotSet[i] = true
	}
	if fmt.Sprint(names(gotSet)) != fmt.Sprint(names(want)) {
		w.fail(key, fmt.Sprintf("Select(%s) returns %v, prefix arithmetic over the model gives %v", qdesc(), names(gotSet), names(want)), nil)
		return false
	}
	for i := range want {
		exp := content(w.pool[i])
		if len(exp) != len(got[i]) {
			w.fail(key, fmt.Sprintf("Select(%s): destination %s has %d routes, the model %d", qdesc(), w.pool[i].name, len(got[i]), len(exp)), nil)
			return false
		}
		for k, a := range exp {
			if got[i][k] != a {
				w.fail(key, fmt.Sprintf("Select(%s): destination %s: route of (%s, id %d) missing or not the latest", qdesc(), w.pool[i].name, w.srcs[k.s].name, k.id), nil)
				return false
			}
		}
	}
	if len(want) > 0 {
		w.cnt["lookups_with_result"]++
	}
	return true
}

// ---- Select on a result table with colliding keys

// c02SelectCollisionCrash is set by c02ProbeSelectCollision: Table.Select panics when two selected
// destinations share a key (see the probe). The defect is reported by the probe on every run; the
// histories then leave out lookups whose result would hold two destinations with one key, because
// the panic kills the process (and leaks a shard lock) and nothing else would be observed.
var c02SelectCollisionCrash bool

func c02ProbeSelectCollision(rec *vlib.Rec) {
	f := func(k uint64) uint64 { return 0 }
	verifFoldKeyFn.Store(&f)
	defer verifFoldKeyFn.Store(nil)
	tm := NewTableManager(verifLogger(), []bgp.Family{bgp.RF_IPv4_UC})
	tm.Update(verifPath("10.1.0.0/24", verifSrcPeer))
	tm.Update(verifPath("10.2.0.0/24", verifSrcPeer))
	t, _ := tm.GetTable(bgp.RF_IPv4_UC)
	wit := func() any {
		return map[string]any{"case": -1, "table": "10.1.0.0/24 and 10.2.0.0/24 from one peer, destination keys folded to one value",
			"call": "Table.Select(LookupPrefixes: 10.0.0.0/8 longer)"}
	}
	// the longer-prefixes branch works on snapshots: no shard lock is held when it panics
	c02SelectCollisionCrash = rec.Guard("c02:select-result-collision", wit, func() {
		res, err := t.Select(TableSelectOption{LookupPrefixes: []*apiutil.LookupPrefix{{Prefix: "10.0.0.0/8", LookupOption: apiutil.LOOKUP_LONGER}}})
		if err != nil || len(res.GetDestinations()) != 2 {
			rec.Violation("c02:lookup:loc:longer", fmt.Sprintf("probe: Select(10.0.0.0/8 longer) over two colliding destinations: err=%v", err), wit())
		}
	})
	rec.Count("select_collision_probe", 1)
}

func c02Collide(ds []*c02Dest) bool {
	seen := map[addrPrefixKey]bool{}
	for _, d := range ds {
		k := tableKey(d.nlri)
		if seen[k] {
			return true
		}
		seen[k] = true
	}
	return false
}

// ---- cases

func (w *c02World) flush() {
	for _, a := range w.actors {
		for k, n := range a.cnt {
			w.rec.Count("op_"+k, n)
		}
	}
	for k, n := range w.cnt {
		w.rec.Count(k, n)
	}
	w.rec.Count("ops", w.nops)
	w.rec.Count(fmt.Sprintf("cases_fold_bits_%v", w.describe()["fold_bits"]), 1)
	w.rec.Count(fmt.Sprintf("cases_sources_%d", len(w.srcs)), 1)
}

func c02SeqCase(rec *vlib.Rec, idx int, r *rand.Rand, nops int) {
	w := c02NewWorld(rec, idx, r, false)
	defer w.close()
	rec.Mark(fmt.Sprintf("c02 sequential case %d ops=%d fold=%d", idx, nops, w.fold), false)
	a := w.newActor("seq", r)
	every := 10 + r.IntN(50) // mean distance of full comparisons
	next := 1 + r.IntN(2*every)
	defer w.flush()
	for w.nops < nops {
		s := w.srcs[r.IntN(len(w.srcs))]
		kind, touched, bulk := a.step(s)
		w.nops++
		w.kind = kind
		a.cnt[kind]++
		w.window[kind]++
		w.changed = true
		if len(a.log) > 0 {
			w.log = a.log
		}
		if bulk {
			// the operation touched a whole source: every destination, and the source's counters
			w.pruneLids()
			for _, d := range w.pool {
				if s.adj != nil && !w.checkAdjDest(s, d) {
					return
				}
				if !w.checkLocDest(d) {
					return
				}
			}
			if s.adj != nil && !w.checkAdjCounters(s, c02Families) {
				return
			}
			touched = nil
		}
		// cheap comparison of what the operation touched
		for _, di := range touched {
			d := w.pool[di]
			if s.adj != nil && !w.checkAdjDest(s, d) {
				return
			}
			if !w.checkLocDest(d) {
				return
			}
		}
		if s.adj != nil && len(touched) > 0 {
			f := w.pool[touched[0]].fam
			st, ac, _ := w.m.adjCount(s.idx, []bgp.Family{f})
			if n := s.adj.Accepted([]bgp.Family{f}); n != ac {
				w.fail("adj:accepted-counter", fmt.Sprintf("AdjRib.Accepted(%s) of %s = %d, stored non-rejected routes %d (stored %d)", f, s.name, n, ac, st), map[string]any{"source": s.name})
				return
			}
			w.cnt["counter_checks"]++
			if r.IntN(4) == 0 && !w.checkAdjCounters(s, []bgp.Family{f}) {
				return
			}
		}
		if w.isFailed() {
			return
		}
		if w.nops >= next {
			if w.nops%8 == 0 {
				rec.Mark(fmt.Sprintf("c02 sequential case %d op %d/%d", idx, w.nops, nops), false)
			}
			if !w.fullCheck(r) {
				return
			}
			next = w.nops + 1 + r.IntN(2*every)
		}
	}
	w.kind = "history-end"
	w.fullCheck(r)
	if idx%37 == 0 {
		d := w.describe()
		d["ops"] = w.nops
		d["max_chain"] = w.maxChain
		d["last_ops"] = a.log[max(0, len(a.log)-6):]
		rec.Sample(d)
	}
}

// c02ConcCase: one goroutine per source runs its own history through TableManager.Update over the
// shared destinations; a reader walks the tables meanwhile. The final state is independent of the
// interleaving as a set per (source, path id) and is compared with the model at the end.
func c02ConcCase(rec *vlib.Rec, idx int, r *rand.Rand, nops int) {
	w := c02NewWorld(rec, idx, r, true)
	defer w.close()
	w.buckets = r.IntN(2) == 0
	w.kind = "concurrent"
	rec.Mark(fmt.Sprintf("c02 concurrent case %d ops/source=%d fold=%d", idx, nops, w.fold), true)
	defer w.flush()
	var wg sync.WaitGroup
	var done atomic.Bool
	var total atomic.Int64
	w.running.Store(true)
	for _, s := range w.srcs {
		a := w.newActor(s.name, vlib.CaseRand("c02g", idx*16+s.idx))
		wg.Add(1)
		go func(s *c02Src, a *c02Actor) {
			defer wg.Done()
			if w.rec.Guard("c02:concurrent-history", func() any { return w.describe() }, func() {
				for i := 0; i < nops && !w.isFailed(); i++ {
					kind, _, _ := a.step(s)
					a.cnt[kind]++
					total.Add(1)
				}
			}) {
				w.mu.Lock()
				w.failed = true
				w.mu.Unlock()
			}
		}(s, a)
	}
	// reader: structural invariants on every snapshot it gets
	var rwg sync.WaitGroup
	reads := 0
	rwg.Add(1)
	go func() {
		defer rwg.Done()
		rr := vlib.CaseRand("c02r", idx)
		for !done.Load() {
			f := c02Families[rr.IntN(len(c02Families))]
			t, _ := w.tm.GetTable(f)
			var dsts []*destination
			x := rr.IntN(4)
			if x == 1 && c02SelectCollisionCrash && w.fold != c02FoldOff {
				x = 0
			}
			switch x {
			case 0:
				dsts = t.GetDestinations()
			case 1:
				if res, err := t.Select(); err == nil {
					dsts = res.GetDestinations()
				}
			case 2:
				t.Info()
				w.tm.GetBestPathList(GLOBAL_RIB_NAME, 0, c02Families)
			default:
				d := w.pool[rr.IntN(len(w.pool))]
				if t2, ok := w.tm.GetTable(d.fam); ok {
					if x := t2.GetDestination(d.nlri); x != nil {
						dsts = append(dsts, x)
					}
				}
			}
			reads++
			for _, dst := range dsts {
				seen := map[string]bool{}
				lids := map[uint32]bool{}
				for _, p := range dst.GetAllKnownPathList() {
					if p.GetNlri().String() != dst.GetNlri().String() {
						w.fail("reader:foreign-route-in-destination", fmt.Sprintf("snapshot of %s lists a route for %s", dst.GetNlri(), p.GetNlri()), nil)
					}
					k := fmt.Sprintf("%p/%d", p.GetSource(), p.RemoteID())
					if seen[k] {
						w.fail("reader:duplicate-source-pathid", fmt.Sprintf("snapshot of %s lists (%s, id %d) twice", dst.GetNlri(), p.GetSource(), p.RemoteID()), nil)
					}
					seen[k] = true
					if lid := p.LocalID(); lid == 0 || lids[lid] {
						w.fail("reader:localid", fmt.Sprintf("snapshot of %s: local path id %d is zero or used twice", dst.GetNlri(), lid), nil)
					}
					lids[p.LocalID()] = true
				}
			}
		}
	}()
	wg.Wait()
	done.Store(true)
	rwg.Wait()
	w.running.Store(false)
	w.nops = int(total.Load())
	w.cnt["concurrent_reader_rounds"] += reads
	w.cnt["concurrent_cases"]++
	if w.buckets {
		w.cnt["concurrent_cases_with_bucket_locks"]++
	}
	w.changed = true
	for _, a := range w.actors {
		for k, n := range a.cnt {
			w.window[k] += n
		}
	}
	w.fullCheck(r)
}

func TestVerifC02(t *testing.T) {
	rec := vlib.Open("C02")
	defer rec.Close()
	SelectionOptions = oc.RouteSelectionOptionsConfig{}
	UseMultiplePaths = oc.UseMultiplePathsConfig{}
	defer verifFoldKeyFn.Store(nil)
	c02ProbeSelectCollision(rec)
	raceUnit := os.Getenv("VERIF_C02_RACE") != ""
	total := vlib.Scale(64, 800)
	if raceUnit {
		total = vlib.Scale(16, 96)
	}
	vlib.Cases(total, func(idx int) {
		r := vlib.CaseRand("c02", idx)
		if raceUnit || idx%16 == 7 {
			n := 150 + r.IntN(450)
			if vlib.Thorough() {
				n = 300 + r.IntN(2700)
			}
			rec.Guard("c02:concurrent-history", func() any { return map[string]any{"case": idx} }, func() { c02ConcCase(rec, idx, r, n) })
			return
		}
		// history length: 10^3 .. 10^5 operations
		n := 1000 + r.IntN(5000)
		if vlib.Thorough() {
			switch x := r.IntN(100); {
			case x < 80:
				n = 1000 + r.IntN(9000)
			case x < 95:
				n = 10000 + r.IntN(20000)
			default:
				n = 100000
			}
		}
		if v, err := strconv.Atoi(os.Getenv("VERIF_C02_OPS")); err == nil && v > 0 { // diagnostic knob: history length
			n = v
		}
		rec.Guard("c02:history", func() any { return map[string]any{"case": idx} }, func() { c02SeqCase(rec, idx, r, n) })
	})
}
