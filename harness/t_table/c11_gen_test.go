package table

// C11 — workload generator. Every attribute, NLRI and next hop is produced twice: as the gobgp
// object handed to the packer and as the octets the harness expects a receiver to see, written
// here from the RFC encodings (never by serialising the gobgp object).

import (
	"encoding/binary"
	"math/rand/v2"
	"net/netip"
	"sort"
	"time"

	"github.com/osrg/gobgp/v4/pkg/packet/bgp"
)

// ---- attributes

type c11Attr struct {
	flags, typ byte
	val        []byte
	ext        bool // carries the extended-length bit although the value is <= 255 octets (as learned from a peer)
}

func (a c11Attr) minEnc() int {
	if len(a.val) > 255 {
		return 4 + len(a.val)
	}
	return 3 + len(a.val)
}

func (a c11Attr) asIsEnc() int {
	if len(a.val) > 255 || a.ext {
		return 4 + len(a.val)
	}
	return 3 + len(a.val)
}

// c11AttrSet is one set of path attributes without any next hop information.
type c11AttrSet struct {
	objs  []bgp.PathAttributeInterface
	exp   []c11Attr
	canon string // what the receiver model must hold for a route announced with this set
	lo    int    // octets when every attribute uses the shortest header
	hi    int    // octets as gobgp is expected to re-encode the set (learned header flags kept)
	comm  int    // index in objs of the COMMUNITIES attribute or -1
}

func (s *c11AttrSet) add(o bgp.PathAttributeInterface, a c11Attr) {
	s.objs = append(s.objs, o)
	s.exp = append(s.exp, a)
	s.lo += a.minEnc()
	s.hi += a.asIsEnc()
}

func (s *c11AttrSet) finish() {
	idx := make([]int, len(s.exp))
	for i := range idx {
		idx[i] = i
	}
	sort.SliceStable(idx, func(i, j int) bool { return s.exp[idx[i]].typ < s.exp[idx[j]].typ })
	objs := make([]bgp.PathAttributeInterface, len(idx))
	exp := make([]c11Attr, len(idx))
	var cb []byte
	s.comm = -1
	for n, i := range idx {
		objs[n], exp[n] = s.objs[i], s.exp[i]
		a := exp[n]
		if a.typ == 8 {
			s.comm = n
		}
		cb = append(cb, a.flags, a.typ, byte(len(a.val)>>8), byte(len(a.val)))
		cb = append(cb, a.val...)
	}
	s.objs, s.exp, s.canon = objs, exp, string(cb)
}

func c11U32s(r *rand.Rand, n int) ([]uint32, []byte) {
	vs := make([]uint32, n)
	b := make([]byte, 4*n)
	for i := range vs {
		vs[i] = r.Uint32()
		binary.BigEndian.PutUint32(b[4*i:], vs[i])
	}
	return vs, b
}

// c11PickLen draws a value length <= max that is a multiple of unit, favouring the lengths
// around the one-octet/two-octet length boundary (255/256).
func c11PickLen(r *rand.Rand, max, unit int, big bool) int {
	if max <= 0 {
		return 0
	}
	var l int
	switch r.IntN(4) {
	case 0:
		l = 248 + r.IntN(16)
	case 1:
		if big {
			l = r.IntN(max + 1)
		} else {
			l = r.IntN(64)
		}
	default:
		l = r.IntN(40)
	}
	if l > max {
		l = max
	}
	return l - l%unit
}

// c11BuildAttrSet builds a set whose as-is encoded length (s.hi) is exactly target octets
// (targets below the 13-octet minimum ORIGIN+AS_PATH are raised to it). big lets fillers take
// any share of the target (used for near-limit and oversize sets).
func c11BuildAttrSet(r *rand.Rand, target int, big bool) *c11AttrSet {
	s := &c11AttrSet{}
	if target < 13 {
		target = 13
	} else if target < 16 && target != 13 {
		target = 16 // 14 and 15 cannot be reached: the smallest attribute takes 3 octets
	}
	rem := target
	ok := func(enc int) bool { return rem-enc == 0 || rem-enc >= 3 }
	// ORIGIN
	o := uint8(r.IntN(3))
	s.add(bgp.NewPathAttributeOrigin(o), c11Attr{flags: 0x40, typ: 1, val: []byte{o}})
	rem -= 4
	// AS_PATH: one or more AS_SEQUENCE segments of four-octet AS numbers, <= 255 each
	nas := 1 + r.IntN(4)
	if big && r.IntN(3) == 0 {
		nas = 1 + r.IntN(1200)
	} else if r.IntN(8) == 0 {
		nas = 60 + r.IntN(8) // value length 252..260 around one segment of 62..64 ASNs
	}
	for {
		segs := (nas + 254) / 255
		vl := 2*segs + 4*nas
		enc := vl + 3
		if vl > 255 {
			enc++
		}
		if nas == 1 || (enc <= rem-0 && ok(enc)) {
			break
		}
		nas--
	}
	{
		var params []bgp.AsPathParamInterface
		var val []byte
		left := nas
		for left > 0 {
			n := left
			if n > 255 {
				n = 255
			}
			as, b := c11U32s(r, n)
			for i := range as { // keep AS numbers plausible (non-zero)
				as[i] = as[i]%4000000000 + 1
				binary.BigEndian.PutUint32(b[4*i:], as[i])
			}
			params = append(params, bgp.NewAs4PathParam(2, as))
			val = append(val, 2, byte(n))
			val = append(val, b...)
			left -= n
		}
		a := c11Attr{flags: 0x40, typ: 2, val: val}
		s.add(bgp.NewPathAttributeAsPath(params), a)
		rem -= a.asIsEnc()
	}
	// small fixed attributes
	if r.IntN(2) == 0 && ok(7) && rem >= 7 {
		v, b := c11U32s(r, 1)
		s.add(bgp.NewPathAttributeLocalPref(v[0]), c11Attr{flags: 0x40, typ: 5, val: b})
		rem -= 7
	}
	if r.IntN(3) == 0 && ok(7) && rem >= 7 {
		v, b := c11U32s(r, 1)
		s.add(bgp.NewPathAttributeMultiExitDisc(v[0]), c11Attr{flags: 0x80, typ: 4, val: b})
		rem -= 7
	}
	if r.IntN(6) == 0 && ok(3) && rem >= 3 {
		s.add(bgp.NewPathAttributeAtomicAggregate(), c11Attr{flags: 0x40, typ: 6})
		rem -= 3
	}
	if r.IntN(6) == 0 && ok(7) && rem >= 7 {
		_, b := c11U32s(r, 1)
		ad, _ := netip.AddrFromSlice(b)
		oa, _ := bgp.NewPathAttributeOriginatorId(ad)
		s.add(oa, c11Attr{flags: 0x80, typ: 9, val: b})
		rem -= 7
	}
	// variable-length fillers, each at most once, in random order
	kinds := []int{0, 1, 2, 3, 4, 5}
	r.Shuffle(len(kinds), func(i, j int) { kinds[i], kinds[j] = kinds[j], kinds[i] })
	for _, k := range kinds {
		if rem < 8 || r.IntN(2) == 0 {
			continue
		}
		unit := []int{4, 4, 8, 12, 1, 1}[k]
		l := c11PickLen(r, rem-4, unit, big)
		ext := l <= 255 && r.IntN(16) == 0 && (k == 0 || k == 3 || k >= 4)
		enc := 3 + l
		if l > 255 || ext {
			enc++
		}
		if !ok(enc) || enc > rem || (k < 4 && l == 0) {
			continue
		}
		switch k {
		case 0: // COMMUNITIES
			vs, b := c11U32s(r, l/4)
			o := bgp.NewPathAttributeCommunities(vs)
			if ext {
				o.Flags |= bgp.BGP_ATTR_FLAG_EXTENDED_LENGTH
			}
			s.add(o, c11Attr{flags: 0xc0, typ: 8, val: b, ext: ext})
		case 1: // CLUSTER_LIST
			_, b := c11U32s(r, l/4)
			as := make([]netip.Addr, l/4)
			for i := range as {
				as[i], _ = netip.AddrFromSlice(b[4*i : 4*i+4])
			}
			o, _ := bgp.NewPathAttributeClusterList(as)
			s.add(o, c11Attr{flags: 0x80, typ: 10, val: b})
		case 2: // EXTENDED COMMUNITIES: transitive two-octet-AS route targets
			n := l / 8
			ecs := make([]bgp.ExtendedCommunityInterface, n)
			b := make([]byte, 8*n)
			for i := range ecs {
				as, la := uint16(r.Uint32()), r.Uint32()
				ecs[i] = bgp.NewTwoOctetAsSpecificExtended(bgp.EC_SUBTYPE_ROUTE_TARGET, as, la, true)
				b[8*i], b[8*i+1] = 0x00, 0x02
				binary.BigEndian.PutUint16(b[8*i+2:], as)
				binary.BigEndian.PutUint32(b[8*i+4:], la)
			}
			s.add(bgp.NewPathAttributeExtendedCommunities(ecs), c11Attr{flags: 0xc0, typ: 16, val: b})
		case 3: // LARGE_COMMUNITY
			n := l / 12
			vs, b := c11U32s(r, 3*n)
			lcs := make([]*bgp.LargeCommunity, n)
			for i := range lcs {
				lcs[i] = bgp.NewLargeCommunity(vs[3*i], vs[3*i+1], vs[3*i+2])
			}
			o := bgp.NewPathAttributeLargeCommunities(lcs)
			if ext {
				o.Flags |= bgp.BGP_ATTR_FLAG_EXTENDED_LENGTH
			}
			s.add(o, c11Attr{flags: 0xc0, typ: 32, val: b, ext: ext})
		default: // attributes gobgp does not know (optional transitive, sometimes partial)
			fl := byte(0xc0)
			if r.IntN(3) == 0 {
				fl = 0xe0
			}
			b := make([]byte, l)
			for i := range b {
				b[i] = byte(r.Uint32())
			}
			gf := bgp.BGPAttrFlag(fl)
			if ext {
				gf |= bgp.BGP_ATTR_FLAG_EXTENDED_LENGTH
			}
			s.add(bgp.NewPathAttributeUnknown(gf, bgp.BGPAttrType(240+k), b), c11Attr{flags: fl, typ: byte(240 + k), val: b, ext: ext})
		}
		rem -= enc
	}
	// exact remainder with one or two unknown attributes
	typ := byte(250)
	for rem > 0 {
		part := rem
		if part == 259 { // 3+255=258 and 4+256=260: 259 needs two attributes
			part = 100
		} else if part > 60000 {
			part = 50000
		}
		if rem-part != 0 && rem-part < 3 {
			part = rem - 3
		}
		l := part - 3
		if l > 255 {
			l = part - 4
		}
		b := make([]byte, l)
		for i := range b {
			b[i] = byte(r.Uint32())
		}
		s.add(bgp.NewPathAttributeUnknown(0xc0, bgp.BGPAttrType(typ), b), c11Attr{flags: 0xc0, typ: typ, val: b})
		typ++
		rem -= part
	}
	s.finish()
	return s
}

// ---- prefixes and NLRI

type c11Pfx struct {
	fam        bgp.Family
	addr       netip.Addr
	bits       int
	rdAdmin    uint16
	rdAssigned uint32
	key        string
}

func c11IsVPN(f bgp.Family) bool   { return f.Safi() == c11SafiVPN }
func c11IsLabel(f bgp.Family) bool { return f.Safi() == c11SafiLabel || f.Safi() == c11SafiVPN }

func c11NewPfx(fam bgp.Family, addr netip.Addr, bits int, rdAdmin uint16, rdAssigned uint32) *c11Pfx {
	p := &c11Pfx{fam: fam, bits: bits, rdAdmin: rdAdmin, rdAssigned: rdAssigned}
	p.addr = netip.PrefixFrom(addr, bits).Masked().Addr()
	k := []byte{}
	if c11IsVPN(fam) {
		k = append(k, p.rd()...)
	}
	k = append(k, byte(bits))
	k = append(k, p.addr.AsSlice()[:(bits+7)/8]...)
	p.key = string(k)
	return p
}

func (p *c11Pfx) rd() []byte {
	b := make([]byte, 8) // type 0: two-octet AS administrator, four-octet assigned number
	binary.BigEndian.PutUint16(b[2:], p.rdAdmin)
	binary.BigEndian.PutUint32(b[4:], p.rdAssigned)
	return b
}

func c11LabelBytes(labels []uint32) []byte {
	b := make([]byte, 0, 3*len(labels))
	for i, l := range labels {
		v := l << 4
		if i == len(labels)-1 {
			v |= 1
		}
		b = append(b, byte(v>>16), byte(v>>8), byte(v))
	}
	return b
}

// wireLen is the length of the NLRI on the wire without a path identifier.
func (p *c11Pfx) wireLen(labels []uint32) int {
	n := 1 + (p.bits+7)/8
	if c11IsLabel(p.fam) {
		n += 3 * len(labels)
	}
	if c11IsVPN(p.fam) {
		n += 8
	}
	return n
}

func (p *c11Pfx) nlri(labels []uint32) bgp.NLRI {
	pfx := netip.PrefixFrom(p.addr, p.bits)
	switch {
	case c11IsVPN(p.fam):
		n, _ := bgp.NewLabeledVPNIPAddrPrefix(pfx, *bgp.NewMPLSLabelStack(labels...), bgp.NewRouteDistinguisherTwoOctetAS(p.rdAdmin, p.rdAssigned))
		return n
	case c11IsLabel(p.fam):
		n, _ := bgp.NewLabeledIPAddrPrefix(pfx, *bgp.NewMPLSLabelStack(labels...))
		return n
	}
	n, _ := bgp.NewIPAddrPrefix(pfx)
	return n
}

// c11SeqPfx returns the i-th prefix of a sequence of pairwise distinct prefixes of the given
// length (bits >= 16 for IPv4 families, >= 48 for IPv6 families; i < 65536 resp. 2^32).
func c11SeqPfx(fam bgp.Family, base uint32, i int, bits int, rdAdmin uint16, rdAssigned uint32) *c11Pfx {
	if fam.Afi() == bgp.AFI_IP {
		v := (base + uint32(i)) & (1<<uint(bits) - 1)
		if bits == 32 {
			v = base + uint32(i)
		}
		var b [4]byte
		binary.BigEndian.PutUint32(b[:], v<<uint(32-bits))
		return c11NewPfx(fam, netip.AddrFrom4(b), bits, rdAdmin, rdAssigned)
	}
	var b [16]byte
	b[0], b[1] = 0x20, 0x01
	binary.BigEndian.PutUint32(b[2:], base+uint32(i))
	binary.BigEndian.PutUint64(b[8:], uint64(base)*0x9E3779B97F4A7C15+uint64(i)*0xD1B54A32D192ED03)
	return c11NewPfx(fam, netip.AddrFrom16(b), bits, rdAdmin, rdAssigned)
}

func c11RandPfx(r *rand.Rand, fam bgp.Family) *c11Pfx {
	var rdA uint16
	var rdN uint32
	if c11IsVPN(fam) {
		rdA, rdN = uint16(65000+r.IntN(2)), uint32(1+r.IntN(2))
	}
	if fam.Afi() == bgp.AFI_IP {
		var b [4]byte
		binary.BigEndian.PutUint32(b[:], r.Uint32())
		bits := r.IntN(33)
		if r.IntN(3) != 0 {
			bits = 16 + r.IntN(17)
		}
		return c11NewPfx(fam, netip.AddrFrom4(b), bits, rdA, rdN)
	}
	var b [16]byte
	binary.BigEndian.PutUint64(b[:], r.Uint64())
	binary.BigEndian.PutUint64(b[8:], r.Uint64())
	bits := r.IntN(129)
	if r.IntN(3) != 0 {
		bits = 32 + r.IntN(33)
	}
	return c11NewPfx(fam, netip.AddrFrom16(b), bits, rdA, rdN)
}

// ---- changes

const (
	c11Announce = iota
	c11Withdraw
	c11EOR
	c11Nil
)

// next hop carriage of an IPv4 unicast route with an IPv4 next hop
const (
	c11NHAttr   = iota // NEXT_HOP attribute (the usual case)
	c11NHMPOnly        // only an MP_REACH_NLRI(AFI 1/SAFI 1) attribute, as learned from an MP-only peer
	c11NHBoth          // both, consistent
)

type c11Change struct {
	kind   int
	fam    bgp.Family
	pfx    *c11Pfx
	id     uint32
	labels []uint32
	set    *c11AttrSet
	nhs    []netip.Addr
	nhMode int
	shape  int // how the Path object is built (plain, MP_REACH last, derived by Clone+set/del)
	// prepend: the leftmost AS number is put in front by Path.PrependAsn on a clone, as
	// UpdatePathAttrs does for every route exported to an eBGP peer
	prepend bool
	hash   uint64
	path   *Path
	nl     bgp.NLRI
}

// classic reports whether the route is announced in the UPDATE NLRI field with a NEXT_HOP attribute.
func (c *c11Change) classic() bool { return c.fam == bgp.RF_IPv4_UC && c.nhs[0].Is4() }

// class names the code path of the packer the route takes.
func (c *c11Change) class() string {
	switch {
	case c.fam != bgp.RF_IPv4_UC:
		return "packerMP"
	case c.kind == c11Withdraw || c.kind == c11EOR || c.classic():
		return "packerV4"
	}
	return "packerV4.v6nexthop"
}

func (c *c11Change) nhWire() []byte {
	var b []byte
	for _, a := range c.nhs {
		b = append(b, a.AsSlice()...)
	}
	return b
}

// singleSize returns the size of an UPDATE carrying only this route: lo with the shortest
// attribute headers, hi with learned header flags kept.
func (c *c11Change) singleSize(addpath bool) (lo, hi int) {
	nl := c.pfx.wireLen(c.labels)
	if addpath {
		nl += 4
	}
	if c.classic() {
		return 23 + c.set.lo + 7 + nl, 23 + c.set.hi + 7 + nl
	}
	nh := len(c.nhWire())
	if c11IsVPN(c.fam) {
		nh += 8 * len(c.nhs)
	}
	v := 2 + 1 + 1 + nh + 1 + nl
	mp := v + 3
	if v > 255 {
		mp++
	}
	return 23 + c.set.lo + mp, 23 + c.set.hi + mp
}

func (c *c11Change) val() c11Val {
	v := c11Val{attrs: c.set.canon, nh: string(c.nhWire())}
	if c11IsLabel(c.fam) {
		v.label = string(c11LabelBytes(c.labels))
	}
	return v
}

var c11Time = time.Unix(100, 0)

// build creates the gobgp Path of the change.
func (c *c11Change) build() {
	switch c.kind {
	case c11Nil:
		return
	case c11EOR:
		c.path = NewEOR(c.fam)
		return
	}
	c.nl = c.pfx.nlri(c.labels)
	pn := bgp.PathNLRI{NLRI: c.nl}
	if c.kind == c11Withdraw && c.set == nil {
		// as ProcessMessage builds a received withdrawal
		c.path = NewPath(c.fam, verifSrcPeer, pn, true, []bgp.PathAttributeInterface{}, c11Time, false)
		c.path.localID = c.id
		return
	}
	attrs := make([]bgp.PathAttributeInterface, 0, len(c.set.objs)+2)
	attrs = append(attrs, c.set.objs...)
	var reach bgp.PathAttributeInterface
	if !c.classic() || c.nhMode != c11NHAttr {
		reach, _ = bgp.NewPathAttributeMpReachNLRI(c.fam, []bgp.PathNLRI{{NLRI: c.nl, ID: c.id}}, c.nhs...)
	}
	if c.classic() && c.nhMode != c11NHMPOnly {
		nh, _ := bgp.NewPathAttributeNextHop(c.nhs[0])
		attrs = append(attrs, nh)
	}
	if c.shape%2 == 0 {
		// attributes in type order, MP_REACH_NLRI in its place
		if reach != nil {
			attrs = append(attrs, reach)
		}
		sort.SliceStable(attrs, func(i, j int) bool { return attrs[i].GetType() < attrs[j].GetType() })
	} else {
		// as ProcessMessage does: received order, MP_REACH_NLRI last
		sort.SliceStable(attrs, func(i, j int) bool { return attrs[i].GetType() < attrs[j].GetType() })
		if reach != nil {
			attrs = append(attrs, reach)
		}
	}
	derived := c.shape >= 2
	var extraDel []bgp.BGPAttrType
	var setLater bgp.PathAttributeInterface
	if derived {
		// the stored route differs from the advertised one: policy/export processing replaced
		// COMMUNITIES and removed an attribute on a clone (Path.parent chain).
		if c.set.comm >= 0 {
			for i, a := range attrs {
				if a.GetType() == bgp.BGP_ATTR_TYPE_COMMUNITIES {
					setLater = a
					attrs[i] = bgp.NewPathAttributeCommunities([]uint32{0xffff0001, 7})
				}
			}
		}
		has := func(t bgp.BGPAttrType) bool {
			for _, a := range attrs {
				if a.GetType() == t {
					return true
				}
			}
			return false
		}
		if !has(bgp.BGP_ATTR_TYPE_MULTI_EXIT_DISC) {
			attrs = append(attrs, bgp.NewPathAttributeMultiExitDisc(12345))
			extraDel = append(extraDel, bgp.BGP_ATTR_TYPE_MULTI_EXIT_DISC)
		}
	}
	var firstAS uint32
	if c.prepend {
		for i, a := range attrs {
			if a.GetType() == bgp.BGP_ATTR_TYPE_AS_PATH {
				firstAS, attrs[i] = c11AsPathWithoutFirst(c.set)
			}
		}
	}
	p := NewPath(c.fam, verifSrcPeer, pn, false, attrs, c11Time, false)
	p.localID = c.id
	if c.prepend {
		p = p.Clone(false)
		p.PrependAsn(firstAS, 1, false)
	}
	if derived {
		p = p.Clone(false)
		if setLater != nil {
			p.setPathAttr(setLater)
		}
		for _, t := range extraDel {
			p.delPathAttr(t)
		}
	}
	if c.kind == c11Withdraw {
		// as the table produces a withdrawal: a clone of the announced route
		p = p.Clone(true)
	}
	if c.hash != 0 {
		p.SetHash(c.hash)
	}
	c.path = p
}

// c11AsPathWithoutFirst returns the leftmost AS number of the set's AS_PATH and a gobgp AS_PATH
// attribute holding the rest (rebuilt from the expected octets: AS_SEQUENCE segments only).
func c11AsPathWithoutFirst(set *c11AttrSet) (uint32, *bgp.PathAttributeAsPath) {
	var val []byte
	for _, a := range set.exp {
		if a.typ == 2 {
			val = a.val
		}
	}
	var first uint32
	var params []bgp.AsPathParamInterface
	for seg := 0; len(val) >= 2; seg++ {
		n := int(val[1])
		as := make([]uint32, n)
		for i := range as {
			as[i] = binary.BigEndian.Uint32(val[2+4*i:])
		}
		if seg == 0 {
			first, as = as[0], as[1:]
		}
		if len(as) > 0 {
			params = append(params, bgp.NewAs4PathParam(val[0], as))
		}
		val = val[2+4*n:]
	}
	if params == nil {
		params = []bgp.AsPathParamInterface{}
	}
	return first, bgp.NewPathAttributeAsPath(params)
}
