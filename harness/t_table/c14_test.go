package table

// C14 — the 2-octet/4-octet AS transition (RFC 6793) loses nothing.
//
// Oracle 1 (round trip): a generated RFC-valid AS_PATH/AGGREGATOR goes through the real send path
// (UpdatePathAttrs2ByteAs + UpdatePathAggregator2ByteAs, BGPMessage.Serialize), the bytes are checked
// by an independent RFC 4271/6793 walker written here (c14Walk/c14Segments) and compared with an
// independent down-conversion (c14Down); then the real receive path of a NEW speaker behind a
// 2-octet session (ParseBGPMessage with Use2ByteAS -> validateAsPathValueBytes, ValidateUpdateMsg,
// UpdatePathAttrs4ByteAs + UpdatePathAggregator4ByteAs) must give back the original path
// (4-octet members of confederation segments replaced by AS_TRANS: the stated exception).
//
// Oracle 2 (arbitrary pairs): (AS_PATH, AS4_PATH) pairs as an OLD speaker chain could deliver them
// are reconstructed by the real code and compared with an independent RFC 6793 section 4.2.3
// reference (c14Reconstruct); no empty / over-long segment, no lengthening, over-long AS4_PATH
// ignored, no panic.
//
// Paths are compared up to the segmentation of adjacent AS_SEQUENCE segments (c14Canon): RFC 4271
// gives [SEQ a][SEQ b] and [SEQ a b] the same meaning.

import (
	"bytes"
	"encoding/binary"
	"encoding/hex"
	"fmt"
	"math/rand/v2"
	"net/netip"
	"reflect"
	"strings"
	"testing"

	"github.com/osrg/gobgp/v4/internal/verif/vlib"
	"github.com/osrg/gobgp/v4/pkg/packet/bgp"
)

const (
	c14SET      = 1
	c14SEQ      = 2
	c14CONFSEQ  = 3
	c14CONFSET  = 4
	c14ASTRANS  = 23456
	c14AttrASP  = 2
	c14AttrAGG  = 7
	c14AttrAS4P = 17
	c14AttrAS4A = 18
)

type c14Seg struct {
	T  uint8
	AS []uint32
}

type c14Path []c14Seg

func (p c14Path) String() string {
	var sb strings.Builder
	for _, s := range p {
		name := map[uint8]string{1: "SET", 2: "SEQ", 3: "CSEQ", 4: "CSET"}[s.T]
		if len(s.AS) > 8 {
			fmt.Fprintf(&sb, "[%s %d: %v ... %v]", name, len(s.AS), s.AS[:3], s.AS[len(s.AS)-3:])
		} else {
			fmt.Fprintf(&sb, "[%s %v]", name, s.AS)
		}
	}
	if len(p) == 0 {
		return "[]"
	}
	return sb.String()
}

func c14IsConfed(t uint8) bool { return t == c14CONFSEQ || t == c14CONFSET }

// c14Count is the number of AS numbers by RFC 4271 9.1.2.2 / RFC 5065 counting (what RFC 6793
// 4.2.3 prescribes): a SEQUENCE counts its members, a SET counts 1, confederation segments 0.
func c14Count(p c14Path) int {
	n := 0
	for _, s := range p {
		switch s.T {
		case c14SEQ:
			n += len(s.AS)
		case c14SET:
			n++
		}
	}
	return n
}

// c14Canon merges adjacent AS_SEQUENCE (and adjacent AS_CONFED_SEQUENCE) segments.
func c14Canon(p c14Path) c14Path {
	var out c14Path
	for _, s := range p {
		if n := len(out); n > 0 && out[n-1].T == s.T && (s.T == c14SEQ || s.T == c14CONFSEQ) {
			out[n-1].AS = append(append([]uint32{}, out[n-1].AS...), s.AS...)
			continue
		}
		out = append(out, c14Seg{s.T, append([]uint32{}, s.AS...)})
	}
	return out
}

func c14Equal(a, b c14Path) bool {
	a, b = c14Canon(a), c14Canon(b)
	if len(a) != len(b) {
		return false
	}
	for i := range a {
		if a[i].T != b[i].T || len(a[i].AS) != len(b[i].AS) {
			return false
		}
		for j := range a[i].AS {
			if a[i].AS[j] != b[i].AS[j] {
				return false
			}
		}
	}
	return true
}

// c14Shape reports "" for a structurally sound path, else what is wrong with it.
func c14Shape(p c14Path) string {
	for _, s := range p {
		switch {
		case s.T < 1 || s.T > 4:
			return "bad-seg-type"
		case len(s.AS) == 0:
			return "empty-seg"
		case len(s.AS) > 255:
			return "overlong-seg"
		}
	}
	return ""
}

// ---- independent references (RFC 6793 4.2.2 and 4.2.3)

// c14Down: what a NEW speaker sends to an OLD one. q is the AS4_PATH content (AS path information
// without confederation segments); needQ says whether RFC 6793 requires AS4_PATH to be present
// (some non-confederation member is not mappable to 2 octets).
func c14Down(p c14Path) (p2 c14Path, q c14Path, needQ bool, confed4 bool) {
	for _, s := range p {
		t := c14Seg{T: s.T}
		for _, a := range s.AS {
			if a > 0xffff {
				t.AS = append(t.AS, c14ASTRANS)
				if c14IsConfed(s.T) {
					confed4 = true
				} else {
					needQ = true
				}
			} else {
				t.AS = append(t.AS, a)
			}
		}
		p2 = append(p2, t)
		if !c14IsConfed(s.T) {
			q = append(q, c14Seg{s.T, append([]uint32{}, s.AS...)})
		}
	}
	return
}

// c14Reconstruct: RFC 6793 4.2.3 + section 6. p is the received AS_PATH (leading confederation
// run, then SEQ/SET segments), q the received AS4_PATH. Confederation segments in q are discarded;
// if q then counts more AS numbers than p it is ignored; otherwise the leading count(p)-count(q)
// AS numbers of p (whole SETs, SEQUENCEs cut where needed; leading confederation segments always)
// are prepended to q.
func c14Reconstruct(p, q c14Path) (res c14Path, ignored bool, keep int) {
	var q2 c14Path
	for _, s := range q {
		if !c14IsConfed(s.T) {
			q2 = append(q2, s)
		}
	}
	np, nq := c14Count(p), c14Count(q2)
	if nq > np {
		return c14Canon(p), true, 0
	}
	keep = np - nq
	left := keep
	for _, s := range p {
		if c14IsConfed(s.T) {
			// valid shape: confederation segments are leading, so they are adjacent to
			// the prepended part (or leading) and SHALL be prepended
			res = append(res, s)
			continue
		}
		if left == 0 {
			break
		}
		switch s.T {
		case c14SET:
			res = append(res, s)
			left--
		case c14SEQ:
			if len(s.AS) <= left {
				res = append(res, s)
				left -= len(s.AS)
			} else {
				res = append(res, c14Seg{c14SEQ, s.AS[:left]})
				left = 0
			}
		}
	}
	res = append(res, q2...)
	return c14Canon(res), false, keep
}

// ---- independent wire walker

type c14WireAttr struct {
	Flags byte
	Type  byte
	Val   []byte
}

func c14Walk(b []byte) ([]c14WireAttr, error) {
	if len(b) < 23 {
		return nil, fmt.Errorf("short message (%d)", len(b))
	}
	for i := 0; i < 16; i++ {
		if b[i] != 0xff {
			return nil, fmt.Errorf("bad marker")
		}
	}
	if int(binary.BigEndian.Uint16(b[16:18])) != len(b) {
		return nil, fmt.Errorf("header length %d, have %d bytes", binary.BigEndian.Uint16(b[16:18]), len(b))
	}
	if b[18] != 2 {
		return nil, fmt.Errorf("not an UPDATE")
	}
	p := 19
	wl := int(binary.BigEndian.Uint16(b[p:]))
	p += 2 + wl
	if p+2 > len(b) {
		return nil, fmt.Errorf("withdrawn routes overrun")
	}
	al := int(binary.BigEndian.Uint16(b[p:]))
	p += 2
	if p+al > len(b) {
		return nil, fmt.Errorf("attributes overrun")
	}
	a := b[p : p+al]
	var out []c14WireAttr
	for len(a) > 0 {
		if len(a) < 3 {
			return nil, fmt.Errorf("attribute header short")
		}
		fl, ty := a[0], a[1]
		var l, h int
		if fl&0x10 != 0 {
			if len(a) < 4 {
				return nil, fmt.Errorf("attribute header short")
			}
			l, h = int(binary.BigEndian.Uint16(a[2:4])), 4
		} else {
			l, h = int(a[2]), 3
		}
		if h+l > len(a) {
			return nil, fmt.Errorf("attribute %d overruns (len %d, left %d)", ty, l, len(a)-h)
		}
		out = append(out, c14WireAttr{fl, ty, a[h : h+l]})
		a = a[h+l:]
	}
	return out, nil
}

// c14Segments decodes an AS_PATH / AS4_PATH value with asSize-octet members and checks RFC 4271
// well-formedness: type in 1..4, count 1..255, lengths consistent.
func c14Segments(v []byte, asSize int) (c14Path, error) {
	var out c14Path
	for len(v) > 0 {
		if len(v) < 2 {
			return nil, fmt.Errorf("segment header short")
		}
		t, n := v[0], int(v[1])
		if t < 1 || t > 4 {
			return nil, fmt.Errorf("segment type %d", t)
		}
		if n == 0 {
			return nil, fmt.Errorf("segment with zero members")
		}
		if 2+n*asSize > len(v) {
			return nil, fmt.Errorf("segment of %d members overruns the attribute", n)
		}
		s := c14Seg{T: t}
		for i := 0; i < n; i++ {
			if asSize == 2 {
				s.AS = append(s.AS, uint32(binary.BigEndian.Uint16(v[2+2*i:])))
			} else {
				s.AS = append(s.AS, binary.BigEndian.Uint32(v[2+4*i:]))
			}
		}
		out = append(out, s)
		v = v[2+n*asSize:]
	}
	return out, nil
}

// ---- generators

func c14ASN(r *rand.Rand, p4 int) uint32 {
	if r.IntN(100) < p4 {
		switch r.IntN(4) {
		case 0:
			return 65536
		case 1:
			return 0xffffffff - uint32(r.IntN(3))
		default:
			return 65536 + uint32(r.IntN(400000))
		}
	}
	switch r.IntN(12) {
	case 0:
		return 65535
	case 1:
		return c14ASTRANS
	case 2:
		return 1
	}
	return 100 + uint32(r.IntN(64000))
}

func c14SegLen(r *rand.Rand) int {
	switch r.IntN(20) {
	case 0:
		return 255
	case 1:
		return 250 + r.IntN(6)
	case 2:
		return 120 + r.IntN(20)
	}
	return 1 + r.IntN(6)
}

func c14GenSeg(r *rand.Rand, t uint8, n, p4 int) c14Seg {
	s := c14Seg{T: t}
	for i := 0; i < n; i++ {
		s.AS = append(s.AS, c14ASN(r, p4))
	}
	return s
}

// c14GenPath: optional leading confederation run, then 0..4 SEQ/SET segments of 1..255 members.
func c14GenPath(r *rand.Rand, p4 int) c14Path {
	var p c14Path
	if r.IntN(5) == 0 {
		cp4 := 0
		if r.IntN(4) == 0 {
			cp4 = 40
		}
		for i := 1 + r.IntN(2); i > 0; i-- {
			t := uint8(c14CONFSEQ)
			if r.IntN(4) == 0 {
				t = c14CONFSET
			}
			p = append(p, c14GenSeg(r, t, 1+r.IntN(4), cp4))
		}
	}
	nseg := r.IntN(5)
	if nseg == 0 && r.IntN(4) != 0 {
		nseg = 1
	}
	last := uint8(0)
	for i := 0; i < nseg; i++ {
		t := uint8(c14SEQ)
		if r.IntN(4) == 0 {
			t = c14SET
		}
		n := c14SegLen(r)
		if t == c14SEQ && last == c14SEQ && r.IntN(5) != 0 {
			// a second SEQUENCE normally only follows a full one
			p[len(p)-1] = c14GenSeg(r, c14SEQ, 255, p4)
		}
		p = append(p, c14GenSeg(r, t, n, p4))
		last = t
	}
	return p
}

// ---- conversion between the model and gobgp attributes

func c14Attr4(p c14Path) *bgp.PathAttributeAsPath {
	v := make([]bgp.AsPathParamInterface, 0, len(p))
	for _, s := range p {
		v = append(v, bgp.NewAs4PathParam(s.T, append([]uint32{}, s.AS...)))
	}
	return bgp.NewPathAttributeAsPath(v)
}

func c14Attr2(p c14Path) *bgp.PathAttributeAsPath {
	v := make([]bgp.AsPathParamInterface, 0, len(p))
	for _, s := range p {
		as := make([]uint16, len(s.AS))
		for i, a := range s.AS {
			as[i] = uint16(a)
		}
		v = append(v, bgp.NewAsPathParam(s.T, as))
	}
	return bgp.NewPathAttributeAsPath(v)
}

func c14AttrAs4(q c14Path) *bgp.PathAttributeAs4Path {
	v := make([]*bgp.As4PathParam, 0, len(q))
	for _, s := range q {
		v = append(v, bgp.NewAs4PathParam(s.T, append([]uint32{}, s.AS...)))
	}
	return bgp.NewPathAttributeAs4Path(v)
}

// c14FromAttr reads an AS_PATH attribute back into the model; all4 tells whether every segment
// is held in the 4-octet representation (what the rest of gobgp requires after the receive path).
func c14FromAttr(a *bgp.PathAttributeAsPath) (p c14Path, all4 bool) {
	all4 = true
	for _, v := range a.Value {
		switch x := v.(type) {
		case *bgp.As4PathParam:
			p = append(p, c14Seg{x.Type, append([]uint32{}, x.AS...)})
		case *bgp.AsPathParam:
			all4 = false
			s := c14Seg{T: x.Type}
			for _, a := range x.AS {
				s.AS = append(s.AS, uint32(a))
			}
			p = append(p, s)
		}
	}
	return
}

type c14Agg struct {
	Present bool
	AS      uint32
	Addr    netip.Addr
}

func c14FindAttrs(u *bgp.BGPUpdate) (asp []*bgp.PathAttributeAsPath, as4 []*bgp.PathAttributeAs4Path, agg []*bgp.PathAttributeAggregator, agg4 []*bgp.PathAttributeAs4Aggregator) {
	for _, a := range u.PathAttributes {
		switch x := a.(type) {
		case *bgp.PathAttributeAsPath:
			asp = append(asp, x)
		case *bgp.PathAttributeAs4Path:
			as4 = append(as4, x)
		case *bgp.PathAttributeAggregator:
			agg = append(agg, x)
		case *bgp.PathAttributeAs4Aggregator:
			agg4 = append(agg4, x)
		}
	}
	return
}

func c14TypeList(u *bgp.BGPUpdate) string {
	var s []string
	for _, a := range u.PathAttributes {
		s = append(s, fmt.Sprint(uint8(a.GetType())))
	}
	return strings.Join(s, ",")
}

var c14NLRI = func() bgp.PathNLRI {
	n, _ := bgp.NewIPAddrPrefix(netip.MustParsePrefix("10.14.0.0/24"))
	return bgp.PathNLRI{NLRI: n}
}()

var c14Fams = map[bgp.Family]bgp.BGPAddPathMode{bgp.RF_IPv4_UC: 0}

// c14Serialize serialises like fsm.sendMessageloop (no Use2ByteAS option: the parameter types
// decide), switching to the RFC 8654 extended-message option when the message needs it.
func c14Serialize(m *bgp.BGPMessage) (b []byte, ext bool, err error) {
	m.Header.Len = 0
	b, err = m.Serialize(&bgp.MarshallingOption{})
	if err != nil && strings.Contains(err.Error(), "too long message") {
		m.Header.Len = 0
		b, err = m.Serialize(&bgp.MarshallingOption{ExtendedMessage: true})
		ext = true
	}
	return
}

// c14PathShapeKey is the input class used in violation keys: a leading confederation run, else the
// type of the leading segment.
func c14PathShapeKey(p c14Path) string {
	if len(p) == 0 {
		return "empty-path"
	}
	if c14IsConfed(p[0].T) {
		return "confed-run"
	}
	if p[0].T == c14SET {
		return "lead-set"
	}
	return "lead-seq"
}

func TestVerifC14(t *testing.T) {
	rec := vlib.Open("C14")
	defer rec.Close()
	total := vlib.Scale(200000, 4000000)
	vlib.Cases(total, func(idx int) {
		r := vlib.CaseRand("c14", idx)
		if r.IntN(10) < 6 {
			c14RoundTrip(rec, r, idx)
		} else {
			c14Pair(rec, r, idx)
		}
	})
}

// c14OtherAttrs: attributes around AS_PATH whose presence/positions must not matter and which
// must survive unchanged.
func c14OtherAttrs(r *rand.Rand) (pre, post []bgp.PathAttributeInterface) {
	pre = append(pre, bgp.NewPathAttributeOrigin(uint8(r.IntN(3))))
	nh, _ := bgp.NewPathAttributeNextHop(netip.MustParseAddr("192.0.2.1"))
	post = append(post, nh)
	if r.IntN(2) == 0 {
		post = append(post, bgp.NewPathAttributeMultiExitDisc(uint32(r.IntN(1000))))
	}
	if r.IntN(3) == 0 {
		post = append(post, bgp.NewPathAttributeLocalPref(uint32(r.IntN(1000))))
	}
	if r.IntN(3) == 0 {
		post = append(post, bgp.NewPathAttributeCommunities([]uint32{uint32(r.IntN(1 << 30))}))
	}
	return
}

func c14RoundTrip(rec *vlib.Rec, r *rand.Rand, idx int) {
	p4 := []int{0, 10, 30, 60, 100}[r.IntN(5)]
	orig := c14GenPath(r, p4)
	var agg c14Agg
	if r.IntN(3) == 0 {
		agg = c14Agg{true, c14ASN(r, 50), netip.AddrFrom4([4]byte{192, 0, 2, byte(1 + r.IntN(200))})}
	}
	shape := c14PathShapeKey(orig)
	wit := func() any {
		return map[string]any{"case": idx, "mode": "roundtrip", "as_path": orig.String(), "aggregator": fmt.Sprint(agg)}
	}
	rec.Eval()
	rec.Count("roundtrip_paths", 1)
	p2ref, qref, needQ, confed4 := c14Down(orig)

	pre, post := c14OtherAttrs(r)
	origAttr := c14Attr4(orig)
	attrs := append(append([]bgp.PathAttributeInterface{}, pre...), origAttr)
	attrs = append(attrs, post...)
	if agg.Present {
		a, err := bgp.NewPathAttributeAggregator(agg.AS, agg.Addr)
		if err != nil {
			panic(err)
		}
		attrs = append(attrs, a)
	}
	shared := append([]bgp.PathAttributeInterface{}, attrs...) // what the Adj-RIB-Out path still references
	msg := bgp.NewBGPUpdateMessage(nil, attrs, []bgp.PathNLRI{c14NLRI})
	body := msg.Body.(*bgp.BGPUpdate)
	typesBefore := c14TypeList(body)

	// ---- send side
	if rec.Guard("c14:down", wit, func() {
		UpdatePathAttrs2ByteAs(body)
		UpdatePathAggregator2ByteAs(body)
	}) {
		return
	}
	// the attribute objects shared with the path in the RIB must not have been modified
	if got, _ := c14FromAttr(origAttr); !reflect.DeepEqual(c14Canon(got), c14Canon(orig)) || len(got) != len(orig) {
		rec.Violation("c14:down:mutates-shared-as-path", fmt.Sprintf("down-conversion modified the caller's AS_PATH attribute: %s -> %s", orig, got), wit())
	}
	for i, a := range shared {
		if attrs[i] != a {
			rec.Violation("c14:down:mutates-shared-attr-list", fmt.Sprintf("down-conversion replaced element %d of the caller's attribute slice", i), wit())
			break
		}
	}
	wire, ext, err := c14Serialize(msg)
	if err != nil {
		rec.Violation("c14:down:serialize-error:"+shape, "down-converted UPDATE cannot be serialised: "+err.Error(), wit())
		return
	}
	if ext {
		rec.Count("extended_message", 1)
	}
	witw := func() any {
		m := wit().(map[string]any)
		if len(wire) <= 400 {
			m["wire"] = hex.EncodeToString(wire)
		}
		return m
	}
	// independent well-formedness of what goes on the wire
	wattrs, err := c14Walk(wire)
	if err != nil {
		rec.Violation("c14:down:framing", "independent walker rejects the UPDATE: "+err.Error(), witw())
		return
	}
	var wAsp, wAs4, wAgg, wAgg4 []c14WireAttr
	for _, a := range wattrs {
		switch a.Type {
		case c14AttrASP:
			wAsp = append(wAsp, a)
		case c14AttrAS4P:
			wAs4 = append(wAs4, a)
		case c14AttrAGG:
			wAgg = append(wAgg, a)
		case c14AttrAS4A:
			wAgg4 = append(wAgg4, a)
		}
	}
	if len(wAsp) != 1 {
		rec.Violation("c14:down:as-path-count", fmt.Sprintf("%d AS_PATH attributes on the wire", len(wAsp)), witw())
		return
	}
	if wAsp[0].Flags&0xe0 != 0x40 {
		rec.Violation("c14:down:as-path-flags", fmt.Sprintf("AS_PATH flags %#x", wAsp[0].Flags), witw())
	}
	sent2, err := c14Segments(wAsp[0].Val, 2)
	if err != nil {
		rec.Violation("c14:down:malformed-as-path:"+shape, "2-octet AS_PATH on the wire is malformed: "+err.Error(), witw())
		return
	}
	if !reflect.DeepEqual(sent2, p2ref) && !(len(sent2) == 0 && len(p2ref) == 0) {
		rec.Violation("c14:down:as-path-content:"+shape, fmt.Sprintf("sent AS_PATH %s, RFC 6793 4.2.2 gives %s", sent2, p2ref), witw())
	}
	switch {
	case len(wAs4) > 1:
		rec.Violation("c14:down:as4-path-count", fmt.Sprintf("%d AS4_PATH attributes on the wire", len(wAs4)), witw())
		return
	case len(wAs4) == 0 && needQ:
		rec.Violation("c14:down:as4-path-missing:"+shape, "non-mappable AS numbers in the path but no AS4_PATH sent", witw())
	case len(wAs4) == 1:
		rec.Count("as4_path_sent", 1)
		if wAs4[0].Flags&0xe0 != 0xc0 {
			rec.Violation("c14:down:as4-path-flags", fmt.Sprintf("AS4_PATH flags %#x, must be optional transitive", wAs4[0].Flags), witw())
		}
		sent4, err := c14Segments(wAs4[0].Val, 4)
		if err != nil {
			rec.Violation("c14:down:malformed-as4-path:"+shape, "AS4_PATH on the wire is malformed: "+err.Error(), witw())
			return
		}
		for _, s := range sent4 {
			if c14IsConfed(s.T) {
				rec.Violation("c14:down:as4-path-confed", "AS4_PATH carries a confederation segment: "+sent4.String(), witw())
				break
			}
		}
		if !reflect.DeepEqual(sent4, qref) && !(len(sent4) == 0 && len(qref) == 0) {
			rec.Violation("c14:down:as4-path-content:"+shape, fmt.Sprintf("sent AS4_PATH %s, RFC 6793 4.2.2 gives %s", sent4, qref), witw())
		}
		if len(sent4) == 0 {
			rec.Count("as4_path_sent_empty", 1)
		}
		if !needQ && !confed4 {
			rec.Count("as4_path_sent_unneeded", 1)
		}
	}
	// AGGREGATOR on the wire
	if agg.Present {
		rec.Count("aggregators", 1)
		ok := len(wAgg) == 1 && len(wAgg[0].Val) == 6
		if ok {
			was := uint32(binary.BigEndian.Uint16(wAgg[0].Val))
			want := agg.AS
			if want > 0xffff {
				want = c14ASTRANS
			}
			ok = was == want && bytes.Equal(wAgg[0].Val[2:], agg.Addr.AsSlice()) && wAgg[0].Flags&0xe0 == 0xc0
		}
		if !ok {
			rec.Violation("c14:down:aggregator", "AGGREGATOR sent to the 2-octet peer is not the 6-octet form with AS_TRANS substitution", witw())
		}
		if agg.AS > 0xffff {
			rec.Count("aggregators_as4", 1)
			ok := len(wAgg4) == 1 && len(wAgg4[0].Val) == 8 && binary.BigEndian.Uint32(wAgg4[0].Val) == agg.AS &&
				bytes.Equal(wAgg4[0].Val[4:], agg.Addr.AsSlice()) && wAgg4[0].Flags&0xe0 == 0xc0
			if !ok {
				rec.Violation("c14:down:as4-aggregator", "AS4_AGGREGATOR missing or wrong for a 4-octet aggregator AS", witw())
			}
		} else if len(wAgg4) != 0 {
			rec.Violation("c14:down:as4-aggregator-unneeded", "AS4_AGGREGATOR sent although the aggregator AS is mappable", witw())
		}
	} else if len(wAgg)+len(wAgg4) != 0 {
		rec.Violation("c14:down:aggregator-invented", "AGGREGATOR/AS4_AGGREGATOR sent for a route without aggregator", witw())
	}

	// ---- receive side: a NEW speaker behind a 2-octet session
	var rmsg *bgp.BGPMessage
	if rec.Guard("c14:parse", witw, func() {
		rmsg, err = bgp.ParseBGPMessage(wire, &bgp.MarshallingOption{Use2ByteAS: true, ExtendedMessage: ext})
	}) {
		return
	}
	if err != nil {
		rec.Violation("c14:down:rejected-by-parser:"+shape, "gobgp's own parser (validateAsPathValueBytes etc.) rejects the down-converted UPDATE: "+err.Error(), witw())
		return
	}
	rbody := rmsg.Body.(*bgp.BGPUpdate)
	isEBGP, isConfed := false, false
	if len(orig) > 0 && !c14IsConfed(orig[0].T) && r.IntN(2) == 0 {
		isEBGP = true
	} else if len(orig) > 0 && orig[0].T == c14CONFSEQ && r.IntN(2) == 0 {
		isEBGP, isConfed = true, true
	}
	if ok, verr := bgp.ValidateUpdateMsg(rbody, c14Fams, isEBGP, isConfed, false); !ok {
		rec.Violation("c14:down:rejected-by-validate:"+shape, fmt.Sprintf("ValidateUpdateMsg rejects the down-converted UPDATE: %v", verr), witw())
		return
	}
	var aggErr error
	if rec.Guard("c14:up", witw, func() {
		UpdatePathAttrs4ByteAs(verifLogger(), rbody)
		aggErr = UpdatePathAggregator4ByteAs(rbody)
	}) {
		return
	}
	if aggErr != nil {
		rec.Violation("c14:roundtrip:aggregator-error", "UpdatePathAggregator4ByteAs: "+aggErr.Error(), witw())
	}
	asp, as4, ragg, ragg4 := c14FindAttrs(rbody)
	if len(as4) != 0 || len(ragg4) != 0 {
		rec.Violation("c14:roundtrip:as4-attrs-left", "AS4_PATH/AS4_AGGREGATOR still present after reconstruction", witw())
	}
	if len(asp) != 1 {
		rec.Violation("c14:roundtrip:as-path-count", fmt.Sprintf("%d AS_PATH attributes after reconstruction", len(asp)), witw())
		return
	}
	got, all4 := c14FromAttr(asp[0])
	if !all4 {
		rec.Violation("c14:roundtrip:2-octet-params-left", "reconstructed AS_PATH still holds 2-octet segment objects", witw())
	}
	// expected: the original, 4-octet members of confederation segments excepted
	var want c14Path
	for _, s := range orig {
		if !c14IsConfed(s.T) {
			want = append(want, s)
			continue
		}
		t := c14Seg{T: s.T}
		for _, a := range s.AS {
			if a > 0xffff {
				a = c14ASTRANS
			}
			t.AS = append(t.AS, a)
		}
		want = append(want, t)
	}
	bad := c14Shape(got)
	if bad != "" {
		rec.Violation("c14:roundtrip:"+bad+":"+shape, fmt.Sprintf("reconstruction of %s produced %s", orig, got), witw())
	}
	if !c14Equal(got, want) {
		if bad == "" || !c14Equal(c14DropEmpty(got), want) {
			rec.Violation("c14:roundtrip:mismatch:"+shape, fmt.Sprintf("sent %s, reconstructed %s, want %s", orig, got, want), witw())
		}
		bad = "mismatch" // consequences are not reported again below
	} else if reflect.DeepEqual(got, want) {
		rec.Count("roundtrip_same_segmentation", 1)
	}
	if ref, _, _ := c14Reconstruct(sent2, qref); len(wAs4) == 1 && !c14Equal(ref, want) {
		// self-check of the harness: the reference must round-trip too
		rec.Inconclusive(fmt.Sprintf("harness reference does not round-trip case %d: %s -> %s", idx, orig, ref))
	}
	if agg.Present {
		ok := len(ragg) == 1 && ragg[0].Value.AS == agg.AS && ragg[0].Value.Address == agg.Addr && ragg[0].Value.Askind == reflect.Uint32
		if !ok {
			rec.Violation("c14:roundtrip:aggregator", fmt.Sprintf("aggregator %v not restored: %v", agg, ragg), witw())
		}
	} else if len(ragg) != 0 {
		rec.Violation("c14:roundtrip:aggregator-invented", "aggregator appeared", witw())
	}
	// nothing else lost: same attribute types in the same order as before the down-conversion
	if ta := c14TypeList(rbody); ta != typesBefore {
		rec.Violation("c14:roundtrip:attr-list", fmt.Sprintf("attribute types before %s, after %s", typesBefore, ta), witw())
	}
	// the reconstructed UPDATE as a NEW speaker would pass it on
	if bad == "" {
		rmsg.Header.Len = 0
		b2, err := rmsg.Serialize(&bgp.MarshallingOption{ExtendedMessage: true})
		if err == nil {
			if w2, err := c14Walk(b2); err == nil {
				for _, a := range w2 {
					if a.Type == c14AttrASP {
						if s4, err := c14Segments(a.Val, 4); err != nil || !c14Equal(s4, want) {
							rec.Violation("c14:roundtrip:reserialize:"+shape, fmt.Sprintf("re-serialised 4-octet AS_PATH is %s (%v), want %s", s4, err, want), witw())
						}
					}
					if a.Type == c14AttrAGG && agg.Present && (len(a.Val) != 8 || binary.BigEndian.Uint32(a.Val) != agg.AS) {
						rec.Violation("c14:roundtrip:reserialize-aggregator", "re-serialised AGGREGATOR is not the 8-octet original", witw())
					}
				}
			} else {
				rec.Violation("c14:roundtrip:reserialize-framing", err.Error(), witw())
			}
		} else {
			rec.Violation("c14:roundtrip:reserialize-error", err.Error(), witw())
		}
	}
	if needQ || (agg.Present && agg.AS > 0xffff) {
		segs := ""
		for _, s := range orig {
			segs += fmt.Sprintf("%d/%d,", s.T, c14LenClass(len(s.AS)))
		}
		rec.Nontrivial(fmt.Sprintf("rt:%s:%v:%v", segs, confed4, agg.Present && agg.AS > 0xffff))
		rec.Count("roundtrip_with_as4", 1)
	}
	if idx%9973 == 0 {
		rec.Sample(map[string]any{"case": idx, "mode": "roundtrip", "as_path": orig.String(), "sent_as_path": sent2.String(), "as4_path_sent": len(wAs4) == 1, "reconstructed": got.String()})
	}
}

func c14DropEmpty(p c14Path) c14Path {
	var out c14Path
	for _, s := range p {
		if len(s.AS) > 0 {
			out = append(out, s)
		}
	}
	return out
}

func c14LenClass(n int) int {
	switch {
	case n == 255:
		return 255
	case n >= 250:
		return 250
	case n > 6:
		return 100
	}
	return n
}

// ---- oracle 2: arbitrary (AS_PATH, AS4_PATH) pairs

// c14Prepend is what an OLD speaker does when it passes the route on: its own 2-octet AS in front
// of the first non-confederation segment (a new segment when that is a SET or full).
func c14Prepend(p c14Path, as uint32) c14Path {
	i := 0
	for i < len(p) && c14IsConfed(p[i].T) {
		i++
	}
	out := append(c14Path{}, p[:i]...)
	if i < len(p) && p[i].T == c14SEQ && len(p[i].AS) < 255 {
		out = append(out, c14Seg{c14SEQ, append([]uint32{as}, p[i].AS...)})
		return append(out, p[i+1:]...)
	}
	out = append(out, c14Seg{c14SEQ, []uint32{as}})
	return append(out, p[i:]...)
}

func c14GenPair(r *rand.Rand) (p, q c14Path, how string) {
	switch k := r.IntN(10); {
	case k < 6:
		// emitted by a NEW speaker, then handled by a chain of OLD speakers
		orig := c14GenPath(r, []int{10, 30, 60, 100}[r.IntN(4)])
		p, q, _, _ = c14Down(orig)
		how = "chain"
		for n := r.IntN(4); n > 0; n-- {
			switch r.IntN(6) {
			case 0, 1, 2, 3:
				for k := 1 + r.IntN(3); k > 0; k-- {
					p = c14Prepend(p, 100+uint32(r.IntN(60000)))
				}
				how += "+prepend"
			case 4:
				// OLD speaker aggregates: the leading non-confederation part collapses into a SET
				i := 0
				for i < len(p) && c14IsConfed(p[i].T) {
					i++
				}
				if i < len(p) {
					var set []uint32
					j := i
					for ; j < len(p) && j < i+1+r.IntN(2); j++ {
						set = append(set, p[j].AS...)
					}
					if len(set) > 255 {
						set = set[:255]
					}
					np := append(c14Path{}, p[:i]...)
					np = append(np, c14Seg{c14SET, set})
					p = append(np, p[j:]...)
					how += "+aggregate"
				}
			case 5:
				// a confederation member in between adds a confederation segment in front
				if len(p) == 0 || !c14IsConfed(p[0].T) {
					p = append(c14Path{c14GenSeg(r, c14CONFSEQ, 1+r.IntN(3), 0)}, p...)
					how += "+confed"
				}
			}
		}
	default:
		// independent
		p, _, _, _ = c14Down(c14GenPath(r, 30))
		q = nil
		for n := 1 + r.IntN(3); n > 0; n-- {
			t := uint8(c14SEQ)
			switch r.IntN(12) {
			case 0, 1, 2:
				t = c14SET
			case 3:
				t = c14CONFSEQ // MUST be discarded on receipt (RFC 6793 section 6)
			case 4:
				t = c14CONFSET
			}
			q = append(q, c14GenSeg(r, t, c14SegLen(r), 70))
		}
		how = "independent"
	}
	return
}

func c14Pair(rec *vlib.Rec, r *rand.Rand, idx int) {
	p, q, how := c14GenPair(r)
	wit := func() any {
		return map[string]any{"case": idx, "mode": "pair", "how": how, "as_path": p.String(), "as4_path": q.String()}
	}
	rec.Eval()
	rec.Count("pairs", 1)
	ref, ignored, keep := c14Reconstruct(p, q)

	pre, post := c14OtherAttrs(r)
	var attrs []bgp.PathAttributeInterface
	as4First := r.IntN(5) == 0
	attrs = append(attrs, pre...)
	if as4First {
		attrs = append(attrs, c14AttrAs4(q))
	}
	attrs = append(attrs, c14Attr2(p))
	attrs = append(attrs, post...)
	if !as4First {
		attrs = append(attrs, c14AttrAs4(q))
	}
	msg := bgp.NewBGPUpdateMessage(nil, attrs, []bgp.PathNLRI{c14NLRI})
	wire, ext, err := c14Serialize(msg)
	if err != nil {
		rec.Count("pairs_unserialisable", 1)
		return
	}
	var rmsg *bgp.BGPMessage
	if rec.Guard("c14:pair:parse", wit, func() {
		rmsg, err = bgp.ParseBGPMessage(wire, &bgp.MarshallingOption{Use2ByteAS: true, ExtendedMessage: ext})
	}) {
		return
	}
	if err != nil {
		rec.Violation("c14:pair:rejected-by-parser", "well-formed OLD-speaker UPDATE rejected: "+err.Error(), wit())
		return
	}
	rbody := rmsg.Body.(*bgp.BGPUpdate)
	typesBefore := c14TypeList(rbody)
	if rec.Guard("c14:pair:up", wit, func() { UpdatePathAttrs4ByteAs(verifLogger(), rbody) }) {
		return
	}
	asp, as4, _, _ := c14FindAttrs(rbody)
	firstP, firstQ := uint8(0), uint8(0)
	for _, s := range p {
		if !c14IsConfed(s.T) {
			firstP = s.T
			break
		}
	}
	for _, s := range q {
		if !c14IsConfed(s.T) {
			firstQ = s.T
			break
		}
	}
	// input class for violation keys
	shape := "keepN"
	switch {
	case len(p) > 0 && c14IsConfed(p[0].T):
		shape = "confed-run"
	case ignored:
		shape = "as4-longer"
	case keep == 0:
		shape = fmt.Sprintf("keep0:%d>%d", firstP, firstQ)
	}
	if len(as4) != 0 {
		rec.Violation("c14:pair:as4-path-left", "AS4_PATH still present after reconstruction", wit())
	}
	if len(asp) != 1 {
		rec.Violation("c14:pair:as-path-count", fmt.Sprintf("%d AS_PATH attributes after reconstruction", len(asp)), wit())
		return
	}
	got, all4 := c14FromAttr(asp[0])
	w := func() any {
		m := wit().(map[string]any)
		m["reconstructed"] = got.String()
		m["rfc6793"] = ref.String()
		return m
	}
	if !all4 {
		rec.Violation("c14:pair:2-octet-params-left", "reconstructed AS_PATH still holds 2-octet segment objects", w())
	}
	if ignored {
		rec.Count("pairs_as4_longer", 1)
	}
	// one violation per case: the most specific statement of the property that is broken
	np, ng := c14Count(p), c14Count(got)
	if bad := c14Shape(got); bad != "" {
		rec.Violation("c14:pair:"+bad+":"+shape, fmt.Sprintf("(%s, %s) reconstructed to %s", p, q, got), w())
	} else if ignored && !c14Equal(got, p) {
		rec.Violation("c14:pair:as4-longer-not-ignored:"+shape, fmt.Sprintf("AS4_PATH counts more AS numbers (%d) than AS_PATH (%d) and must be ignored: (%s, %s) -> %s", c14Count(q), np, p, q, got), w())
	} else if ng > np {
		rec.Violation("c14:pair:lengthened:"+shape, fmt.Sprintf("AS_PATH counts %d AS numbers, the reconstructed path %d: (%s, %s) -> %s", np, ng, p, q, got), w())
	} else if !c14Equal(got, ref) {
		rec.Violation("c14:pair:differs-from-rfc6793:"+shape, fmt.Sprintf("(%s, %s) -> %s, RFC 6793 4.2.3 gives %s", p, q, got, ref), w())
	}
	if ta, tb := c14TypeList(rbody), strings.ReplaceAll(strings.ReplaceAll(typesBefore, ",17", ""), "17,", ""); ta != tb {
		rec.Violation("c14:pair:attr-list", fmt.Sprintf("attribute types before %s, after %s", typesBefore, ta), w())
	}
	if keep > 0 {
		rec.Count("pairs_with_prepended_part", 1)
	}
	if as4First {
		rec.Count("pairs_as4_before_as_path", 1)
	}
	segs := ""
	for _, s := range p {
		segs += fmt.Sprintf("%d/%d,", s.T, c14LenClass(len(s.AS)))
	}
	segs += "|"
	for _, s := range q {
		segs += fmt.Sprintf("%d/%d,", s.T, c14LenClass(len(s.AS)))
	}
	rec.Nontrivial("pair:" + segs)
	if idx%9973 == 1 {
		rec.Sample(map[string]any{"case": idx, "mode": "pair", "how": how, "as_path": p.String(), "as4_path": q.String(), "reconstructed": got.String(), "as4_ignored": ignored})
	}
}
