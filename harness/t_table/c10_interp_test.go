package table

// C10 — reference interpreter of the documented policy model (docs/sources/policy.md and the
// comments of the configuration structs in pkg/config/oc).
//
// It works on the *configuration structs* and on a plain description of a route; it shares no code
// and no data structure with internal/pkg/table/policy.go.  Whenever the documentation leaves a
// behaviour open, the interpreter does not pick one: it reports the case as "ambiguous" (c10Outcome.Amb)
// and the harness skips the comparison (counted under amb:<reason>).
//
// Documented model, as implemented here
//   - an assignment (global or per neighbour, import or export) is a list of policy names plus a default
//     (accept-route unless reject-route is configured);
//   - policies are evaluated in assignment order, statements in definition order;
//   - a statement applies iff ALL its conditions are true (a statement without conditions always applies);
//   - when it applies, its modification actions are executed on the route being processed and later
//     statements see the modified route ("Action is applied to routes which meet Condition before routes
//     proceed to next step");
//   - route-disposition accept-route / reject-route stops everything; without one, evaluation continues
//     with the next statement / next policy; at the end the assignment's default decides.

import (
	"encoding/binary"
	"fmt"
	"math"
	"net/netip"
	"regexp"
	"sort"
	"strconv"
	"strings"

	"github.com/osrg/gobgp/v4/pkg/config/oc"
)

const (
	c10SegSet       = 1
	c10SegSeq       = 2
	c10SegConfedSeq = 3
	c10SegConfedSet = 4
)

type c10Seg struct {
	Type uint8
	AS   []uint32
}

type c10Ext [8]byte

type c10LC struct{ A, B, C uint32 }

// c10Route is the plain description of a route.
type c10Route struct {
	Family    string // "ipv4-unicast" | "ipv6-unicast"
	Prefix    netip.Prefix
	Source    netip.Addr // peer the route was learned from; invalid for a locally originated route
	NextHop   netip.Addr
	ASPath    []c10Seg
	Comms     []uint32
	Exts      []c10Ext
	LCs       []c10LC
	HasMED    bool
	MED       uint32
	HasLP     bool
	LocalPref uint32
	Origin    uint8  // 0 igp, 1 egp, 2 incomplete
	Type      string // "local" | "internal" | "external"
	RPKI      string // "valid" | "invalid" | "not-found"
}

func (r c10Route) clone() c10Route {
	n := r
	n.ASPath = make([]c10Seg, len(r.ASPath))
	for i, s := range r.ASPath {
		n.ASPath[i] = c10Seg{Type: s.Type, AS: append([]uint32{}, s.AS...)}
	}
	n.Comms = append([]uint32{}, r.Comms...)
	n.Exts = append([]c10Ext{}, r.Exts...)
	n.LCs = append([]c10LC{}, r.LCs...)
	return n
}

// c10Ctx describes on whose behalf the policy is evaluated.
type c10Ctx struct {
	Neighbor netip.Addr // "neighbor (source/destination of the route)": the peer the evaluation is for; invalid: none
	Peer     netip.Addr // address of the peer whose session the evaluation belongs to (next-hop peer-address); invalid: no session known
	Local    netip.Addr // own local address on that session (next-hop self); invalid: unknown
}

type c10Outcome struct {
	Amb       string // non-empty: the documentation leaves the outcome open; why
	Accept    bool
	Route     c10Route
	SetCmp    map[string]bool // attribute -> compare as set (a value was added that was already there)
	Evaluated int             // statements whose conditions were evaluated
	Applied   int             // statements that applied
	DecidedBy string          // "statement" | "default"
	CondTrue  []string // conditions that evaluated true (in any evaluated statement)
	CondFalse []string
	AppliedBy []string // conditions of the statements that applied
	Actions   []string
}

type c10State struct {
	nhModified bool
}

type c10Interp struct {
	rp  *oc.RoutingPolicy
	ap  map[string]oc.ApplyPolicy
	re  map[string]*regexp.Regexp
	pol map[string]*oc.PolicyDefinition
}

func c10NewInterp(rp *oc.RoutingPolicy, ap map[string]oc.ApplyPolicy) *c10Interp {
	it := &c10Interp{rp: rp, ap: ap, re: map[string]*regexp.Regexp{}, pol: map[string]*oc.PolicyDefinition{}}
	for i := range rp.PolicyDefinitions {
		it.pol[rp.PolicyDefinitions[i].Name] = &rp.PolicyDefinitions[i]
	}
	return it
}

func (it *c10Interp) regexp(s string) *regexp.Regexp {
	if re, ok := it.re[s]; ok {
		return re
	}
	re, err := regexp.Compile(s)
	if err != nil {
		re = nil
	}
	it.re[s] = re
	return re
}

// ---- text forms

var c10PlainComm = regexp.MustCompile(`^\d+:\d+$`)
var c10PlainExt = regexp.MustCompile(`^(\d+\.)*\d+:\d+$`)
var c10PlainLC = regexp.MustCompile(`^\d+:\d+:\d+$`)

// A set member that is a plain value ("65100:10") means exactly that value; anything else is a
// regular expression searched in the canonical text.
func c10CommPattern(s string) string {
	if c10PlainComm.MatchString(s) {
		return "^" + s + "$"
	}
	return s
}

func c10ExtBodyPattern(s string) string {
	if c10PlainExt.MatchString(s) {
		return "^" + s + "$"
	}
	return s
}

func c10LCPattern(s string) string {
	if c10PlainLC.MatchString(s) {
		return "^" + s + "$"
	}
	return s
}

const c10AsPathMagic = "(^|[,{}() ]|$)" // policy.md: "_" is an abbreviation for this

func c10AsPathPattern(s string) string { return strings.ReplaceAll(s, "_", c10AsPathMagic) }

func c10CommText(c uint32) string { return fmt.Sprintf("%d:%d", c>>16, c&0xffff) }
func c10LCText(l c10LC) string    { return fmt.Sprintf("%d:%d:%d", l.A, l.B, l.C) }

func (e c10Ext) transitive() bool { return e[0]&0x40 == 0 }
func (e c10Ext) subtype() uint8   { return e[1] }

// text gives the canonical text of the three "AS/address : number" layouts; ok=false for others.
func (e c10Ext) text() (string, bool) {
	switch e[0] &^ 0x40 {
	case 0x00:
		return fmt.Sprintf("%d:%d", binary.BigEndian.Uint16(e[2:4]), binary.BigEndian.Uint32(e[4:8])), true
	case 0x01:
		return fmt.Sprintf("%d.%d.%d.%d:%d", e[2], e[3], e[4], e[5], binary.BigEndian.Uint16(e[6:8])), true
	case 0x02:
		return fmt.Sprintf("%d.%d:%d", binary.BigEndian.Uint16(e[2:4]), binary.BigEndian.Uint16(e[4:6]), binary.BigEndian.Uint16(e[6:8])), true
	}
	return "", false
}

func c10ExtSubtype(prefix string) (uint8, bool) {
	switch strings.ToLower(prefix) {
	case "rt":
		return 0x02, true
	case "soo":
		return 0x03, true
	case "lb":
		return 0x04, true
	}
	return 0, false
}

// c10ParseExt parses an extended community value as written in an action ("rt:65100:200",
// "soo:1.2.3.4:5", "rt:1.100:5", "lb:65001:125000").
func c10ParseExt(s string) (c10Ext, bool) {
	var e c10Ext
	i := strings.IndexByte(s, ':')
	if i < 0 {
		return e, false
	}
	st, ok := c10ExtSubtype(s[:i])
	if !ok {
		return e, false
	}
	body := s[i+1:]
	j := strings.LastIndexByte(body, ':')
	if j < 0 {
		return e, false
	}
	admin, num := body[:j], body[j+1:]
	n, err := strconv.ParseUint(num, 10, 32)
	if err != nil {
		return e, false
	}
	e[1] = st
	if st == 0x04 { // link bandwidth: non-transitive, 2-octet AS, IEEE float bytes/s
		as, err := strconv.ParseUint(admin, 10, 16)
		if err != nil {
			return e, false
		}
		e[0] = 0x40
		binary.BigEndian.PutUint16(e[2:4], uint16(as))
		binary.BigEndian.PutUint32(e[4:8], math.Float32bits(float32(n)))
		return e, true
	}
	switch strings.Count(admin, ".") {
	case 0:
		as, err := strconv.ParseUint(admin, 10, 16)
		if err != nil {
			return e, false
		}
		e[0] = 0x00
		binary.BigEndian.PutUint16(e[2:4], uint16(as))
		binary.BigEndian.PutUint32(e[4:8], uint32(n))
	case 1:
		k := strings.IndexByte(admin, '.')
		hi, err1 := strconv.ParseUint(admin[:k], 10, 16)
		lo, err2 := strconv.ParseUint(admin[k+1:], 10, 16)
		if err1 != nil || err2 != nil || n > 0xffff {
			return e, false
		}
		e[0] = 0x02
		binary.BigEndian.PutUint16(e[2:4], uint16(hi))
		binary.BigEndian.PutUint16(e[4:6], uint16(lo))
		binary.BigEndian.PutUint16(e[6:8], uint16(n))
	case 3:
		a, err := netip.ParseAddr(admin)
		if err != nil || !a.Is4() || n > 0xffff {
			return e, false
		}
		e[0] = 0x01
		b := a.As4()
		copy(e[2:6], b[:])
		binary.BigEndian.PutUint16(e[6:8], uint16(n))
	default:
		return e, false
	}
	return e, true
}

func c10ParseComm(s string) (uint32, bool) {
	i := strings.IndexByte(s, ':')
	if i < 0 {
		return 0, false
	}
	a, err1 := strconv.ParseUint(s[:i], 10, 16)
	b, err2 := strconv.ParseUint(s[i+1:], 10, 16)
	if err1 != nil || err2 != nil {
		return 0, false
	}
	return uint32(a)<<16 | uint32(b), true
}

func c10ParseLC(s string) (c10LC, bool) {
	p := strings.Split(s, ":")
	if len(p) != 3 {
		return c10LC{}, false
	}
	var v [3]uint32
	for i := range p {
		n, err := strconv.ParseUint(p[i], 10, 32)
		if err != nil {
			return c10LC{}, false
		}
		v[i] = uint32(n)
	}
	return c10LC{v[0], v[1], v[2]}, true
}

// AS_PATH as text, Quagga/Cisco style (policy.md: "compatible with Quagga and Cisco"):
// sequences space separated, AS_SET {a,b}, confederation sequence (a b), confederation set [a,b].
func c10AsPathText(p []c10Seg) string {
	var parts []string
	for _, s := range p {
		as := make([]string, len(s.AS))
		for i, a := range s.AS {
			as[i] = strconv.FormatUint(uint64(a), 10)
		}
		switch s.Type {
		case c10SegSeq:
			parts = append(parts, strings.Join(as, " "))
		case c10SegSet:
			parts = append(parts, "{"+strings.Join(as, ",")+"}")
		case c10SegConfedSeq:
			parts = append(parts, "("+strings.Join(as, " ")+")")
		case c10SegConfedSet:
			parts = append(parts, "["+strings.Join(as, ",")+"]")
		}
	}
	return strings.Join(parts, " ")
}

// ---- conditions

func c10Combine(opt string, hits []bool) bool {
	any, all := false, true
	for _, h := range hits {
		any = any || h
		all = all && h
	}
	switch opt {
	case "all":
		return all
	case "invert":
		return !any
	}
	return any
}

func c10Opt(s string) string {
	if s == "" {
		return "any" // "default is any"
	}
	return strings.ToLower(s)
}

var c10CondKinds = []string{"prefix", "neighbor", "as-path", "community", "ext-community", "large-community",
	"as-path-length", "community-count", "origin", "route-type", "rpki", "afi-safi-in", "next-hop", "local-pref-eq", "med-eq"}

// condPresent tells whether the statement configures the condition at all.
func c10CondPresent(kind string, c *oc.Conditions) bool {
	b := &c.BgpConditions
	switch kind {
	case "prefix":
		return c.MatchPrefixSet.PrefixSet != ""
	case "neighbor":
		return c.MatchNeighborSet.NeighborSet != ""
	case "as-path":
		return b.MatchAsPathSet.AsPathSet != ""
	case "community":
		return b.MatchCommunitySet.CommunitySet != ""
	case "ext-community":
		return b.MatchExtCommunitySet.ExtCommunitySet != ""
	case "large-community":
		return b.MatchLargeCommunitySet.LargeCommunitySet != ""
	case "as-path-length":
		return b.AsPathLength.Operator != ""
	case "community-count":
		return b.CommunityCount.Operator != ""
	case "origin":
		return b.OriginEq != ""
	case "route-type":
		return b.RouteType != "" && b.RouteType != "none"
	case "rpki":
		return b.RpkiValidationResult != "" && b.RpkiValidationResult != "none"
	case "afi-safi-in":
		return b.AfiSafiInList != nil
	case "next-hop":
		return len(b.NextHopInList) > 0
	case "local-pref-eq":
		return b.LocalPrefEq != 0
	case "med-eq":
		return b.MedEq != 0
	}
	return false
}

func c10Cmp(op string, have, want uint32) (bool, string) {
	switch strings.TrimPrefix(strings.ToLower(op), "attribute-") {
	case "eq":
		return have == want, ""
	case "ge":
		return have >= want, ""
	case "le":
		return have <= want, ""
	}
	return false, "unknown comparison operator"
}

// cond evaluates one condition kind of a statement on route r; amb != "" when the documents do not decide.
func (it *c10Interp) cond(kind string, c *oc.Conditions, r *c10Route, ctx c10Ctx, st *c10State) (bool, string) {
	b := &c.BgpConditions
	ds := &it.rp.DefinedSets
	switch kind {
	case "prefix":
		opt := c10Opt(string(c.MatchPrefixSet.MatchSetOptions))
		for i := range ds.PrefixSets {
			s := &ds.PrefixSets[i]
			if s.PrefixSetName != c.MatchPrefixSet.PrefixSet {
				continue
			}
			if len(s.PrefixList) == 0 {
				return false, "empty prefix set"
			}
			// Two readings of "prefix list entry P with range lo..hi matches route R/len":
			//   A: R lies inside P (P covers R, so len >= len(P)) and lo <= len <= hi
			//   B: the address of R lies inside P and lo <= len <= hi (literal reading of example 1)
			// They differ only when len < len(P); then the case is left open.
			var ha, hb []bool
			sameFamily := true
			for _, p := range s.PrefixList {
				lo, hi := p.IpPrefix.Bits(), p.IpPrefix.Bits()
				if p.MasklengthRange != "" {
					if _, err := fmt.Sscanf(p.MasklengthRange, "%d..%d", &lo, &hi); err != nil {
						return false, "mask length range syntax"
					}
				}
				if p.IpPrefix.Addr().Is4() != r.Prefix.Addr().Is4() {
					sameFamily = false
				}
				in := p.IpPrefix.Addr().Is4() == r.Prefix.Addr().Is4() && p.IpPrefix.Contains(r.Prefix.Addr()) && lo <= r.Prefix.Bits() && r.Prefix.Bits() <= hi
				hb = append(hb, in)
				ha = append(ha, in && r.Prefix.Bits() >= p.IpPrefix.Bits())
			}
			if !sameFamily && opt == "invert" {
				// "prefix-sets has either v4 or v6 addresses": whether a route of the other family
				// "does not match any member" (invert true) or is outside the set's scope is not said.
				return false, "prefix set of another address family under invert"
			}
			ra, rb := c10Combine(opt, ha), c10Combine(opt, hb)
			if ra != rb {
				return false, "route shorter than the prefix-list entry inside its mask range"
			}
			return ra, ""
		}
		return false, "undefined prefix set"
	case "neighbor":
		opt := c10Opt(string(c.MatchNeighborSet.MatchSetOptions))
		for i := range ds.NeighborSets {
			s := &ds.NeighborSets[i]
			if s.NeighborSetName != c.MatchNeighborSet.NeighborSet {
				continue
			}
			if len(s.NeighborInfoList) == 0 {
				return true, "" // "an empty neighbor-set will match against ANYTHING and not invert based on the match option"
			}
			if !ctx.Neighbor.IsValid() {
				return false, "neighbor condition without a neighbor"
			}
			var hits []bool
			for _, n := range s.NeighborInfoList {
				if p, err := netip.ParsePrefix(n); err == nil {
					hits = append(hits, p.Contains(ctx.Neighbor))
				} else if a, err := netip.ParseAddr(n); err == nil {
					hits = append(hits, a == ctx.Neighbor)
				} else {
					return false, "neighbor syntax"
				}
			}
			return c10Combine(opt, hits), ""
		}
		return false, "undefined neighbor set"
	case "as-path":
		opt := c10Opt(string(b.MatchAsPathSet.MatchSetOptions))
		for i := range ds.BgpDefinedSets.AsPathSets {
			s := &ds.BgpDefinedSets.AsPathSets[i]
			if s.AsPathSetName != b.MatchAsPathSet.AsPathSet {
				continue
			}
			if len(s.AsPathList) == 0 {
				return false, "empty as-path set"
			}
			text := c10AsPathText(r.ASPath)
			var hits []bool
			for _, p := range s.AsPathList {
				re := it.regexp(c10AsPathPattern(p))
				if re == nil {
					return false, "as-path regexp syntax"
				}
				hits = append(hits, re.MatchString(text))
			}
			return c10Combine(opt, hits), ""
		}
		return false, "undefined as-path set"
	case "community":
		opt := c10Opt(string(b.MatchCommunitySet.MatchSetOptions))
		for i := range ds.BgpDefinedSets.CommunitySets {
			s := &ds.BgpDefinedSets.CommunitySets[i]
			if s.CommunitySetName != b.MatchCommunitySet.CommunitySet {
				continue
			}
			if len(s.CommunityList) == 0 {
				return false, "empty community set"
			}
			var hits []bool
			for _, p := range s.CommunityList {
				re := it.regexp(c10CommPattern(p))
				if re == nil {
					return false, "community regexp syntax"
				}
				h := false
				for _, c := range r.Comms {
					h = h || re.MatchString(c10CommText(c))
				}
				hits = append(hits, h)
			}
			return c10Combine(opt, hits), ""
		}
		return false, "undefined community set"
	case "ext-community":
		opt := c10Opt(string(b.MatchExtCommunitySet.MatchSetOptions))
		for i := range ds.BgpDefinedSets.ExtCommunitySets {
			s := &ds.BgpDefinedSets.ExtCommunitySets[i]
			if s.ExtCommunitySetName != b.MatchExtCommunitySet.ExtCommunitySet {
				continue
			}
			if len(s.ExtCommunityList) == 0 {
				return false, "empty ext-community set"
			}
			var hits []bool
			for _, p := range s.ExtCommunityList {
				h, amb := it.extMatchAny(p, r.Exts)
				if amb != "" {
					return false, amb
				}
				hits = append(hits, h)
			}
			return c10Combine(opt, hits), ""
		}
		return false, "undefined ext-community set"
	case "large-community":
		opt := c10Opt(string(b.MatchLargeCommunitySet.MatchSetOptions))
		for i := range ds.BgpDefinedSets.LargeCommunitySets {
			s := &ds.BgpDefinedSets.LargeCommunitySets[i]
			if s.LargeCommunitySetName != b.MatchLargeCommunitySet.LargeCommunitySet {
				continue
			}
			if len(s.LargeCommunityList) == 0 {
				return false, "empty large-community set"
			}
			var hits []bool
			for _, p := range s.LargeCommunityList {
				re := it.regexp(c10LCPattern(p))
				if re == nil {
					return false, "large-community regexp syntax"
				}
				h := false
				for _, c := range r.LCs {
					h = h || re.MatchString(c10LCText(c))
				}
				hits = append(hits, h)
			}
			return c10Combine(opt, hits), ""
		}
		return false, "undefined large-community set"
	case "as-path-length":
		// "length of AS number in AS_PATH attribute": for plain sequences the number of ASes. How an
		// AS_SET or a confederation segment counts is not said: RFC 4271 counting (set = 1, confed = 0)
		// and plain counting are both admitted.
		plain, rfc := uint32(0), uint32(0)
		for _, s := range r.ASPath {
			plain += uint32(len(s.AS))
			switch s.Type {
			case c10SegSeq:
				rfc += uint32(len(s.AS))
			case c10SegSet:
				rfc++
			}
		}
		x, amb := c10Cmp(string(b.AsPathLength.Operator), plain, b.AsPathLength.Value)
		y, _ := c10Cmp(string(b.AsPathLength.Operator), rfc, b.AsPathLength.Value)
		if amb != "" {
			return false, amb
		}
		if x != y {
			return false, "as-path length with AS_SET/confederation segments"
		}
		return x, ""
	case "community-count":
		return c10Cmp(string(b.CommunityCount.Operator), uint32(len(r.Comms)), b.CommunityCount.Value)
	case "origin":
		switch b.OriginEq {
		case "igp":
			return r.Origin == 0, ""
		case "egp":
			return r.Origin == 1, ""
		case "incomplete":
			return r.Origin == 2, ""
		}
		return false, "unknown origin"
	case "route-type":
		return string(b.RouteType) == r.Type, ""
	case "rpki":
		return string(b.RpkiValidationResult) == r.RPKI, ""
	case "afi-safi-in":
		if len(b.AfiSafiInList) == 0 {
			return false, "empty afi-safi-in list"
		}
		for _, f := range b.AfiSafiInList {
			if string(f) == r.Family {
				return true, ""
			}
		}
		return false, ""
	case "next-hop":
		if st.nhModified {
			// gobgp documents (in code only) that export filtering looks at the "original" next hop;
			// policy.md says nothing, so a next-hop test after a next-hop action is left open.
			return false, "next-hop condition after a next-hop action"
		}
		for _, a := range b.NextHopInList {
			if a == r.NextHop {
				return true, ""
			}
		}
		return false, ""
	case "local-pref-eq":
		if !r.HasLP {
			if b.LocalPrefEq == 100 {
				return false, "local-pref-eq 100 on a route without LOCAL_PREF" // absent vs. default 100
			}
			return false, ""
		}
		return r.LocalPref == b.LocalPrefEq, ""
	case "med-eq":
		if !r.HasMED {
			return false, "" // value 0 cannot be configured, so "absent" and "absent = 0" agree
		}
		return r.MED == b.MedEq, ""
	}
	return false, "unknown condition kind"
}

// extMatchAny: does member "rt:<pattern>" match any of the communities?  Only transitive ones take
// part (RFC 7153), the sub-type selects, the pattern is matched on "<admin>:<number>".
func (it *c10Interp) extMatchAny(member string, exts []c10Ext) (bool, string) {
	i := strings.IndexByte(member, ':')
	if i < 0 {
		return false, "ext-community member syntax"
	}
	st, ok := c10ExtSubtype(member[:i])
	if !ok {
		return false, "ext-community sub-type"
	}
	re := it.regexp(c10ExtBodyPattern(member[i+1:]))
	if re == nil {
		return false, "ext-community regexp syntax"
	}
	for _, e := range exts {
		if !e.transitive() || e.subtype() != st {
			continue
		}
		t, ok := e.text()
		if !ok {
			return false, "ext-community layout without documented text form"
		}
		if re.MatchString(t) {
			return true, ""
		}
	}
	return false, ""
}

// conds evaluates the conjunction; perKind receives each configured condition's value (nil allowed).
func (it *c10Interp) conds(c *oc.Conditions, r *c10Route, ctx c10Ctx, st *c10State, perKind func(kind string, v bool, amb string)) (bool, string) {
	allTrue, amb := true, ""
	definiteFalse := false
	for _, k := range c10CondKinds {
		if !c10CondPresent(k, c) {
			continue
		}
		v, a := it.cond(k, c, r, ctx, st)
		if perKind != nil {
			perKind(k, v, a)
		}
		if a != "" {
			if amb == "" {
				amb = a
			}
			continue
		}
		if !v {
			definiteFalse = true
			allTrue = false
		}
	}
	if definiteFalse {
		return false, "" // one false condition decides whatever the open ones are
	}
	if amb != "" {
		return false, amb
	}
	return allTrue, ""
}

// ---- actions

func c10HasU32(xs []uint32, x uint32) bool {
	for _, y := range xs {
		if x == y {
			return true
		}
	}
	return false
}

// actions executes the modification actions of one statement on r.
func (it *c10Interp) actions(a *oc.BgpActions, r *c10Route, ctx c10Ctx, st *c10State, out *c10Outcome) string {
	note := func(s string) { out.Actions = append(out.Actions, s) }
	setCmp := func(attr string) {
		if out.SetCmp == nil {
			out.SetCmp = map[string]bool{}
		}
		out.SetCmp[attr] = true
	}
	// communities
	if op := strings.ToLower(a.SetCommunity.Options); op != "" {
		list := a.SetCommunity.SetCommunityMethod.CommunitiesList
		switch op {
		case "add", "replace":
			var vals []uint32
			for _, s := range list {
				v, ok := c10ParseComm(s)
				if !ok {
					return "community value syntax"
				}
				if c10HasU32(vals, v) || (op == "add" && c10HasU32(r.Comms, v)) {
					setCmp("communities") // adding a value that is already there: once or twice is not said
				}
				vals = append(vals, v)
			}
			if op == "add" {
				r.Comms = append(r.Comms, vals...)
			} else {
				r.Comms = vals
			}
		case "remove":
			var keep []uint32
			for _, c := range r.Comms {
				hit := false
				for _, s := range list {
					re := it.regexp(c10CommPattern(s))
					if re == nil {
						return "community regexp syntax"
					}
					hit = hit || re.MatchString(c10CommText(c))
				}
				if !hit {
					keep = append(keep, c)
				}
			}
			r.Comms = keep
		default:
			return "unknown community option"
		}
		note("community:" + op)
	}
	// extended communities
	if op := strings.ToLower(a.SetExtCommunity.Options); op != "" {
		list := a.SetExtCommunity.SetExtCommunityMethod.CommunitiesList
		switch op {
		case "add", "replace":
			var vals []c10Ext
			for _, s := range list {
				v, ok := c10ParseExt(s)
				if !ok {
					return "ext-community value syntax"
				}
				for _, o := range vals {
					if o == v {
						setCmp("ext-communities")
					}
				}
				if op == "add" {
					for _, o := range r.Exts {
						if o == v {
							setCmp("ext-communities")
						}
					}
				}
				vals = append(vals, v)
			}
			if op == "add" {
				r.Exts = append(r.Exts, vals...)
			} else {
				r.Exts = vals
			}
		case "remove":
			var keep []c10Ext
			for _, e := range r.Exts {
				hit := false
				for _, s := range list {
					h, amb := it.extMatchAny(s, []c10Ext{e})
					if amb != "" {
						return amb
					}
					hit = hit || h
				}
				if !hit {
					keep = append(keep, e)
				}
			}
			r.Exts = keep
		default:
			return "unknown ext-community option"
		}
		note("ext-community:" + op)
	}
	// large communities
	if op := strings.ToLower(string(a.SetLargeCommunity.Options)); op != "" {
		list := a.SetLargeCommunity.SetLargeCommunityMethod.CommunitiesList
		switch op {
		case "add", "replace":
			var vals []c10LC
			for _, s := range list {
				v, ok := c10ParseLC(s)
				if !ok {
					return "large-community value syntax"
				}
				for _, o := range vals {
					if o == v {
						setCmp("large-communities")
					}
				}
				if op == "add" {
					for _, o := range r.LCs {
						if o == v {
							setCmp("large-communities")
						}
					}
				}
				vals = append(vals, v)
			}
			if op == "add" {
				r.LCs = append(r.LCs, vals...)
			} else {
				r.LCs = vals
			}
		case "remove":
			var keep []c10LC
			for _, c := range r.LCs {
				hit := false
				for _, s := range list {
					re := it.regexp(c10LCPattern(s))
					if re == nil {
						return "large-community regexp syntax"
					}
					hit = hit || re.MatchString(c10LCText(c))
				}
				if !hit {
					keep = append(keep, c)
				}
			}
			r.LCs = keep
		default:
			return "unknown large-community option"
		}
		note("large-community:" + op)
	}
	// MED: "If only numbers have been specified, replace the med value of route. if number and
	// operater(+ or -) have been specified, adding or subtracting the med value of route."
	if m := string(a.SetMed); m != "" {
		sign := byte(0)
		num := m
		if m[0] == '+' || m[0] == '-' {
			sign, num = m[0], m[1:]
		}
		n, err := strconv.ParseUint(num, 10, 32)
		if err != nil {
			return "med syntax"
		}
		switch sign {
		case 0:
			r.HasMED, r.MED = true, uint32(n)
			note("med:replace")
		case '+':
			if !r.HasMED {
				return "med arithmetic on a route without MED"
			}
			if uint64(r.MED)+n > math.MaxUint32 {
				return "med overflow"
			}
			r.MED += uint32(n)
			note("med:add")
		case '-':
			if !r.HasMED {
				return "med arithmetic on a route without MED"
			}
			if uint64(r.MED) < n {
				return "med underflow"
			}
			r.MED -= uint32(n)
			note("med:sub")
		}
	}
	if a.SetLocalPref != 0 {
		r.HasLP, r.LocalPref = true, a.SetLocalPref
		note("local-pref")
	}
	if a.SetAsPathPrepend.As != "" {
		var asn uint32
		if a.SetAsPathPrepend.As == "last-as" {
			// "prepend the leftmost AS number in the aspath attribute"
			if len(r.ASPath) == 0 || r.ASPath[0].Type != c10SegSeq || len(r.ASPath[0].AS) == 0 {
				return "last-as without a leading AS_SEQUENCE"
			}
			asn = r.ASPath[0].AS[0]
		} else {
			n, err := strconv.ParseUint(a.SetAsPathPrepend.As, 10, 32)
			if err != nil {
				return "prepend AS syntax"
			}
			asn = uint32(n)
		}
		if a.SetAsPathPrepend.RepeatN > 0 {
			rep := make([]uint32, a.SetAsPathPrepend.RepeatN)
			for i := range rep {
				rep[i] = asn
			}
			r.ASPath = append([]c10Seg{{Type: c10SegSeq, AS: rep}}, r.ASPath...)
		}
		if a.SetAsPathPrepend.As == "last-as" {
			note("as-path-prepend:last-as")
		} else {
			note("as-path-prepend:asn")
		}
	}
	if nh := strings.ToLower(string(a.SetNextHop)); nh != "" {
		set := func(x netip.Addr, what string) string {
			if !x.IsValid() {
				return what + " unknown"
			}
			if x.Is4() != r.NextHop.Is4() {
				return "next hop of another address family"
			}
			r.NextHop = x
			st.nhModified = true
			return ""
		}
		var amb string
		switch nh {
		case "self": // "own local address"
			amb = set(ctx.Local, "local address")
		case "peer-address":
			amb = set(ctx.Peer, "peer address")
		case "unchanged": // "don't modify"
			if st.nhModified {
				amb = "next-hop unchanged after an earlier next-hop action" // keep the new one or restore the received one?
			}
		default:
			x, err := netip.ParseAddr(nh)
			if err != nil {
				return "next hop syntax"
			}
			amb = set(x, "address")
			nh = "address"
		}
		if amb != "" {
			return amb
		}
		note("next-hop:" + nh)
	}
	if o := a.SetRouteOrigin; o != "" {
		switch o {
		case "igp":
			r.Origin = 0
		case "egp":
			r.Origin = 1
		case "incomplete":
			r.Origin = 2
		default:
			return "unknown origin"
		}
		note("origin")
	}
	return ""
}

// assignment returns the policy names and the default of (id, dir); ok=false when nothing is documented.
func (it *c10Interp) assignment(id, dir string) (names []string, accept bool, ok bool) {
	a, found := it.ap[id]
	if !found {
		if id == "global" {
			return nil, true, true // nothing attached to the global rib: everything is accepted
		}
		return nil, false, false
	}
	def := a.Config.DefaultImportPolicy
	names = a.Config.ImportPolicyList
	if dir == "export" {
		def = a.Config.DefaultExportPolicy
		names = a.Config.ExportPolicyList
	}
	if def == "none" {
		return nil, false, false // the assignment was deleted: what then applies is not documented
	}
	return names, def != "reject-route", true // "default is accept-route"
}

// Run interprets the policy chain (id, dir) on route.
func (it *c10Interp) Run(id, dir string, route c10Route, ctx c10Ctx) (out c10Outcome) {
	names, defAccept, ok := it.assignment(id, dir)
	if !ok {
		out.Amb = "no assignment for " + id
		return
	}
	cur := route.clone()
	st := &c10State{}
	for _, name := range names {
		pd, ok := it.pol[name]
		if !ok {
			out.Amb = "assignment names an undefined policy"
			return
		}
		for si := range pd.Statements {
			s := &pd.Statements[si]
			out.Evaluated++
			var t, f []string
			v, amb := it.conds(&s.Conditions, &cur, ctx, st, func(k string, v bool, a string) {
				if a == "" {
					if v {
						t = append(t, k)
					} else {
						f = append(f, k)
					}
				}
			})
			if amb != "" {
				out.Amb = amb
				return
			}
			out.CondFalse = append(out.CondFalse, f...)
			if !v {
				out.CondTrue = append(out.CondTrue, t...) // true conditions of a statement that did not apply
				continue
			}
			out.CondTrue = append(out.CondTrue, t...)
			out.AppliedBy = append(out.AppliedBy, t...)
			out.Applied++
			if amb := it.actions(&s.Actions.BgpActions, &cur, ctx, st, &out); amb != "" {
				out.Amb = amb
				return
			}
			switch s.Actions.RouteDisposition {
			case "accept-route":
				out.Accept, out.Route, out.DecidedBy = true, cur, "statement"
				out.Actions = append(out.Actions, "accept")
				return
			case "reject-route":
				out.Accept, out.Route, out.DecidedBy = false, cur, "statement"
				out.Actions = append(out.Actions, "reject")
				return
			}
		}
	}
	out.Accept, out.Route, out.DecidedBy = defAccept, cur, "default"
	return
}

// ---- canonical form used to compare routes

// c10CanonPath merges adjacent AS_SEQUENCE segments and drops empty ones: how many segments carry a
// sequence is representation, not content.
func c10CanonPath(p []c10Seg) []c10Seg {
	var out []c10Seg
	for _, s := range p {
		if len(s.AS) == 0 {
			continue
		}
		if n := len(out); n > 0 && s.Type == c10SegSeq && out[n-1].Type == c10SegSeq {
			out[n-1].AS = append(out[n-1].AS, s.AS...)
			continue
		}
		out = append(out, c10Seg{Type: s.Type, AS: append([]uint32{}, s.AS...)})
	}
	return out
}

// c10Canon renders the attributes of a route as attribute-name -> text.
//
// Order of communities: policy.md speaks of adding / removing / replacing community *values*; it
// gives no order, so (extended, large) communities are compared as multisets (sorted).  When a value
// that is already present is added, the documents do not say whether it then appears once or twice;
// for such an attribute (setCmp) duplicates are collapsed on both sides.  An attribute whose list is
// empty and an absent attribute are the same route content.
func c10Canon(r *c10Route, setCmp map[string]bool) map[string]string {
	m := map[string]string{}
	m["origin"] = fmt.Sprint(r.Origin)
	m["as-path"] = c10AsPathText(c10CanonPath(r.ASPath))
	m["next-hop"] = r.NextHop.String()
	if r.HasMED {
		m["med"] = fmt.Sprint(r.MED)
	}
	if r.HasLP {
		m["local-pref"] = fmt.Sprint(r.LocalPref)
	}
	list := func(name string, xs []string) {
		sort.Strings(xs)
		if setCmp[name] {
			var u []string
			for i, x := range xs {
				if i == 0 || x != xs[i-1] {
					u = append(u, x)
				}
			}
			xs = u
		}
		if len(xs) > 0 {
			m[name] = strings.Join(xs, " ")
		}
	}
	var cs, es, ls []string
	for _, c := range r.Comms {
		cs = append(cs, c10CommText(c))
	}
	for _, e := range r.Exts {
		es = append(es, fmt.Sprintf("%x", e[:]))
	}
	for _, l := range r.LCs {
		ls = append(ls, c10LCText(l))
	}
	list("communities", cs)
	list("ext-communities", es)
	list("large-communities", ls)
	return m
}
