package table

// C09 (unit "table") — per-peer-type export rewriting, executed on the real table.UpdatePathAttrs (preceded by
// Path.ReplaceAS when replace-peer-as is configured, exactly as pkg/server calls them).
//
// Oracles:
//   - refmodel.C09Export / C09Check: independent rule table written from the property text and
//     RFC 4271/4456/5065/7947 over (source kind x target kind x options x attribute shape);
//   - non-mutation: the stored path (and the first produced copy) are snapshotted byte for byte, including
//     the backing arrays of all slice-valued attributes up to capacity, around two exports to different targets;
//   - TestVerifC09Race: the same exports run concurrently on one stored path under the race detector.

import (
	"fmt"
	"math/rand/v2"
	"sort"
	"strings"
	"sync"
	"testing"
	"time"

	"github.com/osrg/gobgp/v4/internal/verif/refmodel"
	"github.com/osrg/gobgp/v4/internal/verif/vlib"
	"github.com/osrg/gobgp/v4/pkg/config/oc"
	"github.com/osrg/gobgp/v4/pkg/packet/bgp"
)

var c09Kinds = []refmodel.C09Kind{refmodel.C09Local, refmodel.C09EBGP, refmodel.C09IBGP, refmodel.C09RRClient, refmodel.C09Confed}
var c09DstKinds = []refmodel.C09Kind{refmodel.C09EBGP, refmodel.C09IBGP, refmodel.C09RRClient, refmodel.C09RSClient, refmodel.C09Confed}

type c09Target struct {
	spec *refmodel.C09Peer
	g    *oc.Global
	n    *oc.Neighbor
	info *PeerInfo
}

func c09MakeTarget(rt *refmodel.C09Router, g *oc.Global, p *refmodel.C09Peer) (*c09Target, error) {
	if p == nil {
		return nil, nil
	}
	n, err := refmodel.C09Neighbor(g, rt, p)
	if err != nil {
		return nil, err
	}
	// the call pkg/server makes when a session reaches ESTABLISHED
	info := NewPeerInfo(g, n, n.State.PeerAs, n.Config.LocalAs, n.State.RemoteRouterId, g.Config.RouterId,
		n.Transport.State.RemoteAddress, n.Transport.State.LocalAddress)
	return &c09Target{spec: p, g: g, n: n, info: info}, nil
}

// c09Export is the order of calls in (*BgpServer).prePolicyFilterpath.
func c09Export(t *c09Target, stored *Path) *Path {
	p := stored
	if !p.IsWithdraw && t.n.AsPathOptions.State.ReplacePeerAs {
		p = p.ReplaceAS(t.n.Config.LocalAs, t.n.State.PeerAs) // the peer's AS (State: also known when peer-as is not configured)
	}
	return UpdatePathAttrs(verifLogger(), t.g, t.info, p)
}

func c09SnapPath(p *Path) map[string]string {
	m := refmodel.C09Snap(p.GetPathAttrs())
	if n := p.GetNlri(); n != nil {
		b, _ := n.Serialize()
		m["nlri"] = fmt.Sprintf("%x %s", b, n.String())
	}
	m["next-hop"] = p.GetNexthop().String()
	src := p.GetSource()
	m["meta"] = fmt.Sprint(p.GetFamily(), p.IsWithdraw, p.IsNexthopInvalid, p.IsRejected(), p.IsDropped(), p.localID, p.remoteID,
		src.AS, src.ID, src.Address, src.LocalAS, src.LocalID, src.RouteReflectorClient, p.IsStale(), p.GetTimestamp().Unix())
	// the overlay itself
	for q, d := p, 0; q != nil; q, d = q.parent, d+1 {
		ts := make([]string, 0, len(q.pathAttrs))
		for _, a := range q.pathAttrs {
			ts = append(ts, fmt.Sprint(a.GetType()))
		}
		m[fmt.Sprintf("overlay%d", d)] = fmt.Sprintf("attrs=%s dels=%v", strings.Join(ts, ","), q.dels)
	}
	return m
}

// c09Store builds the stored path for the model route. Variants exercise the parent chain: the stored path may
// itself be an overlay (as after an import policy) whose GetPathAttrs equals the model.
func c09Store(r *rand.Rand, ro *refmodel.C09Route, src *PeerInfo) (*Path, string, error) {
	fam, nlri, attrs, err := refmodel.C09Build(ro, r)
	if err != nil {
		return nil, "", err
	}
	ts := time.Unix(1000, 0)
	switch r.IntN(4) {
	case 0:
		root := NewPath(fam, src, bgp.PathNLRI{NLRI: nlri}, false, attrs, ts, false)
		return root.Clone(false), "clone", nil
	case 1:
		// root differs from the model in MED / LOCAL_PREF / COMMUNITIES; the overlay restores the model
		var rootAttrs []bgp.PathAttributeInterface
		var sets []bgp.PathAttributeInterface
		var dels []bgp.BGPAttrType
		hasLP := false
		for _, a := range attrs {
			switch a.GetType() {
			case bgp.BGP_ATTR_TYPE_MULTI_EXIT_DISC:
				rootAttrs = append(rootAttrs, bgp.NewPathAttributeMultiExitDisc(424242))
				sets = append(sets, a)
			case bgp.BGP_ATTR_TYPE_COMMUNITIES:
				sets = append(sets, a) // added by the overlay
			case bgp.BGP_ATTR_TYPE_LOCAL_PREF:
				hasLP = true
				rootAttrs = append(rootAttrs, a)
			default:
				rootAttrs = append(rootAttrs, a)
			}
		}
		if !hasLP {
			rootAttrs = append(rootAttrs, bgp.NewPathAttributeLocalPref(777))
			sort.SliceStable(rootAttrs, func(i, j int) bool { return rootAttrs[i].GetType() < rootAttrs[j].GetType() })
			dels = append(dels, bgp.BGP_ATTR_TYPE_LOCAL_PREF)
		}
		root := NewPath(fam, src, bgp.PathNLRI{NLRI: nlri}, false, rootAttrs, ts, false)
		st := root.Clone(false)
		for _, a := range sets {
			st.setPathAttr(a)
		}
		for _, d := range dels {
			st.delPathAttr(d)
		}
		return st, "overlay", nil
	}
	return NewPath(fam, src, bgp.PathNLRI{NLRI: nlri}, false, attrs, ts, false), "root", nil
}

func c09ObsText(o *refmodel.C09Obs) map[string]any {
	m := map[string]any{"as_path": refmodel.C09PathText(o.ASPath), "has_as_path": o.HasASPath, "next_hop": o.NextHop.String(), "mp": o.MP,
		"mp_family": o.MPFamily, "mp_next_hop": o.MPNextHop.String(), "mp_link_local": o.MPLinkLocal.String(),
		"originator": o.Originator.String(), "cluster_list": fmt.Sprint(o.ClusterList), "types": fmt.Sprint(o.Types)}
	if o.MED != nil {
		m["med"] = *o.MED
	}
	if o.LocalPref != nil {
		m["local_pref"] = *o.LocalPref
	}
	var u []string
	for t, x := range o.Unknown {
		u = append(u, fmt.Sprintf("%d/flags=%#x/%x", t, x.Flags, x.Value))
	}
	sort.Strings(u)
	m["unknown"] = u
	return m
}

type c09Case struct {
	rt     *refmodel.C09Router
	src    *refmodel.C09Peer
	dsts   []*c09Target
	route  *refmodel.C09Route
	stored *Path
	form   string
	in     *refmodel.C09Obs
}

func c09SrcKind(p *refmodel.C09Peer) refmodel.C09Kind {
	if p == nil {
		return refmodel.C09Local
	}
	return p.Kind
}

// c09GenCase: the (source kind, target kind) pair is enumerated by the case index, everything else is drawn.
func c09GenCase(r *rand.Rand, idx int, ndst int) (*c09Case, error) {
	c := &c09Case{rt: refmodel.C09GenRouter(r)}
	sk := c09Kinds[idx%len(c09Kinds)]
	dk := c09DstKinds[(idx/len(c09Kinds))%len(c09DstKinds)]
	if (sk == refmodel.C09Confed || dk == refmodel.C09Confed) && !c.rt.Confed {
		c.rt.Confed = true
		c.rt.ConfedID = 300
		c.rt.Members = []uint32{65101, 201}
	}
	g := refmodel.C09Global(c.rt)
	c.src = refmodel.C09GenPeer(r, c.rt, sk, 1)
	var specs []*refmodel.C09Peer
	for i := 0; i < ndst; i++ {
		k := dk
		if i > 0 {
			k = c09DstKinds[r.IntN(len(c09DstKinds))]
		}
		p := refmodel.C09GenPeer(r, c.rt, k, 2+i)
		if i == 0 && c.src != nil && r.IntN(25) == 0 && c.src.Kind == p.Kind {
			// a second session to the router the route came from
			p.RouterID = c.src.RouterID
			p.AS = c.src.AS
		}
		specs = append(specs, p)
	}
	for _, p := range specs {
		t, err := c09MakeTarget(c.rt, g, p)
		if err != nil {
			return nil, fmt.Errorf("target %v: %w", p.Describe(), err)
		}
		c.dsts = append(c.dsts, t)
	}
	c.route = refmodel.C09GenRoute(r, c.rt, c.src, specs)
	var srcInfo *PeerInfo
	if c.src != nil {
		st, err := c09MakeTarget(c.rt, g, c.src)
		if err != nil {
			return nil, fmt.Errorf("source %v: %w", c.src.Describe(), err)
		}
		srcInfo = st.info
	}
	var err error
	c.stored, c.form, err = c09Store(r, c.route, srcInfo)
	if err != nil {
		return nil, err
	}
	c.in = refmodel.C09Observe(c.stored.GetPathAttrs())
	return c, nil
}

func (c *c09Case) witness(idx int, dst *c09Target) map[string]any {
	w := map[string]any{"case": idx, "router": c.rt.Describe(), "source": c.src.Describe(), "stored_form": c.form,
		"stored": c09ObsText(c.in), "prefix": c.route.Prefix.String(), "shape": c.route.Shape}
	if dst != nil {
		w["target"] = dst.spec.Describe()
	}
	return w
}

func TestVerifC09(t *testing.T) {
	rec := vlib.Open("C09")
	defer rec.Close()
	total := vlib.Scale(50000, 2500000)
	vlib.Cases(total, func(idx int) {
		r := vlib.CaseRand("c09", idx)
		c, err := c09GenCase(r, idx, 2)
		if err != nil {
			t.Fatalf("case %d: harness cannot build the case: %v", idx, err)
		}
		// the harness' own construction must present the model route
		modelAttrs, _ := func() (*refmodel.C09Obs, error) {
			_, _, a, e := refmodel.C09Build(c.route, rand.New(rand.NewPCG(1, 1)))
			return refmodel.C09Observe(a), e
		}()
		if fmt.Sprint(modelAttrs.Raw, modelAttrs.Types) != fmt.Sprint(c.in.Raw, c.in.Types) {
			rec.Violation("c09:table:overlay-read:"+c.form, "GetPathAttrs of the stored path does not present the attributes it was built from",
				map[string]any{"case": idx, "form": c.form, "built": c09ObsText(modelAttrs), "read": c09ObsText(c.in)})
			return
		}
		snapStored := c09SnapPath(c.stored)
		var outs []*Path
		var snaps []map[string]string
		for i, dst := range c.dsts {
			rec.Eval()
			sk, dk := c09SrcKind(c.src), dst.spec.Kind
			pair := sk.String() + "->" + dk.String()
			rec.Count("pair:"+pair, 1)
			rec.Count("opt:"+dst.spec.Options(), 1)
			rec.Count("stored:"+c.form, 1)
			if dst.spec.Negotiated {
				rec.Count("peer-as-unset:target:"+dk.String(), 1)
			}
			if c.src != nil && c.src.Negotiated {
				rec.Count("peer-as-unset:source:"+sk.String(), 1)
			}
			var out *Path
			if rec.Guard("c09:table:export", func() any { return c.witness(idx, dst) }, func() { out = c09Export(dst, c.stored) }) {
				return
			}
			if out == nil {
				rec.Violation("c09:table:nil-result:"+pair, "UpdatePathAttrs returned nil", c.witness(idx, dst))
				return
			}
			exp := refmodel.C09Export(c.rt, c.src, dst.spec, c.in, false)
			for _, ru := range exp.Rules {
				rec.Count("rule:"+ru, 1)
			}
			obs := refmodel.C09Observe(out.GetPathAttrs())
			mm := refmodel.C09Check(exp, c.in, obs, dst.spec.LocalAddr)
			if !exp.Transparent {
				ps, pu := refmodel.C09PartialCount(obs)
				rec.Count("unknown_transitive_passed_with_partial_bit", ps)
				rec.Count("unknown_transitive_passed_without_partial_bit", pu)
			}
			if out.GetNlri() != c.stored.GetNlri() || out.GetFamily() != c.stored.GetFamily() || out.GetSource() != c.stored.GetSource() || out.IsWithdraw {
				mm = append(mm, refmodel.C09Mismatch{Rule: "identity", Detail: "the copy names another NLRI / family / source or is a withdrawal"})
			}
			if nh := out.GetNexthop(); nh != obs.NextHop && nh != obs.MPNextHop {
				mm = append(mm, refmodel.C09Mismatch{Rule: "nexthop-accessor", Detail: fmt.Sprintf("GetNexthop()=%v, attributes carry %v / %v", nh, obs.NextHop, obs.MPNextHop)})
			}
			seen := map[string]bool{}
			for _, m := range mm {
				if seen[m.Rule] {
					continue
				}
				seen[m.Rule] = true
				w := c.witness(idx, dst)
				w["produced"] = c09ObsText(obs)
				w["all_mismatches"] = fmt.Sprint(mm)
				rec.Violation("c09:table:"+m.Rule+":"+pair, m.Detail, w)
			}
			if c.src == nil || c.src.RouterID != dst.spec.RouterID {
				rec.Count("nontrivial_exports", 1)
				rec.Nontrivial(pair + "|" + dst.spec.Options() + "|" + c.route.Shape)
			} else {
				rec.Count("same_router_exports", 1)
			}
			outs = append(outs, out)
			snaps = append(snaps, c09SnapPath(out))
			// non-mutation: the stored path and every earlier copy
			if d := refmodel.C09SnapDiff(snapStored, c09SnapPath(c.stored)); len(d) > 0 {
				w := c.witness(idx, dst)
				w["changed"] = d
				rec.Violation("c09:table:stored-route-mutated:"+dk.String()+":"+c09DiffClass(d), fmt.Sprintf("producing the copy for a %s peer changed the stored route: %v", dk, d), w)
				snapStored = c09SnapPath(c.stored)
			}
			for j := 0; j < i; j++ {
				if d := refmodel.C09SnapDiff(snaps[j], c09SnapPath(outs[j])); len(d) > 0 {
					w := c.witness(idx, dst)
					w["changed"] = d
					w["first_target"] = c.dsts[j].spec.Describe()
					rec.Violation("c09:table:earlier-copy-mutated:"+dk.String()+":"+c09DiffClass(d), fmt.Sprintf("producing the copy for a %s peer changed the copy made for a %s peer: %v", dk, c.dsts[j].spec.Kind, d), w)
					snaps[j] = c09SnapPath(outs[j])
				}
			}
			rec.Count("snapshots_compared", 1+i)
		}
		if idx%1499 == 0 {
			rec.Sample(map[string]any{"case": idx, "source": c09SrcKind(c.src).String(), "targets": []string{c.dsts[0].spec.Kind.String(), c.dsts[1].spec.Kind.String()},
				"options": c.dsts[0].spec.Options(), "shape": c.route.Shape, "stored_as_path": refmodel.C09PathText(c.in.ASPath),
				"sent_as_path": refmodel.C09PathText(refmodel.C09Observe(outs[0].GetPathAttrs()).ASPath)})
		}
	})
}

// c09DiffClass abstracts a snapshot difference to the attribute kinds touched.
func c09DiffClass(d []string) string {
	set := map[string]bool{}
	for _, k := range d {
		switch {
		case strings.HasPrefix(k, "spare:"):
			set[k] = true
		case strings.HasPrefix(k, "attr"):
			set[k[strings.Index(k, ":")+1:]] = true
		default:
			set[strings.TrimRight(k, "0123456789")] = true
		}
	}
	var out []string
	for k := range set {
		out = append(out, k)
	}
	sort.Strings(out)
	if len(out) > 3 {
		out = append(out[:3], "more")
	}
	return strings.Join(out, "+")
}

// TestVerifC09Race runs the exports for several targets concurrently on one stored path (the way the
// per-peer goroutines of the daemon share a route), each goroutine also serialising what it produced,
// while the stored route is being read. Built with -race: any write to a shared attribute object is reported.
func TestVerifC09Race(t *testing.T) {
	rec := vlib.Open("C09")
	defer rec.Close()
	total := vlib.Scale(4000, 120000)
	vlib.Cases(total, func(idx int) {
		r := vlib.CaseRand("c09race", idx)
		c, err := c09GenCase(r, idx, 4)
		if err != nil {
			t.Fatalf("case %d: harness cannot build the case: %v", idx, err)
		}
		rec.Mark(fmt.Sprintf("race case %d src=%s shape=%s", idx, c09SrcKind(c.src), c.route.Shape), false)
		snapStored := c09SnapPath(c.stored)
		var wg sync.WaitGroup
		outs := make([]*Path, len(c.dsts))
		for i, dst := range c.dsts {
			wg.Add(1)
			go func() {
				defer wg.Done()
				defer func() {
					if e := recover(); e != nil {
						rec.Violation("c09:race:panic:"+dst.spec.Kind.String(), fmt.Sprint(e), c.witness(idx, dst))
					}
				}()
				for k := 0; k < 3; k++ {
					out := c09Export(dst, c.stored)
					for _, a := range out.GetPathAttrs() {
						a.Serialize()
					}
					out.GetNexthop()
					outs[i] = out
				}
			}()
		}
		wg.Add(1)
		go func() {
			defer wg.Done()
			for k := 0; k < 3; k++ {
				for _, a := range c.stored.GetPathAttrs() {
					a.Serialize()
				}
				c.stored.GetAsString()
			}
		}()
		wg.Wait()
		rec.Eval()
		rec.Count("concurrent_exports", 3*len(c.dsts))
		rec.Count("race_cases", 1)
		if d := refmodel.C09SnapDiff(snapStored, c09SnapPath(c.stored)); len(d) > 0 {
			w := c.witness(idx, nil)
			w["changed"] = d
			rec.Violation("c09:race:stored-route-mutated:"+c09DiffClass(d), fmt.Sprintf("concurrent exports changed the stored route: %v", d), w)
		}
		// the concurrently produced copies must be the ones a sequential export produces
		for i, dst := range c.dsts {
			seq := c09Export(dst, c.stored)
			if d := refmodel.C09SnapDiff(refmodel.C09Snap(seq.GetPathAttrs()), refmodel.C09Snap(outs[i].GetPathAttrs())); len(d) > 0 {
				w := c.witness(idx, dst)
				w["changed"] = d
				rec.Violation("c09:race:copy-differs:"+dst.spec.Kind.String(), fmt.Sprintf("copy produced concurrently differs from the sequential one: %v", d), w)
			}
			rec.Nontrivial(c09SrcKind(c.src).String() + "->" + dst.spec.Kind.String() + "|" + dst.spec.Options() + "|" + c.route.Shape)
		}
	})
}
