package rtr

// C19 (RPKI-RTR part) — ParseRTR and the per-PDU decoders are safe on hostile input, and every PDU
// the package can construct round-trips.
//
// Oracles: (A) no panic / caller's buffer unchanged / result independent of bytes lying beyond
// len(data) in the spare capacity / accepted values survive Serialize, %v and json.Marshal;
// (B) Serialize(m) equals an independent RFC 6810/8210 reference encoding written here,
// ParseRTR(Serialize(m)) is DeepEqual to m and re-serialises to the same bytes.

import (
	"bytes"
	"encoding/binary"
	"encoding/json"
	"fmt"
	"math/rand/v2"
	"net/netip"
	"reflect"
	"testing"

	"github.com/osrg/gobgp/v4/internal/verif/gen"
	"github.com/osrg/gobgp/v4/internal/verif/vlib"
)

const c19MaxReserialize = 1 << 20

func c19Addr4(r *rand.Rand) netip.Addr {
	var a [4]byte
	binary.BigEndian.PutUint32(a[:], r.Uint32())
	return netip.AddrFrom4(a)
}

func c19Addr6(r *rand.Rand) netip.Addr {
	var a [16]byte
	binary.BigEndian.PutUint64(a[:], r.Uint64())
	binary.BigEndian.PutUint64(a[8:], r.Uint64())
	if r.IntN(8) == 0 { // v4-mapped: netip keeps it a 16-byte address
		copy(a[:], []byte{0, 0, 0, 0, 0, 0, 0, 0, 0, 0, 0xff, 0xff})
	}
	return netip.AddrFrom16(a)
}

// c19GenPDU constructs one PDU through the package's constructors and returns it with its name and
// an independent reference encoding.
func c19GenPDU(r *rand.Rand) (RTRMessage, string, []byte) {
	ver := uint8(r.IntN(2))
	id := uint16(r.Uint32())
	sn := r.Uint32()
	hdr := func(typ uint8, sess uint16, l uint32) []byte {
		b := make([]byte, l)
		b[0] = ver
		b[1] = typ
		binary.BigEndian.PutUint16(b[2:], sess)
		binary.BigEndian.PutUint32(b[4:], l)
		return b
	}
	switch r.IntN(10) {
	case 0:
		m := NewRTRSerialNotify(id, sn)
		m.Version = ver
		ref := hdr(0, id, 12)
		binary.BigEndian.PutUint32(ref[8:], sn)
		return m, "serial_notify", ref
	case 1:
		m := NewRTRSerialQuery(id, sn)
		m.Version = ver
		ref := hdr(1, id, 12)
		binary.BigEndian.PutUint32(ref[8:], sn)
		return m, "serial_query", ref
	case 2:
		m := NewRTRResetQuery()
		m.Version = ver
		return m, "reset_query", hdr(2, 0, 8)
	case 3:
		m := NewRTRCacheResponse(id)
		m.Version = ver
		return m, "cache_response", hdr(3, id, 8)
	case 4:
		pl := uint8(r.IntN(33))
		ml := pl + uint8(r.IntN(33-int(pl)))
		a := c19Addr4(r)
		as := r.Uint32()
		fl := uint8(r.IntN(2))
		m := NewRTRIPPrefix(a, pl, ml, as, fl)
		m.Version = ver
		ref := hdr(4, 0, 20)
		ref[8], ref[9], ref[10] = fl, pl, ml
		copy(ref[12:], a.AsSlice())
		binary.BigEndian.PutUint32(ref[16:], as)
		return m, "ipv4_prefix", ref
	case 5:
		pl := uint8(r.IntN(129))
		ml := pl + uint8(r.IntN(129-int(pl)))
		a := c19Addr6(r)
		as := r.Uint32()
		fl := uint8(r.IntN(2))
		m := NewRTRIPPrefix(a, pl, ml, as, fl)
		m.Version = ver
		ref := hdr(6, 0, 32)
		ref[8], ref[9], ref[10] = fl, pl, ml
		copy(ref[12:], a.AsSlice())
		binary.BigEndian.PutUint32(ref[28:], as)
		return m, "ipv6_prefix", ref
	case 6:
		m := NewRTREndOfData(id, sn)
		m.Version = ver
		ref := hdr(7, id, 12)
		binary.BigEndian.PutUint32(ref[8:], sn)
		return m, "end_of_data", ref
	case 7:
		m := NewRTRCacheReset()
		m.Version = ver
		return m, "cache_reset", hdr(8, 0, 8)
	default:
		code := uint16(r.IntN(9))
		var pdu, text []byte
		if r.IntN(4) != 0 { // erroneous PDU: any non-error-report PDU bytes
			_, _, pdu = c19GenPDUNoErr(r)
			if r.IntN(3) == 0 {
				pdu = pdu[:2+r.IntN(len(pdu)-1)]
			}
		}
		if r.IntN(4) != 0 {
			text = make([]byte, r.IntN(40))
			for i := range text {
				text[i] = byte(0x20 + r.IntN(0x5f))
			}
		}
		m := NewRTRErrorReport(code, pdu, text)
		m.Version = ver
		l := uint32(16 + len(pdu) + len(text))
		ref := hdr(10, code, l)
		binary.BigEndian.PutUint32(ref[8:], uint32(len(pdu)))
		copy(ref[12:], pdu)
		binary.BigEndian.PutUint32(ref[12+len(pdu):], uint32(len(text)))
		copy(ref[16+len(pdu):], text)
		return m, "error_report", ref
	}
}

func c19GenPDUNoErr(r *rand.Rand) (RTRMessage, string, []byte) {
	for {
		m, n, ref := c19GenPDU(r)
		if n != "error_report" {
			return m, n, ref
		}
	}
}

// c19NormErr maps "nil vs empty" slack of RTRErrorReport byte fields (a PDU built with nil PDU/Text
// parses back with empty, non-nil slices: same message).
func c19Norm(m RTRMessage) RTRMessage {
	if e, ok := m.(*RTRErrorReport); ok {
		c := *e
		if len(c.PDU) == 0 {
			c.PDU = nil
		}
		if len(c.Text) == 0 {
			c.Text = nil
		}
		return &c
	}
	return m
}

func c19DeclLen(m RTRMessage) uint32 {
	switch v := m.(type) {
	case *RTRSerialNotify:
		return v.Len
	case *RTRSerialQuery:
		return v.Len
	case *RTREndOfData:
		return v.Len
	case *RTRResetQuery:
		return v.Len
	case *RTRCacheReset:
		return v.Len
	case *RTRCacheResponse:
		return v.Len
	case *RTRIPPrefix:
		return v.Len
	case *RTRErrorReport:
		return v.Len
	case *RTRCommon:
		return v.Len
	case *RTRReset:
		return v.Len
	}
	return 0
}

type c19Entry struct {
	name string
	call func([]byte) (RTRMessage, error)
}

var c19Entries = []c19Entry{
	{"ParseRTR", func(b []byte) (RTRMessage, error) { return ParseRTR(b) }},
	{"RTRCommon.DecodeFromBytes", func(b []byte) (RTRMessage, error) { m := &RTRCommon{}; return m, m.DecodeFromBytes(b) }},
	{"RTRReset.DecodeFromBytes", func(b []byte) (RTRMessage, error) { m := &RTRReset{}; return m, m.DecodeFromBytes(b) }},
	{"RTRCacheResponse.DecodeFromBytes", func(b []byte) (RTRMessage, error) {
		m := &RTRCacheResponse{}
		return m, m.DecodeFromBytes(b)
	}},
	{"RTRIPPrefix.DecodeFromBytes", func(b []byte) (RTRMessage, error) { m := &RTRIPPrefix{}; return m, m.DecodeFromBytes(b) }},
	{"RTRErrorReport.DecodeFromBytes", func(b []byte) (RTRMessage, error) { m := &RTRErrorReport{}; return m, m.DecodeFromBytes(b) }},
}

func c19TypeName(in []byte) string {
	if len(in) < 2 {
		return "short"
	}
	if in[1] > 10 {
		return "t>10"
	}
	return fmt.Sprintf("t%d", in[1])
}

func c19Hostile(rec *vlib.Rec, w *gen.C19Watch, r *rand.Rand, idx int) {
	var in []byte
	kind := "random"
	switch r.IntN(8) {
	case 0:
		in = gen.C19RandomBytes(r, 64)
		if len(in) > 1 && r.IntN(2) == 0 {
			in[1] = byte(r.IntN(12)) // steer pure random bytes into the type switch
		}
	case 1:
		_, _, a := c19GenPDU(r)
		_, _, b := c19GenPDU(r)
		in = gen.C19Splice(r, a, b)
		kind = "splice"
	default:
		_, _, v := c19GenPDU(r)
		fields := []gen.C19Field{{Off: 1, Size: 1}, {Off: 4, Size: 4}, {Off: 4, Size: 4}, {Off: 8, Size: 4}, {Off: 9, Size: 1}, {Off: 10, Size: 1}}
		if len(v) >= 16 && v[1] == RTR_ERROR_REPORT {
			pl := int(binary.BigEndian.Uint32(v[8:]))
			fields = append(fields, gen.C19Field{Off: 12 + pl, Size: 4}, gen.C19Field{Off: 12 + pl, Size: 4})
		}
		in, kind = gen.C19Mutate(r, v, fields)
		if r.IntN(48) == 0 && len(in) >= 8 { // moderately large length values: Serialize of the accepted value is executed
			binary.BigEndian.PutUint32(in[4:], uint32(r.IntN(1<<18)))
			kind += "+biglen"
		}
	}
	rec.Count("rtr_hostile_inputs", 1)
	rec.Count("rtr_hostile_kind_"+kind[:min(len(kind), 5)], 1)
	for _, ep := range c19Entries {
		w.Mark(idx, ep.name, in)
		wit := func() any {
			return map[string]any{"case": idx, "entry": ep.name, "input": gen.C19Hex(in), "mutation": kind}
		}
		exact := gen.C19Exact(in)
		var m RTRMessage
		var err error
		if rec.Guard("c19:rtr:"+ep.name, wit, func() { m, err = ep.call(exact) }) {
			continue
		}
		rec.Count("rtr_calls_"+ep.name, 1)
		if !bytes.Equal(exact, in) {
			rec.Violation("c19:rtr:"+ep.name+":buffer-modified", "decoder modified the caller's buffer", wit())
		}
		// over-read differential: identical data, different bytes beyond len(data)
		var ma, mb RTRMessage
		var ea, eb error
		pa := rec.Guard("c19:rtr:"+ep.name, wit, func() { ma, ea = ep.call(gen.C19Slack(in, 0xAA, 64)) })
		pb := rec.Guard("c19:rtr:"+ep.name, wit, func() { mb, eb = ep.call(gen.C19Slack(in, 0x55, 64)) })
		if !pa && !pb {
			if gen.C19ErrClass(ea) != gen.C19ErrClass(eb) || (ea == nil && !reflect.DeepEqual(ma, mb)) || gen.C19ErrClass(ea) != gen.C19ErrClass(err) || (ea == nil && !reflect.DeepEqual(ma, m)) {
				rec.Violation("c19:rtr:"+ep.name+":over-read", "result depends on bytes beyond len(data)",
					map[string]any{"case": idx, "entry": ep.name, "input": gen.C19Hex(in), "exact": fmt.Sprintf("%+v / %v", m, err), "poisonAA": fmt.Sprintf("%+v / %v", ma, ea), "poison55": fmt.Sprintf("%+v / %v", mb, eb)})
			}
		}
		rec.Nontrivial("rtr|" + ep.name + "|" + c19TypeName(in) + "|" + gen.C19ErrClass(err))
		if err != nil || m == nil {
			continue
		}
		rec.Count("rtr_accepted_"+ep.name, 1)
		// accepted values must survive printing, JSON and Serialize
		rec.Guard("c19:rtr:post-print", wit, func() { _ = fmt.Sprintf("%v %+v", m, m); _, _ = json.Marshal(m) })
		if dl := c19DeclLen(m); dl > c19MaxReserialize {
			// Serialize would allocate the declared length; not a stated refuting event, so only counted
			rec.Count("rtr_accepted_len_over_1MiB_not_reserialized", 1)
			continue
		}
		var out []byte
		var serr error
		if rec.Guard("c19:rtr:post-Serialize", wit, func() { out, serr = m.Serialize() }) {
			continue
		}
		rec.Count("rtr_reserialized", 1)
		if serr == nil && len(out) > 64*len(in)+(1<<20) {
			rec.Count("rtr_reserialize_output_over_64x_input", 1)
		}
		// informational: second-generation fixpoint on accepted hostile inputs
		if serr == nil && ep.name == "ParseRTR" {
			var m2 RTRMessage
			var e2 error
			if !rec.Guard("c19:rtr:ParseRTR", wit, func() { m2, e2 = ParseRTR(out) }) {
				if e2 == nil && reflect.DeepEqual(c19Norm(m), c19Norm(m2)) {
					rec.Count("rtr_accepted_refix_same", 1)
				} else {
					rec.Count("rtr_accepted_refix_diff", 1)
				}
			}
		}
	}
}

func c19RoundTrip(rec *vlib.Rec, w *gen.C19Watch, r *rand.Rand, idx int) {
	m, name, ref := c19GenPDU(r)
	w.Mark(idx, "roundtrip:"+name, ref)
	rec.Count("rtr_rt_"+name, 1)
	wit := func() any {
		return map[string]any{"case": idx, "pdu": name, "msg": fmt.Sprintf("%+v", m), "reference": gen.C19Hex(ref)}
	}
	var b1 []byte
	var err error
	if rec.Guard("c19:rtr:rt:Serialize", wit, func() { b1, err = m.Serialize() }) {
		return
	}
	if err != nil {
		rec.Violation("c19:rtr:rt:serialize-error:"+name, "constructible PDU does not serialise: "+err.Error(), wit())
		return
	}
	if !bytes.Equal(b1, ref) {
		rec.Violation("c19:rtr:rt:wire-mismatch:"+name, "Serialize differs from the RFC 6810/8210 reference encoding",
			map[string]any{"case": idx, "pdu": name, "msg": fmt.Sprintf("%+v", m), "got": gen.C19Hex(b1), "want": gen.C19Hex(ref)})
	}
	var m2 RTRMessage
	if rec.Guard("c19:rtr:rt:ParseRTR", wit, func() { m2, err = ParseRTR(gen.C19Exact(b1)) }) {
		return
	}
	if err != nil {
		rec.Violation("c19:rtr:rt:parse-error:"+name, "Serialize output of a constructible PDU is rejected by ParseRTR: "+err.Error(),
			map[string]any{"case": idx, "pdu": name, "msg": fmt.Sprintf("%+v", m), "bytes": gen.C19Hex(b1)})
		return
	}
	if !reflect.DeepEqual(c19Norm(m), c19Norm(m2)) {
		rec.Violation("c19:rtr:rt:not-equal:"+name, "ParseRTR(Serialize(m)) != m",
			map[string]any{"case": idx, "pdu": name, "msg": fmt.Sprintf("%+v", m), "parsed": fmt.Sprintf("%+v", m2), "bytes": gen.C19Hex(b1)})
	}
	var b2 []byte
	if rec.Guard("c19:rtr:rt:Serialize", wit, func() { b2, err = m2.Serialize() }) {
		return
	}
	if err != nil || !bytes.Equal(b1, b2) {
		rec.Violation("c19:rtr:rt:reserialize-differs:"+name, "Serialize(Parse(Serialize(m))) != Serialize(m)",
			map[string]any{"case": idx, "pdu": name, "first": gen.C19Hex(b1), "second": gen.C19Hex(b2), "err": fmt.Sprint(err)})
	}
	// a stream reader sees PDUs back to back: the PDU parses the same when followed by another one
	_, _, next := c19GenPDU(r)
	var m3 RTRMessage
	if !rec.Guard("c19:rtr:rt:ParseRTR", wit, func() { m3, err = ParseRTR(append(gen.C19Exact(b1), next...)) }) {
		if err != nil || !reflect.DeepEqual(c19Norm(m), c19Norm(m3)) {
			rec.Violation("c19:rtr:rt:trailing-pdu-changes-result:"+name, "a PDU followed by another PDU in the same buffer parses differently",
				map[string]any{"case": idx, "pdu": name, "bytes": gen.C19Hex(b1), "next": gen.C19Hex(next), "err": fmt.Sprint(err)})
		}
	}
	rec.Nontrivial("rtr|rt|" + name + fmt.Sprintf("|v%d|len%d", b1[0], len(b1)/8))
}

func TestVerifC19(t *testing.T) {
	rec := vlib.Open("C19")
	defer rec.Close()
	w := &gen.C19Watch{Rec: rec, N: 512}
	total := vlib.Scale(60000, 1200000)
	vlib.Cases(total, func(idx int) {
		r := vlib.CaseRand("c19rtr", idx)
		rec.Eval()
		if r.IntN(4) == 3 { // (drawn from the case PRNG so that every shard gets every kind)
			c19RoundTrip(rec, w, r, idx)
		} else {
			c19Hostile(rec, w, r, idx)
		}
		if idx%9973 == 0 {
			m, name, ref := c19GenPDU(r)
			rec.Sample(map[string]any{"proto": "rtr", "pdu": name, "msg": fmt.Sprintf("%+v", m), "wire": gen.C19Hex(ref)})
		}
	})
}
