// Package wire is a small, independent reader of BGP message framing written from the RFCs
// (RFC 4271 section 4, RFC 4760 section 3/4, RFC 7911 section 3, RFC 8654, RFC 3107/8277 and
// RFC 4364 for the labelled families). It imports nothing from gobgp: it is the "independent
// reading of the framing rules" used by C04 and the receiver-side decoder of C01/C11.
//
// It checks framing only (lengths, nesting, prefix bit-length versus octets, presence of the
// ADD-PATH path identifier); it attaches no meaning to attribute values.
package wire

import (
	"encoding/binary"
	"errors"
	"fmt"
)

const (
	HeaderLen   = 19
	MaxLen      = 4096
	MaxLenExt   = 65535
	MsgOpen     = 1
	MsgUpdate   = 2
	MsgNotif    = 3
	MsgKeep     = 4
	MsgRefresh  = 5
	AttrMPReach = 14
	AttrMPUnrch = 15

	FlagOptional   = 0x80
	FlagTransitive = 0x40
	FlagPartial    = 0x20
	FlagExtLen     = 0x10
)

// Family is an (AFI, SAFI) pair.
type Family struct {
	AFI  uint16
	SAFI uint8
}

func (f Family) String() string { return fmt.Sprintf("%d/%d", f.AFI, f.SAFI) }

// Options are the negotiated session parameters that change the wire grammar.
type Options struct {
	AddPath         map[Family]bool // path identifier present in NLRI of this family (RFC 7911)
	ExtendedMessage bool            // RFC 8654 negotiated
}

func (o Options) addPath(f Family) bool { return o.AddPath != nil && o.AddPath[f] }

// Prefix is one NLRI element of a prefix-encoded family: optional path id, length in bits, and
// ceil(bits/8) octets. For the labelled families (SAFI 4, 128, 129) the octets still contain the
// label stack and, for VPN families, the route distinguisher; see SplitLabelled.
type Prefix struct {
	PathID    uint32
	HasPathID bool
	BitLen    int
	Bytes     []byte
	Off       int // offset of the first octet of this element (path id or length octet) in the enclosing field
}

func (p Prefix) String() string {
	if p.HasPathID {
		return fmt.Sprintf("%x/%d#%d", p.Bytes, p.BitLen, p.PathID)
	}
	return fmt.Sprintf("%x/%d", p.Bytes, p.BitLen)
}

// Key is a comparable identity of the element (path id, bit length, octets).
func (p Prefix) Key() string { return p.String() }

// Attr is one path attribute TLV.
type Attr struct {
	Flags  uint8
	Type   uint8
	Value  []byte
	Off    int // offset of the flags octet inside the UPDATE body
	HdrLen int // 3, or 4 with the extended-length bit
}

// MPReach is a decoded MP_REACH_NLRI value (RFC 4760 section 3).
type MPReach struct {
	Family   Family
	NextHop  []byte
	Reserved uint8
	Raw      []byte   // the NLRI field, undecoded
	RawOff   int      // offset of Raw inside the attribute value
	Parsed   bool     // true if the family is prefix-encoded and NLRI is filled in
	NLRI     []Prefix // only if Parsed
}

// MPUnreach is a decoded MP_UNREACH_NLRI value (RFC 4760 section 4).
type MPUnreach struct {
	Family Family
	Raw    []byte
	RawOff int
	Parsed bool
	NLRI   []Prefix
}

// Update is the framing of an UPDATE message body.
type Update struct {
	WithdrawnLen int
	AttrLen      int
	AttrOff      int // offset of the first attribute in the body
	Withdrawn    []Prefix
	Attrs        []Attr
	NLRI         []Prefix
	MPReach      []*MPReach
	MPUnreach    []*MPUnreach
}

var errShort = errors.New("short")

// ParseHeader checks the 19-octet header of one message (marker all ones, 19 <= length,
// length == len(msg)) and returns the type and the body.
func ParseHeader(msg []byte) (typ uint8, body []byte, err error) {
	if len(msg) < HeaderLen {
		return 0, nil, fmt.Errorf("message shorter than a header: %d", len(msg))
	}
	for i := 0; i < 16; i++ {
		if msg[i] != 0xff {
			return 0, nil, fmt.Errorf("marker octet %d is %#x", i, msg[i])
		}
	}
	l := int(binary.BigEndian.Uint16(msg[16:18]))
	if l < HeaderLen {
		return 0, nil, fmt.Errorf("header length %d < 19", l)
	}
	if l != len(msg) {
		return 0, nil, fmt.Errorf("header length %d != message octets %d", l, len(msg))
	}
	return msg[18], msg[HeaderLen:], nil
}

// CheckLength applies the per-type maximum (RFC 4271 section 4.1, RFC 8654 sections 4 and 6) and
// the per-type minimum length.
func CheckLength(msg []byte, opt Options) error {
	typ, _, err := ParseHeader(msg)
	if err != nil {
		return err
	}
	maxLen := MaxLen
	if opt.ExtendedMessage && typ != MsgOpen && typ != MsgKeep {
		maxLen = MaxLenExt
	}
	if len(msg) > maxLen {
		return fmt.Errorf("type %d message of %d octets exceeds the maximum %d", typ, len(msg), maxLen)
	}
	minLen := HeaderLen
	switch typ {
	case MsgOpen:
		minLen = 29
	case MsgUpdate:
		minLen = 23
	case MsgNotif:
		minLen = 21
	case MsgRefresh:
		minLen = 23
	case MsgKeep:
		if len(msg) != HeaderLen {
			return fmt.Errorf("KEEPALIVE of %d octets", len(msg))
		}
	default:
		return fmt.Errorf("unknown message type %d", typ)
	}
	if len(msg) < minLen {
		return fmt.Errorf("type %d message of %d octets is shorter than the minimum %d", typ, len(msg), minLen)
	}
	return nil
}

// SplitMessages cuts a byte stream into messages (each including its header) using the header
// length field; the stream must end on a message boundary.
func SplitMessages(b []byte) ([][]byte, error) {
	var out [][]byte
	for len(b) > 0 {
		if len(b) < HeaderLen {
			return out, fmt.Errorf("%d trailing octets do not hold a header", len(b))
		}
		for i := 0; i < 16; i++ {
			if b[i] != 0xff {
				return out, fmt.Errorf("message %d: marker octet %d is %#x", len(out), i, b[i])
			}
		}
		l := int(binary.BigEndian.Uint16(b[16:18]))
		if l < HeaderLen {
			return out, fmt.Errorf("message %d: header length %d < 19", len(out), l)
		}
		if l > len(b) {
			return out, fmt.Errorf("message %d: header length %d exceeds the %d octets left", len(out), l, len(b))
		}
		out = append(out, b[:l:l])
		b = b[l:]
	}
	return out, nil
}

// prefixFamily reports whether NLRI of the family is a sequence of <length in bits, prefix> tuples
// (RFC 4760 section 5): unicast, multicast, labelled unicast, VPN and VPN multicast of IPv4/IPv6.
func prefixFamily(f Family) (maxBits int, ok bool) {
	if f.AFI != 1 && f.AFI != 2 {
		return 0, false
	}
	addr := 32
	if f.AFI == 2 {
		addr = 128
	}
	switch f.SAFI {
	case 1, 2:
		return addr, true
	case 4:
		return 255, true // label stack of unbounded depth: only the octet bound applies
	case 128, 129:
		return 255, true
	}
	return 0, false
}

// ParsePrefixes decodes a field consisting solely of <[path id,] length, prefix> tuples.
// maxBits bounds the length octet (32/128 for plain prefixes).
func ParsePrefixes(field []byte, addPath bool, maxBits int) ([]Prefix, error) {
	var out []Prefix
	off := 0
	for off < len(field) {
		p := Prefix{Off: off}
		if addPath {
			if len(field)-off < 4 {
				return out, fmt.Errorf("element %d at %d: %d octets cannot hold a path identifier", len(out), off, len(field)-off)
			}
			p.PathID = binary.BigEndian.Uint32(field[off:])
			p.HasPathID = true
			off += 4
		}
		if off >= len(field) {
			return out, fmt.Errorf("element %d: no length octet after the path identifier", len(out))
		}
		p.BitLen = int(field[off])
		off++
		if p.BitLen > maxBits {
			return out, fmt.Errorf("element %d at %d: length %d bits exceeds %d", len(out), p.Off, p.BitLen, maxBits)
		}
		n := (p.BitLen + 7) / 8
		if len(field)-off < n {
			return out, fmt.Errorf("element %d at %d: length %d bits needs %d octets, %d left", len(out), p.Off, p.BitLen, n, len(field)-off)
		}
		p.Bytes = field[off : off+n : off+n]
		off += n
		out = append(out, p)
	}
	return out, nil
}

// ParseAttrs splits the Path Attributes field into TLVs (RFC 4271 section 4.3). base is added to
// the recorded offsets.
func ParseAttrs(field []byte, base int) ([]Attr, error) {
	var out []Attr
	off := 0
	for off < len(field) {
		if len(field)-off < 3 {
			return out, fmt.Errorf("attribute %d at %d: %d octets cannot hold flags, type and length", len(out), off, len(field)-off)
		}
		a := Attr{Flags: field[off], Type: field[off+1], Off: base + off, HdrLen: 3}
		l := int(field[off+2])
		if a.Flags&FlagExtLen != 0 {
			if len(field)-off < 4 {
				return out, fmt.Errorf("attribute %d (type %d) at %d: no room for a two-octet length", len(out), a.Type, off)
			}
			l = int(binary.BigEndian.Uint16(field[off+2:]))
			a.HdrLen = 4
		}
		if len(field)-off-a.HdrLen < l {
			return out, fmt.Errorf("attribute %d (type %d) at %d: length %d exceeds the %d octets left in the attribute field", len(out), a.Type, off, l, len(field)-off-a.HdrLen)
		}
		a.Value = field[off+a.HdrLen : off+a.HdrLen+l : off+a.HdrLen+l]
		off += a.HdrLen + l
		out = append(out, a)
	}
	return out, nil
}

// ParseMPReach decodes the value of an MP_REACH_NLRI attribute.
func ParseMPReach(v []byte, opt Options) (*MPReach, error) {
	if len(v) < 5 {
		return nil, fmt.Errorf("MP_REACH value of %d octets is shorter than AFI, SAFI, next-hop length and reserved", len(v))
	}
	m := &MPReach{Family: Family{binary.BigEndian.Uint16(v), v[2]}}
	nh := int(v[3])
	if len(v) < 4+nh+1 {
		return nil, fmt.Errorf("MP_REACH next-hop length %d plus the reserved octet exceeds the value (%d octets)", nh, len(v))
	}
	m.NextHop = v[4 : 4+nh : 4+nh]
	m.Reserved = v[4+nh]
	m.RawOff = 4 + nh + 1
	m.Raw = v[m.RawOff:]
	if maxBits, ok := prefixFamily(m.Family); ok {
		ps, err := ParsePrefixes(m.Raw, opt.addPath(m.Family), maxBits)
		if err != nil {
			return m, fmt.Errorf("MP_REACH %v NLRI: %v", m.Family, err)
		}
		m.NLRI, m.Parsed = ps, true
	}
	return m, nil
}

// ParseMPUnreach decodes the value of an MP_UNREACH_NLRI attribute.
func ParseMPUnreach(v []byte, opt Options) (*MPUnreach, error) {
	if len(v) < 3 {
		return nil, fmt.Errorf("MP_UNREACH value of %d octets is shorter than AFI and SAFI", len(v))
	}
	m := &MPUnreach{Family: Family{binary.BigEndian.Uint16(v), v[2]}, RawOff: 3, Raw: v[3:]}
	if maxBits, ok := prefixFamily(m.Family); ok {
		ps, err := ParsePrefixes(m.Raw, opt.addPath(m.Family), maxBits)
		if err != nil {
			return m, fmt.Errorf("MP_UNREACH %v withdrawn routes: %v", m.Family, err)
		}
		m.NLRI, m.Parsed = ps, true
	}
	return m, nil
}

// ParseUpdate decodes the framing of an UPDATE body (the octets after the 19-octet header).
func ParseUpdate(body []byte, opt Options) (*Update, error) {
	u := &Update{}
	if len(body) < 4 {
		return nil, fmt.Errorf("UPDATE body of %d octets cannot hold the two length fields", len(body))
	}
	u.WithdrawnLen = int(binary.BigEndian.Uint16(body))
	if 2+u.WithdrawnLen+2 > len(body) {
		return nil, fmt.Errorf("withdrawn routes length %d exceeds the body (%d octets)", u.WithdrawnLen, len(body))
	}
	v4 := Family{1, 1}
	var err error
	if u.Withdrawn, err = ParsePrefixes(body[2:2+u.WithdrawnLen], opt.addPath(v4), 32); err != nil {
		return u, fmt.Errorf("withdrawn routes: %v", err)
	}
	p := 2 + u.WithdrawnLen
	u.AttrLen = int(binary.BigEndian.Uint16(body[p:]))
	p += 2
	u.AttrOff = p
	if p+u.AttrLen > len(body) {
		return u, fmt.Errorf("total path attribute length %d exceeds the %d octets left in the body", u.AttrLen, len(body)-p)
	}
	if u.Attrs, err = ParseAttrs(body[p:p+u.AttrLen], p); err != nil {
		return u, fmt.Errorf("path attributes: %v", err)
	}
	for _, a := range u.Attrs {
		switch a.Type {
		case AttrMPReach:
			m, err := ParseMPReach(a.Value, opt)
			if err != nil {
				return u, err
			}
			u.MPReach = append(u.MPReach, m)
		case AttrMPUnrch:
			m, err := ParseMPUnreach(a.Value, opt)
			if err != nil {
				return u, err
			}
			u.MPUnreach = append(u.MPUnreach, m)
		}
	}
	if u.NLRI, err = ParsePrefixes(body[p+u.AttrLen:], opt.addPath(v4), 32); err != nil {
		return u, fmt.Errorf("NLRI: %v", err)
	}
	return u, nil
}

// Capability is one capability TLV of an OPEN (RFC 5492).
type Capability struct {
	Code  uint8
	Value []byte
	Off   int // offset of the code octet in the OPEN body
}

// OptParam is one optional parameter of an OPEN.
type OptParam struct {
	Type  uint8
	Value []byte
	Off   int
	Caps  []Capability // for type 2
}

// Open is the framing of an OPEN body (RFC 4271 section 4.2; the RFC 9072 extended form is not
// decoded).
type Open struct {
	Version  uint8
	AS       uint16
	HoldTime uint16
	ID       [4]byte
	Params   []OptParam
}

// ParseOpen decodes the framing of an OPEN body.
func ParseOpen(body []byte) (*Open, error) {
	if len(body) < 10 {
		return nil, fmt.Errorf("OPEN body of %d octets is shorter than the fixed part", len(body))
	}
	o := &Open{Version: body[0], AS: binary.BigEndian.Uint16(body[1:]), HoldTime: binary.BigEndian.Uint16(body[3:])}
	copy(o.ID[:], body[5:9])
	pl := int(body[9])
	if 10+pl != len(body) {
		return o, fmt.Errorf("optional parameters length %d but %d octets follow", pl, len(body)-10)
	}
	off := 10
	for off < len(body) {
		if len(body)-off < 2 {
			return o, fmt.Errorf("optional parameter at %d: no room for type and length", off)
		}
		p := OptParam{Type: body[off], Off: off}
		l := int(body[off+1])
		if len(body)-off-2 < l {
			return o, fmt.Errorf("optional parameter type %d at %d: length %d exceeds the %d octets left", p.Type, off, l, len(body)-off-2)
		}
		p.Value = body[off+2 : off+2+l : off+2+l]
		if p.Type == 2 {
			c := 0
			for c < l {
				if l-c < 2 {
					return o, fmt.Errorf("capability at %d: no room for code and length", off+2+c)
				}
				cl := int(p.Value[c+1])
				if l-c-2 < cl {
					return o, fmt.Errorf("capability code %d at %d: length %d exceeds the %d octets left in the parameter", p.Value[c], off+2+c, cl, l-c-2)
				}
				p.Caps = append(p.Caps, Capability{Code: p.Value[c], Value: p.Value[c+2 : c+2+cl : c+2+cl], Off: off + 2 + c})
				c += 2 + cl
			}
		}
		off += 2 + l
		o.Params = append(o.Params, p)
	}
	return o, nil
}

// Labelled is the content of a labelled (SAFI 4) or VPN (SAFI 128/129) NLRI element.
type Labelled struct {
	Labels   []uint32 // 20-bit label values, top first; for the 0x800000 / 0x000000 withdraw forms the raw 24 bits in Raw24
	Raw24    []uint32 // the 24-bit label fields as sent
	RD       []byte   // 8 octets, VPN families only
	AddrBits int
	Addr     []byte
}

// SplitLabelled decodes the label stack and, for VPN families, the 8-octet route distinguisher in
// front of the address prefix. In reachable NLRI the stack is a run of 3-octet entries ending with
// the bottom-of-stack bit (RFC 3107 section 3, RFC 8277 section 2.3); in withdrawn NLRI the label
// field is a single 3-octet "compatibility" field whose content is ignored (RFC 8277 section 2.4).
func SplitLabelled(p Prefix, vpn bool, withdrawn bool) (*Labelled, error) {
	l := &Labelled{}
	b := p.Bytes
	bits := p.BitLen
	for {
		if len(b) < 3 || bits < 24 {
			return l, fmt.Errorf("label stack is not terminated within the prefix (%d bits left)", bits)
		}
		raw := uint32(b[0])<<16 | uint32(b[1])<<8 | uint32(b[2])
		b = b[3:]
		bits -= 24
		l.Raw24 = append(l.Raw24, raw)
		l.Labels = append(l.Labels, raw>>4)
		if withdrawn || raw&1 == 1 {
			break
		}
	}
	if vpn {
		if len(b) < 8 || bits < 64 {
			return l, fmt.Errorf("no room for a route distinguisher (%d bits left)", bits)
		}
		l.RD = b[:8:8]
		b = b[8:]
		bits -= 64
	}
	l.AddrBits = bits
	l.Addr = b
	if len(b) != (bits+7)/8 {
		return l, fmt.Errorf("address part: %d bits but %d octets", bits, len(b))
	}
	return l, nil
}
