// Package vlib is the small runtime shared by all /verif harness tests: case scheduling
// (seed, tier, shard), deterministic per-case PRNGs, and the event log that the ./check driver
// aggregates into verdicts and evidence. It is injected into /repo builds through -overlay at
// /repo/internal/verif/vlib and never written into /repo.
package vlib

import (
	"encoding/json"
	"fmt"
	"hash/fnv"
	"math/rand/v2"
	"os"
	"regexp"
	"runtime"
	"runtime/debug"
	"sort"
	"strconv"
	"strings"
	"sync"
	"sync/atomic"
	"time"
)

func envInt(name string, def int64) int64 {
	if v := os.Getenv(name); v != "" {
		if n, err := strconv.ParseInt(v, 10, 64); err == nil {
			return n
		}
	}
	return def
}

// Seed is VERIF_SEED (default 1).
func Seed() int64 { return envInt("VERIF_SEED", 1) }

// Tier is "quick" or "thorough".
func Tier() string {
	if os.Getenv("VERIF_TIER") == "thorough" {
		return "thorough"
	}
	return "quick"
}

// Thorough reports whether the thorough tier is running.
func Thorough() bool { return Tier() == "thorough" }

// Shard returns (index, count).
func Shard() (int, int) {
	n := int(envInt("VERIF_NSHARD", 1))
	i := int(envInt("VERIF_SHARD", 0))
	if n < 1 {
		n = 1
	}
	return i % n, n
}

// Scale returns the tier's total number of cases (summed over all shards).
func Scale(quick, thorough int) int {
	n := quick
	if Thorough() {
		n = thorough
	}
	// VERIF_LIMIT caps the case count (development aid; registered commands never set it)
	if l := int(envInt("VERIF_LIMIT", 0)); l > 0 && l < n {
		n = l
	}
	return n
}

// OnlyCase returns the case index selected by VERIF_CASE for a replay, or -1.
func OnlyCase() int { return int(envInt("VERIF_CASE", -1)) }

// Cases calls f(idx) for every case index of this shard out of total (all of them are a pure
// function of (seed, idx), so a single index can be replayed with VERIF_CASE).
func Cases(total int, f func(idx int)) {
	loopsStarted.Add(1)
	if c := OnlyCase(); c >= 0 {
		f(c)
		loopsFinished.Add(1)
		return
	}
	i, n := Shard()
	for idx := i; idx < total; idx += n {
		lastCaseStart.Store(time.Now().UnixNano())
		lastCaseIdx.Store(int64(idx))
		f(idx)
	}
	loopsFinished.Add(1)
}

// case loops begun / run to their last case: a test that is torn down in the middle of a loop (FailNow or
// Goexit from the testing package, e.g. after a race report) still runs the deferred Close, which then says
// that the shard did not evaluate all of its cases.
var loopsStarted, loopsFinished atomic.Int64

// progress of the case loop, for the stall monitor (a harness need not call Mark)
var (
	lastCaseStart atomic.Int64
	lastCaseIdx   atomic.Int64
)

func h64(s string) uint64 {
	h := fnv.New64a()
	h.Write([]byte(s))
	return h.Sum64()
}

// Hash is a short stable hash of a string, for distinctness keys.
func Hash(s string) string { return strconv.FormatUint(h64(s), 36) }

// CaseRand returns the PRNG of case idx of stream name: a pure function of (VERIF_SEED, name, idx).
func CaseRand(name string, idx int) *rand.Rand {
	return rand.New(rand.NewPCG(uint64(Seed())*0x9E3779B97F4A7C15+uint64(idx), h64(name)^uint64(idx)*0xD1B54A32D192ED03))
}

// Rec is the per-process event recorder. Safe for concurrent use.
type Rec struct {
	mu      sync.Mutex
	prop    string
	f       *os.File
	counts  map[string]int64
	nt      map[string]struct{}
	samples int
	viols   map[string]int
	cur     string
	curFile string

	lastMark atomic.Int64
	closed   atomic.Bool
}

const maxNT = 400000

// Open creates the recorder for property prop, writing to $VERIF_OUT (or stderr-less /dev/null).
func Open(prop string) *Rec {
	r := &Rec{prop: prop, counts: map[string]int64{}, nt: map[string]struct{}{}, viols: map[string]int{}}
	if p := os.Getenv("VERIF_OUT"); p != "" {
		f, err := os.OpenFile(p, os.O_CREATE|os.O_WRONLY|os.O_APPEND, 0o644)
		if err == nil {
			r.f = f
			r.curFile = p + ".cur"
		}
	}
	r.emit(map[string]any{"t": "open", "prop": prop, "seed": Seed(), "tier": Tier()})
	r.lastMark.Store(time.Now().UnixNano())
	go r.stallDump()
	return r
}

// stallDump is diagnostics only (never a verdict): if no case has been marked for
// VERIF_STALL_S wall seconds (default 180) it writes the stacks of ALL goroutines - including
// running ones, which a SIGQUIT dump cannot show - next to the event log, once.
func (r *Rec) stallDump() {
	limit := time.Duration(envInt("VERIF_STALL_S", 180)) * time.Second
	for {
		time.Sleep(5 * time.Second)
		if r.closed.Load() {
			return
		}
		if r.curFile != "" {
			// heartbeat for the driver: as long as this goroutine gets scheduled the Go runtime is alive
			os.WriteFile(strings.TrimSuffix(r.curFile, ".cur")+".hb", []byte(strconv.FormatInt(time.Now().Unix(), 10)), 0o644)
		}
		last := r.lastMark.Load()
		if c := lastCaseStart.Load(); c > last {
			last = c
		}
		if time.Since(time.Unix(0, last)) > limit {
			buf := make([]byte, 64<<20)
			n := runtime.Stack(buf, true)
			if r.curFile != "" {
				os.WriteFile(strings.TrimSuffix(r.curFile, ".cur")+".stall.txt", buf[:n], 0o644)
				r.mu.Lock()
				cur := r.cur
				r.mu.Unlock()
				if cur == "" || lastCaseStart.Load() > r.lastMark.Load() {
					cur = fmt.Sprintf("case %d (no Mark since it started) %s", lastCaseIdx.Load(), cur)
				}
				os.WriteFile(r.curFile, []byte(cur), 0o644) // the case that did not finish (Mark writes it only when heavy)
			}
			if key, what := deadlockIn(string(buf[:n])); key != "" {
				// every goroutine is blocked and some of them on a mutex: nothing can wake them any more.
				// This is hard evidence on its own (no second strike needed).
				dump := string(buf[:n])
				if len(dump) > 120000 {
					dump = dump[:120000]
				}
				r.mu.Lock()
				cur := r.cur
				r.mu.Unlock()
				r.Violation(key, what, map[string]any{"current_case": fmt.Sprintf("case %d %s", lastCaseIdx.Load(), cur), "stacks": dump})
			}
			if os.Getenv("VERIF_STALL_EXIT") != "" {
				// give up on the shard now instead of waiting for the driver's watchdog; the driver
				// treats exit code 98 like its own watchdog firing (first strike of the two-strike
				// hang rule) and re-runs the stalled case alone.
				fmt.Fprintf(os.Stderr, "vlib: no case finished for %v, stall dump written, exiting 98\n", limit)
				os.Exit(98)
			}
			return
		}
	}
}

func (r *Rec) emit(m map[string]any) {
	if r.f == nil {
		return
	}
	b, err := json.Marshal(m)
	if err != nil {
		b, _ = json.Marshal(map[string]any{"t": "err", "what": err.Error()})
	}
	r.f.Write(append(b, '\n'))
}

// Count adds n to the named counter ("evaluations" is the evidence's evaluations).
func (r *Rec) Count(name string, n int) {
	r.mu.Lock()
	r.counts[name] += int64(n)
	r.mu.Unlock()
}

// Eval counts one evaluated case.
func (r *Rec) Eval() { r.Count("evaluations", 1) }

// Nontrivial records a distinctness key of a non-trivial case.
func (r *Rec) Nontrivial(key string) {
	r.mu.Lock()
	if len(r.nt) < maxNT {
		if len(key) > 24 {
			key = Hash(key)
		}
		r.nt[key] = struct{}{}
	}
	r.mu.Unlock()
}

// Sample records an example case (at most 4 per process are kept).
func (r *Rec) Sample(v any) {
	r.mu.Lock()
	defer r.mu.Unlock()
	if r.samples >= 4 {
		return
	}
	r.samples++
	r.emit(map[string]any{"t": "sample", "v": v})
}

// Mark remembers the case being executed; heavy=true also writes it to a side file so a
// process-fatal error (which recover() never sees) is attributable.
func (r *Rec) Mark(desc string, heavy bool) {
	r.lastMark.Store(time.Now().UnixNano())
	r.mu.Lock()
	r.cur = desc
	r.mu.Unlock()
	if heavy && r.curFile != "" {
		os.WriteFile(r.curFile, []byte(desc), 0o644)
	}
}

// Violation records a refutation. key identifies the failing input / call site / history shape
// (it is what known_findings.json matches on); witness must make the case replayable.
// At most 3 witnesses per key are written out per process.
func (r *Rec) Violation(key, what string, witness any) {
	r.mu.Lock()
	defer r.mu.Unlock()
	r.viols[key]++
	if r.viols[key] > 3 {
		return
	}
	r.emit(map[string]any{"t": "viol", "key": key, "what": what, "w": witness, "case": r.cur})
}

// Inconclusive records that the harness could not decide (infrastructure problem).
func (r *Rec) Inconclusive(reason string) {
	r.mu.Lock()
	defer r.mu.Unlock()
	r.emit(map[string]any{"t": "inconclusive", "reason": reason})
}

// Guard runs f and converts a panic into a violation with key "panic:"+keyPrefix+site.
// It returns true if f panicked.
func (r *Rec) Guard(keyPrefix string, witness func() any, f func()) (panicked bool) {
	defer func() {
		if e := recover(); e != nil {
			panicked = true
			st := string(debug.Stack())
			site := PanicSite(st)
			r.Violation("panic:"+keyPrefix+":"+site, fmt.Sprintf("panic: %v at %s", e, site), map[string]any{"input": witness(), "panic": fmt.Sprint(e), "stack": trimStack(st)})
		}
	}()
	f()
	return false
}

func trimStack(st string) string {
	if len(st) > 3000 {
		return st[:3000]
	}
	return st
}

// PanicSite extracts the first gobgp (non-harness) function named in a stack dump after the
// panic frames; it is the "call site" used in violation keys.
func PanicSite(st string) string {
	lines := strings.Split(st, "\n")
	seenPanic := false
	for _, l := range lines {
		if strings.HasPrefix(l, "panic(") || strings.Contains(l, "runtime.gopanic") || strings.HasPrefix(l, "runtime.panic") || strings.HasPrefix(l, "runtime.goPanic") {
			seenPanic = true
			continue
		}
		if !seenPanic || strings.HasPrefix(l, "\t") || strings.HasPrefix(l, "runtime.") {
			continue
		}
		if strings.Contains(l, "github.com/osrg/gobgp") && !strings.Contains(l, "/internal/verif/") && !strings.Contains(l, "Verif") && !strings.Contains(l, "verif") {
			if i := strings.LastIndex(l, "("); i > 0 {
				l = l[:i]
			}
			if i := strings.LastIndex(l, "/"); i >= 0 {
				l = l[i+1:]
			}
			return l
		}
	}
	return "unknown"
}

// Close flushes counters and the non-trivial key set and writes the "done" record.
func (r *Rec) Close() {
	r.closed.Store(true)
	r.mu.Lock()
	defer r.mu.Unlock()
	keys := make([]string, 0, len(r.nt))
	for k := range r.nt {
		keys = append(keys, k)
	}
	sort.Strings(keys)
	for i := 0; i < len(keys); i += 5000 {
		j := i + 5000
		if j > len(keys) {
			j = len(keys)
		}
		r.emit(map[string]any{"t": "nt", "keys": keys[i:j]})
	}
	r.emit(map[string]any{"t": "counts", "v": r.counts})
	nv := 0
	for _, n := range r.viols {
		nv += n
	}
	r.emit(map[string]any{"t": "done", "violations": nv, "complete": loopsStarted.Load() == loopsFinished.Load(), "last_case": lastCaseIdx.Load()})
	if r.f != nil {
		r.f.Close()
	}
	if r.curFile != "" {
		os.Remove(r.curFile)
	}
}

var goroutineHdr = regexp.MustCompile(`^goroutine (\d+) \[([^\],]+)(?:, (\d+) minutes)?([^\]]*)\]:$`)

// deadlockIn decides from a dump of ALL goroutines whether the process is deadlocked: no goroutine other
// than the one that took the dump is running, runnable, in a system call, waiting for I/O or sleeping on
// real time, and at least one has been waiting for a sync.Mutex / sync.RWMutex for two minutes or longer
// (inside a synctest bubble virtual time cannot advance while a goroutine is blocked on a mutex, so timers
// cannot fire either). It returns a key naming the gobgp functions that wait for the locks, or "".
func deadlockIn(dump string) (key, what string) {
	var waiters []string
	for _, g := range strings.Split(dump, "\n\n") {
		lines := strings.Split(strings.TrimSpace(g), "\n")
		if len(lines) == 0 {
			continue
		}
		m := goroutineHdr.FindStringSubmatch(lines[0])
		if m == nil {
			continue
		}
		state, minutes, rest := m[2], m[3], m[4]
		if strings.Contains(g, "vlib.(*Rec).stallDump") {
			continue
		}
		switch {
		case strings.HasPrefix(state, "sync.Mutex") || strings.HasPrefix(state, "sync.RWMutex"):
			if n, _ := strconv.Atoi(minutes); n < 2 {
				return "", ""
			}
			fn := "unknown"
			for i := 1; i+1 < len(lines); i += 2 {
				if strings.HasPrefix(lines[i], "github.com/osrg/gobgp/v4/") && !strings.Contains(lines[i+1], "zz_verif_") && !strings.Contains(lines[i], "/internal/verif/") {
					fn = lines[i]
					if j := strings.LastIndex(fn, "("); j > 0 {
						fn = fn[:j]
					}
					fn = fn[strings.LastIndex(fn, "/")+1:]
					break
				}
			}
			waiters = append(waiters, fn)
		case strings.HasPrefix(state, "chan "), strings.HasPrefix(state, "select"), strings.HasPrefix(state, "sync."),
			strings.HasPrefix(state, "synctest."), strings.HasPrefix(state, "semacquire"):
			// blocked on other goroutines
		case strings.HasPrefix(state, "sleep") && strings.Contains(rest, "synctest bubble"):
			// sleeping on virtual time, which cannot advance
		default:
			return "", "" // running, runnable, syscall, IO wait, real sleep, ...: something may still happen
		}
	}
	if len(waiters) == 0 {
		return "", ""
	}
	sort.Strings(waiters)
	uniq := waiters[:1]
	for _, w := range waiters[1:] {
		if w != uniq[len(uniq)-1] {
			uniq = append(uniq, w)
		}
	}
	return "deadlock:" + strings.Join(uniq, "|"), fmt.Sprintf("every goroutine is blocked and %d of them have been waiting for a mutex for minutes, in %s (all stacks in the witness)", len(waiters), strings.Join(uniq, ", "))
}
