package mrt

// C19 (MRT part) — ParseHeader / ParseBody (every TABLE_DUMPv2 and BGP4MP subtype incl. the RFC 8050
// ADD-PATH ones) / SplitMrt and the per-record decoders are safe on hostile input, and every MRT
// record the package can construct round-trips.
//
// Oracles: (A) no panic / caller's buffer unchanged / result independent of bytes beyond len(data)
// (spare-capacity poison) / accepted values survive Serialize, String, json.Marshal /
// bufio.SplitFunc contract, also through a real bufio.Scanner. (B) Serialize(m) equals an
// independent RFC 6396/6397/8050 reference encoding of the record framing (BGP PDUs, NLRI and path
// attributes inside are cargo produced by the bgp package), ParseHeader+ParseBody of it equals m and
// re-serialises to the same bytes; SplitMrt over a concatenation of records yields the records.

import (
	"bytes"
	"encoding/binary"
	"encoding/json"
	"fmt"
	"math"
	"math/rand/v2"
	"net/netip"
	"testing"
	"time"

	"github.com/osrg/gobgp/v4/internal/verif/gen"
	"github.com/osrg/gobgp/v4/internal/verif/vlib"
	"github.com/osrg/gobgp/v4/pkg/packet/bgp"
)

var c19MRTOpt = &bgp.MarshallingOption{MRT: true}

type c19Gen struct {
	msg     *MRTMessage
	name    string // TYPE/SUBTYPE, used in keys and counters
	ref     []byte // independent reference encoding (RFC framing around bgp-package cargo)
	hdrLen  int
	fields  []gen.C19Field
	payload []byte // BGP4MP built the way the daemon does: BGPMessage nil, BGPMessagePayload set
	pathIDs bool   // BGP4MP *_ADDPATH record whose UPDATE carries non-zero path identifiers
	et      bool
}

var c19TD2Names = map[MRTSubTypeTableDumpv2]string{
	PEER_INDEX_TABLE: "PEER_INDEX_TABLE", RIB_IPV4_UNICAST: "RIB_IPV4_UNICAST", RIB_IPV4_MULTICAST: "RIB_IPV4_MULTICAST",
	RIB_IPV6_UNICAST: "RIB_IPV6_UNICAST", RIB_IPV6_MULTICAST: "RIB_IPV6_MULTICAST", RIB_GENERIC: "RIB_GENERIC", GEO_PEER_TABLE: "GEO_PEER_TABLE",
	RIB_IPV4_UNICAST_ADDPATH: "RIB_IPV4_UNICAST_ADDPATH", RIB_IPV4_MULTICAST_ADDPATH: "RIB_IPV4_MULTICAST_ADDPATH",
	RIB_IPV6_UNICAST_ADDPATH: "RIB_IPV6_UNICAST_ADDPATH", RIB_IPV6_MULTICAST_ADDPATH: "RIB_IPV6_MULTICAST_ADDPATH", RIB_GENERIC_ADDPATH: "RIB_GENERIC_ADDPATH",
}

var c19B4Names = map[MRTSubTypeBGP4MP]string{
	STATE_CHANGE: "STATE_CHANGE", MESSAGE: "MESSAGE", MESSAGE_AS4: "MESSAGE_AS4", STATE_CHANGE_AS4: "STATE_CHANGE_AS4", MESSAGE_LOCAL: "MESSAGE_LOCAL",
	MESSAGE_AS4_LOCAL: "MESSAGE_AS4_LOCAL", MESSAGE_ADDPATH: "MESSAGE_ADDPATH", MESSAGE_AS4_ADDPATH: "MESSAGE_AS4_ADDPATH",
	MESSAGE_LOCAL_ADDPATH: "MESSAGE_LOCAL_ADDPATH", MESSAGE_AS4_LOCAL_ADDPATH: "MESSAGE_AS4_LOCAL_ADDPATH",
}

func c19Name(t MRTType, st uint16) string {
	switch t {
	case TABLE_DUMPv2:
		if n, ok := c19TD2Names[MRTSubTypeTableDumpv2(st)]; ok {
			return "TABLE_DUMPv2/" + n
		}
		return "TABLE_DUMPv2/other"
	case BGP4MP:
		if n, ok := c19B4Names[MRTSubTypeBGP4MP(st)]; ok {
			return "BGP4MP/" + n
		}
		return "BGP4MP/other"
	case BGP4MP_ET:
		return "BGP4MP_ET"
	}
	return "othertype"
}

func c19U16(v uint16) []byte { return binary.BigEndian.AppendUint16(nil, v) }
func c19U32(v uint32) []byte { return binary.BigEndian.AppendUint32(nil, v) }

func c19Float(r *rand.Rand) float32 {
	switch r.IntN(4) {
	case 0:
		return 0
	case 1:
		return float32(r.IntN(180)) - 90
	}
	return (r.Float32() - 0.5) * 360
}

// c19RibAttrs draws path attributes for a RIB entry of the family and their MRT-form encoding.
func c19RibAttrs(r *rand.Rand, family bgp.Family, prefix bgp.NLRI, pathID uint32) ([]bgp.PathAttributeInterface, []byte, bool) {
	attrs := gen.C19BaseAttrs(r)
	switch {
	case family == bgp.RF_IPv4_UC || family == bgp.RF_IPv4_MC:
		if nh, err := bgp.NewPathAttributeNextHop(gen.C19Addr4(r)); err == nil {
			attrs = append(attrs, nh)
		}
	default: // RFC 6396 4.3.4: MP_REACH_NLRI carries only the next hop inside a RIB entry
		nh := gen.C19Addr6(r)
		if family.Afi() == bgp.AFI_IP {
			nh = gen.C19Addr4(r)
		}
		if mp, err := bgp.NewPathAttributeMpReachNLRI(family, []bgp.PathNLRI{{NLRI: prefix, ID: pathID}}, nh); err == nil {
			attrs = append(attrs, mp)
		}
	}
	var enc []byte
	for _, a := range attrs {
		b, err := a.Serialize(c19MRTOpt)
		if err != nil {
			return nil, nil, false
		}
		enc = append(enc, b...)
	}
	if len(enc) > 4000 {
		return nil, nil, false
	}
	return attrs, enc, true
}

func c19RibPrefix(r *rand.Rand, family bgp.Family) bgp.NLRI {
	var n bgp.NLRI
	var err error
	switch family {
	case bgp.RF_IPv4_UC, bgp.RF_IPv4_MC:
		n, err = bgp.NewIPAddrPrefix(gen.C19Prefix4(r))
	case bgp.RF_IPv6_UC, bgp.RF_IPv6_MC:
		n, err = bgp.NewIPAddrPrefix(gen.C19Prefix6(r))
	case bgp.RF_IPv4_VPN:
		n, err = bgp.NewLabeledVPNIPAddrPrefix(gen.C19Prefix4(r), *bgp.NewMPLSLabelStack(uint32(16 + r.IntN(1000))), bgp.NewRouteDistinguisherTwoOctetAS(uint16(r.Uint32()), r.Uint32()))
	case bgp.RF_IPv6_VPN:
		n, err = bgp.NewLabeledVPNIPAddrPrefix(gen.C19Prefix6(r), *bgp.NewMPLSLabelStack(uint32(16 + r.IntN(1000))), bgp.NewRouteDistinguisherFourOctetAS(r.Uint32(), uint16(r.Uint32())))
	case bgp.RF_IPv4_MPLS:
		n, err = bgp.NewLabeledIPAddrPrefix(gen.C19Prefix4(r), *bgp.NewMPLSLabelStack(uint32(16 + r.IntN(1000))))
	}
	if err != nil {
		return nil
	}
	return n
}

func c19GenMsg(rec *vlib.Rec, r *rand.Rand) *c19Gen {
	for {
		if g := c19TryGen(rec, r); g != nil {
			return g
		}
	}
}

func c19TryGen(rec *vlib.Rec, r *rand.Rand) *c19Gen {
	g := &c19Gen{hdrLen: 12}
	ts := time.Unix(int64(r.Uint32()), int64(r.IntN(1000000))*1000)
	var typ MRTType
	var st MRTSubTyper
	var body Body
	var bref []byte
	switch r.IntN(16) {
	case 0: // PEER_INDEX_TABLE
		typ, st = TABLE_DUMPv2, PEER_INDEX_TABLE
		collector := gen.C19Addr4(r)
		view := string(bytes.Repeat([]byte{'v'}, []int{0, 0, 4, 30}[r.IntN(4)]))
		var peers []*Peer
		var pref []byte
		for i, n := 0, r.IntN(5); i < n; i++ {
			id := gen.C19Addr4(r)
			ip := gen.C19Addr4(r)
			v6 := r.IntN(2) == 0
			if v6 {
				ip = gen.C19Addr6(r)
			}
			as4 := r.IntN(2) == 0
			as := uint32(r.IntN(65536))
			if as4 {
				as = r.Uint32()
			}
			peers = append(peers, NewPeer(id, ip, as, as4))
			t := byte(0)
			if v6 {
				t |= 1
			}
			if as4 {
				t |= 2
			}
			pref = append(pref, t)
			pref = append(pref, id.AsSlice()...)
			pref = append(pref, ip.AsSlice()...)
			if as4 {
				pref = append(pref, c19U32(as)...)
			} else {
				pref = append(pref, c19U16(uint16(as))...)
			}
		}
		body = NewPeerIndexTable(collector, view, peers)
		bref = append(bref, collector.AsSlice()...)
		bref = append(bref, c19U16(uint16(len(view)))...)
		bref = append(bref, view...)
		bref = append(bref, c19U16(uint16(len(peers)))...)
		bref = append(bref, pref...)
		g.fields = append(g.fields, gen.C19Field{Off: 12 + 4, Size: 2}, gen.C19Field{Off: 12 + 6 + len(view), Size: 2}, gen.C19Field{Off: 12 + 8 + len(view), Size: 1})
	case 1: // GEO_PEER_TABLE
		typ, st = TABLE_DUMPv2, GEO_PEER_TABLE
		collector := gen.C19Addr4(r)
		lat, lon := c19Float(r), c19Float(r)
		var peers []*GeoPeer
		var pref []byte
		for i, n := 0, r.IntN(5); i < n; i++ {
			id := gen.C19Addr4(r)
			la, lo := c19Float(r), c19Float(r)
			p, err := NewGeoPeer(id, la, lo)
			if err != nil {
				return nil
			}
			peers = append(peers, p)
			pref = append(pref, 0)
			pref = append(pref, id.AsSlice()...)
			pref = append(pref, c19U32(math.Float32bits(la))...)
			pref = append(pref, c19U32(math.Float32bits(lo))...)
		}
		t, err := NewGeoPeerTable(collector, lat, lon, peers)
		if err != nil {
			return nil
		}
		body = t
		bref = append(bref, collector.AsSlice()...)
		bref = append(bref, c19U32(math.Float32bits(lat))...)
		bref = append(bref, c19U32(math.Float32bits(lon))...)
		bref = append(bref, c19U16(uint16(len(peers)))...)
		bref = append(bref, pref...)
		g.fields = append(g.fields, gen.C19Field{Off: 12 + 12, Size: 2}, gen.C19Field{Off: 12 + 14, Size: 1})
	case 2, 3, 4, 5, 6, 7, 8: // RIB subtypes
		type ribKind struct {
			st      MRTSubTypeTableDumpv2
			family  bgp.Family
			addPath bool
			generic bool
		}
		kinds := []ribKind{
			{RIB_IPV4_UNICAST, bgp.RF_IPv4_UC, false, false}, {RIB_IPV4_MULTICAST, bgp.RF_IPv4_MC, false, false},
			{RIB_IPV6_UNICAST, bgp.RF_IPv6_UC, false, false}, {RIB_IPV6_MULTICAST, bgp.RF_IPv6_MC, false, false},
			{RIB_IPV4_UNICAST_ADDPATH, bgp.RF_IPv4_UC, true, false}, {RIB_IPV4_MULTICAST_ADDPATH, bgp.RF_IPv4_MC, true, false},
			{RIB_IPV6_UNICAST_ADDPATH, bgp.RF_IPv6_UC, true, false}, {RIB_IPV6_MULTICAST_ADDPATH, bgp.RF_IPv6_MC, true, false},
			{RIB_GENERIC, bgp.RF_IPv4_VPN, false, true}, {RIB_GENERIC, bgp.RF_IPv6_VPN, false, true}, {RIB_GENERIC, bgp.RF_IPv4_MPLS, false, true},
			{RIB_GENERIC_ADDPATH, bgp.RF_IPv4_VPN, true, true}, {RIB_GENERIC_ADDPATH, bgp.RF_IPv6_VPN, true, true},
		}
		k := kinds[r.IntN(len(kinds))]
		typ, st = TABLE_DUMPv2, k.st
		prefix := c19RibPrefix(r, k.family)
		if prefix == nil {
			return nil
		}
		pb, err := prefix.Serialize()
		if err != nil {
			return nil
		}
		seq := r.Uint32()
		var entries []*RibEntry
		var eref []byte
		for i, n := 0, 1+r.IntN(3); i < n; i++ {
			idx, ot := uint16(r.Uint32()), r.Uint32()
			pid := uint32(0)
			if k.addPath {
				pid = r.Uint32()
			}
			attrs, enc, ok := c19RibAttrs(r, k.family, prefix, pid)
			if !ok {
				return nil
			}
			entries = append(entries, NewRibEntry(idx, ot, pid, attrs, k.addPath))
			eref = append(eref, c19U16(idx)...)
			eref = append(eref, c19U32(ot)...)
			if k.addPath {
				eref = append(eref, c19U32(pid)...)
			}
			eref = append(eref, c19U16(uint16(len(enc)))...)
			eref = append(eref, enc...)
		}
		body = NewRib(seq, k.family, prefix, entries)
		bref = append(bref, c19U32(seq)...)
		off := 12 + 4
		if k.generic {
			bref = append(bref, c19U16(k.family.Afi())...)
			bref = append(bref, k.family.Safi())
			g.fields = append(g.fields, gen.C19Field{Off: off, Size: 2}, gen.C19Field{Off: off + 2, Size: 1})
			off += 3
		}
		bref = append(bref, pb...)
		g.fields = append(g.fields, gen.C19Field{Off: off, Size: 1}, gen.C19Field{Off: off + len(pb), Size: 2})
		bref = append(bref, c19U16(uint16(len(entries)))...)
		bref = append(bref, eref...)
		eo := off + len(pb) + 2 + 6
		if k.addPath {
			eo += 4
		}
		g.fields = append(g.fields, gen.C19Field{Off: eo, Size: 2}, gen.C19Field{Off: eo, Size: 2}, gen.C19Field{Off: eo + 3, Size: 1})
	default: // BGP4MP / BGP4MP_ET
		typ = BGP4MP
		if r.IntN(16) == 0 {
			typ = BGP4MP_ET
			g.et = true
			g.hdrLen = 16
		}
		as4 := r.IntN(2) == 0
		v6 := r.IntN(2) == 0
		pas, las := uint32(r.IntN(65536)), uint32(r.IntN(65536))
		if as4 {
			pas, las = r.Uint32(), r.Uint32()
		}
		pip, lip := gen.C19Addr4(r), gen.C19Addr4(r)
		if v6 {
			pip, lip = gen.C19Addr6(r), gen.C19Addr6(r)
		}
		ifi := uint16(r.Uint32())
		if as4 {
			bref = append(append(bref, c19U32(pas)...), c19U32(las)...)
		} else {
			bref = append(append(bref, c19U16(uint16(pas))...), c19U16(uint16(las))...)
		}
		bref = append(bref, c19U16(ifi)...)
		if v6 {
			bref = append(bref, c19U16(2)...)
		} else {
			bref = append(bref, c19U16(1)...)
		}
		bref = append(bref, pip.AsSlice()...)
		bref = append(bref, lip.AsSlice()...)
		afOff := g.hdrLen + 6
		if as4 {
			afOff += 4
		}
		g.fields = append(g.fields, gen.C19Field{Off: afOff, Size: 2})
		if r.IntN(4) == 0 {
			st = STATE_CHANGE
			if as4 {
				st = STATE_CHANGE_AS4
			}
			o, n := BGPState(1+r.IntN(6)), BGPState(1+r.IntN(6))
			b, err := NewBGP4MPStateChange(pas, las, ifi, pip, lip, as4, o, n)
			if err != nil {
				return nil
			}
			body = b
			bref = append(append(bref, c19U16(uint16(o))...), c19U16(uint16(n))...)
		} else {
			m, replaced := gen.C19BGPMessage(r, "")
			if replaced {
				rec.Count("mrt_bgp_cargo_replaced", 1)
			}
			mb, err := m.Serialize()
			if err != nil {
				return nil
			}
			local, addPath := r.IntN(2) == 0, r.IntN(2) == 0
			if u, ok := m.Body.(*bgp.BGPUpdate); ok && addPath && !g.et && len(u.NLRI) > 0 && r.IntN(2) == 0 {
				// what the ADD-PATH subtypes exist for (RFC 8050): the UPDATE carries path identifiers.
				// mA is serialised here with the ADD-PATH option (the reference), mB goes to gobgp.
				mA, e1 := bgp.ParseBGPMessage(mb)
				mB, e2 := bgp.ParseBGPMessage(mb)
				if e1 == nil && e2 == nil {
					ua, ub := mA.Body.(*bgp.BGPUpdate), mB.Body.(*bgp.BGPUpdate)
					for i := range ua.NLRI {
						id := 1 + r.Uint32N(100000)
						ua.NLRI[i].ID, ub.NLRI[i].ID = id, id
					}
					for i := range ua.WithdrawnRoutes {
						id := 1 + r.Uint32N(100000)
						ua.WithdrawnRoutes[i].ID, ub.WithdrawnRoutes[i].ID = id, id
					}
					mA.Header.Len, mB.Header.Len = 0, 0
					opt := &bgp.MarshallingOption{AddPath: map[bgp.Family]bgp.BGPAddPathMode{bgp.RF_IPv4_UC: bgp.BGP_ADD_PATH_BOTH}}
					if mb2, e := mA.Serialize(opt); e == nil {
						m, mb = mB, mb2
						g.pathIDs = true
					}
				}
			}
			mk := NewBGP4MPMessage
			switch {
			case local && addPath:
				mk = NewBGP4MPMessageLocalAddPath
				st = MESSAGE_LOCAL_ADDPATH
				if as4 {
					st = MESSAGE_AS4_LOCAL_ADDPATH
				}
			case local:
				mk = NewBGP4MPMessageLocal
				st = MESSAGE_LOCAL
				if as4 {
					st = MESSAGE_AS4_LOCAL
				}
			case addPath:
				mk = NewBGP4MPMessageAddPath
				st = MESSAGE_ADDPATH
				if as4 {
					st = MESSAGE_AS4_ADDPATH
				}
			default:
				st = MESSAGE
				if as4 {
					st = MESSAGE_AS4
				}
			}
			var b *BGP4MPMessage
			if r.IntN(3) == 0 { // the way pkg/server builds the record: raw wire bytes as payload
				b, err = mk(pas, las, ifi, pip, lip, as4, nil)
				if err == nil {
					b.BGPMessagePayload = mb
					g.payload = mb
				}
			} else {
				b, err = mk(pas, las, ifi, pip, lip, as4, m)
			}
			if err != nil {
				return nil
			}
			body = b
			g.fields = append(g.fields, gen.C19Field{Off: g.hdrLen + len(bref) + 16, Size: 2}, gen.C19Field{Off: g.hdrLen + len(bref) + 18, Size: 1})
			bref = append(bref, mb...)
		}
	}
	msg, err := NewMRTMessage(ts, typ, st, body)
	if err != nil {
		return nil
	}
	g.msg = msg
	g.name = c19Name(typ, st.ToUint16())
	if g.pathIDs && !g.et {
		g.name = "BGP4MP/MESSAGE*_ADDPATH(path-ids)"
	}
	g.ref = append(g.ref, c19U32(uint32(ts.Unix()))...)
	g.ref = append(g.ref, c19U16(uint16(typ))...)
	g.ref = append(g.ref, c19U16(st.ToUint16())...)
	if g.et { // RFC 6396 section 3: the microsecond field counts towards Length
		g.ref = append(g.ref, c19U32(uint32(len(bref)+4))...)
		g.ref = append(g.ref, c19U32(uint32(ts.Nanosecond()/1000))...)
	} else {
		g.ref = append(g.ref, c19U32(uint32(len(bref)))...)
	}
	g.ref = append(g.ref, bref...)
	g.fields = append(g.fields, gen.C19Field{Off: 8, Size: 4}, gen.C19Field{Off: 8, Size: 4}, gen.C19Field{Off: 4, Size: 2}, gen.C19Field{Off: 6, Size: 2}, gen.C19Field{Off: 7, Size: 1})
	return g
}

// ---- equality

func c19AttrBytes(attrs []bgp.PathAttributeInterface) ([]byte, error) {
	var out []byte
	for _, a := range attrs {
		b, err := a.Serialize(c19MRTOpt)
		if err != nil {
			return nil, err
		}
		out = append(out, b...)
	}
	return out, nil
}

func c19NLRIKey(n bgp.NLRI) string {
	if n == nil {
		return "<nil>"
	}
	b, _ := n.Serialize()
	return fmt.Sprintf("%T|%x|%s", n, b, n.String())
}

// c19EqBody compares a constructed body with a parsed one field by field. Path attributes are
// compared by their MRT-form bytes (their in-memory form is bgp-package business), MP_REACH_NLRI
// additionally by the family and prefix the MRT parser must restore (RFC 6396 4.3.4).
func c19EqBody(a, b Body) string {
	switch x := a.(type) {
	case *PeerIndexTable:
		y, ok := b.(*PeerIndexTable)
		if !ok || x.CollectorBgpId != y.CollectorBgpId || x.ViewName != y.ViewName || len(x.Peers) != len(y.Peers) {
			return "peer index table header"
		}
		for i := range x.Peers {
			if *x.Peers[i] != *y.Peers[i] {
				return fmt.Sprintf("peer %d", i)
			}
		}
	case *GeoPeerTable:
		y, ok := b.(*GeoPeerTable)
		if !ok || x.CollectorBgpId != y.CollectorBgpId || math.Float32bits(x.CollectorLatitude) != math.Float32bits(y.CollectorLatitude) ||
			math.Float32bits(x.CollectorLongitude) != math.Float32bits(y.CollectorLongitude) || len(x.Peers) != len(y.Peers) {
			return "geo peer table header"
		}
		for i := range x.Peers {
			p, q := x.Peers[i], y.Peers[i]
			if p.Type != q.Type || p.BgpId != q.BgpId || math.Float32bits(p.Latitude) != math.Float32bits(q.Latitude) || math.Float32bits(p.Longitude) != math.Float32bits(q.Longitude) {
				return fmt.Sprintf("geo peer %d", i)
			}
		}
	case *Rib:
		y, ok := b.(*Rib)
		if !ok {
			return "body type"
		}
		if x.SequenceNumber != y.SequenceNumber {
			return "sequence number"
		}
		if x.Family != y.Family {
			return fmt.Sprintf("Rib.Family %v vs %v", x.Family, y.Family)
		}
		if x.isAddPath != y.isAddPath {
			return "isAddPath"
		}
		if c19NLRIKey(x.Prefix) != c19NLRIKey(y.Prefix) {
			return "prefix"
		}
		if len(x.Entries) != len(y.Entries) {
			return "entry count"
		}
		for i := range x.Entries {
			p, q := x.Entries[i], y.Entries[i]
			if p.PeerIndex != q.PeerIndex || p.OriginatedTime != q.OriginatedTime || p.PathIdentifier != q.PathIdentifier || p.isAddPath != q.isAddPath {
				return fmt.Sprintf("entry %d fixed fields", i)
			}
			pb, e1 := c19AttrBytes(p.PathAttributes)
			qb, e2 := c19AttrBytes(q.PathAttributes)
			if e1 != nil || e2 != nil || !bytes.Equal(pb, qb) || len(p.PathAttributes) != len(q.PathAttributes) {
				return fmt.Sprintf("entry %d attributes", i)
			}
			for j := range p.PathAttributes {
				mp, ok1 := p.PathAttributes[j].(*bgp.PathAttributeMpReachNLRI)
				mq, ok2 := q.PathAttributes[j].(*bgp.PathAttributeMpReachNLRI)
				if ok1 != ok2 {
					return fmt.Sprintf("entry %d attribute %d type", i, j)
				}
				if ok1 {
					if mp.AFI != mq.AFI || mp.SAFI != mq.SAFI || mp.Nexthop != mq.Nexthop || len(mp.Value) != len(mq.Value) {
						return fmt.Sprintf("entry %d MP_REACH family/nexthop", i)
					}
					for k := range mp.Value {
						if mp.Value[k].ID != mq.Value[k].ID || c19NLRIKey(mp.Value[k].NLRI) != c19NLRIKey(mq.Value[k].NLRI) {
							return fmt.Sprintf("entry %d MP_REACH prefix", i)
						}
					}
				}
			}
		}
	case *BGP4MPStateChange:
		y, ok := b.(*BGP4MPStateChange)
		if !ok || !gen.DeepEqual(x, y) {
			return "state change"
		}
	case *BGP4MPMessage:
		y, ok := b.(*BGP4MPMessage)
		if !ok || !gen.DeepEqual(x.BGP4MPHeader, y.BGP4MPHeader) {
			return "BGP4MP header"
		}
		if x.isLocal != y.isLocal || x.isAddPath != y.isAddPath {
			return "local/addpath marks"
		}
		if x.BGPMessagePayload != nil { // payload form: the parsed message must be the payload's message
			yb, err := y.BGPMessage.Serialize()
			if err != nil || !bytes.Equal(yb, x.BGPMessagePayload) {
				return "BGP message vs payload"
			}
		} else if !gen.DeepEqual(x.BGPMessage, y.BGPMessage) {
			return "BGP message"
		}
	default:
		return "unknown body type"
	}
	return ""
}

// c19Same is the equality used by the poison differentials (both sides come from the parser).
func c19Same(a, b *MRTMessage) bool {
	if a == nil || b == nil {
		return a == b
	}
	if a.Header != b.Header {
		return false
	}
	if _, ok := a.Body.(*GeoPeerTable); ok { // floats may be NaN
		return c19EqBody(a.Body, b.Body) == ""
	}
	return gen.DeepEqual(a.Body, b.Body)
}

func c19Show(m *MRTMessage, err error) string {
	s := fmt.Sprintf("err=%v", err)
	if m != nil {
		s += fmt.Sprintf(" hdr=%+v body=%v", m.Header, m.Body)
	}
	if len(s) > 500 {
		s = s[:500]
	}
	return s
}

// ---- hostile inputs

type c19Forced struct {
	t  MRTType
	st uint16
}

var c19AllForced = func() []c19Forced {
	var out []c19Forced
	for st := uint16(0); st <= 13; st++ {
		out = append(out, c19Forced{TABLE_DUMPv2, st})
	}
	for st := uint16(0); st <= 12; st++ {
		out = append(out, c19Forced{BGP4MP, st})
	}
	out = append(out, c19Forced{BGP4MP_ET, 1}, c19Forced{TABLE_DUMP, 1}, c19Forced{0, 0})
	return out
}()

func c19HostileInput(rec *vlib.Rec, r *rand.Rand) ([]byte, string) {
	switch r.IntN(10) {
	case 0:
		in := gen.C19RandomBytes(r, 96)
		if len(in) >= 12 && r.IntN(2) == 0 { // steer random bytes into a known type / subtype
			f := c19AllForced[r.IntN(len(c19AllForced))]
			binary.BigEndian.PutUint16(in[4:], uint16(f.t))
			binary.BigEndian.PutUint16(in[6:], f.st)
			if r.IntN(2) == 0 {
				binary.BigEndian.PutUint32(in[8:], uint32(len(in)-12))
			}
		}
		return in, "random"
	case 1:
		a, b := c19GenMsg(rec, r), c19GenMsg(rec, r)
		return gen.C19Splice(r, a.ref, b.ref), "splice"
	default:
		g := c19GenMsg(rec, r)
		in, kind := gen.C19Mutate(r, g.ref, g.fields)
		return in, kind
	}
}

func c19ParseBodyMonitored(rec *vlib.Rec, w *gen.C19Watch, idx int, body []byte, h *MRTHeader, why string) {
	name := c19Name(h.Type, h.SubType)
	wit := func() any {
		return map[string]any{"case": idx, "entry": "ParseBody", "type": uint16(h.Type), "subtype": h.SubType, "hdr_len": h.Len, "body": gen.C19Hex(body), "how": why}
	}
	w.Mark(idx, "ParseBody:"+name, body)
	exact := gen.C19Exact(body)
	hc := *h
	var m *MRTMessage
	var err error
	if rec.Guard("c19:mrt:ParseBody", wit, func() { m, err = ParseBody(exact, &hc) }) {
		return
	}
	rec.Count("mrt_parsebody_"+name, 1)
	rec.Nontrivial("mrt|ParseBody|" + name + "|" + gen.C19ErrClass(err))
	if !bytes.Equal(exact, body) {
		rec.Violation("c19:mrt:ParseBody:buffer-modified", "decoder modified the caller's buffer", wit())
	}
	if hc != *h {
		rec.Violation("c19:mrt:ParseBody:header-modified", "ParseBody modified the caller's header", wit())
	}
	var ma, mb *MRTMessage
	var ea, eb error
	pa := rec.Guard("c19:mrt:ParseBody", wit, func() { h2 := *h; ma, ea = ParseBody(gen.C19Slack(body, 0xAA, 96), &h2) })
	pb := rec.Guard("c19:mrt:ParseBody", wit, func() { h2 := *h; mb, eb = ParseBody(gen.C19Slack(body, 0x55, 96), &h2) })
	if !pa && !pb && (gen.C19ErrClass(ea) != gen.C19ErrClass(eb) || !c19Same(ma, mb) || gen.C19ErrClass(ea) != gen.C19ErrClass(err) || !c19Same(ma, m)) {
		rec.Violation("c19:mrt:ParseBody:over-read:"+name, "result depends on bytes beyond len(data) (spare capacity of the slice)",
			map[string]any{"case": idx, "type": uint16(h.Type), "subtype": h.SubType, "hdr_len": h.Len, "body": gen.C19Hex(body), "exact": c19Show(m, err), "poisonAA": c19Show(ma, ea), "poison55": c19Show(mb, eb)})
	}
	if err != nil || m == nil {
		return
	}
	rec.Count("mrt_parsebody_accepted_"+name, 1)
	rec.Guard("c19:mrt:post-print", wit, func() {
		_ = fmt.Sprintf("%v %+v", m.Body, m.Header)
		_ = m.Header.GetTime()
		_, _ = json.Marshal(m)
	})
	var out []byte
	var serr error
	if rec.Guard("c19:mrt:post-Serialize", wit, func() { out, serr = m.Serialize() }) || serr != nil {
		return
	}
	rec.Count("mrt_accepted_reserialized", 1)
	if len(out) >= 12 {
		if h2, e := ParseHeader(out); e == nil {
			hl := 12
			if h2.Type.HasExtendedTimestamp() {
				hl = 16
			}
			var m2 *MRTMessage
			var e2 error
			if len(out) >= hl && !rec.Guard("c19:mrt:ParseBody", wit, func() { m2, e2 = ParseBody(out[hl:], h2) }) {
				if e2 == nil && c19Same(m, m2) {
					rec.Count("mrt_accepted_refix_same", 1)
				} else {
					rec.Count("mrt_accepted_refix_diff", 1)
				}
			}
		}
	}
}

func c19Hostile(rec *vlib.Rec, w *gen.C19Watch, r *rand.Rand, idx int) {
	in, kind := c19HostileInput(rec, r)
	rec.Count("mrt_hostile_inputs", 1)
	wit := func() any { return map[string]any{"case": idx, "input": gen.C19Hex(in), "mutation": kind} }

	// ---- ParseHeader
	w.Mark(idx, "ParseHeader", in)
	exact := gen.C19Exact(in)
	var h *MRTHeader
	var herr error
	if !rec.Guard("c19:mrt:ParseHeader", wit, func() { h, herr = ParseHeader(exact) }) {
		rec.Nontrivial("mrt|ParseHeader|" + gen.C19ErrClass(herr))
		if !bytes.Equal(exact, in) {
			rec.Violation("c19:mrt:ParseHeader:buffer-modified", "decoder modified the caller's buffer", wit())
		}
		var ha, hb *MRTHeader
		var ea, eb error
		pa := rec.Guard("c19:mrt:ParseHeader", wit, func() { ha, ea = ParseHeader(gen.C19Slack(in, 0xAA, 32)) })
		pb := rec.Guard("c19:mrt:ParseHeader", wit, func() { hb, eb = ParseHeader(gen.C19Slack(in, 0x55, 32)) })
		if !pa && !pb && (fmt.Sprint(ea) != fmt.Sprint(eb) || !gen.DeepEqual(ha, hb) || fmt.Sprint(ea) != fmt.Sprint(herr) || !gen.DeepEqual(ha, h)) {
			rec.Violation("c19:mrt:ParseHeader:over-read", "result depends on bytes beyond len(data)", wit())
		}
		if herr == nil && h != nil {
			rec.Guard("c19:mrt:post-Serialize", wit, func() { _, _ = h.Serialize(); _ = h.GetTime() })
			hl := 12
			if h.Type.HasExtendedTimestamp() {
				hl = 16
			}
			// the record as framed by its own header
			c19ParseBodyMonitored(rec, w, idx, in[hl:], h, "own header; mutation "+kind)
			if int64(h.Len) <= int64(len(in)-hl) && r.IntN(2) == 0 {
				c19ParseBodyMonitored(rec, w, idx, in[hl:hl+int(h.Len)], h, "own header, body cut to Len; mutation "+kind)
			}
		}
	}
	// ---- every subtype decoder is driven with the same bytes under a forced header
	body := in
	if len(in) >= 12 && r.IntN(4) != 0 {
		body = in[12:]
	}
	for k := 0; k < 2; k++ {
		f := c19AllForced[r.IntN(len(c19AllForced))]
		l := uint32(len(body))
		switch r.IntN(6) {
		case 0:
			l = 0
		case 1:
			if l > 0 {
				l--
			}
		case 2:
			l++
		}
		c19ParseBodyMonitored(rec, w, idx, body, &MRTHeader{Timestamp: 1, Type: f.t, SubType: f.st, Len: l}, "forced header; mutation "+kind)
	}
	// ---- record decoders called directly
	w.Mark(idx, "direct", body)
	fams := []bgp.Family{bgp.RF_IPv4_UC, bgp.RF_IPv6_UC, bgp.RF_IPv4_VPN, bgp.RF_EVPN}
	fam := fams[r.IntN(len(fams))]
	addPath := r.IntN(2) == 0
	pfx, _ := bgp.NewIPAddrPrefix(netip.MustParsePrefix("2001:db8::/32"))
	direct := []struct {
		name string
		call func(b []byte) (any, error)
	}{
		{"parseRibEntry", func(b []byte) (any, error) {
			e, _, err := parseRibEntry(b, fam, addPath, pfx)
			return e, err
		}},
		{"parseRibEntry(no prefix)", func(b []byte) (any, error) { e, _, err := parseRibEntry(b, fam, addPath); return e, err }},
		{"Peer.decodeFromBytes", func(b []byte) (any, error) { p := &Peer{}; _, err := p.decodeFromBytes(b); return p, err }},
		{"GeoPeer.decodeFromBytes", func(b []byte) (any, error) { p := &GeoPeer{}; _, err := p.decodeFromBytes(b); return nil, err }},
		{"BGP4MPHeader.decodeFromBytes", func(b []byte) (any, error) {
			p := &BGP4MPHeader{isAS4: addPath}
			_, err := p.decodeFromBytes(b)
			return p, err
		}},
	}
	for _, d := range direct {
		var v, va, vb any
		var err, ea, eb error
		dw := func() any {
			return map[string]any{"case": idx, "entry": d.name, "family": fam.String(), "addpath": addPath, "input": gen.C19Hex(body)}
		}
		if rec.Guard("c19:mrt:"+d.name, dw, func() { v, err = d.call(gen.C19Exact(body)) }) {
			continue
		}
		rec.Count("mrt_direct_"+d.name, 1)
		rec.Nontrivial("mrt|" + d.name + "|" + gen.C19ErrClass(err))
		pa := rec.Guard("c19:mrt:"+d.name, dw, func() { va, ea = d.call(gen.C19Slack(body, 0xAA, 64)) })
		pb := rec.Guard("c19:mrt:"+d.name, dw, func() { vb, eb = d.call(gen.C19Slack(body, 0x55, 64)) })
		if !pa && !pb && (gen.C19ErrClass(ea) != gen.C19ErrClass(eb) || gen.C19ErrClass(ea) != gen.C19ErrClass(err) || (ea == nil && (!gen.DeepEqual(va, vb) || !gen.DeepEqual(va, v)))) {
			rec.Violation("c19:mrt:"+d.name+":over-read", "result depends on bytes beyond len(data)", dw())
		}
	}
}

func c19SplitCase(rec *vlib.Rec, w *gen.C19Watch, r *rand.Rand, idx int) {
	rec.Count("mrt_split_cases", 1)
	if r.IntN(3) == 0 { // (B) a clean stream of records splits into exactly the records
		var msgs [][]byte
		var stream []byte
		for i, n := 0, 1+r.IntN(6); i < n; {
			g := c19GenMsg(rec, r)
			if g.et {
				continue // extended-timestamp framing is checked on its own in the round trip
			}
			msgs = append(msgs, g.ref)
			stream = append(stream, g.ref...)
			i++
		}
		w.Mark(idx, "SplitMrt:stream", stream)
		toks, err, panicked := gen.C19ScanStream(rec, "mrt", "SplitMrt", SplitMrt, stream, r, idx)
		if !panicked {
			ok := err == nil && len(toks) == len(msgs)
			for i := 0; ok && i < len(msgs); i++ {
				ok = bytes.Equal(toks[i], msgs[i])
			}
			if !ok {
				rec.Violation("c19:mrt:SplitMrt:stream-tokens", "bufio.Scanner with SplitMrt over a concatenation of valid records did not return exactly those records",
					map[string]any{"case": idx, "stream": gen.C19Hex(stream), "records": len(msgs), "tokens": len(toks), "err": fmt.Sprint(err)})
			}
			rec.Count("mrt_split_clean_streams", 1)
			rec.Nontrivial(fmt.Sprintf("mrt|SplitMrt|clean|n%d", len(msgs)))
		}
		return
	}
	in, kind := c19HostileInput(rec, r)
	if r.IntN(3) == 0 {
		in = append(append(c19GenMsg(rec, r).ref, in...), c19GenMsg(rec, r).ref...)
	}
	if r.IntN(4) == 0 { // short fragments: where a splitter must ask for more data
		in = in[:min(len(in), r.IntN(16))]
	}
	if len(in) >= 12 && r.IntN(8) == 0 { // Length values for which Length + 12 does not fit 32 bits
		binary.BigEndian.PutUint32(in[8:], 0xfffffff4+uint32(r.IntN(12)))
		kind += "+len-wrap"
	}
	w.Mark(idx, "SplitMrt", in)
	for _, atEOF := range []bool{false, true} {
		adv, tok, err, ok := gen.C19CheckSplit(rec, "mrt", "SplitMrt", SplitMrt, gen.C19Exact(in), atEOF, idx)
		if !ok {
			continue
		}
		cls := "more"
		if tok != nil {
			cls = "token"
		} else if err != nil {
			cls = "err"
		}
		lc := "len>=12"
		if len(in) < 12 {
			lc = "len<12"
		}
		rec.Nontrivial(fmt.Sprintf("mrt|SplitMrt|%v|%s|%s", atEOF, lc, cls))
		rec.Count("mrt_split_calls_"+cls, 1)
		aA, tA, eA, okA := gen.C19CheckSplit(rec, "mrt", "SplitMrt", SplitMrt, gen.C19Slack(in, 0xAA, 64), atEOF, idx)
		aB, tB, eB, okB := gen.C19CheckSplit(rec, "mrt", "SplitMrt", SplitMrt, gen.C19Slack(in, 0x55, 64), atEOF, idx)
		if okA && okB && (aA != aB || !bytes.Equal(tA, tB) || (tA == nil) != (tB == nil) || fmt.Sprint(eA) != fmt.Sprint(eB) || aA != adv || !bytes.Equal(tA, tok) || fmt.Sprint(eA) != fmt.Sprint(err)) {
			rec.Violation("c19:mrt:SplitMrt:over-read", "split result depends on bytes beyond len(data) (spare capacity, which a bufio.Scanner buffer always has)",
				map[string]any{"case": idx, "data": gen.C19Hex(in), "atEOF": atEOF, "exact": fmt.Sprint(adv, len(tok), err), "poisonAA": fmt.Sprint(aA, len(tA), eA), "poison55": fmt.Sprint(aB, len(tB), eB), "mutation": kind})
		}
		if tok != nil && adv >= MRT_COMMON_HEADER_LEN && adv <= len(in) {
			a2, t2, _, ok2 := gen.C19CheckSplit(rec, "mrt", "SplitMrt", SplitMrt, gen.C19Trail(in[:adv], 0xAA, 32), atEOF, idx)
			a3, t3, _, ok3 := gen.C19CheckSplit(rec, "mrt", "SplitMrt", SplitMrt, gen.C19Trail(in[:adv], 0x55, 32), atEOF, idx)
			if ok2 && ok3 && (a2 != a3 || !bytes.Equal(t2, t3) || a2 != adv) {
				rec.Violation("c19:mrt:SplitMrt:token-depends-on-following-bytes", "the token for the first record changes with the bytes that follow it",
					map[string]any{"case": idx, "data": gen.C19Hex(in), "mutation": kind})
			}
		}
	}
	_, _, _ = gen.C19ScanStream(rec, "mrt", "SplitMrt", SplitMrt, in, r, idx)
	rec.Count("mrt_split_scanner_runs", 1)
}

func c19RoundTrip(rec *vlib.Rec, w *gen.C19Watch, r *rand.Rand, idx int) {
	g := c19GenMsg(rec, r)
	w.Mark(idx, "roundtrip:"+g.name, g.ref)
	rec.Count("mrt_rt_"+g.name, 1)
	if g.payload != nil {
		rec.Count("mrt_rt_bgp4mp_payload_form", 1)
	}
	wit := func() any {
		return map[string]any{"case": idx, "record": g.name, "reference": gen.C19Hex(g.ref), "body": fmt.Sprint(g.msg.Body)}
	}
	var b1 []byte
	var err error
	if rec.Guard("c19:mrt:rt:Serialize", wit, func() { b1, err = g.msg.Serialize() }) {
		return
	}
	if err != nil {
		rec.Violation("c19:mrt:rt:serialize-error:"+g.name, "constructible record does not serialise: "+err.Error(), wit())
		return
	}
	rec.Nontrivial("mrt|rt|" + g.name + fmt.Sprintf("|%v", g.payload != nil))
	// One defect class must not show up under a dozen keys: RIB subtypes share a class name, and a
	// wire mismatch is classified by what differs. After a wire mismatch the parser is still checked,
	// on the reference bytes (so that a serialiser defect does not hide a parser defect).
	class := g.name
	if _, isRib := g.msg.Body.(*Rib); isRib {
		class = "TABLE_DUMPv2/RIB_*"
		if g.msg.Header.SubType == uint16(RIB_GENERIC) || g.msg.Header.SubType == uint16(RIB_GENERIC_ADDPATH) {
			class = "TABLE_DUMPv2/RIB_GENERIC*"
		}
	}
	src := b1
	wireOK := bytes.Equal(b1, g.ref)
	if !wireOK {
		diff := "other"
		if _, isRib := g.msg.Body.(*Rib); isRib && len(g.ref) >= 16 && len(b1) >= 16 {
			// the header Length field differs as a consequence; compare bodies
			gb, rb := b1[12:], g.ref[12:]
			if len(gb) == len(rb)+3 && bytes.Equal(gb[:4], rb[:4]) && bytes.Equal(gb[7:], rb[4:]) {
				diff = "afi-safi-inserted-after-sequence-number"
			} else if len(gb)+3 == len(rb) && bytes.Equal(gb[:4], rb[:4]) && bytes.Equal(gb[4:], rb[7:]) {
				diff = "afi-safi-missing-after-sequence-number"
			}
		} else if g.et && len(b1) == len(g.ref) && bytes.Equal(b1[:8], g.ref[:8]) && bytes.Equal(b1[12:], g.ref[12:]) {
			diff = "length-field-excludes-microseconds"
		}
		rec.Violation("c19:mrt:rt:wire-mismatch:"+class+":"+diff, "Serialize differs from the independent RFC 6396/8050 reference encoding of the record",
			map[string]any{"case": idx, "record": g.name, "got": gen.C19Hex(b1), "want": gen.C19Hex(g.ref), "body": fmt.Sprint(g.msg.Body)})
		if !g.et { // (no parser for the extended-timestamp type: show that on the package's own bytes)
			src = g.ref
		}
	}
	var h *MRTHeader
	if rec.Guard("c19:mrt:rt:ParseHeader", wit, func() { h, err = ParseHeader(gen.C19Exact(src)) }) {
		return
	}
	if err != nil {
		rec.Violation("c19:mrt:rt:parse-error:"+class, "record bytes are rejected by ParseHeader: "+err.Error(), wit())
		return
	}
	if wireOK && *h != g.msg.Header {
		rec.Violation("c19:mrt:rt:header-not-equal:"+class, "ParseHeader(Serialize(m)) != m.Header",
			map[string]any{"case": idx, "record": g.name, "built": fmt.Sprintf("%+v", g.msg.Header), "parsed": fmt.Sprintf("%+v", *h)})
	}
	what := "Serialize output of a constructible record"
	if !wireOK {
		what = "the RFC reference encoding of a constructible record"
	}
	var m2 *MRTMessage
	if rec.Guard("c19:mrt:rt:ParseBody", wit, func() { m2, err = ParseBody(gen.C19Exact(src[g.hdrLen:]), h) }) {
		return
	}
	if err != nil {
		rec.Violation("c19:mrt:rt:parse-error:"+class, what+" is rejected by ParseBody: "+err.Error(),
			map[string]any{"case": idx, "record": g.name, "bytes": gen.C19Hex(src), "body": fmt.Sprint(g.msg.Body)})
		return
	}
	if why := c19EqBody(g.msg.Body, m2.Body); why != "" {
		rec.Violation("c19:mrt:rt:not-equal:"+class, "parsing "+what+" does not give back the record ("+why+")",
			map[string]any{"case": idx, "record": g.name, "differs_in": why, "built": fmt.Sprint(g.msg.Body), "parsed": fmt.Sprint(m2.Body), "bytes": gen.C19Hex(src)})
		return // (re-serialising an unequal record would repeat the same defect under another key)
	}
	if !wireOK {
		return
	}
	var b2 []byte
	if rec.Guard("c19:mrt:rt:Serialize", wit, func() { b2, err = m2.Serialize() }) {
		return
	}
	if err != nil || !bytes.Equal(b1, b2) {
		rec.Violation("c19:mrt:rt:reserialize-differs:"+class, "Serialize(Parse(Serialize(m))) != Serialize(m)",
			map[string]any{"case": idx, "record": g.name, "first": gen.C19Hex(b1), "second": gen.C19Hex(b2), "err": fmt.Sprint(err)})
	}
	// SplitMrt on the record followed by another one
	next := c19GenMsg(rec, r).ref
	adv, tok, _, ok := gen.C19CheckSplit(rec, "mrt", "SplitMrt", SplitMrt, append(gen.C19Exact(b1), next...), false, idx)
	if ok && (adv != len(b1) || !bytes.Equal(tok, b1)) {
		key := "c19:mrt:rt:split-token"
		if g.et {
			key += ":BGP4MP_ET"
		}
		rec.Violation(key, "SplitMrt did not return the first record of a buffer as the token",
			map[string]any{"case": idx, "record": g.name, "advance": adv, "token_len": len(tok), "record_len": len(b1)})
	}
}

func TestVerifC19(t *testing.T) {
	rec := vlib.Open("C19")
	defer rec.Close()
	w := &gen.C19Watch{Rec: rec, N: 256}
	total := vlib.Scale(120000, 2400000)
	vlib.Cases(total, func(idx int) {
		r := vlib.CaseRand("c19mrt", idx)
		rec.Eval()
		switch r.IntN(8) { // (drawn from the case PRNG so that every shard gets every kind)
		case 0, 1:
			c19RoundTrip(rec, w, r, idx)
		case 2:
			c19SplitCase(rec, w, r, idx)
		default:
			c19Hostile(rec, w, r, idx)
		}
		if idx%9973 == 0 {
			g := c19GenMsg(rec, r)
			rec.Sample(map[string]any{"proto": "mrt", "record": g.name, "wire": gen.C19Hex(g.ref)})
		}
	})
}
