package bgp

// gen_attr: one structurally valid path attribute of every type the package can construct.

import (
	"math"
	"math/rand/v2"
	"net"
	"net/netip"
)

func vgenFloat(r *rand.Rand) float32 {
	switch r.IntN(5) {
	case 0:
		return 0
	case 1:
		return float32(r.IntN(1 << 20))
	case 2:
		return math.MaxFloat32
	case 3:
		return float32(math.Inf(1))
	default:
		return r.Float32() * 1e9
	}
}

// vgenExtComm draws one 8-octet extended community of any constructible kind.
func vgenExtComm(r *rand.Rand, quirk string, tags *[]string) ExtendedCommunityInterface {
	tag := func(s string) {
		if tags != nil {
			*tags = append(*tags, "ec-"+s)
		}
	}
	// sub-types of the AS/IPv4-specific kinds; 0x04 with a two-octet AS is link bandwidth (own type)
	st := vgenPick(r, EC_SUBTYPE_ROUTE_TARGET, EC_SUBTYPE_ROUTE_ORIGIN, EC_SUBTYPE_OSPF_DOMAIN_ID, EC_SUBTYPE_SOURCE_AS, EC_SUBTYPE_L2VPN_ID,
		EC_SUBTYPE_VRF_ROUTE_IMPORT, EC_SUBTYPE_CISCO_VPN_DISTINGUISHER, ExtendedCommunityAttrSubType(0x77), ExtendedCommunityAttrSubType(0xff))
	trans := !vgenChance(r, 4)
	switch r.IntN(30) {
	case 0:
		tag("2as")
		return NewTwoOctetAsSpecificExtended(st, vgenU16(r), vgenU32(r), trans)
	case 1:
		tag("ip4")
		e, _ := NewIPv4AddressSpecificExtended(st, vgenAddr4(r), vgenU16(r), trans)
		return e
	case 2:
		tag("4as")
		if vgenBool(r) {
			st = EC_SUBTYPE_GENERIC
		}
		return NewFourOctetAsSpecificExtended(st, vgenU32(r), vgenU16(r), trans)
	case 3:
		tag("validation")
		return NewValidationExtended(ValidationState(vgenPick(r, 0, 1, 2, 3, 255)))
	case 4:
		tag("linkbw")
		return NewLinkBandwidthExtended(vgenU16(r), vgenFloat(r))
	case 5:
		tag("color")
		return NewColorExtended(vgenU32(r))
	case 6:
		tag("encap")
		return NewEncapExtended(TunnelType(vgenPick[uint16](r, 1, 2, 7, 8, 9, 10, 11, 12, 13, 15, 19, 0, 255, 256, 65535)))
	case 7:
		tag("defgw")
		return NewDefaultGatewayExtended()
	case 8:
		tag("opaque")
		v := vgenBytes(r, 7)
		if trans {
			for v[0] == byte(EC_SUBTYPE_COLOR) || v[0] == byte(EC_SUBTYPE_ENCAPSULATION) || v[0] == byte(EC_SUBTYPE_DEFAULT_GATEWAY) {
				v[0]++
			}
		} else if v[0] == byte(EC_SUBTYPE_ORIGIN_VALIDATION) {
			v[0] = 0x55
		}
		return NewOpaqueExtended(trans, v)
	case 9:
		tag("esilabel")
		return NewESILabelExtended(vgenU24(r), vgenBool(r))
	case 10:
		tag("esimport")
		return NewESImportRouteTarget(vgenMAC(r))
	case 11:
		tag("macmob")
		return NewMacMobilityExtended(vgenU32(r), vgenBool(r))
	case 12:
		tag("routermac")
		return NewRoutersMacExtended(vgenMAC(r))
	case 13:
		tag("l2attr")
		e := &Layer2AttributesExtended{HasCILabel: vgenBool(r), HasFlowLabel: vgenBool(r), HasControlWord: vgenBool(r), Mtu: vgenU16(r)}
		switch r.IntN(3) {
		case 0:
			e.IsPrimaryPe = true
		case 1:
			e.IsBackupPe = true
		}
		return e
	case 14:
		tag("etree")
		return NewETreeExtended(vgenU24(r), vgenBool(r))
	case 15:
		tag("mcastflags")
		if quirk == "mcast-flags-none-or-both" && vgenBool(r) {
			// no flag / both flags: legal per RFC 9251 (a flags field), exercised rarely
			b := vgenBool(r)
			*tags = append(*tags, "quirk:mcast-flags-none-or-both")
			return NewMulticastFlagsExtended(b, b)
		}
		b := vgenBool(r)
		return NewMulticastFlagsExtended(b, !b)
	case 16:
		tag("trafficrate")
		return NewTrafficRateExtended(vgenU16(r), vgenFloat(r))
	case 17:
		tag("trafficaction")
		return NewTrafficActionExtended(vgenBool(r), vgenBool(r))
	case 18:
		tag("redirect2as")
		return NewRedirectTwoOctetAsSpecificExtended(vgenU16(r), vgenU32(r))
	case 19:
		tag("redirectip4")
		e, _ := NewRedirectIPv4AddressSpecificExtended(vgenAddr4(r), vgenU16(r))
		return e
	case 20:
		tag("redirect4as")
		return NewRedirectFourOctetAsSpecificExtended(vgenU32(r), vgenU16(r))
	case 21:
		tag("remark")
		return NewTrafficRemarkExtended(vgenU8(r))
	case 22:
		tag("vpls")
		return NewVPLSExtended(vgenU8(r), vgenU16(r))
	case 23:
		tag("mup")
		return NewMUPExtended(vgenPick(r, EC_SUBTYPE_MUP_DIRECT_SEG, EC_SUBTYPE_MUP_INTERWORK_SEG), vgenU16(r), vgenU32(r))
	case 24:
		tag("mupip4")
		e, _ := NewMUPIPv4AddressSpecificExtended(vgenPick(r, EC_SUBTYPE_MUP_DIRECT_SEG_IPV4, EC_SUBTYPE_MUP_INTERWORK_SEG_IPV4), vgenAddr4(r), vgenU16(r))
		return e
	case 25:
		tag("mup4as")
		return NewMUPFourOctetAsSpecificExtended(vgenPick(r, EC_SUBTYPE_MUP_DIRECT_SEG_4_OCTET_AS, EC_SUBTYPE_MUP_INTERWORK_SEG_4_OCTET_AS), vgenU32(r), vgenU16(r))
	case 26, 27:
		tag("unknown")
		// a type octet none of the decoders claims
		t := vgenPick[uint8](r, 0x04, 0x05, 0x07, 0x09, 0x0b, 0x20, 0x3f, 0x44, 0x45, 0x7f, 0x83, 0x90, 0xc0, 0xff)
		return NewUnknownExtended(ExtendedCommunityAttrType(t), vgenBytes(r, 7))
	default:
		tag("2as")
		return NewTwoOctetAsSpecificExtended(EC_SUBTYPE_ROUTE_TARGET, vgenU16(r), vgenU32(r), true)
	}
}

func vgenIP6ExtComm(r *rand.Rand, tags *[]string) ExtendedCommunityInterface {
	tag := func(s string) {
		if tags != nil {
			*tags = append(*tags, "ec6-"+s)
		}
	}
	switch r.IntN(4) {
	case 0:
		tag("redirect")
		e, _ := NewRedirectIPv6AddressSpecificExtended(vgenAddr6(r), vgenU16(r))
		return e
	case 1:
		tag("unknown")
		return &UnknownIP6Extended{Type: ExtendedCommunityAttrType(vgenPick[uint8](r, 0x01, 0x02, 0x41, 0x43, 0x81, 0xff)), Value: vgenBytes(r, 19)}
	default:
		tag("ip6")
		st := vgenPick(r, EC_SUBTYPE_ROUTE_TARGET, EC_SUBTYPE_ROUTE_ORIGIN, ExtendedCommunityAttrSubType(0x0b), ExtendedCommunityAttrSubType(0x77))
		e, _ := NewIPv6AddressSpecificExtended(st, vgenAddr6(r), vgenU16(r), !vgenChance(r, 4))
		return e
	}
}

var vgenKnownEncapSubTLV = map[EncapSubTLVType]bool{1: true, 2: true, 4: true, 6: true, 8: true, 12: true, 13: true, 14: true, 15: true, 128: true, 129: true}

func vgenEncapSubTLV(r *rand.Rand, quirk string, tags *[]string) TunnelEncapSubTLVInterface {
	tag := func(s string) {
		if tags != nil {
			*tags = append(*tags, "encap-"+s)
		}
	}
	switch r.IntN(13) {
	case 0:
		tag("encapsulation")
		return NewTunnelEncapSubTLVEncapsulation(vgenU32(r), vgenBytes(r, vgenPick(r, 0, 4, 8, 64, 250, 251)))
	case 1:
		tag("protocol")
		return NewTunnelEncapSubTLVProtocol(vgenU16(r))
	case 2:
		tag("color")
		return NewTunnelEncapSubTLVColor(vgenU32(r))
	case 3:
		tag("egress")
		t, _ := NewTunnelEncapSubTLVEgressEndpoint(vgenAddr(r, vgenBool(r)))
		return t
	case 4:
		tag("udpport")
		return NewTunnelEncapSubTLVUDPDestPort(vgenU16(r))
	case 5:
		tag("srpreference")
		return NewTunnelEncapSubTLVSRPreference(uint32(vgenU8(r)), vgenU32(r))
	case 6:
		tag("srpriority")
		return NewTunnelEncapSubTLVSRPriority(vgenU8(r))
	case 7:
		tag("srcpname")
		return NewTunnelEncapSubTLVSRCandidatePathName(vgenString(r, vgenPick(r, 0, 1, 8, 255, 300)))
	case 8:
		tag("srenlp")
		return NewTunnelEncapSubTLVSRENLP(uint32(vgenU8(r)), SRENLPValue(1+r.IntN(4)))
	case 9:
		tag("srbsid")
		var b *BSID
		switch r.IntN(3) {
		case 0:
			b = &BSID{Value: []byte{}}
		case 1:
			b, _ = NewBSID(vgenBytes(r, 4))
		default:
			b, _ = NewBSID(vgenBytes(r, 16))
		}
		// (no constructor: the cached sub-TLV length is filled in like the constructors of the other kinds do)
		return &TunnelEncapSubTLVSRBSID{TunnelEncapSubTLV: TunnelEncapSubTLV{Type: ENCAP_SUBTLV_TYPE_SRBINDING_SID, Length: uint16(2 + b.Len())}, Flags: vgenU8(r), BSID: b}
	case 10:
		tag("srseglist")
		sl := &TunnelEncapSubTLVSRSegmentList{TunnelEncapSubTLV: TunnelEncapSubTLV{Type: ENCAP_SUBTLV_TYPE_SRSEGMENT_LIST}}
		ll := 1
		if vgenBool(r) {
			sl.Weight = &SegmentListWeight{TunnelEncapSubTLV: TunnelEncapSubTLV{Type: SegmentListSubTLVWeight, Length: 6}, Flags: vgenU8(r), Weight: vgenU32(r)}
			ll += 8
		}
		for i := vgenSmallLen(r, 4); i > 0; i-- {
			if vgenBool(r) {
				sl.Segments = append(sl.Segments, &SegmentTypeA{TunnelEncapSubTLV: TunnelEncapSubTLV{Type: EncapSubTLVType(TypeA), Length: 6}, Flags: vgenU8(r), Label: vgenU32(r)})
				ll += 8
			} else {
				s := &SegmentTypeB{TunnelEncapSubTLV: TunnelEncapSubTLV{Type: EncapSubTLVType(TypeB), Length: 18}, Flags: vgenU8(r), SID: vgenBytes(r, 16)}
				if vgenBool(r) {
					s.SRv6EBS = &SRv6EndpointBehaviorStructure{Behavior: SRBehavior(vgenU16(r)), BlockLen: vgenU8(r), NodeLen: vgenU8(r), FuncLen: vgenU8(r), ArgLen: vgenU8(r)}
					s.Length = 26
				}
				sl.Segments = append(sl.Segments, s)
				ll += 2 + int(s.Length)
			}
		}
		sl.Length = uint16(ll)
		return sl
	default:
		tag("unknown")
		t := EncapSubTLVType(vgenU8(r))
		for vgenKnownEncapSubTLV[t] {
			t++
		}
		n := vgenPick(r, 1, 2, 3, 16, 254, 255)
		if quirk == "encap-empty-tlv" && vgenBool(r) {
			n = 0
			*tags = append(*tags, "quirk:encap-empty-tlv")
		}
		if t >= 0x80 && vgenChance(r, 4) {
			n = vgenPick(r, 256, 300, 1000)
		}
		return NewTunnelEncapSubTLVUnknown(t, vgenBytes(r, n))
	}
}

// vgenAttrCtx carries what an attribute generator needs to know about the message.
type vgenAttrCtx struct {
	o      *vgenOptSet
	big    bool // this attribute may be large (value length next to 255/256, 4096, 65535)
	quirk  string
	tags   *[]string
	single bool // single-label stacks (Prefix-SID present)
}

func (c *vgenAttrCtx) tag(s string) {
	if c.tags != nil {
		*c.tags = append(*c.tags, s)
	}
}

func vgenAsPath(r *rand.Rand, c *vgenAttrCtx) PathAttributeInterface {
	nseg := vgenSmallLen(r, 4)
	var segs []AsPathParamInterface
	for i := 0; i < nseg; i++ {
		n := 1 + vgenSmallLen(r, 5)
		if c.big && vgenChance(r, 2) {
			n = vgenPick(r, 62, 63, 64, 65, 126, 127, 128, 254, 255)
		}
		typ := uint8(vgenPick(r, 1, 2, 2, 2, 3, 4))
		if c.o.AS2 {
			as := make([]uint16, n, n+4)
			for j := range as {
				as[j] = vgenU16(r)
			}
			segs = append(segs, NewAsPathParam(typ, as))
		} else {
			as := make([]uint32, n, n+4)
			for j := range as {
				as[j] = vgenU32(r)
			}
			segs = append(segs, NewAs4PathParam(typ, as))
		}
	}
	return NewPathAttributeAsPath(segs)
}

func vgenAs4Path(r *rand.Rand, c *vgenAttrCtx) PathAttributeInterface {
	nseg := vgenSmallLen(r, 4)
	var segs []*As4PathParam
	for i := 0; i < nseg; i++ {
		n := 1 + vgenSmallLen(r, 5)
		if c.big && vgenChance(r, 2) {
			n = vgenPick(r, 62, 63, 64, 65, 254, 255)
		}
		as := make([]uint32, n, n+4)
		for j := range as {
			as[j] = vgenU32(r)
		}
		segs = append(segs, NewAs4PathParam(uint8(vgenPick(r, 1, 2, 2, 3, 4)), as))
	}
	return NewPathAttributeAs4Path(segs)
}

// vgenNextHops picks the next hop(s) of an MP_REACH for family f.
func vgenNextHops(r *rand.Rand, f Family) []netip.Addr {
	switch f.Safi() {
	case SAFI_FLOW_SPEC_UNICAST, SAFI_FLOW_SPEC_VPN:
		return nil
	}
	if f == RF_OPAQUE && vgenChance(r, 3) {
		return nil
	}
	v6 := f.Afi() == AFI_IP6
	switch f.Afi() {
	case AFI_IP:
		v6 = vgenChance(r, 5) // RFC 8950
	case AFI_IP6:
		v6 = !vgenChance(r, 8) // an IPv4 next hop is sent IPv4-mapped (6PE)
	default:
		v6 = vgenBool(r)
	}
	if !v6 {
		return []netip.Addr{vgenAddr4(r)}
	}
	g := vgenAddr6(r)
	if vgenChance(r, 3) {
		return []netip.Addr{g, vgenLinkLocal6(r)}
	}
	return []netip.Addr{g}
}

func vgenMpReach(r *rand.Rand, f Family, c *vgenAttrCtx) PathAttributeInterface {
	n := 1 + vgenSmallLen(r, 4)
	if c.big {
		n = vgenPick(r, 30, 50, 60, 100, 300, 800)
	}
	if f == RF_OPAQUE {
		n = 1 // the key/value NLRI has no delimiter: one per attribute
	}
	nc := &vgenNLRICtx{single: c.single, quirk: c.quirk, tags: c.tags}
	nl := vgenNLRIs(r, f, n, c.o.addPath(f), nc)
	if len(nl) == 0 {
		return nil
	}
	a, err := NewPathAttributeMpReachNLRI(f, nl, vgenNextHops(r, f)...)
	if err != nil {
		return nil
	}
	return a
}

func vgenMpUnreach(r *rand.Rand, f Family, c *vgenAttrCtx) PathAttributeInterface {
	n := vgenSmallLen(r, 4)
	if c.big {
		n = vgenPick(r, 30, 50, 60, 100, 300, 800)
	}
	if f == RF_OPAQUE && n > 1 {
		n = 1
	}
	nc := &vgenNLRICtx{withdraw: true, single: c.single, quirk: c.quirk, tags: c.tags}
	nl := vgenNLRIs(r, f, n, c.o.addPath(f), nc)
	a, _ := NewPathAttributeMpUnreachNLRI(f, nl)
	return a
}

func vgenTunnelEncap(r *rand.Rand, c *vgenAttrCtx) PathAttributeInterface {
	var tlvs []*TunnelEncapTLV
	nt := 1 + vgenSmallLen(r, 3)
	for i := 0; i < nt; i++ {
		var subs []TunnelEncapSubTLVInterface
		ns := 1 + vgenSmallLen(r, 4)
		if c.quirk == "encap-empty-tlv" && vgenChance(r, 3) {
			ns = 0
			c.tag("quirk:encap-empty-tlv")
		}
		for j := 0; j < ns; j++ {
			s := vgenEncapSubTLV(r, c.quirk, c.tags)
			if !vgenIsNilIface(s) {
				subs = append(subs, s)
			}
		}
		tt := TunnelType(vgenPick[uint16](r, 1, 2, 7, 8, 9, 10, 11, 12, 13, 15, 15, 19, 0, 999, 65535))
		tlvs = append(tlvs, NewTunnelEncapTLV(tt, subs))
	}
	return NewPathAttributeTunnelEncap(tlvs)
}

func vgenPmsi(r *rand.Rand, c *vgenAttrCtx) PathAttributeInterface {
	typ := PmsiTunnelType(vgenPick[uint8](r, 0, 1, 2, 3, 4, 5, 6, 6, 7, 99))
	var id PmsiTunnelIDInterface
	if typ == PMSI_TUNNEL_TYPE_INGRESS_REPL {
		id, _ = NewIngressReplTunnelID(vgenAddr(r, vgenBool(r)))
	} else {
		n := vgenPick(r, 0, 4, 8, 12, 16, 24)
		if c.big {
			n = vgenPick(r, 249, 250, 251, 252, 300)
		}
		id = NewDefaultPmsiTunnelID(vgenBytes(r, n))
	}
	a := NewPathAttributePmsiTunnel(typ, vgenBool(r), vgenU24(r), id)
	if a == nil {
		return nil
	}
	return a
}

func vgenPrefixSID(r *rand.Rand, c *vgenAttrCtx) PathAttributeInterface {
	var tlvs []PrefixSIDTLVInterface
	for i := 1 + vgenSmallLen(r, 2); i > 0; i-- {
		var subs []PrefixSIDTLVInterface
		for j := 1 + vgenSmallLen(r, 2); j > 0; j-- {
			var sss []PrefixSIDTLVInterface
			if vgenBool(r) {
				sss = append(sss, NewSRv6SIDStructureSubSubTLV(vgenU8(r), vgenU8(r), vgenU8(r), vgenU8(r), vgenU8(r), vgenU8(r)))
			}
			subs = append(subs, NewSRv6InformationSubTLV(vgenAddr6(r), SRBehavior(vgenU16(r)), sss...))
		}
		tlvs = append(tlvs, NewSRv6ServiceTLV(vgenPick(r, TLVTypeSRv6L3Service, TLVTypeSRv6L2Service), subs...))
	}
	return NewPathAttributePrefixSID(tlvs...)
}

func vgenLsAttr(r *rand.Rand, c *vgenAttrCtx) PathAttributeInterface {
	la := &LsAttribute{}
	p := func() bool { return vgenChance(r, 4) }
	u32 := func() *uint32 { v := vgenU32(r); return &v }
	bs := func(n int) *[]byte { b := vgenBytes(r, n); return &b }
	str := func(n int) *string { s := vgenString(r, n); return &s }
	a4 := func() *netip.Addr { a := vgenAddr4(r); return &a }
	a6 := func() *netip.Addr { a := vgenAddr6(r); return &a }
	if p() {
		la.Node.Flags = &LsNodeFlags{Overload: vgenBool(r), Attached: vgenBool(r), External: vgenBool(r), ABR: vgenBool(r), Router: vgenBool(r), V6: vgenBool(r)}
	}
	if p() {
		la.Node.Opaque = bs(1 + r.IntN(20))
	}
	if p() {
		la.Node.Name = str(1 + r.IntN(30))
	}
	if p() {
		la.Node.IsisArea = bs(1 + r.IntN(13))
	}
	if p() {
		la.Node.LocalRouterID = a4()
	}
	if p() {
		la.Node.LocalRouterIDv6 = a6()
	}
	if c.quirk == "ls-sr-ranges" && vgenBool(r) {
		la.Node.SrCapabilties = &LsSrCapabilities{IPv4Supported: vgenBool(r), IPv6Supported: vgenBool(r), Ranges: []LsSrRange{{Begin: 16000, End: 24000}}}
		c.tag("quirk:ls-sr-ranges")
	}
	if p() {
		la.Node.SrAlgorithms = bs(1 + r.IntN(3))
	}
	if c.quirk == "ls-sr-ranges" && vgenBool(r) {
		la.Node.SrLocalBlock = &LsSrLocalBlock{Ranges: []LsSrRange{{Begin: 15000, End: 16000}}}
		c.tag("quirk:ls-sr-ranges")
	}
	if p() {
		la.Link.Name = str(1 + r.IntN(30))
	}
	if p() {
		la.Link.RemoteRouterID = a4()
	}
	if p() {
		la.Link.RemoteRouterIDv6 = a6()
	}
	if p() {
		la.Link.AdminGroup = u32()
	}
	if p() {
		la.Link.DefaultTEMetric = u32()
	}
	if p() {
		la.Link.UnidirectionalLinkDelay = &LsUnidirectionalLinkDelay{Flags: LsDelayMetricFlags{Anomalous: vgenBool(r)}, Delay: vgenU24(r)}
	}
	if p() {
		la.Link.MinMaxUnidirectionalLinkDelay = &LsMinMaxUnidirectionalLinkDelay{Flags: LsDelayMetricFlags{Anomalous: vgenBool(r)}, MinDelay: vgenU24(r), MaxDelay: vgenU24(r)}
	}
	if p() {
		v := vgenU24(r)
		la.Link.UnidirectionalDelayVariation = &v
	}
	if p() {
		v := vgenU24(r)
		la.Link.IGPMetric = &v
	}
	if p() {
		la.Link.Opaque = bs(1 + r.IntN(20))
	}
	if p() {
		f := vgenPick(r, float32(0), 1, 125000000, math.MaxFloat32, r.Float32()*1e9)
		la.Link.Bandwidth = &f
	}
	if p() {
		f := vgenPick(r, float32(0), 1, 125000000, math.MaxFloat32, r.Float32()*1e9)
		la.Link.ReservableBandwidth = &f
	}
	if p() {
		var u [8]float32
		for i := range u {
			u[i] = float32(1 + r.IntN(1000))
		}
		la.Link.UnreservedBandwidth = &u
	}
	if p() {
		s := []uint32{vgenU32(r), vgenU32(r)}
		la.Link.Srlgs = &s
	}
	if p() {
		v := vgenLabel(r)
		la.Link.SrAdjacencySID = &v
	}
	if p() {
		la.Link.Srv6EndXSID = &LsSrv6EndXSID{EndpointBehavior: vgenU16(r), Flags: vgenU8(r), Algorithm: vgenU8(r), Weight: vgenU8(r), SIDs: []netip.Addr{vgenAddr6(r)},
			Srv6SIDStructure: LsSrv6SIDStructure{LocalBlock: 32, LocalNode: 16, LocalFunc: 16, LocalArg: 0}}
	}
	if p() {
		la.Prefix.IGPFlags = &LsIGPFlags{Down: vgenBool(r), NoUnicast: vgenBool(r), LocalAddress: vgenBool(r), PropagateNSSA: vgenBool(r)}
	}
	if p() {
		la.Prefix.Opaque = bs(1 + r.IntN(20))
	}
	if p() {
		v := vgenLabel(r)
		la.Prefix.SrPrefixSID = &v
	}
	if p() {
		la.BgpPeerSegment.BgpPeerNodeSid = &LsBgpPeerSegmentSID{Flags: LsAttributeBgpPeerSegmentSIDFlags{Value: true, Local: true, Backup: vgenBool(r), Persistent: vgenBool(r)}, Weight: vgenU8(r), SID: vgenLabel(r)}
	}
	if p() {
		la.BgpPeerSegment.BgpPeerAdjacencySid = &LsBgpPeerSegmentSID{Flags: LsAttributeBgpPeerSegmentSIDFlags{Value: true, Local: true}, Weight: vgenU8(r), SID: vgenLabel(r)}
	}
	if p() {
		la.BgpPeerSegment.BgpPeerSetSid = &LsBgpPeerSegmentSID{Flags: LsAttributeBgpPeerSegmentSIDFlags{Value: false, Local: false}, Weight: vgenU8(r), SID: vgenU32(r)}
	}
	if p() {
		// the four lengths describe parts of one 128-bit SID
		lb := uint8(r.IntN(129))
		ln := uint8(r.IntN(129 - int(lb)))
		lf := uint8(r.IntN(129 - int(lb) - int(ln)))
		la.Srv6SID.Srv6SIDStructure = &LsSrv6SIDStructure{LocalBlock: lb, LocalNode: ln, LocalFunc: lf, LocalArg: uint8(r.IntN(129 - int(lb) - int(ln) - int(lf)))}
	}
	if p() {
		la.Srv6SID.Srv6BgpPeerNodeSID = &LsSrv6BgpPeerNodeSID{Flags: vgenU8(r), Weight: vgenU8(r), PeerAS: vgenU32(r), PeerBgpID: vgenAddr4(r).String()}
	}
	if p() {
		la.Srv6SID.Srv6EndpointBehavior = &LsSrv6EndpointBehavior{EndpointBehavior: vgenU16(r), Flags: vgenU8(r), Algorithm: vgenU8(r)}
	}
	var tlvs []LsTLVInterface
	l := 0
	for _, t := range NewLsAttributeTLVs(la) {
		if vgenIsNilIface(t) {
			continue
		}
		tlvs = append(tlvs, t)
		l += t.Len()
	}
	return &PathAttributeLs{PathAttribute: PathAttribute{Flags: getPathAttrFlags(BGP_ATTR_TYPE_LS, l), Type: BGP_ATTR_TYPE_LS, Length: uint16(l)}, TLVs: tlvs}
}

var vgenKnownAttrTypes = map[BGPAttrType]bool{1: true, 2: true, 3: true, 4: true, 5: true, 6: true, 7: true, 8: true, 9: true, 10: true, 14: true, 15: true, 16: true, 17: true, 18: true,
	22: true, 23: true, 25: true, 26: true, 29: true, 32: true, 40: true}

// vgenSimpleAttrTypes are the attribute types vgenAttr can draw (MP_REACH/MP_UNREACH are handled
// by the message generator because they need a family).
var vgenSimpleAttrTypes = []BGPAttrType{
	BGP_ATTR_TYPE_ORIGIN, BGP_ATTR_TYPE_AS_PATH, BGP_ATTR_TYPE_NEXT_HOP, BGP_ATTR_TYPE_MULTI_EXIT_DISC, BGP_ATTR_TYPE_LOCAL_PREF,
	BGP_ATTR_TYPE_ATOMIC_AGGREGATE, BGP_ATTR_TYPE_AGGREGATOR, BGP_ATTR_TYPE_COMMUNITIES, BGP_ATTR_TYPE_ORIGINATOR_ID, BGP_ATTR_TYPE_CLUSTER_LIST,
	BGP_ATTR_TYPE_EXTENDED_COMMUNITIES, BGP_ATTR_TYPE_AS4_PATH, BGP_ATTR_TYPE_AS4_AGGREGATOR, BGP_ATTR_TYPE_PMSI_TUNNEL, BGP_ATTR_TYPE_TUNNEL_ENCAP,
	BGP_ATTR_TYPE_IP6_EXTENDED_COMMUNITIES, BGP_ATTR_TYPE_AIGP, BGP_ATTR_TYPE_LS, BGP_ATTR_TYPE_LARGE_COMMUNITY, BGP_ATTR_TYPE_PREFIX_SID,
	BGPAttrType(0), // stands for "an attribute type gobgp does not know"
}

// vgenAttr draws one attribute of type t (0 = unknown type).
func vgenAttr(r *rand.Rand, t BGPAttrType, c *vgenAttrCtx) PathAttributeInterface {
	switch t {
	case BGP_ATTR_TYPE_ORIGIN:
		return NewPathAttributeOrigin(vgenPick[uint8](r, 0, 1, 2, 2, 3, 255))
	case BGP_ATTR_TYPE_AS_PATH:
		return vgenAsPath(r, c)
	case BGP_ATTR_TYPE_NEXT_HOP:
		a, _ := NewPathAttributeNextHop(vgenAddr4(r)) // RFC 4271 5.1.3: an IPv4 address
		return a
	case BGP_ATTR_TYPE_MULTI_EXIT_DISC:
		return NewPathAttributeMultiExitDisc(vgenU32(r))
	case BGP_ATTR_TYPE_LOCAL_PREF:
		return NewPathAttributeLocalPref(vgenU32(r))
	case BGP_ATTR_TYPE_ATOMIC_AGGREGATE:
		return NewPathAttributeAtomicAggregate()
	case BGP_ATTR_TYPE_AGGREGATOR:
		var a *PathAttributeAggregator
		if c.o.AS2 || vgenChance(r, 4) {
			a, _ = NewPathAttributeAggregator(vgenU16(r), vgenAddr4(r))
		} else {
			a, _ = NewPathAttributeAggregator(vgenU32(r), vgenAddr4(r))
		}
		return a
	case BGP_ATTR_TYPE_COMMUNITIES:
		n := max(1, vgenCount(r, 4, c.big)) // RFC 7606 7.8: a zero-length COMMUNITIES is malformed
		v := make([]uint32, n, n+4)
		for i := range v {
			v[i] = vgenPick(r, vgenU32(r), 0xffffff01, 0xffffff02, 0xffff029a, uint32(65000<<16|i))
		}
		return NewPathAttributeCommunities(v)
	case BGP_ATTR_TYPE_ORIGINATOR_ID:
		a, _ := NewPathAttributeOriginatorId(vgenAddr4(r))
		return a
	case BGP_ATTR_TYPE_CLUSTER_LIST:
		n := max(1, vgenCount(r, 4, c.big)) // RFC 7606 7.10
		v := make([]netip.Addr, n)
		for i := range v {
			v[i] = vgenAddr4(r)
		}
		a, _ := NewPathAttributeClusterList(v)
		return a
	case BGP_ATTR_TYPE_EXTENDED_COMMUNITIES:
		n := max(1, vgenCount(r, 8, c.big)) // RFC 7606 7.14
		v := make([]ExtendedCommunityInterface, 0, n+2)
		for i := 0; i < n; i++ {
			e := vgenExtComm(r, c.quirk, c.tags)
			if !vgenIsNilIface(e) {
				v = append(v, e)
			}
		}
		return NewPathAttributeExtendedCommunities(v)
	case BGP_ATTR_TYPE_AS4_PATH:
		return vgenAs4Path(r, c)
	case BGP_ATTR_TYPE_AS4_AGGREGATOR:
		a, _ := NewPathAttributeAs4Aggregator(vgenU32(r), vgenAddr4(r))
		return a
	case BGP_ATTR_TYPE_PMSI_TUNNEL:
		return vgenPmsi(r, c)
	case BGP_ATTR_TYPE_TUNNEL_ENCAP:
		return vgenTunnelEncap(r, c)
	case BGP_ATTR_TYPE_IP6_EXTENDED_COMMUNITIES:
		n := vgenCount(r, 20, c.big)
		v := make([]ExtendedCommunityInterface, 0, n+2)
		for i := 0; i < n; i++ {
			e := vgenIP6ExtComm(r, c.tags)
			if !vgenIsNilIface(e) {
				v = append(v, e)
			}
		}
		return NewPathAttributeIP6ExtendedCommunities(v)
	case BGP_ATTR_TYPE_AIGP:
		var v []AigpTLVInterface
		for i := 1 + vgenSmallLen(r, 2); i > 0; i-- {
			if vgenBool(r) {
				v = append(v, NewAigpTLVIgpMetric(vgenU64(r)))
			} else {
				n := 1 + vgenSmallLen(r, 12)
				if c.big {
					n = vgenPick(r, 249, 252, 253, 300)
				}
				v = append(v, NewAigpTLVDefault(AigpTLVType(vgenPick[uint8](r, 0, 2, 3, 200, 255)), vgenBytes(r, n)))
			}
		}
		return NewPathAttributeAigp(v)
	case BGP_ATTR_TYPE_LS:
		return vgenLsAttr(r, c)
	case BGP_ATTR_TYPE_LARGE_COMMUNITY:
		n := max(1, vgenCount(r, 12, c.big)) // RFC 8092 5
		v := make([]*LargeCommunity, n, n+2)
		for i := range v {
			v[i] = NewLargeCommunity(vgenU32(r), vgenU32(r), vgenU32(r))
		}
		return NewPathAttributeLargeCommunities(v)
	case BGP_ATTR_TYPE_PREFIX_SID:
		return vgenPrefixSID(r, c)
	default:
		typ := BGPAttrType(vgenU8(r))
		for vgenKnownAttrTypes[typ] {
			typ++
		}
		flags := vgenPick(r, BGP_ATTR_FLAG_OPTIONAL|BGP_ATTR_FLAG_TRANSITIVE, BGP_ATTR_FLAG_OPTIONAL|BGP_ATTR_FLAG_TRANSITIVE|BGP_ATTR_FLAG_PARTIAL,
			BGP_ATTR_FLAG_OPTIONAL, BGP_ATTR_FLAG_TRANSITIVE)
		n := vgenSmallLen(r, 40)
		if c.big {
			n = vgenCount(r, 1, true)
		}
		return NewPathAttributeUnknown(flags, typ, vgenBytes(r, n))
	}
}

var _ = net.IPv4len
