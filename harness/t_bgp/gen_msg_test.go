package bgp

// gen_msg: whole messages (OPEN with every capability, UPDATE, NOTIFICATION, ROUTE-REFRESH,
// KEEPALIVE) and the meta data (what was put in) used for coverage counters and distinctness keys.

import (
	"fmt"
	"math/rand/v2"
	"sort"
	"strings"
)

type vgenMeta struct {
	Kind      string // open, update, notification, refresh, keepalive
	AttrTypes []BGPAttrType
	Families  []Family // families of MP attributes (RF_IPv4_UC for the classic fields)
	Caps      []BGPCapabilityCode
	Tags      []string // finer grained element kinds (ext community kinds, EVPN route types, ...)
	Big       bool
}

func (m *vgenMeta) TypeSet() string {
	var s []string
	for _, t := range m.AttrTypes {
		s = append(s, fmt.Sprintf("a%d", t))
	}
	for _, f := range m.Families {
		s = append(s, f.String())
	}
	for _, c := range m.Caps {
		s = append(s, fmt.Sprintf("c%d", c))
	}
	sort.Strings(s)
	out := s[:0]
	for i, x := range s {
		if i == 0 || x != s[i-1] {
			out = append(out, x)
		}
	}
	return m.Kind + ":" + strings.Join(out, ",")
}

var vgenKnownCaps = map[BGPCapabilityCode]bool{1: true, 2: true, 4: true, 5: true, 6: true, 64: true, 65: true, 69: true, 70: true, 71: true, 73: true, 75: true, 128: true}

func vgenCapFamily(r *rand.Rand) Family {
	if vgenChance(r, 6) {
		return NewFamily(vgenU16(r), vgenU8(r))
	}
	return vgenFamilies[r.IntN(len(vgenFamilies))]
}

// vgenCapability draws one capability; maxLen bounds its encoded size.
func vgenCapability(r *rand.Rand, maxLen int) ParameterCapabilityInterface {
	room := func(per, fixed int) int { // how many tuples fit
		n := (maxLen - 2 - fixed) / per
		if n > 255/per {
			n = 255 / per
		}
		return n
	}
	switch r.IntN(14) {
	case 0:
		return NewCapMultiProtocol(vgenCapFamily(r))
	case 1:
		return NewCapRouteRefresh()
	case 2:
		return NewCapExtendedMessage()
	case 3:
		return NewCapCarryingLabelInfo()
	case 4:
		n := 1 + vgenSmallLen(r, min(room(6, 0)-1, 6))
		ts := make([]*CapExtendedNexthopTuple, 0, n)
		for i := 0; i < n; i++ {
			ts = append(ts, NewCapExtendedNexthopTuple(vgenCapFamily(r), vgenPick[uint16](r, 1, 2, 2, 0, 65535)))
		}
		return NewCapExtendedNexthop(ts)
	case 5:
		n := vgenSmallLen(r, min(room(4, 2), 8))
		ts := make([]*CapGracefulRestartTuple, 0, n)
		for i := 0; i < n; i++ {
			ts = append(ts, NewCapGracefulRestartTuple(vgenCapFamily(r), vgenBool(r)))
		}
		return NewCapGracefulRestart(vgenBool(r), vgenBool(r), vgenPick[uint16](r, 0, 1, 90, 120, 4094, 4095), ts)
	case 6:
		return NewCapFourOctetASNumber(vgenU32(r))
	case 7:
		n := 1 + vgenSmallLen(r, min(room(4, 0)-1, 8))
		ts := make([]*CapAddPathTuple, 0, n)
		for i := 0; i < n; i++ {
			ts = append(ts, NewCapAddPathTuple(vgenCapFamily(r), BGPAddPathMode(vgenPick[uint8](r, 0, 1, 2, 3, 3))))
		}
		return NewCapAddPath(ts)
	case 8:
		return NewCapEnhancedRouteRefresh()
	case 9:
		return NewCapRouteRefreshCisco()
	case 10:
		n := vgenSmallLen(r, min(room(7, 0), 6))
		ts := make([]*CapLongLivedGracefulRestartTuple, 0, n)
		for i := 0; i < n; i++ {
			ts = append(ts, NewCapLongLivedGracefulRestartTuple(vgenCapFamily(r), vgenBool(r), vgenU24(r)))
		}
		return NewCapLongLivedGracefulRestart(ts)
	case 11:
		h := vgenPick(r, 0, 1, 8, 63, 64)
		d := vgenPick(r, 0, 1, 12, 63, 64)
		if h+d+4 > maxLen {
			h, d = 3, 3
		}
		return NewCapFQDN(vgenString(r, h), vgenString(r, d))
	case 12:
		n := vgenPick(r, 1, 2, 10, 63, 64)
		if n+3 > maxLen {
			n = 1
		}
		return NewCapSoftwareVersion(vgenString(r, n))
	default:
		code := BGPCapabilityCode(vgenU8(r))
		for vgenKnownCaps[code] {
			code++
		}
		n := vgenPick(r, 0, 0, 1, 4, 20, 100, 200, 249, 250, 251)
		if n+2 > maxLen {
			n = 0
		}
		return NewCapUnknown(code, vgenBytes(r, n))
	}
}

func vgenOpen(r *rand.Rand, o *vgenOptSet, quirk string, meta *vgenMeta) *BGPMessage {
	meta.Kind = "open"
	var params []OptionParameterInterface
	total := 0 // encoded length of all optional parameters, at most 255
	np := vgenSmallLen(r, 4)
	for i := 0; i < np && total < 250; i++ {
		// one parameter: at most 253 value octets (2 + 253 = 255, the largest Optional Parameters Length)
		limit := 253
		if limit > 255-total-2 {
			limit = 255 - total - 2
		}
		if limit < 2 {
			break
		}
		if vgenChance(r, 8) {
			n := vgenSmallLen(r, min(limit, 20))
			t := uint8(vgenPick(r, 1, 3, 4, 200, 255))
			params = append(params, &OptionParameterUnknown{ParamType: t, Value: vgenBytes(r, n)})
			total += 2 + n
			continue
		}
		var caps []ParameterCapabilityInterface
		used := 0
		nc := 1 + vgenSmallLen(r, 8)
		if vgenChance(r, 5) {
			nc = 40
		}
		for j := 0; j < nc; j++ {
			c := vgenCapability(r, limit-used)
			b, err := c.Serialize()
			if err != nil || used+len(b) > limit {
				continue
			}
			used += len(b)
			caps = append(caps, c)
			meta.Caps = append(meta.Caps, c.Code())
		}
		if quirk == "open-param-253" && used <= 251 && limit == 253 {
			// fill the parameter to the largest value length that fits behind a one-octet
			// Optional Parameters Length (255 = 2 + 253)
			if pad := 253 - used - 2; pad >= 0 {
				caps = append(caps, NewCapUnknown(BGPCapabilityCode(200), vgenBytes(r, pad)))
				meta.Caps = append(meta.Caps, 200)
				meta.Tags = append(meta.Tags, "quirk:open-param-253")
				used = 253
			}
		}
		if len(caps) == 0 {
			continue
		}
		params = append(params, NewOptionParameterCapability(caps))
		total += 2 + used
	}
	m, _ := NewBGPOpenMessage(vgenU16(r), vgenPick[uint16](r, 0, 3, 90, 180, 65535), vgenAddr4(r), params)
	return m
}

func vgenNotification(r *rand.Rand, o *vgenOptSet, meta *vgenMeta) *BGPMessage {
	meta.Kind = "notification"
	n := vgenPick(r, 0, 0, 1, 2, 6, 21, 128, 255, 256)
	if vgenChance(r, 6) {
		n = vgenPick(r, 4070, 4074, 4075, 4076, 4080)
		meta.Big = true
		if o.Ext && vgenBool(r) {
			n = vgenPick(r, 9000, 65500, 65513, 65514, 65515)
		}
	}
	var data []byte
	if n > 0 || vgenBool(r) {
		data = vgenBytes(r, n)
	}
	return NewBGPNotificationMessage(vgenPick[uint8](r, 1, 2, 3, 4, 5, 6, 7, 0, 255), vgenU8(r), data)
}

func vgenRefresh(r *rand.Rand, meta *vgenMeta) *BGPMessage {
	meta.Kind = "refresh"
	f := vgenCapFamily(r)
	return NewBGPRouteRefreshMessage(f.Afi(), vgenPick[uint8](r, 0, 0, 1, 2, 255), f.Safi())
}

// vgenUpdate draws an UPDATE. core restricts MP attributes to the core families.
func vgenUpdate(r *rand.Rand, o *vgenOptSet, quirk string, core bool, meta *vgenMeta) *BGPMessage {
	meta.Kind = "update"
	if vgenChance(r, 25) {
		f := vgenFamily(r)
		meta.Families = append(meta.Families, f)
		meta.Tags = append(meta.Tags, "eor")
		if f != RF_IPv4_UC {
			meta.AttrTypes = append(meta.AttrTypes, BGP_ATTR_TYPE_MP_UNREACH_NLRI)
		}
		return NewEndOfRib(f)
	}
	fam := func() Family {
		if core {
			return vgenCoreFamilies[r.IntN(len(vgenCoreFamilies))]
		}
		return vgenFamily(r)
	}
	bigBudget := 0
	if vgenChance(r, 5) {
		bigBudget = 1 + r.IntN(2)
		meta.Big = true
	}
	takeBig := func() bool {
		if bigBudget > 0 && vgenBool(r) {
			bigBudget--
			return true
		}
		return false
	}
	// which attribute types
	types := map[BGPAttrType]bool{}
	switch r.IntN(4) {
	case 0: // typical
		types[BGP_ATTR_TYPE_ORIGIN], types[BGP_ATTR_TYPE_AS_PATH], types[BGP_ATTR_TYPE_NEXT_HOP] = true, true, true
		for i := vgenSmallLen(r, 4); i > 0; i-- {
			types[vgenSimpleAttrTypes[r.IntN(len(vgenSimpleAttrTypes))]] = true
		}
	case 1: // few
		for i := vgenSmallLen(r, 3); i > 0; i-- {
			types[vgenSimpleAttrTypes[r.IntN(len(vgenSimpleAttrTypes))]] = true
		}
	default:
		for _, t := range vgenSimpleAttrTypes {
			if vgenChance(r, 3) {
				types[t] = true
			}
		}
	}
	hasSID := types[BGP_ATTR_TYPE_PREFIX_SID]
	ap4 := o.addPath(RF_IPv4_UC)
	nctx := &vgenNLRICtx{tags: &meta.Tags, quirk: quirk}
	var withdrawn, nlri []PathNLRI
	if vgenChance(r, 3) {
		n := 1 + vgenSmallLen(r, 5)
		if takeBig() {
			n = vgenPick(r, 50, 63, 64, 65, 200, 700)
		}
		withdrawn = vgenNLRIs(r, RF_IPv4_UC, n, ap4, nctx)
	}
	if vgenChance(r, 2) {
		n := 1 + vgenSmallLen(r, 5)
		if takeBig() {
			n = vgenPick(r, 50, 63, 64, 65, 200, 700)
		}
		nlri = vgenNLRIs(r, RF_IPv4_UC, n, ap4, nctx)
	}
	if len(withdrawn)+len(nlri) > 0 {
		meta.Families = append(meta.Families, RF_IPv4_UC)
	}
	var attrs []PathAttributeInterface
	order := make([]BGPAttrType, 0, len(types))
	for t := range types {
		order = append(order, t)
	}
	sort.Slice(order, func(i, j int) bool { return order[i] < order[j] })
	for _, t := range order {
		c := &vgenAttrCtx{o: o, big: takeBig(), quirk: quirk, tags: &meta.Tags, single: hasSID}
		a := vgenAttr(r, t, c)
		if vgenIsNilIface(a) {
			continue
		}
		attrs = append(attrs, a)
	}
	// MP attributes
	if vgenChance(r, 2) {
		f := fam()
		c := &vgenAttrCtx{o: o, big: takeBig(), quirk: quirk, tags: &meta.Tags, single: hasSID}
		if a := vgenMpReach(r, f, c); !vgenIsNilIface(a) {
			attrs = append(attrs, a)
			meta.Families = append(meta.Families, f)
		}
	}
	if vgenChance(r, 3) {
		f := fam()
		c := &vgenAttrCtx{o: o, big: takeBig(), quirk: quirk, tags: &meta.Tags, single: hasSID}
		if a := vgenMpUnreach(r, f, c); !vgenIsNilIface(a) {
			attrs = append(attrs, a)
			meta.Families = append(meta.Families, f)
		}
	}
	if vgenChance(r, 4) {
		r.Shuffle(len(attrs), func(i, j int) { attrs[i], attrs[j] = attrs[j], attrs[i] })
	} else {
		sort.SliceStable(attrs, func(i, j int) bool { return attrs[i].GetType() < attrs[j].GetType() })
	}
	for _, a := range attrs {
		meta.AttrTypes = append(meta.AttrTypes, a.GetType())
	}
	return NewBGPUpdateMessage(withdrawn, attrs, nlri)
}

// vgenMessage draws one message of any type. core restricts UPDATEs to the core families.
// vgenQuirks are value classes that are legal on the wire but rarely used; at most one of them is
// enabled per message so that a failure can be attributed to it.
var vgenQuirks = []string{"label-sentinel-first-in-stack", "label-sentinel-inside-stack", "evpn-ipmsi", "flowspec-long", "mcast-flags-none-or-both", "encap-empty-tlv", "ls-sr-ranges", "open-param-253"}

func vgenMessage(r *rand.Rand, o *vgenOptSet, quirk string, core bool) (*BGPMessage, *vgenMeta) {
	meta := &vgenMeta{}
	switch r.IntN(20) {
	case 0, 1, 2:
		return vgenOpen(r, o, quirk, meta), meta
	case 3:
		return vgenNotification(r, o, meta), meta
	case 4:
		return vgenRefresh(r, meta), meta
	case 5:
		if vgenChance(r, 3) {
			meta.Kind = "keepalive"
			return NewBGPKeepAliveMessage(), meta
		}
		return vgenRefresh(r, meta), meta
	default:
		return vgenUpdate(r, o, quirk, core, meta), meta
	}
}
