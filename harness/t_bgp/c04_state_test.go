package bgp

// C04 (6) — messages, attributes and NLRI are stateful objects (cached length fields in the
// BGPMessage header, BGPUpdate, path attributes, TLVs, capabilities). What Serialize emits must
// be a function of the value and the options only:
//   a. the SAME object serialised under a sequence of different option sets (ADD-PATH per family,
//      extended message) emits what a freshly constructed equal value emits under each of them,
//      and so does the object obtained by parsing (DecodeFromBytes ran on it);
//   b. parse -> edit (prepend an AS, add / remove / replace an attribute, add / remove NLRI,
//      change a next hop) -> serialise equals fresh-construct -> same edit -> serialise;
//   c. Len() before Serialize, and Serialize twice, do not change the octets.
// The 2-/4-octet AS flag is kept: AS_PATH / AGGREGATOR values are typed by it, serialising a
// 4-octet AS_PATH object for a 2-octet session is a conversion, not a re-serialisation.

import (
	"bytes"
	"fmt"
	"math/rand/v2"
	"strings"

	"github.com/osrg/gobgp/v4/internal/verif/wire"
)

func c04AltOptions(r *rand.Rand, o *vgenOptSet) *vgenOptSet {
	ap := map[Family]bool{}
	switch r.IntN(4) {
	case 0: // none
	case 1: // the complement
		for _, f := range vgenFamilies {
			ap[f] = !o.AddPath[f]
		}
	case 2:
		for _, f := range vgenFamilies {
			ap[f] = true
		}
	default:
		for _, f := range vgenFamilies {
			ap[f] = vgenBool(r)
		}
	}
	return vgenMakeOptSet(ap, o.AS2, vgenBool(r), false, vgenChance(r, 4))
}

// c04Region names, coarsely, the framing element holding the first difference of two messages.
func c04Region(want, got []byte, wo wire.Options) string {
	p := c04FirstDiff(want, got)
	switch {
	case p < 16:
		return "marker"
	case p < 18:
		return "header-length"
	case p == 18:
		return "type"
	}
	typ, body, err := wire.ParseHeader(want)
	if err != nil || typ != wire.MsgUpdate {
		return "body"
	}
	u, err := wire.ParseUpdate(body, wo)
	if err != nil {
		return "body"
	}
	q := p - wire.HeaderLen
	switch {
	case q < 2:
		return "withdrawn-length"
	case q < 2+u.WithdrawnLen:
		return "withdrawn"
	case q < u.AttrOff:
		return "attribute-length"
	case q >= u.AttrOff+u.AttrLen:
		return "nlri"
	}
	return "attributes"
}

func c04SerializeQuiet(m *BGPMessage, opts []*MarshallingOption) (b []byte, err error) {
	defer func() {
		if e := recover(); e != nil {
			err = fmt.Errorf("panic: %v", e)
		}
	}()
	return m.Serialize(opts...)
}

func c04ErrClass(err error) string {
	if err == nil {
		return "ok"
	}
	s := err.Error()
	if strings.HasPrefix(s, "too long message length") {
		return "too long"
	}
	return c04Norm(s)
}

// c04SameOutput compares what an object emits with what a fresh equal value emits.
func c04SameOutput(c *c04Case, scenario string, alt *vgenOptSet, want []byte, werr error, got []byte, gerr error) bool {
	if c04ErrClass(werr) != c04ErrClass(gerr) {
		c.viol("c04:stateful:"+scenario+":"+c.kind+":error-differs", fmt.Sprintf("%s under %s: a fresh equal value gives %q, this object gives %q", scenario, alt.Key, c04ErrClass(werr), c04ErrClass(gerr)), nil)
		return false
	}
	if werr != nil {
		return true
	}
	for pass := 0; pass < 2 && !bytes.Equal(want, got); pass++ {
		region := c04Region(want, got, vgenWireOpt(alt))
		c.viol("c04:stateful:"+scenario+":"+c.kind+":"+region,
			fmt.Sprintf("%s under %s: the octets differ from what a freshly constructed equal value serialises to (first difference at octet %d, %d vs %d octets)", scenario, alt.Key, c04FirstDiff(want, got), len(want), len(got)),
			map[string]any{"fresh": c04Hex(want), "object": c04Hex(got), "serialized_under": alt.Key})
		if region != "header-length" || len(got) < wire.HeaderLen {
			return false
		}
		// a stale header length must not hide a second difference in the body
		got = append([]byte{}, got...)
		copy(got[16:18], want[16:18])
		if bytes.Equal(want, got) {
			return false
		}
	}
	return bytes.Equal(want, got)
}

// c04Edit applies one edit to an UPDATE the way a user of the library would (new attributes are
// built with the constructors). All random draws come from mr, so two equal messages get the
// same edit.
func c04Edit(mr *rand.Rand, u *BGPUpdate, o *vgenOptSet) string {
	hasSID := false
	for _, a := range u.PathAttributes {
		if a.GetType() == BGP_ATTR_TYPE_PREFIX_SID {
			hasSID = true
		}
	}
	find := func(t BGPAttrType) int {
		for i, a := range u.PathAttributes {
			if a.GetType() == t {
				return i
			}
		}
		return -1
	}
	ctx := &vgenAttrCtx{o: o, single: hasSID}
	switch mr.IntN(8) {
	case 0: // prepend an AS
		var seg AsPathParamInterface
		if o.AS2 {
			seg = NewAsPathParam(BGP_ASPATH_ATTR_TYPE_SEQ, []uint16{vgenU16(mr)})
		} else {
			seg = NewAs4PathParam(BGP_ASPATH_ATTR_TYPE_SEQ, []uint32{vgenU32(mr)})
		}
		if i := find(BGP_ATTR_TYPE_AS_PATH); i >= 0 {
			old := u.PathAttributes[i].(*PathAttributeAsPath)
			u.PathAttributes[i] = NewPathAttributeAsPath(append([]AsPathParamInterface{seg}, old.Value...))
		} else {
			u.PathAttributes = append(u.PathAttributes, NewPathAttributeAsPath([]AsPathParamInterface{seg}))
		}
		return "prepend-as"
	case 1: // remove an attribute
		if n := len(u.PathAttributes); n > 0 {
			i := mr.IntN(n)
			u.PathAttributes = append(append([]PathAttributeInterface{}, u.PathAttributes[:i]...), u.PathAttributes[i+1:]...)
			return "remove-attribute"
		}
	case 2, 3: // replace an attribute by another value of its type
		if n := len(u.PathAttributes); n > 0 {
			i := mr.IntN(n)
			t := u.PathAttributes[i].GetType()
			if t != BGP_ATTR_TYPE_MP_REACH_NLRI && t != BGP_ATTR_TYPE_MP_UNREACH_NLRI && vgenKnownAttrTypes[t] {
				if a := vgenAttr(mr, t, ctx); !vgenIsNilIface(a) {
					u.PathAttributes[i] = a
					return "replace-attribute"
				}
			}
		}
	case 4: // add/remove classic NLRI
		if len(u.NLRI) > 0 && vgenBool(mr) {
			u.NLRI = u.NLRI[:len(u.NLRI)-1]
			return "remove-nlri"
		}
		u.NLRI = append(u.NLRI, vgenNLRIs(mr, RF_IPv4_UC, 1+mr.IntN(3), o.addPath(RF_IPv4_UC), &vgenNLRICtx{})...)
		return "add-nlri"
	case 5: // add/remove withdrawn routes
		if len(u.WithdrawnRoutes) > 0 && vgenBool(mr) {
			u.WithdrawnRoutes = u.WithdrawnRoutes[1:]
			return "remove-withdrawn"
		}
		u.WithdrawnRoutes = append(u.WithdrawnRoutes, vgenNLRIs(mr, RF_IPv4_UC, 1+mr.IntN(3), o.addPath(RF_IPv4_UC), &vgenNLRICtx{withdraw: true})...)
		return "add-withdrawn"
	case 6: // NLRI of an MP attribute
		for _, a := range u.PathAttributes {
			switch x := a.(type) {
			case *PathAttributeMpReachNLRI:
				f := NewFamily(x.AFI, x.SAFI)
				if f == RF_OPAQUE {
					continue
				}
				if len(x.Value) > 1 && vgenBool(mr) {
					x.Value = x.Value[:len(x.Value)-1]
					return "remove-mp-nlri"
				}
				x.Value = append(x.Value, vgenNLRIs(mr, f, 1, o.addPath(f), &vgenNLRICtx{single: hasSID})...)
				return "add-mp-nlri"
			case *PathAttributeMpUnreachNLRI:
				f := NewFamily(x.AFI, x.SAFI)
				if f == RF_OPAQUE {
					continue
				}
				x.Value = append(x.Value, vgenNLRIs(mr, f, 1, o.addPath(f), &vgenNLRICtx{withdraw: true, single: hasSID})...)
				return "add-mp-nlri"
			}
		}
	case 7: // next hop
		if i := find(BGP_ATTR_TYPE_NEXT_HOP); i >= 0 {
			a, _ := NewPathAttributeNextHop(vgenAddr4(mr))
			u.PathAttributes[i] = a
			return "change-nexthop"
		}
		for _, a := range u.PathAttributes {
			if x, ok := a.(*PathAttributeMpReachNLRI); ok && x.Nexthop.IsValid() {
				// (an IPv4 next hop under an IPv6 AFI comes back IPv4-mapped: same next hop)
				x.Nexthop = vgenAddr(mr, x.Nexthop.Unmap().Is6())
				return "change-mp-nexthop"
			}
		}
	}
	// fall back: add an attribute of a type that is not there yet
	for _, t := range []BGPAttrType{BGP_ATTR_TYPE_MULTI_EXIT_DISC, BGP_ATTR_TYPE_LOCAL_PREF, BGP_ATTR_TYPE_COMMUNITIES, BGP_ATTR_TYPE_LARGE_COMMUNITY, BGP_ATTR_TYPE_ORIGINATOR_ID, BGP_ATTR_TYPE_ATOMIC_AGGREGATE} {
		if find(t) < 0 {
			u.PathAttributes = append(u.PathAttributes, vgenAttr(mr, t, ctx))
			return "add-attribute"
		}
	}
	u.PathAttributes = append(u.PathAttributes, vgenAttr(mr, 0, ctx))
	return "add-attribute"
}

func c04Stateful(c *c04Case, r *rand.Rand, msg, parsed *BGPMessage, gen func() *BGPMessage, b []byte) {
	rec := c.rec
	o := c.o
	wit := func() any { return c.wit(nil) }
	ok := true
	// c. call order
	if rec.Guard("c04:stateful:len-before-serialize", wit, func() {
		f := gen()
		if u, isU := f.Body.(*BGPUpdate); isU {
			for _, a := range u.PathAttributes {
				_ = a.Len(o.Ser...)
			}
			for _, n := range u.NLRI {
				_ = n.NLRI.Len(o.Ser...)
			}
		}
		got, err := c04SerializeQuiet(f, o.Ser)
		ok = c04SameOutput(c, "len-before-serialize", o, b, nil, got, err) && ok
		got, err = c04SerializeQuiet(f, o.Ser)
		ok = c04SameOutput(c, "serialize-twice", o, b, nil, got, err) && ok
	}) {
		return
	}
	rec.Count("stateful_call_order_checks", 1)
	// a. the same objects under a sequence of other option sets, then the first one again
	seq := []*vgenOptSet{c04AltOptions(r, o), c04AltOptions(r, o), o}
	for i, alt := range seq {
		if !ok {
			break
		}
		if rec.Guard("c04:stateful:other-options", wit, func() {
			want, werr := c04SerializeQuiet(gen(), alt.Ser)
			got, gerr := c04SerializeQuiet(msg, alt.Ser)
			ok = c04SameOutput(c, "same-object-other-options", alt, want, werr, got, gerr) && ok
			got, gerr = c04SerializeQuiet(parsed, alt.Ser)
			ok = c04SameOutput(c, "parsed-object-other-options", alt, want, werr, got, gerr) && ok
			if werr == nil && ok && i < 2 {
				// what is emitted under the other option set parses under it and is a fixpoint
				m, perr, panicked := c04SilentParse(want, alt.Par)
				if panicked || perr != nil || m == nil {
					c.viol("c04:stateful:other-options:"+c.kind+":reparse-error", fmt.Sprintf("the value serialised under %s is rejected by the parser under the same options: %v", alt.Key, perr), map[string]any{"fresh": c04Hex(want), "serialized_under": alt.Key})
					ok = false
				} else if again, err := c04SerializeQuiet(m, alt.Ser); err != nil || !bytes.Equal(again, want) {
					c.viol("c04:stateful:other-options:"+c.kind+":fixpoint", fmt.Sprintf("Serialize(Parse(x)) != x under %s (%v)", alt.Key, err), map[string]any{"fresh": c04Hex(want), "serialized_under": alt.Key})
					ok = false
				}
			}
		}) {
			return
		}
		rec.Count("stateful_option_sequence_checks", 1)
	}
	// b. parse -> edit -> serialise versus fresh -> edit -> serialise
	pu, isU := parsed.Body.(*BGPUpdate)
	if !isU || !ok {
		return
	}
	t1, t2 := r.Uint64(), r.Uint64()
	var edit string
	if rec.Guard("c04:stateful:parse-edit-serialize", wit, func() {
		fresh := gen()
		editF := c04Edit(rand.New(rand.NewPCG(t1, t2)), fresh.Body.(*BGPUpdate), o)
		edit = c04Edit(rand.New(rand.NewPCG(t1, t2)), pu, o)
		if edit != editF {
			panic(fmt.Sprintf("harness: edits diverge (%s vs %s)", edit, editF))
		}
		want, werr := c04SerializeQuiet(fresh, o.Ser)
		got, gerr := c04SerializeQuiet(parsed, o.Ser)
		if !c04SameOutput(c, "parse-edit-serialize", o, want, werr, got, gerr) {
			return
		}
		rec.Count("stateful_edit_"+edit, 1)
		if werr != nil {
			return
		}
		if m, perr, panicked := c04SilentParse(got, o.Par); panicked || perr != nil || m == nil {
			// (an edit can build a value of a class with a known finding; those are generated
			// with quirk "" here, so a rejection is a new fact)
			c.viol("c04:stateful:parse-edit-serialize:"+edit+":reparse-error", fmt.Sprintf("the edited message is rejected by the parser: %v", perr), map[string]any{"object": c04Hex(got)})
		}
	}) {
		return
	}
	rec.Count("stateful_edit_checks", 1)
}
