package bgp

// gen_mut: structure-aware mutators of valid wire messages, and pure random inputs.

import (
	"encoding/binary"
	"math/rand/v2"

	"github.com/osrg/gobgp/v4/internal/verif/wire"
)

func vgenWireOpt(o *vgenOptSet) wire.Options {
	w := wire.Options{AddPath: map[wire.Family]bool{}, ExtendedMessage: o.Ext}
	for f, on := range o.AddPath {
		if on {
			w.AddPath[wire.Family{AFI: f.Afi(), SAFI: f.Safi()}] = true
		}
	}
	return w
}

func vgenSetHeaderLen(b []byte) {
	if len(b) >= wire.HeaderLen && len(b) <= 65535 {
		binary.BigEndian.PutUint16(b[16:], uint16(len(b)))
	}
}

func vgenHeader(typ uint8, body []byte) []byte {
	b := make([]byte, wire.HeaderLen, wire.HeaderLen+len(body))
	for i := 0; i < 16; i++ {
		b[i] = 0xff
	}
	b[18] = typ
	b = append(b, body...)
	vgenSetHeaderLen(b)
	return b
}

func vgenLenValue(r *rand.Rand, cur int, max int) int {
	if vgenChance(r, 5) {
		// small constants: lengths that decoders special-case (4, 8, 12, 16, 17, 24, 32, ...)
		return r.IntN(34)
	}
	switch r.IntN(8) {
	case 0:
		return 0
	case 1:
		return max
	case 2:
		return cur + 1
	case 3:
		return cur - 1
	case 4:
		return cur + 2
	case 5:
		return cur * 2
	case 6:
		return r.IntN(max + 1)
	default:
		return cur - r.IntN(cur+1)
	}
}

// vgenRebuildUpdate re-assembles an UPDATE from (possibly edited) parts with consistent outer
// lengths, so that a mutation inside one element still reaches the inner decoders.
func vgenRebuildUpdate(withdrawn []byte, attrs [][]byte, nlri []byte) []byte {
	body := make([]byte, 2, 64)
	binary.BigEndian.PutUint16(body, uint16(len(withdrawn)))
	body = append(body, withdrawn...)
	al := 0
	for _, a := range attrs {
		al += len(a)
	}
	var l [2]byte
	binary.BigEndian.PutUint16(l[:], uint16(al))
	body = append(body, l[:]...)
	for _, a := range attrs {
		body = append(body, a...)
	}
	body = append(body, nlri...)
	return vgenHeader(wire.MsgUpdate, body)
}

func vgenAttrBytes(flags, typ uint8, value []byte, forceExt bool) []byte {
	if len(value) > 255 || forceExt {
		b := []byte{flags | wire.FlagExtLen, typ, 0, 0}
		binary.BigEndian.PutUint16(b[2:], uint16(len(value)))
		return append(b, value...)
	}
	return append([]byte{flags &^ wire.FlagExtLen, typ, byte(len(value))}, value...)
}

// vgenMutateValue edits octets inside one value: bit flips, boundary octets, an embedded length
// going +-1/0/max, truncation, extension, duplication of a slice of itself.
func vgenMutateValue(r *rand.Rand, v []byte) []byte {
	v = append([]byte{}, v...)
	for k := 1 + r.IntN(3); k > 0; k-- {
		if len(v) == 0 {
			return append(v, vgenBytes(r, 1+r.IntN(4))...)
		}
		p := r.IntN(len(v))
		// positions near the front hold the nested headers: prefer them
		if vgenBool(r) {
			p = r.IntN(min(len(v), 12))
		}
		switch r.IntN(10) {
		case 0:
			v[p] ^= 1 << r.IntN(8)
		case 1:
			v[p] = vgenPick[byte](r, 0, 1, 0x7f, 0x80, 0xfe, 0xff, 2, 3, 4, 5, 6, 8, 12, 16, 17, 24, 32, 33, 64, 96, 128, 129, 192)
		case 2:
			v[p]++
		case 3:
			v[p]--
		case 4: // two-octet length field
			if p+1 < len(v) {
				cur := int(binary.BigEndian.Uint16(v[p:]))
				binary.BigEndian.PutUint16(v[p:], uint16(vgenLenValue(r, cur, 65535)))
			}
		case 5: // truncate
			v = v[:p]
		case 6: // extend
			v = append(v, vgenBytes(r, 1+r.IntN(8))...)
		case 7: // duplicate a slice of itself (TLV duplication)
			q := p + r.IntN(len(v)-p+1)
			d := append([]byte{}, v[p:q]...)
			v = append(v[:q:q], append(d, v[q:]...)...)
		case 8: // drop a slice
			q := p + r.IntN(min(len(v)-p, 8)+1)
			v = append(v[:p:p], v[q:]...)
		default: // swap two adjacent runs
			if p+4 <= len(v) {
				v[p], v[p+1], v[p+2], v[p+3] = v[p+2], v[p+3], v[p], v[p+1]
			}
		}
	}
	return v
}

// vgenMutate returns a structure-aware mutation of the valid message msg (donor, if any, is a
// second valid message to splice from). The result is not necessarily invalid.
func vgenMutate(r *rand.Rand, msg []byte, donor []byte, wo wire.Options) []byte {
	typ, body, err := wire.ParseHeader(msg)
	if err != nil {
		return vgenMutateValue(r, msg)
	}
	if typ == wire.MsgUpdate {
		if u, err := wire.ParseUpdate(body, wo); err == nil {
			return vgenMutateUpdate(r, body, u, donor, wo)
		}
	}
	if typ == wire.MsgOpen && vgenBool(r) {
		if o, err := wire.ParseOpen(body); err == nil && len(o.Params) > 0 {
			return vgenMutateOpen(r, body, o)
		}
	}
	// generic: header fields or body octets
	out := append([]byte{}, msg...)
	switch r.IntN(6) {
	case 0:
		binary.BigEndian.PutUint16(out[16:], uint16(vgenLenValue(r, len(out), 65535)))
	case 1:
		out[18] = vgenPick[byte](r, 0, 1, 2, 3, 4, 5, 6, 255)
	case 2:
		out[r.IntN(16)] ^= 1 << r.IntN(8)
	case 3:
		out = out[:wire.HeaderLen+r.IntN(len(body)+1)]
		if vgenBool(r) {
			vgenSetHeaderLen(out)
		}
	default:
		out = vgenHeader(typ, vgenMutateValue(r, body))
	}
	return out
}

func vgenMutateOpen(r *rand.Rand, body []byte, o *wire.Open) []byte {
	out := append([]byte{}, body...)
	p := o.Params[r.IntN(len(o.Params))]
	switch r.IntN(6) {
	case 0: // optional parameters length
		out[9] = byte(vgenLenValue(r, int(out[9]), 255))
	case 1: // parameter length
		out[p.Off+1] = byte(vgenLenValue(r, int(out[p.Off+1]), 255))
	case 2, 3: // capability length / code
		if len(p.Caps) > 0 {
			c := p.Caps[r.IntN(len(p.Caps))]
			if vgenBool(r) {
				out[c.Off+1] = byte(vgenLenValue(r, int(out[c.Off+1]), 255))
			} else {
				out[c.Off] = vgenPick[byte](r, 1, 2, 5, 64, 65, 69, 71, 73, 75, out[c.Off]+1)
			}
		}
	case 4: // edit inside a capability value, outer lengths kept
		if len(p.Caps) > 0 {
			c := p.Caps[r.IntN(len(p.Caps))]
			if len(c.Value) > 0 {
				q := c.Off + 2 + r.IntN(len(c.Value))
				out[q] = vgenPick[byte](r, 0, 1, 0x40, 0x41, 0x7f, 0x80, 0xff, out[q]+1, out[q]-1)
			}
		}
	default:
		out = vgenMutateValue(r, out)
	}
	return vgenHeader(wire.MsgOpen, out)
}

func vgenMutateUpdate(r *rand.Rand, body []byte, u *wire.Update, donor []byte, wo wire.Options) []byte {
	withdrawn := append([]byte{}, body[2:2+u.WithdrawnLen]...)
	nlri := append([]byte{}, body[u.AttrOff+u.AttrLen:]...)
	attrs := make([][]byte, len(u.Attrs))
	for i, a := range u.Attrs {
		attrs[i] = append([]byte{}, body[a.Off:a.Off+a.HdrLen+len(a.Value)]...)
	}
	pickAttr := func() int {
		if len(u.Attrs) == 0 {
			return -1
		}
		return r.IntN(len(u.Attrs))
	}
	switch r.IntN(16) {
	case 0: // outer length fields, nothing else adjusted
		out := append([]byte{}, body...)
		switch r.IntN(2) {
		case 0:
			binary.BigEndian.PutUint16(out, uint16(vgenLenValue(r, u.WithdrawnLen, 65535)))
		default:
			binary.BigEndian.PutUint16(out[u.AttrOff-2:], uint16(vgenLenValue(r, u.AttrLen, 65535)))
		}
		return vgenHeader(wire.MsgUpdate, out)
	case 1: // one attribute's length field, outer lengths kept as they were
		if i := pickAttr(); i >= 0 {
			out := append([]byte{}, body...)
			a := u.Attrs[i]
			if a.HdrLen == 4 {
				binary.BigEndian.PutUint16(out[a.Off+2:], uint16(vgenLenValue(r, len(a.Value), 65535)))
			} else {
				out[a.Off+2] = byte(vgenLenValue(r, len(a.Value), 255))
			}
			return vgenHeader(wire.MsgUpdate, out)
		}
	case 2: // attribute flags (incl. the extended-length bit without changing the length octets)
		if i := pickAttr(); i >= 0 {
			attrs[i][0] ^= vgenPick[byte](r, 0x10, 0x20, 0x40, 0x80, 0x01, 0xf0)
		}
	case 3: // attribute type code: the value is decoded as another type
		if i := pickAttr(); i >= 0 {
			attrs[i][1] = vgenPick[byte](r, 1, 2, 3, 4, 5, 6, 7, 8, 9, 10, 14, 15, 16, 17, 18, 22, 23, 25, 26, 29, 32, 40, 99)
		}
	case 4, 5, 6, 7: // edit inside an attribute value, all outer lengths consistent
		if i := pickAttr(); i >= 0 {
			a := u.Attrs[i]
			attrs[i] = vgenAttrBytes(a.Flags, a.Type, vgenMutateValue(r, a.Value), a.HdrLen == 4 && vgenBool(r))
		}
	case 8: // truncate an attribute value, lengths consistent
		if i := pickAttr(); i >= 0 {
			a := u.Attrs[i]
			attrs[i] = vgenAttrBytes(a.Flags, a.Type, a.Value[:r.IntN(len(a.Value)+1)], a.HdrLen == 4)
		}
	case 9: // duplicate an attribute
		if i := pickAttr(); i >= 0 {
			attrs = append(attrs, attrs[i])
		}
	case 10: // reorder
		r.Shuffle(len(attrs), func(i, j int) { attrs[i], attrs[j] = attrs[j], attrs[i] })
	case 11: // splice an attribute of the donor in
		if _, dbody, err := wire.ParseHeader(donor); err == nil {
			if du, err := wire.ParseUpdate(dbody, wo); err == nil && len(du.Attrs) > 0 {
				a := du.Attrs[r.IntN(len(du.Attrs))]
				raw := append([]byte{}, dbody[a.Off:a.Off+a.HdrLen+len(a.Value)]...)
				if i := pickAttr(); i >= 0 && vgenBool(r) {
					attrs[i] = raw
				} else {
					attrs = append(attrs, raw)
				}
			}
		}
	case 12: // MP attribute: next-hop length / family / NLRI octets
		for i, a := range u.Attrs {
			if a.Type != wire.AttrMPReach && a.Type != wire.AttrMPUnrch || len(a.Value) < 4 {
				continue
			}
			v := append([]byte{}, a.Value...)
			switch r.IntN(4) {
			case 0:
				if a.Type == wire.AttrMPReach {
					v[3] = byte(vgenLenValue(r, int(v[3]), 255))
				}
			case 1:
				f := vgenFamilies[r.IntN(len(vgenFamilies))]
				binary.BigEndian.PutUint16(v, f.Afi())
				v[2] = f.Safi()
			default:
				// the NLRI part: everything after the fixed part
				off := 3
				if a.Type == wire.AttrMPReach {
					off = min(len(v), 4+int(v[3])+1)
				}
				v = append(v[:off:off], vgenMutateValue(r, v[off:])...)
			}
			attrs[i] = vgenAttrBytes(a.Flags, a.Type, v, a.HdrLen == 4)
			break
		}
	case 13: // classic NLRI / withdrawn octets
		if vgenBool(r) {
			nlri = vgenMutateValue(r, nlri)
		} else {
			withdrawn = vgenMutateValue(r, withdrawn)
		}
	case 14: // truncate the whole message, header length fixed up or not
		out := vgenRebuildUpdate(withdrawn, attrs, nlri)
		out = out[:wire.HeaderLen+r.IntN(len(out)-wire.HeaderLen+1)]
		if vgenBool(r) {
			vgenSetHeaderLen(out)
		}
		return out
	default: // bit flip anywhere in the body
		out := append([]byte{}, body...)
		if len(out) > 0 {
			out[r.IntN(len(out))] ^= 1 << r.IntN(8)
		}
		return vgenHeader(wire.MsgUpdate, out)
	}
	return vgenRebuildUpdate(withdrawn, attrs, nlri)
}

// vgenRandomInput returns pure random octets, or random octets behind a plausible header.
func vgenRandomInput(r *rand.Rand) []byte {
	n := vgenPick(r, 0, 1, 18, 19, 20, 23, 29, 64, 200, 1000, 4096)
	if vgenBool(r) {
		n = r.IntN(300)
	}
	b := vgenBytes(r, n)
	if vgenChance(r, 3) {
		return b
	}
	typ := vgenPick[uint8](r, 1, 2, 2, 2, 3, 4, 5, 0, 6)
	out := vgenHeader(typ, b)
	if vgenChance(r, 8) {
		binary.BigEndian.PutUint16(out[16:], uint16(vgenLenValue(r, len(out), 65535)))
	}
	return out
}
