package bgp

// C05 — no byte string can crash, hang or over-read the BGP message parser.
//
// Entry points: ParseBGPMessage, BGPHeader.DecodeFromBytes + ParseBGPBody, GetPathAttribute +
// DecodeFromBytes, NLRIFromSlice, DecodeCapability, under every MarshallingOption combination
// (incl. MRT). Inputs: pure random octets and structure-aware mutations of valid messages.
//
// Monitors per call: panic; caller's buffer (and the spare capacity behind it) modified;
// over-read differential (same input in two buffers whose octets beyond the declared end differ
// must give the same value and error); every usable returned value — including an UPDATE handed
// back with an attribute-discard / treat-as-withdraw error — must survive String, JSON, Len,
// Serialize, Flat; allocation bound on a sample; a heavy Mark per case for the hang watchdog.

import (
	"bytes"
	"encoding/hex"
	"encoding/json"
	"fmt"
	"math/rand/v2"
	"os"
	"reflect"
	"runtime"
	"slices"
	"strconv"
	"strings"
	"sync"
	"testing"

	"github.com/osrg/gobgp/v4/internal/verif/vlib"
	"github.com/osrg/gobgp/v4/internal/verif/wire"
)

type c05Env struct {
	rec    *vlib.Rec
	idx    int
	o      *vgenOptSet
	calls  int
	class  string // input class of the current case
	shared bool   // race unit: a second goroutine decodes the same buffer concurrently
}

func c05Hex(b []byte) string {
	if len(b) > 1200 {
		return hex.EncodeToString(b[:1200]) + fmt.Sprintf("...(%d octets)", len(b))
	}
	return hex.EncodeToString(b)
}

const c05Pad = 48

// c05TotalCalls counts entry-point calls of this process (cases run sequentially).
var c05TotalCalls int

// c05Buf places input (+tail) at the front of a larger allocation whose remaining capacity is
// filled with the poison octet.
func c05Buf(input, tail []byte, poison byte) (buf []byte, full []byte) {
	n := len(input) + len(tail)
	full = make([]byte, n+c05Pad)
	copy(full, input)
	copy(full[len(input):], tail)
	for i := n; i < len(full); i++ {
		full[i] = poison
	}
	return full[:n], full
}

type c05Result struct {
	val any
	err error
}

func c05ErrClass(err error) string {
	if err == nil {
		return "ok"
	}
	if me, ok := err.(*MessageError); ok {
		return fmt.Sprintf("E%d/%d/h%d:%s", me.TypeCode, me.SubTypeCode, me.ErrorHandling, vgenNorm(me.Message))
	}
	return "err:" + vgenNorm(err.Error())
}

func c05SameErr(a, b error) bool {
	if (a == nil) != (b == nil) {
		return false
	}
	if a == nil {
		return true
	}
	ma, oka := a.(*MessageError)
	mb, okb := b.(*MessageError)
	if oka != okb {
		return false
	}
	if !oka {
		return a.Error() == b.Error()
	}
	return ma.TypeCode == mb.TypeCode && ma.SubTypeCode == mb.SubTypeCode && ma.ErrorHandling == mb.ErrorHandling && ma.Message == mb.Message && bytes.Equal(ma.Data, mb.Data)
}

func c05IsNil(v any) bool { return vgenIsNilIface(v) }

// c05Usable: would the daemon go on using this value?
func c05Usable(val any, err error) bool {
	if c05IsNil(val) {
		return false
	}
	if err == nil {
		return true
	}
	m, ok := val.(*BGPMessage)
	if !ok || m.Header.Type != BGP_MSG_UPDATE {
		return false
	}
	if me, ok := err.(*MessageError); ok {
		return me.ErrorHandling == ERROR_HANDLING_ATTRIBUTE_DISCARD || me.ErrorHandling == ERROR_HANDLING_TREAT_AS_WITHDRAW
	}
	return false
}

// c05Probes lists the uses of a returned value as separately guarded probes, so that every
// panicking method is found, not just the first one.
func c05Probes(val any, opts []*MarshallingOption) []func() {
	var ps []func()
	add := func(f func()) { ps = append(ps, f) }
	nlri := func(n NLRI) {
		if c05IsNil(n) {
			return
		}
		add(func() { _ = n.String() })
		add(func() { _, _ = n.MarshalJSON() })
		add(func() { _ = n.Len(opts...) })
		add(func() { _, _ = n.Serialize(opts...) })
		add(func() { _ = n.Flat() })
	}
	attr := func(a PathAttributeInterface) {
		if c05IsNil(a) {
			return
		}
		add(func() { _ = a.String() })
		add(func() { _, _ = a.MarshalJSON() })
		add(func() { _ = a.Len(opts...) })
		add(func() { _, _ = a.Serialize(opts...) })
		add(func() { _ = a.Flat(); _ = a.GetFlags(); _ = a.GetType() })
		switch x := a.(type) {
		case *PathAttributeMpReachNLRI:
			for i, n := range x.Value {
				if i < 4 {
					nlri(n.NLRI)
				}
			}
		case *PathAttributeMpUnreachNLRI:
			for i, n := range x.Value {
				if i < 4 {
					nlri(n.NLRI)
				}
			}
		}
	}
	switch v := val.(type) {
	case *BGPMessage:
		if u, ok := v.Body.(*BGPUpdate); ok {
			for _, a := range u.PathAttributes {
				attr(a)
			}
			for i, n := range u.NLRI {
				if i < 4 {
					nlri(n.NLRI)
				}
			}
			for i, n := range u.WithdrawnRoutes {
				if i < 4 {
					nlri(n.NLRI)
				}
			}
			add(func() { _, _ = u.IsEndOfRib() })
		}
		if o, ok := v.Body.(*BGPOpen); ok {
			for _, p := range o.OptParams {
				if pc, ok := p.(*OptionParameterCapability); ok {
					for _, c := range pc.Capability {
						ps = append(ps, c05Probes(c, opts)...)
					}
				}
			}
		}
		add(func() { _, _ = json.Marshal(v) })
		add(func() { _ = fmt.Sprintf("%v", v.Body) })
		add(func() { _, _ = v.Body.Serialize(opts...) })
		add(func() { _, _ = v.Serialize(opts...) })
	case PathAttributeInterface:
		attr(v)
		add(func() { _, _ = json.Marshal(v) })
	case NLRI:
		nlri(v)
		add(func() { _, _ = json.Marshal(v) })
	case ParameterCapabilityInterface:
		if !c05IsNil(v) {
			add(func() { _, _ = json.Marshal(v) })
			add(func() { _ = v.Len(); _ = v.Code() })
			add(func() { _, _ = v.Serialize() })
			add(func() { _ = fmt.Sprintf("%v", v) })
		}
	case *BGPHeader:
		add(func() { _, _ = v.Serialize() })
	}
	return ps
}

func c05TypeSet(val any) string {
	switch v := val.(type) {
	case *BGPMessage:
		s := fmt.Sprintf("msg%d", v.Header.Type)
		if u, ok := v.Body.(*BGPUpdate); ok {
			seen := map[BGPAttrType]bool{}
			for _, a := range u.PathAttributes {
				if !c05IsNil(a) && !seen[a.GetType()] {
					seen[a.GetType()] = true
					s += "," + strconv.Itoa(int(a.GetType()))
				}
			}
		}
		return s
	}
	return vgenTypeName(val)
}

// c05Nested: did the decoder get past the first length check and decode something nested?
func c05Nested(val any) bool {
	switch v := val.(type) {
	case *BGPMessage:
		switch b := v.Body.(type) {
		case *BGPUpdate:
			return len(b.PathAttributes)+len(b.NLRI)+len(b.WithdrawnRoutes) > 0
		case *BGPOpen:
			return len(b.OptParams) > 0
		case *BGPNotification, *BGPRouteRefresh:
			return true
		}
		return false
	}
	return !c05IsNil(val)
}

var c05HeaderErrs = []string{"not all BGP message header", "marker is not all ones", "unknown message type", "Not all BGP message bytes available", "attribute type length is short", "Not all ParameterCapability bytes available"}

// call runs one entry point on one input with all monitors.
func (e *c05Env) call(entry string, input, tailA, tailB []byte, opts []*MarshallingOption, f func(buf []byte) (any, error)) {
	e.calls++
	e.rec.Eval()
	e.rec.Count("entry_"+entry, 1)
	e.rec.Count("class_"+e.class, 1)
	wit := func() any {
		return map[string]any{"case": e.idx, "entry": entry, "options": e.o.Key, "class": e.class, "input": c05Hex(input), "tail": c05Hex(tailA)}
	}
	bufA, fullA := c05Buf(input, tailA, 0x00)
	bufB, fullB := c05Buf(input, tailB, 0xff)
	savedA := append([]byte{}, fullA...)
	savedB := append([]byte{}, fullB...)
	var ra, rb c05Result
	var wg sync.WaitGroup
	if e.shared {
		// a second reader of the very same buffer: any write to it is a data race report
		wg.Add(1)
		go func() {
			defer wg.Done()
			defer func() { recover() }()
			_, _ = f(bufA)
		}()
	}
	pa := e.rec.Guard("c05:"+entry, wit, func() { ra.val, ra.err = f(bufA) })
	wg.Wait()
	if pa {
		return
	}
	if e.rec.Guard("c05:"+entry, wit, func() { rb.val, rb.err = f(bufB) }) {
		return
	}
	if !bytes.Equal(fullA, savedA) || !bytes.Equal(fullB, savedB) {
		e.rec.Violation("c05:buffer-mutated:decode:"+entry, "the decoder modified the caller's buffer (or the capacity behind it)", wit())
		return
	}
	// over-read differential
	if !c05SameErr(ra.err, rb.err) {
		e.rec.Violation("c05:overread:"+entry+":error", fmt.Sprintf("octets beyond the declared end change the error: %v vs %v", ra.err, rb.err), wit())
	} else if d := vgenDiff(ra.val, rb.val); d != nil {
		e.rec.Violation("c05:overread:"+entry+":"+d.TypePath(), fmt.Sprintf("octets beyond the declared end change the result at %s: %s", d.Path, d.What), wit())
	}
	// render
	usable := c05Usable(ra.val, ra.err)
	if usable {
		e.rec.Count("rendered_"+entry, 1)
		if ra.err != nil {
			e.rec.Count("rendered_with_nonfatal_error", 1)
		}
		kind := "message"
		switch {
		case strings.HasPrefix(entry, "attr"):
			kind = "attr"
		case strings.HasPrefix(entry, "nlri"):
			kind = "nlri"
		case strings.HasPrefix(entry, "cap"):
			kind = "cap"
		}
		phase := "c05:render:" + kind
		if ra.err != nil {
			phase = "c05:render-after-nonfatal-error:" + kind
		}
		rw := func() any {
			w := wit().(map[string]any)
			w["error"] = fmt.Sprint(ra.err)
			return w
		}
		for _, p := range c05Probes(ra.val, opts) {
			e.rec.Guard(phase, rw, p)
		}
		if !bytes.Equal(fullA, savedA) {
			e.rec.Violation("c05:buffer-mutated:render:"+entry, "rendering / re-serialising the returned value modified the caller's buffer", wit())
		}
	}
	// allocation bound on a sample
	c05TotalCalls++
	if c05TotalCalls%61 == 0 {
		var m0, m1 runtime.MemStats
		runtime.ReadMemStats(&m0)
		func() {
			defer func() { recover() }()
			_, _ = f(bufA)
		}()
		runtime.ReadMemStats(&m1)
		e.rec.Count("alloc_samples", 1)
		if d := m1.TotalAlloc - m0.TotalAlloc; d > uint64(64*len(bufA)+1<<20) {
			e.rec.Violation("c05:alloc:"+entry, fmt.Sprintf("one call on %d octets allocated %d octets", len(bufA), d), wit())
		}
	}
	// distinctness
	cls := c05ErrClass(ra.err)
	nontrivial := false
	if ra.err == nil {
		nontrivial = c05Nested(ra.val)
		cls = "ok:" + c05TypeSet(ra.val)
	} else {
		nontrivial = true
		for _, h := range c05HeaderErrs {
			if strings.Contains(ra.err.Error(), h) {
				nontrivial = false
			}
		}
		if usable {
			cls += "+msg"
		}
	}
	if nontrivial {
		e.rec.Nontrivial(entry + "|" + cls)
		e.rec.Count("nontrivial_calls", 1)
	}
}

var c05AttrTypes = []byte{1, 2, 3, 4, 5, 6, 7, 8, 9, 10, 14, 15, 16, 17, 18, 22, 23, 25, 26, 29, 32, 40, 99}
var c05CapCodes = []byte{1, 2, 4, 5, 6, 64, 65, 69, 70, 71, 73, 75, 128, 200}

func (e *c05Env) attrEntry(r *rand.Rand, data []byte) {
	opts := e.o.Par
	// the whole-UPDATE decoder also hands the set of attribute types present to the decoders
	if vgenBool(r) {
		opts = slices.Clip(append(append([]*MarshallingOption{}, opts...), &MarshallingOption{attributes: map[BGPAttrType]bool{BGP_ATTR_TYPE_PREFIX_SID: vgenBool(r)}}))
	}
	name := "attr"
	if len(data) >= 2 {
		name = fmt.Sprintf("attr%d", data[1])
		if !vgenKnownAttrTypes[BGPAttrType(data[1])] {
			name = "attrUnknown"
		}
	}
	e.call(name, data, nil, nil, opts, func(buf []byte) (any, error) {
		a, err := GetPathAttribute(buf)
		if err != nil {
			return nil, err
		}
		err = a.DecodeFromBytes(buf, opts...)
		return a, err
	})
}

func (e *c05Env) nlriEntry(r *rand.Rand, f Family, data []byte) {
	opts := e.o.Par
	if vgenBool(r) {
		opts = slices.Clip(append(append([]*MarshallingOption{}, opts...), &MarshallingOption{attributes: map[BGPAttrType]bool{BGP_ATTR_TYPE_PREFIX_SID: true}}))
	}
	name := "nlri:" + f.String()
	if _, ok := AddressFamilyNameMap[f]; !ok {
		name = "nlri:unknown-family"
	}
	e.call(name, data, nil, nil, opts, func(buf []byte) (any, error) {
		n, err := NLRIFromSlice(f, buf, opts...)
		return n, err
	})
}

func (e *c05Env) capEntry(data []byte) {
	name := "cap"
	if len(data) >= 1 {
		name = fmt.Sprintf("cap%d", data[0])
		if !vgenKnownCaps[BGPCapabilityCode(data[0])] {
			name = "capUnknown"
		}
	}
	e.call(name, data, nil, nil, nil, func(buf []byte) (any, error) {
		c, err := DecodeCapability(buf)
		return c, err
	})
}

func (e *c05Env) messageEntries(r *rand.Rand, x []byte) {
	opts := e.o.Par
	e.call("ParseBGPMessage", x, nil, nil, opts, func(buf []byte) (any, error) {
		m, err := ParseBGPMessage(buf, opts...)
		return m, err
	})
	// the declared message followed by other octets inside the buffer (the next message of the
	// stream): they must not influence the result either
	if dl := c05DeclaredLen(x); dl >= BGP_HEADER_LENGTH && dl <= len(x) && vgenBool(r) {
		n := 1 + r.IntN(40)
		ta, tb := bytes.Repeat([]byte{0x00}, n), vgenBytes(r, n)
		e.call("ParseBGPMessage+next", x[:dl], ta, tb, opts, func(buf []byte) (any, error) {
			m, err := ParseBGPMessage(buf, opts...)
			return m, err
		})
	}
	e.call("BGPHeader.DecodeFromBytes", x, nil, nil, opts, func(buf []byte) (any, error) {
		h := &BGPHeader{}
		err := h.DecodeFromBytes(buf, opts...)
		return h, err
	})
	// the receive path: header first, then exactly Len-19 octets of body
	h := &BGPHeader{}
	if func() (ok bool) {
		defer func() { recover() }()
		return h.DecodeFromBytes(x) == nil
	}() && int(h.Len) <= len(x) {
		body := x[BGP_HEADER_LENGTH:h.Len]
		e.call("ParseBGPBody", body, nil, nil, opts, func(buf []byte) (any, error) {
			hh := *h
			m, err := ParseBGPBody(&hh, buf, opts...)
			return m, err
		})
	} else if len(x) > BGP_HEADER_LENGTH && vgenChance(r, 4) {
		// a header the caller built itself (any type, any length not beyond the body)
		body := x[BGP_HEADER_LENGTH:]
		hh := BGPHeader{Type: vgenPick[uint8](r, 1, 2, 2, 2, 3, 4, 5), Len: uint16(BGP_HEADER_LENGTH + r.IntN(len(body)+1))}
		e.call("ParseBGPBody", body, nil, nil, opts, func(buf []byte) (any, error) {
			h2 := hh
			m, err := ParseBGPBody(&h2, buf, opts...)
			return m, err
		})
	}
}

// c05DeclaredLen is the length field of the header (0 if there is no header).
func c05DeclaredLen(x []byte) int {
	if len(x) < BGP_HEADER_LENGTH {
		return 0
	}
	return int(x[16])<<8 | int(x[17])
}

func c05Sample(r *rand.Rand, n, k int) []int {
	if n <= k {
		out := make([]int, n)
		for i := range out {
			out[i] = i
		}
		return out
	}
	out := make([]int, 0, k)
	for i := 0; i < k; i++ {
		out = append(out, r.IntN(n))
	}
	return out
}

func (e *c05Env) elementEntries(r *rand.Rand, x []byte, wo wire.Options) {
	typ, body, err := wire.ParseHeader(x)
	structured := false
	if err == nil && typ == wire.MsgUpdate {
		if u, err := wire.ParseUpdate(body, wo); err == nil || (u != nil && len(u.Attrs) > 0) {
			structured = true
			for _, i := range c05Sample(r, len(u.Attrs), 5) {
				a := u.Attrs[i]
				end := a.Off + a.HdrLen + len(a.Value)
				if vgenChance(r, 3) {
					end = u.AttrOff + u.AttrLen // the attribute followed by its neighbours, as BGPUpdate hands it over
					if end > len(body) || end < a.Off {
						end = len(body)
					}
				}
				e.attrEntry(r, body[a.Off:end])
			}
			for _, m := range u.MPReach {
				f := NewFamily(m.Family.AFI, m.Family.SAFI)
				if vgenChance(r, 4) {
					f = vgenFamilies[r.IntN(len(vgenFamilies))]
				}
				e.nlriEntry(r, f, m.Raw)
				if e.o.addPath(f) && len(m.Raw) > 4 {
					e.nlriEntry(r, f, m.Raw[4:])
				}
			}
			for _, m := range u.MPUnreach {
				f := NewFamily(m.Family.AFI, m.Family.SAFI)
				e.nlriEntry(r, f, m.Raw)
			}
			if len(u.NLRI) > 0 {
				e.nlriEntry(r, RF_IPv4_UC, body[u.AttrOff+u.AttrLen:])
			}
		}
	}
	if err == nil && typ == wire.MsgOpen {
		if o, _ := wire.ParseOpen(body); o != nil {
			for _, p := range o.Params {
				for _, i := range c05Sample(r, len(p.Caps), 4) {
					c := p.Caps[i]
					structured = true
					end := c.Off + 2 + len(c.Value)
					if vgenChance(r, 3) {
						end = p.Off + 2 + len(p.Value)
					}
					e.capEntry(body[c.Off:end])
				}
			}
		}
	}
	if !structured || vgenChance(r, 6) {
		// unstructured: slices of the input decoded as an attribute / NLRI / capability of a drawn type
		src := x
		if len(src) > BGP_HEADER_LENGTH && vgenBool(r) {
			src = src[BGP_HEADER_LENGTH:]
		}
		if len(src) > 0 {
			src = src[r.IntN(min(len(src), 8)):]
		}
		d := append([]byte{}, src...)
		if len(d) >= 2 && vgenBool(r) {
			d[1] = c05AttrTypes[r.IntN(len(c05AttrTypes))]
			d[0] = byte(PathAttrFlags[BGPAttrType(d[1])]) | d[0]&0x10
		}
		e.attrEntry(r, d)
		f := vgenFamilies[r.IntN(len(vgenFamilies))]
		if vgenChance(r, 10) {
			f = NewFamily(vgenU16(r), vgenU8(r))
		}
		e.nlriEntry(r, f, src)
		c := append([]byte{}, src...)
		if len(c) >= 1 && vgenBool(r) {
			c[0] = c05CapCodes[r.IntN(len(c05CapCodes))]
		}
		e.capEntry(c)
	}
}

// elementCase builds one valid attribute / NLRI / capability, mutates its octets and feeds it
// to the element decoder and, wrapped in an otherwise minimal message, to the message decoders.
func (e *c05Env) elementCase(r *rand.Rand) {
	o := e.o
	mutate := func(b []byte) []byte {
		for k := r.IntN(3); k > 0; k-- {
			b = vgenMutateValue(r, b)
		}
		return b
	}
	guard := func(f func()) (ok bool) {
		defer func() {
			if recover() != nil {
				ok = false
			}
		}()
		f()
		return true
	}
	switch r.IntN(3) {
	case 0:
		e.class = "element-attr"
		var sb []byte
		if !guard(func() {
			var tags []string
			c := &vgenAttrCtx{o: o, big: vgenChance(r, 10), tags: &tags}
			var a PathAttributeInterface
			switch r.IntN(8) {
			case 0:
				a = vgenMpReach(r, vgenFamily(r), c)
			case 1:
				a = vgenMpUnreach(r, vgenFamily(r), c)
			default:
				a = vgenAttr(r, vgenSimpleAttrTypes[r.IntN(len(vgenSimpleAttrTypes))], c)
			}
			if !vgenIsNilIface(a) {
				sb, _ = a.Serialize(o.Ser...)
			}
		}) || len(sb) < 3 {
			return
		}
		as, err := wire.ParseAttrs(sb, 0)
		if err != nil || len(as) != 1 {
			return
		}
		var ab []byte
		if vgenChance(r, 5) {
			ab = mutate(sb)
		} else {
			ab = vgenAttrBytes(as[0].Flags, as[0].Type, mutate(as[0].Value), as[0].HdrLen == 4 && vgenBool(r))
		}
		e.attrEntry(r, ab)
		attrs := [][]byte{ab}
		if vgenBool(r) {
			attrs = [][]byte{{0x40, 1, 1, 0}, {0x40, 2, 0}, ab}
		}
		e.messageEntries(r, vgenRebuildUpdate(nil, attrs, nil))
	case 1:
		e.class = "element-nlri"
		f := vgenFamily(r)
		var sb []byte
		if !guard(func() {
			n := vgenNLRI(r, f, &vgenNLRICtx{withdraw: vgenChance(r, 4)})
			if !vgenIsNilIface(n) {
				sb, _ = n.Serialize(o.Ser...)
			}
		}) || len(sb) == 0 {
			return
		}
		mb := mutate(sb)
		if vgenChance(r, 4) {
			mb = append(mb, sb...) // followed by a second, valid element
		}
		if o.addPath(f) {
			mb = append([]byte{0, 0, 0, byte(r.IntN(3))}, mb...)
			e.nlriEntry(r, f, mb[4:])
		} else {
			e.nlriEntry(r, f, mb)
		}
		var v []byte
		var typ uint8 = wire.AttrMPReach
		if vgenChance(r, 3) {
			typ = wire.AttrMPUnrch
			v = []byte{byte(f.Afi() >> 8), byte(f.Afi()), f.Safi()}
		} else {
			nh := []byte{10, 0, 0, 1}
			switch {
			case f.Safi() == SAFI_FLOW_SPEC_UNICAST || f.Safi() == SAFI_FLOW_SPEC_VPN:
				nh = nil
			case f.Safi() == SAFI_MPLS_VPN:
				nh = append(make([]byte, 8), nh...)
			}
			v = append([]byte{byte(f.Afi() >> 8), byte(f.Afi()), f.Safi(), byte(len(nh))}, nh...)
			v = append(v, 0)
		}
		v = append(v, mb...)
		e.messageEntries(r, vgenRebuildUpdate(nil, [][]byte{vgenAttrBytes(0x80, typ, v, vgenChance(r, 4))}, nil))
	default:
		e.class = "element-cap"
		var sb []byte
		if !guard(func() { sb, _ = vgenCapability(r, 253).Serialize() }) || len(sb) < 2 {
			return
		}
		var cb []byte
		if vgenChance(r, 4) {
			cb = mutate(sb)
		} else {
			val := mutate(sb[2:])
			if len(val) > 251 {
				val = val[:251]
			}
			cb = append([]byte{sb[0], byte(len(val))}, val...)
		}
		e.capEntry(cb)
		if len(cb) <= 253 {
			body := []byte{4, 0xfd, 0xe8, 0, 90, 10, 0, 0, 1, byte(len(cb) + 2), 2, byte(len(cb))}
			e.messageEntries(r, vgenHeader(wire.MsgOpen, append(body, cb...)))
		}
	}
}

func c05Case(rec *vlib.Rec, idx int, shared bool) {
	r := vlib.CaseRand("c05", idx)
	o := vgenOptions(r, true)
	e := &c05Env{rec: rec, idx: idx, o: o, shared: shared}
	wo := vgenWireOpt(o)
	if vgenChance(r, 3) {
		e.elementCase(r)
		return
	}
	var x []byte
	if vgenChance(r, 6) {
		e.class = "random"
		x = vgenRandomInput(r)
	} else {
		mk := func() (b []byte) {
			defer func() {
				if recover() != nil {
					b = nil
				}
			}()
			quirk := ""
			if vgenChance(r, 6) {
				quirk = vgenQuirks[r.IntN(len(vgenQuirks))]
			}
			m, _ := vgenMessage(r, o, quirk, false)
			if m == nil {
				return nil
			}
			b, err := m.Serialize(o.Ser...)
			if err != nil {
				return nil
			}
			return b
		}
		base := mk()
		if base == nil {
			e.class = "random"
			x = vgenRandomInput(r)
		} else {
			var donor []byte
			if vgenChance(r, 4) {
				donor = mk()
			}
			switch r.IntN(10) {
			case 0:
				e.class = "valid"
				x = base
			case 1, 2:
				e.class = "mutated2"
				x = vgenMutate(r, vgenMutate(r, base, donor, wo), donor, wo)
			default:
				e.class = "mutated1"
				x = vgenMutate(r, base, donor, wo)
			}
		}
	}
	e.messageEntries(r, x)
	e.elementEntries(r, x, wo)
	if idx%4999 == 0 {
		rec.Sample(map[string]any{"case": idx, "class": e.class, "options": o.Key, "octets": len(x), "calls": e.calls, "input_head": c05Hex(x[:min(len(x), 64)])})
	}
}

func TestVerifC05(t *testing.T) {
	rec := vlib.Open("C05")
	defer rec.Close()
	total := vlib.Scale(240000, 3600000)
	shared := false
	if s := os.Getenv("VERIF_C05_RACE"); s != "" {
		// the race-detector build runs a slice of the same case list (it also turns on checkptr)
		total /= 10
		shared = true
	}
	vlib.Cases(total, func(idx int) {
		rec.Mark(fmt.Sprintf("c05 case %d (replay with VERIF_CASE=%d)", idx, idx), true)
		c05Case(rec, idx, shared)
	})
}

var _ = reflect.TypeOf
