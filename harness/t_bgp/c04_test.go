package bgp

// C04 — BGP wire codec: encode and decode are mutually inverse and agree on framing.
//
// Oracles (all observe the real Serialize / Parse / Len code):
//   1. Parse(Serialize(m,o),o) equals m structurally (vgenDiff) and Serialize(Parse(bytes)) == bytes;
//   2. for every attribute / NLRI / capability: Len(o) == len(Serialize(o)) and a decoder handed
//      the element followed by foreign octets reports exactly that length;
//   3. an independent framing reader (harness/wire, written from RFC 4271/4760/7911) accepts
//      every emitted message and sees the prefixes, path ids and next hops that were put in;
//   4. the per-type message length cap is applied exactly;
//   5. (second half) for byte strings the parser accepts (mutations of valid core-family
//      messages): S(P(x)) parses to a value equal to P(x) and is a fixpoint of S∘P.

import (
	"bytes"
	"encoding/binary"
	"encoding/hex"
	"fmt"
	"math/rand/v2"
	"net/netip"
	"os"
	"regexp"
	"strconv"
	"strings"
	"testing"

	"github.com/osrg/gobgp/v4/internal/verif/vlib"
	"github.com/osrg/gobgp/v4/internal/verif/wire"
)

func c04Norm(s string) string { return vgenNorm(s) }

func c04Hex(b []byte) string {
	if len(b) > 600 {
		return hex.EncodeToString(b[:600]) + fmt.Sprintf("...(%d octets)", len(b))
	}
	return hex.EncodeToString(b)
}

func c04Cap(typ uint8, ext bool) int {
	if ext && (typ == BGP_MSG_UPDATE || typ == BGP_MSG_NOTIFICATION || typ == BGP_MSG_ROUTE_REFRESH) {
		return 65535
	}
	return 4096
}

func c04LenBucket(n int) string {
	switch {
	case n <= 19:
		return "19"
	case n < 64:
		return "<64"
	case n < 256:
		return "<256"
	case n < 1024:
		return "<1k"
	case n < 4000:
		return "<4000"
	case n <= 4096:
		return "~4096"
	case n < 65000:
		return "<65000"
	default:
		return "~65535"
	}
}

func c04TypeName(v any) string { return vgenTypeName(v) }

// c04ElemName names an NLRI including its route type for the multiplexed families.
func c04ElemName(n NLRI) string {
	switch x := n.(type) {
	case *EVPNNLRI:
		return "EVPNNLRI/" + c04TypeName(x.RouteTypeData)
	case *MUPNLRI:
		return "MUPNLRI/" + c04TypeName(x.RouteTypeData)
	case *LsAddrPrefix:
		return "LsAddrPrefix/" + c04TypeName(x.NLRI)
	}
	return c04TypeName(n)
}

var c04Dump = os.Getenv("VERIF_DUMP") != ""

func TestVerifC04(t *testing.T) {
	rec := vlib.Open("C04")
	defer rec.Close()
	total := vlib.Scale(200000, 3000000)
	vlib.Cases(total, func(idx int) {
		r := vlib.CaseRand("c04", idx)
		rec.Mark(fmt.Sprintf("c04 case %d", idx), idx%64 == 0)
		if idx%4 == 3 {
			c04AcceptedCase(rec, r, idx)
		} else {
			c04GeneratedCase(rec, r, idx)
		}
	})
}

type c04Case struct {
	nviol int
	quirk string // the rarely used value class actually present in the message, if any
	rec   *vlib.Rec
	idx   int
	o     *vgenOptSet
	kind  string
	b     []byte
}

func (c *c04Case) wit(extra map[string]any) map[string]any {
	w := map[string]any{"case": c.idx, "options": c.o.Key, "kind": c.kind}
	if c.b != nil {
		w["bytes"] = c04Hex(c.b)
	}
	for k, v := range extra {
		w[k] = v
	}
	return w
}

// c04QuirkMarks: a violation key that names one of these elements is attributed to the quirk.
var c04QuirkMarks = map[string][]string{
	"label-sentinel-first-in-stack": {"Labeled"},
	"label-sentinel-inside-stack":   {"Labeled"},
	"evpn-ipmsi":                    {"IPMSI", "EVPNNLRI"},
	"flowspec-long":                 {"FlowSpec", "flowspec"},
	"mcast-flags-none-or-both":      {"MulticastFlags", "PathAttributeExtendedCommunities"},
	"encap-empty-tlv":               {"PathAttributeTunnelEncap", "attr23"},
	"ls-sr-ranges":                  {"LsTLVSr"},
	"open-param-253":                {":open", "type1"},
}

func (c *c04Case) viol(key, what string, extra map[string]any) {
	if c.quirk != "" && !strings.HasPrefix(key, "c04:len:PathAttribute") {
		for _, m := range c04QuirkMarks[c.quirk] {
			if strings.Contains(key, m) {
				// one key per (oracle, value class): the detail stays in the description
				parts := strings.SplitN(key, ":", 3)
				what += " [" + key + "; the element holds the rarely used value class " + c.quirk + "]"
				key = parts[0] + ":" + parts[1] + ":with-" + c.quirk
				break
			}
		}
	}
	c.nviol++
	c.rec.Violation(key, what, c.wit(extra))
}

func c04GeneratedCase(rec *vlib.Rec, r *rand.Rand, idx int) {
	o := vgenOptions(r, false)
	var msg *BGPMessage
	var meta *vgenMeta
	c := &c04Case{rec: rec, idx: idx, o: o}
	quirk := ""
	if vgenChance(r, 3) {
		quirk = vgenQuirks[r.IntN(len(vgenQuirks))]
	}
	// the message has its own PRNG so that an equal value can be constructed afresh at any time
	s1, s2 := r.Uint64(), r.Uint64()
	gen := func() *BGPMessage {
		m, _ := vgenMessage(rand.New(rand.NewPCG(s1, s2)), o, quirk, false)
		return m
	}
	if rec.Guard("c04:generate", func() any { return c.wit(nil) }, func() { msg, meta = vgenMessage(rand.New(rand.NewPCG(s1, s2)), o, quirk, false) }) || msg == nil {
		return
	}
	c.kind = meta.Kind
	for _, tg := range meta.Tags {
		if tg == "quirk:"+quirk {
			c.quirk = quirk
		}
	}
	rec.Eval()
	var b []byte
	var err error
	if rec.Guard("c04:serialize:"+meta.Kind, func() any { return c.wit(map[string]any{"types": meta.TypeSet(), "tags": meta.Tags}) }, func() { b, err = msg.Serialize(o.Ser...) }) {
		return
	}
	limit := c04Cap(msg.Header.Type, o.Ext)
	if err != nil {
		if strings.HasPrefix(err.Error(), "too long message length") {
			// the cap must only fire when the message really is too long
			var body []byte
			var berr error
			if rec.Guard("c04:serialize-body:"+meta.Kind, func() any { return c.wit(nil) }, func() { body, berr = msg.Body.Serialize(o.Ser...) }) {
				return
			}
			if berr == nil && BGP_HEADER_LENGTH+len(body) <= limit {
				c.viol("c04:cap:false-reject:"+meta.Kind, fmt.Sprintf("Serialize refused a %d-octet %s although the limit under %s is %d", BGP_HEADER_LENGTH+len(body), meta.Kind, o.Key, limit), nil)
			}
			rec.Count("capped_too_long", 1)
			return
		}
		rec.Count("serialize_errors", 1)
		c.viol("c04:serialize-error:"+c04Culprit(msg, o)+":"+c04Norm(err.Error()), fmt.Sprintf("a constructed %s cannot be serialised: %v", meta.Kind, err),
			map[string]any{"types": meta.TypeSet(), "tags": meta.Tags, "message": c04Render(msg)})
		return
	}
	c.b = b
	if c04Dump {
		fmt.Printf("C04DUMP case=%d options=%s\nmessage=%s\nbytes=%s\n", idx, o.Key, c04Render(msg), hex.EncodeToString(b))
		if m, err := ParseBGPMessage(b, o.Par...); err == nil {
			fmt.Printf("parsed=%s\n", c04Render(m))
		} else {
			fmt.Printf("parse error=%v\n", err)
		}
	}
	if len(b) > limit {
		c.viol("c04:cap:oversize-emitted:"+meta.Kind, fmt.Sprintf("Serialize emitted %d octets, the limit under %s is %d", len(b), o.Key, limit), nil)
	}
	// coverage
	rec.Count("kind_"+meta.Kind, 1)
	for _, t := range meta.AttrTypes {
		rec.Count(fmt.Sprintf("attr_type_%d", t), 1)
	}
	for _, f := range meta.Families {
		rec.Count("family_"+f.String(), 1)
	}
	for _, cc := range meta.Caps {
		rec.Count(fmt.Sprintf("cap_code_%d", cc), 1)
	}
	for _, tg := range meta.Tags {
		rec.Count("elem_"+tg, 1)
	}
	if len(o.AddPath) > 0 {
		rec.Count("opt_addpath", 1)
	}
	if o.AS2 {
		rec.Count("opt_as2", 1)
	}
	if o.Ext {
		rec.Count("opt_extmsg", 1)
	}
	if len(b) > 4096 {
		rec.Count("msgs_over_4096", 1)
	}

	// (3) independent framing
	c04WireCheck(c, msg, b)

	// (1) round trip
	var m2 *BGPMessage
	if rec.Guard("c04:parse:"+meta.Kind, func() any { return c.wit(nil) }, func() { m2, err = ParseBGPMessage(b, o.Par...) }) {
		return
	}
	parsed := err == nil && m2 != nil
	if !parsed {
		rec.Count("reparse_errors", 1)
		c.viol("c04:parse-error:"+c04ParseCulprit(msg, o)+":"+c04Norm(fmt.Sprint(err)), fmt.Sprintf("the octets gobgp emitted for a constructed %s are rejected by its own parser: %v", meta.Kind, err),
			map[string]any{"types": meta.TypeSet(), "tags": meta.Tags, "message": c04Render(msg)})
	} else {
		d := vgenDiff(msg, m2)
		if d != nil {
			c.viol("c04:roundtrip:"+d.TypePath()+c04ListElem(msg, d), fmt.Sprintf("Parse(Serialize(m)) differs from m at %s: %s", d.Path, d.What), map[string]any{"types": meta.TypeSet(), "tags": meta.Tags})
		}
		var b2 []byte
		var err2 error
		if !rec.Guard("c04:reserialize:"+meta.Kind, func() any { return c.wit(nil) }, func() { b2, err2 = m2.Serialize(o.Ser...) }) {
			if err2 != nil {
				c.viol("c04:fixpoint:reserialize-error:"+c04Norm(err2.Error()), fmt.Sprintf("the parsed message cannot be serialised again: %v", err2), nil)
			} else if !bytes.Equal(b, b2) && d != nil {
				rec.Count("fixpoint_mismatches_explained_by_a_roundtrip_difference", 1)
			} else if !bytes.Equal(b, b2) {
				c.viol("c04:fixpoint:"+meta.Kind+":"+c04DiffRegion(b, b2, vgenWireOpt(o)), fmt.Sprintf("Serialize(Parse(bytes)) != bytes (first difference at octet %d)", c04FirstDiff(b, b2)),
					map[string]any{"reserialized": c04Hex(b2)})
			}
		}
	}
	// (2) element level
	c04Elements(c, msg)

	// (6) values are stateful objects: cached lengths must never leak into what is emitted
	if parsed && c.nviol == 0 {
		c04Stateful(c, r, msg, m2, gen, b)
	}

	if parsed && (len(meta.AttrTypes)+len(meta.Families)+len(meta.Caps) > 0) {
		rec.Nontrivial(meta.TypeSet() + "|" + o.Key + "|" + c04LenBucket(len(b)))
		rec.Count("nontrivial_roundtrips", 1)
	}
	if idx%9973 == 0 {
		rec.Sample(map[string]any{"case": idx, "kind": meta.Kind, "types": meta.TypeSet(), "options": o.Key, "octets": len(b)})
	}
}

var c04AttrIdxRe = regexp.MustCompile(`PathAttributes\[(\d+)\]\.\(PathAttributeMp(Reach|Unreach)NLRI\)\.Value:len$`)

// c04ListElem: when the number of NLRI of an MP attribute differs, name the NLRI type.
func c04ListElem(m *BGPMessage, d *vgenDiffResult) string {
	mm := c04AttrIdxRe.FindStringSubmatch(d.Path)
	u, ok := m.Body.(*BGPUpdate)
	if mm == nil || !ok {
		return ""
	}
	i, _ := strconv.Atoi(mm[1])
	if i >= len(u.PathAttributes) {
		return ""
	}
	var list []PathNLRI
	switch x := u.PathAttributes[i].(type) {
	case *PathAttributeMpReachNLRI:
		list = x.Value
	case *PathAttributeMpUnreachNLRI:
		list = x.Value
	}
	if len(list) == 0 {
		return ""
	}
	return ":" + c04TypeName(list[0].NLRI)
}

// c04FirstSentinel returns "label-sentinel-first-in-stack" if the message holds a label stack of
// two or more entries whose first entry serialises as one of the withdraw pseudo labels (that
// class of value is known not to survive re-parsing), otherwise other.
func c04FirstSentinel(m *BGPMessage, other string) string {
	u, ok := m.Body.(*BGPUpdate)
	if !ok {
		return other
	}
	hit := func(ls MPLSLabelStack) bool {
		return len(ls.Labels) > 1 && (ls.Labels[0] == 0 || ls.Labels[0] == 0x80000)
	}
	for _, a := range u.PathAttributes {
		var list []PathNLRI
		switch x := a.(type) {
		case *PathAttributeMpReachNLRI:
			list = x.Value
		case *PathAttributeMpUnreachNLRI:
			list = x.Value
		}
		for _, n := range list {
			switch x := n.NLRI.(type) {
			case *LabeledIPAddrPrefix:
				if hit(x.Labels) {
					return "label-sentinel-first-in-stack"
				}
			case *LabeledVPNIPAddrPrefix:
				if hit(x.Labels) {
					return "label-sentinel-first-in-stack"
				}
			}
		}
	}
	return other
}

// c04FixCulprit names the first attribute that two messages serialise differently.
func c04FixCulprit(m1, m2 *BGPMessage, o *vgenOptSet) (s string) {
	s = fmt.Sprintf("type%d", m1.Header.Type)
	defer func() { recover() }()
	u1, ok1 := m1.Body.(*BGPUpdate)
	u2, ok2 := m2.Body.(*BGPUpdate)
	if !ok1 || !ok2 {
		return s
	}
	for i, a := range u1.PathAttributes {
		if i >= len(u2.PathAttributes) {
			return "attr-count"
		}
		x, _ := a.Serialize(o.Ser...)
		y, _ := u2.PathAttributes[i].Serialize(o.Ser...)
		if !bytes.Equal(x, y) {
			return c04TypeName(a)
		}
	}
	if len(u1.PathAttributes) != len(u2.PathAttributes) {
		return "attr-count"
	}
	return "nlri"
}

// c04ParseCulprit names the attribute (and family) of a generated message whose own octets its
// decoder rejects.
func c04ParseCulprit(m *BGPMessage, o *vgenOptSet) (s string) {
	s = fmt.Sprintf("type%d", m.Header.Type)
	defer func() { recover() }()
	u, ok := m.Body.(*BGPUpdate)
	if !ok {
		return s
	}
	popt := append(append([]*MarshallingOption{}, o.Par...), &MarshallingOption{attributes: getBGPUpdateAttributesFromMsg(u)})
	for _, a := range u.PathAttributes {
		sb, err := a.Serialize(o.Ser...)
		if err != nil {
			continue
		}
		d, err := GetPathAttribute(sb)
		if err == nil {
			err = d.DecodeFromBytes(sb, popt...)
		}
		if err == nil {
			continue
		}
		s = c04TypeName(a)
		var list []PathNLRI
		switch x := a.(type) {
		case *PathAttributeMpReachNLRI:
			s, list = "MP", x.Value
		case *PathAttributeMpUnreachNLRI:
			s, list = "MP", x.Value
		}
		if len(list) > 0 {
			s += "/" + c04TypeName(list[0].NLRI)
		}
		return s
	}
	return s
}

// c04Culprit names the element of a message whose own Serialize fails.
func c04Culprit(m *BGPMessage, o *vgenOptSet) (s string) {
	s = fmt.Sprintf("type%d", m.Header.Type)
	defer func() { recover() }()
	u, ok := m.Body.(*BGPUpdate)
	if !ok {
		return s
	}
	for _, a := range u.PathAttributes {
		if _, err := a.Serialize(o.Ser...); err == nil {
			continue
		}
		s = c04TypeName(a)
		switch x := a.(type) {
		case *PathAttributeLs:
			for _, t := range x.TLVs {
				if _, err := t.Serialize(); err != nil {
					return s + "/" + c04TypeName(t)
				}
			}
		case *PathAttributeMpReachNLRI:
			for _, n := range x.Value {
				if _, err := n.NLRI.Serialize(o.Ser...); err != nil {
					return "MP/" + c04ElemName(n.NLRI)
				}
			}
		case *PathAttributeMpUnreachNLRI:
			for _, n := range x.Value {
				if _, err := n.NLRI.Serialize(o.Ser...); err != nil {
					return "MP/" + c04ElemName(n.NLRI)
				}
			}
		}
		return s
	}
	return s
}

func c04Render(m *BGPMessage) (s string) {
	defer func() {
		if recover() != nil {
			s = "(unprintable)"
		}
	}()
	s = fmt.Sprintf("%+v", m.Body)
	if len(s) > 1500 {
		s = s[:1500] + "..."
	}
	return s
}

func c04FirstDiff(a, b []byte) int {
	n := min(len(a), len(b))
	for i := 0; i < n; i++ {
		if a[i] != b[i] {
			return i
		}
	}
	return n
}

// c04DiffRegion names the framing element that contains the first differing octet.
func c04DiffRegion(a, b []byte, wo wire.Options) string {
	p := c04FirstDiff(a, b)
	if p < wire.HeaderLen {
		if len(a) > wire.HeaderLen && len(b) > wire.HeaderLen && p >= 16 && p < 18 {
			// only the length differs so far: name the first differing body element
			if q := c04FirstDiff(a[wire.HeaderLen:], b[wire.HeaderLen:]); q < len(a)-wire.HeaderLen {
				p = wire.HeaderLen + q
			}
		}
		if p < wire.HeaderLen {
			return "header"
		}
	}
	typ, body, err := wire.ParseHeader(a)
	if err != nil || typ != wire.MsgUpdate {
		return "body"
	}
	u, err := wire.ParseUpdate(body, wo)
	if err != nil {
		return "body"
	}
	q := p - wire.HeaderLen
	switch {
	case q < 2+u.WithdrawnLen:
		return "withdrawn"
	case q < u.AttrOff:
		return "attr-length"
	case q >= u.AttrOff+u.AttrLen:
		return "nlri"
	}
	for _, at := range u.Attrs {
		if q >= at.Off && q < at.Off+at.HdrLen+len(at.Value) {
			return fmt.Sprintf("attr%d", at.Type)
		}
	}
	return "attrs"
}

// ---- (3) independent framing reader

func c04ExpectLabels(ls MPLSLabelStack) []byte {
	if len(ls.Labels) == 1 && ls.Labels[0] == WITHDRAW_LABEL {
		return []byte{0x80, 0, 0}
	}
	var out []byte
	for i, l := range ls.Labels {
		v := l << 4
		if i == len(ls.Labels)-1 {
			v |= 1
		}
		out = append(out, byte(v>>16), byte(v>>8), byte(v))
	}
	return out
}

func c04ExpectRD(rd RouteDistinguisherInterface) []byte {
	out := make([]byte, 8)
	switch x := rd.(type) {
	case *RouteDistinguisherTwoOctetAS:
		binary.BigEndian.PutUint16(out[0:], 0)
		binary.BigEndian.PutUint16(out[2:], x.Admin)
		binary.BigEndian.PutUint32(out[4:], x.Assigned)
	case *RouteDistinguisherIPAddressAS:
		binary.BigEndian.PutUint16(out[0:], 1)
		a := x.Admin.As4()
		copy(out[2:], a[:])
		binary.BigEndian.PutUint16(out[6:], x.Assigned)
	case *RouteDistinguisherFourOctetAS:
		binary.BigEndian.PutUint16(out[0:], 2)
		binary.BigEndian.PutUint32(out[2:], x.Admin)
		binary.BigEndian.PutUint16(out[6:], x.Assigned)
	default:
		return nil
	}
	return out
}

func c04PrefixOctets(p netip.Prefix) []byte {
	a := p.Addr().AsSlice()
	return a[:(p.Bits()+7)/8]
}

// c04Expect is what the wire element of a generated prefix-family NLRI must be.
func c04Expect(n PathNLRI, ap bool) (wire.Prefix, bool) {
	w := wire.Prefix{HasPathID: ap}
	if ap {
		w.PathID = n.ID
	}
	switch x := n.NLRI.(type) {
	case *IPAddrPrefix:
		w.BitLen = x.Prefix.Bits()
		w.Bytes = c04PrefixOctets(x.Prefix)
	case *LabeledIPAddrPrefix:
		l := c04ExpectLabels(x.Labels)
		w.BitLen = 8*len(l) + x.Prefix.Bits()
		w.Bytes = append(l, c04PrefixOctets(x.Prefix)...)
	case *LabeledVPNIPAddrPrefix:
		l := c04ExpectLabels(x.Labels)
		rd := c04ExpectRD(x.RD)
		if rd == nil {
			return w, false
		}
		w.BitLen = 8*(len(l)+8) + x.Prefix.Bits()
		w.Bytes = append(append(l, rd...), c04PrefixOctets(x.Prefix)...)
	default:
		return w, false
	}
	return w, true
}

func c04ComparePrefixes(c *c04Case, where string, want []PathNLRI, ap bool, got []wire.Prefix) {
	if len(want) != len(got) {
		c.viol("c04:wire:count:"+where, fmt.Sprintf("%s: %d elements were put in, the independent reader sees %d", where, len(want), len(got)), nil)
		return
	}
	for i := range want {
		e, ok := c04Expect(want[i], ap)
		if !ok {
			return
		}
		g := got[i]
		if e.HasPathID != g.HasPathID || e.PathID != g.PathID || e.BitLen != g.BitLen || !bytes.Equal(e.Bytes, g.Bytes) {
			c.viol("c04:wire:prefix:"+where+":"+c04TypeName(want[i].NLRI), fmt.Sprintf("%s element %d: put in %v, the independent reader sees %v", where, i, e, g), nil)
			return
		}
	}
}

func c04ExpectNextHop(a *PathAttributeMpReachNLRI) ([]byte, bool) {
	safi := a.SAFI
	if safi == SAFI_FLOW_SPEC_UNICAST || safi == SAFI_FLOW_SPEC_VPN {
		return nil, true
	}
	if safi == SAFI_MPLS_VPN_MULTICAST {
		return nil, false // RD-prefixed or not: both forms are in use, nothing is asserted
	}
	var addrs [][]byte
	if a.Nexthop.IsValid() {
		if a.AFI == AFI_IP6 || a.Nexthop.Is6() {
			x := a.Nexthop.As16()
			addrs = append(addrs, x[:])
			if a.LinkLocalNexthop.IsValid() {
				y := a.LinkLocalNexthop.As16()
				addrs = append(addrs, y[:])
			}
		} else {
			x := a.Nexthop.As4()
			addrs = append(addrs, x[:])
		}
	}
	var out []byte
	for _, x := range addrs {
		if safi == SAFI_MPLS_VPN {
			out = append(out, make([]byte, 8)...) // RD 0 (RFC 4364 4.3.2, RFC 4659 3.2.1)
		}
		out = append(out, x...)
	}
	return out, true
}

func c04WireCheck(c *c04Case, msg *BGPMessage, b []byte) {
	wo := vgenWireOpt(c.o)
	if err := wire.CheckLength(b, wo); err != nil {
		c.viol("c04:wire:header:"+c04Norm(err.Error()), "independent reader: "+err.Error(), nil)
		return
	}
	typ, body, _ := wire.ParseHeader(b)
	if typ != msg.Header.Type {
		c.viol("c04:wire:type", fmt.Sprintf("type octet %d for a message of type %d", typ, msg.Header.Type), nil)
		return
	}
	c.rec.Count("wire_checked", 1)
	switch typ {
	case wire.MsgOpen:
		if _, err := wire.ParseOpen(body); err != nil {
			c.viol("c04:wire:open:"+c04Norm(err.Error()), "independent reader rejects the OPEN framing: "+err.Error(), nil)
		}
	case wire.MsgUpdate:
		u, err := wire.ParseUpdate(body, wo)
		if err != nil {
			c.viol("c04:wire:update:"+c04Norm(err.Error()), "independent reader rejects the UPDATE framing: "+err.Error(), nil)
			return
		}
		up := msg.Body.(*BGPUpdate)
		ap4 := c.o.addPath(RF_IPv4_UC)
		c04ComparePrefixes(c, "withdrawn", up.WithdrawnRoutes, ap4, u.Withdrawn)
		c04ComparePrefixes(c, "nlri", up.NLRI, ap4, u.NLRI)
		if len(u.Attrs) != len(up.PathAttributes) {
			c.viol("c04:wire:attr-count", fmt.Sprintf("%d attributes were put in, the independent reader sees %d", len(up.PathAttributes), len(u.Attrs)), nil)
			return
		}
		ri, ui := 0, 0
		for i, a := range up.PathAttributes {
			w := u.Attrs[i]
			if w.Type != uint8(a.GetType()) {
				c.viol("c04:wire:attr-type", fmt.Sprintf("attribute %d: type %d was put in, the independent reader sees %d", i, a.GetType(), w.Type), nil)
				return
			}
			if w.Flags&0x0f != 0 {
				c.viol(fmt.Sprintf("c04:wire:attr-flags-low-bits:attr%d", w.Type), fmt.Sprintf("attribute type %d is sent with flags %#x: the four low-order bits must be zero when sent", w.Type, w.Flags), nil)
			}
			switch x := a.(type) {
			case *PathAttributeMpReachNLRI:
				m := u.MPReach[ri]
				ri++
				f := NewFamily(x.AFI, x.SAFI)
				if m.Family.AFI != x.AFI || m.Family.SAFI != x.SAFI {
					c.viol("c04:wire:mpreach-family", fmt.Sprintf("MP_REACH %v: reader sees %v", f, m.Family), nil)
					continue
				}
				if m.Reserved != 0 {
					c.viol("c04:wire:mpreach-reserved", fmt.Sprintf("MP_REACH %v: reserved octet %#x", f, m.Reserved), nil)
				}
				if nh, ok := c04ExpectNextHop(x); ok && !bytes.Equal(nh, m.NextHop) {
					c.viol(fmt.Sprintf("c04:wire:mpreach-nexthop:safi%d:len%d", x.SAFI, len(m.NextHop)), fmt.Sprintf("MP_REACH %v next hop %v/%v: expected octets %x, reader sees %x", f, x.Nexthop, x.LinkLocalNexthop, nh, m.NextHop), nil)
				}
				if m.Parsed {
					c.rec.Count("wire_mp_prefix_lists", 1)
					c04ComparePrefixes(c, "mpreach:"+f.String(), x.Value, c.o.addPath(f), m.NLRI)
				}
			case *PathAttributeMpUnreachNLRI:
				m := u.MPUnreach[ui]
				ui++
				f := NewFamily(x.AFI, x.SAFI)
				if m.Family.AFI != x.AFI || m.Family.SAFI != x.SAFI {
					c.viol("c04:wire:mpunreach-family", fmt.Sprintf("MP_UNREACH %v: reader sees %v", f, m.Family), nil)
					continue
				}
				if m.Parsed {
					c.rec.Count("wire_mp_prefix_lists", 1)
					c04ComparePrefixes(c, "mpunreach:"+f.String(), x.Value, c.o.addPath(f), m.NLRI)
				}
			}
		}
	case wire.MsgNotif:
		n := msg.Body.(*BGPNotification)
		if len(body) < 2 || body[0] != n.ErrorCode || body[1] != n.ErrorSubcode || !bytes.Equal(body[2:], n.Data) {
			c.viol("c04:wire:notification", "NOTIFICATION octets are not code, subcode, data", nil)
		}
	case wire.MsgRefresh:
		rr := msg.Body.(*BGPRouteRefresh)
		if len(body) != 4 || binary.BigEndian.Uint16(body) != rr.AFI || body[2] != rr.Demarcation || body[3] != rr.SAFI {
			c.viol("c04:wire:refresh", "ROUTE-REFRESH octets are not AFI, subtype, SAFI", nil)
		}
	}
}

// ---- (2) element level: Len == emitted == consumed

var c04Poison = bytes.Repeat([]byte{0xa5, 0x5a, 0xff, 0x00, 0x81}, 8)

func c04Sample(n int) []int {
	if n <= 10 {
		out := make([]int, n)
		for i := range out {
			out[i] = i
		}
		return out
	}
	return []int{0, 1, 2, 3, 4, 5, n / 2, n - 2, n - 1}
}

func c04NLRIElements(c *c04Case, f Family, list []PathNLRI, extra []*MarshallingOption) {
	ser := c.o.Ser
	par := append(append([]*MarshallingOption{}, c.o.Par...), extra...)
	for _, i := range c04Sample(len(list)) {
		n := list[i].NLRI
		name := c04ElemName(n)
		var l int
		var sb []byte
		var err error
		if c.rec.Guard("c04:nlri-len:"+name, func() any { return c.wit(map[string]any{"family": f.String()}) }, func() { l = n.Len(ser...); sb, err = n.Serialize(ser...) }) {
			return
		}
		if err != nil {
			return // reported at message level
		}
		c.rec.Count("nlri_len_checks", 1)
		if l != len(sb) {
			c.viol("c04:len:"+name, fmt.Sprintf("%s %v: Len()=%d, Serialize() emits %d octets", name, n, l, len(sb)), map[string]any{"family": f.String(), "element": c04Hex(sb)})
			continue
		}
		if _, opaque := n.(*OpaqueNLRI); opaque {
			continue // the key/value NLRI has no delimiter: it always extends to the end of the field
		}
		buf := append(append(make([]byte, 0, len(sb)+len(c04Poison)), sb...), c04Poison...)
		var d NLRI
		if c.rec.Guard("c04:nlri-decode:"+name, func() any { return c.wit(map[string]any{"family": f.String(), "element": c04Hex(sb)}) }, func() { d, err = NLRIFromSlice(f, buf, par...) }) {
			return
		}
		c.rec.Count("nlri_consume_checks", 1)
		if err != nil {
			c.viol("c04:consume:"+name+":error:"+c04Norm(err.Error()), fmt.Sprintf("%s followed by other octets (as inside an MP attribute with several NLRI) is rejected: %v", name, err), map[string]any{"family": f.String(), "element": c04Hex(sb)})
			continue
		}
		if dl := d.Len(par...); dl != len(sb) {
			c.viol("c04:consume:"+name, fmt.Sprintf("%s of %d octets followed by other octets: the decoder reports %d octets consumed", name, len(sb), dl), map[string]any{"family": f.String(), "element": c04Hex(sb)})
		}
	}
}

func c04Elements(c *c04Case, msg *BGPMessage) {
	ser, par := c.o.Ser, c.o.Par
	switch body := msg.Body.(type) {
	case *BGPOpen:
		for _, p := range body.OptParams {
			pc, ok := p.(*OptionParameterCapability)
			if !ok {
				continue
			}
			for _, cp := range pc.Capability {
				name := c04TypeName(cp)
				var sb []byte
				var err error
				var l int
				if c.rec.Guard("c04:cap-len:"+name, func() any { return c.wit(nil) }, func() { sb, err = cp.Serialize(); l = cp.Len() }) {
					return
				}
				if err != nil {
					continue
				}
				c.rec.Count("cap_len_checks", 1)
				if l != len(sb) {
					c.viol("c04:len:"+name, fmt.Sprintf("capability %s: Len()=%d, Serialize() emits %d octets", name, l, len(sb)), map[string]any{"element": c04Hex(sb)})
					continue
				}
				buf := append(append([]byte{}, sb...), c04Poison...)
				var d ParameterCapabilityInterface
				if c.rec.Guard("c04:cap-decode:"+name, func() any { return c.wit(map[string]any{"element": c04Hex(sb)}) }, func() { d, err = DecodeCapability(buf) }) {
					return
				}
				if err != nil {
					c.viol("c04:consume:"+name+":error:"+c04Norm(err.Error()), fmt.Sprintf("capability %s followed by other octets is rejected: %v", name, err), map[string]any{"element": c04Hex(sb)})
					continue
				}
				if d.Len() != len(sb) {
					c.viol("c04:consume:"+name, fmt.Sprintf("capability %s of %d octets followed by other octets: the decoder reports %d", name, len(sb), d.Len()), map[string]any{"element": c04Hex(sb)})
				}
			}
		}
	case *BGPUpdate:
		attrOpt := []*MarshallingOption{{attributes: getBGPUpdateAttributesFromMsg(body)}}
		c04NLRIElements(c, RF_IPv4_UC, body.WithdrawnRoutes, attrOpt)
		c04NLRIElements(c, RF_IPv4_UC, body.NLRI, attrOpt)
		for _, a := range body.PathAttributes {
			name := c04TypeName(a)
			tag := ""
			var fam Family
			switch x := a.(type) {
			case *PathAttributeMpReachNLRI:
				fam = NewFamily(x.AFI, x.SAFI)
				c04NLRIElements(c, fam, x.Value, attrOpt)
			case *PathAttributeMpUnreachNLRI:
				fam = NewFamily(x.AFI, x.SAFI)
				c04NLRIElements(c, fam, x.Value, attrOpt)
			}
			if fam != 0 && c.o.addPath(fam) {
				tag = ":addpath"
			}
			var l int
			var sb []byte
			var err error
			if c.rec.Guard("c04:attr-len:"+name, func() any { return c.wit(nil) }, func() { l = a.Len(ser...); sb, err = a.Serialize(ser...) }) {
				continue
			}
			if err != nil {
				continue
			}
			c.rec.Count("attr_len_checks", 1)
			if l != len(sb) {
				// attribute the difference: path identifiers the constructor did not count,
				// NLRI whose own Len() is wrong (reported per NLRI), and the rest
				extra := map[string]any{"element": c04Hex(sb)}
				hdr := func(ext bool) int {
					if ext {
						return 4
					}
					return 3
				}
				// compare value lengths (the header grows by one octet when the real value crosses 255)
				resid := (len(sb) - hdr(sb[0]&byte(BGP_ATTR_FLAG_EXTENDED_LENGTH) != 0)) - (l - hdr(a.GetFlags()&BGP_ATTR_FLAG_EXTENDED_LENGTH != 0))
				what := fmt.Sprintf("%s: Len()=%d, Serialize() emits %d octets", name, l, len(sb))
				var list []PathNLRI
				switch x := a.(type) {
				case *PathAttributeMpReachNLRI:
					list = x.Value
				case *PathAttributeMpUnreachNLRI:
					list = x.Value
				}
				if tag == ":addpath" {
					resid -= 4 * len(list)
				}
				for _, n := range list {
					if nb, err := n.NLRI.Serialize(ser...); err == nil {
						resid -= len(nb) - n.NLRI.Len(ser...)
					}
				}
				if tag == ":addpath" && len(list) > 0 {
					c.viol("c04:len:"+name+":addpath-ids-not-counted", what+fmt.Sprintf(" (%d NLRI with a 4-octet path identifier each)", len(list)), extra)
				}
				if resid != 0 {
					k := "c04:len:" + name
					if x, ok := a.(*PathAttributeMpReachNLRI); ok {
						k += fmt.Sprintf(":safi%d:nexthops%d", x.SAFI, c04NhCount(x))
					}
					c.viol(k, what+fmt.Sprintf(" (%d octets not explained by path identifiers or NLRI lengths)", resid), extra)
				}
				continue
			}
			buf := append(append(make([]byte, 0, len(sb)+len(c04Poison)), sb...), c04Poison...)
			var d PathAttributeInterface
			popt := append(append([]*MarshallingOption{}, par...), attrOpt...)
			if c.rec.Guard("c04:attr-decode:"+name, func() any { return c.wit(map[string]any{"element": c04Hex(sb)}) }, func() {
				d, err = GetPathAttribute(buf)
				if err == nil {
					err = d.DecodeFromBytes(buf, popt...)
				}
			}) {
				continue
			}
			c.rec.Count("attr_consume_checks", 1)
			if err != nil {
				continue // reported at message level (parse-error)
			}
			if dl := d.Len(popt...); dl != len(sb) {
				c.viol("c04:consume:"+name, fmt.Sprintf("%s of %d octets followed by other octets: the decoder reports %d octets", name, len(sb), dl), map[string]any{"element": c04Hex(sb)})
			}
		}
	}
}

func c04NhCount(x *PathAttributeMpReachNLRI) int {
	n := 0
	if x.Nexthop.IsValid() {
		n++
	}
	if x.LinkLocalNexthop.IsValid() {
		n++
	}
	return n
}

// ---- second half: byte strings the parser accepts (core families)

func c04CoreOnly(m *BGPMessage) bool {
	u, ok := m.Body.(*BGPUpdate)
	if !ok {
		return true
	}
	for _, a := range u.PathAttributes {
		switch x := a.(type) {
		case *PathAttributeMpReachNLRI:
			if !vgenIsCore(NewFamily(x.AFI, x.SAFI)) {
				return false
			}
		case *PathAttributeMpUnreachNLRI:
			if !vgenIsCore(NewFamily(x.AFI, x.SAFI)) {
				return false
			}
		}
	}
	return true
}

// c04ClearCaches zeroes the cached wire length fields of a parsed message (they describe the
// octets it was decoded from, not its content) so that it is serialised like a fresh message.
func c04ClearCaches(m *BGPMessage) {
	m.Header.Len = 0
	if u, ok := m.Body.(*BGPUpdate); ok {
		u.WithdrawnRoutesLen, u.TotalPathAttributeLen = 0, 0
	}
}

func c04SilentParse(b []byte, opts []*MarshallingOption) (m *BGPMessage, err error, panicked bool) {
	defer func() {
		if recover() != nil {
			panicked = true
		}
	}()
	m, err = ParseBGPMessage(b, opts...)
	return
}

func c04AcceptedCase(rec *vlib.Rec, r *rand.Rand, idx int) {
	o := vgenOptions(r, false)
	c := &c04Case{rec: rec, idx: idx, o: o, kind: "accepted"}
	wo := vgenWireOpt(o)
	mk := func() []byte {
		defer func() { recover() }()
		m, _ := vgenMessage(r, o, "", true)
		if m == nil {
			return nil
		}
		b, err := m.Serialize(o.Ser...)
		if err != nil {
			return nil
		}
		return b
	}
	base := mk()
	if base == nil {
		return
	}
	var donor []byte
	if vgenChance(r, 4) {
		donor = mk()
	}
	x := vgenMutate(r, base, donor, wo)
	if vgenChance(r, 4) {
		x = vgenMutate(r, x, donor, wo)
	}
	rec.Eval()
	rec.Count("accepted_half_inputs", 1)
	// a panic of the parser on hostile input is C05's subject; here it only ends the case
	m1, err, panicked := c04SilentParse(x, o.Par)
	if panicked {
		rec.Count("accepted_half_parser_panics_left_to_C05", 1)
		return
	}
	if err != nil || m1 == nil {
		rec.Count("accepted_half_rejected", 1)
		return
	}
	if !c04CoreOnly(m1) {
		rec.Count("accepted_half_noncore_skipped", 1)
		return
	}
	c.b = x
	rec.Count("accepted_half_accepted", 1)
	if !bytes.Equal(x, base) {
		rec.Count("accepted_half_accepted_mutants", 1)
	}
	kind := fmt.Sprintf("type%d", m1.Header.Type)
	c04ClearCaches(m1)
	var b1 []byte
	if rec.Guard("c04:accepted:serialize:"+kind, func() any { return c.wit(nil) }, func() { b1, err = m1.Serialize(o.Ser...) }) {
		return
	}
	if err != nil {
		if strings.HasPrefix(err.Error(), "too long message length") {
			rec.Count("accepted_half_too_long", 1)
			return
		}
		c.viol("c04:accepted:serialize-error:"+c04Culprit(m1, o), fmt.Sprintf("the parser accepts these octets but the value it returns cannot be serialised: %v", err), nil)
		return
	}
	m2, err, panicked := c04SilentParse(b1, o.Par)
	if panicked {
		c.viol("c04:accepted:reparse-panic:"+kind, "parsing the re-serialised message panics", map[string]any{"reserialized": c04Hex(b1)})
		return
	}
	if err != nil || m2 == nil {
		c.viol("c04:accepted:reparse-error:"+c04FirstSentinel(m1, c04ParseCulprit(m1, o)), fmt.Sprintf("the parser accepts these octets, but not what gobgp re-serialises them to: %v", err), map[string]any{"reserialized": c04Hex(b1)})
		return
	}
	c04ClearCaches(m1)
	c04ClearCaches(m2)
	if d := vgenDiff(m1, m2); d != nil {
		// The statement claims the fixpoint for accepted byte strings, not that the one
		// canonicalisation step loses nothing: recorded, not a violation.
		rec.Count("accepted_half_value_changed_by_first_reserialisation", 1)
	}
	var b2 []byte
	if rec.Guard("c04:accepted:reserialize:"+kind, func() any { return c.wit(nil) }, func() { b2, err = m2.Serialize(o.Ser...) }) {
		return
	}
	if err != nil {
		c.viol("c04:accepted:fixpoint:error:"+c04Culprit(m2, o), fmt.Sprintf("second serialisation fails: %v", err), nil)
	} else if !bytes.Equal(b1, b2) {
		c.viol("c04:accepted:fixpoint:"+c04FirstSentinel(m1, c04FixCulprit(m1, m2, o)), fmt.Sprintf("S(P(S(P(x)))) != S(P(x)) (first difference at octet %d)", c04FirstDiff(b1, b2)), map[string]any{"s1": c04Hex(b1), "s2": c04Hex(b2)})
	}
	// lengths of the canonical re-parse
	if u, ok := m2.Body.(*BGPUpdate); ok {
		for _, a := range u.PathAttributes {
			var l int
			var sb []byte
			if rec.Guard("c04:accepted:attr-len:"+c04TypeName(a), func() any { return c.wit(nil) }, func() { l = a.Len(o.Par...); sb, err = a.Serialize(o.Ser...) }) {
				continue
			}
			if err == nil && l != len(sb) {
				c.viol("c04:accepted:len:"+c04TypeName(a), fmt.Sprintf("%s decoded from canonical octets: Len()=%d, Serialize() emits %d", c04TypeName(a), l, len(sb)), map[string]any{"element": c04Hex(sb)})
			}
		}
		if len(u.PathAttributes)+len(u.NLRI)+len(u.WithdrawnRoutes) > 0 && !bytes.Equal(x, base) {
			rec.Nontrivial("acc|" + c04AttrSet(u) + "|" + o.Key + "|" + c04LenBucket(len(b1)))
		}
	}
	if !bytes.Equal(x, b1) {
		rec.Count("accepted_half_canonicalised", 1)
	}
}

func c04AttrSet(u *BGPUpdate) string {
	var s []string
	for _, a := range u.PathAttributes {
		s = append(s, fmt.Sprint(uint8(a.GetType())))
	}
	return strings.Join(s, ",")
}
