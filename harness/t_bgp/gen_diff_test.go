package bgp

// gen_diff: structural comparison of two decoded values with the documented representation slack
// normalised away, reporting the path of the first difference.

import (
	"bytes"
	"fmt"
	"math"
	"net/netip"
	"reflect"
	"regexp"
	"sort"
)

// vgenDiffIgnore lists struct fields that are caches of wire header fields, not content:
//   - PathAttribute.Length: length octets as last decoded / as computed by the constructor; what
//     Len() derives from it is checked separately against the emitted octets.
//   - TunnelEncapTLV.Length: filled by the decoder only; Serialize computes the length itself.
//   - OpaqueNLRI.Length: key length as decoded; Serialize uses len(Key).
//   - the header of the SID structure nested in LsTLVSrv6EndXSID: written by the constructor,
//     not by the decoder; Serialize emits its own.
//   - the EXTENDED_LENGTH bit of PathAttribute.Flags is derived from the value length when the
//     attribute is serialised (PathAttribute.Serialize); it is compared masked.
var vgenDiffIgnore = map[string]bool{
	"PathAttribute.Length":  true,
	"TunnelEncapTLV.Length": true,
	"OpaqueNLRI.Length":     true,
}

var (
	vgenAddrType   = reflect.TypeOf(netip.Addr{})
	vgenPrefixType = reflect.TypeOf(netip.Prefix{})
)

type vgenDiffResult struct {
	Path string // e.g. Body.(BGPUpdate).PathAttributes[2].(PathAttributeMpReachNLRI).Value[0].NLRI.(EncapNLRI).Endpoint
	What string
}

var vgenIdxRe = regexp.MustCompile(`\[\d+\]`)

// TypePath is Path without element indices: it names the class of element that differs.
func (d *vgenDiffResult) TypePath() string { return vgenIdxRe.ReplaceAllString(d.Path, "") }

// vgenDiff returns nil if a and b are equal up to representation slack (nil versus empty slices,
// float payloads compared by bits, cached header fields).
func vgenDiff(a, b any) *vgenDiffResult {
	return vgenDiffV(reflect.ValueOf(a), reflect.ValueOf(b), "")
}

func vgenShort(v reflect.Value) string {
	s := fmt.Sprintf("%v", vgenPrintable(v))
	if len(s) > 120 {
		s = s[:120] + "..."
	}
	return s
}

func vgenPrintable(v reflect.Value) any {
	if !v.IsValid() {
		return "<invalid>"
	}
	if v.CanInterface() {
		return v.Interface()
	}
	switch v.Kind() {
	case reflect.Bool:
		return v.Bool()
	case reflect.Int, reflect.Int8, reflect.Int16, reflect.Int32, reflect.Int64:
		return v.Int()
	case reflect.Uint, reflect.Uint8, reflect.Uint16, reflect.Uint32, reflect.Uint64:
		return v.Uint()
	case reflect.String:
		return v.String()
	}
	return v.Type().String()
}

func vgenDiffV(a, b reflect.Value, path string) *vgenDiffResult {
	if !a.IsValid() || !b.IsValid() {
		if a.IsValid() == b.IsValid() {
			return nil
		}
		return &vgenDiffResult{path, "one side is absent"}
	}
	if a.Type() != b.Type() {
		return &vgenDiffResult{path, fmt.Sprintf("type %v vs %v", a.Type(), b.Type())}
	}
	switch a.Kind() {
	case reflect.Bool:
		if a.Bool() != b.Bool() {
			return &vgenDiffResult{path, fmt.Sprintf("%v vs %v", a.Bool(), b.Bool())}
		}
	case reflect.Int, reflect.Int8, reflect.Int16, reflect.Int32, reflect.Int64:
		if a.Int() != b.Int() {
			return &vgenDiffResult{path, fmt.Sprintf("%d vs %d", a.Int(), b.Int())}
		}
	case reflect.Uint, reflect.Uint8, reflect.Uint16, reflect.Uint32, reflect.Uint64, reflect.Uintptr:
		if a.Uint() != b.Uint() {
			return &vgenDiffResult{path, fmt.Sprintf("%d vs %d", a.Uint(), b.Uint())}
		}
	case reflect.Float32, reflect.Float64:
		if math.Float64bits(a.Float()) != math.Float64bits(b.Float()) {
			return &vgenDiffResult{path, fmt.Sprintf("%v vs %v", a.Float(), b.Float())}
		}
	case reflect.String:
		if a.String() != b.String() {
			return &vgenDiffResult{path, fmt.Sprintf("%q vs %q", a.String(), b.String())}
		}
	case reflect.Slice:
		if a.Type().Elem().Kind() == reflect.Uint8 {
			if !bytes.Equal(a.Bytes(), b.Bytes()) {
				return &vgenDiffResult{path, fmt.Sprintf("octets %x vs %x", vgenClip(a.Bytes()), vgenClip(b.Bytes()))}
			}
			return nil
		}
		if a.Len() != b.Len() {
			return &vgenDiffResult{path + ":len", fmt.Sprintf("%d vs %d elements", a.Len(), b.Len())}
		}
		for i := 0; i < a.Len(); i++ {
			if d := vgenDiffV(a.Index(i), b.Index(i), fmt.Sprintf("%s[%d]", path, i)); d != nil {
				return d
			}
		}
	case reflect.Array:
		for i := 0; i < a.Len(); i++ {
			if d := vgenDiffV(a.Index(i), b.Index(i), fmt.Sprintf("%s[%d]", path, i)); d != nil {
				return d
			}
		}
	case reflect.Map:
		if a.Len() != b.Len() {
			return &vgenDiffResult{path + ":len", fmt.Sprintf("%d vs %d keys", a.Len(), b.Len())}
		}
		keys := a.MapKeys()
		sort.Slice(keys, func(i, j int) bool { return fmt.Sprint(vgenPrintable(keys[i])) < fmt.Sprint(vgenPrintable(keys[j])) })
		for _, k := range keys {
			bv := b.MapIndex(k)
			if !bv.IsValid() {
				return &vgenDiffResult{path + ":key", fmt.Sprintf("key %v only on one side", vgenPrintable(k))}
			}
			if d := vgenDiffV(a.MapIndex(k), bv, fmt.Sprintf("%s{%v}", path, vgenPrintable(k))); d != nil {
				return d
			}
		}
	case reflect.Pointer:
		if a.IsNil() || b.IsNil() {
			if a.IsNil() != b.IsNil() {
				return &vgenDiffResult{path, fmt.Sprintf("nil vs non-nil pointer (%v)", a.Type())}
			}
			return nil
		}
		return vgenDiffV(a.Elem(), b.Elem(), path)
	case reflect.Interface:
		if a.IsNil() || b.IsNil() {
			if a.IsNil() != b.IsNil() {
				return &vgenDiffResult{path, "nil vs non-nil interface"}
			}
			return nil
		}
		ea, eb := a.Elem(), b.Elem()
		if ea.Type() != eb.Type() {
			ta := ea.Type()
			for ta.Kind() == reflect.Pointer {
				ta = ta.Elem()
			}
			return &vgenDiffResult{path + ".(" + ta.Name() + "):type", fmt.Sprintf("dynamic type %v vs %v", ea.Type(), eb.Type())}
		}
		t := ea.Type()
		for t.Kind() == reflect.Pointer {
			t = t.Elem()
		}
		return vgenDiffV(ea, eb, path+".("+t.Name()+")")
	case reflect.Struct:
		t := a.Type()
		if t == vgenAddrType && a.CanInterface() && b.CanInterface() {
			if a.Interface().(netip.Addr) != b.Interface().(netip.Addr) {
				return &vgenDiffResult{path, fmt.Sprintf("%v vs %v", a.Interface(), b.Interface())}
			}
			return nil
		}
		if t == vgenPrefixType && a.CanInterface() && b.CanInterface() {
			if a.Interface().(netip.Prefix) != b.Interface().(netip.Prefix) {
				return &vgenDiffResult{path, fmt.Sprintf("%v vs %v", a.Interface(), b.Interface())}
			}
			return nil
		}
		for i := 0; i < t.NumField(); i++ {
			f := t.Field(i)
			if vgenDiffIgnore[t.Name()+"."+f.Name] || f.Name == "Reserved" {
				// (fields named Reserved hold reserved octets: "MUST be ignored on receipt")
				continue
			}
			fa, fb := a.Field(i), b.Field(i)
			if t.Name() == "PathAttributeMpReachNLRI" && f.Name == "Nexthop" && fa.CanInterface() {
				// an IPv4 next hop of an IPv6-AFI route travels as an IPv4-mapped IPv6 address
				// (documented at PathAttributeMpReachNLRI.Serialize): same next hop.
				x, y := fa.Interface().(netip.Addr).Unmap(), fb.Interface().(netip.Addr).Unmap()
				if x != y {
					return &vgenDiffResult{path + "." + f.Name, fmt.Sprintf("%v vs %v", x, y)}
				}
				continue
			}
			if t.Name() == "LsTLVSrv6EndXSID" && f.Name == "Srv6SIDStructure" {
				for _, n := range []string{"LocalBlock", "LocalNode", "LocalFunc", "LocalArg"} {
					if d := vgenDiffV(fa.FieldByName(n), fb.FieldByName(n), path+"."+f.Name+"."+n); d != nil {
						return d
					}
				}
				continue
			}
			if t.Name() == "PathAttribute" && f.Name == "Flags" {
				if x, y := fa.Uint()&^uint64(BGP_ATTR_FLAG_EXTENDED_LENGTH), fb.Uint()&^uint64(BGP_ATTR_FLAG_EXTENDED_LENGTH); x != y {
					return &vgenDiffResult{path + ".Flags", fmt.Sprintf("%#x vs %#x", x, y)}
				}
				continue
			}
			p := path + "." + f.Name
			if f.Anonymous {
				p = path
			}
			if path == "" && !f.Anonymous {
				p = f.Name
			}
			if d := vgenDiffV(fa, fb, p); d != nil {
				return d
			}
		}
	case reflect.Func, reflect.Chan, reflect.UnsafePointer:
	}
	return nil
}

func vgenClip(b []byte) []byte {
	if len(b) > 24 {
		return b[:24]
	}
	return b
}

var (
	vgenHexRe = regexp.MustCompile(`\b[0-9a-fA-F]{6,}\b`)
	vgenNumRe = regexp.MustCompile(`\d+`)
)

// vgenNorm turns an error text into a stable class name (numbers and hex runs abstracted).
func vgenNorm(s string) string {
	s = vgenHexRe.ReplaceAllString(s, "H")
	s = vgenNumRe.ReplaceAllString(s, "N")
	if len(s) > 70 {
		s = s[:70]
	}
	return s
}

// vgenTypeName is the bare Go type name behind pointers.
func vgenTypeName(v any) string {
	t := reflect.TypeOf(v)
	for t != nil && t.Kind() == reflect.Pointer {
		t = t.Elem()
	}
	if t == nil {
		return "nil"
	}
	return t.Name()
}
