package bgp

// gen_nlri: one structurally valid NLRI of every address family.

import (
	"math/rand/v2"
	"net"
	"net/netip"
	"reflect"
	"strings"
)

// vgenLabelStack draws a label stack. single forces one label (used when a Prefix-SID attribute
// is present: gobgp then reads exactly one 3-octet label field, SRv6 transposition).
// Stacks whose non-bottom entries would encode as 0x000000 / 0x800000 are legal MPLS but collide
// with gobgp's withdraw-label sentinels; they are produced only when sentinel is true.
// maxLabels bounds the depth so that the one-octet NLRI length (in bits) can hold the element.
func vgenLabelStack(r *rand.Rand, c *vgenNLRICtx, maxLabels int) MPLSLabelStack {
	if c.withdraw && vgenChance(r, 3) {
		return *NewMPLSLabelStack(WITHDRAW_LABEL)
	}
	n := 1
	if !c.single && (vgenChance(r, 3) || strings.HasPrefix(c.quirk, "label-sentinel")) {
		n = 2 + r.IntN(3)
	}
	if n > maxLabels {
		n = maxLabels
	}
	// A non-bottom entry 0 / 0x80000 encodes as 0x000000 / 0x800000, the withdraw pseudo labels.
	// As the first entry this is ambiguous on the wire without knowing reach from unreach
	// (quirk label-sentinel-first-in-stack); further down the stack it is not (…-inside-stack).
	ls := make([]uint32, 0, n+2)
	for i := 0; i < n; i++ {
		l := vgenLabel(r)
		if i < n-1 {
			want := ""
			if i == 0 {
				want = "label-sentinel-first-in-stack"
			} else {
				want = "label-sentinel-inside-stack"
			}
			if c.quirk == want && vgenBool(r) {
				l = vgenPick[uint32](r, 0, 0x80000)
				c.tag("quirk:" + want)
			} else {
				for l == 0 || l == 0x80000 {
					l = vgenLabel(r)
				}
			}
		}
		ls = append(ls, l)
	}
	return *NewMPLSLabelStack(ls...)
}

func vgenESI(r *rand.Rand) EthernetSegmentIdentifier {
	t := ESIType(r.IntN(6))
	v := vgenBytes(r, 9)
	switch t {
	case ESI_LACP, ESI_MSTP, ESI_ROUTERID, ESI_AS:
		v[8] = 0
	}
	if vgenChance(r, 4) {
		t = ESI_ARBITRARY
		for i := range v {
			v[i] = 0
		}
	}
	return EthernetSegmentIdentifier{Type: t, Value: v}
}

func vgenRouteTarget(r *rand.Rand) ExtendedCommunityInterface {
	switch r.IntN(3) {
	case 0:
		return NewTwoOctetAsSpecificExtended(EC_SUBTYPE_ROUTE_TARGET, vgenU16(r), vgenU32(r), true)
	case 1:
		e, _ := NewIPv4AddressSpecificExtended(EC_SUBTYPE_ROUTE_TARGET, vgenAddr4(r), vgenU16(r), true)
		return e
	default:
		return NewFourOctetAsSpecificExtended(EC_SUBTYPE_ROUTE_TARGET, vgenU32(r), vgenU16(r), true)
	}
}

type vgenNLRICtx struct {
	withdraw  bool   // element of MP_UNREACH / withdrawn routes
	single    bool   // single-label stacks only
	quirk     string // at most one rarely used value class per message (see vgenQuirks)
	tags      *[]string
	rareEVPN9 bool
}

func (c *vgenNLRICtx) tag(s string) {
	if c.tags != nil {
		*c.tags = append(*c.tags, s)
	}
}

// vgenNLRI returns one NLRI of family f (nil if the draw failed).
func vgenNLRI(r *rand.Rand, f Family, c *vgenNLRICtx) NLRI {
	v6 := f.Afi() == AFI_IP6
	switch f {
	case RF_IPv4_UC, RF_IPv4_MC, RF_IPv6_UC, RF_IPv6_MC:
		n, _ := NewIPAddrPrefix(vgenPrefix(r, v6))
		return n
	case RF_IPv4_MPLS, RF_IPv6_MPLS:
		p := vgenPrefix(r, v6)
		n, _ := NewLabeledIPAddrPrefix(p, vgenLabelStack(r, c, (255-p.Bits())/24))
		return n
	case RF_IPv4_VPN, RF_IPv6_VPN, RF_IPv4_VPN_MC, RF_IPv6_VPN_MC:
		p := vgenPrefix(r, v6)
		n, _ := NewLabeledVPNIPAddrPrefix(p, vgenLabelStack(r, c, (255-64-p.Bits())/24), vgenRD(r))
		return n
	case RF_EVPN:
		return vgenEVPN(r, c)
	case RF_VPLS:
		return NewVPLSNLRI(vgenRD(r), vgenU16(r), vgenU16(r), vgenU16(r), vgenLabel(r))
	case RF_RTC_UC:
		return vgenRTC(r, c)
	case RF_IPv4_ENCAP, RF_IPv6_ENCAP:
		n, _ := NewEncapNLRI(vgenAddr(r, v6))
		return n
	case RF_FS_IPv4_UC, RF_FS_IPv6_UC, RF_FS_IPv4_VPN, RF_FS_IPv6_VPN, RF_FS_L2_VPN:
		return vgenFlowSpec(r, f, c)
	case RF_OPAQUE:
		return NewOpaqueNLRI(vgenBytes(r, vgenPick(r, 0, 1, 3, 8, 32)), vgenBytes(r, vgenPick(r, 0, 1, 5, 40)))
	case RF_LS:
		return vgenLsNLRI(r, c)
	case RF_SR_POLICY_IPv4:
		n, _ := NewSRPolicy(f, SRPolicyIPv4NLRILen, vgenU32(r), vgenU32(r), vgenBytes(r, 4))
		return n
	case RF_SR_POLICY_IPv6:
		n, _ := NewSRPolicy(f, SRPolicyIPv6NLRILen, vgenU32(r), vgenU32(r), vgenBytes(r, 16))
		return n
	case RF_MUP_IPv4, RF_MUP_IPv6:
		return vgenMUP(r, v6, c)
	}
	return nil
}

func vgenEVPN(r *rand.Rand, c *vgenNLRICtx) NLRI {
	rd := vgenRD(r)
	k := r.IntN(5)
	if c.quirk == "evpn-ipmsi" && vgenChance(r, 3) {
		k = 5
	}
	switch k {
	case 0:
		c.tag("evpn-ad")
		return NewEVPNEthernetAutoDiscoveryRoute(rd, vgenESI(r), vgenU32(r), vgenU24(r))
	case 1:
		c.tag("evpn-macip")
		var ip netip.Addr
		switch r.IntN(3) {
		case 0:
			ip = vgenAddr4(r)
		case 1:
			ip = vgenAddr6(r)
		}
		labels := []uint32{vgenU24(r)}
		if vgenBool(r) {
			labels = append(labels, vgenU24(r))
		}
		n, _ := NewEVPNMacIPAdvertisementRoute(rd, vgenESI(r), vgenU32(r), vgenMAC(r), ip, labels)
		return n
	case 2:
		c.tag("evpn-mcast")
		n, _ := NewEVPNMulticastEthernetTagRoute(rd, vgenU32(r), vgenAddr(r, vgenBool(r)))
		return n
	case 3:
		c.tag("evpn-es")
		n, _ := NewEVPNEthernetSegmentRoute(rd, vgenESI(r), vgenAddr(r, vgenBool(r)))
		return n
	case 4:
		c.tag("evpn-prefix")
		v6 := vgenBool(r)
		p := vgenPrefix(r, v6)
		n, _ := NewEVPNIPPrefixRoute(rd, vgenESI(r), vgenU32(r), uint8(p.Bits()), p.Addr(), vgenAddr(r, v6), vgenU24(r))
		return n
	default:
		c.tag("evpn-ipmsi")
		c.tag("quirk:evpn-ipmsi")
		return NewEVPNIPMSIRoute(rd, vgenU32(r), vgenRouteTarget(r))
	}
}

func vgenRTC(r *rand.Rand, c *vgenNLRICtx) NLRI {
	switch r.IntN(4) {
	case 0:
		return NewRouteTargetMembershipNLRI(0, nil)
	case 1:
		return NewRouteTargetMembershipNLRI(vgenU32(r), nil)
	case 2:
		// a prefix of a route target: 33..95 bits, trailing bits zero
		l := 33 + r.IntN(63)
		rtb, _ := vgenRouteTarget(r).Serialize()
		bl := l - 32
		for i := range rtb {
			switch {
			case i*8 >= bl:
				rtb[i] = 0
			case (i+1)*8 > bl:
				mask := 0xff00 >> uint(bl%8)
				rtb[i] &= byte(mask & 0xff)
			}
		}
		rt, err := ParseExtended(rtb)
		if err != nil {
			return NewRouteTargetMembershipNLRI(vgenU32(r), vgenRouteTarget(r))
		}
		n := NewRouteTargetMembershipNLRI(vgenU32(r), rt)
		n.Length = uint8(l)
		c.tag("rtc-partial")
		return n
	default:
		return NewRouteTargetMembershipNLRI(vgenU32(r), vgenRouteTarget(r))
	}
}

var vgenFSNumericTypes = []BGPFlowSpecType{
	FLOW_SPEC_TYPE_IP_PROTO, FLOW_SPEC_TYPE_PORT, FLOW_SPEC_TYPE_DST_PORT, FLOW_SPEC_TYPE_SRC_PORT, FLOW_SPEC_TYPE_ICMP_TYPE,
	FLOW_SPEC_TYPE_ICMP_CODE, FLOW_SPEC_TYPE_TCP_FLAG, FLOW_SPEC_TYPE_PKT_LEN, FLOW_SPEC_TYPE_DSCP, FLOW_SPEC_TYPE_FRAGMENT, FLOW_SPEC_TYPE_LABEL,
}

var vgenFSL2Types = []BGPFlowSpecType{
	FLOW_SPEC_TYPE_ETHERNET_TYPE, FLOW_SPEC_TYPE_LLC_DSAP, FLOW_SPEC_TYPE_LLC_SSAP, FLOW_SPEC_TYPE_LLC_CONTROL, FLOW_SPEC_TYPE_SNAP,
	FLOW_SPEC_TYPE_VID, FLOW_SPEC_TYPE_COS, FLOW_SPEC_TYPE_INNER_VID, FLOW_SPEC_TYPE_INNER_COS,
}

func vgenFSItems(r *rand.Rand, n int) []*FlowSpecComponentItem {
	items := make([]*FlowSpecComponentItem, 0, n+1)
	for i := 0; i < n; i++ {
		op := uint8(r.IntN(8)) // lt/gt/eq bits
		if vgenChance(r, 3) {
			op |= 0x40 // AND
		}
		var v uint64
		switch r.IntN(5) {
		case 0:
			v = uint64(vgenU8(r))
		case 1:
			v = uint64(vgenU16(r))
		case 2:
			v = uint64(vgenU32(r))
		case 3:
			v = vgenU64(r)
		default:
			v = uint64(r.IntN(70000))
		}
		if vgenChance(r, 4) {
			// explicit length bits, value fitting
			order := r.IntN(4)
			op |= uint8(order) << 4
			if order < 3 {
				v &= 1<<(8<<order) - 1
			}
			if order == 0 {
				// (an explicit 1-octet length is indistinguishable from "unset" for the constructor)
				v &= 0xff
			}
		}
		items = append(items, NewFlowSpecComponentItem(op, v))
	}
	return items
}

func vgenFlowSpec(r *rand.Rand, f Family, c *vgenNLRICtx) NLRI {
	var comps []FlowSpecComponentInterface
	v6 := f.Afi() == AFI_IP6
	l2 := f == RF_FS_L2_VPN
	if !l2 {
		if vgenBool(r) {
			p, _ := NewIPAddrPrefix(vgenPrefix(r, v6))
			if v6 {
				comps = append(comps, NewFlowSpecDestinationPrefix6(p, uint8(r.IntN(p.Prefix.Bits()+1))))
			} else {
				comps = append(comps, NewFlowSpecDestinationPrefix(p))
			}
		}
		if vgenBool(r) {
			p, _ := NewIPAddrPrefix(vgenPrefix(r, v6))
			if v6 {
				comps = append(comps, NewFlowSpecSourcePrefix6(p, uint8(r.IntN(p.Prefix.Bits()+1))))
			} else {
				comps = append(comps, NewFlowSpecSourcePrefix(p))
			}
		}
	} else {
		if vgenBool(r) {
			mac, _ := net.ParseMAC(vgenMAC(r))
			comps = append(comps, NewFlowSpecSourceMac(mac))
		}
		if vgenBool(r) {
			mac, _ := net.ParseMAC(vgenMAC(r))
			comps = append(comps, NewFlowSpecDestinationMac(mac))
		}
	}
	types := append([]BGPFlowSpecType{}, vgenFSNumericTypes...)
	if l2 {
		types = append(types, vgenFSL2Types...)
	}
	r.Shuffle(len(types), func(i, j int) { types[i], types[j] = types[j], types[i] })
	n := vgenSmallLen(r, 4)
	if len(comps) == 0 && n == 0 {
		n = 1
	}
	for i := 0; i < n && i < len(types); i++ {
		k := 1 + vgenSmallLen(r, 3)
		if c.quirk == "flowspec-long" && vgenChance(r, 3) {
			k = vgenPick(r, 40, 60, 78, 79, 80, 81, 100) // NLRI length around 0xf0 (two-octet length form)
			c.tag("quirk:flowspec-long")
		}
		comps = append(comps, NewFlowSpecComponent(types[i], vgenFSItems(r, k)))
	}
	var nlri *FlowSpecNLRI
	switch f {
	case RF_FS_IPv4_UC, RF_FS_IPv6_UC:
		nlri, _ = NewFlowSpecUnicast(f, comps)
	default:
		nlri, _ = NewFlowSpecVPN(f, vgenRD(r), comps)
	}
	if nlri == nil {
		return nil
	}
	return nlri
}

func vgenLsNodeDesc(r *rand.Rand, t LsTLVType) *LsTLVNodeDescriptor {
	nd := &LsNodeDescriptor{Asn: vgenU32(r), BGPLsID: vgenU32(r)}
	switch r.IntN(5) {
	case 0:
		nd.IGPRouterID = "0000.0000.0001"
	case 1:
		nd.IGPRouterID = "1921.6800.1003-07"
	case 2:
		nd.IGPRouterID = vgenAddr4(r).String()
		nd.OspfAreaID = vgenU32(r)
	case 3:
		nd.IGPRouterID = vgenAddr4(r).String() + ":" + vgenAddr4(r).String()
		nd.OspfAreaID = vgenU32(r)
	default:
		if nd.Asn == 0 {
			nd.Asn = 65000
		}
		nd.BGPRouterID = vgenAddr4(r)
		if vgenBool(r) {
			nd.BGPConfederationMember = vgenU32(r)
		}
	}
	d := NewLsTLVNodeDescriptor(nd, t)
	return &d
}

func vgenLsTLVsLen(tlvs []LsTLVInterface) int {
	n := 0
	for _, t := range tlvs {
		n += t.Len()
	}
	return n
}

func vgenLsNLRI(r *rand.Rand, c *vgenNLRICtx) NLRI {
	proto := LsProtocolID(1 + r.IntN(7))
	id := vgenU64(r)
	local := vgenLsNodeDesc(r, LS_TLV_LOCAL_NODE_DESC)
	mk := func(t LsNLRIType, l int) LsNLRI {
		return LsNLRI{NLRIType: t, Length: uint16(lsNLRIHdrLen + l), ProtocolID: proto, Identifier: id}
	}
	var inner LsNLRIInterface
	var t LsNLRIType
	switch r.IntN(5) {
	case 0:
		c.tag("ls-node")
		t = LS_NLRI_TYPE_NODE
		inner = &LsNodeNLRI{LsNLRI: mk(t, local.Len()), LocalNodeDesc: local}
	case 1:
		c.tag("ls-link")
		t = LS_NLRI_TYPE_LINK
		remote := vgenLsNodeDesc(r, LS_TLV_REMOTE_NODE_DESC)
		ld := &LsLinkDescriptor{}
		if vgenBool(r) {
			a, b := vgenU32(r), vgenU32(r)
			ld.LinkLocalID, ld.LinkRemoteID = &a, &b
		}
		if vgenBool(r) {
			a := vgenAddr4(r)
			ld.InterfaceAddrIPv4 = &a
		}
		if vgenBool(r) {
			a := vgenAddr4(r)
			ld.NeighborAddrIPv4 = &a
		}
		if vgenChance(r, 3) {
			a := netip.MustParseAddr("2001:db8::1")
			ld.InterfaceAddrIPv6 = &a
		}
		if vgenChance(r, 3) {
			a := netip.MustParseAddr("2001:db8::2")
			ld.NeighborAddrIPv6 = &a
		}
		tlvs := NewLsLinkTLVs(ld)
		inner = &LsLinkNLRI{LsNLRI: mk(t, local.Len()+remote.Len()+vgenLsTLVsLen(tlvs)), LocalNodeDesc: local, RemoteNodeDesc: remote, LinkDesc: tlvs}
	case 2, 3:
		v6 := r.IntN(2) == 0
		pd := &LsPrefixDescriptor{IPReachability: []netip.Prefix{vgenPrefix(r, v6)}}
		if vgenBool(r) {
			pd.OSPFRouteType = LsOspfRouteType(1 + r.IntN(6))
		}
		tlvs := NewLsPrefixTLVs(pd)
		if v6 {
			c.tag("ls-prefix6")
			t = LS_NLRI_TYPE_PREFIX_IPV6
			inner = &LsPrefixV6NLRI{LsNLRI: mk(t, local.Len()+vgenLsTLVsLen(tlvs)), LocalNodeDesc: local, PrefixDesc: tlvs}
		} else {
			c.tag("ls-prefix4")
			t = LS_NLRI_TYPE_PREFIX_IPV4
			inner = &LsPrefixV4NLRI{LsNLRI: mk(t, local.Len()+vgenLsTLVsLen(tlvs)), LocalNodeDesc: local, PrefixDesc: tlvs}
		}
	default:
		c.tag("ls-srv6sid")
		t = LS_NLRI_TYPE_SRV6_SID
		sid := &LsTLVSrv6SIDInfo{LsTLV: LsTLV{Type: LS_TLV_SRV6_SID_INFO, Length: 16}, SIDs: []netip.Addr{vgenAddr6(r)}}
		n := &LsSrv6SIDNLRI{LocalNodeDesc: local, Srv6SIDInfo: sid}
		l := local.Len() + sid.Len()
		if vgenBool(r) {
			ids := []uint16{uint16(r.IntN(4096))}
			if vgenBool(r) {
				ids = append(ids, uint16(r.IntN(4096)))
			}
			mt := &LsTLVMultiTopoID{LsTLV: LsTLV{Type: LS_TLV_MULTI_TOPO_ID, Length: uint16(2 * len(ids))}, MultiTopoIDs: ids}
			n.MultiTopoID = mt
			l += mt.Len()
		}
		n.LsNLRI = mk(t, l)
		inner = n
	}
	return &LsAddrPrefix{Type: t, Length: uint16(inner.Len()), NLRI: inner}
}

func vgenMUPTLVs(r *rand.Rand) []MUPTLVInterface {
	var out []MUPTLVInterface
	for i := vgenSmallLen(r, 3); i > 0; i-- {
		switch r.IntN(4) {
		case 0:
			out = append(out, NewMUPSessionParametersTLV(vgenAddr4(r), vgenU8(r)))
		case 1:
			out = append(out, NewMUPInterworkEndpointTLV(vgenAddr(r, vgenBool(r))))
		case 2:
			out = append(out, NewMUPSourceAddressTLV(vgenAddr(r, vgenBool(r))))
		default:
			out = append(out, NewMUPUnknownTLV(uint8(4+r.IntN(250)), vgenBytes(r, vgenSmallLen(r, 12))))
		}
	}
	return out
}

func vgenMUP(r *rand.Rand, v6 bool, c *vgenNLRICtx) NLRI {
	rd := vgenRD(r)
	switch r.IntN(4) {
	case 0:
		c.tag("mup-isd")
		return NewMUPInterworkSegmentDiscoveryRoute(rd, vgenPrefix(r, v6))
	case 1:
		c.tag("mup-dsd")
		return NewMUPDirectSegmentDiscoveryRoute(rd, vgenAddr(r, v6))
	case 2:
		c.tag("mup-t1st")
		var sa *netip.Addr
		if vgenBool(r) {
			a := vgenAddr(r, vgenBool(r))
			sa = &a
		}
		return NewMUPType1SessionTransformedRoute(rd, vgenPrefix(r, v6), vgenAddr4(r), vgenU8(r), vgenAddr(r, vgenBool(r)), sa, vgenMUPTLVs(r)...)
	default:
		c.tag("mup-t2st")
		ea := vgenAddr(r, v6)
		teidBits := vgenPick(r, 0, 8, 16, 24, 32, 32)
		var teid [4]byte
		for i := 0; i < teidBits/8; i++ {
			teid[i] = byte(r.Uint32())
		}
		return NewMUPType2SessionTransformedRoute(rd, uint8(ea.BitLen()+teidBits), ea, netip.AddrFrom4(teid), vgenMUPTLVs(r)...)
	}
}

// vgenIsNilIface reports a nil interface or an interface holding a nil pointer.
func vgenIsNilIface(v any) bool {
	if v == nil {
		return true
	}
	rv := reflect.ValueOf(v)
	switch rv.Kind() {
	case reflect.Pointer, reflect.Slice, reflect.Map, reflect.Interface:
		return rv.IsNil()
	}
	return false
}

// vgenNLRIs draws n NLRI (with path ids) of family f.
// The path identifier is only drawn when ADD-PATH is on for the family (it is not on the wire
// otherwise).
func vgenNLRIs(r *rand.Rand, f Family, n int, ap bool, c *vgenNLRICtx) []PathNLRI {
	out := make([]PathNLRI, 0, n+2)
	for i := 0; i < n; i++ {
		x := vgenNLRI(r, f, c)
		if vgenIsNilIface(x) {
			continue
		}
		p := PathNLRI{NLRI: x}
		if ap {
			p.ID = vgenPick(r, vgenU32(r), 0, 1, uint32(i))
		}
		out = append(out, p)
	}
	return out
}
