package apiutil

// gen_cap: one capability of every kind the package can construct (copy of the C04 generator).

import (
	"math/rand/v2"

	. "github.com/osrg/gobgp/v4/pkg/packet/bgp"
)

var c18KnownCaps = map[BGPCapabilityCode]bool{1: true, 2: true, 4: true, 5: true, 6: true, 64: true, 65: true, 69: true, 70: true, 71: true, 73: true, 75: true, 128: true}

func c18CapFamily(r *rand.Rand) Family {
	if c18Chance(r, 6) {
		return NewFamily(c18U16(r), c18U8(r))
	}
	return c18Families[r.IntN(len(c18Families))]
}

// c18Capability draws one capability; maxLen bounds its encoded size.
func c18Capability(r *rand.Rand, maxLen int) ParameterCapabilityInterface {
	room := func(per, fixed int) int { // how many tuples fit
		n := (maxLen - 2 - fixed) / per
		if n > 255/per {
			n = 255 / per
		}
		return n
	}
	switch r.IntN(14) {
	case 0:
		return NewCapMultiProtocol(c18CapFamily(r))
	case 1:
		return NewCapRouteRefresh()
	case 2:
		return NewCapExtendedMessage()
	case 3:
		return NewCapCarryingLabelInfo()
	case 4:
		n := 1 + c18SmallLen(r, min(room(6, 0)-1, 6))
		ts := make([]*CapExtendedNexthopTuple, 0, n)
		for i := 0; i < n; i++ {
			ts = append(ts, NewCapExtendedNexthopTuple(c18CapFamily(r), c18Pick[uint16](r, 1, 2, 2) /* (C18) next-hop AFI: IPv4 or IPv6, the values RFC 8950 defines */))
		}
		return NewCapExtendedNexthop(ts)
	case 5:
		n := c18SmallLen(r, min(room(4, 2), 8))
		ts := make([]*CapGracefulRestartTuple, 0, n)
		for i := 0; i < n; i++ {
			ts = append(ts, NewCapGracefulRestartTuple(c18CapFamily(r), c18Bool(r)))
		}
		return NewCapGracefulRestart(c18Bool(r), c18Bool(r), c18Pick[uint16](r, 0, 1, 90, 120, 4094, 4095), ts)
	case 6:
		return NewCapFourOctetASNumber(c18U32(r))
	case 7:
		n := 1 + c18SmallLen(r, min(room(4, 0)-1, 8))
		ts := make([]*CapAddPathTuple, 0, n)
		for i := 0; i < n; i++ {
			ts = append(ts, NewCapAddPathTuple(c18CapFamily(r), BGPAddPathMode(c18Pick[uint8](r, 0, 1, 2, 3, 3))))
		}
		return NewCapAddPath(ts)
	case 8:
		return NewCapEnhancedRouteRefresh()
	case 9:
		return NewCapRouteRefreshCisco()
	case 10:
		n := c18SmallLen(r, min(room(7, 0), 6))
		ts := make([]*CapLongLivedGracefulRestartTuple, 0, n)
		for i := 0; i < n; i++ {
			ts = append(ts, NewCapLongLivedGracefulRestartTuple(c18CapFamily(r), c18Bool(r), c18U24(r)))
		}
		return NewCapLongLivedGracefulRestart(ts)
	case 11:
		h := c18Pick(r, 0, 1, 8, 63, 64)
		d := c18Pick(r, 0, 1, 12, 63, 64)
		if h+d+4 > maxLen {
			h, d = 3, 3
		}
		return NewCapFQDN(c18String(r, h), c18String(r, d))
	case 12:
		n := c18Pick(r, 1, 2, 10, 63, 64)
		if n+3 > maxLen {
			n = 1
		}
		return NewCapSoftwareVersion(c18String(r, n))
	default:
		code := BGPCapabilityCode(c18U8(r))
		for c18KnownCaps[code] {
			code++
		}
		n := c18Pick(r, 0, 0, 1, 4, 20, 100, 200, 249, 250, 251)
		if n+2 > maxLen {
			n = 0
		}
		return NewCapUnknown(code, c18Bytes(r, n))
	}
}

