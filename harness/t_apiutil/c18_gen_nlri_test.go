package apiutil

// gen_nlri: one structurally valid NLRI of every address family.

import (
	. "github.com/osrg/gobgp/v4/pkg/packet/bgp"
	"math/rand/v2"
	"net"
	"net/netip"
	"reflect"
)

// c18LabelStack draws a label stack. single forces one label (used when a Prefix-SID attribute
// is present: gobgp then reads exactly one 3-octet label field, SRv6 transposition).
// Stacks whose non-bottom entries would encode as 0x000000 / 0x800000 are legal MPLS but collide
// with gobgp's withdraw-label sentinels; they are produced only when sentinel is true.
// maxLabels bounds the depth so that the one-octet NLRI length (in bits) can hold the element.
func c18LabelStack(r *rand.Rand, c *c18NLRICtx, maxLabels int) MPLSLabelStack {
	if c.withdraw && c18Chance(r, 3) {
		return *NewMPLSLabelStack(WITHDRAW_LABEL)
	}
	n := 1
	if !c.single && c18Chance(r, 3) {
		n = 2 + r.IntN(3)
	}
	if n > maxLabels {
		n = maxLabels
	}
	sentinel := c.quirk == "label-sentinel-in-stack" && c18Bool(r)
	ls := make([]uint32, 0, n+2)
	for i := 0; i < n; i++ {
		l := c18Label(r)
		if i < n-1 {
			for !sentinel && (l == 0 || l == 0x80000) {
				l = c18Label(r)
			}
			if l == 0 || l == 0x80000 {
				c.tag("quirk:label-sentinel-in-stack")
			}
		}
		ls = append(ls, l)
	}
	return *NewMPLSLabelStack(ls...)
}

func c18ESI(r *rand.Rand) EthernetSegmentIdentifier {
	t := ESIType(r.IntN(6))
	v := c18Bytes(r, 9)
	switch t {
	case ESI_LACP, ESI_MSTP, ESI_ROUTERID, ESI_AS:
		v[8] = 0
	}
	if c18Chance(r, 4) {
		t = ESI_ARBITRARY
		for i := range v {
			v[i] = 0
		}
	}
	return EthernetSegmentIdentifier{Type: t, Value: v}
}

func c18RouteTarget(r *rand.Rand) ExtendedCommunityInterface {
	switch r.IntN(3) {
	case 0:
		return NewTwoOctetAsSpecificExtended(EC_SUBTYPE_ROUTE_TARGET, c18U16(r), c18U32(r), true)
	case 1:
		e, _ := NewIPv4AddressSpecificExtended(EC_SUBTYPE_ROUTE_TARGET, c18Addr4(r), c18U16(r), true)
		return e
	default:
		return NewFourOctetAsSpecificExtended(EC_SUBTYPE_ROUTE_TARGET, c18U32(r), c18U16(r), true)
	}
}

type c18NLRICtx struct {
	withdraw  bool // element of MP_UNREACH / withdrawn routes
	single    bool // single-label stacks only
	quirk     string // at most one rarely used value class per message (see c18Quirks)
	tags      *[]string
	rareEVPN9 bool
}

func (c *c18NLRICtx) tag(s string) {
	if c.tags != nil {
		*c.tags = append(*c.tags, s)
	}
}

// c18NLRI returns one NLRI of family f (nil if the draw failed).
func c18NLRI(r *rand.Rand, f Family, c *c18NLRICtx) NLRI {
	v6 := f.Afi() == AFI_IP6
	switch f {
	case RF_IPv4_UC, RF_IPv4_MC, RF_IPv6_UC, RF_IPv6_MC:
		n, _ := NewIPAddrPrefix(c18Prefix(r, v6))
		return n
	case RF_IPv4_MPLS, RF_IPv6_MPLS:
		p := c18Prefix(r, v6)
		n, _ := NewLabeledIPAddrPrefix(p, c18LabelStack(r, c, (255-p.Bits())/24))
		return n
	case RF_IPv4_VPN, RF_IPv6_VPN, RF_IPv4_VPN_MC, RF_IPv6_VPN_MC:
		p := c18Prefix(r, v6)
		n, _ := NewLabeledVPNIPAddrPrefix(p, c18LabelStack(r, c, (255-64-p.Bits())/24), c18RD(r))
		return n
	case RF_EVPN:
		return c18EVPN(r, c)
	case RF_VPLS:
		return NewVPLSNLRI(c18RD(r), c18U16(r), c18U16(r), c18U16(r), c18Label(r))
	case RF_RTC_UC:
		return c18RTC(r, c)
	case RF_IPv4_ENCAP, RF_IPv6_ENCAP:
		n, _ := NewEncapNLRI(c18Addr(r, v6))
		return n
	case RF_FS_IPv4_UC, RF_FS_IPv6_UC, RF_FS_IPv4_VPN, RF_FS_IPv6_VPN, RF_FS_L2_VPN:
		return c18FlowSpec(r, f, c)
	case RF_OPAQUE:
		return NewOpaqueNLRI(c18Bytes(r, c18Pick(r, 0, 1, 3, 8, 32)), c18Bytes(r, c18Pick(r, 0, 1, 5, 40)))
	case RF_LS:
		return c18LsNLRI(r, c)
	case RF_SR_POLICY_IPv4:
		n, _ := NewSRPolicy(f, SRPolicyIPv4NLRILen, c18U32(r), c18U32(r), c18Bytes(r, 4))
		return n
	case RF_SR_POLICY_IPv6:
		n, _ := NewSRPolicy(f, SRPolicyIPv6NLRILen, c18U32(r), c18U32(r), c18Bytes(r, 16))
		return n
	case RF_MUP_IPv4, RF_MUP_IPv6:
		return c18MUP(r, v6, c)
	}
	return nil
}

func c18EVPN(r *rand.Rand, c *c18NLRICtx) NLRI {
	rd := c18RD(r)
	k := r.IntN(6) // (C18) the I-PMSI route (type 9) is a regular route type of the API converters
	switch k {
	case 0:
		c.tag("evpn-ad")
		return NewEVPNEthernetAutoDiscoveryRoute(rd, c18ESI(r), c18U32(r), c18U24(r))
	case 1:
		c.tag("evpn-macip")
		var ip netip.Addr
		switch r.IntN(3) {
		case 0:
			ip = c18Addr4(r)
		case 1:
			ip = c18Addr6(r)
		}
		labels := []uint32{c18U24(r)}
		if c18Bool(r) {
			labels = append(labels, c18U24(r))
		}
		n, _ := NewEVPNMacIPAdvertisementRoute(rd, c18ESI(r), c18U32(r), c18MAC(r), ip, labels)
		return n
	case 2:
		c.tag("evpn-mcast")
		n, _ := NewEVPNMulticastEthernetTagRoute(rd, c18U32(r), c18Addr(r, c18Bool(r)))
		return n
	case 3:
		c.tag("evpn-es")
		n, _ := NewEVPNEthernetSegmentRoute(rd, c18ESI(r), c18Addr(r, c18Bool(r)))
		return n
	case 4:
		c.tag("evpn-prefix")
		v6 := c18Bool(r)
		p := c18Prefix(r, v6)
		n, _ := NewEVPNIPPrefixRoute(rd, c18ESI(r), c18U32(r), uint8(p.Bits()), p.Addr(), c18Addr(r, v6), c18U24(r))
		return n
	default:
		c.tag("evpn-ipmsi")
		return NewEVPNIPMSIRoute(rd, c18U32(r), c18RouteTarget(r))
	}
}

func c18RTC(r *rand.Rand, c *c18NLRICtx) NLRI {
	switch r.IntN(4) {
	case 0:
		return NewRouteTargetMembershipNLRI(0, nil)
	case 1:
		return NewRouteTargetMembershipNLRI(c18U32(r), nil)
	case 2:
		// a prefix of a route target: 33..95 bits, trailing bits zero
		l := 33 + r.IntN(63)
		rtb, _ := c18RouteTarget(r).Serialize()
		bl := l - 32
		for i := range rtb {
			switch {
			case i*8 >= bl:
				rtb[i] = 0
			case (i+1)*8 > bl:
				mask := 0xff00 >> uint(bl%8)
				rtb[i] &= byte(mask & 0xff)
			}
		}
		rt, err := ParseExtended(rtb)
		if err != nil {
			return NewRouteTargetMembershipNLRI(c18U32(r), c18RouteTarget(r))
		}
		n := NewRouteTargetMembershipNLRI(c18U32(r), rt)
		n.Length = uint8(l)
		c.tag("rtc-partial")
		return n
	default:
		return NewRouteTargetMembershipNLRI(c18U32(r), c18RouteTarget(r))
	}
}

var c18FSNumericTypes = []BGPFlowSpecType{
	FLOW_SPEC_TYPE_IP_PROTO, FLOW_SPEC_TYPE_PORT, FLOW_SPEC_TYPE_DST_PORT, FLOW_SPEC_TYPE_SRC_PORT, FLOW_SPEC_TYPE_ICMP_TYPE,
	FLOW_SPEC_TYPE_ICMP_CODE, FLOW_SPEC_TYPE_TCP_FLAG, FLOW_SPEC_TYPE_PKT_LEN, FLOW_SPEC_TYPE_DSCP, FLOW_SPEC_TYPE_FRAGMENT, FLOW_SPEC_TYPE_LABEL,
}

var c18FSL2Types = []BGPFlowSpecType{
	FLOW_SPEC_TYPE_ETHERNET_TYPE, FLOW_SPEC_TYPE_LLC_DSAP, FLOW_SPEC_TYPE_LLC_SSAP, FLOW_SPEC_TYPE_LLC_CONTROL, FLOW_SPEC_TYPE_SNAP,
	FLOW_SPEC_TYPE_VID, FLOW_SPEC_TYPE_COS, FLOW_SPEC_TYPE_INNER_VID, FLOW_SPEC_TYPE_INNER_COS,
}

func c18FSItems(r *rand.Rand, n int) []*FlowSpecComponentItem {
	items := make([]*FlowSpecComponentItem, 0, n+1)
	for i := 0; i < n; i++ {
		op := uint8(r.IntN(8)) // lt/gt/eq bits
		if c18Chance(r, 3) {
			op |= 0x40 // AND
		}
		var v uint64
		switch r.IntN(5) {
		case 0:
			v = uint64(c18U8(r))
		case 1:
			v = uint64(c18U16(r))
		case 2:
			v = uint64(c18U32(r))
		case 3:
			v = c18U64(r)
		default:
			v = uint64(r.IntN(70000))
		}
		if c18Chance(r, 4) {
			// explicit length bits, value fitting
			order := r.IntN(4)
			op |= uint8(order) << 4
			if order < 3 {
				v &= 1<<(8<<order) - 1
			}
			if order == 0 {
				// (an explicit 1-octet length is indistinguishable from "unset" for the constructor)
				v &= 0xff
			}
		}
		items = append(items, NewFlowSpecComponentItem(op, v))
	}
	return items
}

func c18FlowSpec(r *rand.Rand, f Family, c *c18NLRICtx) NLRI {
	var comps []FlowSpecComponentInterface
	v6 := f.Afi() == AFI_IP6
	l2 := f == RF_FS_L2_VPN
	if !l2 {
		if c18Bool(r) {
			p, _ := NewIPAddrPrefix(c18Prefix(r, v6))
			if v6 {
				comps = append(comps, NewFlowSpecDestinationPrefix6(p, uint8(r.IntN(p.Prefix.Bits()+1))))
			} else {
				comps = append(comps, NewFlowSpecDestinationPrefix(p))
			}
		}
		if c18Bool(r) {
			p, _ := NewIPAddrPrefix(c18Prefix(r, v6))
			if v6 {
				comps = append(comps, NewFlowSpecSourcePrefix6(p, uint8(r.IntN(p.Prefix.Bits()+1))))
			} else {
				comps = append(comps, NewFlowSpecSourcePrefix(p))
			}
		}
	} else {
		if c18Bool(r) {
			mac, _ := net.ParseMAC(c18MAC(r))
			comps = append(comps, NewFlowSpecSourceMac(mac))
		}
		if c18Bool(r) {
			mac, _ := net.ParseMAC(c18MAC(r))
			comps = append(comps, NewFlowSpecDestinationMac(mac))
		}
	}
	types := append([]BGPFlowSpecType{}, c18FSNumericTypes...)
	if l2 {
		types = append(types, c18FSL2Types...)
	}
	r.Shuffle(len(types), func(i, j int) { types[i], types[j] = types[j], types[i] })
	n := c18SmallLen(r, 4)
	if len(comps) == 0 && n == 0 {
		n = 1
	}
	for i := 0; i < n && i < len(types); i++ {
		k := 1 + c18SmallLen(r, 3)
		if c.quirk == "flowspec-long" && c18Chance(r, 3) {
			k = c18Pick(r, 40, 60, 78, 79, 80, 81, 100) // NLRI length around 0xf0 (two-octet length form)
			c.tag("quirk:flowspec-long")
		}
		comps = append(comps, NewFlowSpecComponent(types[i], c18FSItems(r, k)))
	}
	var nlri *FlowSpecNLRI
	switch f {
	case RF_FS_IPv4_UC, RF_FS_IPv6_UC:
		nlri, _ = NewFlowSpecUnicast(f, comps)
	default:
		nlri, _ = NewFlowSpecVPN(f, c18RD(r), comps)
	}
	if nlri == nil {
		return nil
	}
	return nlri
}

func c18LsNodeDesc(r *rand.Rand, t LsTLVType) *LsTLVNodeDescriptor {
	nd := &LsNodeDescriptor{Asn: c18U32(r), BGPLsID: c18U32(r)}
	switch r.IntN(5) {
	case 0:
		nd.IGPRouterID = "0000.0000.0001"
	case 1:
		nd.IGPRouterID = "1921.6800.1003-07"
	case 2:
		nd.IGPRouterID = c18Addr4(r).String()
		nd.OspfAreaID = c18U32(r)
	case 3:
		nd.IGPRouterID = c18Addr4(r).String() + ":" + c18Addr4(r).String()
		nd.OspfAreaID = c18U32(r)
	default:
		if nd.Asn == 0 {
			nd.Asn = 65000
		}
		nd.BGPRouterID = c18Addr4(r)
		if c18Bool(r) {
			nd.BGPConfederationMember = c18U32(r)
		}
	}
	d := NewLsTLVNodeDescriptor(nd, t)
	return &d
}

func c18LsTLVsLen(tlvs []LsTLVInterface) int {
	n := 0
	for _, t := range tlvs {
		n += t.Len()
	}
	return n
}

func c18LsNLRI(r *rand.Rand, c *c18NLRICtx) NLRI {
	proto := LsProtocolID(1 + r.IntN(7))
	id := c18U64(r)
	local := c18LsNodeDesc(r, LS_TLV_LOCAL_NODE_DESC)
	mk := func(t LsNLRIType, l int) LsNLRI {
		return LsNLRI{NLRIType: t, Length: uint16(c18LsNLRIHdrLen + l), ProtocolID: proto, Identifier: id}
	}
	var inner LsNLRIInterface
	var t LsNLRIType
	switch r.IntN(5) {
	case 0:
		c.tag("ls-node")
		t = LS_NLRI_TYPE_NODE
		inner = &LsNodeNLRI{LsNLRI: mk(t, local.Len()), LocalNodeDesc: local}
	case 1:
		c.tag("ls-link")
		t = LS_NLRI_TYPE_LINK
		remote := c18LsNodeDesc(r, LS_TLV_REMOTE_NODE_DESC)
		ld := &LsLinkDescriptor{}
		if c18Bool(r) {
			a, b := c18U32(r), c18U32(r)
			ld.LinkLocalID, ld.LinkRemoteID = &a, &b
		}
		if c18Bool(r) {
			a := c18Addr4(r)
			ld.InterfaceAddrIPv4 = &a
		}
		if c18Bool(r) {
			a := c18Addr4(r)
			ld.NeighborAddrIPv4 = &a
		}
		if c18Chance(r, 3) {
			a := netip.MustParseAddr("2001:db8::1")
			ld.InterfaceAddrIPv6 = &a
		}
		if c18Chance(r, 3) {
			a := netip.MustParseAddr("2001:db8::2")
			ld.NeighborAddrIPv6 = &a
		}
		tlvs := NewLsLinkTLVs(ld)
		inner = &LsLinkNLRI{LsNLRI: mk(t, local.Len()+remote.Len()+c18LsTLVsLen(tlvs)), LocalNodeDesc: local, RemoteNodeDesc: remote, LinkDesc: tlvs}
	case 2, 3:
		v6 := r.IntN(2) == 0
		px := c18Prefix(r, v6)
		for px.Addr().Is4In6() { // (C18) the IPv4-mapped range is not an IPv6 reachability the descriptor can hold
			px = c18Prefix(r, v6)
		}
		pd := &LsPrefixDescriptor{IPReachability: []netip.Prefix{px}}
		if c18Bool(r) {
			pd.OSPFRouteType = LsOspfRouteType(1 + r.IntN(6))
		}
		tlvs := NewLsPrefixTLVs(pd)
		if v6 {
			c.tag("ls-prefix6")
			t = LS_NLRI_TYPE_PREFIX_IPV6
			inner = &LsPrefixV6NLRI{LsNLRI: mk(t, local.Len()+c18LsTLVsLen(tlvs)), LocalNodeDesc: local, PrefixDesc: tlvs}
		} else {
			c.tag("ls-prefix4")
			t = LS_NLRI_TYPE_PREFIX_IPV4
			inner = &LsPrefixV4NLRI{LsNLRI: mk(t, local.Len()+c18LsTLVsLen(tlvs)), LocalNodeDesc: local, PrefixDesc: tlvs}
		}
	default:
		c.tag("ls-srv6sid")
		t = LS_NLRI_TYPE_SRV6_SID
		sid := &LsTLVSrv6SIDInfo{LsTLV: LsTLV{Type: LS_TLV_SRV6_SID_INFO, Length: 16}, SIDs: []netip.Addr{c18Addr6(r)}}
		n := &LsSrv6SIDNLRI{LocalNodeDesc: local, Srv6SIDInfo: sid}
		l := local.Len() + sid.Len()
		if c18Bool(r) {
			ids := []uint16{uint16(r.IntN(4096))}
			if c18Bool(r) {
				ids = append(ids, uint16(r.IntN(4096)))
			}
			mt := &LsTLVMultiTopoID{LsTLV: LsTLV{Type: LS_TLV_MULTI_TOPO_ID, Length: uint16(2 * len(ids))}, MultiTopoIDs: ids}
			n.MultiTopoID = mt
			l += mt.Len()
		}
		n.LsNLRI = mk(t, l)
		inner = n
	}
	return &LsAddrPrefix{Type: t, Length: uint16(inner.Len()), NLRI: inner}
}

func c18MUPTLVs(r *rand.Rand) []MUPTLVInterface {
	var out []MUPTLVInterface
	for i := c18SmallLen(r, 3); i > 0; i-- {
		switch r.IntN(4) {
		case 0:
			out = append(out, NewMUPSessionParametersTLV(c18Addr4(r), c18U8(r)))
		case 1:
			out = append(out, NewMUPInterworkEndpointTLV(c18Addr(r, c18Bool(r))))
		case 2:
			out = append(out, NewMUPSourceAddressTLV(c18Addr(r, c18Bool(r))))
		default:
			out = append(out, NewMUPUnknownTLV(uint8(4+r.IntN(250)), c18Bytes(r, c18SmallLen(r, 12))))
		}
	}
	return out
}

func c18MUP(r *rand.Rand, v6 bool, c *c18NLRICtx) NLRI {
	rd := c18RD(r)
	switch r.IntN(4) {
	case 0:
		c.tag("mup-isd")
		return NewMUPInterworkSegmentDiscoveryRoute(rd, c18Prefix(r, v6))
	case 1:
		c.tag("mup-dsd")
		return NewMUPDirectSegmentDiscoveryRoute(rd, c18Addr(r, v6))
	case 2:
		c.tag("mup-t1st")
		var sa *netip.Addr
		if c18Bool(r) {
			a := c18Addr(r, c18Bool(r))
			sa = &a
		}
		return NewMUPType1SessionTransformedRoute(rd, c18Prefix(r, v6), c18Addr4(r), c18U8(r), c18Addr(r, c18Bool(r)), sa, c18MUPTLVs(r)...)
	default:
		c.tag("mup-t2st")
		ea := c18Addr(r, v6)
		teidBits := c18Pick(r, 0, 8, 16, 24, 32, 32)
		var teid [4]byte
		for i := 0; i < teidBits/8; i++ {
			teid[i] = byte(r.Uint32())
		}
		return NewMUPType2SessionTransformedRoute(rd, uint8(ea.BitLen()+teidBits), ea, netip.AddrFrom4(teid), c18MUPTLVs(r)...)
	}
}

// c18IsNilIface reports a nil interface or an interface holding a nil pointer.
func c18IsNilIface(v any) bool {
	if v == nil {
		return true
	}
	rv := reflect.ValueOf(v)
	switch rv.Kind() {
	case reflect.Pointer, reflect.Slice, reflect.Map, reflect.Interface:
		return rv.IsNil()
	}
	return false
}

// c18NLRIs draws n NLRI (with path ids) of family f.
// The path identifier is only drawn when ADD-PATH is on for the family (it is not on the wire
// otherwise).
func c18NLRIs(r *rand.Rand, f Family, n int, ap bool, c *c18NLRICtx) []PathNLRI {
	out := make([]PathNLRI, 0, n+2)
	for i := 0; i < n; i++ {
		x := c18NLRI(r, f, c)
		if c18IsNilIface(x) {
			continue
		}
		p := PathNLRI{NLRI: x}
		if ap {
			p.ID = c18Pick(r, c18U32(r), 0, 1, uint32(i))
		}
		out = append(out, p)
	}
	return out
}
