package apiutil

// C18 helpers over protobuf reflection: field-presence masks (distinctness keys), the admissible
// representation slack of an "equal API value", and presence-toggling mutations of API messages.

import (
	"fmt"
	"math/rand/v2"
	"regexp"
	"sort"
	"strings"

	"google.golang.org/protobuf/encoding/protojson"
	"google.golang.org/protobuf/proto"
	"google.golang.org/protobuf/reflect/protoreflect"
)

// c18Mask renders which fields of m are populated (field numbers, nested, repeated counts bucketed
// 0/1/2+). nested reports whether any nested element / optional field is present below the oneof
// wrapper of the top message.
func c18Mask(m proto.Message) (mask string, nested bool) {
	var sb strings.Builder
	depthMax := 0
	var walk func(pm protoreflect.Message, depth int)
	walk = func(pm protoreflect.Message, depth int) {
		if depth > depthMax {
			depthMax = depth
		}
		if depth > 6 {
			return
		}
		type fv struct {
			fd protoreflect.FieldDescriptor
			v  protoreflect.Value
		}
		var fs []fv
		pm.Range(func(fd protoreflect.FieldDescriptor, v protoreflect.Value) bool {
			fs = append(fs, fv{fd, v})
			return true
		})
		sort.Slice(fs, func(i, j int) bool { return fs[i].fd.Number() < fs[j].fd.Number() })
		sb.WriteByte('{')
		for _, f := range fs {
			fmt.Fprintf(&sb, "%d", f.fd.Number())
			switch {
			case f.fd.IsList():
				l := f.v.List()
				n := l.Len()
				if n > 2 {
					n = 2
				}
				fmt.Fprintf(&sb, "[%d]", n)
				if f.fd.Kind() == protoreflect.MessageKind && l.Len() > 0 {
					// the kinds of the elements matter (oneof wrappers), the first three are enough
					for i := 0; i < l.Len() && i < 3; i++ {
						walk(l.Get(i).Message(), depth+1)
					}
				}
			case f.fd.IsMap():
				fmt.Fprintf(&sb, "m%d", f.v.Map().Len())
				if f.fd.MapValue().Kind() == protoreflect.MessageKind {
					f.v.Map().Range(func(_ protoreflect.MapKey, v protoreflect.Value) bool {
						walk(v.Message(), depth+1)
						return false
					})
				}
			case f.fd.Kind() == protoreflect.MessageKind:
				walk(f.v.Message(), depth+1)
			}
			sb.WriteByte(',')
		}
		sb.WriteByte('}')
	}
	walk(m.ProtoReflect(), 0)
	s := sb.String()
	// nested: something below "top message -> oneof member": at least three levels, or the member
	// message itself has >= 2 populated fields / a populated repeated field
	return s, depthMax >= 2 || strings.Contains(s, "[1]") || strings.Contains(s, "[2]") || strings.Count(s, ",") >= 3
}

// c18Prune applies the admissible slack "an absent sub-message equals a sub-message with every field
// at its default" to a copy of m: singular, non-oneof message fields that are empty after pruning
// are cleared (recursively). List elements, map values and oneof members keep their presence
// (there it selects a type or a position).
func c18Prune(m proto.Message) proto.Message {
	c := proto.Clone(m)
	var prune func(pm protoreflect.Message) bool // reports "is empty"
	prune = func(pm protoreflect.Message) bool {
		empty := true
		var clear []protoreflect.FieldDescriptor
		pm.Range(func(fd protoreflect.FieldDescriptor, v protoreflect.Value) bool {
			switch {
			case fd.IsList():
				if fd.Kind() == protoreflect.MessageKind {
					l := v.List()
					for i := 0; i < l.Len(); i++ {
						prune(l.Get(i).Message())
					}
				}
				empty = false
			case fd.IsMap():
				if fd.MapValue().Kind() == protoreflect.MessageKind {
					// (a map entry holding an empty message, e.g. "sub-TLVs of type 1: none", equals no entry)
					var drop []protoreflect.MapKey
					v.Map().Range(func(k protoreflect.MapKey, mv protoreflect.Value) bool {
						if prune(mv.Message()) {
							drop = append(drop, k)
						}
						return true
					})
					for _, k := range drop {
						v.Map().Clear(k)
					}
				}
				if v.Map().Len() > 0 {
					empty = false
				}
			case fd.Kind() == protoreflect.MessageKind:
				e := prune(v.Message())
				if e && fd.ContainingOneof() == nil {
					clear = append(clear, fd)
				} else {
					empty = false
				}
			default:
				empty = false
			}
			return true
		})
		for _, fd := range clear {
			pm.Clear(fd)
		}
		return empty
	}
	prune(c.ProtoReflect())
	return c
}

// c18ProtoEqual is proto.Equal modulo the slack of c18Prune.
func c18ProtoEqual(a, b proto.Message) bool {
	if proto.Equal(a, b) {
		return true
	}
	return proto.Equal(c18Prune(a), c18Prune(b))
}

func c18JSON(m proto.Message) string {
	if m == nil {
		return "null"
	}
	b, err := protojson.MarshalOptions{EmitUnpopulated: false}.Marshal(m)
	if err != nil {
		return "protojson: " + err.Error()
	}
	s := string(b)
	if len(s) > 3000 {
		s = s[:3000] + "..."
	}
	return s
}

// c18ProtoDiffs lists the field paths at which b (after) differs from a (before), after pruning,
// with list indices and map keys abstracted (stable key components). Each entry ends in
//   :lost   present before, absent after        :added  absent before, present after
//   :value  scalar changed                      :count  list/map length changed   :key  map key lost
// For BGP-LS NLRI the NLRI kind and the local/remote node are abstracted as well.
func c18ProtoDiffs(a, b proto.Message) []string {
	a, b = c18Prune(a), c18Prune(b)
	var out []string
	var diff func(x, y protoreflect.Message, path string)
	diff = func(x, y protoreflect.Message, path string) {
		if x.Descriptor() != y.Descriptor() {
			out = append(out, path+":type")
			return
		}
		fds := x.Descriptor().Fields()
		for i := 0; i < fds.Len(); i++ {
			fd := fds.Get(i)
			name := path + "." + string(fd.Name())
			hx, hy := x.Has(fd), y.Has(fd)
			if hx != hy {
				switch {
				case !hx:
					out = append(out, name+":added")
				case fd.Kind() == protoreflect.MessageKind && !fd.IsList() && !fd.IsMap() && fd.ContainingOneof() == nil:
					// a whole sub-message went missing: name the populated fields inside it
					n := len(out)
					diff(x.Get(fd).Message(), x.Get(fd).Message().New(), name)
					if len(out) == n {
						out = append(out, name+":lost")
					}
				default:
					out = append(out, name+":lost")
				}
				continue
			}
			if !hx {
				continue
			}
			vx, vy := x.Get(fd), y.Get(fd)
			switch {
			case fd.IsList():
				lx, ly := vx.List(), vy.List()
				if lx.Len() != ly.Len() {
					out = append(out, name+":count")
					continue
				}
				for j := 0; j < lx.Len(); j++ {
					if fd.Kind() == protoreflect.MessageKind {
						diff(lx.Get(j).Message(), ly.Get(j).Message(), name+"[]")
					} else if !lx.Get(j).Equal(ly.Get(j)) {
						out = append(out, name+"[]:value")
						break
					}
				}
			case fd.IsMap():
				mx, my := vx.Map(), vy.Map()
				if mx.Len() != my.Len() {
					out = append(out, name+":count")
					continue
				}
				mx.Range(func(k protoreflect.MapKey, v protoreflect.Value) bool {
					if !my.Has(k) {
						out = append(out, name+":key")
						return false
					}
					if fd.MapValue().Kind() == protoreflect.MessageKind {
						diff(v.Message(), my.Get(k).Message(), name+"{}")
					} else if !v.Equal(my.Get(k)) {
						out = append(out, name+"{}:value")
					}
					return true
				})
			case fd.Kind() == protoreflect.MessageKind:
				diff(vx.Message(), vy.Message(), name)
			default:
				if !vx.Equal(vy) {
					out = append(out, name+":value")
				}
			}
		}
	}
	diff(a.ProtoReflect(), b.ProtoReflect(), "")
	seen := map[string]bool{}
	var res []string
	for _, d := range out {
		d = c18LsKindRe.ReplaceAllString(d, ".ls_addr_prefix.nlri.*.")
		d = c18LsNodeRe.ReplaceAllString(d, ".*_node.")
		if !seen[d] {
			seen[d] = true
			res = append(res, d)
		}
	}
	sort.Strings(res)
	return res
}

var c18LsKindRe = regexp.MustCompile(`\.ls_addr_prefix\.nlri\.(node|link|prefix_v4|prefix_v6|srv6_sid)\.`)
var c18LsNodeRe = regexp.MustCompile(`\.(local|remote)_node\.`)

// c18LossDiffs splits the differences into losses/changes (violations of "an equal API value") and
// default fills (a field the original left unset comes back populated: admissible, counted).
func c18LossDiffs(a, b proto.Message) (loss, filled []string) {
	for _, d := range c18ProtoDiffs(a, b) {
		if strings.HasSuffix(d, ":added") {
			filled = append(filled, d)
		} else {
			loss = append(loss, d)
		}
	}
	return
}

// c18RequiredLists: lists a message cannot do without (the TLV is made of them).
var c18RequiredLists = map[string]bool{"LsSrv6EndXSID.sids": true}

// c18EmptiableStrings: string/bytes fields that are optional by themselves (emptying any other
// string makes the message incoherent or plainly invalid, which is not what C18 is about).
var c18EmptiableStrings = map[string]bool{
	"EVPNMACIPAdvertisementRoute.ip_address": true,
	"LsLinkDescriptor.interface_addr_ipv4": true, "LsLinkDescriptor.neighbor_addr_ipv4": true, "LsLinkDescriptor.interface_addr_ipv6": true, "LsLinkDescriptor.neighbor_addr_ipv6": true,
	"LsAttributeNode.name": true, "LsAttributeNode.local_router_id": true, "LsAttributeNode.local_router_id_v6": true, "LsAttributeNode.isis_area": true, "LsAttributeNode.opaque": true, "LsAttributeNode.sr_algorithms": true,
	"LsAttributeLink.name": true, "LsAttributeLink.local_router_id": true, "LsAttributeLink.local_router_id_v6": true, "LsAttributeLink.remote_router_id": true, "LsAttributeLink.remote_router_id_v6": true, "LsAttributeLink.opaque": true,
	"LsAttributePrefix.opaque": true, "FqdnCapability.host_name": true, "FqdnCapability.domain_name": true, "UnknownCapability.value": true, "UnknownAttribute.value": true,
	"OpaqueNLRI.key": true, "OpaqueNLRI.value": true, "SRBindingSID.sid": true, "TunnelEncapSubTLVEncapsulation.cookie": true, "TunnelEncapSubTLVSRCandidatePathName.candidate_path_name": true,
	"TunnelEncapSubTLVUnknown.value": true, "AigpTLVUnknown.value": true, "PmsiTunnelAttribute.id": true, "MUPUnknownTLV.value": true,
}

// c18Toggle applies 1-2 presence toggles to a copy of m: clear a populated message field, clear a
// populated repeated/map field, empty a string/bytes field, or set an absent singular message
// field to an empty message. It returns the copy and a description of what was toggled (field
// names only: a stable class). Values of scalar numeric fields are never touched (they stay
// canonical and in range).
func c18Toggle(r *rand.Rand, m proto.Message) (proto.Message, string) {
	c := proto.Clone(m)
	type site struct {
		pm   protoreflect.Message
		fd   protoreflect.FieldDescriptor
		kind string
	}
	var sites []site
	var walk func(pm protoreflect.Message, depth int)
	walk = func(pm protoreflect.Message, depth int) {
		if depth > 8 {
			return
		}
		fds := pm.Descriptor().Fields()
		for i := 0; i < fds.Len(); i++ {
			fd := fds.Get(i)
			has := pm.Has(fd)
			switch {
			case fd.IsList():
				if has {
					if !c18RequiredLists[string(pm.Descriptor().Name())+"."+string(fd.Name())] {
						sites = append(sites, site{pm, fd, "clear-list"})
					}
					if fd.Kind() == protoreflect.MessageKind {
						l := pm.Get(fd).List()
						for j := 0; j < l.Len(); j++ {
							walk(l.Get(j).Message(), depth+1)
						}
					}
				}
			case fd.IsMap():
				if has {
					sites = append(sites, site{pm, fd, "clear-map"})
					if fd.MapValue().Kind() == protoreflect.MessageKind {
						pm.Get(fd).Map().Range(func(_ protoreflect.MapKey, v protoreflect.Value) bool {
							walk(v.Message(), depth+1)
							return true
						})
					}
				}
			case fd.Kind() == protoreflect.MessageKind:
				if has {
					if depth > 0 || fd.ContainingOneof() == nil {
						sites = append(sites, site{pm, fd, "clear-msg"})
					}
					walk(pm.Get(fd).Message(), depth+1)
				} else if fd.ContainingOneof() == nil && fd.Message().Name() != "Family" {
					sites = append(sites, site{pm, fd, "empty-msg"}) // (an all-zero address family is not an optional-field case)
				}
			case fd.Kind() == protoreflect.StringKind || fd.Kind() == protoreflect.BytesKind:
				if has && c18EmptiableStrings[string(pm.Descriptor().Name())+"."+string(fd.Name())] {
					sites = append(sites, site{pm, fd, "empty-str"})
				}
			}
		}
	}
	walk(c.ProtoReflect(), 0)
	if len(sites) == 0 {
		return c, "none"
	}
	var desc []string
	n := 1 + r.IntN(2)
	for i := 0; i < n; i++ {
		s := sites[r.IntN(len(sites))]
		switch s.kind {
		case "empty-msg":
			s.pm.Set(s.fd, protoreflect.ValueOfMessage(s.pm.NewField(s.fd).Message()))
		default:
			s.pm.Clear(s.fd)
		}
		desc = append(desc, s.kind+":"+string(s.pm.Descriptor().Name())+"."+string(s.fd.Name()))
		if i == 0 && n == 2 {
			// the second toggle must not dangle inside a cleared subtree: recompute the sites
			sites = sites[:0]
			walk(c.ProtoReflect(), 0)
			if len(sites) == 0 {
				break
			}
		}
	}
	sort.Strings(desc)
	return c, strings.Join(desc, "+")
}
