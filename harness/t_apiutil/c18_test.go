package apiutil

// C18 (unit apiutil) — API and native representations convert losslessly in both directions.
//
// Oracles (none of them re-uses the converter under test to produce the expectation):
//   (a) native -> API -> native: the result re-serialises to the wire bytes of the original under the
//       same MarshallingOption; Len and String agree as well;
//   (b) API -> native -> API: the result is proto.Equal to the original API message, modulo
//       "absent sub-message == sub-message with every field at its default" (c18Prune); the native
//       value in the middle additionally has to pass (a);
//   (c) no converter panics.
// API messages come from converting generated native values and from presence toggles on those
// (clear a sub-message / list / string, add an empty sub-message) and a few hand-built messages of
// kinds Marshal* never emits. A toggled message the converters reject is not a case (counted).

import (
	"bytes"
	"encoding/hex"
	"fmt"
	"math/rand/v2"
	"net/netip"
	"regexp"
	"sort"
	"strings"
	"testing"
	"time"

	"google.golang.org/protobuf/proto"

	"github.com/osrg/gobgp/v4/api"
	"github.com/osrg/gobgp/v4/internal/verif/vlib"
	"github.com/osrg/gobgp/v4/pkg/packet/bgp"
)

type c18Ctx struct {
	rec *vlib.Rec
	r   *rand.Rand
	idx int
}

// reportDiffs compares an API message before/after API->native->API: every lost or changed field
// is one violation keyed by its (abstracted) field path; fields that come back default-filled
// although the original left them unset are admissible and counted. Differences inside the NLRI
// list of MP_REACH/MP_UNREACH are keyed like NLRI-level differences. It returns true on a loss.
func (c *c18Ctx) reportDiffs(level string, before, after proto.Message, made string) bool {
	if c18ProtoEqual(before, after) {
		return false
	}
	loss, filled := c18LossDiffs(before, after)
	for _, d := range filled {
		c.rec.Count("api_default_filled:"+d, 1)
	}
	for _, d := range loss {
		lv, path := level, d
		for _, pre := range []string{".mp_reach.nlris[]", ".mp_unreach.nlris[]"} {
			if strings.HasPrefix(d, pre+".") {
				lv, path = "nlri", strings.TrimPrefix(d, pre)
			}
		}
		c.rec.Violation("c18:"+lv+":a2n2a:"+path, fmt.Sprintf("API->native->API: %s (message made by: %s)", d, made),
			map[string]any{"case": c.idx, "api": c18JSON(before), "api_after": c18JSON(after), "made_by": made})
	}
	return len(loss) > 0
}

func (c *c18Ctx) hit(fn string) { c.rec.Count("fn:"+fn, 1) }

// error texts of the default branches of the Marshal* type switches: the converter says that it
// does not support this Go type
var c18UnsupportedRe = regexp.MustCompile(`^(unsupported extended community|invalid [a-z0-9 ]*type to marshal|invalid ipv6 extended community|invalid prefix sid( sub){0,2} tlv type to marshal|invalid rd type to marshal|invalid rt type to marshal|invalid capability type to marshal|invalid nlri type to marshal|invalid mup tlv type to marshal)`)

func c18Hex(b []byte) string {
	if len(b) > 600 {
		return hex.EncodeToString(b[:600]) + fmt.Sprintf("...(%d octets)", len(b))
	}
	return hex.EncodeToString(b)
}

// c18Ser runs a Serialize call and turns a panic into an error.
func c18Ser(f func() ([]byte, error)) (b []byte, err error) {
	defer func() {
		if e := recover(); e != nil {
			b, err = nil, fmt.Errorf("panic in Serialize/Len/String: %v", e)
		}
	}()
	return f()
}

func c18T(v any) string { return strings.TrimPrefix(fmt.Sprintf("%T", v), "*bgp.") }

func c18OptKey(o *c18OptSet) string { return o.Key }

// c18DrawOpts returns (generation options, serialisation options): the same AS width; ADD-PATH
// only for serialisation (the API attribute messages carry no per-NLRI path identifier, the
// identifier of a route lives in api.Path.identifier and is checked at path level).
func c18DrawOpts(r *rand.Rand) (*c18OptSet, *c18OptSet) {
	// 2-octet AS encodings (AsPathParam, 2-octet AGGREGATOR) are a per-session re-encoding (C14), the API
	// carries AS numbers only: 4-octet forms are generated
	as2 := false
	ap := map[bgp.Family]bool{}
	switch r.IntN(4) {
	case 0:
		for _, f := range c18Families {
			ap[f] = true
		}
	case 1:
		for _, f := range c18Families {
			if c18Chance(r, 3) {
				ap[f] = true
			}
		}
	}
	return c18MakeOptSet(map[bgp.Family]bool{}, as2, false, false, false), c18MakeOptSet(ap, as2, false, false, false)
}

// ---------------------------------------------------------------- path attributes

var c18AttrTypes = append(append([]bgp.BGPAttrType{}, c18SimpleAttrTypes...), bgp.BGP_ATTR_TYPE_MP_REACH_NLRI, bgp.BGP_ATTR_TYPE_MP_REACH_NLRI, bgp.BGP_ATTR_TYPE_MP_REACH_NLRI, bgp.BGP_ATTR_TYPE_MP_UNREACH_NLRI)

func c18GenAttr(r *rand.Rand, gen *c18OptSet) (bgp.PathAttributeInterface, []string) {
	var tags []string
	ac := &c18AttrCtx{o: gen, big: c18Chance(r, 12), quirk: c18Pick(r, "", "", "mcast-flags-none-or-both", "ls-sr-ranges", "evpn-ipmsi", "flowspec-long", "encap-empty-tlv"), tags: &tags}
	t := c18AttrTypes[r.IntN(len(c18AttrTypes))]
	var a bgp.PathAttributeInterface
	switch t {
	case bgp.BGP_ATTR_TYPE_MP_REACH_NLRI:
		ac.big = false
		a = c18MpReach(r, c18Family(r), ac)
	case bgp.BGP_ATTR_TYPE_MP_UNREACH_NLRI:
		ac.big = false
		a = c18MpUnreach(r, c18Family(r), ac)
	default:
		a = c18Attr(r, t, ac)
	}
	if c18IsNilIface(a) {
		return nil, nil
	}
	return a, tags
}

// c18AttrWire serialises one attribute and reports Len and String next to the bytes.
func c18AttrWire(a bgp.PathAttributeInterface, o *c18OptSet) (w []byte, l int, s string, err error) {
	defer func() {
		if e := recover(); e != nil {
			err = fmt.Errorf("panic in Serialize/Len/String: %v", e)
		}
	}()
	w, err = a.Serialize(o.Ser...)
	if err != nil {
		return nil, 0, "", err
	}
	return w, a.Len(o.Ser...), a.String(), nil
}

// c18TLVs splits a value made of (type, length, value) records into a multiset rendering
// "type:hex(value)"; tw/lw are the widths of the type and length fields.
func c18TLVs(b []byte, tw, lw int) (map[string]int, bool) {
	out := map[string]int{}
	for len(b) > 0 {
		if len(b) < tw+lw {
			return out, false
		}
		t, l := 0, 0
		for i := 0; i < tw; i++ {
			t = t<<8 | int(b[i])
		}
		for i := 0; i < lw; i++ {
			l = l<<8 | int(b[tw+i])
		}
		if len(b) < tw+lw+l {
			return out, false
		}
		out[fmt.Sprintf("%d:%x", t, b[tw+lw:tw+lw+l])]++
		b = b[tw+lw+l:]
	}
	return out, true
}

func c18AttrValue(w []byte) []byte {
	if len(w) < 3 {
		return nil
	}
	if w[0]&0x10 != 0 {
		if len(w) < 4 {
			return nil
		}
		return w[4:]
	}
	return w[3:]
}

// c18TLVDiff names the TLV types that differ between two TLV-structured values: "tlv<type>:lost",
// ":added" or ":changed" (a type present on both sides with different content), sorted.
func c18TLVDiff(v0, v1 []byte, tw, lw int) string {
	m0, ok0 := c18TLVs(v0, tw, lw)
	m1, ok1 := c18TLVs(v1, tw, lw)
	if !ok0 || !ok1 {
		return "tlv-framing"
	}
	types := func(m map[string]int) map[string]int {
		o := map[string]int{}
		for k, n := range m {
			o[k[:strings.Index(k, ":")]] += n
		}
		return o
	}
	d := map[string]bool{}
	t0, t1 := types(m0), types(m1)
	for t, n := range t0 {
		switch {
		case t1[t] < n:
			d["tlv"+t+":lost"] = true
		case t1[t] > n:
			d["tlv"+t+":added"] = true
		}
	}
	for t := range t1 {
		if t0[t] == 0 {
			d["tlv"+t+":added"] = true
		}
	}
	if len(d) == 0 {
		for k, n := range m0 {
			if m1[k] != n {
				d["tlv"+k[:strings.Index(k, ":")]+":changed"] = true
			}
		}
	}
	if len(d) == 0 {
		return "tlv-order"
	}
	var ks []string
	for k := range d {
		ks = append(ks, k)
	}
	sort.Strings(ks)
	return strings.Join(ks, "+")
}

// c18AttrDiffClass narrows a wire mismatch of attribute n0 (original) vs n1 (after the round
// trip) to the element that differs: the Go type of the first differing extended community /
// sub-TLV / TLV / NLRI, or the TLV type numbers for the BGP-LS attribute.
func c18AttrDiffClass(n0, n1 bgp.PathAttributeInterface, w0, w1 []byte, o *c18OptSet) string {
	switch a0 := n0.(type) {
	case *bgp.PathAttributeExtendedCommunities:
		if a1, ok := n1.(*bgp.PathAttributeExtendedCommunities); ok {
			if len(a0.Value) != len(a1.Value) {
				return "count"
			}
			for i := range a0.Value {
				b0, _ := a0.Value[i].Serialize()
				b1, _ := a1.Value[i].Serialize()
				if !bytes.Equal(b0, b1) {
					return c18T(a0.Value[i])
				}
			}
		}
	case *bgp.PathAttributeIP6ExtendedCommunities:
		if a1, ok := n1.(*bgp.PathAttributeIP6ExtendedCommunities); ok {
			if len(a0.Value) != len(a1.Value) {
				return "count"
			}
			for i := range a0.Value {
				b0, _ := a0.Value[i].Serialize()
				b1, _ := a1.Value[i].Serialize()
				if !bytes.Equal(b0, b1) {
					return c18T(a0.Value[i])
				}
			}
		}
	case *bgp.PathAttributeTunnelEncap:
		if a1, ok := n1.(*bgp.PathAttributeTunnelEncap); ok {
			if len(a0.Value) != len(a1.Value) {
				return "tlv-count"
			}
			for i := range a0.Value {
				if a0.Value[i].Type != a1.Value[i].Type {
					return "tunnel-type"
				}
				if len(a0.Value[i].Value) != len(a1.Value[i].Value) {
					return "subtlv-count"
				}
				for j := range a0.Value[i].Value {
					b0, _ := a0.Value[i].Value[j].Serialize()
					b1, _ := a1.Value[i].Value[j].Serialize()
					if !bytes.Equal(b0, b1) {
						return c18T(a0.Value[i].Value[j])
					}
				}
			}
		}
	case *bgp.PathAttributeAigp:
		if a1, ok := n1.(*bgp.PathAttributeAigp); ok {
			if len(a0.Values) != len(a1.Values) {
				return "count"
			}
			for i := range a0.Values {
				b0, _ := a0.Values[i].Serialize()
				b1, _ := a1.Values[i].Serialize()
				if !bytes.Equal(b0, b1) {
					return c18T(a0.Values[i])
				}
			}
		}
	case *bgp.PathAttributeLs:
		return c18TLVDiff(c18AttrValue(w0), c18AttrValue(w1), 2, 2)
	case *bgp.PathAttributePrefixSID:
		if a1, ok := n1.(*bgp.PathAttributePrefixSID); ok {
			if len(a0.TLVs) != len(a1.TLVs) {
				return "tlv-count"
			}
			return c18TLVDiff(c18AttrValue(w0), c18AttrValue(w1), 1, 2)
		}
	case *bgp.PathAttributeMpReachNLRI:
		if a1, ok := n1.(*bgp.PathAttributeMpReachNLRI); ok {
			if a0.AFI != a1.AFI || a0.SAFI != a1.SAFI {
				return "family"
			}
			if len(a0.Value) != len(a1.Value) {
				return "nlri-count"
			}
			for i := range a0.Value {
				b0, _ := a0.Value[i].NLRI.Serialize(o.Ser...)
				b1, _ := a1.Value[i].NLRI.Serialize(o.Ser...)
				if !bytes.Equal(b0, b1) {
					return "nlri:" + c18NLRIType(a0.Value[i].NLRI)
				}
			}
			return "nexthop:" + c18NexthopClass(a0)
		}
	case *bgp.PathAttributeMpUnreachNLRI:
		if a1, ok := n1.(*bgp.PathAttributeMpUnreachNLRI); ok {
			if a0.AFI != a1.AFI || a0.SAFI != a1.SAFI {
				return "family"
			}
			if len(a0.Value) != len(a1.Value) {
				return "nlri-count"
			}
			for i := range a0.Value {
				b0, _ := a0.Value[i].NLRI.Serialize(o.Ser...)
				b1, _ := a1.Value[i].NLRI.Serialize(o.Ser...)
				if !bytes.Equal(b0, b1) {
					return "nlri:" + c18NLRIType(a0.Value[i].NLRI)
				}
			}
		}
	}
	if len(w0) != len(w1) {
		return "length"
	}
	return "value"
}

func c18NexthopClass(a *bgp.PathAttributeMpReachNLRI) string {
	s := "afi-other"
	if a.AFI == bgp.AFI_IP6 {
		s = "afi-ipv6"
	}
	switch {
	case !a.Nexthop.IsValid():
		s += ":none"
	case a.Nexthop.Is4():
		s += ":v4"
	case a.Nexthop.Is4In6():
		s += ":v4mapped"
	default:
		s += ":v6"
	}
	if a.LinkLocalNexthop.IsValid() {
		s += "-ll"
	}
	return s
}

// c18NLRIType names an NLRI by its Go type and, for the container types, the route type inside.
func c18NLRIType(n bgp.NLRI) string {
	switch v := n.(type) {
	case *bgp.EVPNNLRI:
		return "EVPNNLRI/" + c18T(v.RouteTypeData)
	case *bgp.MUPNLRI:
		return "MUPNLRI/" + c18T(v.RouteTypeData)
	case *bgp.LsAddrPrefix:
		return "LsAddrPrefix/" + c18T(v.NLRI)
	}
	return c18T(n)
}

// c18AttrElemTypes lists the element kinds inside a composite attribute (coverage counters).
func c18AttrElemTypes(a bgp.PathAttributeInterface) []string {
	var out []string
	switch v := a.(type) {
	case *bgp.PathAttributeExtendedCommunities:
		for _, e := range v.Value {
			out = append(out, "ec:"+c18T(e))
		}
	case *bgp.PathAttributeIP6ExtendedCommunities:
		for _, e := range v.Value {
			out = append(out, "ec6:"+c18T(e))
		}
	case *bgp.PathAttributeTunnelEncap:
		for _, t := range v.Value {
			for _, s := range t.Value {
				out = append(out, "encap:"+c18T(s))
			}
		}
	case *bgp.PathAttributeAigp:
		for _, e := range v.Values {
			out = append(out, "aigp:"+c18T(e))
		}
	case *bgp.PathAttributePrefixSID:
		for _, e := range v.TLVs {
			out = append(out, "psid:"+c18T(e))
		}
	case *bgp.PathAttributeMpReachNLRI:
		for _, e := range v.Value {
			out = append(out, "nlri:"+c18NLRIType(e.NLRI))
		}
	case *bgp.PathAttributeMpUnreachNLRI:
		for _, e := range v.Value {
			out = append(out, "nlri:"+c18NLRIType(e.NLRI))
		}
	case *bgp.PathAttributeAsPath:
		for _, e := range v.Value {
			out = append(out, "aspath:"+c18T(e))
		}
	}
	return out
}

// c18AttrRT runs oracle (a)+(b)+(c) on one native attribute. origin: "gen" (generator) or
// "api" (native value obtained from an accepted API message). It returns the API form.
func c18AttrRT(c *c18Ctx, n0 bgp.PathAttributeInterface, o *c18OptSet, origin string) *api.Attribute {
	typ := c18T(n0)
	wit := func() any {
		w, _ := n0.Serialize(o.Ser...)
		return map[string]any{"case": c.idx, "attr_type": typ, "wire": c18Hex(w), "options": o.Key, "origin": origin}
	}
	w0, l0, s0, err := c18AttrWire(n0, o)
	if err != nil {
		c.rec.Count("skipped_unserialisable:"+typ, 1)
		return nil
	}
	var a1s []*api.Attribute
	c.hit("MarshalPathAttributes")
	if c.rec.Guard("c18:n2a", wit, func() { a1s, err = MarshalPathAttributes([]bgp.PathAttributeInterface{n0}) }) {
		return nil
	}
	if err != nil {
		if c18UnsupportedRe.MatchString(err.Error()) {
			c.rec.Count("documented_unsupported:"+typ, 1)
			return nil
		}
		c.rec.Violation("c18:attr:marshal-error:"+typ, fmt.Sprintf("MarshalPathAttributes(%s %s) = error %q for a supported type", typ, s0, err),
			map[string]any{"case": c.idx, "wire": c18Hex(w0), "string": s0, "error": err.Error()})
		return nil
	}
	if len(a1s) != 1 || a1s[0] == nil {
		c.rec.Violation("c18:attr:marshal-count:"+typ, fmt.Sprintf("MarshalPathAttributes of one %s returned %d messages", typ, len(a1s)), wit())
		return nil
	}
	a1 := a1s[0]
	c.rec.Eval()
	c.rec.Count("attr:"+typ, 1)
	for _, e := range c18AttrElemTypes(n0) {
		c.rec.Count("elem:"+e, 1)
	}
	mask, nested := c18Mask(a1)
	if nested {
		c.rec.Nontrivial("attr:" + typ + ":" + mask)
	}
	if a1.Attr == nil {
		c.rec.Violation("c18:attr:n2a:empty-message:"+typ, fmt.Sprintf("MarshalPathAttributes(%s %s) returned an api.Attribute without content and no error", typ, s0),
			map[string]any{"case": c.idx, "wire": c18Hex(w0), "string": s0})
		return nil
	}
	var n1 bgp.PathAttributeInterface
	c.hit("UnmarshalAttribute")
	if c.rec.Guard("c18:a2n", func() any { return map[string]any{"case": c.idx, "api": c18JSON(a1), "origin": origin} }, func() { n1, err = UnmarshalAttribute(a1) }) {
		return a1
	}
	if err != nil || c18IsNilIface(n1) {
		cls := c18ElemOfError(n0, a1)
		if strings.HasPrefix(cls, "nlri-empty:") {
			c.rec.Count("mp_with_empty_nlri_message", 1) // reported by the NLRI cases (c18:nlri:n2a:empty-message:...)
			return a1
		}
		c.rec.Violation("c18:attr:a2n-rejects-own-output:"+typ+":"+cls, fmt.Sprintf("UnmarshalAttribute rejects what MarshalPathAttributes produced for %s %s: %v", typ, s0, err),
			map[string]any{"case": c.idx, "wire": c18Hex(w0), "string": s0, "api": c18JSON(a1), "error": fmt.Sprint(err), "origin": origin})
		return a1
	}
	w1, l1, s1, err := c18AttrWire(n1, o)
	switch {
	case err != nil:
		c.rec.Violation("c18:attr:n2a2n:unserialisable:"+typ, fmt.Sprintf("%s %s: after native->API->native Serialize fails: %v", typ, s0, err),
			map[string]any{"case": c.idx, "wire": c18Hex(w0), "api": c18JSON(a1), "options": o.Key})
	case !bytes.Equal(w0, w1):
		for _, cls := range strings.Split(c18AttrDiffClass(n0, n1, w0, w1, o), "+") { // (one key per differing TLV type)
			if typ == "PathAttributeLs" && cls == "tlv-order" {
				// the same TLVs in another order: the order of the TLVs of a BGP-LS attribute carries no
				// meaning (RFC 7752 3.3) and the API groups them by kind, so it cannot be kept
				c.rec.Count("ls_attribute_tlvs_reordered", 1)
				continue
			}
			if strings.HasPrefix(cls, "nlri:") {
				c.rec.Count("mp_nlri_differs:"+cls, 1) // reported by the NLRI cases (c18:nlri:n2a2n:wire:...)
				continue
			}
			c.rec.Violation("c18:attr:n2a2n:wire:"+typ+":"+cls, fmt.Sprintf("%s: native->API->native re-serialises differently (%s): %s -> %s", typ, cls, s0, s1),
				map[string]any{"case": c.idx, "wire": c18Hex(w0), "wire_after": c18Hex(w1), "string": s0, "string_after": s1, "api": c18JSON(a1), "options": o.Key, "origin": origin})
		}
	case l0 == len(w0) && l1 != len(w1): // (Len reads cached header fields: only a self-consistent original is a reference)
		c.rec.Violation("c18:attr:n2a2n:len:"+typ, fmt.Sprintf("%s: Len() = %d = serialised size before, Len() = %d but serialised size %d after the round trip", typ, l0, l1, len(w1)), wit())
	case s0 != s1 && typ != "PathAttributePrefixSID": // (two Go types render the same L3 service TLV differently)
		c.rec.Violation("c18:attr:n2a2n:string:"+typ, fmt.Sprintf("%s: String %q before, %q after the round trip (same wire bytes)", typ, s0, s1), wit())
	}
	// (b) API -> native -> API on the converter's own output
	var a2s []*api.Attribute
	if c.rec.Guard("c18:n2a", wit, func() { a2s, err = MarshalPathAttributes([]bgp.PathAttributeInterface{n1}) }) {
		return a1
	}
	if err != nil || len(a2s) != 1 {
		c.rec.Violation("c18:attr:a2n2a:marshal-error:"+typ, fmt.Sprintf("%s: API->native->API fails: %v", typ, err), map[string]any{"case": c.idx, "api": c18JSON(a1)})
		return a1
	}
	c.reportDiffs("attr", a1, a2s[0], origin)
	return a1
}

// c18ElemOfError narrows "Unmarshal rejects Marshal's output" to the element without content.
func c18ElemOfError(n0 bgp.PathAttributeInterface, a1 *api.Attribute) string {
	switch v := n0.(type) {
	case *bgp.PathAttributeTunnelEncap:
		te := a1.GetTunnelEncap()
		for i, t := range v.Value {
			for j, s := range t.Value {
				if te != nil && i < len(te.Tlvs) && j < len(te.Tlvs[i].Tlvs) && te.Tlvs[i].Tlvs[j].Tlv == nil {
					return c18T(s)
				}
			}
		}
	case *bgp.PathAttributeAigp:
		ag := a1.GetAigp()
		for i, t := range v.Values {
			if ag != nil && i < len(ag.Tlvs) && ag.Tlvs[i].Tlv == nil {
				return c18T(t)
			}
		}
	case *bgp.PathAttributePrefixSID:
		ps := a1.GetPrefixSid()
		for i, t := range v.TLVs {
			if ps != nil && i < len(ps.Tlvs) {
				if ps.Tlvs[i].Tlv == nil {
					return c18T(t) + ":empty"
				}
				if ps.Tlvs[i].GetL2Service() != nil {
					return c18T(t) + ":l2service"
				}
			}
		}
	case *bgp.PathAttributeMpReachNLRI:
		mp := a1.GetMpReach()
		for i, e := range v.Value {
			if mp != nil && i < len(mp.Nlris) && mp.Nlris[i].Nlri == nil {
				return "nlri-empty:" + c18NLRIType(e.NLRI)
			}
		}
		return "nexthop:" + c18NexthopClass(v)
	case *bgp.PathAttributeMpUnreachNLRI:
		mp := a1.GetMpUnreach()
		if len(v.Value) == 0 {
			return "no-nlri"
		}
		for i, e := range v.Value {
			if mp != nil && i < len(mp.Nlris) && mp.Nlris[i].Nlri == nil {
				return "nlri-empty:" + c18NLRIType(e.NLRI)
			}
		}
		for _, e := range v.Value {
			return "nlri:" + c18NLRIType(e.NLRI)
		}
	}
	return "-"
}

// c18AttrFromAPI runs oracle (b) on an API message a0 that did not come straight out of Marshal*.
// class names how a0 was made (toggle description / hand-built kind).
func c18AttrFromAPI(c *c18Ctx, a0 *api.Attribute, o *c18OptSet, class string) {
	var n1 bgp.PathAttributeInterface
	var err error
	c.hit("UnmarshalAttribute")
	wit := func() any { return map[string]any{"case": c.idx, "api": c18JSON(a0), "made_by": class} }
	kind := "nil"
	if a0.Attr != nil {
		kind = strings.TrimPrefix(fmt.Sprintf("%T", a0.Attr), "*api.Attribute_")
	}
	if c.rec.Guard("c18:a2n", wit, func() { n1, err = UnmarshalAttribute(a0) }) {
		return
	}
	if err != nil || c18IsNilIface(n1) {
		c.rec.Count("api_rejected:"+kind, 1)
		return
	}
	c.rec.Count("api_accepted:"+kind, 1)
	c.rec.Count("api_accepted", 1)
	if _, _, _, err := c18AttrWire(n1, o); err != nil {
		// accepted, but not a value the codec can put on the wire: outside "converts to the native form";
		// a panic instead of an error is reported
		if strings.HasPrefix(err.Error(), "panic") {
			c.rec.Violation("c18:attr:api:accepted-value-panics:"+kind, fmt.Sprintf("UnmarshalAttribute accepts an api.Attribute (%s, %s) whose native form makes Serialize/Len/String panic: %v", kind, class, err), wit())
		}
		if strings.HasPrefix(class, "hand:") { // (a message that is valid by construction)
			c.rec.Violation("c18:attr:api:accepted-value-unserialisable:"+kind, fmt.Sprintf("UnmarshalAttribute accepts a well-formed api.Attribute (%s, %s) but Serialize of its native form fails: %v", kind, class, err), wit())
		}
		c.rec.Count("api_accepted_unserialisable:"+kind, 1)
		return
	}
	c.rec.Eval()
	mask, nested := c18Mask(a0)
	if nested {
		c.rec.Nontrivial("api:" + kind + ":" + mask)
	}
	var a1s []*api.Attribute
	if c.rec.Guard("c18:n2a", wit, func() { a1s, err = MarshalPathAttributes([]bgp.PathAttributeInterface{n1}) }) {
		return
	}
	if err != nil || len(a1s) != 1 {
		c.rec.Violation("c18:attr:api:a2n2a:marshal-error:"+kind, fmt.Sprintf("accepted api.Attribute (%s) cannot be converted back: %v", kind, err), wit())
		return
	}
	if c.reportDiffs("attr", a0, a1s[0], class) {
		return
	}
	// the native value in the middle has to survive its own round trip as well
	c18AttrRT(c, n1, o, "api")
}

func c18AttrCase(c *c18Ctx) {
	gen, ser := c18DrawOpts(c.r)
	n0, _ := c18GenAttr(c.r, gen)
	if n0 == nil {
		c.rec.Count("gen_failed_attr", 1)
		return
	}
	c.rec.Mark(fmt.Sprintf("attr case %d %s", c.idx, c18T(n0)), false)
	a1 := c18AttrRT(c, n0, ser, "gen")
	if a1 != nil && a1.Attr != nil && c.r.IntN(2) == 0 {
		a0, class := c18Toggle(c.r, a1)
		if class != "none" {
			c18AttrFromAPI(c, a0.(*api.Attribute), ser, class)
		}
	}
	if c.idx%4999 == 0 {
		c.rec.Sample(map[string]any{"case": c.idx, "kind": "attribute", "type": c18T(n0), "string": n0.String(), "api": c18JSON(a1)})
	}
}

// c18AttrListCase: a whole attribute list through MarshalPathAttributes/UnmarshalPathAttributes
// and through api.Path (NewPath, GetNativeNlri, GetNativePathAttributes incl. the binary forms).
func c18AttrListCase(c *c18Ctx) {
	gen, ser := c18DrawOpts(c.r)
	fam := c18Family(c.r)
	var tags []string
	nc := &c18NLRICtx{tags: &tags}
	nlri := c18NLRI(c.r, fam, nc)
	if c18IsNilIface(nlri) {
		c.rec.Count("gen_failed_nlri", 1)
		return
	}
	seen := map[bgp.BGPAttrType]bool{}
	var attrs []bgp.PathAttributeInterface
	for i := 1 + c.r.IntN(6); i > 0; i-- {
		a, _ := c18GenAttr(c.r, gen)
		if a == nil || seen[a.GetType()] {
			continue
		}
		if _, err := a.Serialize(ser.Ser...); err != nil {
			continue
		}
		seen[a.GetType()] = true
		attrs = append(attrs, a)
	}
	if len(attrs) == 0 {
		return
	}
	c.rec.Mark(fmt.Sprintf("attr-list case %d", c.idx), false)
	wire := func(l []bgp.PathAttributeInterface) string {
		var sb strings.Builder
		for _, a := range l {
			b, err := c18Ser(func() ([]byte, error) { return a.Serialize(ser.Ser...) })
			if err != nil {
				sb.WriteString("!" + err.Error())
			}
			sb.WriteString(hex.EncodeToString(b))
			sb.WriteByte('|')
		}
		return sb.String()
	}
	wit := func() any {
		return map[string]any{"case": c.idx, "family": fam.String(), "nlri": nlri.String(), "attrs_wire": wire(attrs), "options": ser.Key}
	}
	var as []*api.Attribute
	var err error
	c.hit("MarshalPathAttributes")
	if c.rec.Guard("c18:n2a", wit, func() { as, err = MarshalPathAttributes(attrs) }) {
		return
	}
	if err != nil {
		if c18UnsupportedRe.MatchString(err.Error()) {
			c.rec.Count("documented_unsupported:list", 1)
		}
		return // the single-attribute cases classify errors
	}
	for _, a := range as {
		if a.Attr == nil {
			return // reported by the single-attribute cases
		}
	}
	var back []bgp.PathAttributeInterface
	c.hit("UnmarshalPathAttributes")
	if c.rec.Guard("c18:a2n", wit, func() { back, err = UnmarshalPathAttributes(as) }) {
		return
	}
	if err != nil {
		c.rec.Count("list_rejected_own_output", 1) // classified per attribute type by c18AttrRT
		return
	}
	c.rec.Eval()
	c.rec.Count("attr_lists", 1)
	if len(back) != len(attrs) {
		c.rec.Violation("c18:attrlist:count", fmt.Sprintf("%d attributes in, %d out", len(attrs), len(back)), wit())
		return
	}
	for i := range attrs {
		if back[i].GetType() != attrs[i].GetType() {
			c.rec.Violation("c18:attrlist:order", fmt.Sprintf("attribute %d: type %d in, %d out", i, attrs[i].GetType(), back[i].GetType()), wit())
			return
		}
	}
	// api.Path: structured and binary carriage
	var p *api.Path
	c.hit("NewPath")
	age := time.Unix(int64(c.r.Uint32()), 0)
	if c.rec.Guard("c18:n2a", wit, func() { p, err = NewPath(fam, nlri, c18Bool(c.r), attrs, age) }) {
		return
	}
	if err != nil {
		if !c18UnsupportedRe.MatchString(err.Error()) {
			c.rec.Violation("c18:path:NewPath-error:"+c18NLRIType(nlri), fmt.Sprintf("NewPath fails: %v", err), wit())
		}
		return
	}
	if p.Nlri == nil || p.Nlri.Nlri == nil {
		return // reported by the NLRI cases
	}
	if got := ToFamily(p.Family); got != fam {
		c.rec.Violation("c18:path:family", fmt.Sprintf("family %s -> %s", fam, got), wit())
	}
	if p.Age.AsTime().Unix() != age.Unix() {
		c.rec.Violation("c18:path:age", fmt.Sprintf("age %d -> %d", age.Unix(), p.Age.AsTime().Unix()), wit())
	}
	nw0, _ := nlri.Serialize(ser.Ser...)
	check := func(q *api.Path, form string) {
		var n1 bgp.NLRI
		var l1 []bgp.PathAttributeInterface
		var e1, e2 error
		c.hit("GetNativeNlri")
		c.hit("GetNativePathAttributes")
		if c.rec.Guard("c18:a2n", wit, func() { n1, e1 = GetNativeNlri(q); l1, e2 = GetNativePathAttributes(q) }) {
			return
		}
		if e1 != nil || e2 != nil {
			if form == "structured" {
				c.rec.Count("path_rejected_own_output", 1) // classified by the element cases
			} else {
				c.rec.Violation("c18:path:"+form+":error", fmt.Sprintf("GetNativeNlri/GetNativePathAttributes on the %s form: %v / %v", form, e1, e2), wit())
			}
			return
		}
		c.rec.Count("paths_"+form, 1)
		nw1, _ := c18Ser(func() ([]byte, error) { return n1.Serialize(ser.Ser...) })
		if !bytes.Equal(nw0, nw1) && form != "structured" {
			c.rec.Violation("c18:path:"+form+":nlri:"+c18NLRIType(nlri), fmt.Sprintf("NLRI %s -> %s", nlri, n1), wit())
		}
		if form != "structured" && wire(l1) != wire(attrs) {
			c.rec.Violation("c18:path:"+form+":attrs", "attribute list changed through the "+form+" form of api.Path", wit())
		}
	}
	check(p, "structured")
	// binary form, as ListPath with EnableOnlyBinary produces it (default options)
	// (only for values the codec itself decodes back to the same bytes: its round trip is C04's)
	if nb, err := nlri.Serialize(); err == nil {
		q := &api.Path{Family: p.Family, NlriBinary: nb}
		ok := true
		if x, err := c18Ser(func() ([]byte, error) {
			n, err := bgp.NLRIFromSlice(fam, nb)
			if err != nil {
				return nil, err
			}
			return n.Serialize()
		}); err != nil || !bytes.Equal(x, nb) {
			ok = false
		}
		for _, a := range attrs {
			b, err := a.Serialize()
			if err != nil {
				ok = false
				break
			}
			if x, err := c18Ser(func() ([]byte, error) {
				d, err := bgp.GetPathAttribute(b)
				if err != nil {
					return nil, err
				}
				if err := d.DecodeFromBytes(b); err != nil {
					return nil, err
				}
				return d.Serialize()
			}); err != nil || !bytes.Equal(x, b) {
				ok = false
				break
			}
			q.PattrsBinary = append(q.PattrsBinary, b)
		}
		if ok {
			saved := ser
			ser = c18MakeOptSet(map[bgp.Family]bool{}, false, false, false, false)
			nw0, _ = nlri.Serialize()
			check(q, "binary")
			ser = saved
		}
	}
}

// ---------------------------------------------------------------- NLRI

func c18NLRIWire(n bgp.NLRI, o *c18OptSet) (w []byte, l int, s string, err error) {
	defer func() {
		if e := recover(); e != nil {
			err = fmt.Errorf("panic in Serialize/Len/String: %v", e)
		}
	}()
	w, err = n.Serialize(o.Ser...)
	if err != nil {
		return nil, 0, "", err
	}
	return w, n.Len(o.Ser...), n.String(), nil
}

func c18NLRIRT(c *c18Ctx, fam bgp.Family, n0 bgp.NLRI, o *c18OptSet, origin string) *api.NLRI {
	typ := c18NLRIType(n0)
	w0, l0, s0, err := c18NLRIWire(n0, o)
	if err != nil {
		c.rec.Count("skipped_unserialisable:"+typ, 1)
		return nil
	}
	wit := func() any {
		return map[string]any{"case": c.idx, "family": fam.String(), "nlri_type": typ, "wire": c18Hex(w0), "string": s0, "origin": origin}
	}
	var a1 *api.NLRI
	c.hit("MarshalNLRI")
	if c.rec.Guard("c18:n2a", wit, func() { a1, err = MarshalNLRI(n0) }) {
		return nil
	}
	if err != nil {
		if c18UnsupportedRe.MatchString(err.Error()) {
			c.rec.Count("documented_unsupported:"+typ, 1)
			return nil
		}
		c.rec.Violation("c18:nlri:marshal-error:"+typ, fmt.Sprintf("MarshalNLRI(%s %s) = error %q for a supported type", typ, s0, err), wit())
		return nil
	}
	c.rec.Eval()
	c.rec.Count("nlri:"+typ, 1)
	c.rec.Count("family:"+fam.String(), 1)
	if a1 == nil || a1.Nlri == nil {
		c.rec.Violation("c18:nlri:n2a:empty-message:"+typ, fmt.Sprintf("MarshalNLRI(%s %s) returned an api.NLRI without content and no error", typ, s0), wit())
		return nil
	}
	mask, nested := c18Mask(a1)
	if nested {
		c.rec.Nontrivial("nlri:" + typ + ":" + mask)
	}
	var n1 bgp.NLRI
	c.hit("UnmarshalNLRI")
	if c.rec.Guard("c18:a2n", func() any { return map[string]any{"case": c.idx, "family": fam.String(), "api": c18JSON(a1)} }, func() { n1, err = UnmarshalNLRI(fam, a1) }) {
		return a1
	}
	if err != nil || c18IsNilIface(n1) {
		c.rec.Violation("c18:nlri:a2n-rejects-own-output:"+typ, fmt.Sprintf("UnmarshalNLRI(%s) rejects what MarshalNLRI produced for %s %s: %v", fam, typ, s0, err),
			map[string]any{"case": c.idx, "family": fam.String(), "wire": c18Hex(w0), "string": s0, "api": c18JSON(a1), "error": fmt.Sprint(err)})
		return a1
	}
	w1, l1, s1, err := c18NLRIWire(n1, o)
	switch {
	case err != nil:
		c.rec.Violation("c18:nlri:n2a2n:unserialisable:"+typ, fmt.Sprintf("%s %s: after native->API->native Serialize fails: %v", typ, s0, err), wit())
	case !bytes.Equal(w0, w1):
		cls := "value"
		if len(w0) != len(w1) {
			cls = "length"
		}
		if rt, ok := n0.(*bgp.RouteTargetMembershipNLRI); ok && rt.Length > 32 && rt.Length < 96 {
			cls = "partial-route-target"
		}
		if _, ok := n0.(*bgp.LsAddrPrefix); ok && len(w0) > 4+9 && len(w1) > 4+9 {
			if !bytes.Equal(w0[:4+9], w1[:4+9]) {
				cls = "header"
			} else {
				cls = c18TLVDiff(w0[4+9:], w1[4+9:], 2, 2)
			}
		}
		for _, cls := range strings.Split(cls, "+") {
			c.rec.Violation("c18:nlri:n2a2n:wire:"+typ+":"+cls, fmt.Sprintf("%s: native->API->native re-serialises differently (%s): %s -> %s", typ, cls, s0, s1),
				map[string]any{"case": c.idx, "family": fam.String(), "wire": c18Hex(w0), "wire_after": c18Hex(w1), "string": s0, "string_after": s1, "api": c18JSON(a1), "origin": origin})
		}
	case l0 == len(w0) && l1 != len(w1):
		c.rec.Violation("c18:nlri:n2a2n:len:"+typ, fmt.Sprintf("%s: Len() = %d = serialised size before, Len() = %d but serialised size %d after the round trip", typ, l0, l1, len(w1)), wit())
	case s0 != s1:
		c.rec.Violation("c18:nlri:n2a2n:string:"+typ, fmt.Sprintf("%s: String %q before, %q after the round trip (same wire bytes)", typ, s0, s1), wit())
	}
	var a2 *api.NLRI
	if c.rec.Guard("c18:n2a", wit, func() { a2, err = MarshalNLRI(n1) }) {
		return a1
	}
	if err != nil || a2 == nil {
		c.rec.Violation("c18:nlri:a2n2a:marshal-error:"+typ, fmt.Sprintf("%s: API->native->API fails: %v", typ, err), wit())
		return a1
	}
	c.reportDiffs("nlri", a1, a2, origin)
	return a1
}

func c18NLRIFromAPI(c *c18Ctx, fam bgp.Family, a0 *api.NLRI, o *c18OptSet, class string) {
	kind := "nil"
	if a0.Nlri != nil {
		kind = strings.TrimPrefix(fmt.Sprintf("%T", a0.Nlri), "*api.NLRI_")
	}
	wit := func() any {
		return map[string]any{"case": c.idx, "family": fam.String(), "api": c18JSON(a0), "made_by": class}
	}
	var n1 bgp.NLRI
	var err error
	c.hit("UnmarshalNLRI")
	if c.rec.Guard("c18:a2n", wit, func() { n1, err = UnmarshalNLRI(fam, a0) }) {
		return
	}
	if err != nil || c18IsNilIface(n1) {
		c.rec.Count("api_rejected:nlri:"+kind, 1)
		return
	}
	c.rec.Count("api_accepted:nlri:"+kind, 1)
	c.rec.Count("api_accepted", 1)
	if _, _, _, err := c18NLRIWire(n1, o); err != nil {
		if strings.HasPrefix(err.Error(), "panic") {
			c.rec.Violation("c18:nlri:api:accepted-value-panics:"+kind, fmt.Sprintf("UnmarshalNLRI accepts an api.NLRI (%s, %s) whose native form makes Serialize/Len/String panic: %v", kind, class, err), wit())
		}
		if strings.HasPrefix(class, "hand:") {
			c.rec.Violation("c18:nlri:api:accepted-value-unserialisable:"+kind, fmt.Sprintf("UnmarshalNLRI accepts a well-formed api.NLRI (%s, %s) but Serialize of its native form fails: %v", kind, class, err), wit())
		}
		c.rec.Count("api_accepted_unserialisable:nlri:"+kind, 1)
		return
	}
	c.rec.Eval()
	mask, nested := c18Mask(a0)
	if nested {
		c.rec.Nontrivial("api:nlri:" + kind + ":" + mask)
	}
	var a1 *api.NLRI
	if c.rec.Guard("c18:n2a", wit, func() { a1, err = MarshalNLRI(n1) }) {
		return
	}
	if err != nil || a1 == nil {
		c.rec.Violation("c18:nlri:api:a2n2a:marshal-error:"+kind, fmt.Sprintf("accepted api.NLRI (%s) cannot be converted back: %v", kind, err), wit())
		return
	}
	if c.reportDiffs("nlri", a0, a1, class) {
		return
	}
	c18NLRIRT(c, fam, n1, o, "api")
}

func c18NLRICase(c *c18Ctx) {
	_, ser := c18DrawOpts(c.r)
	fam := c18Families[c.r.IntN(len(c18Families))]
	var tags []string
	nc := &c18NLRICtx{withdraw: c18Chance(c.r, 5), quirk: c18Pick(c.r, "", "", "evpn-ipmsi", "flowspec-long", "label-sentinel-in-stack"), tags: &tags}
	n0 := c18NLRI(c.r, fam, nc)
	if c18IsNilIface(n0) {
		c.rec.Count("gen_failed_nlri", 1)
		return
	}
	c.rec.Mark(fmt.Sprintf("nlri case %d %s %s", c.idx, fam, c18NLRIType(n0)), false)
	a1 := c18NLRIRT(c, fam, n0, ser, "gen")
	if a1 != nil && a1.Nlri != nil && c.r.IntN(2) == 0 {
		a0, class := c18Toggle(c.r, a1)
		if class != "none" {
			c18NLRIFromAPI(c, fam, a0.(*api.NLRI), ser, class)
		}
	}
	if c.idx%4999 == 1 {
		c.rec.Sample(map[string]any{"case": c.idx, "kind": "nlri", "family": fam.String(), "type": c18NLRIType(n0), "string": n0.String(), "api": c18JSON(a1)})
	}
}

// ---------------------------------------------------------------- capabilities

func c18CapRT(c *c18Ctx, n0 bgp.ParameterCapabilityInterface, origin string) *api.Capability {
	typ := c18T(n0)
	w0, err := n0.Serialize()
	if err != nil {
		c.rec.Count("skipped_unserialisable:"+typ, 1)
		return nil
	}
	wit := func() any {
		return map[string]any{"case": c.idx, "cap_type": typ, "code": int(n0.Code()), "wire": c18Hex(w0), "origin": origin}
	}
	var a1 *api.Capability
	c.hit("MarshalCapability")
	if c.rec.Guard("c18:n2a", wit, func() { a1, err = MarshalCapability(n0) }) {
		return nil
	}
	if err != nil {
		if c18UnsupportedRe.MatchString(err.Error()) {
			c.rec.Count("documented_unsupported:"+typ, 1)
			return nil
		}
		c.rec.Violation("c18:cap:marshal-error:"+typ, fmt.Sprintf("MarshalCapability(%s) = error %q for a supported type", typ, err), wit())
		return nil
	}
	c.rec.Eval()
	c.rec.Count("cap:"+typ, 1)
	if a1 == nil || a1.Cap == nil {
		c.rec.Violation("c18:cap:n2a:empty-message:"+typ, "MarshalCapability returned an api.Capability without content and no error", wit())
		return nil
	}
	mask, nested := c18Mask(a1)
	if nested {
		c.rec.Nontrivial("cap:" + typ + ":" + mask)
	}
	var n1 bgp.ParameterCapabilityInterface
	c.hit("unmarshalCapability")
	if c.rec.Guard("c18:a2n", func() any { return map[string]any{"case": c.idx, "api": c18JSON(a1)} }, func() { n1, err = unmarshalCapability(a1) }) {
		return a1
	}
	if err != nil || c18IsNilIface(n1) {
		c.rec.Violation("c18:cap:a2n-rejects-own-output:"+typ, fmt.Sprintf("unmarshalCapability rejects what MarshalCapability produced for %s: %v", typ, err),
			map[string]any{"case": c.idx, "wire": c18Hex(w0), "api": c18JSON(a1), "error": fmt.Sprint(err)})
		return a1
	}
	w1, err := c18Ser(n1.Serialize)
	switch {
	case err != nil:
		c.rec.Violation("c18:cap:n2a2n:unserialisable:"+typ, fmt.Sprintf("%s: after native->API->native Serialize fails: %v", typ, err), wit())
	case !bytes.Equal(w0, w1):
		c.rec.Violation("c18:cap:n2a2n:wire:"+typ, fmt.Sprintf("%s: native->API->native re-serialises differently: %x -> %x", typ, w0, w1),
			map[string]any{"case": c.idx, "wire": c18Hex(w0), "wire_after": c18Hex(w1), "api": c18JSON(a1), "origin": origin})
	case n0.Len() != n1.Len():
		c.rec.Violation("c18:cap:n2a2n:len:"+typ, fmt.Sprintf("%s: Len %d before, %d after the round trip (same wire bytes)", typ, n0.Len(), n1.Len()), wit())
	case n0.Code() != n1.Code():
		c.rec.Violation("c18:cap:n2a2n:code:"+typ, fmt.Sprintf("%s: code %d -> %d", typ, n0.Code(), n1.Code()), wit())
	}
	var a2 *api.Capability
	if c.rec.Guard("c18:n2a", wit, func() { a2, err = MarshalCapability(n1) }) {
		return a1
	}
	if err != nil || a2 == nil {
		c.rec.Violation("c18:cap:a2n2a:marshal-error:"+typ, fmt.Sprintf("%s: API->native->API fails: %v", typ, err), wit())
		return a1
	}
	c.reportDiffs("cap", a1, a2, origin)
	return a1
}

func c18CapFromAPI(c *c18Ctx, a0 *api.Capability, class string) {
	kind := "nil"
	if a0.Cap != nil {
		kind = strings.TrimPrefix(fmt.Sprintf("%T", a0.Cap), "*api.Capability_")
	}
	wit := func() any { return map[string]any{"case": c.idx, "api": c18JSON(a0), "made_by": class} }
	var n1 bgp.ParameterCapabilityInterface
	var err error
	c.hit("unmarshalCapability")
	if c.rec.Guard("c18:a2n", wit, func() { n1, err = unmarshalCapability(a0) }) {
		return
	}
	if err != nil || c18IsNilIface(n1) {
		c.rec.Count("api_rejected:cap:"+kind, 1)
		return
	}
	c.rec.Count("api_accepted:cap:"+kind, 1)
	c.rec.Count("api_accepted", 1)
	if _, err := c18Ser(n1.Serialize); err != nil {
		if strings.HasPrefix(err.Error(), "panic") {
			c.rec.Violation("c18:cap:api:accepted-value-panics:"+kind, fmt.Sprintf("unmarshalCapability accepts an api.Capability (%s, %s) whose native form makes Serialize panic: %v", kind, class, err), wit())
		}
		c.rec.Count("api_accepted_unserialisable:cap:"+kind, 1)
		return
	}
	c.rec.Eval()
	var a1 *api.Capability
	if c.rec.Guard("c18:n2a", wit, func() { a1, err = MarshalCapability(n1) }) {
		return
	}
	if err != nil || a1 == nil {
		c.rec.Violation("c18:cap:api:a2n2a:marshal-error:"+kind, fmt.Sprintf("accepted api.Capability (%s) cannot be converted back: %v", kind, err), wit())
		return
	}
	if c.reportDiffs("cap", a0, a1, class) {
		return
	}
	c18CapRT(c, n1, "api")
}

func c18CapCase(c *c18Ctx) {
	n0 := c18Capability(c.r, 253)
	c.rec.Mark(fmt.Sprintf("cap case %d %s", c.idx, c18T(n0)), false)
	a1 := c18CapRT(c, n0, "gen")
	if a1 != nil && a1.Cap != nil && c.r.IntN(2) == 0 {
		a0, class := c18Toggle(c.r, a1)
		if class != "none" {
			c18CapFromAPI(c, a0.(*api.Capability), class)
		}
	}
	// list converters
	if c.idx%7 == 0 {
		var caps []bgp.ParameterCapabilityInterface
		for i := c.r.IntN(5); i > 0; i-- {
			caps = append(caps, c18Capability(c.r, 253))
		}
		var as []*api.Capability
		var back []bgp.ParameterCapabilityInterface
		var err error
		c.hit("MarshalCapabilities")
		c.hit("UnmarshalCapabilities")
		wit := func() any { return map[string]any{"case": c.idx, "n": len(caps)} }
		if c.rec.Guard("c18:n2a", wit, func() { as, err = MarshalCapabilities(caps) }) || err != nil {
			return
		}
		if c.rec.Guard("c18:a2n", wit, func() { back, err = UnmarshalCapabilities(as) }) || err != nil {
			return
		}
		c.rec.Eval()
		if len(back) != len(caps) {
			c.rec.Violation("c18:caplist:count", fmt.Sprintf("%d capabilities in, %d out", len(caps), len(back)), wit())
			return
		}
		for i := range caps {
			b0, _ := caps[i].Serialize()
			b1, _ := c18Ser(back[i].Serialize)
			if !bytes.Equal(b0, b1) {
				c.rec.Count("caplist_element_differs", 1) // classified by the single-capability cases
			}
		}
	}
	if c.idx%4999 == 2 {
		c.rec.Sample(map[string]any{"case": c.idx, "kind": "capability", "type": c18T(n0), "api": c18JSON(a1)})
	}
}

// ---------------------------------------------------------------- small exported converters

func c18MiscCase(c *c18Ctx) {
	r := c.r
	c.rec.Mark(fmt.Sprintf("misc case %d", c.idx), false)
	switch r.IntN(6) {
	case 0: // route distinguisher
		rd := c18RD(r)
		typ := c18T(rd)
		w0, _ := rd.Serialize()
		wit := func() any { return map[string]any{"case": c.idx, "rd": rd.String(), "wire": c18Hex(w0)} }
		var a *api.RouteDistinguisher
		var back bgp.RouteDistinguisherInterface
		var err error
		c.hit("MarshalRD")
		if c.rec.Guard("c18:n2a", wit, func() { a, err = MarshalRD(rd) }) {
			return
		}
		if err != nil {
			c.rec.Violation("c18:rd:marshal-error:"+typ, err.Error(), wit())
			return
		}
		c.hit("UnmarshalRD")
		if c.rec.Guard("c18:a2n", wit, func() { back, err = UnmarshalRD(a) }) {
			return
		}
		c.rec.Eval()
		c.rec.Count("rd:"+typ, 1)
		c.rec.Nontrivial("rd:" + typ)
		if err != nil {
			c.rec.Violation("c18:rd:a2n-rejects-own-output:"+typ, err.Error(), wit())
			return
		}
		w1, _ := c18Ser(back.Serialize)
		if !bytes.Equal(w0, w1) || rd.String() != back.String() {
			c.rec.Violation("c18:rd:n2a2n:"+typ, fmt.Sprintf("RD %s (%x) -> %s (%x)", rd, w0, back, w1), wit())
		}
	case 1: // route target (only the three kinds MarshalRT knows carry the RT sub-type)
		rt := c18RouteTarget(r)
		typ := c18T(rt)
		w0, _ := rt.Serialize()
		wit := func() any { return map[string]any{"case": c.idx, "rt": rt.String(), "wire": c18Hex(w0)} }
		var a []*api.RouteTarget
		var back []bgp.ExtendedCommunityInterface
		var err error
		c.hit("MarshalRTs")
		if c.rec.Guard("c18:n2a", wit, func() { a, err = MarshalRTs([]bgp.ExtendedCommunityInterface{rt}) }) {
			return
		}
		if err != nil {
			c.rec.Violation("c18:rt:marshal-error:"+typ, err.Error(), wit())
			return
		}
		c.hit("UnmarshalRTs")
		if c.rec.Guard("c18:a2n", wit, func() { back, err = UnmarshalRTs(a) }) {
			return
		}
		c.rec.Eval()
		c.rec.Count("rt:"+typ, 1)
		c.rec.Nontrivial("rt:" + typ)
		if err != nil || len(back) != 1 {
			c.rec.Violation("c18:rt:a2n-rejects-own-output:"+typ, fmt.Sprint(err), wit())
			return
		}
		w1, _ := c18Ser(back[0].Serialize)
		if !bytes.Equal(w0, w1) {
			c.rec.Violation("c18:rt:n2a2n:"+typ, fmt.Sprintf("RT %s (%x) -> %s (%x)", rt, w0, back[0], w1), wit())
		}
	case 2: // flow specification rules
		fam := c18Pick(r, bgp.RF_FS_IPv4_UC, bgp.RF_FS_IPv6_UC, bgp.RF_FS_L2_VPN)
		n := c18FlowSpec(r, fam, &c18NLRICtx{})
		fs, ok := n.(*bgp.FlowSpecNLRI)
		if !ok || fs == nil {
			return
		}
		wit := func() any { return map[string]any{"case": c.idx, "family": fam.String(), "nlri": fs.String()} }
		var a []*api.FlowSpecRule
		var back []bgp.FlowSpecComponentInterface
		var err error
		c.hit("MarshalFlowSpecRules")
		if c.rec.Guard("c18:n2a", wit, func() { a, err = MarshalFlowSpecRules(fs.Value) }) || err != nil {
			return
		}
		c.hit("UnmarshalFlowSpecRules")
		if c.rec.Guard("c18:a2n", wit, func() { back, err = UnmarshalFlowSpecRules(a) }) {
			return
		}
		c.rec.Eval()
		c.rec.Nontrivial(fmt.Sprintf("fsrules:%s:%d", fam, len(fs.Value)))
		if err != nil || len(back) != len(fs.Value) {
			c.rec.Violation("c18:fsrules:a2n-rejects-own-output:"+fam.String(), fmt.Sprint(err), wit())
			return
		}
		for i := range back {
			b0, _ := fs.Value[i].Serialize()
			b1, _ := c18Ser(func() ([]byte, error) { return back[i].Serialize() })
			if !bytes.Equal(b0, b1) {
				c.rec.Violation("c18:fsrules:n2a2n:"+c18T(fs.Value[i]), fmt.Sprintf("component %s (%x) -> %s (%x)", fs.Value[i], b0, back[i], b1), wit())
				return
			}
		}
	case 3: // MUP TLVs
		tl := c18MUPTLVs(r)
		wit := func() any { return map[string]any{"case": c.idx, "n": len(tl)} }
		var a []*api.MUPTLV
		var back []bgp.MUPTLVInterface
		var err error
		c.hit("MarshalMUPTLVs")
		if c.rec.Guard("c18:n2a", wit, func() { a, err = MarshalMUPTLVs(tl) }) || err != nil {
			return
		}
		c.hit("UnmarshalMUPTLVs")
		if c.rec.Guard("c18:a2n", wit, func() { back, err = UnmarshalMUPTLVs(a) }) {
			return
		}
		c.rec.Eval()
		if len(tl) > 0 {
			c.rec.Nontrivial(fmt.Sprintf("muptlvs:%d:%s", len(tl), c18T(tl[0])))
		}
		if err != nil || len(back) != len(tl) {
			c.rec.Violation("c18:muptlvs:a2n-rejects-own-output", fmt.Sprint(err), wit())
			return
		}
		for i := range tl {
			b0, _ := tl[i].Serialize()
			b1, _ := c18Ser(back[i].Serialize)
			if !bytes.Equal(b0, b1) {
				c.rec.Violation("c18:muptlvs:n2a2n:"+c18T(tl[i]), fmt.Sprintf("%x -> %x", b0, b1), wit())
				return
			}
		}
	case 4: // BGP-LS node descriptor
		t := c18Pick[bgp.LsTLVType](r, bgp.LS_TLV_LOCAL_NODE_DESC, bgp.LS_TLV_REMOTE_NODE_DESC)
		d0 := c18LsNodeDesc(r, t)
		w0, _ := d0.Serialize()
		wit := func() any { return map[string]any{"case": c.idx, "wire": c18Hex(w0), "string": d0.String()} }
		var a *api.LsNodeDescriptor
		var nd *bgp.LsNodeDescriptor
		var err error
		c.hit("MarshalLsNodeDescriptor")
		if c.rec.Guard("c18:n2a", wit, func() { a, err = MarshalLsNodeDescriptor(d0.Extract()) }) || err != nil {
			return
		}
		c.hit("UnmarshalLsNodeDescriptor")
		if c.rec.Guard("c18:a2n", wit, func() { nd, err = UnmarshalLsNodeDescriptor(a) }) {
			return
		}
		c.rec.Eval()
		mask, _ := c18Mask(a)
		c.rec.Nontrivial("lsnodedesc:" + mask)
		if err != nil {
			c.rec.Violation("c18:lsnodedesc:a2n-rejects-own-output", err.Error(), wit())
			return
		}
		d1 := bgp.NewLsTLVNodeDescriptor(nd, t)
		w1, _ := c18Ser(d1.Serialize)
		if !bytes.Equal(w0, w1) {
			c.rec.Violation("c18:lsnodedesc:n2a2n:"+c18TLVDiff(w0[4:], w1[min(4, len(w1)):], 2, 2), fmt.Sprintf("%s (%x) -> %s (%x)", d0.String(), w0, d1.String(), w1), wit())
		}
	case 5: // SR binding SID / segment converters
		var b *bgp.BSID
		switch r.IntN(3) {
		case 0:
			b = &bgp.BSID{Value: []byte{}}
		case 1:
			b, _ = bgp.NewBSID(c18Bytes(r, 4))
		default:
			b, _ = bgp.NewBSID(c18Bytes(r, 16))
		}
		s0 := &bgp.TunnelEncapSubTLVSRBSID{TunnelEncapSubTLV: bgp.TunnelEncapSubTLV{Type: bgp.ENCAP_SUBTLV_TYPE_SRBINDING_SID}, Flags: c18Pick[uint8](r, 0, 0x80, 0x40, 0xc0), BSID: b}
		w0, _ := s0.Serialize()
		wit := func() any { return map[string]any{"case": c.idx, "wire": c18Hex(w0)} }
		var a *api.SRBindingSID
		var back bgp.TunnelEncapSubTLVInterface
		var err error
		c.hit("MarshalSRBSID")
		if c.rec.Guard("c18:n2a", wit, func() { a, err = MarshalSRBSID(s0) }) || err != nil {
			return
		}
		c.hit("UnmarshalSRBSID")
		if c.rec.Guard("c18:a2n", wit, func() {
			back, err = UnmarshalSRBSID(&api.TunnelEncapSubTLVSRBindingSID{Bsid: &api.TunnelEncapSubTLVSRBindingSID_SrBindingSid{SrBindingSid: a}})
		}) {
			return
		}
		c.rec.Eval()
		c.rec.Nontrivial(fmt.Sprintf("srbsid:%d:%x", len(b.Value), s0.Flags))
		if err != nil {
			c.rec.Violation(fmt.Sprintf("c18:srbsid:a2n-rejects-own-output:len%d", len(b.Value)), err.Error(), wit())
			return
		}
		w1, _ := c18Ser(back.Serialize)
		if !bytes.Equal(w0, w1) {
			c.rec.Violation("c18:attr:n2a2n:wire:PathAttributeTunnelEncap:TunnelEncapSubTLVSRBSID", fmt.Sprintf("MarshalSRBSID/UnmarshalSRBSID: %x -> %x", w0, w1), wit())
		}
	}
}

var _ = netip.Addr{}
var _ = proto.Equal

func TestVerifC18(t *testing.T) {
	rec := vlib.Open("C18")
	defer rec.Close()
	total := vlib.Scale(100000, 3000000)
	vlib.Cases(total, func(idx int) {
		c := &c18Ctx{rec: rec, r: vlib.CaseRand("c18", idx), idx: idx}
		switch idx % 20 {
		case 0, 1, 2, 3, 4, 5, 6, 7:
			c18AttrCase(c)
		case 8, 9, 10, 11, 12:
			c18NLRICase(c)
		case 13, 14:
			c18CapCase(c)
		case 15:
			c18MiscCase(c)
		case 16, 17:
			c18AttrListCase(c)
		default:
			c18HandBuiltCase(c)
		}
	})
}
