package apiutil

// C18: hand-built API messages (kinds and optional-field combinations that converting generated
// native values never yields), fed to oracle (b) through c18AttrFromAPI / c18NLRIFromAPI /
// c18CapFromAPI. All numeric values stay inside the width of the wire field they describe.

import (
	"fmt"
	"math/rand/v2"

	"github.com/osrg/gobgp/v4/api"
	"github.com/osrg/gobgp/v4/pkg/packet/bgp"
)

func c18APIFamily(f bgp.Family) *api.Family {
	return &api.Family{Afi: api.Family_Afi(f.Afi()), Safi: api.Family_Safi(f.Safi())}
}

func c18APIRD(r *rand.Rand) *api.RouteDistinguisher {
	switch r.IntN(3) {
	case 0:
		return &api.RouteDistinguisher{Rd: &api.RouteDistinguisher_TwoOctetAsn{TwoOctetAsn: &api.RouteDistinguisherTwoOctetASN{Admin: uint32(c18U16(r)), Assigned: c18U32(r)}}}
	case 1:
		return &api.RouteDistinguisher{Rd: &api.RouteDistinguisher_IpAddress{IpAddress: &api.RouteDistinguisherIPAddress{Admin: c18Addr4(r).String(), Assigned: uint32(c18U16(r))}}}
	default:
		return &api.RouteDistinguisher{Rd: &api.RouteDistinguisher_FourOctetAsn{FourOctetAsn: &api.RouteDistinguisherFourOctetASN{Admin: c18U32(r), Assigned: uint32(c18U16(r))}}}
	}
}

// c18APIBSID: no SID, an MPLS label value in 4 octets (as docs/sources/lib-srpolicy.md builds it) or 16 octets.
func c18APIBSID(r *rand.Rand) []byte {
	switch r.IntN(3) {
	case 0:
		return nil
	case 1:
		l := c18Label(r)
		return []byte{byte(l >> 24), byte(l >> 16), byte(l >> 8), byte(l)}
	}
	return c18Bytes(r, 16)
}

func c18APISegFlags(r *rand.Rand) *api.SegmentFlags {
	if c18Chance(r, 3) {
		return nil
	}
	return &api.SegmentFlags{VFlag: c18Bool(r), AFlag: c18Bool(r), SFlag: c18Bool(r), BFlag: c18Bool(r)}
}

func c18APIEBS(r *rand.Rand) *api.SRv6EndPointBehavior {
	if c18Bool(r) {
		return nil
	}
	return &api.SRv6EndPointBehavior{Behavior: api.SRV6Behavior(c18Pick(r, 0, 1, 2, 5, 16, 17, 18, 19)), BlockLen: uint32(c18U8(r)), NodeLen: uint32(c18U8(r)), FuncLen: uint32(c18U8(r)), ArgLen: uint32(c18U8(r))}
}

func c18APILsNodeDesc(r *rand.Rand) *api.LsNodeDescriptor {
	d := &api.LsNodeDescriptor{}
	if c18Bool(r) {
		d.Asn = c18U32(r)
	}
	if c18Bool(r) {
		d.BgpLsId = c18U32(r)
	}
	switch r.IntN(5) {
	case 0:
		d.IgpRouterId = "0000.0000.0001"
	case 1:
		d.IgpRouterId = "1921.6800.1003-07"
		d.Pseudonode = true
	case 2:
		d.IgpRouterId = c18Addr4(r).String()
		d.OspfAreaId = c18U32(r)
	case 3:
		d.BgpRouterId = c18Addr4(r).String()
		if c18Bool(r) {
			d.BgpConfederationMember = c18U32(r)
		}
	}
	return d
}

// c18HandBuiltCase draws one hand-built API message.
func c18HandBuiltCase(c *c18Ctx) {
	r := c.r
	_, ser := c18DrawOpts(r)
	k := r.IntN(16)
	c.rec.Mark(fmt.Sprintf("hand-built case %d kind %d", c.idx, k), false)
	attr := func(a *api.Attribute, class string) { c18AttrFromAPI(c, a, ser, "hand:"+class) }
	nlri := func(f bgp.Family, n *api.NLRI, class string) { c18NLRIFromAPI(c, f, n, ser, "hand:"+class) }
	switch k {
	case 0: // SR policy binding SID sub-TLVs: MPLS / SRv6 flavour
		var b *api.TunnelEncapSubTLVSRBindingSID
		class := "srbsid"
		if c18Bool(r) {
			b = &api.TunnelEncapSubTLVSRBindingSID{Bsid: &api.TunnelEncapSubTLVSRBindingSID_SrBindingSid{SrBindingSid: &api.SRBindingSID{SFlag: c18Bool(r), IFlag: c18Bool(r), Sid: c18APIBSID(r)}}}
		} else {
			class = "srv6bsid"
			b = &api.TunnelEncapSubTLVSRBindingSID{Bsid: &api.TunnelEncapSubTLVSRBindingSID_Srv6BindingSid{Srv6BindingSid: &api.SRv6BindingSID{SFlag: c18Bool(r), IFlag: c18Bool(r), BFlag: c18Bool(r), Sid: c18Bytes(r, 16), EndpointBehaviorStructure: c18APIEBS(r)}}}
		}
		attr(&api.Attribute{Attr: &api.Attribute_TunnelEncap{TunnelEncap: &api.TunnelEncapAttribute{Tlvs: []*api.TunnelEncapTLV{{Type: 15, Tlvs: []*api.TunnelEncapTLV_TLV{{Tlv: &api.TunnelEncapTLV_TLV_SrBindingSid{SrBindingSid: b}}}}}}}}, class)
	case 1: // SR policy segment list: optional weight, optional flags, optional behaviour structure
		sl := &api.TunnelEncapSubTLVSRSegmentList{}
		class := "seglist"
		if c18Bool(r) {
			sl.Weight = &api.SRWeight{Flags: uint32(c18U8(r)), Weight: c18U32(r)}
			class += "+weight"
		}
		for i := c18SmallLen(r, 3); i > 0; i-- {
			if c18Bool(r) {
				sl.Segments = append(sl.Segments, &api.TunnelEncapSubTLVSRSegmentList_Segment{Segment: &api.TunnelEncapSubTLVSRSegmentList_Segment_A{A: &api.SegmentTypeA{Flags: c18APISegFlags(r), Label: c18U32(r)}}})
			} else {
				sl.Segments = append(sl.Segments, &api.TunnelEncapSubTLVSRSegmentList_Segment{Segment: &api.TunnelEncapSubTLVSRSegmentList_Segment_B{B: &api.SegmentTypeB{Flags: c18APISegFlags(r), Sid: c18Bytes(r, 16), EndpointBehaviorStructure: c18APIEBS(r)}}})
			}
		}
		attr(&api.Attribute{Attr: &api.Attribute_TunnelEncap{TunnelEncap: &api.TunnelEncapAttribute{Tlvs: []*api.TunnelEncapTLV{{Type: 15, Tlvs: []*api.TunnelEncapTLV_TLV{{Tlv: &api.TunnelEncapTLV_TLV_SrSegmentList{SrSegmentList: sl}}}}}}}}, class)
	case 2: // Prefix-SID: L3 / L2 service, optional flags and structure
		info := &api.SRv6InformationSubTLV{Sid: c18Bytes(r, 16), EndpointBehavior: uint32(c18U16(r))}
		if c18Bool(r) {
			info.Flags = &api.SRv6SIDFlags{}
		}
		if c18Bool(r) {
			info.SubSubTlvs = map[uint32]*api.SRv6SubSubTLVs{1: {Tlvs: []*api.SRv6SubSubTLV{{Tlv: &api.SRv6SubSubTLV_Structure{Structure: &api.SRv6StructureSubSubTLV{
				LocatorBlockLength: uint32(c18U8(r)), LocatorNodeLength: uint32(c18U8(r)), FunctionLength: uint32(c18U8(r)), ArgumentLength: uint32(c18U8(r)), TranspositionLength: uint32(c18U8(r)), TranspositionOffset: uint32(c18U8(r))}}}}}}
		}
		sub := map[uint32]*api.SRv6SubTLVs{1: {Tlvs: []*api.SRv6SubTLV{{Tlv: &api.SRv6SubTLV_Information{Information: info}}}}}
		tlv := &api.PrefixSID_TLV{Tlv: &api.PrefixSID_TLV_L3Service{L3Service: &api.SRv6L3ServiceTLV{SubTlvs: sub}}}
		class := "psid-l3"
		if c18Chance(r, 3) {
			tlv = &api.PrefixSID_TLV{Tlv: &api.PrefixSID_TLV_L2Service{L2Service: &api.SRv6L2ServiceTLV{SubTlvs: sub}}}
			class = "psid-l2"
		}
		attr(&api.Attribute{Attr: &api.Attribute_PrefixSid{PrefixSid: &api.PrefixSID{Tlvs: []*api.PrefixSID_TLV{tlv}}}}, class)
	case 3: // BGP-LS attribute: one populated group at a time, zero / non-zero scalars
		ls := &api.LsAttribute{}
		class := "ls-"
		switch r.IntN(5) {
		case 0:
			class += "node"
			n := &api.LsAttributeNode{}
			if c18Bool(r) {
				n.Name = c18String(r, 1+r.IntN(10))
			}
			if c18Bool(r) {
				n.Flags = &api.LsNodeFlags{Overload: c18Bool(r), Attached: c18Bool(r), External: c18Bool(r), Abr: c18Bool(r), Router: c18Bool(r), V6: c18Bool(r)}
			}
			if c18Bool(r) {
				n.LocalRouterId = c18Addr4(r).String()
			}
			if c18Bool(r) {
				n.LocalRouterIdV6 = "2001:db8::1"
			}
			if c18Bool(r) {
				n.IsisArea = c18Bytes(r, 1+r.IntN(13))
			}
			if c18Bool(r) {
				n.Opaque = c18Bytes(r, 1+r.IntN(8))
			}
			if c18Bool(r) {
				n.SrAlgorithms = c18Bytes(r, 1+r.IntN(3))
			}
			if c18Bool(r) {
				n.SrCapabilities = &api.LsSrCapabilities{Ipv4Supported: c18Bool(r), Ipv6Supported: c18Bool(r), Ranges: []*api.LsSrRange{{Begin: 16000, End: 23999}}}
			}
			if c18Bool(r) {
				n.SrLocalBlock = &api.LsSrLocalBlock{Ranges: []*api.LsSrRange{{Begin: 15000, End: 15999}}}
			}
			ls.Node = n
		case 1:
			class += "link"
			l := &api.LsAttributeLink{}
			if c18Bool(r) {
				l.Name = c18String(r, 1+r.IntN(10))
			}
			if c18Bool(r) {
				l.LocalRouterId = c18Addr4(r).String()
			}
			if c18Bool(r) {
				l.RemoteRouterId = c18Addr4(r).String()
			}
			if c18Bool(r) {
				l.AdminGroup = c18Pick[uint32](r, 0, 1, 0xffffffff)
			}
			if c18Bool(r) {
				l.DefaultTeMetric = c18Pick[uint32](r, 0, 10)
			}
			if c18Bool(r) {
				l.IgpMetric = c18Pick[uint32](r, 0, 10, 0xffffff)
			}
			if c18Bool(r) {
				l.Bandwidth = c18Pick[float32](r, 0, 1.25e8)
			}
			if c18Bool(r) {
				l.ReservableBandwidth = c18Pick[float32](r, 0, 1.25e8)
			}
			if c18Bool(r) {
				l.UnreservedBandwidth = []float32{1, 2, 3, 4, 5, 6, 7, 8}
			}
			if c18Bool(r) {
				l.Srlgs = []uint32{c18U32(r)}
			}
			if c18Bool(r) {
				l.SrAdjacencySid = c18Pick[uint32](r, 0, 24001)
			}
			if c18Bool(r) {
				l.UnidirectionalLinkDelay = c18Pick[uint32](r, 0, 100)
				l.UnidirectionalLinkDelayAnomalous = c18Bool(r)
			}
			if c18Bool(r) {
				l.MinUnidirectionalLinkDelay, l.MaxUnidirectionalLinkDelay = c18Pick[uint32](r, 0, 10), c18Pick[uint32](r, 0, 20)
				l.MinMaxUnidirectionalLinkDelayAnomalous = c18Bool(r)
			}
			if c18Bool(r) {
				l.UnidirectionalDelayVariation = c18Pick[uint32](r, 0, 5)
			}
			if c18Bool(r) {
				l.Opaque = c18Bytes(r, 1+r.IntN(8))
			}
			if c18Chance(r, 3) {
				x := &api.LsSrv6EndXSID{EndpointBehavior: uint32(c18U16(r)), Flags: uint32(c18U8(r)), Algorithm: uint32(c18U8(r)), Weight: uint32(c18U8(r)), Sids: []string{"2001:db8::5"}}
				if c18Bool(r) {
					x.Srv6SidStructure = &api.LsSrv6SIDStructure{LocalBlock: 32, LocalNode: 16, LocalFunc: 16, LocalArg: 0}
				}
				l.Srv6EndXSid = x
			}
			ls.Link = l
		case 2:
			class += "prefix"
			p := &api.LsAttributePrefix{}
			if c18Bool(r) {
				p.IgpFlags = &api.LsIGPFlags{Down: c18Bool(r), NoUnicast: c18Bool(r), LocalAddress: c18Bool(r), PropagateNssa: c18Bool(r)}
			}
			if c18Bool(r) {
				p.Opaque = c18Bytes(r, 1+r.IntN(8))
			}
			if c18Bool(r) {
				p.SrPrefixSid = c18Pick[uint32](r, 0, 16001)
			}
			if c18Chance(r, 3) {
				p.SrPrefixSids = []*api.LsAttributePrefixSID{{Algorithm: uint32(c18Pick(r, 0, 128)), Flags: uint32(c18U8(r)), Sid: 16001}}
			}
			if c18Chance(r, 3) {
				p.FadPrefixMetrics = []*api.LsAttributeFADPrefixMetric{{Algorithm: 128, Flags: uint32(c18U8(r)), Metric: c18U32(r)}}
			}
			ls.Prefix = p
		case 3:
			class += "peer-segment"
			sid := func() *api.LsBgpPeerSegmentSID {
				s := &api.LsBgpPeerSegmentSID{Weight: uint32(c18U8(r)), Sid: c18Label(r)}
				if c18Bool(r) {
					s.Flags = &api.LsBgpPeerSegmentSIDFlags{Value: true, Local: true, Backup: c18Bool(r), Persistent: c18Bool(r)}
				}
				return s
			}
			b := &api.LsAttributeBgpPeerSegment{}
			if c18Bool(r) {
				b.BgpPeerNodeSid = sid()
			}
			if c18Bool(r) {
				b.BgpPeerAdjacencySid = sid()
			}
			if c18Bool(r) {
				b.BgpPeerSetSid = sid()
			}
			ls.BgpPeerSegment = b
		default:
			class += "srv6sid"
			s := &api.LsAttributeSrv6SID{}
			if c18Bool(r) {
				s.Srv6SidStructure = &api.LsSrv6SIDStructure{LocalBlock: 32, LocalNode: 16, LocalFunc: 16, LocalArg: uint32(c18Pick(r, 0, 8))}
			}
			if c18Bool(r) {
				s.Srv6BgpPeerNodeSid = &api.LsSrv6BgpPeerNodeSID{Flags: uint32(c18U8(r)), Weight: uint32(c18U8(r)), PeerAs: c18U32(r), PeerBgpId: c18Addr4(r).String()}
			}
			if c18Bool(r) {
				s.Srv6EndpointBehavior = &api.LsSrv6EndpointBehavior{EndpointBehavior: uint32(c18U16(r)), Flags: uint32(c18U8(r)), Algorithm: uint32(c18U8(r))}
			}
			ls.Srv6Sid = s
		}
		attr(&api.Attribute{Attr: &api.Attribute_Ls{Ls: ls}}, class)
	case 4: // BGP-LS link NLRI with each optional descriptor on its own
		ld := &api.LsLinkDescriptor{}
		class := "ls-link"
		switch r.IntN(6) {
		case 0:
			v := c18Pick[uint32](r, 0, 7)
			ld.LinkLocalId = &v
			class += ":local-id-only"
		case 1:
			v := c18Pick[uint32](r, 0, 7)
			ld.LinkRemoteId = &v
			class += ":remote-id-only"
		case 2:
			a, b := c18U32(r), c18Pick[uint32](r, 0, 9)
			ld.LinkLocalId, ld.LinkRemoteId = &a, &b
		case 3:
			ld.InterfaceAddrIpv4 = c18Addr4(r).String()
		case 4:
			ld.NeighborAddrIpv6 = "2001:db8::2"
		default:
			ld = nil
			class += ":no-descriptor"
		}
		n := &api.LsAddrPrefix{Type: api.LsNLRIType_LS_NLRI_TYPE_LINK, ProtocolId: api.LsProtocolID(1 + r.IntN(7)), Identifier: c18U64(r),
			Nlri: &api.LsAddrPrefix_LsNLRI{Nlri: &api.LsAddrPrefix_LsNLRI_Link{Link: &api.LsLinkNLRI{LocalNode: c18APILsNodeDesc(r), RemoteNode: c18APILsNodeDesc(r), LinkDescriptor: ld}}}}
		nlri(bgp.RF_LS, &api.NLRI{Nlri: &api.NLRI_LsAddrPrefix{LsAddrPrefix: n}}, class)
	case 5: // BGP-LS node / prefix / SRv6 SID NLRI
		var inner *api.LsAddrPrefix_LsNLRI
		var t api.LsNLRIType
		class := "ls-"
		switch r.IntN(4) {
		case 0:
			t, class = api.LsNLRIType_LS_NLRI_TYPE_NODE, class+"node"
			inner = &api.LsAddrPrefix_LsNLRI{Nlri: &api.LsAddrPrefix_LsNLRI_Node{Node: &api.LsNodeNLRI{LocalNode: c18APILsNodeDesc(r)}}}
		case 1:
			t, class = api.LsNLRIType_LS_NLRI_TYPE_PREFIX_V4, class+"prefix4"
			pd := &api.LsPrefixDescriptor{IpReachability: []string{c18Prefix4(r).String()}}
			if c18Bool(r) {
				pd.OspfRouteType = api.LsOspfRouteType(1 + r.IntN(6))
			}
			inner = &api.LsAddrPrefix_LsNLRI{Nlri: &api.LsAddrPrefix_LsNLRI_PrefixV4{PrefixV4: &api.LsPrefixV4NLRI{LocalNode: c18APILsNodeDesc(r), PrefixDescriptor: pd}}}
		case 2:
			t, class = api.LsNLRIType_LS_NLRI_TYPE_PREFIX_V6, class+"prefix6"
			px := c18Prefix6(r)
			for px.Addr().Is4In6() {
				px = c18Prefix6(r)
			}
			pd := &api.LsPrefixDescriptor{IpReachability: []string{px.String()}}
			if c18Bool(r) {
				pd.OspfRouteType = api.LsOspfRouteType(1 + r.IntN(6))
			}
			inner = &api.LsAddrPrefix_LsNLRI{Nlri: &api.LsAddrPrefix_LsNLRI_PrefixV6{PrefixV6: &api.LsPrefixV6NLRI{LocalNode: c18APILsNodeDesc(r), PrefixDescriptor: pd}}}
		default:
			t, class = api.LsNLRIType_LS_NLRI_TYPE_SRV6_SID, class+"srv6sid"
			s := &api.LsSrv6SIDNLRI{LocalNode: c18APILsNodeDesc(r), Srv6SidInformation: &api.LsSrv6SIDInformation{Sids: []string{"2001:db8:0:1::"}}}
			switch r.IntN(3) {
			case 0:
				s.MultiTopoId = &api.LsMultiTopologyIdentifier{MultiTopoIds: []uint32{uint32(r.IntN(4096))}}
			case 1:
				s.MultiTopoId = &api.LsMultiTopologyIdentifier{}
				class += ":empty-mt"
			}
			inner = &api.LsAddrPrefix_LsNLRI{Nlri: &api.LsAddrPrefix_LsNLRI_Srv6Sid{Srv6Sid: s}}
		}
		n := &api.LsAddrPrefix{Type: t, ProtocolId: api.LsProtocolID(1 + r.IntN(7)), Identifier: c18U64(r), Nlri: inner}
		nlri(bgp.RF_LS, &api.NLRI{Nlri: &api.NLRI_LsAddrPrefix{LsAddrPrefix: n}}, class)
	case 6: // EVPN MAC/IP with and without the optional address, one or two labels
		m := &api.EVPNMACIPAdvertisementRoute{Rd: c18APIRD(r), Esi: &api.EthernetSegmentIdentifier{Type: 0, Value: make([]byte, 9)}, EthernetTag: c18U32(r), MacAddress: c18MAC(r), Labels: []uint32{c18U24(r)}}
		class := "evpn-macip"
		switch r.IntN(3) {
		case 0:
			m.IpAddress = c18Addr4(r).String()
		case 1:
			m.IpAddress = "2001:db8::7"
		default:
			class += ":no-ip"
		}
		if c18Bool(r) {
			m.Labels = append(m.Labels, c18U24(r))
		}
		nlri(bgp.RF_EVPN, &api.NLRI{Nlri: &api.NLRI_EvpnMacadv{EvpnMacadv: m}}, class)
	case 7: // MP_REACH next-hop variants
		f := c18Pick(r, bgp.RF_IPv6_UC, bgp.RF_IPv4_UC, bgp.RF_IPv6_VPN, bgp.RF_IPv4_MPLS)
		var n *api.NLRI
		switch f {
		case bgp.RF_IPv6_UC:
			p := c18Prefix6(r)
			n = &api.NLRI{Nlri: &api.NLRI_Prefix{Prefix: &api.IPAddressPrefix{Prefix: p.Addr().String(), PrefixLen: uint32(p.Bits())}}}
		case bgp.RF_IPv4_UC:
			p := c18Prefix4(r)
			n = &api.NLRI{Nlri: &api.NLRI_Prefix{Prefix: &api.IPAddressPrefix{Prefix: p.Addr().String(), PrefixLen: uint32(p.Bits())}}}
		case bgp.RF_IPv6_VPN:
			p := c18Prefix6(r)
			n = &api.NLRI{Nlri: &api.NLRI_LabeledVpnIpPrefix{LabeledVpnIpPrefix: &api.LabeledVPNIPAddressPrefix{Labels: []uint32{c18Label(r)}, Rd: c18APIRD(r), Prefix: p.Addr().String(), PrefixLen: uint32(p.Bits())}}}
		default:
			p := c18Prefix4(r)
			n = &api.NLRI{Nlri: &api.NLRI_LabeledPrefix{LabeledPrefix: &api.LabeledIPAddressPrefix{Labels: []uint32{c18Label(r)}, Prefix: p.Addr().String(), PrefixLen: uint32(p.Bits())}}}
		}
		mp := &api.MpReachNLRIAttribute{Family: c18APIFamily(f), Nlris: []*api.NLRI{n}}
		class := "mpreach:" + f.String()
		switch r.IntN(4) {
		case 0:
			class += ":no-nexthop"
		case 1:
			mp.NextHops = []string{c18Addr4(r).String()}
			class += ":v4"
		case 2:
			mp.NextHops = []string{"2001:db8::1"}
			class += ":v6"
		default:
			mp.NextHops = []string{"2001:db8::1", c18LinkLocal6(r).String()}
			class += ":v6+ll"
		}
		attr(&api.Attribute{Attr: &api.Attribute_MpReach{MpReach: mp}}, class)
	case 8: // route target membership: default / AS only / AS + RT of each kind
		m := &api.RouteTargetMembershipNLRI{}
		class := "rtc"
		switch r.IntN(5) {
		case 0:
			class += ":default"
		case 1:
			m.Asn = c18U32(r)
			class += ":asn-only"
		case 2:
			m.Asn = c18U32(r)
			m.Rt = &api.RouteTarget{Rt: &api.RouteTarget_TwoOctetAsSpecific{TwoOctetAsSpecific: &api.TwoOctetAsSpecificExtended{IsTransitive: true, SubType: 2, Asn: uint32(c18U16(r)), LocalAdmin: c18U32(r)}}}
		case 3:
			m.Asn = c18U32(r)
			m.Rt = &api.RouteTarget{Rt: &api.RouteTarget_Ipv4AddressSpecific{Ipv4AddressSpecific: &api.IPv4AddressSpecificExtended{IsTransitive: true, SubType: 2, Address: c18Addr4(r).String(), LocalAdmin: uint32(c18U16(r))}}}
		default:
			m.Asn = c18U32(r)
			m.Rt = &api.RouteTarget{Rt: &api.RouteTarget_FourOctetAsSpecific{FourOctetAsSpecific: &api.FourOctetAsSpecificExtended{IsTransitive: true, SubType: 2, Asn: c18U32(r), LocalAdmin: uint32(c18U16(r))}}}
		}
		nlri(bgp.RF_RTC_UC, &api.NLRI{Nlri: &api.NLRI_RouteTargetMembership{RouteTargetMembership: m}}, class)
	case 9: // capabilities with every defined flag bit
		var a *api.Capability
		class := "cap-"
		switch r.IntN(4) {
		case 0:
			class += "gr"
			g := &api.GracefulRestartCapability{Flags: uint32(c18Pick(r, 0, 0x8, 0x4, 0xc)), Time: uint32(c18Pick(r, 0, 1, 120, 4095))}
			for i := c18SmallLen(r, 3); i > 0; i-- {
				g.Tuples = append(g.Tuples, &api.GracefulRestartCapabilityTuple{Family: c18APIFamily(c18CapFamily(r)), Flags: uint32(c18Pick(r, 0, 0x80))})
			}
			a = &api.Capability{Cap: &api.Capability_GracefulRestart{GracefulRestart: g}}
		case 1:
			class += "llgr"
			g := &api.LongLivedGracefulRestartCapability{}
			for i := c18SmallLen(r, 3); i > 0; i-- {
				g.Tuples = append(g.Tuples, &api.LongLivedGracefulRestartCapabilityTuple{Family: c18APIFamily(c18CapFamily(r)), Flags: uint32(c18Pick(r, 0, 0x80)), Time: c18U24(r)})
			}
			a = &api.Capability{Cap: &api.Capability_LongLivedGracefulRestart{LongLivedGracefulRestart: g}}
		case 2:
			class += "addpath"
			g := &api.AddPathCapability{}
			for i := 1 + c18SmallLen(r, 3); i > 0; i-- {
				g.Tuples = append(g.Tuples, &api.AddPathCapabilityTuple{Family: c18APIFamily(c18CapFamily(r)), Mode: api.AddPathCapabilityTuple_Mode(r.IntN(4))})
			}
			a = &api.Capability{Cap: &api.Capability_AddPath{AddPath: g}}
		default:
			class += "extnh"
			g := &api.ExtendedNexthopCapability{}
			for i := 1 + c18SmallLen(r, 3); i > 0; i-- {
				g.Tuples = append(g.Tuples, &api.ExtendedNexthopCapabilityTuple{NlriFamily: c18APIFamily(c18CapFamily(r)), NexthopFamily: c18APIFamily(c18Pick(r, bgp.RF_IPv4_UC, bgp.RF_IPv6_UC))})
			}
			a = &api.Capability{Cap: &api.Capability_ExtendedNexthop{ExtendedNexthop: g}}
		}
		c18CapFromAPI(c, a, "hand:"+class)
	case 10: // MUP type 1 session transformed: optional source address
		f := c18Pick(r, bgp.RF_MUP_IPv4, bgp.RF_MUP_IPv6)
		p := c18Prefix(r, f == bgp.RF_MUP_IPv6)
		ea := c18Addr(r, c18Bool(r))
		m := &api.MUPType1SessionTransformedRoute{Rd: c18APIRD(r), Prefix: p.String(), Teid: c18U32(r), Qfi: uint32(c18U8(r)), EndpointAddressLength: uint32(ea.BitLen()), EndpointAddress: ea.String()}
		class := "mup-t1st"
		if c18Bool(r) {
			sa := c18Addr(r, c18Bool(r))
			m.SourceAddress, m.SourceAddressLength = sa.String(), uint32(sa.BitLen())
			class += "+source"
		}
		nlri(f, &api.NLRI{Nlri: &api.NLRI_MupType_1SessionTransformed{MupType_1SessionTransformed: m}}, class)
	case 11: // PMSI tunnel: flags, ingress replication vs opaque identifier
		p := &api.PmsiTunnelAttribute{Flags: uint32(c18Pick(r, 0, 1)), Type: uint32(c18Pick(r, 0, 1, 6, 7)), Label: c18U24(r)}
		class := fmt.Sprintf("pmsi:type%d", p.Type)
		if p.Type == 6 {
			p.Id = c18Addr(r, c18Bool(r)).AsSlice()
		} else {
			p.Id = c18Bytes(r, c18Pick(r, 0, 4, 12))
		}
		attr(&api.Attribute{Attr: &api.Attribute_PmsiTunnel{PmsiTunnel: p}}, class)
	case 12: // AS_PATH / AS4_PATH with empty segments and every segment type
		var segs []*api.AsSegment
		for i := c18SmallLen(r, 3); i > 0; i-- {
			s := &api.AsSegment{Type: api.AsSegment_Type(1 + r.IntN(4))}
			for j := c18SmallLen(r, 3); j > 0; j-- {
				s.Numbers = append(s.Numbers, c18U32(r))
			}
			segs = append(segs, s)
		}
		if c18Bool(r) {
			attr(&api.Attribute{Attr: &api.Attribute_AsPath{AsPath: &api.AsPathAttribute{Segments: segs}}}, "aspath")
		} else {
			attr(&api.Attribute{Attr: &api.Attribute_As4Path{As4Path: &api.As4PathAttribute{Segments: segs}}}, "as4path")
		}
	case 13: // attributes whose message has no field at all / only defaults
		switch r.IntN(6) {
		case 0:
			attr(&api.Attribute{Attr: &api.Attribute_AtomicAggregate{AtomicAggregate: &api.AtomicAggregateAttribute{}}}, "atomic-aggregate")
		case 1:
			attr(&api.Attribute{Attr: &api.Attribute_Communities{Communities: &api.CommunitiesAttribute{}}}, "communities-empty")
		case 2:
			attr(&api.Attribute{Attr: &api.Attribute_ExtendedCommunities{ExtendedCommunities: &api.ExtendedCommunitiesAttribute{}}}, "extcomm-empty")
		case 3:
			attr(&api.Attribute{Attr: &api.Attribute_LargeCommunities{LargeCommunities: &api.LargeCommunitiesAttribute{}}}, "largecomm-empty")
		case 4:
			attr(&api.Attribute{Attr: &api.Attribute_ClusterList{ClusterList: &api.ClusterListAttribute{}}}, "clusterlist-empty")
		default:
			attr(&api.Attribute{Attr: &api.Attribute_Unknown{Unknown: &api.UnknownAttribute{Flags: uint32(c18Pick(r, 0xc0, 0xe0, 0x80, 0x40)), Type: uint32(c18Pick(r, 30, 99, 200, 255))}}}, "unknown-empty")
		}
	case 14: // flow specification: VPN flavour with RD, IPv6 prefix offsets
		f := c18Pick(r, bgp.RF_FS_IPv6_UC, bgp.RF_FS_IPv6_VPN, bgp.RF_FS_IPv4_VPN)
		v6 := f.Afi() == bgp.AFI_IP6
		p := c18Prefix(r, v6)
		rule := &api.FlowSpecIPPrefix{Type: uint32(c18Pick(r, 1, 2)), Prefix: p.Addr().String(), PrefixLen: uint32(p.Bits())}
		if v6 && p.Bits() > 0 {
			rule.Offset = uint32(r.IntN(p.Bits() + 1))
		}
		rules := []*api.FlowSpecRule{{Rule: &api.FlowSpecRule_IpPrefix{IpPrefix: rule}}, {Rule: &api.FlowSpecRule_Component{Component: &api.FlowSpecComponent{Type: 3, Items: []*api.FlowSpecComponentItem{{Op: 0x81, Value: 6}}}}}}
		if f == bgp.RF_FS_IPv6_UC {
			nlri(f, &api.NLRI{Nlri: &api.NLRI_FlowSpec{FlowSpec: &api.FlowSpecNLRI{Rules: rules}}}, "flowspec6")
		} else {
			nlri(f, &api.NLRI{Nlri: &api.NLRI_VpnFlowSpec{VpnFlowSpec: &api.VPNFlowSpecNLRI{Rd: c18APIRD(r), Rules: rules}}}, "flowspec-vpn")
		}
	default: // aggregator / AIGP / ipv6 extended communities
		switch r.IntN(3) {
		case 0:
			attr(&api.Attribute{Attr: &api.Attribute_Aggregator{Aggregator: &api.AggregatorAttribute{Asn: c18U32(r), Address: c18Addr4(r).String()}}}, "aggregator")
		case 1:
			attr(&api.Attribute{Attr: &api.Attribute_Aigp{Aigp: &api.AigpAttribute{Tlvs: []*api.AigpAttribute_TLV{{Tlv: &api.AigpAttribute_TLV_IgpMetric{IgpMetric: &api.AigpTLVIGPMetric{Metric: c18U64(r)}}},
				{Tlv: &api.AigpAttribute_TLV_Unknown{Unknown: &api.AigpTLVUnknown{Type: uint32(c18Pick(r, 2, 200)), Value: c18Bytes(r, c18Pick(r, 0, 3))}}}}}}}, "aigp")
		default:
			attr(&api.Attribute{Attr: &api.Attribute_Ip6ExtendedCommunities{Ip6ExtendedCommunities: &api.IP6ExtendedCommunitiesAttribute{Communities: []*api.IP6ExtendedCommunitiesAttribute_Community{
				{Extcom: &api.IP6ExtendedCommunitiesAttribute_Community_Ipv6AddressSpecific{Ipv6AddressSpecific: &api.IPv6AddressSpecificExtended{IsTransitive: c18Bool(r), SubType: uint32(c18Pick(r, 2, 3)), Address: "2001:db8::9", LocalAdmin: uint32(c18U16(r))}}},
				{Extcom: &api.IP6ExtendedCommunitiesAttribute_Community_RedirectIpv6AddressSpecific{RedirectIpv6AddressSpecific: &api.RedirectIPv6AddressSpecificExtended{Address: "2001:db8::a", LocalAdmin: uint32(c18U16(r))}}}}}}}, "ip6extcomm")
		}
	}
}
