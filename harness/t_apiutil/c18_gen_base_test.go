package apiutil

// C18 generator of native bgp values: a copy of the C04/C05 generator (/verif/harness/t_bgp/gen_*_test.go)
// restricted to the exported API of pkg/packet/bgp (dot-imported so that the copied code stays textually
// close to its origin). Every identifier in the c18_gen_*_test.go files is prefixed with c18.
//
// gen_base: value pools biased to boundaries, option sets.

import (
	. "github.com/osrg/gobgp/v4/pkg/packet/bgp"
	"fmt"
	"math/rand/v2"
	"net/netip"
	"sort"
	"strings"
)

func c18Pick[T any](r *rand.Rand, xs ...T) T { return xs[r.IntN(len(xs))] }

func c18Bool(r *rand.Rand) bool { return r.IntN(2) == 0 }

// c18Chance is true with probability 1/n.
func c18Chance(r *rand.Rand, n int) bool { return r.IntN(n) == 0 }

var c18U32Pool = []uint32{0, 1, 2, 255, 256, 4095, 4096, 4097, 23456, 64511, 64512, 65534, 65535, 65536, 65537, 1 << 20, 1<<20 - 1, 1 << 24, 1<<24 - 1, 4199999999, 4200000000, 4294967294, 4294967295}

func c18U32(r *rand.Rand) uint32 {
	if c18Bool(r) {
		return c18U32Pool[r.IntN(len(c18U32Pool))]
	}
	return r.Uint32()
}

func c18U16(r *rand.Rand) uint16 {
	if c18Bool(r) {
		return c18Pick[uint16](r, 0, 1, 2, 3, 254, 255, 256, 4095, 4096, 23456, 64512, 65534, 65535)
	}
	return uint16(r.Uint32())
}

func c18U8(r *rand.Rand) uint8 {
	if c18Bool(r) {
		return c18Pick[uint8](r, 0, 1, 2, 3, 4, 7, 8, 31, 32, 63, 64, 127, 128, 129, 254, 255)
	}
	return uint8(r.Uint32())
}

func c18U64(r *rand.Rand) uint64 {
	if c18Bool(r) {
		return c18Pick[uint64](r, 0, 1, 255, 256, 65535, 65536, 1<<32-1, 1<<32, 1<<63, 1<<64-1)
	}
	return r.Uint64()
}

func c18Label(r *rand.Rand) uint32 {
	if c18Bool(r) {
		return c18Pick[uint32](r, 0, 1, 2, 3, 15, 16, 1000, 524287, 524288, 524289, 1<<20-2, 1<<20-1)
	}
	return r.Uint32() & (1<<20 - 1)
}

func c18U24(r *rand.Rand) uint32 {
	if c18Bool(r) {
		return c18Pick[uint32](r, 0, 1, 16, 255, 256, 65535, 65536, 0x800000, 0x7fffff, 0xfffffe, 0xffffff)
	}
	return r.Uint32() & 0xffffff
}

// c18Bytes returns n pseudo random octets in a slice with spare capacity.
func c18Bytes(r *rand.Rand, n int) []byte {
	b := make([]byte, n, n+8)
	for i := range b {
		b[i] = byte(r.Uint32())
	}
	switch r.IntN(6) {
	case 0:
		for i := range b {
			b[i] = 0
		}
	case 1:
		for i := range b {
			b[i] = 0xff
		}
	}
	return b
}

// c18SmallLen is a small count biased to 0/1/2.
func c18SmallLen(r *rand.Rand, max int) int {
	if max <= 0 {
		return 0
	}
	switch r.IntN(4) {
	case 0:
		return r.IntN(max + 1)
	case 1:
		return 1
	default:
		return r.IntN(min(max, 3) + 1)
	}
}

// c18Count returns an element count for elements of size sz such that the value length lands
// on / next to the 255|256 boundary (or, if big, next to 4096 / 65535), otherwise a small count.
func c18Count(r *rand.Rand, sz int, big bool) int {
	if big {
		target := c18Pick(r, 252, 253, 254, 255, 256, 257, 258, 260, 264, 511, 512, 1000, 4000, 4060, 4070, 4075, 4080, 4090, 4096, 4100, 9000, 65000, 65400, 65500, 65535)
		d := c18Pick(r, 0, 0, 1, -1)
		n := target/sz + d
		if n < 0 {
			n = 0
		}
		if n*sz > 65535 {
			n = 65535 / sz
		}
		return n
	}
	return c18SmallLen(r, 6)
}

func c18Addr4(r *rand.Rand) netip.Addr {
	var a [4]byte
	switch r.IntN(8) {
	case 0:
		a = [4]byte{0, 0, 0, 0}
	case 1:
		a = [4]byte{255, 255, 255, 255}
	case 2:
		a = [4]byte{127, 0, 0, 1}
	case 3:
		a = [4]byte{224, 0, 0, 5}
	case 4:
		a = [4]byte{10, 0, 0, byte(r.IntN(4))}
	default:
		for i := range a {
			a[i] = byte(r.Uint32())
		}
	}
	return netip.AddrFrom4(a)
}

func c18Addr6(r *rand.Rand) netip.Addr {
	var a [16]byte
	switch r.IntN(8) {
	case 0:
	case 1:
		for i := range a {
			a[i] = 0xff
		}
	case 2:
		a[15] = 1
	case 3: // v4-mapped
		a[10], a[11] = 0xff, 0xff
		a[12], a[13], a[14], a[15] = 192, 0, 2, byte(r.Uint32())
	case 4:
		a[0], a[1], a[2], a[3] = 0x20, 0x01, 0x0d, 0xb8
		a[15] = byte(r.IntN(4))
	case 5: // link local
		a[0], a[1] = 0xfe, 0x80
		a[15] = byte(r.Uint32())
	default:
		for i := range a {
			a[i] = byte(r.Uint32())
		}
	}
	return netip.AddrFrom16(a)
}

func c18LinkLocal6(r *rand.Rand) netip.Addr {
	var a [16]byte
	a[0], a[1] = 0xfe, 0x80
	for i := 8; i < 16; i++ {
		a[i] = byte(r.Uint32())
	}
	return netip.AddrFrom16(a)
}

func c18Addr(r *rand.Rand, v6 bool) netip.Addr {
	if v6 {
		return c18Addr6(r)
	}
	return c18Addr4(r)
}

func c18Prefix4(r *rand.Rand) netip.Prefix {
	bits := c18Pick(r, 0, 1, 7, 8, 9, 15, 16, 17, 23, 24, 24, 24, 25, 30, 31, 32, 32)
	if c18Chance(r, 4) {
		bits = r.IntN(33)
	}
	return netip.PrefixFrom(c18Addr4(r), bits).Masked()
}

func c18Prefix6(r *rand.Rand) netip.Prefix {
	bits := c18Pick(r, 0, 1, 7, 8, 9, 32, 48, 63, 64, 64, 65, 96, 120, 127, 128, 128)
	if c18Chance(r, 4) {
		bits = r.IntN(129)
	}
	return netip.PrefixFrom(c18Addr6(r), bits).Masked()
}

func c18Prefix(r *rand.Rand, v6 bool) netip.Prefix {
	if v6 {
		return c18Prefix6(r)
	}
	return c18Prefix4(r)
}

func c18RD(r *rand.Rand) RouteDistinguisherInterface {
	switch r.IntN(3) {
	case 0:
		return NewRouteDistinguisherTwoOctetAS(c18U16(r), c18U32(r))
	case 1:
		rd, _ := NewRouteDistinguisherIPAddressAS(c18Addr4(r), c18U16(r))
		return rd
	default:
		return NewRouteDistinguisherFourOctetAS(c18U32(r), c18U16(r))
	}
}

func c18MAC(r *rand.Rand) string {
	b := c18Bytes(r, 6)
	return fmt.Sprintf("%02x:%02x:%02x:%02x:%02x:%02x", b[0], b[1], b[2], b[3], b[4], b[5])
}

func c18String(r *rand.Rand, n int) string {
	const al = "abcdefghijklmnopqrstuvwxyz0123456789-._ABC"
	var sb strings.Builder
	for i := 0; i < n; i++ {
		sb.WriteByte(al[r.IntN(len(al))])
	}
	return sb.String()
}

// ---- address families

var c18Families = []Family{
	RF_IPv4_UC, RF_IPv6_UC, RF_IPv4_MC, RF_IPv6_MC, RF_IPv4_VPN, RF_IPv6_VPN, RF_IPv4_VPN_MC, RF_IPv6_VPN_MC,
	RF_IPv4_MPLS, RF_IPv6_MPLS, RF_VPLS, RF_EVPN, RF_RTC_UC, RF_IPv4_ENCAP, RF_IPv6_ENCAP,
	RF_FS_IPv4_UC, RF_FS_IPv4_VPN, RF_FS_IPv6_UC, RF_FS_IPv6_VPN, RF_FS_L2_VPN, RF_OPAQUE, RF_LS,
	RF_SR_POLICY_IPv4, RF_SR_POLICY_IPv6, RF_MUP_IPv4, RF_MUP_IPv6,
}

// c18CoreFamilies: IPv4/IPv6 unicast, multicast, labelled, VPN (the "core families" of C04).
var c18CoreFamilies = []Family{
	RF_IPv4_UC, RF_IPv6_UC, RF_IPv4_MC, RF_IPv6_MC, RF_IPv4_MPLS, RF_IPv6_MPLS, RF_IPv4_VPN, RF_IPv6_VPN, RF_IPv4_VPN_MC, RF_IPv6_VPN_MC,
}

func c18IsCore(f Family) bool {
	for _, c := range c18CoreFamilies {
		if c == f {
			return true
		}
	}
	return false
}

func c18Family(r *rand.Rand) Family {
	if c18Chance(r, 3) {
		return c18CoreFamilies[r.IntN(len(c18CoreFamilies))]
	}
	return c18Families[r.IntN(len(c18Families))]
}

// ---- option sets

// c18OptSet is one combination of negotiated session options. Ser is what the sender passes to
// Serialize, Par what the receiver passes to the parser (they describe the same session).
type c18OptSet struct {
	Ser     []*MarshallingOption
	Par     []*MarshallingOption
	AddPath map[Family]bool
	AS2     bool
	Ext     bool
	MRT     bool
	Key     string
}

func (o *c18OptSet) addPath(f Family) bool { return o.AddPath[f] }

func c18MakeOptSet(ap map[Family]bool, as2, ext, mrt, split bool) *c18OptSet {
	o := &c18OptSet{AddPath: ap, AS2: as2, Ext: ext, MRT: mrt}
	var names []string
	for f, on := range ap {
		if on {
			names = append(names, f.String())
		}
	}
	sort.Strings(names)
	o.Key = "ap[" + strings.Join(names, ",") + "]"
	if as2 {
		o.Key += "|as2"
	}
	if ext {
		o.Key += "|ext"
	}
	if mrt {
		o.Key += "|mrt"
	}
	mk := func(mode BGPAddPathMode) *MarshallingOption {
		m := &MarshallingOption{Use2ByteAS: as2, ExtendedMessage: ext, MRT: mrt}
		if len(ap) > 0 {
			m.AddPath = map[Family]BGPAddPathMode{}
			for f, on := range ap {
				if on {
					m.AddPath[f] = mode
				} else {
					m.AddPath[f] = BGP_ADD_PATH_NONE
				}
			}
		}
		return m
	}
	if split {
		o.Key += "|split"
		o.Ser = []*MarshallingOption{mk(BGP_ADD_PATH_SEND)}
		o.Par = []*MarshallingOption{mk(BGP_ADD_PATH_RECEIVE)}
	} else {
		m := mk(BGP_ADD_PATH_BOTH)
		o.Ser = []*MarshallingOption{m}
		o.Par = []*MarshallingOption{m}
	}
	return o
}

// c18Options draws an option set; focus (may be zero) is a family made more likely to have
// ADD-PATH on. mrt allows the MRT flag (C05 only).
func c18Options(r *rand.Rand, mrt bool) *c18OptSet {
	ap := map[Family]bool{}
	switch r.IntN(6) {
	case 0, 1: // none
	case 2:
		ap[RF_IPv4_UC] = true
	case 3:
		for _, f := range c18Families {
			ap[f] = true
		}
	default:
		for _, f := range c18Families {
			if c18Chance(r, 3) {
				ap[f] = true
			} else if c18Chance(r, 4) {
				ap[f] = false
			}
		}
	}
	return c18MakeOptSet(ap, c18Chance(r, 3), c18Chance(r, 3), mrt && c18Chance(r, 6), c18Chance(r, 4))
}

// ---- stand-ins for the two unexported identifiers the original generator uses

const c18LsNLRIHdrLen = 9 // protocol id (1) + identifier (8), RFC 7752 3.2

func c18PathAttrFlags(typ BGPAttrType, length int) BGPAttrFlag {
	flags := PathAttrFlags[typ]
	if length > 255 {
		flags |= BGP_ATTR_FLAG_EXTENDED_LENGTH
	}
	return flags
}
