// Package refmodel holds reference models shared by harness units of several packages.
//
// c09_export.go — reference for property C09 (per-peer-type export rewriting and loop prevention).
//
// The reference is written from the property text and RFC 4271 (5.1.x, 9.1.2, 9.2), RFC 4456 (6, 8),
// RFC 5065 (4, 5), RFC 7947 (2.2), RFC 6996 and the option descriptions in pkg/config/oc (openconfig
// remove-private-as / replace-peer-as / allow-own-as / local-as). It works on a plain observation of an
// attribute list (C09Obs) and never calls code of internal/pkg/table or pkg/server. Where the documents
// leave a choice the expectation holds the whole admissible set.
package refmodel

import (
	"encoding/hex"
	"fmt"
	"math/rand/v2"
	"net/netip"
	"sort"
	"strings"

	"github.com/osrg/gobgp/v4/pkg/config/oc"
	"github.com/osrg/gobgp/v4/pkg/packet/bgp"
)

// ---------------------------------------------------------------- model of the local router and its peers

type C09Kind int

const (
	C09Local C09Kind = iota
	C09EBGP
	C09IBGP
	C09RRClient
	C09RSClient
	C09Confed
)

var c09KindNames = [...]string{"local", "ebgp", "ibgp", "rrclient", "rsclient", "confed"}

func (k C09Kind) String() string { return c09KindNames[k] }
func (k C09Kind) Internal() bool { return k == C09IBGP || k == C09RRClient }

type C09Router struct {
	AS       uint32 // member AS when Confed
	RouterID netip.Addr
	Confed   bool
	ConfedID uint32
	Members  []uint32
}

type C09Peer struct {
	Kind            C09Kind
	AS              uint32
	LocalASOverride uint32 // local-as option, 0 = not set
	Addr            netip.Addr
	LocalAddr       netip.Addr
	RouterID        netip.Addr
	ClusterID       netip.Addr // configured cluster id of an RR client; invalid = default
	RemovePrivate   string     // "", "all", "replace"
	ReplacePeerAS   bool
	AllowOwnAS      uint8
	AllowLoopLocal  bool
	// Negotiated: the neighbour is configured WITHOUT peer-as; Kind / AS are what the session turns out to be
	// (the FSM derives the peer type from the AS in the peer's OPEN and records it in State only).
	Negotiated bool
}

// LocalAS is the AS the local router presents on this session: the local-as option if set, the
// confederation identifier towards peers outside the confederation (RFC 5065), else the router's AS.
func (p *C09Peer) LocalAS(rt *C09Router) uint32 {
	if p.LocalASOverride != 0 {
		return p.LocalASOverride
	}
	if rt.Confed && (p.Kind == C09EBGP || p.Kind == C09RSClient) {
		return rt.ConfedID
	}
	return rt.AS
}

// EffClusterID: RFC 4456 sec. 7, the cluster id defaults to the router id.
func (p *C09Peer) EffClusterID(rt *C09Router) netip.Addr {
	if p.ClusterID.IsValid() {
		return p.ClusterID
	}
	return rt.RouterID
}

func (p *C09Peer) Options() string {
	if p == nil {
		return "-"
	}
	var o []string
	if p.RemovePrivate != "" {
		o = append(o, "rpa="+p.RemovePrivate)
	}
	if p.ReplacePeerAS {
		o = append(o, "replace-peer-as")
	}
	if p.LocalASOverride != 0 {
		o = append(o, "local-as")
	}
	if p.AllowLoopLocal {
		o = append(o, "allow-loop-local")
	}
	if p.ClusterID.IsValid() {
		o = append(o, "cluster-id")
	}
	if p.Negotiated {
		o = append(o, "peer-as-unset")
	}
	if p.LocalAddr.Is6() {
		o = append(o, "v6-session")
	}
	if len(o) == 0 {
		return "none"
	}
	return strings.Join(o, ",")
}

func (p *C09Peer) Describe() map[string]any {
	if p == nil {
		return map[string]any{"kind": "local"}
	}
	return map[string]any{"kind": p.Kind.String(), "as": p.AS, "local_as_option": p.LocalASOverride, "addr": p.Addr.String(), "local_addr": p.LocalAddr.String(),
		"router_id": p.RouterID.String(), "cluster_id": p.ClusterID.String(), "remove_private_as": p.RemovePrivate, "replace_peer_as": p.ReplacePeerAS,
		"allow_own_as": p.AllowOwnAS, "allow_as_path_loop_local": p.AllowLoopLocal, "peer_as_unset": p.Negotiated}
}

func (rt *C09Router) Describe() map[string]any {
	return map[string]any{"as": rt.AS, "router_id": rt.RouterID.String(), "confederation": rt.Confed, "confed_id": rt.ConfedID, "members": rt.Members}
}

// C09Global / C09Neighbor produce the configuration structs the way a user would write them; every
// derived (State) field is filled by gobgp's own oc.SetDefaultNeighborConfigValues.
func C09Global(rt *C09Router) *oc.Global {
	g := &oc.Global{Config: oc.GlobalConfig{As: rt.AS, RouterId: rt.RouterID}}
	if rt.Confed {
		g.Confederation.Config.Enabled = true
		g.Confederation.Config.Identifier = rt.ConfedID
		g.Confederation.Config.MemberAsList = append([]uint32{}, rt.Members...)
		g.Confederation.State = oc.ConfederationState{Enabled: true, Identifier: rt.ConfedID, MemberAsList: append([]uint32{}, rt.Members...)}
	}
	g.State.As = rt.AS
	g.State.RouterId = rt.RouterID
	return g
}

func C09Neighbor(g *oc.Global, rt *C09Router, p *C09Peer) (*oc.Neighbor, error) {
	n := &oc.Neighbor{}
	n.Config.PeerAs = p.AS
	n.Config.NeighborAddress = p.Addr
	n.Config.LocalAs = p.LocalASOverride
	n.Config.RemovePrivateAs = oc.RemovePrivateAsOption(p.RemovePrivate)
	n.State.NeighborAddress = p.Addr
	n.State.RemoteRouterId = p.RouterID
	n.Transport.Config.LocalAddress = p.LocalAddr
	n.Transport.State.LocalAddress = p.LocalAddr
	n.Transport.State.RemoteAddress = p.Addr
	n.AsPathOptions.Config.AllowOwnAs = p.AllowOwnAS
	n.AsPathOptions.Config.ReplacePeerAs = p.ReplacePeerAS
	n.AsPathOptions.Config.AllowAsPathLoopLocal = p.AllowLoopLocal
	if p.Kind == C09RRClient {
		n.RouteReflector.Config.RouteReflectorClient = true
		n.RouteReflector.Config.RouteReflectorClusterId = p.ClusterID
	}
	if p.Kind == C09RSClient {
		n.RouteServer.Config.RouteServerClient = true
	}
	n.AfiSafis = []oc.AfiSafi{
		{Config: oc.AfiSafiConfig{AfiSafiName: oc.AFI_SAFI_TYPE_IPV4_UNICAST, Enabled: true}},
		{Config: oc.AfiSafiConfig{AfiSafiName: oc.AFI_SAFI_TYPE_IPV6_UNICAST, Enabled: true}},
	}
	if p.Negotiated {
		n.Config.PeerAs = 0
	}
	if err := oc.SetDefaultNeighborConfigValues(n, nil, g); err != nil {
		return nil, err
	}
	if p.Negotiated {
		// Units that run no session reproduce what the FSM records at ESTABLISHED for a neighbour without
		// configured peer-as (fsm.stateChange): the AS of the peer's OPEN and the session type derived from it.
		// Config.PeerType keeps the value computed from peer-as 0.
		n.State.PeerAs = p.AS
		n.State.PeerType = oc.PEER_TYPE_EXTERNAL
		if n.Config.LocalAs == p.AS {
			n.State.PeerType = oc.PEER_TYPE_INTERNAL
		}
	}
	return n, nil
}

// ---------------------------------------------------------------- route model

type C09Seg struct {
	Type uint8
	AS   []uint32
}

type C09Unknown struct {
	Type  uint8
	Flags uint8
	Value []byte
}

type C09Route struct {
	V6          bool
	Prefix      netip.Prefix
	Origin      uint8
	HasASPath   bool
	ASPath      []C09Seg
	NextHop     netip.Addr // NEXT_HOP attribute; invalid = absent
	MP          bool       // MP_REACH_NLRI present
	MPNextHop   netip.Addr
	MPLinkLocal netip.Addr
	MED         *uint32
	LocalPref   *uint32
	Originator  netip.Addr
	ClusterList []netip.Addr // nil = absent
	AtomicAgg   bool
	Aggregator  bool
	Communities []uint32
	ExtComms    [][2]uint32 // (as, local admin) route targets
	LargeComms  [][3]uint32
	Unknown     []C09Unknown
	Shape       string
}

const (
	c09SET        = bgp.BGP_ASPATH_ATTR_TYPE_SET
	c09SEQ        = bgp.BGP_ASPATH_ATTR_TYPE_SEQ
	c09CONFED_SEQ = bgp.BGP_ASPATH_ATTR_TYPE_CONFED_SEQ
	c09CONFED_SET = bgp.BGP_ASPATH_ATTR_TYPE_CONFED_SET
)

func c09IsConfedSeg(t uint8) bool { return t == c09CONFED_SEQ || t == c09CONFED_SET }

// RFC 6996
func C09IsPrivate(as uint32) bool {
	return (as >= 64512 && as <= 65534) || (as >= 4200000000 && as <= 4294967294)
}

func C09PathText(p []C09Seg) string {
	var sb strings.Builder
	for i, s := range p {
		if i > 0 {
			sb.WriteByte(' ')
		}
		o, c := "", ""
		switch s.Type {
		case c09SET:
			o, c = "{", "}"
		case c09CONFED_SEQ:
			o, c = "(", ")"
		case c09CONFED_SET:
			o, c = "[", "]"
		case c09SEQ:
		default:
			o, c = fmt.Sprintf("?%d<", s.Type), ">"
		}
		sb.WriteString(o)
		if len(s.AS) > 12 {
			fmt.Fprintf(&sb, "%d %d ..(%d).. %d", s.AS[0], s.AS[1], len(s.AS)-3, s.AS[len(s.AS)-1])
		} else {
			for j, a := range s.AS {
				if j > 0 {
					sb.WriteByte(' ')
				}
				fmt.Fprint(&sb, a)
			}
		}
		sb.WriteString(c)
	}
	return sb.String()
}

// ---------------------------------------------------------------- generators

func c09Pick[T any](r *rand.Rand, xs ...T) T { return xs[r.IntN(len(xs))] }

func c09Addr(s string) netip.Addr { return netip.MustParseAddr(s) }

func C09GenRouter(r *rand.Rand) *C09Router {
	rt := &C09Router{
		AS:       c09Pick[uint32](r, 65000, 65000, 100, 4200000001, 70000, 64496),
		RouterID: c09Pick(r, c09Addr("1.1.1.1"), c09Addr("10.255.0.1")),
	}
	if r.IntN(3) == 0 {
		rt.Confed = true
		rt.ConfedID = c09Pick[uint32](r, 300, 65300, 80000)
		pool := []uint32{65101, 65102, 201, 4200000101}
		r.Shuffle(len(pool), func(i, j int) { pool[i], pool[j] = pool[j], pool[i] })
		rt.Members = pool[:2]
	}
	return rt
}

// C09GenPeer draws a peer of the wanted kind; k (1..200) makes addresses and router ids distinct.
func C09GenPeer(r *rand.Rand, rt *C09Router, kind C09Kind, k int) *C09Peer {
	if kind == C09Local {
		return nil
	}
	if kind == C09Confed && !rt.Confed {
		kind = C09EBGP
	}
	p := &C09Peer{Kind: kind,
		Addr:      netip.AddrFrom4([4]byte{10, 0, byte(k), 2}),
		LocalAddr: netip.AddrFrom4([4]byte{10, 0, byte(k), 1}),
		RouterID:  netip.AddrFrom4([4]byte{192, 0, 2, byte(k)}),
	}
	if r.IntN(5) < 2 {
		p.Addr = netip.MustParseAddr(fmt.Sprintf("2001:db8:%x::2", k))
		p.LocalAddr = netip.MustParseAddr(fmt.Sprintf("2001:db8:%x::1", k))
	}
	p.AllowOwnAS = uint8(c09Pick(r, 0, 0, 0, 1, 2, 3))
	switch kind {
	case C09EBGP, C09RSClient:
		for {
			p.AS = c09Pick[uint32](r, 200, 200, 65001, 65002, 4200000002, 70001, 3356, 64512)
			if p.AS != rt.AS && !(rt.Confed && (p.AS == rt.ConfedID || c09Has(rt.Members, p.AS))) {
				break
			}
		}
		if r.IntN(7) == 0 {
			p.LocalASOverride = c09Pick[uint32](r, 1000, 64999, 70099)
		}
		if kind == C09EBGP {
			p.RemovePrivate = c09Pick(r, "", "", "all", "replace")
			p.ReplacePeerAS = r.IntN(4) == 0
			p.AllowLoopLocal = r.IntN(10) == 0
		}
	case C09Confed:
		p.AS = c09Pick(r, rt.Members...)
		p.RemovePrivate = c09Pick(r, "", "", "", "all", "replace")
		p.ReplacePeerAS = r.IntN(8) == 0
	case C09IBGP:
		p.AS = rt.AS
	case C09RRClient:
		p.AS = rt.AS
		if r.IntN(2) == 0 {
			p.ClusterID = c09Pick(r, c09Addr("9.9.9.9"), c09Addr("0.0.0.7"))
		}
	}
	// a neighbour without configured peer-as: its type is only known from the session (not drawn inside a
	// confederation, where the AS presented on such a session is the confederation identifier)
	if !rt.Confed && kind != C09Confed && r.IntN(5) == 0 {
		p.Negotiated = true
	}
	return p
}

func c09Has[T comparable](xs []T, x T) bool {
	for _, y := range xs {
		if x == y {
			return true
		}
	}
	return false
}

// C09GenRoute draws a stored route as it could have been learned from src (nil = locally originated),
// aimed at the rules that depend on the targets in dsts (their AS, cluster id, local AS in the path).
func C09GenRoute(r *rand.Rand, rt *C09Router, src *C09Peer, dsts []*C09Peer) *C09Route {
	ro := &C09Route{Origin: uint8(r.IntN(3))}
	var shape []string
	srcKind := C09Local
	if src != nil {
		srcKind = src.Kind
	}
	// ---- AS_PATH
	special := []uint32{rt.AS}
	if rt.Confed {
		special = append(special, rt.ConfedID)
		special = append(special, rt.Members...)
	}
	for _, d := range dsts {
		if d != nil {
			special = append(special, d.AS, d.LocalAS(rt))
		}
	}
	if src != nil {
		special = append(special, src.AS, src.LocalAS(rt))
	}
	private := []uint32{64512, 65534, 65001, 65010, 4200000000, 4294967294, 4200000777}
	public := []uint32{100, 200, 3356, 70000, 64511, 65535, 4199999999, 4294967295, 23456, 1, 64496}
	{
		var uniq []uint32
		for _, a := range special {
			if !c09Has(uniq, a) {
				uniq = append(uniq, a)
			}
		}
		special = uniq
	}
	asn := func() uint32 {
		switch x := r.IntN(20); {
		case x < 5:
			return c09Pick(r, private...)
		case x < 8:
			return c09Pick(r, special...)
		default:
			return c09Pick(r, public...)
		}
	}
	seg := func(t uint8, n int) C09Seg {
		s := C09Seg{Type: t}
		for i := 0; i < n; i++ {
			s.AS = append(s.AS, asn())
		}
		return s
	}
	ro.HasASPath = true
	switch x := r.IntN(100); {
	case x < 4 && srcKind == C09Local:
		ro.HasASPath = false
		shape = append(shape, "aspath:absent")
	case x < 12 && (srcKind == C09Local || srcKind.Internal()):
		shape = append(shape, "aspath:empty")
	default:
		var sh []string
		if (rt.Confed && r.IntN(2) == 0) || r.IntN(40) == 0 {
			s := seg(c09CONFED_SEQ, 1+r.IntN(3))
			if src != nil && src.Kind == C09Confed && r.IntN(4) != 0 {
				s.AS[0] = src.AS
			}
			ro.ASPath = append(ro.ASPath, s)
			sh = append(sh, "CSEQ")
			if r.IntN(4) == 0 {
				ro.ASPath = append(ro.ASPath, seg(c09CONFED_SET, 1+r.IntN(3)))
				sh = append(sh, "CSET")
			}
		}
		n := 1 + r.IntN(3)
		if len(ro.ASPath) > 0 && r.IntN(3) == 0 {
			n = 0
		}
		for i := 0; i < n; i++ {
			if r.IntN(5) == 0 {
				ro.ASPath = append(ro.ASPath, seg(c09SET, 1+r.IntN(4)))
				sh = append(sh, "SET")
			} else if i == 0 && r.IntN(60) == 0 {
				ro.ASPath = append(ro.ASPath, seg(c09SEQ, 254+r.IntN(2)))
				sh = append(sh, "SEQ25x")
			} else {
				ro.ASPath = append(ro.ASPath, seg(c09SEQ, 1+r.IntN(5)))
				sh = append(sh, "SEQ")
			}
		}
		if src != nil && src.Kind == C09EBGP && r.IntN(10) < 7 {
			for i := range ro.ASPath {
				if ro.ASPath[i].Type == c09SEQ {
					ro.ASPath[i].AS[0] = src.AS
					break
				}
			}
		}
		shape = append(shape, "aspath:"+strings.Join(sh, "+"))
	}
	// classify the path content
	var nPriv, nOwn, n4 int
	privPos := map[string]bool{}
	flat := 0
	total := 0
	for _, s := range ro.ASPath {
		total += len(s.AS)
	}
	for _, s := range ro.ASPath {
		for _, a := range s.AS {
			if C09IsPrivate(a) {
				nPriv++
				switch {
				case flat == 0:
					privPos["head"] = true
				case flat == total-1:
					privPos["tail"] = true
				default:
					privPos["mid"] = true
				}
			}
			if a == rt.AS {
				nOwn++
			}
			if a > 65535 {
				n4++
			}
			flat++
		}
	}
	if nPriv > 0 {
		pp := []string{}
		for _, k := range []string{"head", "mid", "tail"} {
			if privPos[k] {
				pp = append(pp, k)
			}
		}
		shape = append(shape, "priv:"+strings.Join(pp, "+"))
	}
	if nOwn > 3 {
		nOwn = 3
	}
	shape = append(shape, fmt.Sprintf("own:%d", nOwn))
	if n4 > 0 {
		shape = append(shape, "as4")
	}
	// ---- NLRI and next hops
	unspec4, unspec6 := netip.IPv4Unspecified(), netip.IPv6Unspecified()
	nh4 := c09Pick(r, c09Addr("10.9.9.9"), c09Addr("172.16.0.5"))
	nh6 := c09Pick(r, c09Addr("2001:db8:9::9"), c09Addr("2001:db8:aa::1"))
	if src != nil && r.IntN(2) == 0 {
		if src.Addr.Is4() {
			nh4 = src.Addr
		} else {
			nh6 = src.Addr
		}
	}
	localUnspec := src == nil && r.IntN(2) == 0
	switch x := r.IntN(100); {
	case x < 55:
		ro.Prefix = netip.PrefixFrom(netip.AddrFrom4([4]byte{10, byte(r.IntN(200)), byte(r.IntN(256)), 0}), 24)
		ro.NextHop = nh4
		if localUnspec {
			ro.NextHop = unspec4
		}
		shape = append(shape, "nh:v4/v4")
	case x < 70:
		ro.V6, ro.MP = true, true
		ro.MPNextHop = nh6
		if localUnspec {
			ro.MPNextHop = unspec6
		}
		shape = append(shape, "nh:v6/global")
	case x < 82:
		ro.V6, ro.MP = true, true
		ro.MPNextHop = nh6
		ro.MPLinkLocal = c09Addr("fe80::9")
		shape = append(shape, "nh:v6/global+ll")
	case x < 94:
		ro.Prefix = netip.PrefixFrom(netip.AddrFrom4([4]byte{10, byte(r.IntN(200)), byte(r.IntN(256)), 0}), 24)
		ro.MP = true
		ro.MPNextHop = nh6
		if localUnspec {
			ro.MPNextHop = unspec6
		}
		shape = append(shape, "nh:v4/v6")
	default:
		ro.V6, ro.MP = true, true
		ro.MPNextHop = nh6
		ro.NextHop = nh4
		shape = append(shape, "nh:v6/global+NEXT_HOP")
	}
	if ro.V6 {
		ro.Prefix = netip.PrefixFrom(netip.MustParseAddr(fmt.Sprintf("2001:db8:%x:%x::", r.IntN(0xffff), r.IntN(0xffff))), 64)
	}
	if localUnspec {
		shape = append(shape, "nh-unspecified")
	}
	// ---- MED, LOCAL_PREF
	if r.IntN(2) == 0 {
		v := c09Pick[uint32](r, 0, 1, 50, 4294967295)
		ro.MED = &v
		shape = append(shape, "med")
	}
	lpProb := 2
	if srcKind.Internal() {
		lpProb = 7
	}
	if r.IntN(10) < lpProb {
		v := c09Pick[uint32](r, 0, 100, 200, 4294967295)
		ro.LocalPref = &v
		shape = append(shape, "lp")
	}
	// ---- route-reflection attributes
	rrProb := 1
	if srcKind.Internal() {
		rrProb = 10
	}
	if r.IntN(20) < rrProb {
		ro.Originator = c09Pick(r, c09Addr("192.0.2.77"), c09Addr("192.0.2.78"))
		if r.IntN(12) == 0 {
			ro.Originator = rt.RouterID
		}
		shape = append(shape, "originator")
	}
	if r.IntN(20) < rrProb {
		n := 1 + r.IntN(3)
		ro.ClusterList = []netip.Addr{}
		for i := 0; i < n; i++ {
			ro.ClusterList = append(ro.ClusterList, c09Pick(r, c09Addr("8.8.8.1"), c09Addr("8.8.8.2"), c09Addr("0.0.0.9")))
		}
		if r.IntN(8) == 0 {
			c := rt.RouterID
			for _, d := range dsts {
				if d != nil && d.Kind == C09RRClient && r.IntN(2) == 0 {
					c = d.EffClusterID(rt)
				}
			}
			ro.ClusterList[r.IntN(n)] = c
		}
		shape = append(shape, "cluster-list")
	}
	// ---- carried attributes
	if r.IntN(10) == 0 {
		ro.AtomicAgg = true
	}
	if r.IntN(10) == 0 {
		ro.Aggregator = true
	}
	if r.IntN(2) == 0 {
		for i := 1 + r.IntN(3); i > 0; i-- {
			ro.Communities = append(ro.Communities, c09Pick[uint32](r, 100<<16|1, 65000<<16|20, 0xFFFFFF01, 0xFFFFFF02, 200<<16|7))
		}
		shape = append(shape, "comm")
	}
	if r.IntN(3) == 0 {
		for i := 1 + r.IntN(2); i > 0; i-- {
			ro.ExtComms = append(ro.ExtComms, [2]uint32{uint32(c09Pick(r, 100, 65000, 200)), uint32(r.IntN(1000))})
		}
		shape = append(shape, "ext")
	}
	if r.IntN(3) == 0 {
		for i := 1 + r.IntN(2); i > 0; i-- {
			ro.LargeComms = append(ro.LargeComms, [3]uint32{c09Pick[uint32](r, 100, 70000, 4200000001), uint32(r.IntN(10)), uint32(r.IntN(10))})
		}
		shape = append(shape, "large")
	}
	// ---- unknown attributes: (optional, transitive) in all four combinations (+ partial on some)
	if r.IntN(2) == 0 {
		types := []uint8{20, 21, 27, 128, 200, 255}
		r.Shuffle(len(types), func(i, j int) { types[i], types[j] = types[j], types[i] })
		n := 1 + r.IntN(3)
		var fl []string
		for i := 0; i < n; i++ {
			var f uint8
			switch r.IntN(4) {
			case 0:
				f = 0
				fl = append(fl, "wk")
			case 1:
				f = uint8(bgp.BGP_ATTR_FLAG_TRANSITIVE)
				fl = append(fl, "wk-t")
			case 2:
				f = uint8(bgp.BGP_ATTR_FLAG_OPTIONAL)
				fl = append(fl, "o")
			case 3:
				f = uint8(bgp.BGP_ATTR_FLAG_OPTIONAL | bgp.BGP_ATTR_FLAG_TRANSITIVE)
				if r.IntN(3) == 0 {
					f |= uint8(bgp.BGP_ATTR_FLAG_PARTIAL)
				}
				fl = append(fl, "o-t")
			}
			v := make([]byte, c09Pick(r, 0, 1, 4, 4, 6, 300))
			for j := range v {
				v[j] = byte(r.IntN(256))
			}
			ro.Unknown = append(ro.Unknown, C09Unknown{Type: types[i], Flags: f, Value: v})
		}
		sort.Strings(fl)
		shape = append(shape, "unk:"+strings.Join(fl, "+"))
	}
	ro.Shape = strings.Join(shape, " ")
	return ro
}

// c09Spare returns a copy of xs with 1-4 poisoned spare slots behind len (aliasing shows as a write there).
func c09Spare[T any](r *rand.Rand, xs []T, poison func(i int) T) []T {
	k := 1 + r.IntN(4)
	out := make([]T, len(xs), len(xs)+k)
	copy(out, xs)
	full := out[:cap(out)]
	for i := len(xs); i < len(full); i++ {
		full[i] = poison(i)
	}
	return out
}

// C09Build turns the model into gobgp attribute objects (sorted by type code, slices with cap > len).
func C09Build(ro *C09Route, r *rand.Rand) (bgp.Family, bgp.NLRI, []bgp.PathAttributeInterface, error) {
	fam := bgp.RF_IPv4_UC
	if ro.V6 {
		fam = bgp.RF_IPv6_UC
	}
	nlri, err := bgp.NewIPAddrPrefix(ro.Prefix)
	if err != nil {
		return fam, nil, nil, err
	}
	var attrs []bgp.PathAttributeInterface
	attrs = append(attrs, bgp.NewPathAttributeOrigin(ro.Origin))
	if ro.HasASPath {
		params := make([]bgp.AsPathParamInterface, 0, len(ro.ASPath))
		for _, s := range ro.ASPath {
			as := c09Spare(r, s.AS, func(i int) uint32 { return 0xDEAD0000 + uint32(i) })
			params = append(params, bgp.NewAs4PathParam(s.Type, as))
		}
		a := bgp.NewPathAttributeAsPath(params)
		a.Value = c09Spare(r, params, func(i int) bgp.AsPathParamInterface { return bgp.NewAs4PathParam(c09SEQ, []uint32{0xDEADBEEF}) })
		attrs = append(attrs, a)
	}
	if ro.NextHop.IsValid() {
		a, err := bgp.NewPathAttributeNextHop(ro.NextHop)
		if err != nil {
			return fam, nil, nil, err
		}
		attrs = append(attrs, a)
	}
	if ro.MED != nil {
		attrs = append(attrs, bgp.NewPathAttributeMultiExitDisc(*ro.MED))
	}
	if ro.LocalPref != nil {
		attrs = append(attrs, bgp.NewPathAttributeLocalPref(*ro.LocalPref))
	}
	if ro.AtomicAgg {
		attrs = append(attrs, bgp.NewPathAttributeAtomicAggregate())
	}
	if ro.Aggregator {
		a, err := bgp.NewPathAttributeAggregator(uint32(70000), netip.MustParseAddr("192.0.2.200"))
		if err != nil {
			return fam, nil, nil, err
		}
		attrs = append(attrs, a)
	}
	if len(ro.Communities) > 0 {
		a := bgp.NewPathAttributeCommunities(append([]uint32{}, ro.Communities...))
		a.Value = c09Spare(r, ro.Communities, func(i int) uint32 { return 0xDEAD0000 + uint32(i) })
		attrs = append(attrs, a)
	}
	if ro.Originator.IsValid() {
		a, err := bgp.NewPathAttributeOriginatorId(ro.Originator)
		if err != nil {
			return fam, nil, nil, err
		}
		attrs = append(attrs, a)
	}
	if ro.ClusterList != nil {
		a, err := bgp.NewPathAttributeClusterList(ro.ClusterList)
		if err != nil {
			return fam, nil, nil, err
		}
		a.Value = c09Spare(r, ro.ClusterList, func(i int) netip.Addr { return netip.AddrFrom4([4]byte{222, 173, 0, byte(i)}) })
		attrs = append(attrs, a)
	}
	if ro.MP {
		nhs := []netip.Addr{ro.MPNextHop}
		if ro.MPLinkLocal.IsValid() {
			nhs = append(nhs, ro.MPLinkLocal)
		}
		a, err := bgp.NewPathAttributeMpReachNLRI(fam, []bgp.PathNLRI{{NLRI: nlri}}, nhs...)
		if err != nil {
			return fam, nil, nil, err
		}
		attrs = append(attrs, a)
	}
	if len(ro.ExtComms) > 0 {
		var es []bgp.ExtendedCommunityInterface
		for _, e := range ro.ExtComms {
			es = append(es, bgp.NewTwoOctetAsSpecificExtended(bgp.EC_SUBTYPE_ROUTE_TARGET, uint16(e[0]), e[1], true))
		}
		a := bgp.NewPathAttributeExtendedCommunities(es)
		a.Value = c09Spare(r, es, func(i int) bgp.ExtendedCommunityInterface {
			return bgp.NewTwoOctetAsSpecificExtended(bgp.EC_SUBTYPE_ROUTE_TARGET, 57005, uint32(i), true)
		})
		attrs = append(attrs, a)
	}
	if len(ro.LargeComms) > 0 {
		var ls []*bgp.LargeCommunity
		for _, l := range ro.LargeComms {
			ls = append(ls, bgp.NewLargeCommunity(l[0], l[1], l[2]))
		}
		a := bgp.NewPathAttributeLargeCommunities(ls)
		a.Values = c09Spare(r, ls, func(i int) *bgp.LargeCommunity { return bgp.NewLargeCommunity(0xDEAD, 0xDEAD, uint32(i)) })
		attrs = append(attrs, a)
	}
	for _, u := range ro.Unknown {
		attrs = append(attrs, bgp.NewPathAttributeUnknown(bgp.BGPAttrFlag(u.Flags), bgp.BGPAttrType(u.Type), append([]byte{}, u.Value...)))
	}
	sort.SliceStable(attrs, func(i, j int) bool { return attrs[i].GetType() < attrs[j].GetType() })
	return fam, nlri, attrs, nil
}

// ---------------------------------------------------------------- observation of an attribute list

type C09Obs struct {
	Raw         map[uint8]string // recognised attribute type -> hex of its serialisation
	Types       []uint8
	Dup         []uint8
	HasASPath   bool
	ASPath      []C09Seg
	NextHop     netip.Addr
	MP          bool
	MPFamily    string
	MPNextHop   netip.Addr
	MPLinkLocal netip.Addr
	MPNlri      string
	MED         *uint32
	LocalPref   *uint32
	Originator  netip.Addr
	HasCluster  bool
	ClusterList []netip.Addr
	Unknown     map[uint8]C09Unknown
	Errors      []string
}

func C09Observe(attrs []bgp.PathAttributeInterface) *C09Obs {
	o := &C09Obs{Raw: map[uint8]string{}, Unknown: map[uint8]C09Unknown{}}
	seen := map[uint8]bool{}
	for _, a := range attrs {
		if a == nil {
			o.Errors = append(o.Errors, "nil attribute in list")
			continue
		}
		t := uint8(a.GetType())
		if seen[t] {
			o.Dup = append(o.Dup, t)
		}
		seen[t] = true
		o.Types = append(o.Types, t)
		b, err := a.Serialize()
		if err != nil {
			o.Errors = append(o.Errors, fmt.Sprintf("attribute %d does not serialise: %v", t, err))
		}
		switch v := a.(type) {
		case *bgp.PathAttributeUnknown:
			o.Unknown[t] = C09Unknown{Type: t, Flags: uint8(v.GetFlags()), Value: append([]byte{}, v.Value...)}
			continue
		case *bgp.PathAttributeAsPath:
			o.HasASPath = true
			for _, p := range v.Value {
				o.ASPath = append(o.ASPath, C09Seg{Type: p.GetType(), AS: append([]uint32{}, p.GetAS()...)})
			}
		case *bgp.PathAttributeNextHop:
			o.NextHop = v.Value
		case *bgp.PathAttributeMpReachNLRI:
			o.MP = true
			o.MPFamily = bgp.NewFamily(v.AFI, v.SAFI).String()
			o.MPNextHop = v.Nexthop
			o.MPLinkLocal = v.LinkLocalNexthop
			var sb strings.Builder
			for _, n := range v.Value {
				nb, _ := n.NLRI.Serialize()
				fmt.Fprintf(&sb, "%d:%x ", n.ID, nb)
			}
			o.MPNlri = sb.String()
		case *bgp.PathAttributeMultiExitDisc:
			x := v.Value
			o.MED = &x
		case *bgp.PathAttributeLocalPref:
			x := v.Value
			o.LocalPref = &x
		case *bgp.PathAttributeOriginatorId:
			o.Originator = v.Value
		case *bgp.PathAttributeClusterList:
			o.HasCluster = true
			o.ClusterList = append([]netip.Addr{}, v.Value...)
		}
		o.Raw[t] = hex.EncodeToString(b)
	}
	return o
}

// C09Snap is the byte-level picture of an attribute list for the non-mutation oracle: every attribute's
// serialisation and flags, plus the backing arrays of all slice-valued attributes up to capacity.
func C09Snap(attrs []bgp.PathAttributeInterface) map[string]string {
	m := map[string]string{}
	for i, a := range attrs {
		b, err := a.Serialize()
		k := fmt.Sprintf("attr%02d:type%d", i, a.GetType())
		m[k] = fmt.Sprintf("%x/%v/flags=%d/len=%d", b, err, a.GetFlags(), a.Len())
		switch v := a.(type) {
		case *bgp.PathAttributeCommunities:
			m["spare:communities"] = fmt.Sprint(len(v.Value), v.Value[:cap(v.Value)])
		case *bgp.PathAttributeClusterList:
			m["spare:cluster-list"] = fmt.Sprint(len(v.Value), v.Value[:cap(v.Value)])
		case *bgp.PathAttributeExtendedCommunities:
			var sb strings.Builder
			fmt.Fprint(&sb, len(v.Value))
			for _, x := range v.Value[:cap(v.Value)] {
				if x == nil {
					sb.WriteString(" nil")
				} else {
					xb, _ := x.Serialize()
					fmt.Fprintf(&sb, " %x", xb)
				}
			}
			m["spare:ext-communities"] = sb.String()
		case *bgp.PathAttributeLargeCommunities:
			var sb strings.Builder
			fmt.Fprint(&sb, len(v.Values))
			for _, x := range v.Values[:cap(v.Values)] {
				if x == nil {
					sb.WriteString(" nil")
				} else {
					fmt.Fprintf(&sb, " %d:%d:%d", x.ASN, x.LocalData1, x.LocalData2)
				}
			}
			m["spare:large-communities"] = sb.String()
		case *bgp.PathAttributeAsPath:
			var sb strings.Builder
			fmt.Fprint(&sb, len(v.Value))
			for _, x := range v.Value[:cap(v.Value)] {
				if x == nil {
					sb.WriteString(" nil")
				} else if p4, ok := x.(*bgp.As4PathParam); ok {
					fmt.Fprintf(&sb, " %d:%d:%d%v", p4.Type, p4.Num, len(p4.AS), p4.AS[:cap(p4.AS)])
				} else {
					fmt.Fprintf(&sb, " %d:%v", x.GetType(), x.GetAS())
				}
			}
			m["spare:as-path"] = sb.String()
		case *bgp.PathAttributeMpReachNLRI:
			m["mp"] = fmt.Sprint(v.AFI, v.SAFI, v.Nexthop, v.LinkLocalNexthop, len(v.Value))
		case *bgp.PathAttributeUnknown:
			m[k+":value"] = fmt.Sprintf("%x", v.Value[:cap(v.Value)])
		}
	}
	return m
}

func C09SnapDiff(a, b map[string]string) []string {
	var changed []string
	for k, v := range a {
		if b[k] != v {
			changed = append(changed, k)
		}
	}
	for k := range b {
		if _, ok := a[k]; !ok {
			changed = append(changed, k)
		}
	}
	sort.Strings(changed)
	return changed
}

// ---------------------------------------------------------------- AS_PATH arithmetic of the reference

func c09ClonePath(p []C09Seg) []C09Seg {
	out := make([]C09Seg, 0, len(p))
	for _, s := range p {
		out = append(out, C09Seg{Type: s.Type, AS: append([]uint32{}, s.AS...)})
	}
	return out
}

// c09Canon: empty segments vanish, adjacent AS_SEQUENCE (and adjacent AS_CONFED_SEQUENCE) segments are one sequence.
func c09Canon(p []C09Seg) []C09Seg {
	var out []C09Seg
	for _, s := range p {
		if len(s.AS) == 0 {
			continue
		}
		if n := len(out); n > 0 && out[n-1].Type == s.Type && (s.Type == c09SEQ || s.Type == c09CONFED_SEQ) {
			out[n-1].AS = append(out[n-1].AS, s.AS...)
			continue
		}
		out = append(out, C09Seg{Type: s.Type, AS: append([]uint32{}, s.AS...)})
	}
	return out
}

func c09PathEqual(a, b []C09Seg) bool {
	if len(a) != len(b) {
		return false
	}
	for i := range a {
		if a[i].Type != b[i].Type || len(a[i].AS) != len(b[i].AS) {
			return false
		}
		for j := range a[i].AS {
			if a[i].AS[j] != b[i].AS[j] {
				return false
			}
		}
	}
	return true
}

func c09ReplaceAS(p []C09Seg, from, to uint32) []C09Seg {
	out := c09ClonePath(p)
	for i := range out {
		for j := range out[i].AS {
			if out[i].AS[j] == from {
				out[i].AS[j] = to
			}
		}
	}
	return out
}

// c09RemovePrivate: openconfig PRIVATE_AS_REMOVE_ALL / PRIVATE_AS_REPLACE_ALL ("for all instances of
// private AS numbers within that attribute"). confedToo selects whether confederation segments take part.
func c09RemovePrivate(p []C09Seg, mode string, local uint32, confedToo bool) []C09Seg {
	if mode == "" {
		return c09ClonePath(p)
	}
	var out []C09Seg
	for _, s := range p {
		if c09IsConfedSeg(s.Type) && !confedToo {
			out = append(out, C09Seg{Type: s.Type, AS: append([]uint32{}, s.AS...)})
			continue
		}
		ns := C09Seg{Type: s.Type}
		for _, a := range s.AS {
			if C09IsPrivate(a) {
				if mode == "replace" {
					ns.AS = append(ns.AS, local)
				}
				continue
			}
			ns.AS = append(ns.AS, a)
		}
		out = append(out, ns)
	}
	return out
}

func c09DropConfed(p []C09Seg) []C09Seg {
	var out []C09Seg
	for _, s := range p {
		if !c09IsConfedSeg(s.Type) {
			out = append(out, C09Seg{Type: s.Type, AS: append([]uint32{}, s.AS...)})
		}
	}
	return out
}

func c09Prepend(p []C09Seg, t uint8, as uint32) []C09Seg {
	return append([]C09Seg{{Type: t, AS: []uint32{as}}}, c09ClonePath(p)...)
}

func c09Count(p []C09Seg, as uint32, confed, plain bool) int {
	n := 0
	for _, s := range p {
		if c09IsConfedSeg(s.Type) && !confed || !c09IsConfedSeg(s.Type) && !plain {
			continue
		}
		for _, a := range s.AS {
			if a == as {
				n++
			}
		}
	}
	return n
}

// ---------------------------------------------------------------- the export reference

type C09Tri int

const (
	C09Must C09Tri = iota
	C09MustNot
	C09Either
)

func (t C09Tri) String() string { return [...]string{"must", "must-not", "either"}[t] }

const (
	c09NHUnchanged = iota
	c09NHLocal
	c09NHLocalOrUnchanged
	c09NHAny
)
const (
	c09LPAbsent = iota
	c09LPPresent
	c09LPAbsentOrUnchanged
)
const (
	c09MEDAbsent = iota
	c09MEDUnchanged
	c09MEDAbsentOrUnchanged
)
const (
	c09RRAbsent  = iota // ORIGINATOR_ID and CLUSTER_LIST must not be there
	c09RRStrict         // exactly one of the listed values
	c09RRLoose          // one of the listed values or as stored / absent
	c09RRAny            // not constrained
	c09RRReflect        // like strict, reported under its own rule name (reflection client -> non-client)
)
const (
	c09UKRemove = iota
	c09UKEither
)

type C09Exp struct {
	Advertise    C09Tri
	AdvRule      string
	Rules        []string // rule names that fired for this case (coverage counters)
	Transparent  bool     // route-server client: nothing changes
	ASPathExact  bool     // segmentation must be preserved too (iBGP)
	ASPaths      [][]C09Seg
	NextHop      int
	LocalPref    int
	LocalPrefVal uint32
	MED          int
	RR           int
	Originators  []netip.Addr
	ClusterLists [][]netip.Addr
	UnknownNT    int
}

// C09Export: what may reach dst for the stored route `in` learned from src (nil: locally originated).
// server=false describes table.UpdatePathAttrs alone (preceded by ReplaceAS when replace-peer-as is on, as the
// server calls it): no advertise decision and no LOCAL_PREF stripping, which live in pkg/server.
func C09Export(rt *C09Router, src, dst *C09Peer, in *C09Obs, server bool) *C09Exp {
	e := &C09Exp{Advertise: C09Must, AdvRule: "plain"}
	L := dst.LocalAS(rt)
	srcKind := C09Local
	if src != nil {
		srcKind = src.Kind
	}
	fire := func(s string) { e.Rules = append(e.Rules, s) }

	// ---- may it be advertised at all
	pathForLoop := in.ASPath
	if dst.ReplacePeerAS {
		pathForLoop = c09ReplaceAS(in.ASPath, dst.AS, L)
	}
	setAdv := func(t C09Tri, rule string) {
		// must-not wins over either wins over must
		if t == C09MustNot && e.Advertise != C09MustNot || t == C09Either && e.Advertise == C09Must {
			e.Advertise, e.AdvRule = t, rule
		}
	}
	if src != nil && src.RouterID == dst.RouterID {
		setAdv(C09MustNot, "back-to-source-router")
	}
	if dst.Kind.Internal() {
		if srcKind == C09IBGP && dst.Kind == C09IBGP {
			setAdv(C09MustNot, "nonclient-to-nonclient")
		}
		if dst.Kind == C09RRClient && in.HasCluster && c09Has(in.ClusterList, dst.EffClusterID(rt)) {
			if src != nil {
				setAdv(C09MustNot, "own-cluster-id-to-client")
			} else {
				setAdv(C09Either, "own-cluster-id-on-local-route")
			}
		}
		if c09Count(pathForLoop, dst.AS, true, true) > 0 {
			setAdv(C09Either, "own-as-in-path-to-ibgp") // the property speaks of eBGP peers only
		}
	}
	if dst.Kind == C09EBGP || dst.Kind == C09Confed {
		if c09Count(pathForLoop, dst.AS, false, true) > 0 {
			if src == nil && dst.AllowLoopLocal {
				fire("allow-as-path-loop-local")
			} else {
				setAdv(C09MustNot, "peer-as-in-path")
			}
		} else if c09Count(pathForLoop, dst.AS, true, false) > 0 {
			setAdv(C09Either, "peer-as-in-confed-segment")
		}
	}
	fire("adv:" + e.AdvRule)

	// ---- attributes
	e.UnknownNT = c09UKRemove
	specifiedLocalNH := false
	if src == nil {
		nh := in.NextHop
		if !nh.IsValid() {
			nh = in.MPNextHop
		}
		specifiedLocalNH = nh.IsValid() && !nh.IsUnspecified()
	}
	hasPlainAS := false
	for _, s := range in.ASPath {
		if !c09IsConfedSeg(s.Type) && len(s.AS) > 0 {
			hasPlainAS = true
		}
	}
	stored := c09ClonePath(in.ASPath)

	switch dst.Kind {
	case C09RSClient:
		// RFC 7947 2.2: attribute transparency
		e.Transparent = true
		fire("rs-transparent")
		return e

	case C09EBGP, C09Confed:
		// AS_PATH: replace-peer-as and remove-private-as in either order (undocumented), then
		// RFC 4271 5.1.2 / RFC 5065 4 prepending.
		confedOpts := []bool{true}
		if dst.Kind == C09Confed && dst.RemovePrivate != "" {
			confedOpts = []bool{true, false} // undocumented whether member ASes in confederation segments count
		}
		for _, confedToo := range confedOpts {
			for _, replaceFirst := range []bool{true, false} {
				p := stored
				if replaceFirst && dst.ReplacePeerAS {
					p = c09ReplaceAS(p, dst.AS, L)
				}
				p = c09RemovePrivate(p, dst.RemovePrivate, L, confedToo)
				if !replaceFirst && dst.ReplacePeerAS {
					p = c09ReplaceAS(p, dst.AS, L)
				}
				if dst.Kind == C09EBGP {
					p = c09Prepend(c09DropConfed(p), c09SEQ, L)
				} else {
					p = c09Prepend(p, c09CONFED_SEQ, L)
				}
				p = c09Canon(p)
				dup := false
				for _, q := range e.ASPaths {
					if c09PathEqual(p, q) {
						dup = true
					}
				}
				if !dup {
					e.ASPaths = append(e.ASPaths, p)
				}
			}
		}
		if dst.RemovePrivate != "" {
			fire("remove-private-as:" + dst.RemovePrivate)
		}
		if dst.ReplacePeerAS {
			fire("replace-peer-as")
		}
		if dst.LocalASOverride != 0 {
			fire("local-as")
		}
		if dst.Kind == C09EBGP {
			fire("prepend-local-as")
			if rt.Confed {
				fire("confed-id-towards-non-member")
			}
		} else {
			fire("prepend-confed-seq")
		}
		// NEXT_HOP: RFC 4271 5.1.3; a next hop configured on a locally originated route may stay
		switch {
		case specifiedLocalNH:
			e.NextHop = c09NHLocalOrUnchanged
			fire("nexthop:local-route-configured")
		case dst.Kind == C09Confed:
			e.NextHop = c09NHLocalOrUnchanged // RFC 5065 5: may be passed unchanged inside the confederation
			fire("nexthop:confed")
		default:
			e.NextHop = c09NHLocal
			fire("nexthop:self")
		}
		// LOCAL_PREF: RFC 4271 5.1.5; RFC 5065 5 allows it towards member ASes
		switch {
		case !server || dst.Kind == C09Confed:
			e.LocalPref = c09LPAbsentOrUnchanged
		default:
			e.LocalPref = c09LPAbsent
			if in.LocalPref != nil {
				fire("local-pref-removed")
			}
		}
		// MED: RFC 4271 5.1.4
		switch {
		case dst.Kind == C09Confed, src == nil:
			e.MED = c09MEDAbsentOrUnchanged
		case srcKind.Internal() && !hasPlainAS:
			e.MED = c09MEDAbsentOrUnchanged // originated inside the local AS
		default:
			e.MED = c09MEDAbsent
			if in.MED != nil {
				fire("foreign-med-removed")
			}
		}
		e.RR = c09RRAbsent
		if in.Originator.IsValid() || in.HasCluster {
			fire("rr-attributes-removed")
		}

	case C09IBGP, C09RRClient:
		e.ASPathExact = true
		e.ASPaths = [][]C09Seg{stored}
		fire("ibgp-aspath-unchanged")
		if src == nil && !specifiedLocalNH {
			e.NextHop = c09NHLocal
			fire("nexthop:local-route-self")
		} else {
			e.NextHop = c09NHUnchanged
			fire("nexthop:unchanged")
		}
		e.LocalPref = c09LPPresent
		e.LocalPrefVal = 100
		if in.LocalPref != nil {
			e.LocalPrefVal = *in.LocalPref
		} else {
			fire("local-pref-default")
		}
		e.MED = c09MEDUnchanged
		e.UnknownNT = c09UKEither // RFC 4271 5: MUST NOT be passed along; the property states it for eBGP only
		orig := in.Originator
		srcID := rt.RouterID
		if src != nil {
			srcID = src.RouterID
		}
		if !orig.IsValid() {
			orig = srcID
		}
		withCluster := func(c netip.Addr) []netip.Addr { return append([]netip.Addr{c}, in.ClusterList...) }
		switch {
		case dst.Kind == C09RRClient && srcKind.Internal():
			e.RR = c09RRStrict
			e.Originators = []netip.Addr{orig}
			e.ClusterLists = [][]netip.Addr{withCluster(dst.EffClusterID(rt))}
			fire("reflect-to-client")
		case dst.Kind == C09RRClient:
			// not a reflection (route was not learned over iBGP): RFC 4456 does not ask for the attributes
			e.RR = c09RRLoose
			e.Originators = []netip.Addr{orig, srcID, rt.RouterID}
			e.ClusterLists = [][]netip.Addr{withCluster(dst.EffClusterID(rt))}
			fire("non-reflected-to-client")
		case srcKind == C09RRClient:
			// RFC 4456 6 + 8: a client route reflected to a non-client carries ORIGINATOR_ID and the local cluster id
			e.RR = c09RRReflect
			e.Originators = []netip.Addr{orig}
			e.ClusterLists = [][]netip.Addr{withCluster(src.EffClusterID(rt))}
			if src.EffClusterID(rt) != rt.RouterID {
				e.ClusterLists = append(e.ClusterLists, withCluster(rt.RouterID))
			}
			fire("reflect-client-to-nonclient")
		default:
			e.RR = c09RRAny
		}
	}
	return e
}

type C09Mismatch struct {
	Rule   string
	Detail string
}

func c09AddrsEqual(a, b []netip.Addr) bool {
	if len(a) != len(b) {
		return false
	}
	for i := range a {
		if a[i] != b[i] {
			return false
		}
	}
	return true
}

func c09U32(p *uint32) string {
	if p == nil {
		return "absent"
	}
	return fmt.Sprint(*p)
}

func c09SameNH(a, b netip.Addr) bool {
	if !a.IsValid() || !b.IsValid() {
		return a.IsValid() == b.IsValid()
	}
	return a.Unmap().WithZone("") == b.Unmap().WithZone("")
}

// C09Check compares the attributes of a produced copy (out) with the expectation.
func C09Check(e *C09Exp, in, out *C09Obs, localAddr netip.Addr) []C09Mismatch {
	var mm []C09Mismatch
	bad := func(rule, f string, a ...any) { mm = append(mm, C09Mismatch{Rule: rule, Detail: fmt.Sprintf(f, a...)}) }
	for _, s := range out.Errors {
		bad("malformed-output", "%s", s)
	}
	if len(out.Dup) > 0 {
		bad("malformed-output", "attribute types %v occur more than once", out.Dup)
	}
	if e.Transparent {
		if len(in.Types) != len(out.Types) {
			bad("rs-not-transparent", "attribute types %v became %v", in.Types, out.Types)
			return mm
		}
		for t, b := range in.Raw {
			if out.Raw[t] != b {
				bad("rs-not-transparent", "attribute %d changed from %s to %s", t, b, out.Raw[t])
			}
		}
		for t, u := range in.Unknown {
			if o, ok := out.Unknown[t]; !ok || o.Flags != u.Flags || string(o.Value) != string(u.Value) {
				bad("rs-not-transparent", "unknown attribute %d changed", t)
			}
		}
		return mm
	}
	// ---- AS_PATH
	if !out.HasASPath {
		bad("aspath-missing", "no AS_PATH attribute (mandatory, RFC 4271 5)")
	} else {
		for _, s := range out.ASPath {
			if len(s.AS) == 0 || len(s.AS) > 255 {
				bad("malformed-output", "AS_PATH segment type %d with %d members", s.Type, len(s.AS))
			}
		}
		got := out.ASPath
		if !e.ASPathExact {
			got = c09Canon(out.ASPath)
		}
		ok := false
		for _, want := range e.ASPaths {
			if c09PathEqual(got, want) {
				ok = true
			}
		}
		if !ok {
			var alts []string
			for _, w := range e.ASPaths {
				alts = append(alts, "'"+C09PathText(w)+"'")
			}
			bad("aspath", "stored '%s' became '%s', admissible: %s", C09PathText(in.ASPath), C09PathText(out.ASPath), strings.Join(alts, " or "))
		}
	}
	// ---- next hops
	if !out.NextHop.IsValid() && !out.MP {
		bad("nexthop", "no next hop carrier left (neither NEXT_HOP nor MP_REACH_NLRI)")
	}
	unchanged := c09SameNH(in.NextHop, out.NextHop) && in.MP == out.MP && c09SameNH(in.MPNextHop, out.MPNextHop) && c09SameNH(in.MPLinkLocal, out.MPLinkLocal)
	local := (out.NextHop.IsValid() || out.MP) &&
		(!out.NextHop.IsValid() || c09SameNH(out.NextHop, localAddr)) &&
		(!out.MP || (c09SameNH(out.MPNextHop, localAddr) && !out.MPLinkLocal.IsValid()))
	nhText := func(o *C09Obs) string {
		return fmt.Sprintf("NEXT_HOP=%v MP=%v(%s %v ll=%v)", o.NextHop, o.MP, o.MPFamily, o.MPNextHop, o.MPLinkLocal)
	}
	switch e.NextHop {
	case c09NHUnchanged:
		if !unchanged {
			bad("nexthop-changed", "%s became %s, must stay", nhText(in), nhText(out))
		}
	case c09NHLocal:
		if !local {
			bad("nexthop-not-self", "%s became %s, every next hop must be the session's local address %v", nhText(in), nhText(out), localAddr)
		}
	case c09NHLocalOrUnchanged:
		if !local && !unchanged {
			bad("nexthop", "%s became %s, neither unchanged nor the local address %v", nhText(in), nhText(out), localAddr)
		}
	}
	if in.MP && out.MP && in.MPNlri != out.MPNlri {
		bad("mp-nlri-changed", "MP_REACH_NLRI carried %s, now %s", in.MPNlri, out.MPNlri)
	}
	// ---- LOCAL_PREF
	switch e.LocalPref {
	case c09LPAbsent:
		if out.LocalPref != nil {
			bad("local-pref-kept", "LOCAL_PREF %d is sent", *out.LocalPref)
		}
	case c09LPPresent:
		if out.LocalPref == nil {
			bad("local-pref-missing", "no LOCAL_PREF (stored: %s)", c09U32(in.LocalPref))
		} else if *out.LocalPref != e.LocalPrefVal {
			bad("local-pref-value", "LOCAL_PREF %d, expected %d (stored: %s)", *out.LocalPref, e.LocalPrefVal, c09U32(in.LocalPref))
		}
	case c09LPAbsentOrUnchanged:
		if out.LocalPref != nil && (in.LocalPref == nil || *in.LocalPref != *out.LocalPref) {
			bad("local-pref-value", "LOCAL_PREF %d appeared (stored: %s)", *out.LocalPref, c09U32(in.LocalPref))
		}
	}
	// ---- MED
	medSame := (in.MED == nil) == (out.MED == nil) && (in.MED == nil || *in.MED == *out.MED)
	switch e.MED {
	case c09MEDAbsent:
		if out.MED != nil {
			bad("foreign-med-kept", "MULTI_EXIT_DISC %d is sent", *out.MED)
		}
	case c09MEDUnchanged:
		if !medSame {
			bad("med-changed", "MULTI_EXIT_DISC %s became %s", c09U32(in.MED), c09U32(out.MED))
		}
	case c09MEDAbsentOrUnchanged:
		if out.MED != nil && !medSame {
			bad("med-changed", "MULTI_EXIT_DISC %s became %s", c09U32(in.MED), c09U32(out.MED))
		}
	}
	// ---- ORIGINATOR_ID / CLUSTER_LIST
	switch e.RR {
	case c09RRAbsent:
		if out.Originator.IsValid() {
			bad("originator-id-kept", "ORIGINATOR_ID %v is sent", out.Originator)
		}
		if out.HasCluster {
			bad("cluster-list-kept", "CLUSTER_LIST %v is sent", out.ClusterList)
		}
	case c09RRStrict, c09RRReflect, c09RRLoose:
		okO := out.Originator.IsValid() && c09Has(e.Originators, out.Originator)
		if e.RR == c09RRLoose && out.Originator == in.Originator {
			okO = true
		}
		okC := false
		for _, c := range e.ClusterLists {
			if out.HasCluster && c09AddrsEqual(out.ClusterList, c) {
				okC = true
			}
		}
		if e.RR == c09RRLoose && out.HasCluster == in.HasCluster && c09AddrsEqual(out.ClusterList, in.ClusterList) {
			okC = true
		}
		oText := fmt.Sprintf("ORIGINATOR_ID %v (stored %v), admissible %v", out.Originator, in.Originator, e.Originators)
		cText := fmt.Sprintf("CLUSTER_LIST %v present=%v (stored %v), admissible %v", out.ClusterList, out.HasCluster, in.ClusterList, e.ClusterLists)
		switch {
		case e.RR == c09RRReflect && (!okO || !okC):
			// one defect class: what a client route reflected to a non-client carries (RFC 4456 6, 8)
			bad("reflect-to-nonclient:rr-attributes", "%s; %s", oText, cText)
		case e.RR != c09RRReflect:
			if !okO {
				bad("originator-id", "%s", oText)
			}
			if !okC {
				bad("cluster-list", "%s", cText)
			}
		}
	}
	// ---- unknown attributes
	for t, u := range in.Unknown {
		o, kept := out.Unknown[t]
		opt := u.Flags&uint8(bgp.BGP_ATTR_FLAG_OPTIONAL) != 0
		trans := u.Flags&uint8(bgp.BGP_ATTR_FLAG_TRANSITIVE) != 0
		if kept && string(o.Value) != string(u.Value) {
			bad("unknown-attr-value", "unknown attribute %d value %x became %x", t, u.Value, o.Value)
		}
		if kept && (o.Flags^u.Flags)&^uint8(bgp.BGP_ATTR_FLAG_PARTIAL|bgp.BGP_ATTR_FLAG_EXTENDED_LENGTH) != 0 {
			bad("unknown-attr-flags", "unknown attribute %d flags %#x became %#x", t, u.Flags, o.Flags)
		}
		switch {
		case opt && trans && !kept:
			bad("unknown-transitive-dropped", "unknown optional transitive attribute %d was dropped", t)
		case opt && !trans && kept && e.UnknownNT == c09UKRemove:
			bad("unknown-nontransitive-kept", "unknown optional non-transitive attribute %d is sent", t)
		}
	}
	for t := range out.Unknown {
		if _, ok := in.Unknown[t]; !ok {
			bad("attr-appeared", "unknown attribute %d appeared", t)
		}
	}
	// ---- everything else is carried as is
	governed := map[uint8]bool{uint8(bgp.BGP_ATTR_TYPE_AS_PATH): true, uint8(bgp.BGP_ATTR_TYPE_NEXT_HOP): true, uint8(bgp.BGP_ATTR_TYPE_MP_REACH_NLRI): true,
		uint8(bgp.BGP_ATTR_TYPE_MULTI_EXIT_DISC): true, uint8(bgp.BGP_ATTR_TYPE_LOCAL_PREF): true, uint8(bgp.BGP_ATTR_TYPE_ORIGINATOR_ID): true,
		uint8(bgp.BGP_ATTR_TYPE_CLUSTER_LIST): true}
	for t, b := range in.Raw {
		if governed[t] {
			continue
		}
		if ob, ok := out.Raw[t]; !ok {
			bad("attr-lost", "attribute %d disappeared", t)
		} else if ob != b {
			bad("attr-changed", "attribute %d changed from %s to %s", t, b, ob)
		}
	}
	for t := range out.Raw {
		if _, ok := in.Raw[t]; !ok && !governed[t] {
			bad("attr-appeared", "attribute %d appeared", t)
		}
	}
	return mm
}

// C09PartialCount: unknown optional transitive attributes passed on with / without the Partial bit (RFC 4271 5
// asks for the bit; the property does not mention it, so this is only counted).
func C09PartialCount(out *C09Obs) (set, unset int) {
	for _, u := range out.Unknown {
		if u.Flags&uint8(bgp.BGP_ATTR_FLAG_OPTIONAL) != 0 && u.Flags&uint8(bgp.BGP_ATTR_FLAG_TRANSITIVE) != 0 {
			if u.Flags&uint8(bgp.BGP_ATTR_FLAG_PARTIAL) != 0 {
				set++
			} else {
				unset++
			}
		}
	}
	return
}

// ---------------------------------------------------------------- the inbound reference

// C09Inbound: must a route received from `from` be left unused. clusterIDs are the cluster ids the local
// router reflects under (those of its route-reflector clients).
func C09Inbound(rt *C09Router, from *C09Peer, in *C09Obs, clusterIDs []netip.Addr) (C09Tri, string) {
	L := from.LocalAS(rt)
	n := c09Count(in.ASPath, L, true, true)
	if rt.Confed && rt.ConfedID != L {
		n += c09Count(in.ASPath, rt.ConfedID, true, true) // RFC 5065 4
	}
	if n > int(from.AllowOwnAS) {
		return C09Must, "own-as-beyond-allow-own-as"
	}
	if in.Originator.IsValid() && in.Originator == rt.RouterID {
		if from.Kind.Internal() {
			return C09Must, "own-router-id-as-originator"
		}
		return C09Either, "own-router-id-as-originator-over-ebgp"
	}
	if in.HasCluster {
		// "The local cluster-id" (RFC 4456 7/8 knows one CLUSTER_ID per reflector; gobgp configures it per
		// RR-client neighbour, default router id):
		//  - on a client session it is the id configured for that session;
		//  - on a non-client iBGP session it is the router's cluster id when all its clients share one;
		//  - an id configured only on another neighbour of a router that reflects under several ids is not
		//    clearly "the" local cluster-id of the receiving session: left open.
		var distinct []netip.Addr
		for _, c := range clusterIDs {
			if !c09Has(distinct, c) {
				distinct = append(distinct, c)
			}
		}
		switch {
		case from.Kind == C09RRClient && c09Has(in.ClusterList, from.EffClusterID(rt)):
			return C09Must, "own-cluster-id"
		case from.Kind == C09IBGP && len(distinct) == 1 && c09Has(in.ClusterList, distinct[0]):
			return C09Must, "own-cluster-id-nonclient-session"
		}
		for _, c := range distinct {
			if c09Has(in.ClusterList, c) {
				if from.Kind.Internal() {
					return C09Either, "cluster-id-of-another-neighbour"
				}
				return C09Either, "own-cluster-id-over-ebgp"
			}
		}
	}
	if L != rt.AS && c09Count(in.ASPath, rt.AS, true, true) > int(from.AllowOwnAS) {
		// the router's own AS behind a local-as / confederation-identifier session: which AS is "the local AS" is not documented
		return C09Either, "global-as-behind-local-as"
	}
	if n > 0 {
		return C09MustNot, "own-as-within-allow-own-as"
	}
	return C09MustNot, "clean"
}
