package bfd

// C19 (BFD part) — BFDHeader.UnmarshalBinary is safe on hostile input and every control packet the
// package can construct (all version / diagnostic / state / Poll / Final combinations; the package
// has no authentication section and ignores the C/A/D/M bits) round-trips.
//
// Oracles: (A) no panic, caller's buffer unchanged, result independent of bytes in the spare
// capacity beyond len(buf), accepted headers survive MarshalBinary/%v/JSON/String(); an accepted
// packet is one whose RFC 5880 Length octet equals the buffer length and the decoded fields equal
// an independent field extraction written here. (B) MarshalBinary(h) equals the independent RFC
// 5880 section 4.1 encoding; UnmarshalBinary(MarshalBinary(h)) == h; re-marshal gives the same bytes.

import (
	"bytes"
	"encoding/binary"
	"encoding/json"
	"fmt"
	"math/rand/v2"
	"reflect"
	"testing"

	"github.com/osrg/gobgp/v4/internal/verif/gen"
	"github.com/osrg/gobgp/v4/internal/verif/vlib"
)

func c19GenHeader(r *rand.Rand) *BFDHeader {
	pickU32 := func() uint32 {
		switch r.IntN(4) {
		case 0:
			return []uint32{0, 1, 0xffffffff, 0x80000000, 1000000, 300000}[r.IntN(6)]
		}
		return r.Uint32()
	}
	return &BFDHeader{
		Version:               uint8(r.IntN(8)),
		Diagnostic:            DiagnosticType(r.IntN(32)),
		State:                 StateType(r.IntN(4)),
		Poll:                  r.IntN(2) == 0,
		Final:                 r.IntN(2) == 0,
		DetectTimeMultiplier:  uint8(r.Uint32()),
		MyDiscriminator:       pickU32(),
		YourDiscriminator:     pickU32(),
		DesiredMinTxInterval:  pickU32(),
		RequiredMinRxInterval: pickU32(),
	}
}

// c19RefEncode is the independent RFC 5880 4.1 encoding of the fields the package models
// (no auth, C/A/D/M clear, Required Min Echo RX Interval 0).
func c19RefEncode(h *BFDHeader) []byte {
	b := make([]byte, 24)
	b[0] = (h.Version&7)<<5 | uint8(h.Diagnostic)&0x1f
	b[1] = (uint8(h.State) & 3) << 6
	if h.Poll {
		b[1] |= 0x20
	}
	if h.Final {
		b[1] |= 0x10
	}
	b[2] = h.DetectTimeMultiplier
	b[3] = 24
	binary.BigEndian.PutUint32(b[4:], h.MyDiscriminator)
	binary.BigEndian.PutUint32(b[8:], h.YourDiscriminator)
	binary.BigEndian.PutUint32(b[12:], h.DesiredMinTxInterval)
	binary.BigEndian.PutUint32(b[16:], h.RequiredMinRxInterval)
	return b
}

func c19RefDecode(b []byte) *BFDHeader {
	return &BFDHeader{
		Version: b[0] >> 5, Diagnostic: DiagnosticType(b[0] & 0x1f), State: StateType(b[1] >> 6),
		Poll: b[1]&0x20 != 0, Final: b[1]&0x10 != 0, DetectTimeMultiplier: b[2],
		MyDiscriminator: binary.BigEndian.Uint32(b[4:8]), YourDiscriminator: binary.BigEndian.Uint32(b[8:12]),
		DesiredMinTxInterval: binary.BigEndian.Uint32(b[12:16]), RequiredMinRxInterval: binary.BigEndian.Uint32(b[16:20]),
	}
}

func c19Hostile(rec *vlib.Rec, w *gen.C19Watch, r *rand.Rand, idx int) {
	var in []byte
	kind := "random"
	switch r.IntN(6) {
	case 0:
		in = gen.C19RandomBytes(r, 80)
	case 1: // random body with a consistent length octet: reaches the field decoding
		in = gen.C19RandomBytes(r, 80)
		if len(in) >= 4 {
			in[3] = byte(len(in))
		}
		kind = "random+len"
	case 2: // packet with an authentication section / trailing bytes, A bit set
		in = c19RefEncode(c19GenHeader(r))
		in[1] |= byte(r.IntN(16))
		in = append(in, gen.C19RandomBytes(r, 28)...)
		in[3] = byte(len(in))
		if r.IntN(4) == 0 {
			in[3] += byte(r.IntN(3)) - 1
		}
		kind = "auth"
	default:
		in, kind = gen.C19Mutate(r, c19RefEncode(c19GenHeader(r)), []gen.C19Field{{Off: 3, Size: 1}, {Off: 3, Size: 1}, {Off: 0, Size: 1}, {Off: 1, Size: 1}})
	}
	rec.Count("bfd_hostile_inputs", 1)
	w.Mark(idx, "UnmarshalBinary", in)
	wit := func() any { return map[string]any{"case": idx, "input": gen.C19Hex(in), "mutation": kind} }
	exact := gen.C19Exact(in)
	h := &BFDHeader{}
	var err error
	if rec.Guard("c19:bfd:UnmarshalBinary", wit, func() { err = h.UnmarshalBinary(exact) }) {
		return
	}
	if !bytes.Equal(exact, in) {
		rec.Violation("c19:bfd:UnmarshalBinary:buffer-modified", "decoder modified the caller's buffer", wit())
	}
	ha, hb := &BFDHeader{}, &BFDHeader{}
	var ea, eb error
	pa := rec.Guard("c19:bfd:UnmarshalBinary", wit, func() { ea = ha.UnmarshalBinary(gen.C19Slack(in, 0xAA, 64)) })
	pb := rec.Guard("c19:bfd:UnmarshalBinary", wit, func() { eb = hb.UnmarshalBinary(gen.C19Slack(in, 0x55, 64)) })
	if !pa && !pb && (fmt.Sprint(ea) != fmt.Sprint(eb) || fmt.Sprint(ea) != fmt.Sprint(err) || !reflect.DeepEqual(ha, hb) || !reflect.DeepEqual(ha, h)) {
		rec.Violation("c19:bfd:UnmarshalBinary:over-read", "result depends on bytes beyond len(buf)",
			map[string]any{"case": idx, "input": gen.C19Hex(in), "exact": fmt.Sprintf("%+v / %v", h, err), "poisonAA": fmt.Sprintf("%+v / %v", ha, ea), "poison55": fmt.Sprintf("%+v / %v", hb, eb)})
	}
	lenClass := "len<24"
	if len(in) == 24 {
		lenClass = "len=24"
	} else if len(in) > 24 {
		lenClass = "len>24"
	}
	rec.Nontrivial("bfd|UnmarshalBinary|" + lenClass + "|" + gen.C19ErrClass(err))
	rec.Count("bfd_result_"+gen.C19ErrClass(err), 1)
	if err != nil {
		return
	}
	// framing oracle (RFC 5880 6.8.6: length octet must fit the payload; the package demands equality)
	if len(in) < 24 || int(in[3]) != len(in) {
		rec.Violation("c19:bfd:UnmarshalBinary:accepted-bad-length", "packet accepted although its Length octet does not equal the buffer length / is below 24", wit())
		return
	}
	if want := c19RefDecode(in); !reflect.DeepEqual(h, want) {
		rec.Violation("c19:bfd:UnmarshalBinary:fields", "decoded fields differ from an independent RFC 5880 field extraction",
			map[string]any{"case": idx, "input": gen.C19Hex(in), "got": fmt.Sprintf("%+v", h), "want": fmt.Sprintf("%+v", want)})
	}
	var out []byte
	var merr error
	rec.Guard("c19:bfd:post", wit, func() {
		_ = fmt.Sprintf("%v %+v %s %s", h, h, h.State, h.Diagnostic)
		_, _ = json.Marshal(h)
		out, merr = h.MarshalBinary()
	})
	if merr != nil {
		rec.Violation("c19:bfd:post:accepted-not-marshalable", "a header accepted by UnmarshalBinary is rejected by MarshalBinary: "+merr.Error(), wit())
	} else if out != nil {
		h2 := &BFDHeader{}
		if e := h2.UnmarshalBinary(out); e != nil || !reflect.DeepEqual(h, h2) {
			rec.Violation("c19:bfd:post:accepted-refix", "re-marshalled accepted header does not parse back to the same header", wit())
		}
		rec.Count("bfd_accepted_remarshaled", 1)
	}
}

func c19RoundTrip(rec *vlib.Rec, w *gen.C19Watch, r *rand.Rand, idx int) {
	h := c19GenHeader(r)
	ref := c19RefEncode(h)
	w.Mark(idx, "roundtrip", ref)
	wit := func() any {
		return map[string]any{"case": idx, "header": fmt.Sprintf("%+v", h), "reference": gen.C19Hex(ref)}
	}
	var b1 []byte
	var err error
	if rec.Guard("c19:bfd:rt:MarshalBinary", wit, func() { b1, err = h.MarshalBinary() }) {
		return
	}
	if err != nil {
		rec.Violation("c19:bfd:rt:marshal-error", "constructible header does not marshal: "+err.Error(), wit())
		return
	}
	if !bytes.Equal(b1, ref) {
		rec.Violation("c19:bfd:rt:wire-mismatch", "MarshalBinary differs from the RFC 5880 reference encoding",
			map[string]any{"case": idx, "header": fmt.Sprintf("%+v", h), "got": gen.C19Hex(b1), "want": gen.C19Hex(ref)})
	}
	h2 := &BFDHeader{}
	if rec.Guard("c19:bfd:rt:UnmarshalBinary", wit, func() { err = h2.UnmarshalBinary(gen.C19Exact(b1)) }) {
		return
	}
	if err != nil {
		rec.Violation("c19:bfd:rt:parse-error", "MarshalBinary output is rejected by UnmarshalBinary: "+err.Error(), wit())
		return
	}
	if !reflect.DeepEqual(h, h2) {
		rec.Violation("c19:bfd:rt:not-equal", "UnmarshalBinary(MarshalBinary(h)) != h",
			map[string]any{"case": idx, "header": fmt.Sprintf("%+v", h), "parsed": fmt.Sprintf("%+v", h2), "bytes": gen.C19Hex(b1)})
	}
	b2, err := h2.MarshalBinary()
	if err != nil || !bytes.Equal(b1, b2) {
		rec.Violation("c19:bfd:rt:reserialize-differs", "MarshalBinary(Unmarshal(MarshalBinary(h))) != MarshalBinary(h)", wit())
	}
	// out-of-range field values must be refused by MarshalBinary rather than silently truncated
	bad := *h
	switch r.IntN(3) {
	case 0:
		bad.Version = 8 + uint8(r.IntN(248))
	case 1:
		bad.Diagnostic = DiagnosticType(32 + r.IntN(224))
	default:
		bad.State = StateType(4 + r.IntN(252))
	}
	var bb []byte
	if !rec.Guard("c19:bfd:rt:MarshalBinary", wit, func() { bb, err = bad.MarshalBinary() }) && err == nil {
		h3 := &BFDHeader{}
		if e := h3.UnmarshalBinary(bb); e != nil || !reflect.DeepEqual(&bad, h3) {
			rec.Violation("c19:bfd:rt:out-of-range-silently-truncated", "MarshalBinary accepted an out-of-range field and produced bytes that parse back to a different header",
				map[string]any{"case": idx, "header": fmt.Sprintf("%+v", bad), "bytes": gen.C19Hex(bb)})
		}
	}
	rec.Count("bfd_rt", 1)
	rec.Count(fmt.Sprintf("bfd_rt_state%d_p%v_f%v", h.State, h.Poll, h.Final), 1)
	rec.Nontrivial(fmt.Sprintf("bfd|rt|v%d|d%d|s%d|%v%v", h.Version, h.Diagnostic, h.State, h.Poll, h.Final))
}

func TestVerifC19(t *testing.T) {
	rec := vlib.Open("C19")
	defer rec.Close()
	w := &gen.C19Watch{Rec: rec, N: 512}
	total := vlib.Scale(40000, 800000)
	vlib.Cases(total, func(idx int) {
		r := vlib.CaseRand("c19bfd", idx)
		rec.Eval()
		if r.IntN(4) == 3 { // (drawn from the case PRNG so that every shard gets every kind)
			c19RoundTrip(rec, w, r, idx)
		} else {
			c19Hostile(rec, w, r, idx)
		}
		if idx%9973 == 0 {
			h := c19GenHeader(r)
			rec.Sample(map[string]any{"proto": "bfd", "header": fmt.Sprintf("%+v", h), "wire": gen.C19Hex(c19RefEncode(h))})
		}
	})
}
