package zebra

// C19 (Zebra API part) — Header.decodeFromBytes, ReceiveSingleMsg (over an in-memory connection),
// parseMessage and every *Body.decodeFromBytes are safe on hostile input for ZAPI versions 2..6 and
// every software flavour; every command body that has both a serialize and a decode path for the
// same wire layout round-trips per version / flavour.
//
// Oracles: (A) no panic / caller's buffer unchanged / result independent of bytes beyond len(data)
// (spare-capacity poison) / ReceiveSingleMsg consumes exactly the declared length and does not
// depend on the bytes that follow in the stream / accepted values survive string(), serialize(),
// %v and json.Marshal. (B) serialize -> decode gives an equal body (after applying the derivations
// the serialiser documents: nexthop type from gate/ifindex, flag bits from label/weight/backup
// counts, prefix family from the address) and re-serialises to the same bytes; Message.Serialize ->
// ReceiveSingleMsg gives the same message; Header.serialize equals an independent reference.
//
// Request-only / response-only layouts (interface*, routerID, lookup, labelManagerConnect,
// getLabelChunk, releaseLabelChunk, and the ZAPI v2-4 route messages whose request and notification
// layouts differ by design) are only subject to (A).

import (
	"bytes"
	"encoding/binary"
	"encoding/json"
	"fmt"
	"io"
	"log/slog"
	"math/rand/v2"
	"net"
	"net/netip"
	"reflect"
	"syscall"
	"testing"
	"time"

	"github.com/osrg/gobgp/v4/internal/verif/gen"
	"github.com/osrg/gobgp/v4/internal/verif/vlib"
)

type c19Flavour struct {
	v   uint8
	sw  Software
	tag string
}

var c19Flavours = func() []c19Flavour {
	var out []c19Flavour
	add := func(v uint8, name string) {
		out = append(out, c19Flavour{v, NewSoftware(v, name), fmt.Sprintf("v%d/%s", v, map[bool]string{true: "default", false: name}[name == ""])})
	}
	add(2, "")
	add(3, "")
	add(4, "")
	add(5, "")
	add(5, "frr4")
	add(5, "frr5")
	add(5, "cumulus")
	// NewSoftware cannot produce the name "cumulus" from the documented software-name (no digits ->
	// forced to frr); the decoders still have cumulus branches, reached with this literal value
	out = append(out, c19Flavour{5, Software{name: "cumulus", version: 3.7}, "v5/cumulus-literal"})
	for _, n := range []string{"", "frr6", "frr7", "frr7.1", "frr7.2", "frr7.3", "frr7.4", "frr7.5", "frr8", "frr8.1", "frr8.2"} {
		add(6, n)
	}
	return out
}()

func (f c19Flavour) frrAtLeast(x float64) bool {
	return f.v == 6 && f.sw.name == "frr" && f.sw.version >= x
}

var c19Discard = slog.New(slog.NewTextHandler(io.Discard, &slog.HandlerOptions{Level: slog.LevelError + 4}))
var c19Verbose = slog.New(slog.NewTextHandler(io.Discard, &slog.HandlerOptions{Level: slog.LevelDebug}))

// c19Conn is an in-memory net.Conn serving a fixed byte stream.
type c19Conn struct{ r *bytes.Reader }

func (c *c19Conn) Read(p []byte) (int, error)       { return c.r.Read(p) }
func (c *c19Conn) Write(p []byte) (int, error)      { return len(p), nil }
func (c *c19Conn) Close() error                     { return nil }
func (c *c19Conn) LocalAddr() net.Addr              { return &net.UnixAddr{Name: "verif", Net: "unix"} }
func (c *c19Conn) RemoteAddr() net.Addr             { return &net.UnixAddr{Name: "verif", Net: "unix"} }
func (c *c19Conn) SetDeadline(time.Time) error      { return nil }
func (c *c19Conn) SetReadDeadline(time.Time) error  { return nil }
func (c *c19Conn) SetWriteDeadline(time.Time) error { return nil }

func c19U16(v uint16) []byte { return binary.BigEndian.AppendUint16(nil, v) }
func c19U32(v uint32) []byte { return binary.BigEndian.AppendUint32(nil, v) }

func c19Prefix(r *rand.Rand, v6 bool) (netip.Addr, uint8, uint8) {
	if v6 {
		p := gen.C19Prefix6(r).Masked()
		return p.Addr(), uint8(p.Bits()), syscall.AF_INET6
	}
	p := gen.C19Prefix4(r).Masked()
	return p.Addr(), uint8(p.Bits()), syscall.AF_INET
}

// ---------------------------------------------------------------- header

func c19RefHeader(h *Header) []byte {
	b := append(c19U16(h.Len), h.Marker, h.Version)
	switch h.Version {
	case 2:
		b = append(b, c19U16(uint16(h.Command))...)
	case 3, 4:
		b = append(b, c19U16(uint16(h.VrfID))...)
		b = append(b, c19U16(uint16(h.Command))...)
	default:
		b = append(b, c19U32(h.VrfID)...)
		b = append(b, c19U16(uint16(h.Command))...)
	}
	return b
}

func c19GenHeader(r *rand.Rand, v uint8) *Header {
	h := &Header{Len: HeaderSize(v) + uint16(r.IntN(200)), Marker: HeaderMarker(v), Version: v, Command: APIType(r.IntN(140))}
	switch v {
	case 3, 4:
		h.VrfID = uint32(r.IntN(65536))
	case 5, 6:
		h.VrfID = r.Uint32()
	}
	return h
}

// ---------------------------------------------------------------- bodies with a symmetric layout

// c19RT is one constructed body with what is needed to decode it again.
type c19RT struct {
	name    string // body type
	feature string // the one non-basic feature the body exercises ("-" if none)
	body    Body
	fresh   func() Body // empty body of the same kind to decode into
	cmd     APIType     // common command to send it under (0xffff: none)
	canon   func(Body)  // applies the serialiser's documented derivations to the built body
}

func c19GenNexthop(r *rand.Rand, fl c19Flavour, fam uint8, feature string, msg *MessageFlag, flags *Flag) Nexthop {
	var n Nexthop
	v6 := fam == syscall.AF_INET6
	gate := gen.C19Addr4(r)
	if v6 {
		gate = gen.C19Addr6(r)
	}
	if r.IntN(2) == 0 {
		n.VrfID = r.Uint32()
	}
	kind := r.IntN(4)
	if feature == "nh-ifindex" {
		kind = 4
	} else if feature == "nh-blackhole" {
		kind = 5
	}
	explicit := r.IntN(2) == 0
	switch kind {
	case 0, 1: // gateway only
		n.Gate = gate
		if explicit {
			n.Type = nexthopTypeIPv4
			if v6 {
				n.Type = nexthopTypeIPv6
			}
		}
	case 2, 3: // gateway + ifindex
		n.Gate = gate
		n.Ifindex = 1 + r.Uint32N(1000)
		if explicit {
			n.Type = nexthopTypeIPv4IFIndex
			if v6 {
				n.Type = nexthopTypeIPv6IFIndex
			}
		}
	case 4:
		n.Ifindex = 1 + r.Uint32N(1000)
		if explicit {
			n.Type = nexthopTypeIFIndex
		}
	default:
		n.blackholeType = uint8(r.IntN(4))
		if explicit {
			n.Type = nexthopTypeBlackhole
		}
	}
	switch feature {
	case "label":
		n.LabelNum = uint8(1 + r.IntN(3))
		for i := 0; i < int(n.LabelNum); i++ {
			n.MplsLabels = append(n.MplsLabels, 16+r.Uint32N(1<<20-16))
		}
		// labels are marked the way pkg/server/zclient.go does it
		Client{Version: fl.v, Software: fl.sw}.SetLabelFlag(msg, &n)
	case "weight":
		n.Weight = 1 + r.Uint32N(255)
	case "onlink":
		n.flags |= zapiNexthopFlagOnlink
	case "backup":
		n.backupNum = uint8(1 + r.IntN(3))
		for i := 0; i < int(n.backupNum); i++ {
			n.backupIndex = append(n.backupIndex, uint8(r.IntN(4)))
		}
	case "seg6":
		n.flags |= zapiNexthopFlagSeg6
		n.seg6localAction = r.Uint32N(16)
		n.seg6localCtx = seg6localContext{nh4: gen.C19Addr4(r).AsSlice(), nh6: gen.C19Addr6(r).AsSlice(), table: r.Uint32()}
	case "seg6local":
		n.flags |= zapiNexthopFlagSeg6Local
		n.seg6Segs = gen.C19Addr6(r).AsSlice()
	case "evpn":
		for i := range n.rmac {
			n.rmac[i] = byte(r.Uint32())
		}
	case "srte":
		n.srteColor = r.Uint32()
	}
	return n
}

// c19ExpectNexthopType is the independent statement of the serialiser's documented derivation
// "type from gate / ifindex" (Nexthop.gateToType) for ZAPI 5/6.
func c19ExpectNexthopType(n Nexthop) nexthopType {
	switch {
	case n.Gate.Is4() && n.Ifindex > 0:
		return nexthopTypeIPv4IFIndex
	case n.Gate.Is4():
		return nexthopTypeIPv4
	case n.Gate.Is6() && n.Ifindex > 0:
		return nexthopTypeIPv6IFIndex
	case n.Gate.Is6():
		return nexthopTypeIPv6
	case n.Ifindex > 0:
		return nexthopTypeIFIndex
	}
	return nexthopTypeBlackhole
}

func c19CanonNexthops(nhs []Nexthop, fl c19Flavour, fam uint8, hasFlag bool) []Nexthop {
	out := make([]Nexthop, len(nhs))
	for i, n := range nhs {
		if n.Type == 0 {
			n.Type = c19ExpectNexthopType(n)
		}
		if hasFlag {
			if n.LabelNum > 0 {
				n.flags |= zapiNexthopFlagLabel
			}
			if n.Weight > 0 {
				n.flags |= zapiNexthopFlagWeight
			}
			if n.backupNum > 0 {
				n.flags |= zapiNexthopFlagHasBackup
			}
		}
		t := n.Type
		if hasFlag { // frr7.3+: plain IPv4/IPv6 nexthops travel with an ifindex
			t = t.ipToIPIFIndex()
		}
		if t != nexthopTypeIPv4 && t != nexthopTypeIPv4IFIndex && t != nexthopTypeIPv6 && t != nexthopTypeIPv6IFIndex {
			// no gateway on the wire: the decoder reports the unspecified address of the family
			if fam == syscall.AF_INET6 {
				n.Gate = netip.IPv6Unspecified()
			} else {
				n.Gate = netip.IPv4Unspecified()
			}
		}
		if len(n.MplsLabels) == 0 {
			n.MplsLabels = nil
		}
		if len(n.backupIndex) == 0 {
			n.backupIndex = nil
		}
		out[i] = n
	}
	return out
}

func c19GenIPRoute(r *rand.Rand, fl c19Flavour) *c19RT {
	features := []string{"-", "-", "-", "srcpfx", "tableid", "label", "nh-ifindex", "nh-blackhole", "evpn", "multi-nexthop", "no-nexthop"}
	if fl.frrAtLeast(7.1) {
		features = append(features, "onlink")
	}
	if fl.frrAtLeast(7.3) {
		features = append(features, "weight")
	}
	if fl.frrAtLeast(7.4) {
		features = append(features, "backup", "backup-nexthops")
	}
	if fl.frrAtLeast(7.5) {
		features = append(features, "srte")
	}
	if fl.frrAtLeast(8) {
		features = append(features, "nhg", "opaque")
	}
	if fl.frrAtLeast(8.1) {
		features = append(features, "seg6", "seg6local")
	}
	feature := features[r.IntN(len(features))]
	if feature == "onlink" && fl.frrAtLeast(7.3) && r.IntN(2) == 0 {
		feature = "-"
	}
	v6 := r.IntN(2) == 0
	addr, plen, fam := c19Prefix(r, v6)
	b := &IPRouteBody{
		Type:     []RouteType{routeKernel, routeConnect, RouteStatic, RouteBGP}[r.IntN(4)],
		instance: uint16(r.IntN(3)),
		Safi:     SafiUnicast,
		Prefix:   Prefix{PrefixLen: plen, Prefix: addr},
	}
	if r.IntN(2) == 0 {
		b.Prefix.Family = fam // otherwise derived from the address by serialize
	}
	if r.IntN(3) == 0 {
		b.Flags |= FlagAllowRecursion
	}
	if r.IntN(3) == 0 {
		b.Flags |= FlagIBGP.ToEach(fl.v, fl.sw)
	}
	if r.IntN(4) == 0 {
		b.Flags |= FlagSelected.ToEach(fl.v, fl.sw)
	}
	if r.IntN(2) == 0 {
		b.Message |= MessageDistance.ToEach(fl.v, fl.sw)
		b.Distance = uint8(r.Uint32())
	}
	if r.IntN(2) == 0 {
		b.Message |= MessageMetric.ToEach(fl.v, fl.sw)
		b.Metric = r.Uint32()
	}
	if r.IntN(3) == 0 {
		b.Message |= messageTag.ToEach(fl.v, fl.sw)
		b.tag = r.Uint32()
	}
	if r.IntN(3) == 0 {
		b.Message |= MessageMTU.ToEach(fl.v, fl.sw)
		b.Mtu = r.Uint32()
	}
	nnh := 1
	switch feature {
	case "multi-nexthop":
		nnh = 2 + r.IntN(3)
	case "no-nexthop":
		nnh = 0
	case "srcpfx":
		sa, sl, _ := c19Prefix(r, v6)
		b.Message |= messageSRCPFX.ToEach(fl.v, fl.sw)
		b.srcPrefix = Prefix{PrefixLen: sl, Prefix: sa}
	case "tableid":
		b.Message |= messageTableID.ToEach(fl.v, fl.sw)
		b.tableID = 1 + r.Uint32N(1<<30)
	case "nhg":
		b.Message |= messageNhg.ToEach(fl.v, fl.sw)
		b.nhgid = 1 + r.Uint32N(1<<30)
	case "opaque":
		b.Message |= messageOpaque.ToEach(fl.v, fl.sw)
		b.opaque.length = uint16([]int{0, 1, 7, 100, 1024}[r.IntN(5)])
		for i := 0; i < int(b.opaque.length); i++ {
			b.opaque.data[i] = byte(r.Uint32())
		}
	case "evpn":
		b.Flags |= flagEvpnRoute.ToEach(fl.v, fl.sw)
	case "srte":
		b.Message |= messageSRTE.ToEach(fl.v, fl.sw) // (per-nexthop colour; gobgp has no route-level colour on the wire)
	}
	if nnh > 0 {
		b.Message |= MessageNexthop
		for i := 0; i < nnh; i++ {
			b.Nexthops = append(b.Nexthops, c19GenNexthop(r, fl, fam, feature, &b.Message, &b.Flags))
		}
	}
	if feature == "backup-nexthops" {
		b.Message |= messageBackupNexthops
		for i, n := 0, 1+r.IntN(2); i < n; i++ {
			b.backupNexthops = append(b.backupNexthops, c19GenNexthop(r, fl, fam, "-", &b.Message, &b.Flags))
		}
	}
	if feature == "evpn" && fl.v == 5 && nnh == 0 {
		return nil
	}
	hasFlag := fl.frrAtLeast(7.3)
	api := RouteAdd.ToEach(fl.v, fl.sw)
	b.API = api
	rt := &c19RT{name: "IPRouteBody", feature: feature, body: b, cmd: RouteAdd, fresh: func() Body { return &IPRouteBody{API: api} }}
	rt.canon = func(x Body) {
		c := x.(*IPRouteBody)
		c.Prefix.Family = fam
		c.Nexthops = c19CanonNexthops(c.Nexthops, fl, fam, hasFlag)
		c.backupNexthops = c19CanonNexthops(c.backupNexthops, fl, fam, hasFlag)
		if fl.v == 5 && c.Flags&flagEvpnRoute.ToEach(fl.v, fl.sw) > 0 {
			// ZAPI 5 carries one router MAC per route; the decoder reports it as an extra nexthop
			c.Nexthops = append(c.Nexthops, Nexthop{rmac: c.Nexthops[len(c.Nexthops)-1].rmac})
		}
	}
	return rt
}

func c19GenRT(r *rand.Rand, fl c19Flavour) *c19RT {
	for {
		var rt *c19RT
		switch k := r.IntN(12); {
		case k < 5:
			if fl.v < 5 {
				continue // ZAPI 2-4 route request and notification layouts differ by design
			}
			rt = c19GenIPRoute(r, fl)
		case k == 5:
			b := &HelloBody{redistDefault: RouteType(r.IntN(12)), instance: uint16(r.IntN(4)), receiveNotify: uint8(r.IntN(2))}
			if fl.v < 4 {
				b.instance = 0
			}
			if fl.v < 5 {
				b.receiveNotify = 0
			}
			if fl.frrAtLeast(7.4) {
				b.sessionID, b.synchronous = r.Uint32(), uint8(r.IntN(2))
			}
			rt = &c19RT{name: "HelloBody", feature: "-", body: b, cmd: Hello, fresh: func() Body { return &HelloBody{} }}
		case k == 6:
			b := &redistributeBody{redist: RouteType(r.IntN(12))}
			if fl.v >= 4 {
				b.afi, b.instance = afi(1+r.IntN(2)), uint16(r.IntN(4))
			}
			rt = &c19RT{name: "redistributeBody", feature: "-", body: b, cmd: redistributeAdd, fresh: func() Body { return &redistributeBody{} }}
		case k == 7:
			if fl.v < 5 {
				continue
			}
			b := &vrfLabelBody{label: r.Uint32N(1 << 20), afi: afi(1 + r.IntN(2)), labelType: lspTYPE(r.IntN(6))}
			rt = &c19RT{name: "vrfLabelBody", feature: "-", body: b, cmd: vrfLabel, fresh: func() Body { return &vrfLabelBody{} }}
		case k == 8:
			d := make([]byte, r.IntN(40))
			for i := range d {
				d[i] = byte(r.Uint32())
			}
			rt = &c19RT{name: "unknownBody", feature: "-", body: &unknownBody{Data: d}, cmd: APIType(0xffff), fresh: func() Body { return &unknownBody{} }}
		case k == 9 || k == 10:
			if fl.v < 3 {
				continue
			}
			b := &NexthopRegisterBody{}
			feature := "one"
			n := 1
			if r.IntN(3) == 0 {
				n = 2 + r.IntN(3)
				feature = "several"
			}
			v6 := r.IntN(2) == 0
			for i := 0; i < n; i++ {
				nh := &RegisteredNexthop{connected: uint8(r.IntN(2)), Family: syscall.AF_INET, Prefix: gen.C19Addr4(r)}
				if v6 {
					nh.Family, nh.Prefix = syscall.AF_INET6, gen.C19Addr6(r)
				}
				if fl.frrAtLeast(8.2) {
					nh.safi = uint16(SafiUnicast) // the only value the serialiser can emit
				}
				b.Nexthops = append(b.Nexthops, nh)
			}
			rt = &c19RT{name: "NexthopRegisterBody", feature: feature, body: b, cmd: nexthopRegister, fresh: func() Body { return &NexthopRegisterBody{} }}
		default:
			// NexthopUpdateBody.serialize emits no nexthops ("temporary code"): only bodies without any
			v6 := r.IntN(2) == 0
			a := gen.C19Addr4(r)
			fam := uint8(syscall.AF_INET)
			plen := uint8(32)
			if v6 {
				a, fam, plen = gen.C19Addr6(r), syscall.AF_INET6, 128
			}
			b := &NexthopUpdateBody{Prefix: Prefix{Family: fam, PrefixLen: plen, Prefix: a}, Metric: r.Uint32()}
			feature := "-"
			if fl.v >= 5 {
				b.Type, b.instance = RouteType(r.IntN(12)), uint16(r.IntN(4))
			}
			if fl.v >= 4 {
				b.Distance = uint8(r.Uint32())
			}
			if fl.frrAtLeast(7.5) && r.IntN(2) == 0 {
				b.Message |= messageSRTE.ToEach(fl.v, fl.sw) // (0x100 in frr7.5, 0x200 from frr8 on)
				b.srteColor = r.Uint32()
				feature = "srte"
			}
			rt = &c19RT{name: "NexthopUpdateBody", feature: feature, body: b, cmd: nexthopUpdate, fresh: func() Body { return &NexthopUpdateBody{} }}
			rt.canon = func(x Body) {
				c := x.(*NexthopUpdateBody)
				c.Nexthops = []Nexthop{}
				// the decoder documents that it sets MessageLabel for flavours whose nexthops always carry labels
				if fl.v == 6 && fl.sw.name == "frr" && fl.sw.version < 7.3 || fl.v == 5 && fl.sw.name == "frr" && fl.sw.version == 5 {
					c.Message |= MessageLabel
				}
			}
		}
		if rt != nil {
			return rt
		}
	}
}

// c19Clone deep-copies a built body through reflection-free means: serialise-independent copy is
// needed because serialize may write derived fields back into the body.
func c19CloneBody(b Body) Body {
	switch x := b.(type) {
	case *IPRouteBody:
		c := *x
		c.Nexthops = append([]Nexthop(nil), x.Nexthops...)
		c.backupNexthops = append([]Nexthop(nil), x.backupNexthops...)
		return &c
	case *NexthopUpdateBody:
		c := *x
		c.Nexthops = append([]Nexthop(nil), x.Nexthops...)
		return &c
	case *NexthopRegisterBody:
		c := &NexthopRegisterBody{api: x.api}
		for _, n := range x.Nexthops {
			nn := *n
			c.Nexthops = append(c.Nexthops, &nn)
		}
		return c
	case *HelloBody:
		c := *x
		return &c
	case *redistributeBody:
		c := *x
		return &c
	case *vrfLabelBody:
		c := *x
		return &c
	case *unknownBody:
		return &unknownBody{Data: append([]byte(nil), x.Data...)}
	}
	return b
}

func c19NormBody(b Body) {
	switch x := b.(type) {
	case *IPRouteBody:
		if len(x.Nexthops) == 0 {
			x.Nexthops = nil
		}
		if len(x.backupNexthops) == 0 {
			x.backupNexthops = nil
		}
		for i := range x.Nexthops {
			c19NormNexthop(&x.Nexthops[i])
		}
		for i := range x.backupNexthops {
			c19NormNexthop(&x.backupNexthops[i])
		}
	case *NexthopUpdateBody:
		if len(x.Nexthops) == 0 {
			x.Nexthops = nil
		}
	case *NexthopRegisterBody:
		if len(x.Nexthops) == 0 {
			x.Nexthops = nil
		}
	case *unknownBody:
		if len(x.Data) == 0 {
			x.Data = nil
		}
	}
}

func c19NormNexthop(n *Nexthop) {
	if len(n.MplsLabels) == 0 {
		n.MplsLabels = nil
	}
	if len(n.backupIndex) == 0 {
		n.backupIndex = nil
	}
	if len(n.seg6Segs) == 0 {
		n.seg6Segs = nil
	}
	if len(n.seg6localCtx.nh4) == 0 {
		n.seg6localCtx.nh4 = nil
	}
	if len(n.seg6localCtx.nh6) == 0 {
		n.seg6localCtx.nh6 = nil
	}
}

// c19Diff names the first fields in which two bodies of the same type differ (for witnesses).
func c19Diff(a, b any) string {
	va, vb := reflect.ValueOf(a), reflect.ValueOf(b)
	if va.Type() != vb.Type() {
		return fmt.Sprintf("type %T vs %T", a, b)
	}
	if va.Kind() == reflect.Pointer {
		va, vb = va.Elem(), vb.Elem()
	}
	if va.Kind() != reflect.Struct {
		return "value"
	}
	var out []string
	for i := 0; i < va.NumField(); i++ {
		fa, fb := fmt.Sprintf("%+v", va.Field(i)), fmt.Sprintf("%+v", vb.Field(i))
		if fa != fb {
			if len(fa) > 300 {
				fa = fa[:300]
			}
			if len(fb) > 300 {
				fb = fb[:300]
			}
			out = append(out, va.Type().Field(i).Name+": "+fa+" vs "+fb)
		}
	}
	return fmt.Sprint(out)
}

func c19ShowBody(b Body, fl c19Flavour) string {
	s := fmt.Sprintf("%+v", b)
	if len(s) > 700 {
		s = s[:700]
	}
	return s
}

// c19Baseline round-trips one plain route (IPv4 prefix, one IPv4 gateway nexthop with explicit type,
// metric) per ZAPI 5/6 flavour. A flavour whose plain route already fails is reported once under its
// own key and its feature-specific route cases are skipped: otherwise one flavour-wide defect would
// be reported again under every feature.
var c19BaselineBroken = map[string]string{}

func c19Baseline(rec *vlib.Rec) {
	for _, fl := range c19Flavours {
		if fl.v < 5 {
			continue
		}
		b := &IPRouteBody{Type: RouteBGP, Safi: SafiUnicast, Message: MessageNexthop | MessageMetric.ToEach(fl.v, fl.sw), Metric: 77,
			Prefix:   Prefix{Family: syscall.AF_INET, PrefixLen: 24, Prefix: netip.MustParseAddr("192.0.2.0")},
			Nexthops: []Nexthop{{Type: nexthopTypeIPv4, Gate: netip.MustParseAddr("198.51.100.1")}}, API: RouteAdd.ToEach(fl.v, fl.sw)}
		why := ""
		var wire []byte
		func() {
			defer func() {
				if e := recover(); e != nil {
					why = fmt.Sprint("panic: ", e)
				}
			}()
			b1, err := c19CloneBody(b).serialize(fl.v, fl.sw)
			wire = b1
			if err != nil {
				why = "serialize: " + err.Error()
				return
			}
			got := &IPRouteBody{API: b.API}
			if err := got.decodeFromBytes(b1, fl.v, fl.sw); err != nil {
				why = "decode: " + err.Error()
				return
			}
			if got.Metric != 77 || got.Prefix != b.Prefix || len(got.Nexthops) != 1 || got.Nexthops[0].Gate != b.Nexthops[0].Gate {
				why = "decoded route differs"
				return
			}
			if b2, err := got.serialize(fl.v, fl.sw); err != nil || !bytes.Equal(b1, b2) {
				why = "re-serialised bytes differ"
			}
		}()
		rec.Count("zapi_rt_baseline_flavours", 1)
		if why != "" {
			c19BaselineBroken[fl.tag] = why
			rec.Violation("c19:zapi:rt:baseline:IPRouteBody:"+fl.tag, "a plain IPv4 route with one gateway nexthop does not round-trip in this flavour: "+why,
				map[string]any{"flavour": fl.tag, "software": fl.sw.string(), "route": c19ShowBody(b, fl), "bytes": gen.C19Hex(wire), "why": why})
		}
	}
}

func c19RoundTrip(rec *vlib.Rec, w *gen.C19Watch, r *rand.Rand, idx int) {
	fl := c19Flavours[r.IntN(len(c19Flavours))]
	// ---- header
	h := c19GenHeader(r, fl.v)
	ref := c19RefHeader(h)
	hw := func() any {
		return map[string]any{"case": idx, "flavour": fl.tag, "header": fmt.Sprintf("%+v", *h), "reference": gen.C19Hex(ref)}
	}
	var hb []byte
	var err error
	if !rec.Guard("c19:zapi:rt:Header.serialize", hw, func() { hb, err = h.serialize() }) {
		rec.Count(fmt.Sprintf("zapi_rt_header_v%d", fl.v), 1)
		if err != nil || !bytes.Equal(hb, ref) {
			rec.Violation(fmt.Sprintf("c19:zapi:rt:wire-mismatch:Header:v%d", fl.v), "Header.serialize differs from the reference encoding", hw())
		}
		h2 := &Header{}
		if !rec.Guard("c19:zapi:rt:Header.decodeFromBytes", hw, func() { err = h2.decodeFromBytes(gen.C19Exact(ref)) }) {
			if err != nil || *h2 != *h {
				rec.Violation(fmt.Sprintf("c19:zapi:rt:not-equal:Header:v%d", fl.v), "Header.decodeFromBytes(serialize(h)) != h: "+fmt.Sprint(err), hw())
			}
		}
	}
	// ---- body
	rt := c19GenRT(r, fl)
	key := func(stage string) string {
		return fmt.Sprintf("c19:zapi:rt:%s:%s:%s:v%d", stage, rt.name, rt.feature, fl.v)
	}
	if _, broken := c19BaselineBroken[fl.tag]; broken && rt.name == "IPRouteBody" {
		rec.Count("zapi_rt_route_cases_skipped_flavour_baseline_broken", 1)
		return
	}
	want := c19CloneBody(rt.body)
	if rt.canon != nil {
		rt.canon(want)
	}
	c19NormBody(want)
	wit := func() any {
		return map[string]any{"case": idx, "flavour": fl.tag, "software": fl.sw.string(), "body": rt.name, "feature": rt.feature, "built": c19ShowBody(rt.body, fl)}
	}
	w.Mark(idx, "roundtrip:"+rt.name+":"+fl.tag, nil)
	rec.Count("zapi_rt_"+rt.name, 1)
	rec.Count("zapi_rt_flavour_"+fl.tag, 1)
	rec.Nontrivial("zapi|rt|" + fl.tag + "|" + rt.name + "|" + rt.feature)
	var b1 []byte
	if rec.Guard("c19:zapi:rt:serialize:"+rt.name, wit, func() { b1, err = rt.body.serialize(fl.v, fl.sw) }) {
		return
	}
	if err != nil {
		rec.Violation(key("serialize-error"), "constructible body does not serialise: "+err.Error(), wit())
		return
	}
	wb := func(extra map[string]any) map[string]any {
		m := wit().(map[string]any)
		m["bytes"] = gen.C19Hex(b1)
		for k, v := range extra {
			m[k] = v
		}
		return m
	}
	got := rt.fresh()
	if rec.Guard("c19:zapi:rt:decodeFromBytes:"+rt.name, wit, func() { err = got.decodeFromBytes(gen.C19Exact(b1), fl.v, fl.sw) }) {
		return
	}
	if err != nil {
		rec.Violation(key("parse-error"), "serialize output of a constructible body is rejected by decodeFromBytes: "+err.Error(), wb(nil))
		return
	}
	var b2 []byte
	if rec.Guard("c19:zapi:rt:serialize:"+rt.name, wit, func() { b2, err = got.serialize(fl.v, fl.sw) }) {
		return
	}
	reser := err == nil && bytes.Equal(b1, b2)
	c19NormBody(got)
	if !reflect.DeepEqual(want, got) {
		rec.Violation(key("not-equal"), "decode(serialize(b)) != b (after the serialiser's documented derivations)",
			wb(map[string]any{"expected": c19ShowBody(want, fl), "decoded": c19ShowBody(got, fl), "differs_in": c19Diff(want, got), "reserialized_equal": reser}))
		return // later stages would repeat the same defect under more keys
	}
	if !reser {
		rec.Violation(key("reserialize-differs"), "serialize(decode(serialize(b))) != serialize(b)", wb(map[string]any{"second": gen.C19Hex(b2), "err": fmt.Sprint(err), "decoded": c19ShowBody(got, fl)}))
		return
	}
	// ---- whole message through Message.Serialize and ReceiveSingleMsg
	if rt.cmd == APIType(0xffff) && r.IntN(2) == 0 {
		return
	}
	cmd := rt.cmd.ToEach(fl.v, fl.sw)
	if rt.cmd == APIType(0xffff) {
		cmd = APIType(200 + r.IntN(50)) // a command no flavour knows: must come back as unknownBody
	} else if cmd == zebraError {
		rec.Count("zapi_rt_command_not_in_flavour", 1)
		return
	}
	msg := &Message{Header: Header{Marker: HeaderMarker(fl.v), Version: fl.v, Command: cmd, VrfID: h.VrfID}, Body: c19CloneBody(rt.body)}
	var mb []byte
	mw := func() any {
		m := wit().(map[string]any)
		m["command"] = uint16(cmd)
		m["message_bytes"] = gen.C19Hex(mb)
		return m
	}
	if rec.Guard("c19:zapi:rt:Message.Serialize", mw, func() { mb, err = msg.Serialize(fl.sw) }) || err != nil {
		return
	}
	next := c19RefHeader(c19GenHeader(r, fl.v))
	conn := &c19Conn{r: bytes.NewReader(append(append([]byte(nil), mb...), next...))}
	var m2 *Message
	logger := c19Discard
	if r.IntN(2) == 0 {
		logger = c19Verbose
	}
	if rec.Guard("c19:zapi:rt:ReceiveSingleMsg", mw, func() { m2, err = ReceiveSingleMsg(logger, conn, fl.v, fl.sw, "verif") }) {
		return
	}
	rec.Count("zapi_rt_messages", 1)
	// framing / header defects do not depend on the body: keyed by version only
	mkey := func(stage string) string {
		switch stage {
		case "framing", "header":
			return fmt.Sprintf("c19:zapi:rt:message-%s:v%d", stage, fl.v)
		case "rejected", "body-type":
			return fmt.Sprintf("c19:zapi:rt:message-%s:%s:v%d", stage, rt.name, fl.v)
		}
		return fmt.Sprintf("c19:zapi:rt:message-%s:%s:%s:v%d", stage, rt.name, rt.feature, fl.v)
	}
	if err != nil || m2 == nil {
		rec.Violation(mkey("rejected"), "Message.Serialize output is not accepted by ReceiveSingleMsg (error or silently dropped): "+fmt.Sprint(err), mw())
		return
	}
	if consumed := len(mb) + len(next) - conn.r.Len(); consumed != len(mb) {
		rec.Violation(mkey("framing"), fmt.Sprintf("ReceiveSingleMsg consumed %d bytes of a %d byte message", consumed, len(mb)), mw())
	}
	if m2.Header != msg.Header {
		rec.Violation(mkey("header"), "received header differs from the sent one", mw())
	}
	var b3 []byte
	var e3 error
	if !rec.Guard("c19:zapi:rt:serialize:"+rt.name, mw, func() { b3, e3 = m2.Body.serialize(fl.v, fl.sw) }) {
		if e3 != nil || !bytes.Equal(b3, b1) {
			m := mw().(map[string]any)
			m["received_body"] = fmt.Sprintf("%T %+v", m2.Body, m2.Body)
			rec.Violation(mkey("body"), "the received message's body does not re-serialise to the sent body", m)
		}
	}
	// which Go type parseMessage chose for the command
	wantType := fmt.Sprintf("%T", rt.body)
	switch rt.cmd {
	case Hello, redistributeAdd, nexthopRegister, APIType(0xffff):
		wantType = "*zebra.unknownBody" // client->zebra only: the client side does not decode these
	}
	if gotType := fmt.Sprintf("%T", m2.Body); gotType != wantType {
		rec.Violation(mkey("body-type"), "parseMessage chose "+gotType+" for a "+wantType+" command", mw())
	}
}

// ---------------------------------------------------------------- hostile inputs

type c19Decoder struct {
	name  string
	minV  uint8
	fresh func(fl c19Flavour, r *rand.Rand) Body
	seed  func(fl c19Flavour, r *rand.Rand) []byte // a valid body in the zebra->client layout (or nil)
}

func c19RouteAPIs(v uint8) []APIType {
	switch {
	case v == 4:
		return []APIType{zapi4IPv4RouteAdd, zapi4IPv4RouteDelete, zapi4IPv6RouteAdd, zapi4IPv6RouteDelete, zapi4RedistributeIPv4Add, zapi4RedistributeIPv6Add, zapi4RedistributeIPv6Del, 99}
	case v < 4:
		return []APIType{zapi3IPv4RouteAdd, zapi3IPv4RouteDelete, zapi3IPv6RouteAdd, zapi3IPv6RouteDelete, 99}
	}
	return []APIType{RouteAdd, RedistributeRouteAdd, RedistributeRouteDel}
}

// c19SeedRouteV4 builds a route notification in the ZAPI 2-4 zebra->client layout.
func c19SeedRouteV4(fl c19Flavour, r *rand.Rand, api APIType) []byte {
	v6 := api.addressFamily(fl.v) == syscall.AF_INET6
	addr, plen, _ := c19Prefix(r, v6)
	b := []byte{byte(r.IntN(11))}
	if fl.v == 4 {
		b = append(b, c19U16(uint16(r.IntN(3)))...)
		b = append(b, c19U32(r.Uint32N(0x200))...)
	} else {
		b = append(b, byte(r.IntN(256)))
	}
	msg := MessageNexthop
	if r.IntN(2) == 0 {
		msg |= messageIFIndex
	}
	for _, f := range []MessageFlag{MessageDistance, MessageMetric, messageTag, MessageMTU} {
		if r.IntN(2) == 0 {
			msg |= f.ToEach(fl.v, fl.sw)
		}
	}
	b = append(b, byte(msg), plen)
	b = append(b, addr.AsSlice()[:(int(plen)+7)/8]...)
	n := 1 + r.IntN(2)
	b = append(b, byte(n))
	for i := 0; i < n; i++ {
		if v6 {
			b = append(b, gen.C19Addr6(r).AsSlice()...)
		} else {
			b = append(b, gen.C19Addr4(r).AsSlice()...)
		}
	}
	if msg&messageIFIndex > 0 {
		b = append(b, 1)
		b = append(b, c19U32(r.Uint32N(100))...)
	}
	if msg&MessageDistance.ToEach(fl.v, fl.sw) > 0 {
		b = append(b, byte(r.Uint32()))
	}
	for _, f := range []MessageFlag{MessageMetric, messageTag, MessageMTU} {
		if msg&f.ToEach(fl.v, fl.sw) > 0 {
			b = append(b, c19U32(r.Uint32())...)
		}
	}
	return b
}

func c19SeedNexthopUpdate(fl c19Flavour, r *rand.Rand) []byte {
	var b []byte
	msg := MessageFlag(0)
	v6 := r.IntN(2) == 0
	fam := uint8(syscall.AF_INET)
	a := gen.C19Addr4(r)
	plen := byte(32)
	if v6 {
		fam, a, plen = syscall.AF_INET6, gen.C19Addr6(r), 128
	}
	if fl.frrAtLeast(7.5) {
		if r.IntN(3) == 0 {
			msg |= messageSRTE.ToEach(fl.v, fl.sw)
		}
		b = append(b, c19U32(uint32(msg))...)
		if fl.sw.version >= 8.2 {
			b = append(b, c19U16(uint16(SafiUnicast))...)
			b = append(b, c19U16(uint16(fam))...)
			b = append(b, plen)
			b = append(b, a.AsSlice()...)
		}
	}
	b = append(b, c19U16(uint16(fam))...)
	b = append(b, plen)
	b = append(b, a.AsSlice()...)
	if msg&messageSRTE.ToEach(fl.v, fl.sw) > 0 {
		b = append(b, c19U32(r.Uint32())...)
	}
	if fl.v > 4 {
		b = append(b, byte(r.IntN(12)))
		b = append(b, c19U16(uint16(r.IntN(3)))...)
	}
	if fl.v > 3 {
		b = append(b, byte(r.Uint32()))
	}
	b = append(b, c19U32(r.Uint32())...)
	n := r.IntN(3)
	b = append(b, byte(n))
	// nexthops in the layout the decoder documents for the flavour
	processFlag := nexthopHasType
	if fl.v == 6 && fl.sw.name == "frr" {
		if fl.sw.version >= 7.3 {
			processFlag |= nexthopHasVrfID | nexthopHasFlag | nexthopProcessIPToIPIFindex
		} else if fl.sw.version >= 7 {
			processFlag |= nexthopHasVrfID | nexthopProcessIPToIPIFindex
		} else if fl.sw.version >= 6 {
			processFlag |= nexthopProcessIPToIPIFindex
		}
	} else if fl.v == 5 && fl.sw.name == "frr" && fl.sw.version == 5 {
		processFlag |= nexthopProcessIPToIPIFindex
	}
	if fl.v == 6 && fl.sw.name == "frr" && fl.sw.version < 7.3 || fl.v == 5 && fl.sw.name == "frr" && fl.sw.version == 5 {
		msg |= MessageLabel
	}
	for i := 0; i < n; i++ {
		feature := []string{"-", "-", "label", "nh-ifindex"}[r.IntN(4)]
		if fl.frrAtLeast(7.3) && r.IntN(3) == 0 {
			feature = "weight"
		}
		var m2 MessageFlag
		var f2 Flag
		nh := c19GenNexthop(r, fl, fam, feature, &m2, &f2)
		if nh.Type == 0 {
			nh.Type = c19ExpectNexthopType(nh)
		}
		nh.Type = nh.Type.toEach(fl.v)
		b = append(b, nh.encode(fl.v, fl.sw, processFlag, msg, 0)...)
	}
	return b
}

func c19SeedInterface(fl c19Flavour, r *rand.Rand) []byte {
	b := make([]byte, interfaceNameSize)
	copy(b, "eth"+fmt.Sprint(r.IntN(100)))
	b = append(b, c19U32(r.Uint32N(100))...)
	b = append(b, byte(r.IntN(16)))
	b = binary.BigEndian.AppendUint64(b, r.Uint64())
	if fl.v > 3 {
		b = append(b, byte(r.IntN(3)), byte(r.IntN(3)))
	}
	b = append(b, c19U32(r.Uint32N(100))...)
	if fl.v > 3 {
		b = append(b, c19U32(10000)...)
	}
	b = append(b, c19U32(1500)...)
	b = append(b, c19U32(1500)...)
	b = append(b, c19U32(r.Uint32N(1000))...)
	if fl.frrAtLeast(7.2) {
		b = append(b, c19U32(r.Uint32N(10))...)
	}
	if fl.v > 2 {
		b = append(b, c19U32(r.Uint32N(50))...)
	}
	hl := []int{0, 6, 6, 20}[r.IntN(4)]
	b = append(b, c19U32(uint32(hl))...)
	for i := 0; i < hl; i++ {
		b = append(b, byte(r.Uint32()))
	}
	if fl.v > 2 {
		if r.IntN(2) == 0 {
			b = append(b, 0)
		} else {
			b = append(b, 1)
			b = append(b, c19U32(r.Uint32())...) // status
			b = append(b, c19U32(r.Uint32())...) // te metric
			b = append(b, c19U32(r.Uint32())...) // max bw
			b = append(b, c19U32(r.Uint32())...) // max rsv bw
			n := r.IntN(8)
			b = append(b, c19U32(uint32(n))...)
			for i := 0; i < n+1; i++ { // (the decoder's own bound asks for one more word than classes)
				b = append(b, c19U32(r.Uint32())...)
			}
			for i := 0; i < 11; i++ {
				b = append(b, c19U32(r.Uint32())...)
			}
		}
	}
	return b
}

func c19SeedNexthopRegister(fl c19Flavour, r *rand.Rand) []byte {
	var b []byte
	for i, n := 0, 1+r.IntN(3); i < n; i++ {
		b = append(b, byte(r.IntN(2)))
		if fl.frrAtLeast(8.2) {
			b = append(b, byte(r.IntN(2)))
			b = append(b, c19U16(uint16(SafiUnicast))...)
		}
		if r.IntN(2) == 0 {
			b = append(b, c19U16(syscall.AF_INET)...)
			b = append(b, 32)
			b = append(b, gen.C19Addr4(r).AsSlice()...)
		} else {
			b = append(b, c19U16(syscall.AF_INET6)...)
			b = append(b, 128)
			b = append(b, gen.C19Addr6(r).AsSlice()...)
		}
	}
	return b
}

var c19Decoders = []c19Decoder{
	{name: "unknownBody", fresh: func(c19Flavour, *rand.Rand) Body { return &unknownBody{} }},
	{name: "HelloBody", fresh: func(c19Flavour, *rand.Rand) Body { return &HelloBody{} },
		seed: func(fl c19Flavour, r *rand.Rand) []byte {
			b, _ := (&HelloBody{redistDefault: RouteBGP, instance: 1, sessionID: r.Uint32(), receiveNotify: 1}).serialize(fl.v, fl.sw)
			return b
		}},
	{name: "redistributeBody", fresh: func(c19Flavour, *rand.Rand) Body { return &redistributeBody{} },
		seed: func(fl c19Flavour, r *rand.Rand) []byte {
			b, _ := (&redistributeBody{afi: afiIP, redist: RouteBGP}).serialize(fl.v, fl.sw)
			return b
		}},
	{name: "interfaceUpdateBody", fresh: func(c19Flavour, *rand.Rand) Body { return &interfaceUpdateBody{} }, seed: c19SeedInterface},
	{name: "interfaceAddressUpdateBody", fresh: func(c19Flavour, *rand.Rand) Body { return &interfaceAddressUpdateBody{} },
		seed: func(fl c19Flavour, r *rand.Rand) []byte {
			b := append(c19U32(r.Uint32N(100)), byte(r.IntN(8)))
			if r.IntN(2) == 0 {
				b = append(b, syscall.AF_INET)
				b = append(b, gen.C19Addr4(r).AsSlice()...)
				b = append(b, byte(r.IntN(33)))
				return append(b, gen.C19Addr4(r).AsSlice()...)
			}
			b = append(b, syscall.AF_INET6)
			b = append(b, gen.C19Addr6(r).AsSlice()...)
			b = append(b, byte(r.IntN(129)))
			return append(b, gen.C19Addr6(r).AsSlice()...)
		}},
	{name: "routerIDUpdateBody", fresh: func(c19Flavour, *rand.Rand) Body { return &routerIDUpdateBody{} },
		seed: func(fl c19Flavour, r *rand.Rand) []byte {
			if r.IntN(2) == 0 {
				return append(append([]byte{syscall.AF_INET}, gen.C19Addr4(r).AsSlice()...), 32)
			}
			return append(append([]byte{syscall.AF_INET6}, gen.C19Addr6(r).AsSlice()...), 128)
		}},
	{name: "IPRouteBody", fresh: func(fl c19Flavour, r *rand.Rand) Body {
		apis := c19RouteAPIs(fl.v)
		return &IPRouteBody{API: apis[r.IntN(len(apis))]}
	}, seed: nil}, // seeded below (needs the API value)
	{name: "lookupBody", fresh: func(fl c19Flavour, r *rand.Rand) Body {
		apis := []APIType{ipv4NexthopLookupMRIB.ToEach(fl.v, fl.sw), zapi3IPv4NexthopLookup, zapi3IPv6NexthopLookup, zapi3IPv4ImportLookup}
		return &lookupBody{api: apis[r.IntN(len(apis))]}
	}, seed: func(fl c19Flavour, r *rand.Rand) []byte {
		b := gen.C19Addr4(r).AsSlice()
		if r.IntN(2) == 0 {
			b = append(b, byte(r.Uint32())) // distance (MRIB flavour)
		}
		b = append(b, c19U32(r.Uint32())...)
		n := r.IntN(3)
		b = append(b, byte(n))
		for i := 0; i < n; i++ {
			t := []nexthopType{nexthopTypeIFIndex, nexthopTypeIFName, backwardNexthopTypeIPv4, backwardNexthopTypeIPv4IFIndex, nexthopTypeIPv4IFName, backwardNexthopTypeBlackhole}[r.IntN(6)]
			b = append(b, byte(t))
			b = append(b, gen.C19Addr4(r).AsSlice()...)
			b = append(b, c19U32(r.Uint32N(100))...)
		}
		return b
	}},
	{name: "RegisteredNexthop", fresh: func(c19Flavour, *rand.Rand) Body { return nil }}, // handled specially (not a Body)
	{name: "NexthopRegisterBody", fresh: func(c19Flavour, *rand.Rand) Body { return &NexthopRegisterBody{} }, seed: c19SeedNexthopRegister},
	{name: "NexthopUpdateBody", fresh: func(c19Flavour, *rand.Rand) Body { return &NexthopUpdateBody{} }, seed: c19SeedNexthopUpdate},
	{name: "labelManagerConnectBody", fresh: func(c19Flavour, *rand.Rand) Body { return &labelManagerConnectBody{} },
		seed: func(fl c19Flavour, r *rand.Rand) []byte {
			return []byte{byte(RouteBGP), 0, byte(r.IntN(2)), byte(r.IntN(2))}
		}},
	{name: "GetLabelChunkBody", fresh: func(c19Flavour, *rand.Rand) Body { return &GetLabelChunkBody{} },
		seed: func(fl c19Flavour, r *rand.Rand) []byte {
			b := []byte{byte(RouteBGP), 0, 0, byte(r.IntN(2))}
			b = append(b, c19U32(r.Uint32())...)
			return append(b, c19U32(r.Uint32())...)
		}},
	{name: "releaseLabelChunkBody", fresh: func(c19Flavour, *rand.Rand) Body { return &releaseLabelChunkBody{} }},
	{name: "vrfLabelBody", fresh: func(c19Flavour, *rand.Rand) Body { return &vrfLabelBody{} },
		seed: func(fl c19Flavour, r *rand.Rand) []byte {
			return append(c19U32(r.Uint32()), byte(r.IntN(4)), byte(r.IntN(7)))
		}},
}

// c19SameBody is the equality used by the poison differentials (both sides come from the decoder).
// interfaceUpdateBody carries float32 link parameters that may be NaN: compared by their printed form.
func c19SameBody(a, b Body) bool {
	if _, ok := a.(*interfaceUpdateBody); ok {
		return fmt.Sprintf("%T %+v", a, a) == fmt.Sprintf("%T %+v", b, b)
	}
	return reflect.DeepEqual(a, b)
}

func c19SameMsg(a, b *Message) bool {
	if a == nil || b == nil {
		return a == b
	}
	return a.Header == b.Header && c19SameBody(a.Body, b.Body)
}

func c19Hostile(rec *vlib.Rec, w *gen.C19Watch, r *rand.Rand, idx int) {
	fl := c19Flavours[r.IntN(len(c19Flavours))]
	d := c19Decoders[r.IntN(len(c19Decoders))]
	rec.Count("zapi_hostile_inputs", 1)
	rec.Count("zapi_hostile_flavour_"+fl.tag, 1)

	body := d.fresh(fl, r)
	// ---- input
	var in []byte
	kind := "random"
	var seed []byte
	switch {
	case d.name == "IPRouteBody" && fl.v >= 5:
		if rt := c19GenIPRoute(r, fl); rt != nil {
			seed, _ = rt.body.serialize(fl.v, fl.sw)
		}
	case d.name == "IPRouteBody":
		seed = c19SeedRouteV4(fl, r, body.(*IPRouteBody).API)
	case d.name == "RegisteredNexthop":
		seed = c19SeedNexthopRegister(fl, r)
	case d.seed != nil:
		seed = d.seed(fl, r)
	}
	if seed != nil { // evidence that the mutation bases are valid messages of the flavour
		if chk := d.fresh(fl, r); chk != nil {
			if ib, ok := body.(*IPRouteBody); ok {
				chk = &IPRouteBody{API: ib.API}
			}
			if lb, ok := body.(*lookupBody); ok {
				chk = &lookupBody{api: lb.api}
			}
			func() {
				defer func() { _ = recover() }()
				if chk.decodeFromBytes(gen.C19Exact(seed), fl.v, fl.sw) == nil {
					rec.Count("zapi_seed_valid_"+d.name, 1)
				} else {
					rec.Count("zapi_seed_rejected_"+d.name, 1)
				}
			}()
		}
	}
	switch c := r.IntN(8); {
	case c == 0 || seed == nil:
		in = gen.C19RandomBytes(r, 80)
	case c == 1:
		in, kind = seed, "valid"
	default:
		in, kind = gen.C19Mutate(r, seed, nil)
	}
	bw := func(b Body) func() any {
		api := APIType(0)
		switch x := b.(type) {
		case *IPRouteBody:
			api = x.API
		case *lookupBody:
			api = x.api
		}
		return func() any {
			return map[string]any{"case": idx, "flavour": fl.tag, "software": fl.sw.string(), "decoder": d.name, "input": gen.C19Hex(in), "mutation": kind, "body_api_field": uint16(api)}
		}
	}

	// ---- the body decoder
	ep := d.name + ".decodeFromBytes"
	w.Mark(idx, ep+":"+fl.tag, in)
	if d.name == "RegisteredNexthop" {
		n := &RegisteredNexthop{}
		var err error
		if !rec.Guard("c19:zapi:"+ep, bw(nil), func() { err = n.decodeFromBytes(gen.C19Exact(in), fl.v, fl.sw) }) {
			rec.Nontrivial("zapi|" + ep + "|" + fl.tag + "|" + gen.C19ErrClass(err))
			rec.Count("zapi_calls_"+ep, 1)
			if err == nil {
				rec.Guard("c19:zapi:post:"+d.name, bw(nil), func() { _ = n.string(fl.v, fl.sw); _, _ = n.serialize(fl.v, fl.sw); _ = n.len() })
			}
		}
	} else {
		copyOf := func() Body { // a fresh body with the same pre-set API
			switch x := body.(type) {
			case *IPRouteBody:
				return &IPRouteBody{API: x.API}
			case *lookupBody:
				return &lookupBody{api: x.api}
			}
			return d.fresh(fl, r)
		}
		exact := gen.C19Exact(in)
		var err error
		if !rec.Guard("c19:zapi:"+ep, bw(body), func() { err = body.decodeFromBytes(exact, fl.v, fl.sw) }) {
			rec.Count("zapi_calls_"+ep, 1)
			rec.Nontrivial("zapi|" + ep + "|" + fl.tag + "|" + gen.C19ErrClass(err))
			if !bytes.Equal(exact, in) {
				rec.Violation("c19:zapi:"+ep+":buffer-modified", "decoder modified the caller's buffer", bw(body)())
			}
			ba, bb := copyOf(), copyOf()
			var ea, eb error
			pa := rec.Guard("c19:zapi:"+ep, bw(ba), func() { ea = ba.decodeFromBytes(gen.C19Slack(in, 0xAA, 64), fl.v, fl.sw) })
			pb := rec.Guard("c19:zapi:"+ep, bw(bb), func() { eb = bb.decodeFromBytes(gen.C19Slack(in, 0x55, 64), fl.v, fl.sw) })
			if !pa && !pb && (gen.C19ErrClass(ea) != gen.C19ErrClass(eb) || gen.C19ErrClass(ea) != gen.C19ErrClass(err) || (ea == nil && (!c19SameBody(ba, bb) || !c19SameBody(ba, body)))) {
				rec.Violation("c19:zapi:"+ep+":over-read", "result depends on bytes beyond len(data)",
					map[string]any{"case": idx, "flavour": fl.tag, "input": gen.C19Hex(in), "exact": fmt.Sprintf("%+v / %v", body, err), "poisonAA": fmt.Sprintf("%+v / %v", ba, ea), "poison55": fmt.Sprintf("%+v / %v", bb, eb)})
			}
			if err == nil {
				rec.Count("zapi_accepted_"+d.name, 1)
				rec.Guard("c19:zapi:post-string:"+d.name, bw(body), func() {
					_ = body.string(fl.v, fl.sw)
					_ = fmt.Sprintf("%v %+v", body, body)
					_, _ = json.Marshal(body)
					if ib, ok := body.(*IPRouteBody); ok {
						_ = ib.Family(c19Verbose, fl.v, fl.sw)
						_ = ib.IsWithdraw(fl.v, fl.sw)
					}
				})
				rec.Guard("c19:zapi:post-serialize:"+d.name, bw(body), func() { _, _ = body.serialize(fl.v, fl.sw) })
			}
		}
	}

	// ---- header decoder + parseMessage + ReceiveSingleMsg on a framed version of the same bytes
	var stream []byte
	hkind := "framed"
	cmds := []APIType{interfaceAdd, interfaceAddressAdd, routerIDUpdate, nexthopUpdate, RedistributeRouteAdd, RedistributeRouteDel, labelManagerConnect, getLabelChunk, releaseLabelChunk, vrfLabel, RouteAdd, RouteDelete, BackwardIPv6RouteAdd, ipv4NexthopLookupMRIB, Hello}
	cmd := cmds[r.IntN(len(cmds))].ToEach(fl.v, fl.sw)
	if fl.v <= 4 && r.IntN(4) == 0 {
		cmd = []APIType{zapi4RedistributeIPv6Add, zapi4RedistributeIPv6Del, zapi3IPv4NexthopLookup, zapi3IPv6NexthopLookup, zapi3IPv4ImportLookup}[r.IntN(5)]
	}
	if r.IntN(8) == 0 {
		cmd = APIType(r.IntN(300))
	}
	hdr := &Header{Len: HeaderSize(fl.v) + uint16(len(in)), Marker: HeaderMarker(fl.v), Version: fl.v, VrfID: r.Uint32N(3), Command: cmd}
	hb := c19RefHeader(hdr)
	switch r.IntN(6) {
	case 0:
		hb, hkind = gen.C19Mutate(r, hb, []gen.C19Field{{Off: 0, Size: 2}, {Off: 0, Size: 2}, {Off: 3, Size: 1}, {Off: 2, Size: 1}})
		hkind = "header-" + hkind
	case 1:
		hb, hkind = gen.C19RandomBytes(r, 12), "header-random"
	}
	stream = append(append([]byte(nil), hb...), in...)
	sw := func() any {
		return map[string]any{"case": idx, "flavour": fl.tag, "software": fl.sw.string(), "stream": gen.C19Hex(stream), "mutation": kind + "/" + hkind}
	}
	w.Mark(idx, "Header.decodeFromBytes:"+fl.tag, stream)
	h1 := &Header{}
	var herr error
	if !rec.Guard("c19:zapi:Header.decodeFromBytes", sw, func() { herr = h1.decodeFromBytes(gen.C19Exact(hb)) }) {
		rec.Count("zapi_calls_Header.decodeFromBytes", 1)
		rec.Nontrivial(fmt.Sprintf("zapi|Header.decodeFromBytes|v%d|%s", fl.v, gen.C19ErrClass(herr)))
		ha, hb2 := &Header{}, &Header{}
		var ea, eb error
		pa := rec.Guard("c19:zapi:Header.decodeFromBytes", sw, func() { ea = ha.decodeFromBytes(gen.C19Slack(hb, 0xAA, 16)) })
		pb := rec.Guard("c19:zapi:Header.decodeFromBytes", sw, func() { eb = hb2.decodeFromBytes(gen.C19Slack(hb, 0x55, 16)) })
		if !pa && !pb && (fmt.Sprint(ea) != fmt.Sprint(eb) || *ha != *hb2 || fmt.Sprint(ea) != fmt.Sprint(herr) || *ha != *h1) {
			rec.Violation("c19:zapi:Header.decodeFromBytes:over-read", "result depends on bytes beyond len(data)", sw())
		}
		if herr == nil {
			rec.Guard("c19:zapi:post-serialize:Header", sw, func() { _, _ = h1.serialize() })
			// parseMessage with the decoded header on the body bytes
			w.Mark(idx, "parseMessage:"+fl.tag, stream)
			var pm *Message
			var perr error
			if !rec.Guard("c19:zapi:parseMessage", sw, func() { pm, perr = parseMessage(h1, gen.C19Exact(in), fl.sw) }) {
				rec.Count("zapi_calls_parseMessage", 1)
				bt := "nil"
				if pm != nil {
					bt = fmt.Sprintf("%T", pm.Body)
				}
				rec.Nontrivial("zapi|parseMessage|" + fl.tag + "|" + bt + "|" + gen.C19ErrClass(perr))
				if perr == nil && pm != nil {
					rec.Guard("c19:zapi:post-serialize:Message", sw, func() { _, _ = pm.Serialize(fl.sw); _ = pm.Body.string(fl.v, fl.sw) })
				}
			}
		}
	}
	// ReceiveSingleMsg: the stream followed by two different continuations
	w.Mark(idx, "ReceiveSingleMsg:"+fl.tag, stream)
	logger := c19Discard
	if r.IntN(3) == 0 {
		logger = c19Verbose
	}
	type res struct {
		m        *Message
		err      error
		consumed int
		panicked bool
	}
	run := func(tail []byte) res {
		full := append(append([]byte(nil), stream...), tail...)
		conn := &c19Conn{r: bytes.NewReader(full)}
		var out res
		out.panicked = rec.Guard("c19:zapi:ReceiveSingleMsg", sw, func() { out.m, out.err = ReceiveSingleMsg(logger, conn, fl.v, fl.sw, "verif") })
		out.consumed = len(full) - conn.r.Len()
		return out
	}
	r0 := run(nil)
	if !r0.panicked {
		rec.Count("zapi_calls_ReceiveSingleMsg", 1)
		cls := "dropped"
		if r0.m != nil {
			cls = fmt.Sprintf("%T", r0.m.Body)
		}
		rec.Nontrivial("zapi|ReceiveSingleMsg|" + fl.tag + "|" + cls + "|" + gen.C19ErrClass(r0.err))
		declared := -1
		if len(stream) >= 2 {
			declared = int(binary.BigEndian.Uint16(stream))
		}
		if r0.err == nil && declared >= 0 && declared <= len(stream) {
			// a complete message is in the stream: exactly its declared length must have been consumed,
			// and what follows must not matter
			if r0.consumed != declared {
				rec.Violation("c19:zapi:ReceiveSingleMsg:framing", fmt.Sprintf("consumed %d bytes for a message declaring %d", r0.consumed, declared), sw())
			}
			ra, rb := run(bytes.Repeat([]byte{0xAA}, 40)), run(bytes.Repeat([]byte{0x55}, 40))
			if !ra.panicked && !rb.panicked && (fmt.Sprint(ra.err) != fmt.Sprint(rb.err) || ra.consumed != rb.consumed || !c19SameMsg(ra.m, rb.m)) {
				rec.Violation("c19:zapi:ReceiveSingleMsg:depends-on-following-bytes", "the message read from the stream changes with the bytes that follow it", sw())
			}
			rec.Count("zapi_receive_differentials", 1)
		}
		if r0.m != nil {
			rec.Guard("c19:zapi:post-serialize:Message", sw, func() {
				_, _ = r0.m.Serialize(fl.sw)
				_ = r0.m.Body.string(fl.v, fl.sw)
				_, _ = json.Marshal(r0.m)
			})
		}
	}
}

func TestVerifC19(t *testing.T) {
	rec := vlib.Open("C19")
	defer rec.Close()
	w := &gen.C19Watch{Rec: rec, N: 256}
	c19Baseline(rec)
	total := vlib.Scale(240000, 4800000)
	vlib.Cases(total, func(idx int) {
		r := vlib.CaseRand("c19zapi", idx)
		rec.Eval()
		if r.IntN(4) == 0 { // (drawn from the case PRNG so that every shard gets every kind)
			c19RoundTrip(rec, w, r, idx)
		} else {
			c19Hostile(rec, w, r, idx)
		}
		if idx%9973 == 0 {
			fl := c19Flavours[r.IntN(len(c19Flavours))]
			rt := c19GenRT(r, fl)
			b, _ := rt.body.serialize(fl.v, fl.sw)
			rec.Sample(map[string]any{"proto": "zapi", "flavour": fl.tag, "body": rt.name, "feature": rt.feature, "wire": gen.C19Hex(b)})
		}
	})
}
