package server

// C16 (unit 2, API level) — a whole BgpServer, configured through AddRpki, fed by harness RTR caches
// on loopback listeners, observed only through the public API: ListRpkiTable, ListRpki, ListPath
// (validation field) and DeleteRpki. The harness synchronises on ListRpki's "End of Data received"
// counter (bounded polling; running out of patience is INCONCLUSIVE, never a violation).
//
// Oracles: the reference model of c16_model_test.go for the table, and an RFC 6811 brute force over
// the model's records for the validation state of the routes in the global RIB.

import (
	"context"
	"fmt"
	"math/rand/v2"
	"net"
	"net/netip"
	"sort"
	"strconv"
	"strings"
	"time"

	"github.com/osrg/gobgp/v4/api"
	"github.com/osrg/gobgp/v4/internal/verif/vlib"
	"github.com/osrg/gobgp/v4/pkg/apiutil"
	"github.com/osrg/gobgp/v4/pkg/packet/bgp"
	"github.com/osrg/gobgp/v4/pkg/packet/rtr"
)

const c16APILocalAS = 65000

type c16API struct {
	rec    *vlib.Rec
	idx    int
	s      *BgpServer
	caches []*c16Cache
	model  map[string]*c16CacheM
	eods   map[string]int64 // End of Data PDUs sent on the current connection
	trace  []string
	broken bool
}

func (a *c16API) logf(f string, x ...any) { a.trace = append(a.trace, fmt.Sprintf(f, x...)) }
func (a *c16API) witness() map[string]any {
	return map[string]any{"case": a.idx, "trace": append([]string{}, a.trace...)}
}
func (a *c16API) inconclusive(why string) {
	if !a.broken {
		a.broken = true
		a.rec.Inconclusive(fmt.Sprintf("c16 api case %d: %s", a.idx, why))
	}
}

func c16HostPort(h string) (string, uint32) {
	addr, p, _ := net.SplitHostPort(h)
	n, _ := strconv.Atoi(p)
	return addr, uint32(n)
}

func (a *c16API) rpkiState(host string) *api.Rpki {
	addr, port := c16HostPort(host)
	var out *api.Rpki
	a.s.ListRpki(context.Background(), &api.ListRpkiRequest{}, func(r *api.Rpki) {
		if r.Conf.Address == addr && r.Conf.RemotePort == port {
			out = r
		}
	})
	return out
}

// waitState polls ListRpki until ok(state) (infrastructure only).
func (a *c16API) waitState(host, what string, ok func(*api.Rpki) bool) bool {
	if a.broken {
		return false
	}
	deadline := time.NewTimer(c16Wait)
	defer deadline.Stop()
	pause := 50 * time.Microsecond
	for {
		if st := a.rpkiState(host); st != nil && ok(st) {
			return true
		}
		select {
		case <-deadline.C:
			a.inconclusive("waiting for " + what + " at " + host)
			return false
		case <-time.After(pause):
		}
		if pause < 5*time.Millisecond {
			pause *= 2
		}
	}
}

func (a *c16API) awaitConnect(c *c16Cache) bool {
	tm := time.NewTimer(c16Wait)
	defer tm.Stop()
	select {
	case conn := <-c.acceptCh:
		c.conn = conn
	case <-tm.C:
		a.inconclusive("router did not connect to " + c.host)
		return false
	}
	c.queries = make(chan byte, 256)
	go c16ReadQueries(c.conn, c.queries)
	return a.awaitQuery(c, rtr.RTR_RESET_QUERY)
}

func (a *c16API) awaitQuery(c *c16Cache, typ byte) bool {
	tm := time.NewTimer(c16Wait)
	defer tm.Stop()
	for {
		select {
		case q, ok := <-c.queries:
			if !ok {
				a.inconclusive("router closed the connection to " + c.host)
				return false
			}
			if q == typ {
				return true
			}
		case <-tm.C:
			a.inconclusive(fmt.Sprintf("no query of type %d from the router at %s", typ, c.host))
			return false
		}
	}
}

// send delivers a complete response (Cache Response ... End of Data) and waits until gobgp has
// processed its End of Data.
func (a *c16API) send(c *c16Cache, ops []c16Op) {
	if a.broken {
		return
	}
	cm := a.model[c.host]
	buf := c16Ser(rtr.NewRTRCacheResponse(c.sid))
	cm.cacheResponse(c.sid)
	for _, op := range ops {
		p := c16PrefixPDU(op.r, op.add)
		a.logf("%s <- %s", c.host, c16DescribePDU(p))
		a.rec.Count("api_pdu_prefix", 1)
		buf = append(buf, p.data...)
		if op.add {
			cm.announce(op.r)
		} else {
			cm.withdraw(op.r)
		}
	}
	c.serial++
	buf = append(buf, c16Ser(rtr.NewRTREndOfData(c.sid, c.serial))...)
	cm.endOfData(c.sid, nil)
	a.logf("%s <- end-of-data sid=%d serial=%d", c.host, c.sid, c.serial)
	c.conn.SetWriteDeadline(time.Now().Add(c16Wait))
	if _, err := c.conn.Write(buf); err != nil {
		a.inconclusive("write: " + err.Error())
		return
	}
	a.eods[c.host]++
	want := a.eods[c.host]
	a.waitState(c.host, "End of Data to be processed", func(st *api.Rpki) bool { return st.State.EndOfData >= want })
}

func (a *c16API) listTable(fam *api.Family) ([]string, error) {
	var out []string
	err := a.s.ListRpkiTable(context.Background(), &api.ListRpkiTableRequest{Family: fam}, func(r *api.Roa) {
		out = append(out, fmt.Sprintf("%s/%d-%d AS%d <%s>", r.Prefix, r.Prefixlen, r.Maxlen, r.Asn, net.JoinHostPort(r.Conf.Address, fmt.Sprint(r.Conf.RemotePort))))
	})
	sort.Strings(out)
	return out, err
}

func (a *c16API) checkTable(after string) {
	if a.broken {
		return
	}
	for _, f := range []struct {
		name string
		fam  *api.Family
		v4   bool
		both bool
	}{{"all", nil, false, true}, {"ipv4", &api.Family{Afi: api.Family_AFI_IP, Safi: api.Family_SAFI_UNICAST}, true, false}, {"ipv6", &api.Family{Afi: api.Family_AFI_IP6, Safi: api.Family_SAFI_UNICAST}, false, false}} {
		got, err := a.listTable(f.fam)
		if err != nil {
			a.rec.Violation("c16:api:ListRpkiTable-error", fmt.Sprintf("ListRpkiTable(%s): %v", f.name, err), a.witness())
			continue
		}
		var must, may []string
		for host, cm := range a.model {
			mu, ma := cm.bounds()
			for r := range ma {
				if f.both || r.pfx.Addr().Is4() == f.v4 {
					s := fmt.Sprintf("%s/%d-%d AS%d <%s>", r.pfx.Addr(), r.pfx.Bits(), r.maxLen, r.as, host)
					may = append(may, s)
					if mu[r] {
						must = append(must, s)
					}
				}
			}
		}
		a.rec.Count("api_table_compares", 1)
		gotSet, maySet := map[string]int{}, map[string]bool{}
		for _, s := range got {
			gotSet[s]++
		}
		for _, s := range may {
			maySet[s] = true
		}
		var missing, extra []string
		for _, s := range must {
			if gotSet[s] == 0 {
				missing = append(missing, s)
			}
		}
		for s, n := range gotSet {
			if !maySet[s] || n > 1 {
				extra = append(extra, s)
			}
		}
		sort.Strings(missing)
		sort.Strings(extra)
		if len(missing) > 0 || len(extra) > 0 {
			w := a.witness()
			w["listed"], w["missing"], w["unexpected"] = got, missing, extra
			a.rec.Violation("c16:api:ListRpkiTable-differs:"+f.name+":after-"+after,
				fmt.Sprintf("ListRpkiTable(%s) after %s: missing %v, unexpected %v", f.name, after, missing, extra), w)
		}
	}
	// ListRpki record counters
	for host, cm := range a.model {
		if !cm.exact() {
			continue
		}
		st := a.rpkiState(host)
		if st == nil {
			a.rec.Violation("c16:api:ListRpki-lacks-configured-cache", "ListRpki does not list "+host, a.witness())
			continue
		}
		var v4, v6 uint32
		p4, p6 := map[netip.Prefix]bool{}, map[netip.Prefix]bool{}
		for r := range cm.recs {
			if r.pfx.Addr().Is4() {
				v4++
				p4[r.pfx] = true
			} else {
				v6++
				p6[r.pfx] = true
			}
		}
		a.rec.Count("api_listrpki_compares", 1)
		if st.State.RecordIpv4 != v4 || st.State.RecordIpv6 != v6 || st.State.PrefixIpv4 != uint32(len(p4)) || st.State.PrefixIpv6 != uint32(len(p6)) {
			a.rec.Violation("c16:api:ListRpki-counters",
				fmt.Sprintf("ListRpki %s: records %d/%d prefixes %d/%d, the cache holds records %d/%d prefixes %d/%d (IPv4/IPv6)", host,
					st.State.RecordIpv4, st.State.RecordIpv6, st.State.PrefixIpv4, st.State.PrefixIpv6, v4, v6, len(p4), len(p6)), a.witness())
		}
	}
}

// ---- routes and their RFC 6811 verdicts

type c16APIRoute struct {
	pfx    netip.Prefix
	local  bool   // originated by this speaker (no source peer, empty AS_PATH)
	origin uint32 // last AS of the AS_SEQUENCE otherwise
	set    bool   // AS_PATH ends in an AS_SET
}

func (rt c16APIRoute) String() string {
	switch {
	case rt.local:
		return fmt.Sprintf("%s locally originated", rt.pfx)
	case rt.set:
		return fmt.Sprintf("%s AS_PATH [64500 {%d}]", rt.pfx, rt.origin)
	}
	return fmt.Sprintf("%s AS_PATH [64500 %d]", rt.pfx, rt.origin)
}

func c16APIVerdict(recs []c16R, rt c16APIRoute) (api.ValidationState, int) {
	if rt.set {
		return api.ValidationState_VALIDATION_STATE_NOT_FOUND, 0
	}
	origin := rt.origin
	if rt.local {
		origin = c16APILocalAS
	}
	covering, valid := 0, false
	for _, x := range recs {
		if x.pfx.Addr().Is4() != rt.pfx.Addr().Is4() || x.pfx.Bits() > rt.pfx.Bits() || !x.pfx.Contains(rt.pfx.Addr()) {
			continue
		}
		covering++
		if x.as != 0 && x.as == origin && int(x.maxLen) >= rt.pfx.Bits() {
			valid = true
		}
	}
	switch {
	case valid:
		return api.ValidationState_VALIDATION_STATE_VALID, covering
	case covering > 0:
		return api.ValidationState_VALIDATION_STATE_INVALID, covering
	}
	return api.ValidationState_VALIDATION_STATE_NOT_FOUND, covering
}

func (a *c16API) addRoute(rt c16APIRoute) bool {
	n, _ := bgp.NewIPAddrPrefix(rt.pfx)
	attrs := []bgp.PathAttributeInterface{bgp.NewPathAttributeOrigin(0)}
	p := &apiutil.Path{Nlri: n, Age: 100}
	if !rt.local {
		segs := []bgp.AsPathParamInterface{bgp.NewAs4PathParam(bgp.BGP_ASPATH_ATTR_TYPE_SEQ, []uint32{64500, rt.origin})}
		if rt.set {
			segs = []bgp.AsPathParamInterface{bgp.NewAs4PathParam(bgp.BGP_ASPATH_ATTR_TYPE_SEQ, []uint32{64500}), bgp.NewAs4PathParam(bgp.BGP_ASPATH_ATTR_TYPE_SET, []uint32{rt.origin})}
		}
		attrs = append(attrs, bgp.NewPathAttributeAsPath(segs))
		p.PeerASN = 64500
		p.PeerID = netip.MustParseAddr("9.9.9.9")
		p.PeerAddress = netip.MustParseAddr("10.9.9.9")
	}
	if rt.pfx.Addr().Is4() {
		p.Family = bgp.RF_IPv4_UC
		nh, _ := bgp.NewPathAttributeNextHop(netip.MustParseAddr("10.0.0.9"))
		attrs = append(attrs, nh)
	} else {
		p.Family = bgp.RF_IPv6_UC
		mp, err := bgp.NewPathAttributeMpReachNLRI(bgp.RF_IPv6_UC, []bgp.PathNLRI{{NLRI: n}}, netip.MustParseAddr("2001:db8::9"))
		if err != nil {
			a.inconclusive("mp_reach: " + err.Error())
			return false
		}
		attrs = append(attrs, mp)
	}
	p.Attrs = attrs
	if _, err := a.s.AddPath(apiutil.AddPathRequest{Paths: []*apiutil.Path{p}}); err != nil {
		a.inconclusive("AddPath: " + err.Error())
		return false
	}
	return true
}

func c16APIRoutes(r *rand.Rand, pool []c16R) []c16APIRoute {
	seen := map[netip.Prefix]bool{}
	var out []c16APIRoute
	for tries := 0; len(out) < 8 && tries < 40; tries++ {
		b := c16Pick(r, pool)
		top := b.pfx.Addr().BitLen()
		nb := c16Pick(r, []int{b.pfx.Bits(), int(b.maxLen), int(b.maxLen) + 1, b.pfx.Bits() + 1, b.pfx.Bits() - 1, top})
		if nb < 0 || nb > top {
			continue
		}
		p := netip.PrefixFrom(b.pfx.Addr(), nb).Masked()
		if seen[p] {
			continue
		}
		seen[p] = true
		rt := c16APIRoute{pfx: p, origin: c16Pick(r, []uint32{b.as, b.as, 65001, 65002, 4200000001, c16APILocalAS})}
		if rt.origin == 0 {
			rt.origin = 65001
		}
		switch r.IntN(6) {
		case 0, 1:
			rt.local = true
		case 2:
			rt.set = true
		}
		out = append(out, rt)
	}
	return out
}

func (a *c16API) checkRoutes(routes []c16APIRoute) {
	if a.broken {
		return
	}
	var recs []c16R
	for _, cm := range a.model {
		if !cm.exact() {
			return
		}
		for x := range cm.recs {
			recs = append(recs, x)
		}
	}
	want := map[netip.Prefix]c16APIRoute{}
	for _, rt := range routes {
		want[rt.pfx] = rt
	}
	for _, fam := range []bgp.Family{bgp.RF_IPv4_UC, bgp.RF_IPv6_UC} {
		err := a.s.ListPath(apiutil.ListPathRequest{TableType: api.TableType_TABLE_TYPE_GLOBAL, Family: fam}, func(prefix bgp.NLRI, paths []*apiutil.Path) {
			pfx, err := netip.ParsePrefix(prefix.String())
			if err != nil {
				return
			}
			rt, ok := want[pfx]
			if !ok {
				return
			}
			for _, p := range paths {
				a.rec.Count("api_route_verdicts", 1)
				ws, covering := c16APIVerdict(recs, rt)
				if covering > 0 {
					a.rec.Count("api_route_verdicts_covered", 1)
				}
				if p.Validation == nil {
					a.rec.Violation("c16:api:ListPath-no-validation", "ListPath reports no validation for "+rt.String()+" although RPKI servers are configured", a.witness())
					continue
				}
				if p.Validation.State != ws {
					class := "received-route"
					if rt.local {
						class = "locally-originated-route"
					} else if rt.set {
						class = "as-set-route"
					}
					w := a.witness()
					w["route"], w["got"], w["want"], w["records"] = rt.String(), p.Validation.State.String(), ws.String(), fmt.Sprint(recs)
					a.rec.Violation(fmt.Sprintf("c16:api:ListPath-validation:%s:want-%s-got-%s", class, c16StateName(ws), c16StateName(p.Validation.State)),
						fmt.Sprintf("ListPath validation of %s (local AS %d) is %s; RFC 6811 over the %d records announced by the caches gives %s", rt, c16APILocalAS, p.Validation.State, len(recs), ws), w)
				}
			}
		})
		if err != nil {
			a.inconclusive("ListPath: " + err.Error())
		}
	}
}

func c16StateName(s api.ValidationState) string {
	return strings.ToLower(strings.TrimPrefix(s.String(), "VALIDATION_STATE_"))
}

func c16APICase(rec *vlib.Rec, idx int) {
	r := vlib.CaseRand("c16api", idx)
	rec.Eval()
	rec.Mark(fmt.Sprintf("c16 api case %d", idx), false)
	a := &c16API{rec: rec, idx: idx, model: map[string]*c16CacheM{}, eods: map[string]int64{}}
	a.s = NewBgpServer(LoggerOption(c16Logger(), nil))
	go a.s.Serve()
	if err := a.s.StartBgp(context.Background(), &api.StartBgpRequest{Global: &api.Global{Asn: c16APILocalAS, RouterId: "1.1.1.1", ListenPort: -1}}); err != nil {
		a.inconclusive("StartBgp: " + err.Error())
		return
	}
	defer func() {
		// infrastructure clean-up (white box, because RPKI clients are not stopped by Stop)
		a.s.mgmtOperation(func() error {
			for h := range a.s.roaManager.clientMap {
				a.s.roaManager.DeleteServer(h)
			}
			return nil
		}, false)
		for _, c := range a.caches {
			c.ln.Close()
			if c.conn != nil {
				c.conn.Close()
			}
		}
		// the Serve loop has to consume the disconnect notifications of the stopped clients
		for i := 0; i < len(a.caches); i++ {
			a.s.ListRpki(context.Background(), &api.ListRpkiRequest{}, func(*api.Rpki) {})
		}
		a.s.Stop()
	}()

	pool := c16RecPool(r)
	ar := vlib.CaseRand("c16addr", idx)
	ncache := 1 + r.IntN(2)
	for i := 0; i < ncache && !a.broken; i++ {
		la := c16Pick(r, []string{"", "", "v6"})
		if i == 1 && r.IntN(2) == 0 {
			la = a.caches[0].addr // same address, other port
		}
		ln, err := c16Listen(ar, la)
		if err != nil {
			a.inconclusive("listen: " + err.Error())
			return
		}
		h := ln.Addr().String()
		addr, port := c16HostPort(h)
		c := &c16Cache{host: h, addr: addr, ln: ln, acceptCh: make(chan net.Conn, 4), sid: uint16(r.IntN(3) * 77), serial: uint32(r.IntN(100))}
		go c.acceptLoop()
		a.caches = append(a.caches, c)
		err = a.s.AddRpki(context.Background(), &api.AddRpkiRequest{Address: addr, Port: port, Lifetime: 3600})
		a.logf("AddRpki(%s, %d) -> %v", addr, port, err)
		rec.Count("api_AddRpki", 1)
		if err != nil {
			rec.Violation("c16:api:AddRpki-refused", fmt.Sprintf("AddRpki(%s,%d): %v", addr, port, err), a.witness())
			return
		}
		a.model[h] = c16NewCacheM(h, addr)
		if !a.awaitConnect(c) {
			return
		}
		a.model[h].connected = true
		a.model[h].resetPoint()
		if err := a.s.AddRpki(context.Background(), &api.AddRpkiRequest{Address: addr, Port: port}); err == nil {
			rec.Violation("c16:api:AddRpki-duplicate-accepted", "AddRpki of a configured cache returned no error", a.witness())
		}
	}
	if a.broken {
		return
	}

	// initial complete load per cache
	held := map[string][]c16R{}
	for _, c := range a.caches {
		var ops []c16Op
		seen := map[c16R]bool{}
		for i := 1 + r.IntN(6); i > 0; i-- {
			x := c16Pick(r, pool)
			if !seen[x] {
				seen[x] = true
				ops = append(ops, c16Op{true, x})
				held[c.host] = append(held[c.host], x)
			}
		}
		a.send(c, ops)
	}
	a.checkTable("initial-load")
	routes := c16APIRoutes(r, pool)
	for _, rt := range routes {
		if !a.addRoute(rt) {
			return
		}
	}
	a.checkRoutes(routes)

	// one or two incremental updates (no record is announced and withdrawn inside one response)
	for n := r.IntN(3); n > 0 && !a.broken; n-- {
		c := c16Pick(r, a.caches)
		var ops []c16Op
		touched := map[c16R]bool{}
		for i := 1 + r.IntN(4); i > 0; i-- {
			if len(held[c.host]) > 0 && r.IntN(2) == 0 {
				j := r.IntN(len(held[c.host]))
				x := held[c.host][j]
				if touched[x] {
					continue
				}
				touched[x] = true
				held[c.host] = append(held[c.host][:j:j], held[c.host][j+1:]...)
				ops = append(ops, c16Op{false, x})
			} else {
				x := c16Pick(r, pool)
				if touched[x] {
					continue
				}
				touched[x] = true
				dup := false
				for _, y := range held[c.host] {
					dup = dup || x == y
				}
				if !dup {
					held[c.host] = append(held[c.host], x)
				}
				ops = append(ops, c16Op{true, x})
				// withdrawal of a record the cache does not hold and that shares all but one field
				// with the one just announced (still buffered): must change nothing
				if y := c16NearMiss(r, x); r.IntN(2) == 0 && !touched[y] {
					unknown := true
					for _, z := range held[c.host] {
						unknown = unknown && y != z
					}
					if unknown {
						touched[y] = true
						ops = append(ops, c16Op{false, y})
						rec.Count("api_near_miss_withdrawals", 1)
					}
				}
			}
		}
		a.send(c, ops)
		rec.Count("api_incremental_updates", 1)
		a.checkTable("incremental-update")
		a.checkRoutes(routes)
	}

	// operator soft reset: gobgp asks for a complete reload; the cache answers with its current set
	if r.IntN(3) == 0 && !a.broken {
		c := c16Pick(r, a.caches)
		same := 0
		for _, o := range a.caches {
			if o.addr == c.addr {
				same++
			}
		}
		if same == 1 {
			err := a.s.ResetRpki(context.Background(), &api.ResetRpkiRequest{Address: c.addr, Port: func() uint32 { _, p := c16HostPort(c.host); return p }(), Soft: true})
			a.logf("ResetRpki(%s, soft) -> %v", c.addr, err)
			rec.Count("api_ResetRpki_soft", 1)
			if err != nil {
				rec.Violation("c16:api:ResetRpki-refused", fmt.Sprintf("ResetRpki(soft) of configured cache %s: %v", c.host, err), a.witness())
			} else if a.awaitQuery(c, rtr.RTR_RESET_QUERY) {
				cm := a.model[c.host]
				cm.allToLimbo()
				cm.resetPoint()
				var ops []c16Op
				for _, x := range held[c.host] {
					ops = append(ops, c16Op{true, x})
				}
				a.send(c, ops)
				a.checkTable("soft-reset-reload")
				a.checkRoutes(routes)
			}
		}
	}

	// remove the caches one by one through the API
	for _, c := range a.caches {
		if a.broken {
			return
		}
		addr, port := c16HostPort(c.host)
		err := a.s.DeleteRpki(context.Background(), &api.DeleteRpkiRequest{Address: addr, Port: port})
		a.logf("DeleteRpki(%s, %d) -> %v", addr, port, err)
		rec.Count("api_DeleteRpki", 1)
		if err != nil {
			w := a.witness()
			w["error"] = err.Error()
			rec.Violation("c16:api:DeleteRpki-refused", fmt.Sprintf("DeleteRpki(address=%s, port=%d) of a cache configured with AddRpki(address=%s, port=%d) failed: %v; the cache and its records cannot be removed", addr, port, addr, port, err), w)
			continue
		}
		delete(a.model, c.host)
		if st := a.rpkiState(c.host); st != nil {
			rec.Violation("c16:api:DeleteRpki-still-listed", "ListRpki still lists "+c.host+" after DeleteRpki", a.witness())
		}
		a.checkTable("DeleteRpki")
	}
	rec.Nontrivial("a:" + vlib.Hash(strings.Join(a.trace, ",")))
	if idx%97 == 0 {
		rec.Sample(map[string]any{"case": idx, "unit": "api", "trace": a.trace})
	}
}
