package server

// C02 / unit "lin" — linearizability of the management API on the Loc-RIB (porcupine v1.3.0).
//
// A real BgpServer (simStart; NOT inside a synctest bubble: real goroutine scheduling is the
// point) is driven by 3-8 management client goroutines that issue AddPath / DeletePath /
// ListPath on a pool of 3-5 prefixes. Every operation is recorded at the client boundary with
// Call / Return stamps from ONE atomic counter. The recorded history is decided by porcupine
// against the per-prefix register model of c02lin_model_test.go. In half of the cases one or
// two scripted eBGP speakers announce and withdraw the same prefixes concurrently over pipes:
// they are a different source (their routes are extra paths in ListPath replies, ignored by the
// register) and only add scheduling pressure on the server's locks.
//
// No oracle reads the wall clock: stamps are counter values; sleeps are only used to pace clients
// and to wait for sessions. The only clock consumer is porcupine's own timeout, and a timeout
// (result Unknown) is reported as inconclusive, never as a violation.

import (
	"fmt"
	"math/rand/v2"
	"net/netip"
	"os"
	"path/filepath"
	"runtime"
	"sort"
	"strings"
	"sync"
	"sync/atomic"
	"testing"
	"time"

	"github.com/anishathalye/porcupine"
	"github.com/google/uuid"

	"github.com/osrg/gobgp/v4/api"
	"github.com/osrg/gobgp/v4/internal/verif/vlib"
	"github.com/osrg/gobgp/v4/pkg/apiutil"
	"github.com/osrg/gobgp/v4/pkg/packet/bgp"
)

const (
	c02linQuickCases    = 300
	c02linThoroughCases = 6000
	c02linTimeout       = 120 * time.Second
	c02linJointTimeout  = 20 * time.Second
)

var (
	c02linV4Pool = []string{"10.77.0.0/24", "10.77.1.0/24", "10.77.0.0/16", "172.20.5.0/24", "10.77.0.128/25"}
	c02linV6Pool = []string{"2001:db8:77::/48", "2001:db8:77:1::/64"}
)

type c02linPrefix struct {
	S   string
	Fam int // 4 or 6
	Nl  bgp.NLRI
}

func (p c02linPrefix) family() bgp.Family {
	if p.Fam == 6 {
		return bgp.RF_IPv6_UC
	}
	return bgp.RF_IPv4_UC
}

func c02linMkPrefix(s string) c02linPrefix {
	pf := netip.MustParsePrefix(s)
	nl, _ := bgp.NewIPAddrPrefix(pf)
	f := 4
	if pf.Addr().Is6() {
		f = 6
	}
	return c02linPrefix{S: s, Fam: f, Nl: nl}
}

func c02linFamOf(f int) bgp.Family {
	if f == 6 {
		return bgp.RF_IPv6_UC
	}
	return bgp.RF_IPv4_UC
}

// c02linAPIPath builds the API route for prefix p carrying the unique value v twice (MED and
// COMMUNITIES), so a reply mixing two routes' attributes is recognisable.
func c02linAPIPath(p c02linPrefix, v uint32) *apiutil.Path {
	attrs := []bgp.PathAttributeInterface{bgp.NewPathAttributeOrigin(0)}
	if p.Fam == 4 {
		nh, _ := bgp.NewPathAttributeNextHop(netip.MustParseAddr(simLocalAddr))
		attrs = append(attrs, nh)
	} else {
		mp, _ := bgp.NewPathAttributeMpReachNLRI(bgp.RF_IPv6_UC, []bgp.PathNLRI{{NLRI: p.Nl}}, netip.MustParseAddr("2001:db8::1"))
		attrs = append(attrs, mp)
	}
	if v != 0 {
		attrs = append(attrs, bgp.NewPathAttributeMultiExitDisc(v), bgp.NewPathAttributeCommunities([]uint32{v}))
	}
	return &apiutil.Path{Family: p.family(), Nlri: p.Nl, Attrs: attrs}
}

// c02linValueOf extracts (MED, community) of a listed path.
func c02linValueOf(p *apiutil.Path) (med, comm uint32) {
	for _, a := range p.Attrs {
		switch v := a.(type) {
		case *bgp.PathAttributeMultiExitDisc:
			med = v.Value
		case *bgp.PathAttributeCommunities:
			if len(v.Value) > 0 {
				comm = v.Value[0]
			}
		}
	}
	return
}

// ---------------------------------------------------------------- one case

type c02linCase struct {
	t     *testing.T
	rec   *vlib.Rec
	idx   int
	n     *simNet
	pool  []c02linPrefix
	byStr map[string]int
	stamp atomic.Int64
	think int

	anomalyMu sync.Mutex
	anomalies []map[string]any
	peerPaths atomic.Int64
}

type c02linOwn struct {
	pfx int
	val uint32
	id  uuid.UUID
}

func (c *c02linCase) list(fam int, pfx int) (map[int]uint32, error) {
	req := apiutil.ListPathRequest{TableType: api.TableType_TABLE_TYPE_GLOBAL, Family: c02linFamOf(fam)}
	if pfx >= 0 {
		req.Prefixes = []*apiutil.LookupPrefix{{Prefix: c.pool[pfx].S}}
	}
	seen := map[int]uint32{}
	err := c.n.s.ListPath(req, func(prefix bgp.NLRI, paths []*apiutil.Path) {
		i, ok := c.byStr[prefix.String()]
		if !ok {
			return
		}
		locals := 0
		for _, p := range paths {
			if p.PeerAddress.IsValid() {
				c.peerPaths.Add(1)
				continue
			}
			locals++
			med, comm := c02linValueOf(p)
			if med != comm || med == 0 {
				c.anomaly("torn-attributes", map[string]any{"prefix": prefix.String(), "med": med, "community": comm})
			}
			seen[i] = med
		}
		if locals > 1 {
			c.anomaly("two-api-routes", map[string]any{"prefix": prefix.String(), "api_routes": locals})
		}
	})
	return seen, err
}

func (c *c02linCase) anomaly(kind string, w map[string]any) {
	w["kind"] = kind
	c.anomalyMu.Lock()
	if len(c.anomalies) < 8 {
		c.anomalies = append(c.anomalies, w)
	}
	c.anomalyMu.Unlock()
}

func (c *c02linCase) pace(r *rand.Rand) {
	switch c.think {
	case 1:
		for i := r.IntN(4); i > 0; i-- {
			runtime.Gosched()
		}
	case 2:
		x := 0
		for i := r.IntN(4000); i > 0; i-- {
			x += i
		}
		_ = x
	case 3:
		if r.IntN(3) == 0 {
			time.Sleep(time.Duration(r.IntN(60)) * time.Microsecond)
		}
	}
}

// client runs nOps operations and returns its part of the history.
func (c *c02linCase) client(cl, nOps int, r *rand.Rand, start <-chan struct{}) []c02linOp {
	var ops []c02linOp
	var own []c02linOwn
	counter := uint32(0)
	<-start
	for k := 0; k < nOps; k++ {
		c.pace(r)
		op := c02linOp{Client: cl, Pfx: r.IntN(len(c.pool))}
		x := r.IntN(100)
		switch {
		case x < 38 || (x >= 74 && x < 92 && len(own) == 0):
			op.Kind = c02linAdd
		case x < 70:
			op.Kind = c02linList
		case x < 74:
			op.Kind = c02linListAll
		case x < 92:
			op.Kind = c02linDelUUID
		case x < 97:
			op.Kind = c02linDelPath
		default:
			op.Kind = c02linDelAll
		}
		switch op.Kind {
		case c02linAdd:
			counter++
			op.Val = uint32(cl+1)<<16 | counter
			req := apiutil.AddPathRequest{Paths: []*apiutil.Path{c02linAPIPath(c.pool[op.Pfx], op.Val)}}
			op.Call = c.stamp.Add(1)
			res, err := c.n.s.AddPath(req)
			op.Ret = c.stamp.Add(1)
			switch {
			case err != nil:
				op.Unknown, op.Err = true, err.Error()
			case len(res) != 1 || res[0].Error != nil:
				op.Unknown, op.Err = true, fmt.Sprint("per-path error: ", res)
			default:
				op.OK = true
				own = append(own, c02linOwn{op.Pfx, op.Val, res[0].UUID})
			}
		case c02linDelUUID:
			// mostly a recent own UUID, sometimes an old (probably superseded or already used) one
			back := 0
			for back < len(own)-1 && r.IntN(3) == 0 {
				back++
			}
			o := own[len(own)-1-back]
			op.Pfx, op.Val = o.pfx, o.val
			req := apiutil.DeletePathRequest{UUIDs: []uuid.UUID{o.id}}
			op.Call = c.stamp.Add(1)
			err := c.n.s.DeletePath(req)
			op.Ret = c.stamp.Add(1)
			switch {
			case err == nil:
				op.OK = true
			case strings.Contains(err.Error(), "can't find a specified path"):
				op.Err = err.Error() // the API's "no such UUID" reply: no effect
			default:
				op.Unknown, op.Err = true, err.Error()
			}
		case c02linDelPath:
			req := apiutil.DeletePathRequest{Paths: []*apiutil.Path{c02linAPIPath(c.pool[op.Pfx], 0)}}
			op.Call = c.stamp.Add(1)
			err := c.n.s.DeletePath(req)
			op.Ret = c.stamp.Add(1)
			if op.OK = err == nil; err != nil {
				op.Unknown, op.Err = true, err.Error()
			}
		case c02linDelAll:
			op.Pfx = -1
			req := apiutil.DeletePathRequest{DeleteAll: true}
			switch r.IntN(4) {
			case 0: // every family
			default:
				op.Fam = c.pool[r.IntN(len(c.pool))].Fam
				f := c02linFamOf(op.Fam)
				req.DeleteFamily = &f
			}
			op.Call = c.stamp.Add(1)
			err := c.n.s.DeletePath(req)
			op.Ret = c.stamp.Add(1)
			if op.OK = err == nil; err != nil {
				op.Unknown, op.Err = true, err.Error()
			}
		case c02linList, c02linListAll:
			pfx := op.Pfx
			op.Fam = c.pool[op.Pfx].Fam
			if op.Kind == c02linListAll {
				op.Pfx, pfx = -1, -1
			}
			op.Call = c.stamp.Add(1)
			seen, err := c.list(op.Fam, pfx)
			op.Ret = c.stamp.Add(1)
			op.Seen, op.OK = seen, err == nil
			if err != nil {
				op.Unknown, op.Err = true, err.Error() // a read has no effect: an open read constrains nothing
			}
		}
		ops = append(ops, op)
	}
	return ops
}

// c02linBringUp connects a speaker in REAL time (sim_peers' bringUp needs a synctest bubble).
func c02linBringUp(sp *simSpeaker) error {
	var err error
	for try := 0; try < 400; try++ {
		if err = sp.connectPassive(); err == nil {
			for w := 0; w < 2000; w++ {
				if sp.established() {
					return nil
				}
				time.Sleep(500 * time.Microsecond)
			}
			err = fmt.Errorf("handshake done but session not established")
		}
		sp.close()
		time.Sleep(2 * time.Millisecond)
	}
	return err
}

// speaker traffic: announcements / withdrawals of pool prefixes until told to stop.
func (c *c02linCase) traffic(sp *simSpeaker, r *rand.Rand, stop *atomic.Bool, sent *atomic.Int64) {
	for i := 0; i < 4000 && !stop.Load(); i++ {
		p := c.pool[r.IntN(len(c.pool))]
		var m *bgp.BGPMessage
		if r.IntN(3) == 0 {
			m = sp.buildWithdraw(p.S, 0)
		} else {
			med := uint32(r.IntN(5))
			m = sp.buildAnnounce(simEBGP, simRouteSpec{Prefix: p.S, ASPath: []uint32{64512 + uint32(r.IntN(3))}, MED: &med})
		}
		if sp.sendMsg(m) != nil {
			return
		}
		sent.Add(1)
		c.pace(r)
	}
}

func c02linRunCase(t *testing.T, rec *vlib.Rec, idx int, wipe bool) {
	r := vlib.CaseRand("c02lin", idx)
	c := &c02linCase{t: t, rec: rec, idx: idx, byStr: map[string]int{}}
	// ---- case parameters: pure function of (seed, idx)
	nClients := 3 + r.IntN(6)
	nPool := 3 + r.IntN(3)
	perm := r.Perm(len(c02linV4Pool))
	withV6 := r.IntN(3) == 0
	for i := 0; i < nPool; i++ {
		s := c02linV4Pool[perm[i]]
		if withV6 && i == nPool-1 {
			s = c02linV6Pool[r.IntN(len(c02linV6Pool))]
		}
		c.byStr[c02linMkPrefix(s).Nl.String()] = len(c.pool)
		c.pool = append(c.pool, c02linMkPrefix(s))
	}
	totalOps := 40 + r.IntN(161)
	c.think = r.IntN(4)
	nSpeakers := 0
	if r.IntN(2) == 0 {
		nSpeakers = 1 + r.IntN(2)
	}
	desc := fmt.Sprintf("c02lin case %d: clients=%d pool=%d(v6=%v) ops=%d think=%d speakers=%d", idx, nClients, nPool, withV6, totalOps, c.think, nSpeakers)
	rec.Mark(desc, true)

	t0 := time.Now()
	c.n = simStart(t, &api.Global{Asn: simLocalAS, RouterId: "1.1.1.1"})
	var speakers []*simSpeaker
	for i := 0; i < nSpeakers; i++ {
		sp, err := c.n.addPeer(simPeerSpec{Kind: simEBGP, Addr: fmt.Sprintf("10.0.0.%d", 2+i), AS: uint32(65001 + i), ID: fmt.Sprintf("2.2.2.%d", 2+i), V6: true})
		if err == nil {
			err = c02linBringUp(sp)
		}
		if err != nil {
			rec.Count("speaker_bringup_failed", 1)
			continue
		}
		speakers = append(speakers, sp)
	}

	t1 := time.Now()
	var stop atomic.Bool
	var sent atomic.Int64
	var swg sync.WaitGroup
	start := make(chan struct{})
	for i, sp := range speakers {
		swg.Add(1)
		sr := vlib.CaseRand(fmt.Sprintf("c02lin-speaker%d", i), idx)
		go func() {
			defer swg.Done()
			<-start
			c.traffic(sp, sr, &stop, &sent)
		}()
	}
	parts := make([][]c02linOp, nClients)
	var wg sync.WaitGroup
	for cl := 0; cl < nClients; cl++ {
		n := totalOps / nClients
		if cl < totalOps%nClients {
			n++
		}
		cr := vlib.CaseRand(fmt.Sprintf("c02lin-client%d", cl), idx)
		wg.Add(1)
		go func() {
			defer wg.Done()
			parts[cl] = c.client(cl, n, cr, start)
		}()
	}
	close(start)
	wg.Wait()
	stop.Store(true)
	// final reads by the main goroutine (client id nClients): they pin the final state of every register
	var ops []c02linOp
	for _, p := range parts {
		ops = append(ops, p...)
	}
	for p := range c.pool {
		op := c02linOp{Client: nClients, Kind: c02linList, Pfx: p, Fam: c.pool[p].Fam}
		op.Call = c.stamp.Add(1)
		seen, err := c.list(op.Fam, p)
		op.Ret = c.stamp.Add(1)
		op.Seen, op.OK = seen, err == nil
		if err != nil {
			op.Unknown, op.Err = true, err.Error()
		}
		ops = append(ops, op)
	}
	t2 := time.Now()
	swg.Wait()
	c.n.stop()
	for _, sp := range speakers {
		sp.readerWG.Wait()
	}
	t3 := time.Now()
	// operations without a (usable) reply stay open to the end of the history
	end := c.stamp.Add(1)
	unknown := 0
	for i := range ops {
		if ops[i].Unknown {
			ops[i].Ret = end
			unknown++
		}
	}
	sort.SliceStable(ops, func(a, b int) bool { return ops[a].Call < ops[b].Call })

	// ---- bookkeeping
	sp := c02linSpec{Wipe: wipe}
	for _, p := range c.pool {
		sp.PoolFam = append(sp.PoolFam, p.Fam)
	}
	rec.Count("cases", 1)
	rec.Count("ops_recorded", len(ops))
	rec.Count("ops_open_to_the_end", unknown)
	for _, op := range ops {
		rec.Count("op_"+op.Kind.String(), 1)
		switch op.Kind {
		case c02linDelUUID:
			if op.OK {
				rec.Count("del_uuid_ok", 1)
			} else if !op.Unknown {
				rec.Count("del_uuid_error_no_such_uuid", 1)
			}
		case c02linList:
			if _, present := op.Seen[op.Pfx]; present {
				rec.Count("list_value", 1)
			} else {
				rec.Count("list_absent", 1)
			}
		}
	}
	rec.Count(fmt.Sprintf("cases_clients_%d", nClients), 1)
	rec.Count(fmt.Sprintf("cases_think_%d", c.think), 1)
	if withV6 {
		rec.Count("cases_mixed_family", 1)
	}
	if len(speakers) > 0 {
		rec.Count("cases_with_speakers", 1)
		rec.Count("speaker_updates_sent", int(sent.Load()))
		rec.Count("peer_paths_seen_in_list_replies", int(c.peerPaths.Load()))
	}
	ov := c02linOverlaps(sp, ops)
	rec.Count("ops_overlapping_another", ov.OpsOverlapping)
	rec.Count("read_write_overlaps_same_prefix", ov.ReadWritePairs)
	for k, n := range ov.WritePairs {
		rec.Count("write_overlap_"+k, n)
	}
	rec.Count("max_outstanding_"+c02linBucket(ov.MaxWidth), 1)

	// ---- direct anomalies of single replies
	for _, a := range c.anomalies {
		a["case"] = idx
		a["desc"] = desc
		rec.Violation("c02lin:list:"+a["kind"].(string), "a ListPath reply shows "+a["kind"].(string)+" for the API source of one prefix", a)
	}

	// ---- the decision
	rec.Eval()
	v := c02linCheck(sp, ops, c02linTimeout, c02linJointTimeout)
	if v.JointRan {
		rec.Count("joint_histories_checked", 1)
	}
	if v.JointUndecided {
		rec.Count("joint_histories_undecided", 1)
	}
	switch v.Result {
	case porcupine.Ok:
		rec.Count("histories_linearizable", 1)
		if ov.WritesOverlapOn > 0 {
			rec.Count("cases_with_overlapping_writes_on_one_prefix", 1)
			rec.Nontrivial(fmt.Sprintf("c%d|%s", nClients, vlib.Hash(ov.signature())))
		}
	case porcupine.Unknown:
		rec.Count("histories_undecided", 1)
		rec.Inconclusive(fmt.Sprintf("c02lin: porcupine did not decide case %d within %s (%d operations)", idx, c02linTimeout, len(ops)))
	case porcupine.Illegal:
		rec.Count("histories_illegal", 1)
		w := map[string]any{
			"case": idx, "desc": desc, "deleteall_family_forgets_other_families_uuids": wipe,
			"note":            "real goroutine scheduling: replaying the case index re-runs the same client programs, not necessarily the same interleaving; the recorded history below is the witness",
			"model":           "per prefix: route value + value whose UUID is remembered; add sets both; del-uuid succeeds iff its UUID is the remembered one; del-path/del-all clear; list returns the route value",
			"minimal_history": c02linHistoryJSON(v.Minimal),
			"minimal_ops":     len(v.Minimal), "checked_ops": len(v.Full),
		}
		pool := make([]string, len(c.pool))
		for i, p := range c.pool {
			pool[i] = fmt.Sprintf("p%d=%s", i, p.S)
		}
		w["pool"] = pool
		if len(v.Full) <= 400 {
			w["checked_history"] = c02linHistoryJSON(v.Full)
		}
		scope, key, vm := "joint history over all prefixes (del-all / list-all as single atomic operations; every per-prefix projection is linearizable)", "c02lin:illegal-joint:", sp.jointModel()
		if !v.Joint {
			w["prefix"] = c.pool[v.Partition].S
			scope, key, vm = "history on "+c.pool[v.Partition].S, "c02lin:illegal:", sp.model()
		}
		if out := os.Getenv("VERIF_OUT"); out != "" {
			html := filepath.Join(filepath.Dir(out), fmt.Sprintf("c02lin_seed%d_case%d.html", vlib.Seed(), idx))
			if porcupine.VisualizePath(vm, v.Info, html) == nil {
				w["visualization"] = html
			}
		}
		rec.Violation(key+v.Pattern,
			fmt.Sprintf("%s of AddPath/DeletePath/ListPath by %d concurrent clients is not linearizable w.r.t. the register model (minimal witness: %d operations, observations %s)",
				scope, nClients, len(v.Minimal), v.Pattern), w)
	}
	if simDebug {
		fmt.Printf("C02LINDBG %s: setup %v run %v stop %v check %v\n", desc, t1.Sub(t0), t2.Sub(t1), t3.Sub(t2), time.Since(t3))
	}
	if idx%97 == 0 {
		rec.Sample(map[string]any{"case": idx, "desc": desc, "ops": len(ops), "overlapping": ov.OpsOverlapping, "max_outstanding": ov.MaxWidth,
			"write_overlaps": ov.WritePairs, "result": fmt.Sprint(v.Result)})
	}
}

// c02linProbeWipe measures, sequentially, which admissible behaviour DeletePath(DeleteAll, family)
// has for the remembered UUIDs of OTHER families (gobgp resets the whole uuidMap).
func c02linProbeWipe(t *testing.T, rec *vlib.Rec) bool {
	n := simStart(t, &api.Global{Asn: simLocalAS, RouterId: "1.1.1.1"})
	defer n.stop()
	p6, p4 := c02linMkPrefix(c02linV6Pool[0]), c02linMkPrefix(c02linV4Pool[0])
	res, err := n.s.AddPath(apiutil.AddPathRequest{Paths: []*apiutil.Path{c02linAPIPath(p6, 1<<16|1)}})
	if err != nil || len(res) != 1 {
		t.Fatalf("c02lin probe: AddPath v6: %v", err)
	}
	if _, err := n.s.AddPath(apiutil.AddPathRequest{Paths: []*apiutil.Path{c02linAPIPath(p4, 1<<16|2)}}); err != nil {
		t.Fatalf("c02lin probe: AddPath v4: %v", err)
	}
	f := bgp.RF_IPv4_UC
	if err := n.s.DeletePath(apiutil.DeletePathRequest{DeleteAll: true, DeleteFamily: &f}); err != nil {
		t.Fatalf("c02lin probe: DeleteAll(ipv4): %v", err)
	}
	err = n.s.DeletePath(apiutil.DeletePathRequest{UUIDs: []uuid.UUID{res[0].UUID}})
	if err != nil {
		rec.Count("probe_deleteall_ipv4_forgot_ipv6_uuid", 1)
		return true
	}
	rec.Count("probe_deleteall_ipv4_kept_ipv6_uuid", 1)
	return false
}

func TestVerifC02Lin(t *testing.T) {
	rec := vlib.Open("C02")
	defer rec.Close()
	wipe := c02linProbeWipe(t, rec)
	total := vlib.Scale(c02linQuickCases, c02linThoroughCases)
	vlib.Cases(total, func(idx int) {
		c02linRunCase(t, rec, idx, wipe)
	})
}
