package server

// C06 — fault catalogue and the reference classification c06Classify.
//
// The table below is written from the RFC texts, not from gobgp:
//   RFC 7606 s3 (a-j), s4 (attribute length fields), s5.3 (NLRI syntax), s7.1-7.14 (per attribute),
//   RFC 4271 s6.3 (UPDATE error subcodes), RFC 4760 s7, RFC 5065 s5, RFC 6793 s6, RFC 8092 s5.
// For each fault it gives the ALLOWED SET of reactions with revised handling on and off. Where a
// text says MAY/SHOULD or two rules of RFC 7606 overlap the set has several members.

import (
	"fmt"
	"sort"
	"strings"
)

type c06Class int

const (
	c06Stale   c06Class = iota // the message was (partly) ignored: a named prefix kept its old route / was not touched
	c06None                    // accepted as is
	c06Discard                 // accepted without the offending attribute
	c06TAW                     // every named prefix withdrawn, session stays
	c06Reset                   // NOTIFICATION + session down (AFI/SAFI disable is not implemented by gobgp and would show up here)
)

func (c c06Class) String() string { return [...]string{"stale", "none", "discard", "taw", "reset"}[c] }

// c06Reaction is what was observed. classes is a bit set because a withdraw-only message cannot
// tell none / discard / treat-as-withdraw apart from the outside.
type c06Reaction struct {
	classes   uint
	code, sub uint8
}

func c06R(cs ...c06Class) uint {
	var m uint
	for _, c := range cs {
		m |= 1 << uint(c)
	}
	return m
}

func (r c06Reaction) has(c c06Class) bool { return r.classes&(1<<uint(c)) != 0 }

// weakest / strongest class of the observation (for the monotonicity relation).
func (r c06Reaction) weakest() c06Class {
	for c := c06Stale; c <= c06Reset; c++ {
		if r.has(c) {
			return c
		}
	}
	return c06Stale
}

func (r c06Reaction) strongest() c06Class {
	for c := c06Reset; c >= c06Stale; c-- {
		if r.has(c) {
			return c
		}
	}
	return c06Stale
}

func (r c06Reaction) String() string {
	var parts []string
	for c := c06Stale; c <= c06Reset; c++ {
		if r.has(c) {
			if c == c06Reset {
				parts = append(parts, fmt.Sprintf("reset(%d/%d)", r.code, r.sub))
			} else {
				parts = append(parts, c.String())
			}
		}
	}
	return strings.Join(parts, "|")
}

// NOTIFICATION code<<8|subcode of RFC 4271 s6.3
const (
	c06CAttrList = 0x0301 // Malformed Attribute List
	c06CUnrecWK  = 0x0302 // Unrecognized Well-known Attribute
	c06CMissing  = 0x0303 // Missing Well-known Attribute
	c06CFlags    = 0x0304 // Attribute Flags Error
	c06CLen      = 0x0305 // Attribute Length Error
	c06COrigin   = 0x0306 // Invalid ORIGIN Attribute
	c06CNextHop  = 0x0308 // Invalid NEXT_HOP Attribute
	c06COptAttr  = 0x0309 // Optional Attribute Error
	c06CNetField = 0x030a // Invalid Network Field
	c06CASPath   = 0x030b // Malformed AS_PATH
)

type c06Allowed struct {
	classes uint
	codes   []uint16 // admissible NOTIFICATION codes when the reaction is a reset
}

func (a c06Allowed) String() string {
	var parts []string
	for c := c06None; c <= c06Reset; c++ {
		if a.classes&(1<<uint(c)) != 0 {
			if c == c06Reset {
				var cs []string
				for _, x := range a.codes {
					cs = append(cs, fmt.Sprintf("%d/%d", x>>8, x&0xff))
				}
				parts = append(parts, "reset("+strings.Join(cs, "|")+")")
			} else {
				parts = append(parts, c.String())
			}
		}
	}
	return "{" + strings.Join(parts, ",") + "}"
}

// admits reports whether the observed reaction is inside the allowed set.
func (a c06Allowed) admits(r c06Reaction) bool {
	for c := c06None; c <= c06Reset; c++ {
		if !r.has(c) || a.classes&(1<<uint(c)) == 0 {
			continue
		}
		if c != c06Reset {
			return true
		}
		for _, x := range a.codes {
			if x == uint16(r.code)<<8|uint16(r.sub) {
				return true
			}
		}
	}
	return false
}

// c06Combine is the allowed set of a message carrying two faults: the strongest of the two
// reactions, for every admissible choice (RFC 7606 s3.h).
func c06Combine(a, b c06Allowed) c06Allowed {
	var out c06Allowed
	for ca := c06None; ca <= c06Reset; ca++ {
		if a.classes&(1<<uint(ca)) == 0 {
			continue
		}
		for cb := c06None; cb <= c06Reset; cb++ {
			if b.classes&(1<<uint(cb)) == 0 {
				continue
			}
			mx := ca
			if cb > mx {
				mx = cb
			}
			out.classes |= 1 << uint(mx)
		}
	}
	if out.classes&(1<<uint(c06Reset)) != 0 {
		seen := map[uint16]bool{}
		for _, x := range append(append([]uint16{}, a.codes...), b.codes...) {
			if !seen[x] {
				seen[x] = true
				out.codes = append(out.codes, x)
			}
		}
		sort.Slice(out.codes, func(i, j int) bool { return out.codes[i] < out.codes[j] })
	}
	return out
}

// ---------------------------------------------------------------- fault descriptions

// c06Applied is what applying a fault to a message yields besides the mutated message.
type c06Applied struct {
	present func(w c06Walked) bool // is the fault visible in the octets (independent framing reader)?
	badType int                    // attribute type that must not be carried by an installed route (-1: none)
	dupType int                    // >=0: duplicate fault; an installed route must carry exactly the first occurrence
}

type c06Fault struct {
	id         string // family[:variant]; the family is what violation keys name
	typ        int    // attribute type the fault is about (-1: structural)
	positional bool   // the faulty attribute can sit at any index among the attributes
	peers      uint   // bit set of peer types the fault applies to
	apply      func(m *c06Msg, s c06Sess, pos int) (c06Applied, bool)
	allowed    func(s c06Sess) c06Allowed
}

func (f *c06Fault) family() string {
	if i := strings.IndexByte(f.id, ':'); i >= 0 {
		return f.id[:i]
	}
	return f.id
}

const c06AllPeers = 1<<uint(c06EBGP) | 1<<uint(c06IBGP) | 1<<uint(c06Confed)

func c06Peers(ps ...c06PeerType) uint {
	var m uint
	for _, p := range ps {
		m |= 1 << uint(p)
	}
	return m
}

// ---- allowed-set constructors (revised handling on / off)

func c06Rule(on uint, onCodes []uint16, off uint, offCodes []uint16) func(s c06Sess) c06Allowed {
	return func(s c06Sess) c06Allowed {
		if s.taw {
			return c06Allowed{on, onCodes}
		}
		return c06Allowed{off, offCodes}
	}
}

// RFC 7606: treat-as-withdraw; RFC 4271: session reset with one of codes.
func c06RuleTAW(codes ...uint16) func(s c06Sess) c06Allowed {
	return c06Rule(c06R(c06TAW), nil, c06R(c06Reset), codes)
}

// RFC 7606: attribute discard; RFC 4271: session reset with one of codes.
func c06RuleDiscard(codes ...uint16) func(s c06Sess) c06Allowed {
	return c06Rule(c06R(c06Discard), nil, c06R(c06Reset), codes)
}

// RFC 7606 s3.c (treat-as-withdraw for flag errors) and s3.f (discard for ATOMIC_AGGREGATE / AGGREGATOR) overlap.
func c06RuleDiscardOrTAW(codes ...uint16) func(s c06Sess) c06Allowed {
	return c06Rule(c06R(c06Discard, c06TAW), nil, c06R(c06Reset), codes)
}

// session reset (or AFI/SAFI disable, which gobgp turns into a reset) in both modes.
func c06RuleReset(codes ...uint16) func(s c06Sess) c06Allowed {
	return c06Rule(c06R(c06Reset), codes, c06R(c06Reset), codes)
}

// attributes that RFC 7606 s7.5/7.9/7.10 tells a speaker to discard unseen when they come from an
// external neighbour, and to treat-as-withdraw when malformed from an internal one. Towards a
// confederation-external member both readings of "external" are accepted.
func c06RuleInternalOnly(codes ...uint16) func(s c06Sess) c06Allowed {
	return func(s c06Sess) c06Allowed {
		switch {
		case s.pt == c06EBGP && s.taw:
			return c06Allowed{c06R(c06Discard), nil}
		case s.pt == c06EBGP:
			return c06Allowed{c06R(c06None, c06Discard, c06Reset), codes}
		case s.pt == c06Confed && s.taw:
			return c06Allowed{c06R(c06Discard, c06TAW), nil}
		case s.taw:
			return c06Allowed{c06R(c06TAW), nil}
		}
		return c06Allowed{c06R(c06Reset), codes}
	}
}

// RFC 6793 s6: a malformed AS4_PATH / AS4_AGGREGATOR is discarded, with or without RFC 7606; the
// property text asks for a reset when revised handling is off, so both are accepted there.
func c06RuleAS4(codes ...uint16) func(s c06Sess) c06Allowed {
	return c06Rule(c06R(c06Discard), nil, c06R(c06Discard, c06Reset), codes)
}

// ---- generic attribute fault: the attribute of type typ is replaced by (or, if the message has
// none, added as) the octets mk returns, at index pos.

func c06Present(raw []byte) func(w c06Walked) bool {
	return func(w c06Walked) bool { return w.ok && w.wdrFits && w.attrFits && w.hasTLV(raw) }
}

func c06AttrFault(id string, typ byte, peers uint, mk func(good c06Attr, s c06Sess) c06Attr, allowed func(s c06Sess) c06Allowed) *c06Fault {
	return &c06Fault{id: id, typ: int(typ), positional: true, peers: peers, allowed: allowed,
		apply: func(m *c06Msg, s c06Sess, pos int) (c06Applied, bool) {
			good, had := m.remove(typ)
			if typ == c06TMPReach || typ == c06TMPUnreach {
				// the good MP attribute is rebuilt so that faults have a known layout to work on
				good = c06GoodMP(typ, m)
			} else if !had {
				good = c06GoodAttr(typ, s.pt)
			}
			bad := mk(good, s)
			m.insert(pos, bad)
			return c06Applied{present: c06Present(bad.bytes()), badType: int(typ), dupType: -1}, true
		}}
}

// c06GoodMP is a plain well-formed MP attribute naming what the message names for ipv6-unicast (or a
// fresh prefix when the message has no MP attribute of that kind).
func c06GoodMP(typ byte, m *c06Msg) c06Attr {
	a := c06Attr{flags: 0x80, typ: typ, lenField: -1}
	if typ == c06TMPReach {
		if len(m.reach) == 0 || !m.reach[0].v6 {
			m.reach = []c06Pfx{c06P("2001:db8:a::/48", 7)}
		}
		a.val = c06MPReachVal(2, c06IP(c06V6NH), m.reach, m.addPath)
	} else {
		if len(m.unreach) == 0 {
			m.unreach = []c06Pfx{c06P("2001:db8:b::/64", 7)}
		}
		a.val = c06MPUnreachVal(2, m.unreach, m.addPath)
	}
	return a
}

func c06WithVal(val []byte) func(good c06Attr, s c06Sess) c06Attr {
	return func(good c06Attr, s c06Sess) c06Attr { good.val = val; good.lenField = -1; return good }
}

func c06WithFlags(fl byte) func(good c06Attr, s c06Sess) c06Attr {
	return func(good c06Attr, s c06Sess) c06Attr { good.flags = fl | good.flags&0x10; return good }
}

// c06Resize cuts or pads the good value to n octets (the TLV stays framed: length field = octets present).
func c06Resize(n int) func(good c06Attr, s c06Sess) c06Attr {
	return func(good c06Attr, s c06Sess) c06Attr {
		v := append([]byte{}, good.val...)
		for len(v) < n {
			v = append(v, byte(0x11*(len(v)+1)))
		}
		good.val, good.lenField = v[:n], -1
		return good
	}
}

// duplicate: a second well-formed attribute of the type with another value, at index pos. Which of
// the two is "the first" follows from the final order.
func c06DupFault(id string, typ byte, peers uint, other func(s c06Sess) []byte, allowed func(s c06Sess) c06Allowed) *c06Fault {
	return &c06Fault{id: id, typ: int(typ), positional: true, peers: peers, allowed: allowed,
		apply: func(m *c06Msg, s c06Sess, pos int) (c06Applied, bool) {
			if m.find(typ) < 0 {
				if typ == c06TMPReach || typ == c06TMPUnreach {
					m.insert(0, c06GoodMP(typ, m))
				} else {
					m.insert(-1, c06GoodAttr(typ, s.pt))
				}
				if typ == c06TAS4Agg && m.find(c06TAggregator) < 0 {
					m.insert(-1, c06GoodAttr(c06TAggregator, s.pt))
				}
			}
			second := m.attrs[m.find(typ)]
			second.val, second.lenField = other(s), -1
			switch typ {
			case c06TMPReach:
				extra := c06P("2001:db8:5::/48", 9)
				second.val = c06MPReachVal(2, c06IP(c06V6NH), []c06Pfx{extra}, m.addPath)
				m.reach = append(m.reach, extra)
			case c06TMPUnreach:
				extra := c06P("2001:db8:6::/48", 9)
				second.val = c06MPUnreachVal(2, []c06Pfx{extra}, m.addPath)
				m.unreach = append(m.unreach, extra)
			}
			m.insert(pos, second)
			return c06Applied{present: func(w c06Walked) bool { return w.ok && w.wdrFits && w.attrFits && w.count(typ) >= 2 },
				badType: -1, dupType: int(typ)}, true
		}}
}

// missing: the attribute is left out of a message that announces something.
func c06MissingFault(id string, typ byte, peers uint, allowed func(s c06Sess) c06Allowed) *c06Fault {
	return &c06Fault{id: id, typ: int(typ), peers: peers, allowed: allowed,
		apply: func(m *c06Msg, s c06Sess, pos int) (c06Applied, bool) {
			if typ == c06TNextHop && len(m.nlri) == 0 {
				return c06Applied{}, false
			}
			if len(m.nlri) == 0 && len(m.reach) == 0 {
				return c06Applied{}, false
			}
			if _, had := m.remove(typ); !had {
				return c06Applied{}, false
			}
			return c06Applied{present: func(w c06Walked) bool {
				return w.ok && w.wdrFits && w.attrFits && w.count(typ) == 0 && (len(w.nlri) > 0 || w.count(c06TMPReach) > 0)
			}, badType: -1, dupType: -1}, true
		}}
}

func c06StructFault(id string, allowed func(s c06Sess) c06Allowed, apply func(m *c06Msg, s c06Sess) (func(w c06Walked) bool, bool)) *c06Fault {
	return &c06Fault{id: id, typ: -1, peers: c06AllPeers, allowed: allowed,
		apply: func(m *c06Msg, s c06Sess, pos int) (c06Applied, bool) {
			p, ok := apply(m, s)
			return c06Applied{present: p, badType: -1, dupType: -1}, ok
		}}
}

// ---------------------------------------------------------------- the catalogue

func c06Catalogue() []*c06Fault {
	var fs []*c06Fault
	add := func(f ...*c06Fault) { fs = append(fs, f...) }
	all := uint(c06AllPeers)
	ext := c06Peers(c06EBGP)
	conf := c06Peers(c06Confed)
	noneOrTAW := c06Rule(c06R(c06None, c06TAW), nil, c06R(c06None, c06Reset), []uint16{c06CASPath})

	// ---- ORIGIN (RFC 7606 s7.1, s3.c, s3.d, s3.g; RFC 4271 s6.3)
	add(c06AttrFault("origin-len:0", c06TOrigin, all, c06Resize(0), c06RuleTAW(c06CLen)),
		c06AttrFault("origin-len:2", c06TOrigin, all, c06Resize(2), c06RuleTAW(c06CLen)),
		c06AttrFault("origin-value:3", c06TOrigin, all, c06WithVal([]byte{3}), c06RuleTAW(c06COrigin)),
		c06AttrFault("origin-value:255", c06TOrigin, all, c06WithVal([]byte{255}), c06RuleTAW(c06COrigin)),
		c06AttrFault("origin-flags:optional", c06TOrigin, all, c06WithFlags(0xc0), c06RuleTAW(c06CFlags)),
		c06AttrFault("origin-flags:nontransitive", c06TOrigin, all, c06WithFlags(0x00), c06RuleTAW(c06CFlags)),
		// RFC 7606 s3.c speaks of the Optional and Transitive bits only; a Partial bit on a well-known
		// attribute is a flags error in RFC 4271 and left alone by RFC 7606
		c06AttrFault("origin-flags-partial", c06TOrigin, all, c06WithFlags(0x60), c06Rule(c06R(c06None, c06TAW, c06Reset), []uint16{c06CFlags}, c06R(c06Reset), []uint16{c06CFlags})),
		c06DupFault("origin-dup", c06TOrigin, all, func(c06Sess) []byte { return []byte{1} }, c06RuleDiscard(c06CAttrList)),
		c06MissingFault("origin-missing", c06TOrigin, all, c06RuleTAW(c06CMissing)))

	// ---- AS_PATH (RFC 7606 s7.2; RFC 4271 s6.3; RFC 5065 s5)
	asp := func(id string, peers uint, val func(s c06Sess) []byte, allowed func(s c06Sess) c06Allowed) *c06Fault {
		return c06AttrFault(id, c06TASPath, peers, func(good c06Attr, s c06Sess) c06Attr { good.val, good.lenField = val(s), -1; return good }, allowed)
	}
	lead := func(s c06Sess) []byte { // the leading segment(s) the peer type requires
		return c06GoodASPath(s.pt, 3)
	}
	add(asp("aspath-len:1", all, func(s c06Sess) []byte { return []byte{2} }, c06RuleTAW(c06CASPath, c06CLen)),
		asp("aspath-segtype:0", all, func(s c06Sess) []byte { return append(lead(s), c06Seg(0, 64512)...) }, c06RuleTAW(c06CASPath)),
		asp("aspath-segtype:5", all, func(s c06Sess) []byte { return append(lead(s), c06Seg(5, 64512)...) }, c06RuleTAW(c06CASPath)),
		asp("aspath-zerocount", all, func(s c06Sess) []byte { return append(lead(s), 2, 0) }, c06RuleTAW(c06CASPath)),
		asp("aspath-overrun", all, func(s c06Sess) []byte { v := append(lead(s), c06Seg(2, 64512, 64513)...); v[len(v)-9] = 3; return v }, c06RuleTAW(c06CASPath, c06CLen)),
		asp("aspath-underrun", all, func(s c06Sess) []byte { return append(append(lead(s), c06Seg(2, 64512)...), 2) }, c06RuleTAW(c06CASPath, c06CLen)),
		c06AttrFault("aspath-flags:optional", c06TASPath, all, c06WithFlags(0xc0), c06RuleTAW(c06CFlags)),
		c06DupFault("aspath-dup", c06TASPath, all, func(s c06Sess) []byte { return append(c06GoodASPath(s.pt, 0), c06Seg(2, 64999)...) }, c06RuleDiscard(c06CAttrList)),
		c06MissingFault("aspath-missing", c06TASPath, all, c06RuleTAW(c06CMissing)),
		// RFC 4271 s6.3: the leftmost-AS check is a MAY
		asp("aspath-leftmost", ext, func(s c06Sess) []byte { return c06Seg(2, 64777, 64512) }, noneOrTAW),
		asp("aspath-empty", ext|conf, func(s c06Sess) []byte { return nil }, noneOrTAW),
		// RFC 5065 s5: confederation segments from a neighbour outside the confederation = malformed AS_PATH
		asp("aspath-confedseg:seq", ext, func(s c06Sess) []byte { return append(c06Seg(3, 65100), c06Seg(2, c06EBGPAS, 64512)...) }, c06RuleTAW(c06CASPath)),
		asp("aspath-confedseg:set", ext, func(s c06Sess) []byte { return append(c06Seg(2, c06EBGPAS, 64512), c06Seg(4, 65100, 65101)...) }, c06RuleTAW(c06CASPath)),
		// nothing obliges a confederation peer's path to start with AS_CONFED_SEQUENCE on receipt; if it is
		// held to be malformed, RFC 7606 s3.e asks for treat-as-withdraw
		asp("aspath-noconfedseq", conf, func(s c06Sess) []byte { return c06Seg(2, c06MemberAS, 64512) }, noneOrTAW))

	// ---- NEXT_HOP (RFC 7606 s7.3; RFC 4271 s6.3)
	nhv := func(id, ip string, allowed func(s c06Sess) c06Allowed) *c06Fault {
		return c06AttrFault("nexthop-value:"+id, c06TNextHop, all, c06WithVal(c06IP(ip)), allowed)
	}
	add(c06AttrFault("nexthop-len:0", c06TNextHop, all, c06Resize(0), c06RuleTAW(c06CLen)),
		c06AttrFault("nexthop-len:3", c06TNextHop, all, c06Resize(3), c06RuleTAW(c06CLen)),
		c06AttrFault("nexthop-len:5", c06TNextHop, all, c06Resize(5), c06RuleTAW(c06CLen)),
		c06AttrFault("nexthop-len16", c06TNextHop, all, c06WithVal(c06IP("2001:db8::2")), c06RuleTAW(c06CLen)),
		nhv("0.0.0.0", "0.0.0.0", c06RuleTAW(c06CNextHop)),
		nhv("224.0.0.1", "224.0.0.1", c06RuleTAW(c06CNextHop)),
		nhv("255.255.255.255", "255.255.255.255", c06RuleTAW(c06CNextHop)),
		// a loopback address is not named by either RFC: accepting it is admissible
		nhv("127.0.0.1", "127.0.0.1", c06Rule(c06R(c06None, c06TAW), nil, c06R(c06None, c06Reset), []uint16{c06CNextHop})),
		c06AttrFault("nexthop-flags:optional", c06TNextHop, all, c06WithFlags(0xc0), c06RuleTAW(c06CFlags)),
		c06DupFault("nexthop-dup", c06TNextHop, all, func(c06Sess) []byte { return c06IP("10.0.0.99") }, c06RuleDiscard(c06CAttrList)),
		c06MissingFault("nexthop-missing", c06TNextHop, all, c06RuleTAW(c06CMissing)))

	// ---- MULTI_EXIT_DISC (RFC 7606 s7.4)
	add(c06AttrFault("med-len:0", c06TMED, all, c06Resize(0), c06RuleTAW(c06CLen, c06COptAttr)),
		c06AttrFault("med-len:3", c06TMED, all, c06Resize(3), c06RuleTAW(c06CLen, c06COptAttr)),
		c06AttrFault("med-len:5", c06TMED, all, c06Resize(5), c06RuleTAW(c06CLen, c06COptAttr)),
		c06AttrFault("med-flags:transitive", c06TMED, all, c06WithFlags(0xc0), c06RuleTAW(c06CFlags)),
		c06AttrFault("med-flags:wellknown", c06TMED, all, c06WithFlags(0x40), c06RuleTAW(c06CFlags)),
		c06DupFault("med-dup", c06TMED, all, func(c06Sess) []byte { return c06U32(77) }, c06RuleDiscard(c06CAttrList)))

	// ---- LOCAL_PREF (RFC 7606 s7.5, s3.d; RFC 4271 s5.1.5)
	add(c06AttrFault("localpref-len:0", c06TLocalPref, all, c06Resize(0), c06RuleInternalOnly(c06CLen)),
		c06AttrFault("localpref-len:3", c06TLocalPref, all, c06Resize(3), c06RuleInternalOnly(c06CLen)),
		c06AttrFault("localpref-len:5", c06TLocalPref, all, c06Resize(5), c06RuleInternalOnly(c06CLen)),
		c06AttrFault("localpref-flags:optional", c06TLocalPref, all, c06WithFlags(0xc0), c06RuleInternalOnly(c06CFlags)),
		c06DupFault("localpref-dup", c06TLocalPref, c06Peers(c06IBGP, c06Confed), func(c06Sess) []byte { return c06U32(333) }, c06RuleDiscard(c06CAttrList)),
		c06MissingFault("localpref-missing", c06TLocalPref, c06Peers(c06IBGP), c06RuleTAW(c06CMissing)))

	// ---- ATOMIC_AGGREGATE, AGGREGATOR (RFC 7606 s7.6, s7.7, s3.f)
	add(c06AttrFault("atomic-len:1", c06TAtomic, all, c06Resize(1), c06RuleDiscard(c06CLen)),
		c06AttrFault("atomic-flags:optional", c06TAtomic, all, c06WithFlags(0xc0), c06RuleDiscardOrTAW(c06CFlags)),
		c06DupFault("atomic-dup", c06TAtomic, all, func(c06Sess) []byte { return nil }, c06RuleDiscard(c06CAttrList)),
		c06AttrFault("aggregator-len:0", c06TAggregator, all, c06Resize(0), c06RuleDiscard(c06CLen, c06COptAttr)),
		c06AttrFault("aggregator-len:5", c06TAggregator, all, c06Resize(5), c06RuleDiscard(c06CLen, c06COptAttr)),
		c06AttrFault("aggregator-len:7", c06TAggregator, all, c06Resize(7), c06RuleDiscard(c06CLen, c06COptAttr)),
		// RFC 7606 s7.7: 6 octets are right only when the four-octet AS capability was not exchanged; these sessions exchanged it
		c06AttrFault("aggregator-len6", c06TAggregator, all, c06WithVal(append([]byte{0xfc, 0x00}, c06IP("192.0.2.9")...)), c06RuleDiscard(c06CLen, c06COptAttr)),
		c06AttrFault("aggregator-flags:wellknown", c06TAggregator, all, c06WithFlags(0x40), c06RuleDiscardOrTAW(c06CFlags)),
		c06DupFault("aggregator-dup", c06TAggregator, all, func(c06Sess) []byte { return append(c06U32(64513), c06IP("192.0.2.10")...) }, c06RuleDiscard(c06CAttrList)))

	// ---- COMMUNITIES (RFC 7606 s7.8), EXTENDED COMMUNITIES (s7.14), LARGE COMMUNITY (RFC 8092 s5)
	multi := func(name string, typ byte, unit int, otherVal []byte) {
		add(c06AttrFault(name+fmt.Sprintf("-len:%d", unit-1), typ, all, c06Resize(unit-1), c06RuleTAW(c06CLen, c06COptAttr)),
			c06AttrFault(name+fmt.Sprintf("-len:%d", unit+1), typ, all, c06Resize(unit+1), c06RuleTAW(c06CLen, c06COptAttr)),
			c06AttrFault(name+"-len0", typ, all, c06Resize(0), c06RuleTAW(c06CLen, c06COptAttr)),
			c06AttrFault(name+"-flags:wellknown", typ, all, c06WithFlags(0x40), c06RuleTAW(c06CFlags)),
			c06AttrFault(name+"-flags:nontransitive", typ, all, c06WithFlags(0x80), c06RuleTAW(c06CFlags)),
			c06DupFault(name+"-dup", typ, all, func(c06Sess) []byte { return otherVal }, c06RuleDiscard(c06CAttrList)))
	}
	multi("comm", c06TComm, 4, c06U32(65000<<16|77))
	multi("extcomm", c06TExtComm, 8, []byte{0x00, 0x02, 0xfd, 0xe8, 0, 0, 0, 77})
	multi("large", c06TLarge, 12, append(append(c06U32(65000), c06U32(7)...), c06U32(7)...))

	// ---- ORIGINATOR_ID, CLUSTER_LIST (RFC 7606 s7.9, s7.10)
	add(c06AttrFault("originator-len:0", c06TOriginator, all, c06Resize(0), c06RuleInternalOnly(c06CLen, c06COptAttr)),
		c06AttrFault("originator-len:3", c06TOriginator, all, c06Resize(3), c06RuleInternalOnly(c06CLen, c06COptAttr)),
		c06AttrFault("originator-len:5", c06TOriginator, all, c06Resize(5), c06RuleInternalOnly(c06CLen, c06COptAttr)),
		c06AttrFault("originator-flags:transitive", c06TOriginator, all, c06WithFlags(0xc0), c06RuleInternalOnly(c06CFlags)),
		c06AttrFault("originator-from-ebgp", c06TOriginator, ext, func(good c06Attr, s c06Sess) c06Attr { return good }, c06Rule(c06R(c06Discard), nil, c06R(c06None, c06Discard), nil)),
		c06DupFault("originator-dup", c06TOriginator, c06Peers(c06IBGP), func(c06Sess) []byte { return c06IP("9.9.9.8") }, c06RuleDiscard(c06CAttrList)),
		c06AttrFault("cluster-len:3", c06TCluster, all, c06Resize(3), c06RuleInternalOnly(c06CLen, c06COptAttr)),
		c06AttrFault("cluster-len:5", c06TCluster, all, c06Resize(5), c06RuleInternalOnly(c06CLen, c06COptAttr)),
		c06AttrFault("cluster-len0", c06TCluster, all, c06Resize(0), c06RuleInternalOnly(c06CLen, c06COptAttr)),
		c06AttrFault("cluster-flags:transitive", c06TCluster, all, c06WithFlags(0xc0), c06RuleInternalOnly(c06CFlags)),
		c06AttrFault("cluster-from-ebgp", c06TCluster, ext, func(good c06Attr, s c06Sess) c06Attr { return good }, c06Rule(c06R(c06Discard), nil, c06R(c06None, c06Discard), nil)),
		c06DupFault("cluster-dup", c06TCluster, c06Peers(c06IBGP), func(c06Sess) []byte { return c06IP("8.8.8.1") }, c06RuleDiscard(c06CAttrList)))

	// ---- MP_REACH_NLRI / MP_UNREACH_NLRI (RFC 7606 s5.3, s7.11, s7.12, s3.g, s3.j; RFC 4760 s7)
	mpCodes := []uint16{c06COptAttr, c06CLen, c06CNetField}
	v6 := c06IP(c06V6NH)
	add(c06AttrFault("mpreach-len:2", c06TMPReach, all, c06WithVal([]byte{0, 2}), c06RuleReset(mpCodes...)),
		c06AttrFault("mpreach-len:4", c06TMPReach, all, c06WithVal([]byte{0, 2, 1, 0}), c06RuleReset(mpCodes...)),
		c06AttrFault("mpreach-nhlen:5", c06TMPReach, all, func(good c06Attr, s c06Sess) c06Attr {
			good.val = append([]byte{0, 2, 1, 5, 0x20, 1, 0xd, 0xb8, 0, 0}, good.val[4+16+1:]...)
			return good
		}, c06RuleReset(mpCodes...)),
		c06AttrFault("mpreach-nhlen:0", c06TMPReach, all, func(good c06Attr, s c06Sess) c06Attr {
			good.val = append([]byte{0, 2, 1, 0, 0}, good.val[4+16+1:]...)
			return good
		}, c06RuleReset(mpCodes...)),
		c06AttrFault("mpreach-nhlen:overrun", c06TMPReach, all, func(good c06Attr, s c06Sess) c06Attr {
			good.val = append([]byte{}, good.val...)
			good.val[3] = 200
			return good
		}, c06RuleReset(mpCodes...)),
		c06AttrFault("mpreach-prefixlen:129", c06TMPReach, all, func(good c06Attr, s c06Sess) c06Attr {
			bad := append([]byte{129}, append(append([]byte{}, v6...), 0x80)...)
			if s.addPath {
				bad = append(c06U32(9), bad...)
			}
			good.val = append(append([]byte{}, good.val...), bad...)
			return good
		}, c06RuleReset(mpCodes...)),
		c06AttrFault("mpreach-nlri-overrun", c06TMPReach, all, func(good c06Attr, s c06Sess) c06Attr {
			bad := []byte{64, 0x20, 0x01, 0x0d, 0xb8}
			if s.addPath {
				bad = append(c06U32(9), bad...)
			}
			good.val = append(append([]byte{}, good.val...), bad...)
			return good
		}, c06RuleReset(mpCodes...)),
		c06AttrFault("mpreach-flags:transitive", c06TMPReach, all, c06WithFlags(0xc0), c06RuleReset(c06CFlags, c06COptAttr)),
		c06AttrFault("mpreach-flags:wellknown", c06TMPReach, all, c06WithFlags(0x40), c06RuleReset(c06CFlags, c06COptAttr)),
		c06DupFault("mpreach-dup", c06TMPReach, all, func(c06Sess) []byte { return nil }, c06RuleReset(c06CAttrList)),
		c06AttrFault("mpunreach-len:2", c06TMPUnreach, all, c06WithVal([]byte{0, 2}), c06RuleReset(mpCodes...)),
		c06AttrFault("mpunreach-prefixlen:129", c06TMPUnreach, all, func(good c06Attr, s c06Sess) c06Attr {
			bad := append([]byte{129}, append(append([]byte{}, v6...), 0x80)...)
			if s.addPath {
				bad = append(c06U32(9), bad...)
			}
			good.val = append(append([]byte{}, good.val...), bad...)
			return good
		}, c06RuleReset(mpCodes...)),
		c06AttrFault("mpunreach-nlri-overrun", c06TMPUnreach, all, func(good c06Attr, s c06Sess) c06Attr {
			bad := []byte{64, 0x20, 0x01, 0x0d, 0xb8}
			if s.addPath {
				bad = append(c06U32(9), bad...)
			}
			good.val = append(append([]byte{}, good.val...), bad...)
			return good
		}, c06RuleReset(mpCodes...)),
		c06AttrFault("mpunreach-flags:transitive", c06TMPUnreach, all, c06WithFlags(0xc0), c06RuleReset(c06CFlags, c06COptAttr)),
		c06DupFault("mpunreach-dup", c06TMPUnreach, all, func(c06Sess) []byte { return nil }, c06RuleReset(c06CAttrList)))

	// ---- AS4_PATH / AS4_AGGREGATOR (RFC 6793 s6)
	as4 := []uint16{c06COptAttr, c06CLen, c06CASPath, c06CAttrList}
	withAgg := func(f *c06Fault) *c06Fault { // keep an AGGREGATOR next to a faulty AS4_AGGREGATOR
		inner := f.apply
		f.apply = func(m *c06Msg, s c06Sess, pos int) (c06Applied, bool) {
			if m.find(c06TAggregator) < 0 {
				m.insert(-1, c06GoodAttr(c06TAggregator, s.pt))
			}
			return inner(m, s, pos)
		}
		return f
	}
	add(c06AttrFault("as4path-malformed:len3", c06TAS4Path, all, c06WithVal([]byte{2, 1, 0}), c06RuleAS4(as4...)),
		c06AttrFault("as4path-malformed:len4", c06TAS4Path, all, c06WithVal([]byte{2, 1, 0, 0}), c06RuleAS4(as4...)),
		c06AttrFault("as4path-malformed:segtype0", c06TAS4Path, all, c06WithVal(c06Seg(0, 64512)), c06RuleAS4(as4...)),
		c06AttrFault("as4path-malformed:zerocount", c06TAS4Path, all, c06WithVal(append(c06Seg(2, 64512), 2, 0)), c06RuleAS4(as4...)),
		c06AttrFault("as4path-malformed:overrun", c06TAS4Path, all, c06WithVal(append([]byte{2, 3}, append(c06U32(64512), c06U32(64513)...)...)), c06RuleAS4(as4...)),
		c06AttrFault("as4path-flags:wellknown", c06TAS4Path, all, c06WithFlags(0x40), c06Rule(c06R(c06Discard, c06TAW), nil, c06R(c06Discard, c06Reset), []uint16{c06CFlags})),
		c06DupFault("as4path-dup", c06TAS4Path, all, func(c06Sess) []byte { return c06Seg(2, 64513) }, c06Rule(c06R(c06Discard), nil, c06R(c06Discard, c06Reset), []uint16{c06CAttrList})),
		withAgg(c06AttrFault("as4agg-len:0", c06TAS4Agg, all, c06Resize(0), c06RuleAS4(c06CLen, c06COptAttr, c06CAttrList))),
		withAgg(c06AttrFault("as4agg-len:7", c06TAS4Agg, all, c06Resize(7), c06RuleAS4(c06CLen, c06COptAttr, c06CAttrList))),
		withAgg(c06AttrFault("as4agg-len:9", c06TAS4Agg, all, c06Resize(9), c06RuleAS4(c06CLen, c06COptAttr, c06CAttrList))),
		withAgg(c06AttrFault("as4agg-flags:wellknown", c06TAS4Agg, all, c06WithFlags(0x40), c06Rule(c06R(c06Discard, c06TAW), nil, c06R(c06Discard, c06Reset), []uint16{c06CFlags}))),
		c06DupFault("as4agg-dup", c06TAS4Agg, all, func(c06Sess) []byte { return append(c06U32(64513), c06IP("192.0.2.10")...) }, c06Rule(c06R(c06Discard), nil, c06R(c06Discard, c06Reset), []uint16{c06CAttrList})),
		// a well-formed AS4_AGGREGATOR without AGGREGATOR between two four-octet speakers: discard and go on (RFC 6793 s6)
		&c06Fault{id: "as4agg-alone", typ: c06TAS4Agg, positional: true, peers: all,
			allowed: c06Rule(c06R(c06None, c06Discard), nil, c06R(c06None, c06Discard), nil),
			apply: func(m *c06Msg, s c06Sess, pos int) (c06Applied, bool) {
				m.remove(c06TAggregator)
				m.remove(c06TAS4Agg)
				a := c06GoodAttr(c06TAS4Agg, s.pt)
				m.insert(pos, a)
				raw := a.bytes()
				return c06Applied{present: func(w c06Walked) bool { return c06Present(raw)(w) && w.count(c06TAggregator) == 0 }, badType: -1, dupType: -1}, true
			}})

	// ---- unrecognised attributes (RFC 4271 s6.3, RFC 7606 s3.g)
	add(c06AttrFault("unknown-wellknown", c06TUnknownWK, all, func(good c06Attr, s c06Sess) c06Attr { return good }, c06Rule(c06R(c06TAW, c06Reset), []uint16{c06CUnrecWK}, c06R(c06Reset), []uint16{c06CUnrecWK})),
		c06AttrFault("unknownopt-partial-nontransitive", c06TUnknownOpt, all, c06WithFlags(0xa0), c06Rule(c06R(c06None, c06Discard, c06TAW, c06Reset), []uint16{c06CFlags}, c06R(c06Reset), []uint16{c06CFlags})),
		c06DupFault("unknownopt-dup", c06TUnknownOpt, all, func(c06Sess) []byte { return []byte{6, 6, 6} }, c06RuleDiscard(c06CAttrList)))

	// ---- Extended Length bit flipped on without re-laying the attribute: the two length octets now
	// claim >= 256 octets of value, which overruns the (short) attribute block -> RFC 7606 s4
	extflip := func(name string, typ byte) *c06Fault {
		return &c06Fault{id: "extlen-flip:" + name, typ: int(typ), positional: true, peers: all, allowed: c06RuleTAW(c06CAttrList, c06CLen),
			apply: func(m *c06Msg, s c06Sess, pos int) (c06Applied, bool) {
				good, had := m.remove(typ)
				if !had {
					good = c06GoodAttr(typ, s.pt)
				}
				if len(good.val) == 0 || len(good.val) > 255 || good.flags&0x10 != 0 {
					good = c06GoodAttr(typ, s.pt)
				}
				// same octets as the good attribute except for the flag bit
				raw := good.bytes()
				bad := c06Attr{flags: good.flags | 0x10, typ: typ, val: raw[4:], lenField: int(raw[2])<<8 | int(raw[3])}
				m.insert(pos, bad)
				return c06Applied{present: func(w c06Walked) bool {
					if !(w.ok && w.wdrFits && w.attrFits) {
						return false
					}
					for _, t := range w.tlvs {
						if t.typ == typ && !t.complete && t.flags&0x10 != 0 {
							return true
						}
					}
					return false
				}, badType: int(typ), dupType: -1}, true
			}}
	}
	add(extflip("origin", c06TOrigin), extflip("med", c06TMED), extflip("comm", c06TComm))

	// ---- framing of the attribute block (RFC 7606 s4) and of the message (RFC 4271 s6.3, RFC 7606 s5.3)
	blockCodes := []uint16{c06CAttrList, c06CLen}
	add(c06StructFault("tail-stray:1", c06RuleTAW(blockCodes...), func(m *c06Msg, s c06Sess) (func(w c06Walked) bool, bool) {
		m.attrTail = []byte{0x40}
		return func(w c06Walked) bool { return w.ok && w.wdrFits && w.attrFits && w.stray == 1 }, true
	}),
		c06StructFault("tail-stray:2", c06RuleTAW(blockCodes...), func(m *c06Msg, s c06Sess) (func(w c06Walked) bool, bool) {
			m.attrTail = []byte{0xc0, 0x08}
			return func(w c06Walked) bool { return w.ok && w.wdrFits && w.attrFits && w.stray == 2 }, true
		}),
		c06StructFault("tail-overrun", c06RuleTAW(blockCodes...), func(m *c06Msg, s c06Sess) (func(w c06Walked) bool, bool) {
			m.insert(-1, c06Attr{flags: 0xc0, typ: c06TTail, val: []byte{1, 2, 3, 4}, lenField: 7})
			return func(w c06Walked) bool {
				return w.ok && w.wdrFits && w.attrFits && len(w.tlvs) > 0 && !w.tlvs[len(w.tlvs)-1].complete && w.tlvs[len(w.tlvs)-1].typ == c06TTail
			}, true
		}),
		c06StructFault("attrlen-exceeds-msg", c06RuleReset(c06CAttrList), func(m *c06Msg, s c06Sess) (func(w c06Walked) bool, bool) {
			m.attrLenField = len(m.attrBlock()) + len(c06EncList(m.nlri, m.addPath)) + 5
			return func(w c06Walked) bool { return w.ok && w.wdrFits && !w.attrFits }, true
		}),
		// the block length stops short of the last attribute (a MED): its octets 80 04 04 .. are read as NLRI,
		// a prefix of 128 bits (RFC 7606 s5.3: syntactically incorrect NLRI field)
		c06StructFault("attrlen-short-by-last", c06RuleReset(c06CNetField, c06CAttrList), func(m *c06Msg, s c06Sess) (func(w c06Walked) bool, bool) {
			if len(m.attrs) == 0 || m.addPath { // with path identifiers the stray octets happen to parse as NLRI
				return nil, false
			}
			m.remove(c06TMED)
			med := c06GoodAttr(c06TMED, s.pt)
			m.insert(-1, med)
			m.attrLenField = len(m.attrBlock()) - len(med.bytes())
			raw := med.bytes()
			return func(w c06Walked) bool {
				return w.ok && w.wdrFits && w.attrFits && len(w.nlri) >= len(raw) && string(w.nlri[:len(raw)]) == string(raw)
			}, true
		}),
		c06StructFault("wdrlen-exceeds-msg", c06RuleReset(c06CAttrList), func(m *c06Msg, s c06Sess) (func(w c06Walked) bool, bool) {
			m.wdrLenField = 4000
			return func(w c06Walked) bool { return w.ok && !w.wdrFits }, true
		}),
		c06StructFault("wdrlen-cuts-prefix", c06RuleReset(c06CNetField, c06CAttrList), func(m *c06Msg, s c06Sess) (func(w c06Walked) bool, bool) {
			if len(m.wdr) == 0 {
				m.wdr = []c06Pfx{c06P("10.9.9.0/24", 7)}
			}
			n := len(c06EncList(m.wdr, m.addPath))
			m.wdrLenField = n - 1
			return func(w c06Walked) bool { return w.ok && w.wdrFits && w.wdrLen == n-1 }, true
		}),
		c06StructFault("wdr-prefixlen:33", c06RuleReset(c06CNetField, c06CAttrList), func(m *c06Msg, s c06Sess) (func(w c06Walked) bool, bool) {
			bad := []byte{33, 10, 9, 9, 0, 0x80}
			if m.addPath {
				bad = append(c06U32(9), bad...)
			}
			m.wdrExtra = bad
			return func(w c06Walked) bool {
				return w.ok && w.wdrFits && len(w.wdr) >= len(bad) && string(w.wdr[len(w.wdr)-len(bad):]) == string(bad)
			}, true
		}),
		c06StructFault("nlri-prefixlen:33", c06RuleReset(c06CNetField), func(m *c06Msg, s c06Sess) (func(w c06Walked) bool, bool) {
			if len(m.nlri) == 0 {
				return nil, false
			}
			bad := []byte{33, 10, 9, 9, 0, 0x80}
			if m.addPath {
				bad = append(c06U32(9), bad...)
			}
			m.nlriExtra = bad
			return func(w c06Walked) bool {
				return w.ok && w.wdrFits && w.attrFits && len(w.nlri) >= len(bad) && string(w.nlri[len(w.nlri)-len(bad):]) == string(bad)
			}, true
		}),
		c06StructFault("nlri-truncated", c06RuleReset(c06CNetField), func(m *c06Msg, s c06Sess) (func(w c06Walked) bool, bool) {
			if len(m.nlri) == 0 || m.nlri[len(m.nlri)-1].bits <= 8 {
				return nil, false
			}
			full := len(c06EncList(m.nlri, m.addPath))
			m.nlriCut = 1
			return func(w c06Walked) bool { return w.ok && w.wdrFits && w.attrFits && len(w.nlri) == full-1 }, true
		}))
	return fs
}

// c06Classify is the reference: the allowed reactions to a message carrying the given faults
// (one or two) on the given session.
func c06Classify(s c06Sess, faults ...*c06Fault) c06Allowed {
	a := faults[0].allowed(s)
	for _, f := range faults[1:] {
		a = c06Combine(a, f.allowed(s))
	}
	return a
}

// c06Conflict: pairs that cannot be injected independently (same attribute, or one removes / shadows
// what the other needs).
func c06Conflict(a, b *c06Fault) bool {
	if a == b || a.family() == b.family() {
		return true
	}
	if a.typ >= 0 && a.typ == b.typ {
		return true
	}
	// faults that re-cut the attribute block against faults that append to it
	tail := func(f *c06Fault) bool {
		return strings.HasPrefix(f.id, "tail-") || strings.HasPrefix(f.id, "attrlen-") || strings.HasPrefix(f.id, "extlen-flip")
	}
	if tail(a) && tail(b) {
		return true
	}
	// AS4_AGGREGATOR faults manage AGGREGATOR themselves
	agg := func(f *c06Fault) bool { return f.typ == c06TAS4Agg || f.typ == c06TAggregator }
	// AS4_PATH is merged into AS_PATH (RFC 6793): faults on the two are not independent
	asp := func(f *c06Fault) bool { return f.typ == c06TASPath || f.typ == c06TAS4Path }
	if asp(a) && asp(b) {
		return true
	}
	if agg(a) && agg(b) || a.typ == c06TAS4Agg && tail(b) || b.typ == c06TAS4Agg && tail(a) {
		return true
	}
	return false
}
