package server

// C08, function level: the real handleOpen (ValidateOpenMsg) / stateChange (open2Cap, CreateRfMap,
// timer arithmetic) / buildopen (capabilitiesFromConfig) are executed on a minimally constructed
// fsm for neighbour configurations x received OPENs and compared with c08Negotiate / c08CheckOpen.
// Several OPENs are run through the SAME fsm one after the other, so state left behind by an
// earlier session must not leak into the next negotiation result.

import (
	"fmt"
	"io"
	"log/slog"
	"net/netip"
	"sort"
	"testing"

	"github.com/osrg/gobgp/v4/internal/verif/vlib"
	"github.com/osrg/gobgp/v4/pkg/config/oc"
	"github.com/osrg/gobgp/v4/pkg/packet/bgp"
)

const c08OpensPerConfig = 8

func c08OcNeighbor(l *c08Local, addr string) *oc.Neighbor {
	n := &oc.Neighbor{}
	n.Config.NeighborAddress = netip.MustParseAddr(addr)
	n.Config.PeerAs = l.PeerAS
	n.Config.LocalAs = l.LocalAS
	n.Transport.Config.PassiveMode = true
	if l.HoldSet && l.Hold != 0 {
		n.Timers.Config.HoldTime = float64(l.Hold)
	}
	if l.KASet {
		n.Timers.Config.KeepaliveInterval = float64(l.KA)
	}
	for _, fc := range l.Fams {
		af := oc.AfiSafi{}
		af.Config.AfiSafiName = oc.AfiSafiType(fc.F.String())
		af.Config.Enabled = true
		af.AddPaths.Config.Receive = fc.APRecv
		af.AddPaths.Config.SendMax = fc.SendMax
		af.MpGracefulRestart.Config.Enabled = fc.GR
		af.LongLivedGracefulRestart.Config.Enabled = fc.LLGR
		af.LongLivedGracefulRestart.Config.RestartTime = fc.LLGRTime
		n.AfiSafis = append(n.AfiSafis, af)
	}
	n.GracefulRestart.Config.Enabled = l.GR
	n.GracefulRestart.Config.RestartTime = l.GRTime
	n.GracefulRestart.Config.HelperOnly = l.GRHelper
	n.GracefulRestart.Config.NotificationEnabled = l.GRNotif
	n.GracefulRestart.Config.LongLivedEnabled = l.LLGR
	return n
}

// c08PatchHoldZero is what `hold-time = 0` in a configuration file gives (the API cannot express
// it: a zero there means "default").
func c08PatchHoldZero(l *c08Local, n *oc.Neighbor) {
	if l.HoldSet && l.Hold == 0 {
		n.Timers.Config.HoldTime = 0
		if !l.KASet {
			n.Timers.Config.KeepaliveInterval = 0
		}
		if l.GR && l.GRTime == 0 {
			n.GracefulRestart.Config.RestartTime = 0
		}
	}
}

var c08Quiet = slog.New(slog.NewTextHandler(io.Discard, &slog.HandlerOptions{Level: slog.Level(100)}))

// c08Observed is what gobgp derived from one received OPEN.
type c08Observed struct {
	Hold      float64
	KA        float64
	Fams      map[bgp.Family]uint8
	Ext       bool
	AS2       bool // twoByteAsTrans
	EBGP      bool // fsm.isEBGP
	Internal  bool // State.PeerType
	PeerAS    uint32
	HasCapExt bool
}

// c08Compare reports the differences between the reference result and gobgp's state. Returns the
// add-path modes in force (for the outcome tuple).
func c08Compare(res *c08Result, ob *c08Observed, viol func(key, what string)) {
	if ob.Hold != float64(res.Hold) {
		viol("c08:hold:negotiated-not-min", fmt.Sprintf("negotiated hold time %v, reference min(local, remote) = %d", ob.Hold, res.Hold))
	}
	okKA := false
	for k := range res.KA {
		if ob.KA == k || ob.KA == float64(int64(k)) {
			okKA = true
		}
	}
	if !okKA {
		viol("c08:keepalive:interval-not-admissible", fmt.Sprintf("keepalive interval %v with negotiated hold time %d; admissible %v", ob.KA, res.Hold, c08KAList(res.KA)))
	}
	for f := range res.Fams {
		if _, ok := ob.Fams[f]; !ok {
			viol("c08:family:announced-by-both-not-usable", fmt.Sprintf("family %s was announced by both sides but is not in the negotiated set %v", c08FamName(f), c08ModeMap(ob.Fams)))
		}
	}
	for f, m := range ob.Fams {
		if !res.Fams[f] {
			viol("c08:family:usable-without-both-announcing", fmt.Sprintf("family %s is in the negotiated set %v although only one side (or none) announced it", c08FamName(f), c08ModeMap(ob.Fams)))
			continue
		}
		adm := res.AP[f]
		if adm == nil || adm[m] {
			continue
		}
		var sendOK, recvOK bool
		for a := range adm {
			if a&c08APSend == m&c08APSend {
				sendOK = true
			}
			if a&c08APRecv == m&c08APRecv {
				recvOK = true
			}
		}
		switch {
		case !sendOK && m&c08APSend != 0:
			viol("c08:addpath:send-without-peer-receive", fmt.Sprintf("family %s: ADD-PATH send negotiated (mode %d) but we are not configured to send or the peer did not announce receive; admissible %v", c08FamName(f), m, c08ModeSet(adm)))
		case !sendOK:
			viol("c08:addpath:send-not-negotiated", fmt.Sprintf("family %s: ADD-PATH send not negotiated (mode %d) although configured and the peer announced receive; admissible %v", c08FamName(f), m, c08ModeSet(adm)))
		case !recvOK && m&c08APRecv != 0:
			viol("c08:addpath:receive-without-peer-send", fmt.Sprintf("family %s: ADD-PATH receive negotiated (mode %d) but we are not configured to receive or the peer did not announce send; admissible %v", c08FamName(f), m, c08ModeSet(adm)))
		case !recvOK:
			viol("c08:addpath:receive-not-negotiated", fmt.Sprintf("family %s: ADD-PATH receive not negotiated (mode %d) although configured and the peer announced send; admissible %v", c08FamName(f), m, c08ModeSet(adm)))
		default:
			viol("c08:addpath:mode-combination", fmt.Sprintf("family %s: negotiated mode %d is not among the admissible %v", c08FamName(f), m, c08ModeSet(adm)))
		}
	}
	if ob.AS2 == res.AS4 {
		if res.AS4 {
			viol("c08:as4:2octet-although-both-announced", "2-octet AS_PATH encoding in force although both sides announced the 4-octet AS capability")
		} else {
			viol("c08:as4:4octet-without-capability", "4-octet AS_PATH encoding in force although the peer did not announce the capability")
		}
	}
	if ob.Ext != res.Ext {
		if ob.Ext {
			viol("c08:extmsg:enabled-without-capability", "extended messages enabled although the peer did not announce the capability")
		} else {
			viol("c08:extmsg:not-enabled-although-both-announced", "extended messages not enabled although both sides announced the capability")
		}
	}
	if ob.PeerAS != res.RemoteAS {
		viol("c08:peertype:remote-as-differs", fmt.Sprintf("remote AS recorded as %d, the OPEN says %d", ob.PeerAS, res.RemoteAS))
	}
	if ob.Internal != res.Internal {
		viol("c08:peertype:not-from-real-remote-as", fmt.Sprintf("peer type internal=%v but remote AS %d vs local AS gives internal=%v", ob.Internal, res.RemoteAS, res.Internal))
	}
	if ob.EBGP == res.Internal {
		viol("c08:peertype:fsm-isEBGP-not-from-real-remote-as", fmt.Sprintf("fsm.isEBGP=%v (what UPDATE validation uses) but remote AS %d vs local AS gives internal=%v", ob.EBGP, res.RemoteAS, res.Internal))
	}
}

func c08KAList(m map[float64]bool) []float64 {
	var out []float64
	for k := range m {
		out = append(out, k)
	}
	sort.Float64s(out)
	return out
}

func c08ModeSet(m map[uint8]bool) []int {
	var out []int
	for k := range m {
		out = append(out, int(k))
	}
	sort.Ints(out)
	return out
}

func c08ModeMap(m map[bgp.Family]uint8) map[string]uint8 {
	out := map[string]uint8{}
	for f, v := range m {
		out[c08FamName(f)] = v
	}
	return out
}

// c08ObserveFSM reads the negotiation result out of an fsm (white box).
func c08ObserveFSM(f *fsm) *c08Observed {
	conf := f.pConf.ReadOnly()
	ob := &c08Observed{Hold: conf.Timers.State.NegotiatedHoldTime, KA: conf.Timers.State.KeepaliveInterval, Fams: map[bgp.Family]uint8{},
		Ext: f.extendedMessage.Load(), AS2: f.twoByteAsTrans, EBGP: f.isEBGP, Internal: conf.State.PeerType == oc.PEER_TYPE_INTERNAL, PeerAS: conf.State.PeerAs}
	for fam, m := range f.familyMap.Load().(map[bgp.Family]bgp.BGPAddPathMode) {
		ob.Fams[fam] = uint8(m)
	}
	return ob
}

func (ob *c08Observed) modes() map[bgp.Family]uint8 { return ob.Fams }

func TestVerifC08Fn(t *testing.T) {
	rec := vlib.Open("C08")
	defer rec.Close()
	total := vlib.Scale(25000, 600000)
	vlib.Cases(total, func(idx int) {
		if idx%512 == 0 {
			rec.Mark(fmt.Sprintf("c08 fn config %d", idx), false)
		}
		c08FnCase(t, rec, idx)
	})
}

func c08FnCase(t *testing.T, rec *vlib.Rec, idx int) {
	r := vlib.CaseRand("c08fn", idx)
	l := c08GenLocal(r)
	as, as4 := c08GenRemoteAS(r, l)
	c08PickPeerAS(r, l, as)
	g := &oc.Global{}
	g.Config.As = l.GlobalAS
	g.Config.RouterId = netip.MustParseAddr(l.RouterID)
	nb := c08OcNeighbor(l, "10.0.0.2")
	if err := oc.SetDefaultNeighborConfigValues(nb, nil, g); err != nil {
		t.Fatalf("c08: SetDefaultNeighborConfigValues(%s): %v", l, err)
	}
	c08PatchHoldZero(l, nb)
	f := newFSM(g, nb, bgp.BGP_FSM_IDLE, c08Quiet)
	defer f.outgoingCh.Close()
	f.conn = &simConn{l: simTCPAddr(simLocalAddr, 179), r: simTCPAddr("10.0.0.2", 40000)}
	witness := func(o *c08Open) map[string]any {
		w := map[string]any{"case": idx, "layer": "function", "config": l.String()}
		if o != nil {
			w["open"] = o.String()
			w["open_hex"] = fmt.Sprintf("%x", o.bytes())
		}
		return w
	}

	// the OPEN gobgp would send
	var sent []byte
	if rec.Guard("c08:buildopen", func() any { return witness(nil) }, func() {
		conf := f.pConf.ReadCopy()
		sent, _ = buildopen(f.gConf, &conf).Serialize()
	}) {
		return
	}
	issues, weAS4, weExt := c08CheckOpen(l, sent)
	for _, is := range issues {
		w := witness(nil)
		w["open_sent_hex"] = fmt.Sprintf("%x", sent)
		rec.Violation(is.Key, "OPEN built by gobgp does not reflect the configuration: "+is.What, w)
	}
	rec.Count("fn_opens_built", 1)

	for k := 0; k < c08OpensPerConfig; k++ {
		if k > 0 && (l.PeerAS == 0 || r.IntN(8) == 0) {
			as, as4 = c08GenRemoteAS(r, l) // another AS: refused unless AS checking is off
		} else if l.PeerAS != 0 && r.IntN(4) != 0 {
			as = l.PeerAS
			if as > 65535 {
				as4 = true
			}
		}
		o := c08GenOpen(r, l, as, as4)
		raw := o.bytes()
		rec.Eval()
		for _, c := range o.caps() {
			rec.Count(fmt.Sprintf("cap_code_%d", c.Code), 1)
		}
		m, err := bgp.ParseBGPMessage(raw)
		if err != nil {
			rec.Count("fn_open_not_parsed", 1)
			rec.Violation("c08:open-rx:wellformed-open-rejected-by-parser", fmt.Sprintf("a well-formed OPEN is rejected by the parser: %v", err), witness(o))
			continue
		}
		res := c08Negotiate(l, o, weAS4, weExt)
		var next bgp.FSMState
		var notif *bgp.BGPMessage
		if rec.Guard("c08:handleOpen", func() any { return witness(o) }, func() {
			next, _, notif = f.handleOpen(&fsmMsg{MsgType: fsmMsgBGPMessage, MsgData: m})
		}) {
			continue
		}
		if next != bgp.BGP_FSM_OPENCONFIRM {
			rec.Count("fn_refused", 1)
			got := c08Refusal{}
			if notif != nil {
				nb := notif.Body.(*bgp.BGPNotification)
				got = c08Refusal{nb.ErrorCode, nb.ErrorSubcode}
			}
			switch {
			case !res.refused():
				rec.Violation("c08:refuse:acceptable-open-refused", fmt.Sprintf("OPEN refused with NOTIFICATION %d/%d although the reference accepts it", got.Code, got.Sub), witness(o))
			case !res.Refuse[got]:
				rec.Violation("c08:refuse:wrong-notification", fmt.Sprintf("OPEN refused with NOTIFICATION %d/%d, reference expects one of %v", got.Code, got.Sub, res.Refuse), witness(o))
			default:
				rec.Count(fmt.Sprintf("outcome_refused_%d/%d", got.Code, got.Sub), 1)
				rec.Nontrivial("fn|" + res.outcome(0, nil))
			}
			continue
		}
		if res.refused() {
			key := "c08:refuse:not-refused"
			if res.Refuse[c08Refusal{2, 6}] {
				key = "c08:hold:unacceptable-hold-time-accepted"
			}
			rec.Violation(key, fmt.Sprintf("OPEN accepted although the reference refuses it with %v", res.Refuse), witness(o))
			continue
		}
		f.recvOpen = m
		if rec.Guard("c08:stateChange", func() any { return witness(o) }, func() {
			f.stateChange(bgp.BGP_FSM_ESTABLISHED, newfsmStateReason(fsmOpenMsgNegotiated, nil, nil))
		}) {
			continue
		}
		ob := c08ObserveFSM(f)
		c08Compare(res, ob, func(key, what string) {
			w := witness(o)
			w["session_on_this_fsm"] = k
			w["observed"] = fmt.Sprintf("%+v", *ob)
			rec.Violation(key, what, w)
		})
		rec.Count("fn_established", 1)
		for fam := range res.Fams {
			rec.Count("fn_family_"+c08FamName(fam), 1)
		}
		if len(res.Fams) == 0 {
			rec.Count("fn_no_common_family", 1)
		}
		if res.Hold == 0 {
			rec.Count("fn_hold_zero", 1)
		}
		rec.Nontrivial("fn|" + res.outcome(ob.KA, ob.Fams))
		// back to idle, as the fsm loop would do before the next connection
		f.stateChange(bgp.BGP_FSM_IDLE, newfsmStateReason(fsmReadFailed, nil, nil))
		if idx%4999 == 0 && k == 0 {
			w := witness(o)
			w["outcome"] = res.outcome(ob.KA, ob.Fams)
			rec.Sample(w)
		}
	}
}
