package server

// C02, daemon-level layer — RIBs hold exactly the latest un-withdrawn route per source and path-id.
//
// The C01 history generator drives a real BgpServer in virtual time; the harness keeps a naive
// model of what every source has announced and not withdrawn on its CURRENT session (plus API
// routes). At exact quiescence (synctest.Wait) it compares, through the public API only:
//   * ListPath(ADJ_IN, peer)       == model[peer]            (keys (prefix, remote path-id), attributes)
//   * ListPath(GLOBAL)             == union of all models    (one entry per (source, path-id); nothing
//                                     from a session that ended; exactly one best, listed first)
//   * ListPeer received/accepted counters, GetTable summaries == sizes of the above
//   * exact / longer / shorter lookups == plain prefix arithmetic over the model
//   * the WatchEvent(best-path) stream, replayed in order from an empty table, == the best flags.
// Which route is best is C03's business: here only "exactly one best per destination, first in the
// list, and equal to what the watcher stream says".

import (
	"context"
	"fmt"
	"net/netip"
	"sort"
	"strings"
	"sync"
	"testing"
	"testing/synctest"
	"time"

	"github.com/osrg/gobgp/v4/api"
	"github.com/osrg/gobgp/v4/internal/verif/vlib"
	"github.com/osrg/gobgp/v4/pkg/apiutil"
	"github.com/osrg/gobgp/v4/pkg/packet/bgp"
)

type c02Watch struct {
	mu   sync.Mutex
	best map[simRouteKey]string // prefix -> "peerAddr#remoteID" of the best path, replayed from the stream
	n    int
}

func c02PathID(p *apiutil.Path) string {
	src := "local"
	if p.PeerAddress.IsValid() && !p.PeerAddress.IsUnspecified() {
		src = p.PeerAddress.String()
	}
	return fmt.Sprintf("%s#%d", src, p.RemoteID)
}

// c02BestID identifies a best path the way a FIB/BMP/MRT consumer can: by source and content.
// (Two paths of one peer that differ only in their ADD-PATH id are the same route to such a
// consumer; gobgp does not re-notify when the best moves between two content-equal paths.)
func c02BestID(p *apiutil.Path) string {
	src := "local"
	if p.PeerAddress.IsValid() && !p.PeerAddress.IsUnspecified() {
		src = p.PeerAddress.String()
	}
	a, nh := simCanonAttrs(p.Attrs)
	return src + "|" + a + "|" + nh
}

func (w *c02Watch) onBest(paths []*apiutil.Path, _ time.Time) {
	w.mu.Lock()
	defer w.mu.Unlock()
	for _, p := range paths {
		w.n++
		k := simRouteKey{p.Family, p.Nlri.String(), 0}
		if p.Withdrawal {
			delete(w.best, k)
		} else {
			w.best[k] = c02BestID(p)
		}
	}
}

func c02Families(h *c01Hist) []bgp.Family { return []bgp.Family{bgp.RF_IPv4_UC, bgp.RF_IPv6_UC} }

func (h *c01Hist) c02Compare(tag string, w *c02Watch) bool {
	for _, p := range h.peers {
		p.sp.setPaused(false)
	}
	synctest.Wait()
	rec := h.rec
	ok := true
	fail := func(key, what string, extra map[string]any) {
		wt := h.witness(tag)
		for k, v := range extra {
			wt[k] = v
		}
		rec.Violation(key, what, wt)
		ok = false
	}
	// ---- expected Loc-RIB: per (family, prefix): source#id -> route
	want := map[simRouteKey]map[string]simRoute{}
	add := func(k simRouteKey, id string, r simRoute) {
		kk := simRouteKey{k.Family, k.Prefix, 0}
		if want[kk] == nil {
			want[kk] = map[string]simRoute{}
		}
		want[kk][id] = r
	}
	for _, p := range h.peers {
		if !p.up {
			continue
		}
		for k, r := range h.adjIn[p.spec.Addr] {
			add(k, fmt.Sprintf("%s#%d", p.spec.Addr, k.ID), r)
		}
	}
	for pfx, r := range h.local {
		add(simRouteKey{bgp.RF_IPv4_UC, pfx, 0}, "local#0", r)
	}
	// ---- Adj-RIB-In per peer
	for _, p := range h.peers {
		if !p.up {
			continue
		}
		if !p.sp.established() {
			fail("c02:session-lost", fmt.Sprintf("session to %s is down although only well-formed messages were sent", p.spec.Addr), nil)
			return false
		}
		got := map[simRouteKey]simRoute{}
		for _, f := range p.spec.families() {
			err := h.n.s.ListPath(apiutil.ListPathRequest{TableType: api.TableType_TABLE_TYPE_ADJ_IN, Name: p.spec.Addr, Family: f}, func(prefix bgp.NLRI, paths []*apiutil.Path) {
				for _, ap := range paths {
					a, nh := simCanonAttrs(ap.Attrs)
					k := simRouteKey{f, prefix.String(), ap.RemoteID}
					if _, dup := got[k]; dup {
						fail("c02:adj-in:duplicate-path-id", fmt.Sprintf("ADJ_IN of %s lists %s twice", p.spec.Addr, k), nil)
					}
					got[k] = simRoute{a, nh}
				}
			})
			if err != nil {
				rec.Inconclusive("c02: ListPath(ADJ_IN): " + err.Error())
				return false
			}
		}
		model := h.adjIn[p.spec.Addr]
		rec.Count("adj_in_comparisons", 1)
		rec.Count("adj_in_routes", len(model))
		if d := c01Diff(got, model); len(d) > 0 {
			kinds := c02Kinds(d)
			fail("c02:adj-in!=model:"+kinds, fmt.Sprintf("ADJ_IN of %s differs from the latest un-withdrawn routes it sent on this session (MISSING = not in ADJ_IN, STALE = only in ADJ_IN): %s", p.spec.Addr, strings.Join(d, " | ")), map[string]any{"peer": p.spec.Addr, "diff": d})
		}
		// counters
		var recv, acc uint64
		h.n.s.ListPeer(context.Background(), &api.ListPeerRequest{Address: p.spec.Addr, EnableAdvertised: false}, func(ap *api.Peer) {
			for _, af := range ap.AfiSafis {
				if af.State != nil {
					recv += af.State.Received
					acc += af.State.Accepted
				}
			}
		})
		if recv != uint64(len(model)) || acc != uint64(len(model)) {
			fail("c02:counters:received-accepted", fmt.Sprintf("ListPeer(%s) reports received=%d accepted=%d, the peer has %d un-withdrawn routes on this session (none rejectable)", p.spec.Addr, recv, acc, len(model)), map[string]any{"peer": p.spec.Addr})
		}
		rec.Count("counter_comparisons", 1)
	}
	// ---- Loc-RIB
	nDest, nPath := 0, 0
	bestNow := map[simRouteKey]string{}
	for _, f := range c02Families(h) {
		got := map[simRouteKey]map[string]simRoute{}
		err := h.n.s.ListPath(apiutil.ListPathRequest{TableType: api.TableType_TABLE_TYPE_GLOBAL, Family: f}, func(prefix bgp.NLRI, paths []*apiutil.Path) {
			k := simRouteKey{f, prefix.String(), 0}
			got[k] = map[string]simRoute{}
			nbest := 0
			for i, ap := range paths {
				id := c02PathID(ap)
				if _, dup := got[k][id]; dup {
					fail("c02:loc-rib:duplicate-source-path-id", fmt.Sprintf("Loc-RIB lists (%s) twice for %s", id, k), nil)
				}
				a, nh := simCanonAttrs(ap.Attrs)
				got[k][id] = simRoute{a, nh}
				if ap.Best {
					nbest++
					if i != 0 {
						fail("c02:loc-rib:best-not-first", fmt.Sprintf("the best path of %s is at position %d of the list", k, i), nil)
					}
					bestNow[k] = c02BestID(ap)
				}
			}
			if nbest != 1 {
				fail("c02:loc-rib:best-count", fmt.Sprintf("%s has %d paths flagged best", k, nbest), nil)
			}
			nDest++
			nPath += len(paths)
		})
		if err != nil {
			rec.Inconclusive("c02: ListPath(GLOBAL): " + err.Error())
			return false
		}
		var d []string
		for k, wm := range want {
			if k.Family != f {
				continue
			}
			gm := got[k]
			for id, wr := range wm {
				gr, okk := gm[id]
				if !okk {
					d = append(d, fmt.Sprintf("MISSING in Loc-RIB: %s from %s", k, id))
				} else if gr != wr && !strings.HasPrefix(id, "local") {
					d = append(d, fmt.Sprintf("DIFFERENT %s from %s: loc-rib{%s nh=%s} announced{%s nh=%s}", k, id, gr.Attrs, gr.Nexthop, wr.Attrs, wr.Nexthop))
				}
			}
		}
		for k, gm := range got {
			for id := range gm {
				if _, okk := want[k][id]; !okk {
					d = append(d, fmt.Sprintf("STALE in Loc-RIB: %s from %s (withdrawn, or its session ended)", k, id))
				}
			}
		}
		rec.Count("loc_rib_comparisons", 1)
		if len(d) > 0 {
			sort.Strings(d)
			fail("c02:loc-rib!=model:"+c02Kinds(d), "Loc-RIB differs from the union of the sources' un-withdrawn routes: "+strings.Join(d, " | "), map[string]any{"diff": d})
		}
		// table summary
		if tr, err := h.n.s.GetTable(context.Background(), &api.GetTableRequest{TableType: api.TableType_TABLE_TYPE_GLOBAL, Family: &api.Family{Afi: api.Family_Afi(f.Afi()), Safi: api.Family_Safi(f.Safi())}}); err == nil {
			wd, wp := 0, 0
			for k, m := range got {
				if k.Family == f {
					wd++
					wp += len(m)
				}
			}
			if int(tr.NumDestination) != wd || int(tr.NumPath) != wp {
				fail("c02:gettable:summary", fmt.Sprintf("GetTable(%s) says %d destinations / %d paths, ListPath shows %d / %d", f, tr.NumDestination, tr.NumPath, wd, wp), nil)
			}
			rec.Count("gettable_comparisons", 1)
		}
		// lookups (IPv4): exact / longer / shorter against prefix arithmetic over what is listed
		if f == bgp.RF_IPv4_UC && len(got) > 0 {
			probe := netip.MustParsePrefix(c01V4Pool[h.r.IntN(len(c01V4Pool))])
			for _, lt := range []apiutil.LookupOption{apiutil.LOOKUP_EXACT, apiutil.LOOKUP_LONGER, apiutil.LOOKUP_SHORTER} {
				wantSet := map[string]bool{}
				for k := range got {
					q := netip.MustParsePrefix(k.Prefix)
					switch lt {
					case apiutil.LOOKUP_EXACT:
						if q == probe {
							wantSet[k.Prefix] = true
						}
					case apiutil.LOOKUP_LONGER:
						if q.Bits() >= probe.Bits() && probe.Contains(q.Addr()) {
							wantSet[k.Prefix] = true
						}
					case apiutil.LOOKUP_SHORTER:
						if q.Bits() <= probe.Bits() && q.Contains(probe.Addr()) {
							wantSet[k.Prefix] = true
						}
					}
				}
				gotSet := map[string]bool{}
				h.n.s.ListPath(apiutil.ListPathRequest{TableType: api.TableType_TABLE_TYPE_GLOBAL, Family: f, Prefixes: []*apiutil.LookupPrefix{{Prefix: probe.String(), LookupOption: lt}}}, func(prefix bgp.NLRI, _ []*apiutil.Path) {
					gotSet[prefix.String()] = true
				})
				if fmt.Sprint(c02Keys(gotSet)) != fmt.Sprint(c02Keys(wantSet)) {
					fail(fmt.Sprintf("c02:lookup:%d", lt), fmt.Sprintf("lookup option %d of %s returned %v, prefix arithmetic over the table gives %v", lt, probe, c02Keys(gotSet), c02Keys(wantSet)), nil)
				}
				rec.Count("lookup_comparisons", 1)
			}
		}
	}
	// ---- best-path watcher stream replayed == best flags
	if w != nil {
		w.mu.Lock()
		var d []string
		for k, id := range bestNow {
			if w.best[k] != id {
				d = append(d, fmt.Sprintf("%s: table says best is %s, the replayed stream says %q", k, id, w.best[k]))
			}
		}
		for k, id := range w.best {
			if _, okk := bestNow[k]; !okk {
				d = append(d, fmt.Sprintf("%s: the replayed stream still has best %s, the table has no such destination", k, id))
			}
		}
		rec.Count("watcher_events", w.n)
		w.n = 0
		w.mu.Unlock()
		rec.Count("watcher_comparisons", 1)
		if len(d) > 0 {
			sort.Strings(d)
			fail("c02:best-watcher-stream!=table", "replaying the best-path notifications in order does not reproduce the best-path table: "+strings.Join(d, " | "), map[string]any{"diff": d})
		}
	}
	if ok {
		rec.Nontrivial(fmt.Sprintf("%d|%d|%s", nDest, nPath, h.shapeHash()))
	}
	return ok
}

func c02Kinds(d []string) string {
	kinds := map[string]bool{}
	for _, l := range d {
		kinds[strings.SplitN(l, " ", 2)[0]] = true
	}
	var ks []string
	for k := range kinds {
		ks = append(ks, k)
	}
	sort.Strings(ks)
	return strings.Join(ks, "+")
}

func c02Keys(m map[string]bool) []string {
	var ks []string
	for k := range m {
		ks = append(ks, k)
	}
	sort.Strings(ks)
	return ks
}

func TestVerifC02Sim(t *testing.T) {
	rec := vlib.Open("C02")
	defer rec.Close()
	total := vlib.Scale(1600, 32000)
	vlib.Cases(total, func(idx int) {
		rec.Mark(fmt.Sprintf("c02 sim history %d", idx), true)
		synctest.Test(t, func(t *testing.T) { c02History(t, rec, idx) })
	})
}

func c02History(t *testing.T, rec *vlib.Rec, idx int) {
	r := vlib.CaseRand("c02sim", idx)
	n := simStart(t, &api.Global{Asn: simLocalAS, RouterId: "1.1.1.1"})
	defer func() {
		n.stop()
		synctest.Wait()
	}()
	h := &c01Hist{t: t, rec: rec, idx: idx, r: r, n: n, apiUU: map[string][]byte{}, looped: map[string]map[string]bool{}, events: map[string]int{},
		adjIn: map[string]map[simRouteKey]simRoute{}, local: map[string]simRoute{}}
	if r.IntN(2) == 0 {
		_, yn, un := simInstallYield(r.Uint64(), false)
		defer func() {
			rec.Count("yield_points_passed", int(yn()))
			un()
		}()
	}
	w := &c02Watch{best: map[simRouteKey]string{}}
	ctx, cancel := context.WithCancel(context.Background())
	defer cancel()
	if err := n.s.WatchEvent(ctx, WatchEventMessageCallbacks{OnBestPath: w.onBest}, WatchBestPath(true)); err != nil {
		rec.Inconclusive("c02: WatchEvent: " + err.Error())
		return
	}
	for _, ps := range c01GenPeers(r) {
		if ps.Kind == simRSClient {
			ps.Kind = simEBGP // route-server clients feed a separate table; not modelled in this layer
		}
		ps.SendMax = 0
		sp, err := n.addPeer(ps)
		if err != nil {
			rec.Inconclusive("c02: AddPeer: " + err.Error())
			return
		}
		h.peers = append(h.peers, &c01Peer{spec: ps, sp: sp, ann: map[string]map[uint32]bool{}})
	}
	synctest.Wait()
	for _, p := range h.peers {
		if r.IntN(5) == 0 {
			continue
		}
		if err := p.sp.bringUp(40); err != nil {
			rec.Inconclusive("c02: " + err.Error())
			return
		}
		p.up = true
	}
	rec.Eval()
	nEvents := 40 + r.IntN(120)
	next := 5 + r.IntN(15)
	for i := 0; i < nEvents; i++ {
		// delete-peer in the middle of an UPDATE burst is a dedicated event
		if r.IntN(40) == 0 {
			ups := h.upPeers()
			if len(ups) > 1 {
				p := ups[r.IntN(len(ups))]
				h.burst(ups)
				n.s.DeletePeer(context.Background(), &api.DeletePeerRequest{Address: p.spec.Addr})
				p.up = false
				delete(h.adjIn, p.spec.Addr)
				h.logf("delete-peer %s", p.spec.Addr)
				h.events["delete-peer"]++
				if r.IntN(2) == 0 {
					// ... and configured again at once, while UPDATEs of the old session may still be in
					// flight inside gobgp: nothing of the ended session may surface under the new peer
					if n.s.AddPeer(context.Background(), &api.AddPeerRequest{Peer: p.spec.apiPeer()}) == nil {
						h.logf("re-add-peer %s", p.spec.Addr)
						h.events["re-add-peer"]++
					}
					p.sp.close()
				} else {
					p.sp.close()
					// the peer is gone for good: take it out of the history
					var rest []*c01Peer
					for _, q := range h.peers {
						if q != p {
							rest = append(rest, q)
						}
					}
					h.peers = rest
				}
				synctest.Wait()
			}
		}
		h.step()
		rec.Count("events", 1)
		if i == next || i == nEvents-1 {
			next = i + 5 + r.IntN(15)
			if !h.c02Compare(fmt.Sprintf("event %d", i), w) {
				return
			}
		} else if r.IntN(3) == 0 {
			synctest.Wait()
		}
	}
	for k, v := range h.events {
		rec.Count("ev_"+k, v)
	}
	if idx%97 == 0 {
		wt := h.witness("end")
		if hist := wt["history"].([]string); len(hist) > 25 {
			wt["history"] = hist[:25]
		}
		rec.Sample(wt)
	}
}
