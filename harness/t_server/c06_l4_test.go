package server

// C06 layer 4 — several sessions of ONE neighbour, the decoding-relevant capabilities changing from
// session to session (four-octet AS numbers on/off, ADD-PATH per family on/off, extended message
// on/off, ipv6-unicast announced or not). Every session carries (a) a well-formed UPDATE that is
// well-formed only under THIS session's options (AS number width, path identifiers, > 4096 octets) and
// must be installed without any reaction, and (b) one fault of the catalogue judged under this
// session's options. gobgp keeps one fsm object per neighbour for all its sessions: whatever a session
// latched must not leak into the next one.

import (
	"fmt"
	"math/rand/v2"
	"net/netip"
	"sort"
	"strings"
	"testing"
	"testing/synctest"

	"github.com/osrg/gobgp/v4/api"
	"github.com/osrg/gobgp/v4/internal/verif/vlib"
	"github.com/osrg/gobgp/v4/pkg/packet/bgp"
)

// c06L4Caps is what the speaker announces in its OPEN for the session.
func c06L4Caps(s c06Sess) []bgp.ParameterCapabilityInterface {
	caps := []bgp.ParameterCapabilityInterface{bgp.NewCapMultiProtocol(bgp.RF_IPv4_UC)}
	if !s.noV6 {
		caps = append(caps, bgp.NewCapMultiProtocol(bgp.RF_IPv6_UC))
	}
	if !s.as2 {
		caps = append(caps, bgp.NewCapFourOctetASNumber(s.pt.peerAS()))
	}
	var tuples []*bgp.CapAddPathTuple
	if s.ap4() {
		tuples = append(tuples, bgp.NewCapAddPathTuple(bgp.RF_IPv4_UC, bgp.BGP_ADD_PATH_SEND))
	}
	if s.ap6() && !s.noV6 {
		tuples = append(tuples, bgp.NewCapAddPathTuple(bgp.RF_IPv6_UC, bgp.BGP_ADD_PATH_SEND))
	}
	if len(tuples) > 0 {
		caps = append(caps, bgp.NewCapAddPath(tuples))
	}
	if s.ext {
		caps = append(caps, bgp.NewCapExtendedMessage())
	}
	return caps
}

// c06L4BaseOK: can base bi be laid out well-formed under the session's options?
func c06L4BaseOK(s c06Sess, bi int) bool {
	b := c06Bases[bi]
	hasV4 := len(b.nlri) > 0 || len(b.wdr) > 0 || b.reachV4
	hasV6 := (len(b.reach) > 0 && !b.reachV4) || len(b.unreach) > 0
	switch {
	case b.addPath != s.addPath:
		return false
	case s.noV6 && hasV6:
		return false
	case s.addPath && s.apFam == 1 && (hasV6 || b.reachV4):
		return false
	case s.addPath && s.apFam == 2 && hasV4:
		return false
	case s.as2 && b.asShape == 2: // carries an AS number above 65535
		return false
	}
	return true
}

// c06L4FaultOK: is the fault's construction valid under the session's options?
func c06L4FaultOK(s c06Sess, f *c06Fault) bool {
	if f.peers&(1<<uint(s.pt)) == 0 {
		return false
	}
	mp := f.typ == c06TMPReach || f.typ == c06TMPUnreach
	if s.as2 && (f.typ == c06TASPath || f.typ == c06TAggregator || f.typ == c06TAS4Path || f.typ == c06TAS4Agg) {
		return false // built with 4-octet AS numbers
	}
	if (s.noV6 || s.addPath && s.apFam == 1) && mp {
		return false
	}
	if s.addPath && s.apFam == 2 && f.typ < 0 { // the framing faults add ipv4 prefixes
		return false
	}
	return true
}

func c06L4Pick(r *rand.Rand, s c06Sess, faults []*c06Fault) *c06Case {
	for try := 0; try < 60; try++ {
		f := faults[r.IntN(len(faults))]
		bi := r.IntN(len(c06Bases))
		if !c06L4FaultOK(s, f) || !c06L4BaseOK(s, bi) {
			continue
		}
		c, ok := c06Make(4, s, bi, []*c06Fault{f}, []int{r.IntN(c06NPos(bi, s.pt) + 1)})
		if !ok || !c.present() {
			continue
		}
		if ann, _ := c.required(); len(ann) > 0 || try > 40 {
			return c
		}
	}
	return nil
}

// c06L4Changed names the capabilities that differ between two sessions.
func c06L4Changed(a, b c06Sess) string {
	var d []string
	if a.as2 != b.as2 {
		d = append(d, "as4")
	}
	if a.ap4() != b.ap4() {
		d = append(d, "addpath-v4")
	}
	if a.ap6() != b.ap6() {
		d = append(d, "addpath-v6")
	}
	if a.ext != b.ext {
		d = append(d, "extmsg")
	}
	if a.noV6 != b.noV6 {
		d = append(d, "ipv6")
	}
	sort.Strings(d)
	if len(d) == 0 {
		return "nothing"
	}
	return strings.Join(d, "+")
}

// c06L4Plan draws the capability sets of the sessions. Fixed plans flip exactly one capability.
func c06L4Plan(r *rand.Rand, k int, pt c06PeerType, taw bool) []c06Sess {
	norm := func(s c06Sess) c06Sess {
		if !s.addPath {
			s.apFam = 0
		}
		if s.noV6 && s.addPath && s.apFam == 2 {
			s.apFam = 1
		}
		return s
	}
	flips := []func(s c06Sess, on bool) c06Sess{
		func(s c06Sess, on bool) c06Sess { s.as2 = !on; return s },
		func(s c06Sess, on bool) c06Sess { s.addPath, s.apFam = on, 0; return s },
		func(s c06Sess, on bool) c06Sess { s.addPath, s.apFam = on, 1; return s },
		func(s c06Sess, on bool) c06Sess { s.addPath, s.apFam = on, 2; return s },
		func(s c06Sess, on bool) c06Sess { s.ext = on; return s },
		func(s c06Sess, on bool) c06Sess { s.noV6 = !on; return s },
	}
	base := c06Sess{pt: pt, taw: taw}
	if k >= 0 && k < 2*len(flips) {
		f, on := flips[k/2], k%2 == 0
		return []c06Sess{norm(f(base, !on)), norm(f(base, on))}
	}
	n := 2 + r.IntN(2)
	cur := norm(c06Sess{pt: pt, taw: taw, as2: r.IntN(2) == 0, addPath: r.IntN(2) == 0, apFam: r.IntN(3), ext: r.IntN(2) == 0, noV6: r.IntN(3) == 0})
	out := []c06Sess{cur}
	for len(out) < n {
		nx := cur
		for i := 1 + r.IntN(2); i > 0; i-- {
			j := r.IntN(len(flips))
			nx = flips[j](nx, r.IntN(2) == 0)
		}
		nx = norm(nx)
		if nx == cur {
			nx.as2 = !nx.as2
		}
		out = append(out, nx)
		cur = nx
	}
	return out
}

// c06L4Big makes the (well-formed) message longer than 4096 octets: only an extended-message session may carry it.
func c06L4Big(c *c06Case) {
	c.msg.remove(c06TLarge)
	var v []byte
	for i := 0; i < 345; i++ {
		v = append(v, c06U32(65000)...)
		v = append(v, c06U32(uint32(i))...)
		v = append(v, c06U32(7)...)
	}
	c.msg.insert(-1, c06Attr{flags: 0xd0, typ: c06TLarge, val: v, lenField: -1})
	c.raw = c.msg.bytes()
	c.walked = c06Walk(c.raw)
}

func c06L4Case(t *testing.T, rec *vlib.Rec, idx int, r *rand.Rand, plan []c06Sess, faults []*c06Fault) {
	pt, taw := plan[0].pt, plan[0].taw
	tawN := 0
	if taw {
		tawN = 1
	}
	g := &api.Global{Asn: c06LocalAS, RouterId: "1.1.1.1"}
	if pt == c06Confed {
		g.Confederation = &api.Confederation{Enabled: true, Identifier: c06ConfedID, MemberAsList: []uint32{c06MemberAS}}
	}
	n := simStart(t, g)
	defer func() {
		n.stop()
		synctest.Wait()
	}()
	kind := simEBGP
	if pt == c06IBGP {
		kind = simIBGP
	}
	// gobgp's side is the same for all sessions: both families, ADD-PATH receive on both; what a session
	// negotiates follows from the speaker's OPEN alone
	inj, err := n.addPeer(simPeerSpec{Kind: kind, Addr: c06PeerAddr, AS: pt.peerAS(), ID: "2.2.2.2", V6: true, APRecv: true})
	if err != nil {
		rec.Inconclusive("c06: AddPeer: " + err.Error())
		return
	}
	third, err := n.addPeer(simPeerSpec{Kind: simEBGP, Addr: c06ObserverAdr, AS: c06ObserverAS, ID: "3.3.3.3", V6: true,
		SpeakerMod: func(c *simSpeakerConf) { c.ExtraCaps = append(c.ExtraCaps, bgp.NewCapExtendedMessage()) }})
	if err != nil {
		rec.Inconclusive("c06: AddPeer: " + err.Error())
		return
	}
	if !taw {
		if err := n.s.mgmtOperation(func() error {
			peer := n.s.neighborMap[netip.MustParseAddr(c06PeerAddr)]
			peer.fsm.lock.Lock()
			cf := peer.fsm.pConf.ReadCopy()
			cf.ErrorHandling.Config.TreatAsWithdraw = false
			peer.fsm.pConf.Update(&cf)
			peer.fsm.lock.Unlock()
			return nil
		}, false); err != nil {
			rec.Inconclusive("c06: set treat-as-withdraw: " + err.Error())
			return
		}
	}
	synctest.Wait()
	if err := third.bringUp(40); err != nil {
		rec.Inconclusive("c06: " + err.Error())
		return
	}
	var history []string
	for si, s := range plan {
		history = append(history, s.caps())
		// the capabilities that took another value in any earlier session of this neighbour (state may leak from any of them)
		changed := "first-session"
		if si > 0 {
			set := map[string]bool{}
			for _, e := range plan[:si] {
				for _, x := range strings.Split(c06L4Changed(e, s), "+") {
					if x != "nothing" {
						set[x] = true
					}
				}
			}
			var d []string
			for x := range set {
				d = append(d, x)
			}
			sort.Strings(d)
			changed = strings.Join(d, "+")
			if changed == "" {
				changed = "nothing"
			}
		}
		inj.close()
		synctest.Wait()
		inj.conf.Caps = c06L4Caps(s)
		if err := inj.bringUp(60); err != nil {
			rec.Inconclusive("c06: layer 4 session " + fmt.Sprint(si) + ": " + err.Error())
			return
		}
		rec.Count("l4_sessions", 1)
		rec.Count("l4_change_"+changed, 1)
		wit := func(c *c06Case, o *c06Obs) map[string]any {
			w := c.witness(idx, o)
			w["sessions_so_far"], w["session_index"], w["capabilities_changed"] = append([]string{}, history...), si, changed
			return w
		}
		// ---- (a) well-formed under this session's options
		var bis []int
		for bi := range c06Bases {
			if c06L4BaseOK(s, bi) && (len(c06Bases[bi].nlri) > 0 || len(c06Bases[bi].reach) > 0) {
				bis = append(bis, bi)
			}
		}
		if len(bis) == 0 {
			rec.Inconclusive("c06: layer 4: no base for " + s.caps())
			return
		}
		good, _ := c06Make(4, s, bis[r.IntN(len(bis))], nil, nil)
		if s.ext {
			c06L4Big(good)
			rec.Count("l4_messages_over_4096", 1)
		}
		if err := inj.sendRaw(good.raw); err != nil {
			rec.Inconclusive("c06: send: " + err.Error())
			return
		}
		synctest.Wait()
		o := c06Observe(rec, idx, n, inj, third, good, nil, nil)
		rec.Eval()
		rec.Count("l4_wellformed_updates", 1)
		if got := good.derive(o); !got.has(c06None) {
			rec.Violation(fmt.Sprintf("c06:resession:%s:taw%d:well-formed-penalised:after-change-of-%s", pt, tawN, changed),
				fmt.Sprintf("layer 4, %s session #%d of the neighbour (%s; sessions so far %v): an UPDATE that is well-formed under this session's options (base %s) got reaction %s; %s",
					s, si, s.caps(), history, c06Bases[good.base].name, got, strings.Join(o.notes, "; ")), wit(good, o))
			continue
		}
		good.judgeBase(rec, idx, o, "layer 4, "+s.caps())
		rec.Nontrivial(fmt.Sprintf("4|%s|%s|%s|%d", s, s.caps(), changed, good.base))
		// take its routes back (a well-formed withdrawal) so that step (b) starts from a clean table
		wd := &c06Msg{addPath: good.msg.addPath, wdrLenField: -1, attrLenField: -1}
		var un []c06Pfx
		for _, p := range append(append([]c06Pfx{}, good.msg.nlri...), good.msg.reach...) {
			if p.v6 {
				un = append(un, p)
			} else {
				wd.wdr = append(wd.wdr, p)
			}
		}
		if len(un) > 0 {
			wd.attrs = []c06Attr{{flags: 0x80, typ: c06TMPUnreach, lenField: -1, val: c06MPUnreachVal(2, un, good.msg.addPath)}}
		}
		inj.sendRaw(wd.bytes())
		synctest.Wait()
		// ---- (b) a fault under this session's options
		c := c06L4Pick(r, s, faults)
		if c == nil {
			rec.Count("l4_inapplicable", 1)
			continue
		}
		m := c.msg
		var pre []c06Pfx
		seen := map[string]bool{}
		for _, l := range [][]c06Pfx{m.nlri, m.reach, m.wdr, m.unreach} {
			for _, p := range l {
				if !seen[p.key(m.addPath)] {
					seen[p.key(m.addPath)] = true
					pre = append(pre, p)
				}
			}
		}
		var by []string
		for _, b := range c06Bystanders {
			p := c06P(b, 3)
			if p.v6 && s.noV6 {
				continue
			}
			pre = append(pre, p)
			if p.v6 {
				by = append(by, p.key(s.ap6()))
			} else {
				by = append(by, p.key(s.ap4()))
			}
		}
		for _, raw := range c06Prelude(s, pre) {
			inj.sendRaw(raw)
		}
		synctest.Wait()
		adj, _ := c06List(n, api.TableType_TABLE_TYPE_ADJ_IN, c06PeerAddr, s.addPath)
		okPre := inj.established()
		for _, k := range by {
			if ap, in := adj[k]; !in || !c06HasMarker(ap.Attrs) {
				okPre = false
			}
		}
		if !okPre {
			rec.Violation(fmt.Sprintf("c06:resession:%s:taw%d:well-formed-penalised:after-change-of-%s", pt, tawN, changed),
				fmt.Sprintf("layer 4, %s session #%d (%s; sessions so far %v): the valid routes sent before the faulty message were not accepted", s, si, s.caps(), history), wit(c, nil))
			continue
		}
		if err := inj.sendRaw(c.raw); err != nil {
			continue
		}
		synctest.Wait()
		o = c06Observe(rec, idx, n, inj, third, c, by, nil)
		rec.Eval()
		rec.Count("l4_faulty_updates", 1)
		c06Count(rec, c)
		rec.Nontrivial(fmt.Sprintf("4|%s|%d|%v|%s|%s", c.faultIDs(), c.base, c.pos, s, s.caps()))
		c.judge(rec, idx, o)
	}
}
